import JSL.Inv.EnvReach
import JSL.Props.Example
import JSL.Inv.ShiftEnv

/-!
# C12 — simulated time is monotone, event-exact and (without outages) translation-invariant

* handlers never touch the clock (`c12_handlers_keep_clock`);
* the time machines the environment uses stay while something can be decided
  (`c12_stays_while_decidable`) and otherwise jump exactly to the earliest pending completion or
  arrival, or by one unit if nothing is pending (`c12_jump_exact`);
* along every step of every execution the clock never goes back (`c12_monotone`), and when
  control returns with the shop not done nothing is overdue (`c12_nothing_overdue`);
* a forced jump from such a state strictly advances time (`c12_forced_jump_strict`);
* `jump_by_one` is not event-exact (`c12_jump_by_one_overshoots`, why it is excluded from the
  admissible actions; nothing in the environment uses it);
* translation invariance, for instances on which no outage is configured (`NoOutages`): one
  `state.step` (`c12_translation_invariant_step`), `reset` (`c12_translation_invariant_reset`), a
  whole run through the middleware under any agent behaviour (`c12_translation_invariant_run`) and
  `env.step` apart from the terminal reward (`c12_translation_invariant_env_step`) started `δ` later
  give exactly the outcome with every timestamp moved by `δ` and nothing else changed – stochastic
  durations included (the sampled values do not depend on the clock);
* it is **false when outages are configured** – the time since an outage last struck is measured
  from the absolute instant 0 (`c12_outage_absolute_zero`) – and the terminal reward reads the
  absolute clock (`c12_terminal_reward_reads_clock`).
-/

namespace JSL

variable {orc : Oracle} {inst : Instance}

/-- applying any transition leaves the clock alone -/
theorem c12_handlers_keep_clock {s s' : State} {r r' : Rng} {tr : Transition}
    (h : applyTransition orc inst s r tr = .ok (s', r')) : s'.time = s.time := applyTransition_time h

/-- while the agent can still decide something, `jump_to_event` does not move the clock -/
theorem c12_stays_while_decidable {cfg : SMConfig} {s : State} {n : Nat}
    (hn : numPossibleEvents inst cfg s = .ok n) (hpos : 0 < n) : jumpToEvent inst cfg s = .ok s.time := by
  unfold jumpToEvent
  simp [hn, hpos]

/-- otherwise it is the forced jump -/
theorem c12_else_forced {cfg : SMConfig} {s : State} (hn : numPossibleEvents inst cfg s = .ok 0) :
    jumpToEvent inst cfg s = forceJump s := by
  unfold jumpToEvent
  simp [hn]

/-- **Event-exact.**  The forced jump goes exactly to the earliest pending processing end or AGV
arrival – it is one of them and no pending one is earlier – or advances by one unit when nothing
is pending. -/
theorem c12_jump_exact {s : State} (hS : SchedInv s) {t : Int} (h : forceJump s = .ok t) :
    s.time ≤ t ∧
    (∀ j ∈ s.jobs, ∀ o ∈ j.ops, o.st = .processing → ∀ b, o.stop = some b → t ≤ b) ∧
    (∀ x ∈ s.transports, x.st ≠ .idle → ∀ o, x.occ = .at o → t ≤ o) ∧
    ((∃ j ∈ s.jobs, ∃ o ∈ j.ops, o.st = .processing ∧ o.stop = some t) ∨
     (∃ x ∈ s.transports, x.st ≠ .idle ∧ x.occ = .at t) ∨
     ((∀ j ∈ s.jobs, ∀ o ∈ j.ops, o.st ≠ .processing) ∧
      (∀ x ∈ s.transports, x.st ≠ .idle → ∀ o, x.occ ≠ .at o) ∧ t = s.time + 1)) := by
  obtain ⟨h1, h2, h3⟩ := forceJump_spec hS h
  exact ⟨h1, h2.1, h2.2, h3⟩

/-- **Monotone.**  Along one `state.step` of any execution the clock never goes back: not in the
post-state of any applied transition, not in a sub-state, and not in the returned state while the
episode runs (when the shop is done the clock is stamped with the makespan instead). -/
theorem c12_monotone {cfg : SMConfig} {s0 s : State} (hst : Start orc inst s0) (h : OccursA orc inst cfg s0 s)
    {a : Action} (ha : Admissible a) {fuel : Nat} {r r' : Rng} {res : SMResult} {mic : List State}
    (hstep : smStep orc inst cfg fuel s r a = .ok (res, r', mic)) :
    (∀ σ ∈ mic, s.time ≤ σ.time) ∧ (∀ σ ∈ res.subStates, s.time ≤ σ.time) ∧
      (res.done = false → s.time ≤ res.state.time) := by
  obtain ⟨w, hI, hS⟩ := occursA_inv hst h
  have nn := nonnegB_sound hst.samples hst.nonneg
  have := smStep_clock w nn hI hS ha hstep
  exact ⟨this.1, this.2.1, this.2.2.1⟩

/-- **Nothing overdue when control returns.**  After a successful step that does not finish the
shop, every busy machine is occupied strictly beyond now and every busy AGV with a fixed arrival
or waiting time has it strictly ahead. -/
theorem c12_nothing_overdue {cfg : SMConfig} {s0 s : State} (hst : Start orc inst s0) (h : OccursA orc inst cfg s0 s)
    {a : Action} (ha : Admissible a) {fuel : Nat} {r r' : Rng} {res : SMResult} {mic : List State}
    (hstep : smStep orc inst cfg fuel s r a = .ok (res, r', mic)) (hs : res.success = true) (hd : res.done = false) :
    (∀ m ∈ res.state.machines, m.st ≠ .idle → ∃ b, m.occ = some b ∧ res.state.time < b) ∧
    (∀ t ∈ res.state.transports, t.st ≠ .idle → ∀ o, t.occ = .at o → res.state.time < o) := by
  obtain ⟨w, hI, hS⟩ := occursA_inv hst h
  have nn := nonnegB_sound hst.samples hst.nonneg
  have hq := (smStep_clock w nn hI hS ha hstep).2.2.2.1 hs hd
  have hS' := (smStep_sched w nn hI hS ha hstep).2.2.2 hd
  refine ⟨?_, fun t ht hb o ho => hq.transport ht hb ho⟩
  intro m hm hb
  obtain ⟨j, _, hstore, _, _, _, _, hne⟩ := hS'.busyHolds m hm hb
  have := hq.machine hm hb (by rw [hstore]; simp)
  cases ho : m.occ with
  | none => exact absurd ho hne
  | some b =>
    rw [ho] at this
    simp [dueAt] at this
    exact ⟨b, rfl, this⟩

/-- a forced jump from a state in which nothing is due strictly advances the clock -/
theorem forceJump_strict {s : State} (w : WF inst) (hI : StructInv inst s) (hS : SchedInv s) (hq : Quiet inst s)
    {t : Int} (h : forceJump s = .ok t) : s.time < t := by
  obtain ⟨_, _, h3⟩ := forceJump_spec hS h
  rcases h3 with ⟨j, hj, o, ho, hst, hstop⟩ | ⟨x, hx, hb, hocc⟩ | ⟨_, _, e⟩
  · obtain ⟨m, hm, _, hb, hstore⟩ := hS.procOnBusy j hj o ho hst
    obtain ⟨j', hj', hstore', op, hop, _, hstop', hne⟩ := hS.busyHolds m hm hb
    have hjj : j' = j := by
      rw [hstore] at hstore'
      have : j.id = j'.id := by simpa using hstore'
      exact eq_of_mem_of_key_eq (key := fun (y : JobState) => y.id) (hI.shape.jobsNodup w) hj' hj this.symm
    subst hjj
    obtain ⟨_, _, hl, _, hpst⟩ := processing?_split' hop
    have hopmem : op ∈ j'.ops := by rw [hl]; simp
    have : o = op := OpsOK_one_processing _ _ (hS.ops j' hj) o ho op hopmem hst hpst
    subst this
    have hd := hq.machine hm hb (by rw [hstore]; simp)
    rw [← hstop', hstop] at hd
    simpa [dueAt] using hd
  · exact hq.transport hx hb hocc
  · omega

/-- **A forced jump strictly advances time** in every environment state that still has offers. -/
theorem c12_forced_jump_strict {ec : EnvCfg} {st : RewardStatic} {s0 : State} {e : EnvState}
    (hst : Start orc inst s0) (h : EnvReach orc inst ec st s0 e) (hne : e.res.possible ≠ [])
    {t : Int} (hj : forceJump e.res.state = .ok t) : e.res.state.time < t := by
  have hi := envReach_inv hst h
  obtain ⟨w, hI, hS⟩ := occursA_inv hst (hi.live hne).1
  exact forceJump_strict w hI hS (hi.quiet hne) hj

/-- `jump_by_one` is not event-exact: with something pending two units ahead it stops one unit
short of it, and with something pending right now … it still advances.  It is excluded from
the admissible actions; neither the environment nor the middleware ever uses it. -/
theorem c12_jump_by_one_overshoots : ∃ (s : State) (cfg : SMConfig) (t : Int),
    runTimeMachine Ex.inst cfg s .jumpByOne = .ok t ∧ forceJump s = .ok (s.time) ∧ s.time < t := by
  refine ⟨{ Ex.s0 with jobs := Ex.s0.jobs.map fun j => { j with ops := j.ops.map fun o =>
      if o.idx = 0 ∧ o.job = 0 then { o with st := .processing, start := some 0, stop := some 0 } else o } },
    { allowEarly := true }, 1, rfl, rfl, by decide⟩

/-- **Translation invariance fails with outages.**  Whether an outage strikes depends on the time
since it last did; for an outage that has never struck that time is measured from the absolute
instant 0, not from the start of the episode: the same question asked at the same relative
instant of an episode started `d` later is answered differently. -/
theorem c12_outage_absolute_zero :
    ∃ (now d f : Int), 0 < d ∧
      (do let since ← outageSince now (.inactive none); pure (shouldApply orc (fun _ => 0) (.det f) since).1 : Except Err Bool) ≠
      (do let since ← outageSince (now + d) (.inactive none); pure (shouldApply orc (fun _ => 0) (.det f) since).1) := by
  refine ⟨5, 100, 10, by decide, ?_⟩
  simp [outageSince, shouldApply, bind, Except.bind, pure, Except.pure]

/-! ### translation invariance without outages -/

/-- **One step of the state machine is translation-invariant**: from the state with every
timestamp moved by `δ`, the same action gives the result with every timestamp (returned state,
sub-states, post-state of every applied transition) moved by `δ`; action, success and done flags,
offers, update counters and the raised error are the same. -/
theorem c12_translation_invariant_step (hno : NoOutages inst) (δ : Int) (cfg : SMConfig) (fuel : Nat) (s : State)
    (r : Rng) (a : Action) :
    smStep orc inst cfg fuel (shiftState δ s) r a =
      (smStep orc inst cfg fuel s r a).map (fun p => (shiftResult δ p.1, p.2.1, p.2.2.map (shiftState δ))) :=
  smStep_shift δ hno orc cfg fuel s r a

/-- `reset` from the initial state moved by `δ` -/
theorem c12_translation_invariant_reset (hno : NoOutages inst) (δ : Int) (ec : EnvCfg) (s : State) (r : Rng) :
    envReset orc inst ec (shiftState δ s) r =
      (envReset orc inst ec s r).map (fun p => ({ p.1 with res := shiftResult δ p.1.res }, p.2.map (shiftState δ))) :=
  envReset_shift δ hno orc ec s r

/-- **A whole run is translation-invariant**: `reset`, then any sequence of agent actions (accept,
decline, outside the space) through the middleware – started `δ` later, every state of every
result is the one of the original run moved by `δ`; offers, flags, bookkeeping and errors agree. -/
theorem c12_translation_invariant_run (hno : NoOutages inst) (δ : Int) (cfg : SMConfig) (mc : MwCfg) (fuel : Nat)
    (s0 : State) (r : Rng) (as : List AgentAct) :
    mwRun orc inst cfg mc fuel (shiftState δ s0) r as =
      (mwRun orc inst cfg mc fuel s0 r as).map
        (fun p => ((shiftResult δ p.1.1, p.1.2.map (shiftState δ)), p.2.map (Except.map (shiftEntry δ)))) :=
  mwRun_shift δ hno orc cfg mc fuel s0 r as

/-- `env.step`, everything but the reward: flags, makespan (moved by `δ`), states, counters -/
theorem c12_translation_invariant_env_step (hno : NoOutages inst) (δ : Int) (ec : EnvCfg) (st : RewardStatic)
    (e : EnvState) (a : AgentAct) :
    (envStep orc inst ec st (shiftEnv δ e) a).map StepOut.noReward =
      (envStep orc inst ec st e a).map (fun o => (shiftStepOut δ o).noReward) :=
  envStep_shift_noReward δ hno orc ec st e a

/-- the terminal reward is not translation-invariant: it reads the absolute clock -/
theorem c12_terminal_reward_reads_clock :
    sparseReward ⟨1, 0, 0⟩ ⟨2, 0, 1, 1⟩ (0 + 1) true false ≠ sparseReward ⟨1, 0, 0⟩ ⟨2, 0, 1, 1⟩ 0 true false :=
  sparseReward_reads_clock

/-- the decidable form printed on the `G` line of every scenario by both sides -/
theorem c12_no_outages_checker_sound (h : noOutagesB inst = true) : NoOutages inst := by
  simp only [noOutagesB, Bool.and_eq_true, List.all_eq_true, List.isEmpty_iff] at h
  exact ⟨h.1, h.2⟩

/-- non-vacuity: the example instance has no outage configured, and moving by 0 is the identity -/
example : NoOutages Ex.inst ∧ shiftState 0 Ex.s0 = Ex.s0 := ⟨⟨by decide, by decide⟩, shiftState_zero _⟩

end JSL
