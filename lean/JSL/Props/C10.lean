import JSL.Inv.EnvReach
import JSL.Props.C02
import JSL.Inv.OutagePast

/-!
# C10 — outages block a component for exactly their duration, then release it

* `c10_duration_nonneg` – the blocking time computed when outages are sampled is never negative;
* `c10_longest_active` – it is the longest of the outages active at that moment, 0 if none is;
* `c10_machine_blocked` / `c10_agv_blocked` – at WORKING → OUTAGE (TRANSIT → OUTAGE) the component
  becomes occupied until now + that time; the tables admit nothing but OUTAGE → IDLE from OUTAGE,
  so no work is accepted and a machine's job is not released before;
* `c10_release` – OUTAGE → IDLE returns the component to IDLE with every outage record inactive
  and the end time of those that struck remembered;
* `c10_no_outage_immediate` – with no outage due the component is occupied until *now*, i.e. the
  release transition is due in the same instant.

Composed over whole episodes (`Inv/OutageInv.lean`, `Inv/OutagePast.lean`):
**`c10_outage_records`** – in every exposed state a component that is not in OUTAGE carries only
inactive records, and one in OUTAGE is occupied exactly until the strike instant plus its longest
active outage, every active record having started at the strike; `c10_blocked_window` – while in
OUTAGE a machine still holds its job, an AGV claims none, and the clock lies in that window;
`c10_remembered_ends_are_past` – every remembered end is an instant that has passed.  They need
the initial records to be inactive (`outRestB`, `outPastB` – what the compiler produces; printed on
the `G` line by both sides).
-/

namespace JSL

variable {orc : Oracle} {inst : Instance}

/-- outage durations are never negative -/
theorem c10_duration_nonneg {now : Int} {comp : List OutageState} (hn : ∀ sid k, 0 ≤ orc sid k)
    {cfgs : List OutageCfg} {r r' : Rng} {outs : List OutageState}
    (hd : ∀ o ∈ cfgs, ∀ t, o.dur = .det t → 0 ≤ t)
    (h : newOutageStates orc now comp cfgs r = .ok (outs, r')) :
    0 ≤ occupiedFor outs ∧ ∀ x ∈ outs, ∀ a b, x.st = .active a b → a = now ∧ a ≤ b := by
  refine ⟨occupiedFor_new_nonneg hn hd h, ?_⟩
  intro x hx a b hst
  rcases (newOutageStates_spec hn cfgs r r' outs hd h).2 x hx with ⟨l, hl, _⟩ | ⟨d, hd0, hact⟩
  · rw [hl] at hst; cases hst
  · rw [hact] at hst; simp at hst; obtain ⟨rfl, rfl⟩ := hst; exact ⟨rfl, by omega⟩

/-- the component is blocked for the longest simultaneously active outage (0 if none) -/
theorem c10_longest_active (l : List OutageState) :
    (∀ d ∈ activeDurations l, d ≤ occupiedFor l) ∧
    ((activeDurations l = [] ∧ occupiedFor l = 0) ∨ occupiedFor l ∈ activeDurations l) :=
  ⟨occupiedFor_ge l, occupiedFor_attained l⟩

/-- from OUTAGE the only transition either table admits is the release to IDLE -/
theorem c10_machine_blocked (b : MSt) : machineValid .outage b = true ↔ b = .idle := by
  cases b <;> decide

theorem c10_agv_blocked (b : TSt) : transportValid .outage b = true ↔ b = .idle := by
  cases b <;> decide

/-- a machine struck at the end of processing is occupied until now + the longest active outage,
its records are the freshly sampled ones, and its job stays in its buffer -/
theorem c10_machine_outage {s s' : State} {r r' : Rng} {tr : Transition} {m : MachineState} (hm : m ∈ s.machines)
    (h : handleMachineWorkingToOutage orc inst s r tr m = .ok (s', r')) :
    ∃ (mc : MachineCfg) (outs : List OutageState), mc ∈ inst.machines ∧ mc.id = m.id ∧
      newOutageStates orc s.time m.outages mc.outages r = .ok (outs, r') ∧
      ∃ m' ∈ s'.machines, m'.id = m.id ∧ m'.st = .outage ∧ m'.outages = outs ∧
        m'.occ = some (s.time + occupiedFor outs) ∧ m'.buffer = m.buffer := by
  obtain ⟨mc, outs, j, op, h1, h2, h3, _, _, _, rfl⟩ := workingToOutage_spec h
  refine ⟨mc, outs, h1, h2, h3, m.toOutage outs (s.time + occupiedFor outs), ?_, rfl, rfl, rfl, rfl, rfl⟩
  simp only [State.replaceJob, State.replaceMachine]
  exact List.mem_map.mpr ⟨m, hm, by simp [MachineState.toOutage]⟩

/-- an AGV struck at delivery: same bookkeeping -/
theorem c10_agv_outage {s s' : State} {r r' : Rng} {tr : Transition} {t : TransportState} (ht : t ∈ s.transports)
    (h : handleAgvTransitToOutage orc inst s r tr t = .ok (s', r')) :
    ∃ (tc : TransportCfg) (outs : List OutageState), tc ∈ inst.transports ∧ tc.id = t.id ∧
      newOutageStates orc s.time t.outages tc.outages r = .ok (outs, r') ∧
      ∃ t' ∈ s'.transports, t'.id = t.id ∧ t'.st = .outage ∧ t'.outages = outs ∧
        t'.occ = .at (s.time + occupiedFor outs) ∧ t'.job = none := by
  obtain ⟨j, cur, pick, drop, tc, outs, b1, b2, _, _, _, _, h5, h6, h7, hcase⟩ := transitToOutage_spec h
  refine ⟨tc, outs, h5, h6, h7, t.toOutage j.id b1 outs (s.time + occupiedFor outs) drop, ?_, rfl, rfl, rfl, rfl, rfl⟩
  rcases hcase with ⟨mid, ms, _, _, _, _, rfl⟩ | ⟨bid, b, _, _, _, _, rfl⟩
  · simp only [State.replaceJob, State.replaceMachine, State.replaceTransport]
    exact List.mem_map.mpr ⟨t, ht, by simp [TransportState.toOutage]⟩
  · simp only [State.replaceJob, State.replaceBuffer, State.replaceTransport]
    exact List.mem_map.mpr ⟨t, ht, by simp [TransportState.toOutage]⟩

/-- releasing makes every record inactive; one that struck remembers its end -/
theorem c10_release_record (o : OutageState) :
    (∀ a b, o.st = .active a b → (releaseOutage o).st = .inactive (some b)) ∧
    (∀ l, o.st = .inactive l → releaseOutage o = o) ∧ (releaseOutage o).id = o.id ∧
    ∃ l, (releaseOutage o).st = .inactive l := by
  unfold releaseOutage
  cases h : o.st with
  | active a b => simp
  | inactive l => simp [h]

/-- **Release.**  OUTAGE → IDLE on a machine: the machine is IDLE, every record is inactive again,
and the job has left the machine's buffer for its post-buffer. -/
theorem c10_machine_release {s s' : State} {r r' : Rng} {m : MachineState} (hm : m ∈ s.machines)
    (h : handleMachineOutageToIdle inst s r m = .ok (s', r')) :
    ∃ m' ∈ s'.machines, m'.id = m.id ∧ m'.st = .idle ∧ m'.outages = m.outages.map releaseOutage ∧
      ∃ j, m.buffer.store.head? = some j ∧ m'.post.store = m.post.store ++ [j] := by
  obtain ⟨j, op, mc, rest, b1, b2, h1, _, _, _, _, _, _, rfl⟩ := outageToIdle_spec h
  refine ⟨m.toIdle j.id b1 b2, ?_, rfl, rfl, rfl, j.id, by simp [h1], rfl⟩
  simp only [State.replaceJob, State.replaceMachine]
  exact List.mem_map.mpr ⟨m, hm, by simp [MachineState.toIdle]⟩

theorem c10_agv_release {s s' : State} {r r' : Rng} {t : TransportState} (ht : t ∈ s.transports)
    (h : handleAgvOutageToIdle s r t = .ok (s', r')) :
    ∃ t' ∈ s'.transports, t'.id = t.id ∧ t'.st = .idle ∧ t'.outages = t.outages.map releaseOutage := by
  obtain ⟨_, rfl⟩ := agvOutageToIdle_spec h
  refine ⟨t.toIdle, ?_, rfl, rfl, rfl⟩
  simp only [State.replaceTransport]
  exact List.mem_map.mpr ⟨t, ht, by simp [TransportState.toIdle]⟩

/-- with no outage due the blocking time is 0: the component is occupied until *now*, so its
release is due in the very same instant -/
theorem c10_no_outage_immediate (outs : List OutageState) (h : ∀ o ∈ outs, ∃ l, o.st = .inactive l) (now : Int) :
    occupiedFor outs = 0 ∧ dueAt (some (now + occupiedFor outs)) now = true := by
  have : activeDurations outs = [] := by
    unfold activeDurations
    apply List.filterMap_eq_nil_iff.mpr
    intro o ho
    obtain ⟨l, hl⟩ := h o ho
    simp [hl]
  have h0 : occupiedFor outs = 0 := by unfold occupiedFor; rw [this]
  exact ⟨h0, by simp [h0, dueAt]⟩

/-- the release is never late: in every state of every execution a machine in OUTAGE is not
overdue, and its job is still in its buffer (not released before) -/
theorem c10_not_released_before {cfg : SMConfig} {s0 σ : State} (hst : Start orc inst s0)
    (h : OccursA orc inst cfg s0 σ) {m : MachineState} (hm : m ∈ σ.machines) (hs : m.st = .outage) :
    ∃ j ∈ σ.jobs, m.buffer.store = [j.id] ∧ ∃ b, m.occ = some b ∧ σ.time ≤ b := by
  obtain ⟨j, hj, hstore, op, b, _, _, _, hocc, hle⟩ := c02_no_overdue hst h hm (by rw [hs]; simp)
  exact ⟨j, hj, hstore, b, hocc, hle⟩

/-- **Outage bookkeeping in every exposed state.** -/
theorem c10_outage_records {ec : EnvCfg} {st : RewardStatic} {s0 σ : State} (hst : Start orc inst s0)
    (h0 : outRestB s0 = true) (h : Exposed orc inst ec st s0 σ) : OutageRec σ :=
  exposed_outage hst h0 h

/-- a machine in OUTAGE: the clock lies between the strike and the strike plus the longest active
outage, the machine is occupied exactly until then and still holds its job -/
theorem c10_blocked_window {cfg : SMConfig} {s0 σ : State} (hst : Start orc inst s0) (h0 : outRestB s0 = true)
    (h : OccursA orc inst cfg s0 σ) {m : MachineState} (hm : m ∈ σ.machines) (hs : m.st = .outage) :
    ∃ a, m.occ = some (a + occupiedFor m.outages) ∧ a ≤ σ.time ∧ σ.time ≤ a + occupiedFor m.outages ∧
      StruckAt m.outages a ∧ ∃ j ∈ σ.jobs, m.buffer.store = [j.id] :=
  occursA_outage_machine hst h0 h hm hs

/-- an AGV in OUTAGE: the same window, and it claims no job -/
theorem c10_blocked_window_agv {cfg : SMConfig} {s0 σ : State} (hst : Start orc inst s0) (h0 : outRestB s0 = true)
    (h : OccursA orc inst cfg s0 σ) {t : TransportState} (ht : t ∈ σ.transports) (hs : t.st = .outage) :
    ∃ a, t.occ = .at (a + occupiedFor t.outages) ∧ a ≤ σ.time ∧ σ.time ≤ a + occupiedFor t.outages ∧
      StruckAt t.outages a ∧ t.job = none :=
  occursA_outage_agv hst h0 h ht hs

/-- every remembered outage end lies in the past -/
theorem c10_remembered_ends_are_past {cfg : SMConfig} {s0 σ : State} (hst : Start orc inst s0) (h0 : outRestB s0 = true)
    (h1 : outPastB s0 = true) (h : OccursA orc inst cfg s0 σ) : OutagePast σ :=
  occursA_outagePast hst h0 h1 h

/-- non-vacuity: the example initial state has its outage records at rest -/
example : outRestB Ex.s0 = true ∧ outPastB Ex.s0 = true := by decide

end JSL
