import JSL.Inv.ObsIndex
import JSL.Inv.ObsRead

/-!
# C15 — observations faithfully encode the state and identify the pending offer

* positions vs. numbers: the factory sorts jobs and machines by their numeric id and then uses
  list positions as job / machine numbers.  `c15_positions_are_numbers`: for jobs (machines)
  numbered 0 … n-1 position k holds number k, so every per-job / per-machine array is indexed by
  number, whatever the internal order.  `c15_string_order_misindexes_eleven`: sorted by id string –
  what the code did before the repair "fix: sort jobs and machines by numeric id" – position 2 of
  eleven holds number 10;
* **every field equals the independent reading of the state**, indexed by number:
  `c15_job_running_by_number`, `c15_job_progression_by_number`, `c15_available_by_number`,
  `c15_executed_by_number`, `c15_machine_running_by_number`, `c15_machine_progression_by_number`,
  `c15_current_time`; for the operation-array factory `c15_operation_progress_read` (idle 0, done 1,
  elapsed fraction while processing) and `c15_job_locations_read` – the latter in the *internal*
  order of the jobs, not by job number;
* the offer encoding is injective over the offers of one instance (`c15_offer_injective`, exact
  rationals; float32 rounding is checked per instance on the implementation side);
* the observation is a function of the state and the head offer (`c15_offer_depends_on_head`).

The proofs are in `Inv/ObsIndex.lean` and `Inv/ObsRead.lean`; this file states the obligations.
-/

namespace JSL

/-- **Positions are numbers.** -/
theorem c15_positions_are_numbers {α} (id : α → Nat) (l : List α) (n : Nat)
    (hids : (l.map id).Perm (List.range n)) : (sortById id l).map id = List.range n :=
  ix_positions_are_numbers id l n hids

theorem c15_job_running_by_number (nm : Nat) (tmax : Int) (s : State) (obs : SimpleObs)
    (h : simpleObs nm tmax s = .ok obs) (n : Nat)
    (hids : (s.jobs.map (·.id)).Perm (List.range n)) (k : Nat) (hk : k < n) :
    ∃ j ∈ s.jobs, j.id = k ∧ obs.jobRunning[k]? = some j.running :=
  ix_job_running_by_number nm tmax s obs h n hids k hk

theorem c15_machine_running_by_number (nm : Nat) (tmax : Int) (s : State) (obs : SimpleObs)
    (h : simpleObs nm tmax s = .ok obs) (n : Nat)
    (hids : (s.machines.map (·.id)).Perm (List.range n)) (k : Nat) (hk : k < n) :
    ∃ m ∈ s.machines, m.id = k ∧ obs.machineRunning[k]? = some (m.st == .working) :=
  ix_machine_running_by_number nm tmax s obs h n hids k hk

theorem c15_machine_progression_by_number (nm : Nat) (tmax : Int) (s : State) (obs : SimpleObs)
    (h : simpleObs nm tmax s = .ok obs) (n : Nat)
    (hids : (s.machines.map (·.id)).Perm (List.range n)) (k : Nat) (hk : k < n) :
    obs.machineProgression[k]? =
      some (((sortById (·.id) s.jobs).flatMap (·.ops)).filter fun o => o.machine == k && o.st == .done).length :=
  ix_machine_progression_by_number nm tmax s obs h n hids k hk

/-- per-job progress: position `k` holds the number of finished operations of job number `k` -/
theorem c15_job_progression_by_number (nm : Nat) (tmax : Int) (s : State) (obs : SimpleObs)
    (h : simpleObs nm tmax s = .ok obs) (n : Nat)
    (hids : (s.jobs.map (·.id)).Perm (List.range n)) (k : Nat) (hk : k < n) :
    ∃ j ∈ s.jobs, j.id = k ∧ obs.jobProgression[k]? = some (j.ops.filter (·.st == .done)).length :=
  obs_job_progression_by_number nm tmax s obs h n hids k hk

/-- availability: job number `k` is available iff it has an idle operation and none in progress -/
theorem c15_available_by_number (nm : Nat) (tmax : Int) (s : State) (obs : SimpleObs)
    (h : simpleObs nm tmax s = .ok obs) (n : Nat)
    (hids : (s.jobs.map (·.id)).Perm (List.range n)) (k : Nat) (hk : k < n) :
    ∃ j ∈ s.jobs, j.id = k ∧ obs.availableJobs[k]? = some (j.ops.any (·.st == .idle) && !j.running) :=
  obs_available_by_number nm tmax s obs h n hids k hk

/-- row `k`, column `μ`: job number `k` has a finished operation on machine number `μ` -/
theorem c15_executed_by_number (nm : Nat) (tmax : Int) (s : State) (obs : SimpleObs)
    (h : simpleObs nm tmax s = .ok obs) (n : Nat)
    (hids : (s.jobs.map (·.id)).Perm (List.range n)) (k : Nat) (hk : k < n) :
    ∃ j ∈ s.jobs, j.id = k ∧ ∃ row, obs.jobExecutedOnMachine[k]? = some row ∧ row.length = nm ∧
      ∀ μ, μ < nm → row[μ]? = some (j.ops.any fun o => o.st == .done && o.machine == μ) :=
  obs_executed_by_number nm tmax s obs h n hids k hk

/-- normalised time -/
theorem c15_current_time (nm : Nat) (tmax : Int) (s : State) (obs : SimpleObs)
    (h : simpleObs nm tmax s = .ok obs) :
    obs.currentTime = (s.time : Rat) / (tmax : Rat) ∧ tmax ≠ 0 :=
  obs_current_time nm tmax s obs h

/-- operation-array factory: one entry per operation record in internal order: 0 idle, 1 done, the
elapsed fraction while processing -/
theorem c15_operation_progress_read (inst : Instance) (s : State) (ops locs : List Rat)
    (h : opArrayObs inst s = .ok (ops, locs)) :
    ops.length = (s.jobs.flatMap (·.ops)).length ∧
    List.Forall₂ (OpEntryRead s.time) (s.jobs.flatMap (·.ops)) ops :=
  opArray_ops_read inst s ops locs h

/-- operation-array factory: job locations divided by the number of buffer slots minus one – in the
internal order of the jobs (this array is *not* indexed by job number) -/
theorem c15_job_locations_read (inst : Instance) (s : State) (ops locs : List Rat)
    (h : opArrayObs inst s = .ok (ops, locs)) :
    locs.length = s.jobs.length ∧
    List.Forall₂ (fun (j : JobState) (v : Rat) => v = (j.loc : Rat) / (opArrayMaxBuf inst : Rat)) s.jobs locs ∧
    (s.jobs ≠ [] → opArrayMaxBuf inst ≠ 0) :=
  opArray_locs_read inst s ops locs h

/-- **Regression: why the sort key matters.** -/
theorem c15_string_order_misindexes_eleven :
    sortByIdStr (fun (x : Nat) => x) (List.range 11) = [0, 1, 10, 2, 3, 4, 5, 6, 7, 8, 9] :=
  ix_string_order_misindexes_eleven

/-- **The offer encoding distinguishes any two different offers of one instance.** -/
theorem c15_offer_injective (inst : Instance) (n : Nat) (res res' : SMResult) (tr tr' : Transition)
    (rest rest' : List Transition) (hp : res.possible = tr :: rest) (hp' : res'.possible = tr' :: rest')
    (hj : ∀ j, tr.job = some j → j < n) (hj' : ∀ j, tr'.job = some j → j < n)
    (code : Rat × Rat × Rat)
    (h : currentTransition inst n res false = .ok code) (h' : currentTransition inst n res' false = .ok code) :
    tr.comp = tr'.comp ∧ tr.job = tr'.job :=
  ix_offer_injective inst n res res' tr tr' rest rest' hp hp' hj hj' code h h'

/-- equal head offers give equal encodings -/
theorem c15_offer_depends_on_head (inst : Instance) (n : Nat) (res res' : SMResult) (d : Bool)
    (h : res.possible.head? = res'.possible.head?) :
    currentTransition inst n res d = currentTransition inst n res' d :=
  ix_offer_depends_on_head inst n res res' d h

end JSL
