import JSL.Props.C05Pre
import JSL.Props.C11

/-!
# C11 for the wider class `totalClassPB`: the offers never run out

With an ordered pre-buffer the machine takes the job its discipline names by itself (a timed transition), so a
job waiting in a pre-buffer is worked off inside the `while timed_transitions` loop.  The statement the
environment needs survives: **a successful `state.step` ends with the shop finished or with an offer** – the
loop runs on while something is due, a forced jump lands on an instant at which something is due, and a quiet
state that is not finished holds an offer (`is_action_possible` does not read the type of the pre-buffer,
dispatch offers need unordered *pickup* buffers only).

* `c11_state_step_done_or_offer_pre` – the statement for `state.step`;
* `c11_never_out_of_offers_pre`      – every environment state of an episode whose result is successful and
  whose shop is not finished holds an offer;
* `c11_progress_pre`                 – in every such state, unless finished, a transition is on offer or
  something is pending.

* `c11_always_accept_finishes_pre`   – the always-accept agent: **if** the run of `n ≥ potBound inst` accepted
  offers returns, it ends with every job in an output buffer, not truncated, terminated (the potential argument
  of `JSL/Inv/AcceptBound.lean` needs the class only for "no offers ⇒ finished").

Not proved for the wider class: that the run returns for a given fuel (`c11_always_accept_terminates` uses the
fuel bound `c05_step_returns_in_class`, whose measure does not count the operations a machine with an ordered
pre-buffer starts inside the timed loop).  Without a fuel bound: every step of the run returns or runs out of
fuel (`c05_step_never_raises_with_offer_pre`).
-/

namespace JSL

variable {orc : Oracle} {inst : Instance}

/-- **a successful `state.step` of the wider class ends finished or with an offer** -/
theorem c11_state_step_done_or_offer_pre {cfg : SMConfig} {s0 s : State} (hst : Start orc inst s0)
    (hC : totalClassPB inst s0 = true) (h : OccursF orc inst cfg s0 s) {a : Action} (ha : Admissible a)
    (hadm : AdmOffer inst cfg s a) {fuel : Nat} {r r' : Rng} {res : SMResult} {mic : List State}
    (hstep : smStep orc inst cfg fuel s r a = .ok (res, r', mic)) (hs : res.success = true) :
    isDone inst res.state = true ∨ res.possible ≠ [] := by
  obtain ⟨C, _, _⟩ := totalClassPB_sound hC
  have hg := (pb_smStep_good hst C (pb_totP_of_guards hst hC) h ha hadm hstep).2 hs
  cases hd : isDone inst res.state with
  | true => exact Or.inl rfl
  | false => exact Or.inr (hg hd)

/-- **the offers never run out in the wider class**: every environment state of an episode whose result is
successful and whose shop is not finished holds at least one offer -/
theorem c11_never_out_of_offers_pre {ec : EnvCfg} {st : RewardStatic} {s0 : State} (hst : Start orc inst s0)
    (hC : totalClassPB inst s0 = true) {e : EnvState} (h : EnvReach orc inst ec st s0 e)
    (hs : e.res.success = true) (hnd : isDone inst e.res.state = false) : e.res.possible ≠ [] := by
  obtain ⟨C, _, _⟩ := totalClassPB_sound hC
  exact (pb_envReach_good hst C (pb_totP_of_guards hst hC) h).offers hs hnd

/-- **progress (state form)**: unless the shop is finished, a transition is on offer or something is pending -/
theorem c11_progress_pre {ec : EnvCfg} {st : RewardStatic} {s0 : State} (hst : Start orc inst s0)
    (hC : totalClassPB inst s0 = true) {e : EnvState} (h : EnvReach orc inst ec st s0 e)
    (hnd : isDone inst e.res.state = false) {poss : List Transition}
    (hposs : possibleTransitions inst ec.sm e.res.state = .ok poss) : poss ≠ [] ∨ Pending e.res.state := by
  obtain ⟨C, _, _⟩ := totalClassPB_sound hC
  have h0 := pb_totP_of_guards hst hC
  have hO := (pb_envReach_good hst C h0 h).occ hnd
  obtain ⟨w, hI, hS⟩ := occursA_inv hst hO.toC.toA
  have hP := pb_occursF_tot hst C h0 hO
  exact pb_progress_state w C hI hS hP.full hP.shape.occSet hnd hposs

/-- **The always-accept agent finishes within `potBound inst = 2·#operations + #jobs` steps, if every step
returns** – in the wider class -/
theorem c11_always_accept_finishes_pre {ec : EnvCfg} {st : RewardStatic} {s0 : State} (hst : Start orc inst s0)
    (hC : totalClassPB inst s0 = true) (hjk : 0 ≤ ec.mw.jokerInit)
    {r0 : Rng} {e0 e : EnvState} {mic0 : List State} (hreset : envReset orc inst ec s0 r0 = .ok (e0, mic0))
    {n : Nat} (hrun : acceptRun orc inst ec st n e0 = .ok e) (hn : potBound inst ≤ n) :
    isDone inst e.res.state = true ∧ e.truncated = false ∧
      (isDone inst e0.res.state = false → e.terminated = true) := by
  have hr0 : EnvReach orc inst ec st s0 e0 := EnvReach.reset hreset
  obtain ⟨hjok, htr0, hd0, ht0, hfail⟩ := envReset_flags hreset
  have hshape := (envReach_inv hst hr0).struct.shape
  by_cases hs0 : e0.res.success = true
  · have hi0 : RunInv orc inst ec st s0 e0 e0 :=
      ⟨hr0, hs0, by rw [hjok]; exact hjk, htr0, by rw [hd0, ht0], Or.inl rfl⟩
    obtain ⟨hi, hc⟩ := acceptRun_pot hst n e0 e hi0 hrun
    have hdone : isDone inst e.res.state = true := by
      rcases hc with hc | hc
      · rcases hi.term with rfl | ht
        · rw [ht0] at hc; cases hc
        · rw [← ht]; exact hc
      · have hb := pot_le_bound (inst := inst) hshape
        have hzero : pot inst e.res.state = 0 := by omega
        cases hnd : isDone inst e.res.state with
        | true => rfl
        | false =>
          exfalso
          have hne := c11_never_out_of_offers_pre hst hC hi.reach hi.succ hnd
          have hri := envReach_inv hst hi.reach
          have hO := hri.liveF hne
          obtain ⟨w, hI, hS⟩ := occursA_inv hst hO.toC.toA
          have hP := occursF_full hst hO
          obtain ⟨poss, hposs, hsubp⟩ := hri.offersFrom hne
          have hpne : poss ≠ [] := by
            cases hp : e.res.possible with
            | nil => exact absurd hp hne
            | cons x xs =>
              intro e0'
              have := hsubp x (by rw [hp]; simp)
              rw [e0'] at this; cases this
          have := offer_pot_pos w hI hS hP.route hposs hpne
          omega
    refine ⟨hdone, hi.trunc, fun h0 => ?_⟩
    rcases hi.term with rfl | ht
    · rw [hdone] at h0; cases h0
    · rw [ht]; exact hdone
  · have hs0' : e0.res.success = false := by simpa using hs0
    cases n with
    | zero =>
      simp [acceptRun] at hrun; subst hrun
      have hlen : inst.jobs.length = 0 := by unfold potBound at hn; omega
      have hjobs : e0.res.state.jobs = [] := by
        have := congrArg List.length hshape.jobs
        simp only [List.length_map] at this
        exact List.eq_nil_of_length_eq_zero (by omega)
      have hdone : isDone inst e0.res.state = true := by unfold isDone; rw [hjobs]; rfl
      exact ⟨hdone, htr0, fun h0 => by rw [hdone] at h0; cases h0⟩
    | succ n =>
      exfalso
      simp only [acceptRun, hd0, Bool.false_eq_true, if_false] at hrun
      cases hstep : envStep orc inst ec st e0 .accept with
      | error err => simp [hstep] at hrun
      | ok out => exact envStep_accept_offer hstep (hfail hs0')

/-! ## the hypotheses are satisfiable; unordered pickup buffers are needed -/

/-- on `ExFifo.inst` with the fuel of the example configuration (40 rounds): `reset` returns, the run of
`potBound = 10` accepted offers returns, and it ends terminated -/
theorem c11_fifo_accept_run : ∃ e0 mic0 e, envReset ExT.orc0 ExFifo.inst ExT.ec Ex.s0 ExT.r0 = .ok (e0, mic0) ∧
    acceptRun ExT.orc0 ExFifo.inst ExT.ec ExT.st (potBound ExFifo.inst) e0 = .ok e ∧
    isDone ExFifo.inst e.res.state = true ∧ e.truncated = false ∧ e.terminated = true := by
  have h : (match envReset ExT.orc0 ExFifo.inst ExT.ec Ex.s0 ExT.r0 with
      | .error _ => false
      | .ok (e0, _) => !isDone ExFifo.inst e0.res.state &&
        match acceptRun ExT.orc0 ExFifo.inst ExT.ec ExT.st (potBound ExFifo.inst) e0 with
        | .error _ => false
        | .ok _ => true) = true := by decide
  split at h
  · cases h
  · rename_i e0 mic0 hreset
    simp only [Bool.and_eq_true, Bool.not_eq_true'] at h
    obtain ⟨h0, h⟩ := h
    split at h
    · cases h
    · rename_i e hrun
      have := c11_always_accept_finishes_pre ExFifo.start (by decide) (by decide) hreset hrun (Nat.le_refl _)
      exact ⟨e0, mic0, e, hreset, hrun, this.1, this.2.1, this.2.2 h0⟩


/-- on `ExFifo.inst` (FIFO pre-buffers) no episode ever holds a successful, unfinished result without offers -/
example {e : EnvState} (h : EnvReach ExT.orc0 ExFifo.inst ExT.ec ExT.st Ex.s0 e)
    (hs : e.res.success = true) (hnd : isDone ExFifo.inst e.res.state = false) : e.res.possible ≠ [] :=
  c11_never_out_of_offers_pre ExFifo.start (by decide) h hs hnd

/-- with FIFO **post**-buffers the offers do run out (`ExPre.pickup_buffers_must_be_unordered`): the state
reached is not done, so its result is successful and the shop unfinished, and it holds no offer -/
theorem c11_pickup_buffers_must_be_unordered : ∃ e, EnvReach ExT.orc0 ExTot.instPostFifo ExT.ec ExT.st Ex.s0 e ∧
    e.done = false ∧ envStep ExT.orc0 ExTot.instPostFifo ExT.ec ExT.st e .accept = .error .invalidValue :=
  ExPre.pickup_buffers_must_be_unordered

end JSL
