import JSL.Inv.TotalReset
import JSL.Props.C14

/-!
# C05 for a class of instances — every action the action space allows is handled

In general the property is false (`JSL/Props/C05.lean`: deliveries and releases into full buffers
raise, …).  Here it is **proved for a class of instances given by decidable guards**
(`totalClassB`, `JSL/Model/Roomy.lean`, evaluated by the driver):

* `tablesTotalB`, `readyB` – the tables are total where the two start handlers read them;
* `roomyTotB`        – the first output buffer and every pre- and post-buffer take all jobs, a machine's
                    internal buffer and an AGV's buffer take one job;
* `parentsTotB`      – `parent` of a stand-alone buffer is `None`, of a machine's buffers the machine;
* `agvOnlyB`      – there is a transport and every transport is an AGV;
* `routesB`       – the travel matrix has an entry from every pickup place to every place of delivery;
* `jobsHaveOpsB`, `hasJobsB` – there is a job and every job has an operation;
* `flexInstB`     – every buffer is unordered;
* `outShapeB`, `outRestB` – every configured outage has a record in the initial state, all inactive.

For every episode of such an instance (`Start`: the guards of all schedule theorems) and reward
parameters that cannot divide by zero:

* `c05_step_never_raises_in_class`   – in every environment state that is not done, the actions 0 and
  1 are handled: `env.step` returns, or the `while timed_transitions` loop of `state.step` runs out of
  fuel (the model of a loop that does not end; nothing else can happen);
* `c05_outside_action_rejected_in_class` – any other action raises exactly `ActionOutOfActionSpace`;
* `c05_reset_never_raises_in_class`  – the same for `reset`;
* `c05_no_step_fails_in_class`       – no step of an episode returns a failed result (no transition
  fails validation), so an episode is never truncated because of a failure;
* `c05_state_step_never_raises_in_class` – the statement for `state.step` itself.

The class is inhabited (`ExT.instT`), and the examples at the end show, for each of `roomyTotB`,
`hasJobsB`, `outShapeB`, `outRestB`, `parentsTotB`, `flexInstB`, `jobsHaveOpsB`, `routesB` and `agvOnlyB`, an
instance that meets every other guard and raises (for `tablesTotalB` see `c05_tables_must_be_total`).
-/

namespace JSL

variable {orc : Oracle} {inst : Instance}

/-- what the decidable guard of the class says -/
theorem totalClassB_sound {s0 : State} (h : totalClassB inst s0 = true) :
    TotClass inst ∧ inst.jobs ≠ [] ∧ Ready inst s0 ∧ OutShape inst s0 ∧ outRestB s0 = true := by
  simp only [totalClassB, Bool.and_eq_true] at h
  obtain ⟨⟨⟨⟨h1, h2⟩, h3⟩, h4⟩, h5⟩ := h
  refine ⟨totalInstB_sound h1, ?_, readyB_sound h3, outShapeB_sound h4, h5⟩
  simpa [hasJobsB] using h2

theorem totP_of_guards {s0 : State} (hst : Start orc inst s0) (h : totalClassB inst s0 = true) : TotP inst s0 := by
  obtain ⟨C, _, hR, hO, h0⟩ := totalClassB_sound h
  exact TotP.of_start hst C hR hO h0

/-- **C05 in the class: `env.step` handles the actions 0 and 1.**  In every environment state of
every episode that is not done, the step returns – or the timed loop runs out of fuel. -/
theorem c05_step_never_raises_in_class {ec : EnvCfg} {st : RewardStatic} {s0 : State} (hst : Start orc inst s0)
    (hC : totalClassB inst s0 = true) (hops : st.numOps ≠ 0) (hspan : st.tmax - st.lb ≠ 0)
    (hbias : ec.rw.sparseBias ≠ 0) {e : EnvState} (h : EnvReach orc inst ec st s0 e) (hd : e.done = false)
    {a : AgentAct} (ha : a = .accept ∨ a = .decline) :
    (∃ out, envStep orc inst ec st e a = .ok out) ∨ envStep orc inst ec st e a = .error .outOfFuel := by
  obtain ⟨C, hJ, _⟩ := totalClassB_sound hC
  have h0 := totP_of_guards hst hC
  exact envStep_total hst C h0 ⟨hops, hspan, hbias⟩ h hd (envReach_has_offer hst C h0 hJ h hd) ha

/-- the same with the guards of the class listed one by one -/
theorem c05_step_never_raises_guards {ec : EnvCfg} {st : RewardStatic} {s0 : State} (hst : Start orc inst s0)
    (hT : tablesTotalB inst = true) (hR : readyB inst s0 = true) (hroom : roomyTotB inst = true)
    (hpar : parentsTotB inst = true) (hagv : agvOnlyB inst = true) (hroutes : routesB inst = true)
    (hops' : jobsHaveOpsB inst = true) (hjobs : hasJobsB inst = true) (hflex : flexInstB inst = true)
    (hosh : outShapeB inst s0 = true) (hor : outRestB s0 = true)
    (hops : st.numOps ≠ 0) (hspan : st.tmax - st.lb ≠ 0) (hbias : ec.rw.sparseBias ≠ 0)
    {e : EnvState} (h : EnvReach orc inst ec st s0 e) (hd : e.done = false)
    {a : AgentAct} (ha : a = .accept ∨ a = .decline) :
    (∃ out, envStep orc inst ec st e a = .ok out) ∨ envStep orc inst ec st e a = .error .outOfFuel :=
  c05_step_never_raises_in_class hst (by simp [totalClassB, totalInstB, hT, hR, hroom, hpar, hagv, hroutes, hops', hjobs,
    hflex, hosh, hor]) hops hspan hbias h hd ha

/-- an action outside `Discrete(2)` raises exactly `ActionOutOfActionSpace` -/
theorem c05_outside_action_rejected_in_class {ec : EnvCfg} {st : RewardStatic} {s0 : State} (hst : Start orc inst s0)
    (hC : totalClassB inst s0 = true) {e : EnvState} (h : EnvReach orc inst ec st s0 e) (hd : e.done = false) :
    envStep orc inst ec st e .outside = .error .actionOutOfSpace := by
  obtain ⟨C, hJ, _⟩ := totalClassB_sound hC
  exact c14_reject e hd (envReach_has_offer hst C (totP_of_guards hst hC) hJ h hd)

/-- an environment state of an episode of the class that is not done holds an offer, its result is
successful and the shop is not finished -/
theorem c05_not_done_is_live_in_class {ec : EnvCfg} {st : RewardStatic} {s0 : State} (hst : Start orc inst s0)
    (hC : totalClassB inst s0 = true) {e : EnvState} (h : EnvReach orc inst ec st s0 e) (hd : e.done = false) :
    e.res.possible ≠ [] ∧ e.res.success = true ∧ isDone inst e.res.state = false := by
  obtain ⟨C, hJ, _⟩ := totalClassB_sound hC
  have h0 := totP_of_guards hst hC
  exact ⟨envReach_has_offer hst C h0 hJ h hd, envReach_liveT hst C h0 hJ h hd⟩

/-- **`state.step` does not raise and does not fail** from any state of an execution of the
environment, with any action the middleware can submit -/
theorem c05_state_step_never_raises_in_class {cfg : SMConfig} {s0 s : State} (hst : Start orc inst s0)
    (hC : totalClassB inst s0 = true) (h : OccursF orc inst cfg s0 s) {a : Action} (ha : Admissible a)
    (hadm : AdmOffer inst cfg s a) (fuel : Nat) (r : Rng) :
    (∃ res r' mic, smStep orc inst cfg fuel s r a = .ok (res, r', mic) ∧ res.success = true) ∨
      smStep orc inst cfg fuel s r a = .error .outOfFuel := by
  obtain ⟨C, _, _⟩ := totalClassB_sound hC
  obtain ⟨w, hI, hS⟩ := occursA_inv hst h.toC.toA
  have nn := nonnegB_sound hst.samples hst.nonneg
  exact smStep_totalT w nn C hI hS (occursF_tot hst C (totP_of_guards hst hC) h) ha hadm

/-- **`reset` does not raise** -/
theorem c05_reset_never_raises_in_class {ec : EnvCfg} {s0 : State} (hst : Start orc inst s0)
    (hC : totalClassB inst s0 = true) (r : Rng) :
    (∃ out, envReset orc inst ec s0 r = .ok out) ∨ envReset orc inst ec s0 r = .error .outOfFuel := by
  have := c05_state_step_never_raises_in_class (cfg := ec.sm) hst hC OccursF.init admissible_noOp (Or.inl rfl) ec.fuel r
  unfold envReset mwReset
  rcases this with ⟨res, r', mic, hs, _⟩ | herr
  · left; simp only [hs, except_bind_ok, except_pure]; exact ⟨_, rfl⟩
  · right; simp only [herr, except_bind_error]

/-- **no step of an episode of the class fails**: the result a step returns is a successful one (no
transition failed validation) – an episode is truncated only when the allowance is used up -/
theorem c05_no_step_fails_in_class {ec : EnvCfg} {st : RewardStatic} {s0 : State} (hst : Start orc inst s0)
    (hC : totalClassB inst s0 = true) {e : EnvState} (h : EnvReach orc inst ec st s0 e) {a : AgentAct} {out : StepOut}
    (hs : envStep orc inst ec st e a = .ok out) : out.obsRes.success = true := by
  obtain ⟨C, _, _⟩ := totalClassB_sound hC
  have hi := envReach_inv hst h
  unfold envStep at hs
  split at hs
  · simp at hs
  · obtain ⟨⟨res', mw, r, mic⟩, hm, hs⟩ := except_bind_eq_ok hs
    simp only at hs
    obtain ⟨⟨rew, cnt⟩, _, hs⟩ := except_bind_eq_ok hs
    simp at hs; subst hs
    simp only
    rcases mwStep_cases hm with ⟨o, o', rest, _, _, _, _, _, e4, _⟩ | ⟨act, hsub, hk, hstep⟩
    · exact e4
    · have hne : e.res.possible ≠ [] := by
        rcases hk with ⟨_, _, _, h⟩ | ⟨_, _, _, h⟩
        · exact h
        · intro h0; rw [h0] at h; simp at h
      have hl := hi.live hne
      have ha : Admissible act := by
        refine ⟨fun tr htr => hl.2 tr ?_, ?_⟩
        · have := hsub tr htr
          cases hp : e.res.possible with
          | nil => rw [hp] at this; simp at this
          | cons x xs => rw [hp] at this; simp at this; rw [this]; simp
        · rcases hk with ⟨_, h, _⟩ | ⟨_, h, _⟩ <;> rw [h] <;> simp
      have hadm : AdmOffer inst ec.sm e.res.state act := by
        obtain ⟨poss, hposs, hsub⟩ := hi.offersFrom hne
        rcases hk with ⟨_, _, ht, _⟩ | ⟨_, _, ht, _⟩
        · right
          cases hp : e.res.possible with
          | nil => exact absurd hp hne
          | cons x xs => exact ⟨poss, hposs, x, hsub x (by rw [hp]; simp), by rw [ht, hp]; rfl⟩
        · left; exact ht
      rcases c05_state_step_never_raises_in_class hst hC (hi.liveF hne) ha hadm ec.fuel e.rng with
        ⟨res2, r2, mic2, h2, hsuc⟩ | herr
      · rw [hstep] at h2
        simp only [Except.ok.injEq, Prod.mk.injEq] at h2
        rw [h2.1]; exact hsuc
      · rw [hstep] at herr; cases herr

/-! ## the class is inhabited, and the guards are needed -/

namespace ExTot

/-- run a list of agent actions -/
def runActs (ins : Instance) : List AgentAct → EnvState → Except Err EnvState
  | [], e => .ok e
  | a :: as, e => do
    let out ← envStep ExT.orc0 ins ExT.ec ExT.st e a
    runActs ins as out.env

theorem runActs_reach {ins : Instance} {s0 : State} : ∀ (l : List AgentAct) {e e' : EnvState},
    EnvReach ExT.orc0 ins ExT.ec ExT.st s0 e → runActs ins l e = .ok e' → EnvReach ExT.orc0 ins ExT.ec ExT.st s0 e'
  | [], e, e', he, h => by simp [runActs] at h; subst h; exact he
  | a :: as, e, e', he, h => by
    simp only [runActs] at h
    obtain ⟨out, hout, h⟩ := except_bind_eq_ok h
    exact runActs_reach as (EnvReach.step he hout) h

/-- `reset`, the actions `acts`, then action `a` raises `err` in a state that is not done -/
def raisesAfter (ins : Instance) (s0 : State) (acts : List AgentAct) (a : AgentAct) (err : Err) : Bool :=
  match envReset ExT.orc0 ins ExT.ec s0 ExT.r0 with
  | .error _ => false
  | .ok (e, _) =>
    match runActs ins acts e with
    | .error _ => false
    | .ok e' => !e'.done && (match envStep ExT.orc0 ins ExT.ec ExT.st e' a with | .error x => x == err | .ok _ => false)

theorem raisesAfter_sound {ins : Instance} {s0 : State} {acts : List AgentAct} {a : AgentAct} {err : Err}
    (h : raisesAfter ins s0 acts a err = true) :
    ∃ e, EnvReach ExT.orc0 ins ExT.ec ExT.st s0 e ∧ e.done = false ∧ envStep ExT.orc0 ins ExT.ec ExT.st e a = .error err := by
  unfold raisesAfter at h
  split at h
  · cases h
  · rename_i e mic hreset
    split at h
    · cases h
    · rename_i e' hrun
      simp only [Bool.and_eq_true, Bool.not_eq_true'] at h
      refine ⟨e', runActs_reach acts (EnvReach.reset hreset) hrun, h.1, ?_⟩
      have h2 := h.2
      split at h2
      · rename_i x hx; simp at h2; rw [hx, h2]
      · cases h2

/-- `reset` raises `err` -/
def resetRaises (ins : Instance) (s0 : State) (err : Err) : Bool :=
  match envReset ExT.orc0 ins ExT.ec s0 ExT.r0 with
  | .error x => x == err
  | .ok _ => false

theorem resetRaises_sound {ins : Instance} {s0 : State} {err : Err} (h : resetRaises ins s0 err = true) :
    envReset ExT.orc0 ins ExT.ec s0 ExT.r0 = .error err := by
  unfold resetRaises at h
  split at h
  · rename_i x hx; simp at h; rw [hx, h]
  · cases h

/-- every guard of `Start` and of the class, one by one -/
def guardsOf (ins : Instance) (s0 : State) : List Bool :=
  [initOKB ins s0, restB s0, placedB ins s0, nonnegB ins, tablesTotalB ins, roomyTotB ins, parentsTotB ins, agvOnlyB ins,
   routesB ins, jobsHaveOpsB ins, flexInstB ins, hasJobsB ins, readyB ins s0, outShapeB ins s0, outRestB s0]

/-- **the class is inhabited**: the example instance with the completed travel matrix -/
example : totalClassB ExT.instT Ex.s0 = true := by decide

/-- … so every step of every episode of it returns or hangs -/
example {e : EnvState} (h : EnvReach ExT.orc0 ExT.instT ExT.ec ExT.st Ex.s0 e) (hd : e.done = false) :
    (∃ out, envStep ExT.orc0 ExT.instT ExT.ec ExT.st e .accept = .ok out) ∨
      envStep ExT.orc0 ExT.instT ExT.ec ExT.st e .accept = .error .outOfFuel :=
  c05_step_never_raises_in_class ExT.start_exT (by decide) (by decide) (by decide) (by decide) h hd (Or.inl rfl)

/-! ### `roomyTotB` is needed: a pre-buffer that takes one job, two jobs routed to the machine -/

def mcPre1 (id pre post buf : Nat) : MachineCfg :=
  { Ex.mc id pre post buf with pre := Ex.bc pre 1 .component (some (.m id)) }

def instPre1 : Instance :=
  { ExT.instT with
    jobs := [{ id := 0, ops := [{ job := 0, idx := 0, machine := 0, dur := .det 3, tool := 0 },
                                { job := 0, idx := 1, machine := 1, dur := .det 2, tool := 0 }] },
             { id := 1, ops := [{ job := 1, idx := 0, machine := 0, dur := .det 4, tool := 0 },
                                { job := 1, idx := 1, machine := 1, dur := .det 1, tool := 0 }] }],
    machines := [mcPre1 0 0 1 2, Ex.mc 1 3 4 5] }

def s0Pre1 : State :=
  { Ex.s0 with jobs := [{ id := 0, ops := [Ex.op 0 0 0, Ex.op 0 1 1], loc := 7 },
                        { id := 1, ops := [Ex.op 1 0 0, Ex.op 1 1 1], loc := 7 }] }

/-- every guard but `roomyTotB` holds … -/
example : guardsOf instPre1 s0Pre1 =
    [true, true, true, true, true, false, true, true, true, true, true, true, true, true, true] := by decide

/-- … and a delivery into the full pre-buffer raises `BufferFullError` -/
theorem roomy_is_needed : ∃ e, EnvReach ExT.orc0 instPre1 ExT.ec ExT.st s0Pre1 e ∧ e.done = false ∧
    envStep ExT.orc0 instPre1 ExT.ec ExT.st e .decline = .error .bufferFull :=
  raisesAfter_sound (acts := [.accept, .decline, .accept, .decline]) (by decide)

/-! ### `hasJobsB` is needed: without a job `reset` leaves `done = False` and the first step raises -/

def instNoJob : Instance := { ExT.instT with jobs := [] }
def s0NoJob : State := { Ex.s0 with jobs := [], buffers := [Ex.eb 7, Ex.eb 8] }

example : guardsOf instNoJob s0NoJob =
    [true, true, true, true, true, true, true, true, true, true, true, false, true, true, true] := by decide

theorem a_job_is_needed : ∃ e, EnvReach ExT.orc0 instNoJob ExT.ec ExT.st s0NoJob e ∧ e.done = false ∧
    envStep ExT.orc0 instNoJob ExT.ec ExT.st e .accept = .error .invalidValue :=
  raisesAfter_sound (acts := []) (by decide)

/-! ### `outShapeB` is needed: an outage configured on machine 0 without a record in the state -/

def instOut : Instance :=
  { ExT.instT with machines := [{ Ex.mc 0 0 1 2 with outages := [{ id := 0, freq := .det 100, dur := .det 1 }] }, Ex.mc 1 3 4 5] }

example : guardsOf instOut Ex.s0 =
    [true, true, true, true, true, true, true, true, true, true, true, true, true, false, true] := by decide

theorem outage_records_are_needed : ∃ e, EnvReach ExT.orc0 instOut ExT.ec ExT.st Ex.s0 e ∧ e.done = false ∧
    envStep ExT.orc0 instOut ExT.ec ExT.st e .accept = .error .valueError :=
  raisesAfter_sound (acts := [.accept, .accept]) (by decide)

/-! ### `outRestB` is needed: the record of the outage of machine 0 is active in the initial state -/

def s0Act : State :=
  { Ex.s0 with machines := [{ Ex.ms 0 0 1 2 with outages := [{ id := 0, st := .active 0 5 }] }, Ex.ms 1 3 4 5] }

example : guardsOf instOut s0Act =
    [true, true, true, true, true, true, true, true, true, true, true, true, true, true, false] := by decide

theorem inactive_records_are_needed : ∃ e, EnvReach ExT.orc0 instOut ExT.ec ExT.st s0Act e ∧ e.done = false ∧
    envStep ExT.orc0 instOut ExT.ec ExT.st e .accept = .error .valueError :=
  raisesAfter_sound (acts := [.accept, .accept]) (by decide)

/-! ### `parentsTotB` is needed: the pre-buffer of machine 0 has no parent -/

def instPar : Instance :=
  { ExT.instT with machines := [{ Ex.mc 0 0 1 2 with pre := Ex.bc 0 Ex.big .component none }, Ex.mc 1 3 4 5] }

example : guardsOf instPar Ex.s0 =
    [true, true, true, true, true, true, false, true, true, true, true, true, true, true, true] := by decide

/-- the teleport filter asks for the travel time from the pre-buffer (taken for a stand-alone
buffer) to the machine: `NotImplementedError` -/
theorem parents_are_needed : ∃ e, EnvReach ExT.orc0 instPar ExT.ec ExT.st Ex.s0 e ∧ e.done = false ∧
    envStep ExT.orc0 instPar ExT.ec ExT.st e .accept = .error .notImplemented :=
  raisesAfter_sound (acts := [.accept, .decline]) (by decide)

/-! ### `flexInstB` is needed: ordered (FIFO) post-buffers, everything else as in `ExT.instT` -/

def toFifo (b : BufCfg) : BufCfg := { b with type := .fifo }

def instPostFifo : Instance :=
  { ExT.instT with machines := ExT.instT.machines.map (fun m => { m with post := toFifo m.post }) }

example : guardsOf instPostFifo Ex.s0 =
    [true, true, true, true, true, true, true, true, true, true, false, true, true, true, true] := by decide

/-- the offers run out although the shop is not finished and the episode not done; the next step
raises `InvalidValue` (`interpret` finds no transition to accept) -/
theorem unordered_buffers_are_needed : ∃ e, EnvReach ExT.orc0 instPostFifo ExT.ec ExT.st Ex.s0 e ∧ e.done = false ∧
    envStep ExT.orc0 instPostFifo ExT.ec ExT.st e .accept = .error .invalidValue :=
  raisesAfter_sound (acts := [.accept, .decline, .accept, .accept, .accept, .accept, .accept, .accept]) (by decide)

/-! ### `jobsHaveOpsB` and `routesB` are needed already for `reset` -/

def instNoOp : Instance := { ExT.instT with jobs := ExT.instT.jobs ++ [{ id := 2, ops := [] }] }
def s0NoOp : State :=
  { Ex.s0 with jobs := Ex.s0.jobs ++ [{ id := 2, ops := [], loc := 7 }],
               buffers := [{ id := 7, bss := .notEmpty, store := [0, 1, 2] }, Ex.eb 8] }

example : guardsOf instNoOp s0NoOp =
    [true, true, true, true, true, true, true, true, true, false, true, true, true, true, true] := by decide

/-- a job without operation: `reset` raises `NotImplementedError` (travel time buffer → buffer) -/
theorem operations_are_needed : envReset ExT.orc0 instNoOp ExT.ec s0NoOp ExT.r0 = .error .notImplemented :=
  resetRaises_sound (by decide)

def instNoRoute : Instance :=
  { ExT.instT with travel := ExT.instT.travel.filter (fun e => e.1 != (Loc.b 7, Loc.m 0)) }

example : guardsOf instNoRoute Ex.s0 =
    [true, true, true, true, true, true, true, true, false, true, true, true, true, true, true] := by decide

/-- no travel entry from the input buffer to machine 0: `reset` raises `NotImplementedError` -/
theorem routes_are_needed : envReset ExT.orc0 instNoRoute ExT.ec Ex.s0 ExT.r0 = .error .notImplemented :=
  resetRaises_sound (by decide)

/-! ### `agvOnlyB` is needed already for `reset`: without a transport the offers cannot be computed -/

def instNoTr : Instance := { ExT.instT with transports := [] }
def s0NoTr : State := { Ex.s0 with transports := [] }

example : guardsOf instNoTr s0NoTr =
    [true, true, true, true, true, true, true, false, true, true, true, true, true, true, true] := by decide

theorem a_transport_is_needed : envReset ExT.orc0 instNoTr ExT.ec s0NoTr ExT.r0 = .error .indexError :=
  resetRaises_sound (by decide)

end ExTot

end JSL
