import JSL.Inv.PreEnv
import JSL.Inv.StartOnlyFifo
import JSL.Props.C05Total
import JSL.Inv.AcceptBound

/-!
# C05 for the wider class `totalClassPB`: machine pre-buffers of any type

`totalClassPB inst s0` (`JSL/Model/RoomyPre.lean`) is `totalClassB inst s0` with `flexInstB` (every buffer
unordered) replaced by `pickupFlexB` (every stand-alone buffer, machine internal buffer, post-buffer and AGV
buffer unordered; **pre-buffers FIFO / LIFO / DUMMY / FLEX**).  A machine with an ordered pre-buffer starts
the job its discipline names by a timed transition, inside the `while timed_transitions` loop.

* `c05_state_step_never_raises_in_class_pre` – `state.step` from any state of an execution, with any action
  the middleware can submit, returns a **successful** result or the timed loop runs out of fuel;
* `c05_reset_never_raises_in_class_pre`      – the same for `reset`;
* `c05_step_never_raises_with_offer_pre`     – `env.step` handles the actions 0 and 1 in every environment
  state that is not done and holds an offer;
* `c05_step_never_raises_in_class_pre`       – … in every environment state that is not done, given that
  `reset` does not finish the shop (`ResetLive`, see `JSL/Inv/PreEnv.lean`: a theorem in the class
  `totalClassB`, a hypothesis here);
* `c05_no_step_fails_in_class_pre`           – no step returns a failed result.

The proof re-uses the one for `totalClassB` through the instance `preFlex inst` (pre-buffers declared
unordered): guards and invariants do not read buffer types (`JSL/Inv/PreTransfer.lean`), and the model
functions agree on the two instances except `machineSetupTransition` (`JSL/Inv/PreEq.lean`,
`PreEqQ.lean`, `PreWait.lean`); the batches with the extra `IDLE → SETUP` transitions were covered already
(`TimedM`).  Not proved here: the bound on the fuel (the measure of `JSL/Inv/FuelMeasure.lean` needs a term for
the operations that can still start inside the loop).
-/

namespace JSL

variable {orc : Oracle} {inst : Instance}

/-- **`state.step` does not raise and does not fail** in the wider class -/
theorem c05_state_step_never_raises_in_class_pre {cfg : SMConfig} {s0 s : State} (hst : Start orc inst s0)
    (hC : totalClassPB inst s0 = true) (h : OccursF orc inst cfg s0 s) {a : Action} (ha : Admissible a)
    (hadm : AdmOffer inst cfg s a) (fuel : Nat) (r : Rng) :
    (∃ res r' mic, smStep orc inst cfg fuel s r a = .ok (res, r', mic) ∧ res.success = true) ∨
      smStep orc inst cfg fuel s r a = .error .outOfFuel := by
  obtain ⟨C, _, _⟩ := totalClassPB_sound hC
  obtain ⟨w, hI, hS⟩ := occursA_inv hst h.toC.toA
  have nn := nonnegB_sound hst.samples hst.nonneg
  exact pb_smStep_total w nn C hI hS (pb_occursF_tot hst C (pb_totP_of_guards hst hC) h) ha hadm

/-- **`reset` does not raise** in the wider class -/
theorem c05_reset_never_raises_in_class_pre {ec : EnvCfg} {s0 : State} (hst : Start orc inst s0)
    (hC : totalClassPB inst s0 = true) (r : Rng) :
    (∃ out, envReset orc inst ec s0 r = .ok out) ∨ envReset orc inst ec s0 r = .error .outOfFuel := by
  have := c05_state_step_never_raises_in_class_pre (cfg := ec.sm) hst hC OccursF.init admissible_noOp (Or.inl rfl) ec.fuel r
  unfold envReset mwReset
  rcases this with ⟨res, r', mic, hs, _⟩ | herr
  · left; simp only [hs, except_bind_ok, except_pure]; exact ⟨_, rfl⟩
  · right; simp only [herr, except_bind_error]

/-- **C05 in the wider class, for a state that holds an offer**: `env.step` returns for the actions 0 and 1, or
the timed loop runs out of fuel -/
theorem c05_step_never_raises_with_offer_pre {ec : EnvCfg} {st : RewardStatic} {s0 : State} (hst : Start orc inst s0)
    (hC : totalClassPB inst s0 = true) (hops : st.numOps ≠ 0) (hspan : st.tmax - st.lb ≠ 0)
    (hbias : ec.rw.sparseBias ≠ 0) {e : EnvState} (h : EnvReach orc inst ec st s0 e) (hd : e.done = false)
    (hne : e.res.possible ≠ []) {a : AgentAct} (ha : a = .accept ∨ a = .decline) :
    (∃ out, envStep orc inst ec st e a = .ok out) ∨ envStep orc inst ec st e a = .error .outOfFuel := by
  obtain ⟨C, _, _⟩ := totalClassPB_sound hC
  exact pb_envStep_total hst C (pb_totP_of_guards hst hC) ⟨hops, hspan, hbias⟩ h hd hne ha

/-- **C05 in the wider class**: in every environment state of every episode that is not done, the step
returns – or the timed loop runs out of fuel – provided `reset` does not finish the shop -/
theorem c05_step_never_raises_in_class_pre {ec : EnvCfg} {st : RewardStatic} {s0 : State} (hst : Start orc inst s0)
    (hC : totalClassPB inst s0 = true) (hL : ResetLive orc inst ec s0) (hops : st.numOps ≠ 0)
    (hspan : st.tmax - st.lb ≠ 0) (hbias : ec.rw.sparseBias ≠ 0) {e : EnvState} (h : EnvReach orc inst ec st s0 e)
    (hd : e.done = false) {a : AgentAct} (ha : a = .accept ∨ a = .decline) :
    (∃ out, envStep orc inst ec st e a = .ok out) ∨ envStep orc inst ec st e a = .error .outOfFuel := by
  obtain ⟨C, _, _⟩ := totalClassPB_sound hC
  have h0 := pb_totP_of_guards hst hC
  exact pb_envStep_total hst C h0 ⟨hops, hspan, hbias⟩ h hd (pb_envReach_has_offer hst C h0 hL h hd) ha

/-- an action outside `Discrete(2)` raises exactly `ActionOutOfActionSpace` -/
theorem c05_outside_action_rejected_in_class_pre {ec : EnvCfg} {st : RewardStatic} {s0 : State} (hst : Start orc inst s0)
    (hC : totalClassPB inst s0 = true) (hL : ResetLive orc inst ec s0) {e : EnvState}
    (h : EnvReach orc inst ec st s0 e) (hd : e.done = false) :
    envStep orc inst ec st e .outside = .error .actionOutOfSpace := by
  obtain ⟨C, _, _⟩ := totalClassPB_sound hC
  exact c14_reject e hd (pb_envReach_has_offer hst C (pb_totP_of_guards hst hC) hL h hd)

/-- an environment state of an episode of the wider class that is not done holds an offer, its result is
successful and the shop is not finished -/
theorem c05_not_done_is_live_in_class_pre {ec : EnvCfg} {st : RewardStatic} {s0 : State} (hst : Start orc inst s0)
    (hC : totalClassPB inst s0 = true) (hL : ResetLive orc inst ec s0) {e : EnvState}
    (h : EnvReach orc inst ec st s0 e) (hd : e.done = false) :
    e.res.possible ≠ [] ∧ e.res.success = true ∧ isDone inst e.res.state = false := by
  obtain ⟨C, _, _⟩ := totalClassPB_sound hC
  have h0 := pb_totP_of_guards hst hC
  exact ⟨pb_envReach_has_offer hst C h0 hL h hd, pb_envReach_live hst C h0 hL h hd⟩

/-- **no step of an episode of the wider class fails** -/
theorem c05_no_step_fails_in_class_pre {ec : EnvCfg} {st : RewardStatic} {s0 : State} (hst : Start orc inst s0)
    (hC : totalClassPB inst s0 = true) {e : EnvState} (h : EnvReach orc inst ec st s0 e) {a : AgentAct} {out : StepOut}
    (hs : envStep orc inst ec st e a = .ok out) : out.obsRes.success = true := by
  have hi := envReach_inv hst h
  unfold envStep at hs
  split at hs
  · simp at hs
  · obtain ⟨⟨res', mw, r, mic⟩, hm, hs⟩ := except_bind_eq_ok hs
    simp only at hs
    obtain ⟨⟨rew, cnt⟩, _, hs⟩ := except_bind_eq_ok hs
    simp at hs; subst hs
    simp only
    rcases mwStep_cases hm with ⟨o, o', rest, _, _, _, _, _, e4, _⟩ | ⟨act, hsub, hk, hstep⟩
    · exact e4
    · have hne : e.res.possible ≠ [] := by
        rcases hk with ⟨_, _, _, h⟩ | ⟨_, _, _, h⟩
        · exact h
        · intro h0; rw [h0] at h; simp at h
      have hl := hi.live hne
      have ha : Admissible act := by
        refine ⟨fun tr htr => hl.2 tr ?_, ?_⟩
        · have := hsub tr htr
          cases hp : e.res.possible with
          | nil => rw [hp] at this; simp at this
          | cons x xs => rw [hp] at this; simp at this; rw [this]; simp
        · rcases hk with ⟨_, h, _⟩ | ⟨_, h, _⟩ <;> rw [h] <;> simp
      have hadm : AdmOffer inst ec.sm e.res.state act := by
        obtain ⟨poss, hposs, hsub⟩ := hi.offersFrom hne
        rcases hk with ⟨_, _, ht, _⟩ | ⟨_, _, ht, _⟩
        · right
          cases hp : e.res.possible with
          | nil => exact absurd hp hne
          | cons x xs => exact ⟨poss, hposs, x, hsub x (by rw [hp]; simp), by rw [ht, hp]; rfl⟩
        · left; exact ht
      rcases c05_state_step_never_raises_in_class_pre hst hC (hi.liveF hne) ha hadm ec.fuel e.rng with
        ⟨res2, r2, mic2, h2, hsuc⟩ | herr
      · rw [hstep] at h2
        simp only [Except.ok.injEq, Prod.mk.injEq] at h2
        rw [h2.1]; exact hsuc
      · rw [hstep] at herr; cases herr

/-- the narrower class is a special case -/
theorem c05_state_step_never_raises_of_narrow {cfg : SMConfig} {s0 s : State} (hst : Start orc inst s0)
    (hC : totalClassB inst s0 = true) (h : OccursF orc inst cfg s0 s) {a : Action} (ha : Admissible a)
    (hadm : AdmOffer inst cfg s a) (fuel : Nat) (r : Rng) :
    (∃ res r' mic, smStep orc inst cfg fuel s r a = .ok (res, r', mic) ∧ res.success = true) ∨
      smStep orc inst cfg fuel s r a = .error .outOfFuel :=
  c05_state_step_never_raises_in_class_pre hst (totalClassPB_of_totalClassB hC) h ha hadm fuel r

/-! ## the wider class is inhabited by an instance with FIFO pre-buffers; the new guard is needed -/

namespace ExPre

/-- **the class is inhabited**: `ExFifo.inst` (2 jobs × 2 machines, one AGV, both pre-buffers FIFO) is in
`totalClassPB` and not in `totalClassB` -/
theorem fifo_in_class : totalClassPB ExFifo.inst Ex.s0 = true ∧ totalClassB ExFifo.inst Ex.s0 = false ∧
    pickupFlexB ExFifo.inst = true ∧ flexInstB ExFifo.inst = false ∧
    ExFifo.inst.machines.map (·.pre.type) = [.fifo, .fifo] := by decide

/-- … so `state.step` never raises along its episodes, and no step fails -/
example {cfg : SMConfig} {s : State} (h : OccursF ExT.orc0 ExFifo.inst cfg Ex.s0 s) {a : Action} (ha : Admissible a)
    (hadm : AdmOffer ExFifo.inst cfg s a) (fuel : Nat) (r : Rng) :
    (∃ res r' mic, smStep ExT.orc0 ExFifo.inst cfg fuel s r a = .ok (res, r', mic) ∧ res.success = true) ∨
      smStep ExT.orc0 ExFifo.inst cfg fuel s r a = .error .outOfFuel :=
  c05_state_step_never_raises_in_class_pre ExFifo.start (by decide) h ha hadm fuel r

/-- the always-accept run of `ExFifo.inst` with `k` rounds of fuel per `state.step` -/
def fifoRun (k n : Nat) : Except Err EnvState :=
  match envReset ExT.orc0 ExFifo.inst { ExT.ec with fuel := k } Ex.s0 ExT.r0 with
  | .error e => .error e
  | .ok (e0, _) => acceptRun ExT.orc0 ExFifo.inst { ExT.ec with fuel := k } ExT.st n e0

/-- on `ExFifo.inst`: `reset` (counters `r0`) does not finish the shop; with seven rounds of fuel the always-accept
run finishes after six steps, with six rounds a `state.step` is cut off -/
theorem fifo_run : (match envReset ExT.orc0 ExFifo.inst ExT.ec Ex.s0 ExT.r0 with
      | .ok (e, _) => !isDone ExFifo.inst e.res.state && !e.res.possible.isEmpty | .error _ => false) = true ∧
    (match fifoRun 7 10 with | .ok e => e.terminated && !e.truncated && e.histLen == 6 | .error _ => false) = true ∧
    (match fifoRun 6 10 with | .error e => e == .outOfFuel | .ok _ => false) = true := by decide

/-- every guard of `Start` and of the wider class, one by one -/
def guardsOfP (ins : Instance) (s0 : State) : List Bool :=
  [initOKB ins s0, restB s0, placedB ins s0, nonnegB ins, tablesTotalB ins, roomyTotB ins, parentsTotB ins, agvOnlyB ins,
   routesB ins, jobsHaveOpsB ins, pickupFlexB ins, hasJobsB ins, readyB ins s0, outShapeB ins s0, outRestB s0]

example : guardsOfP ExFifo.inst Ex.s0 =
    [true, true, true, true, true, true, true, true, true, true, true, true, true, true, true] := by decide

/-- **`pickupFlexB` is needed**: FIFO post-buffers (`ExTot.instPostFifo`), everything else as in `ExT.instT` –
every other guard holds … -/
example : guardsOfP ExTot.instPostFifo Ex.s0 =
    [true, true, true, true, true, true, true, true, true, true, false, true, true, true, true] := by decide

/-- … and the offers run out although the shop is not finished; the next step raises `InvalidValue` -/
theorem pickup_buffers_must_be_unordered : ∃ e, EnvReach ExT.orc0 ExTot.instPostFifo ExT.ec ExT.st Ex.s0 e ∧
    e.done = false ∧ envStep ExT.orc0 ExTot.instPostFifo ExT.ec ExT.st e .accept = .error .invalidValue :=
  ExTot.unordered_buffers_are_needed

end ExPre

end JSL
