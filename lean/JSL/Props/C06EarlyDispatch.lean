import JSL.Props.C06Global

/-!
# C06, a finding: with early dispatch and fewer AGVs than jobs the optimum is NOT reachable

`ExE.inst` is a classic instance (3 machines, one AGV, 2 jobs: job 0 = one operation of 5 time units
on machine 0; job 1 = three operations of 1 time unit on machines 1, 2, 1).  Its optimal makespan is 5.

* With `allowEarly = false` (the hypothesis of `c06_optimum_reachable`) the optimum is reached:
  `ExE.optimum_reached`.
* With `allowEarly = true` the single AGV is claimed, at the beginning of the first `state.step` in
  which it is idle, by the running job 0 (the teleport filter takes the first dispatch on offer, and
  running jobs come first) and waits for it until time 5; job 1, finished on machine 2 at time 2,
  cannot be brought back to machine 1 before 5.  Every sequence of at most 8 accept / decline
  decisions that ends terminated reports a makespan of at least 6: `ExE.early_dispatch_misses_optimum`
  (`best` enumerates all decision sequences; evaluated by the kernel, `decide +kernel`; the
  interpreter gives the same answer for depth 19).

The repair is the hypothesis `ec.sm.allowEarly = false` (or at least as many AGVs as jobs, which is
not proved here).
-/

namespace JSL.ExE

def zeroTravel (locs : List Loc) : List ((Loc × Loc) × TimeCfg) :=
  locs.flatMap fun a => locs.map fun b => ((a, b), TimeCfg.det 0)

def inst : Instance :=
  { jobs := [{ id := 0, ops := [{ job := 0, idx := 0, machine := 0, dur := .det 5, tool := 0 }] },
             { id := 1, ops := [{ job := 1, idx := 0, machine := 1, dur := .det 1, tool := 0 },
                                { job := 1, idx := 1, machine := 2, dur := .det 1, tool := 0 },
                                { job := 1, idx := 2, machine := 1, dur := .det 1, tool := 0 }] }],
    travel := zeroTravel [.m 0, .m 1, .m 2, .b 20, .b 21],
    machines := [Ex.mc 0 0 1 2, Ex.mc 1 3 4 5, Ex.mc 2 6 7 8],
    buffers := [Ex.bc 20 Ex.big .input none, Ex.bc 21 Ex.big .output none],
    transports := [{ id := 0, type := .agv, outages := [], buf := Ex.bc 9 1 .component (some (.t 0)) }] }

def s0 : State :=
  { jobs := [{ id := 0, ops := [Ex.op 0 0 0], loc := 20 },
             { id := 1, ops := [Ex.op 1 0 1, Ex.op 1 1 2, Ex.op 1 2 1], loc := 20 }],
    time := 0,
    machines := [Ex.ms 0 0 1 2, Ex.ms 1 3 4 5, Ex.ms 2 6 7 8],
    transports := [{ st := .idle, id := 0, occ := .none, buffer := Ex.eb 9, loc := .at (.m 0), outages := [], job := none }],
    buffers := [{ id := 20, bss := .notEmpty, store := [0, 1] }, Ex.eb 21] }

def st : RewardStatic := { tmax := 100, lb := 1, numJobs := 2, numOps := 4 }

def ec (early : Bool) : EnvCfg := ⟨{ allowEarly := early }, { jokerInit := 1000, truncActive := false },
  { sparseBias := 1, denseBias := 1, truncBias := 1 }, 60⟩

theorem classic : classicInstB inst = true := by decide

theorem run : ClassicRun ExT.orc0 inst (ec false) st s0 where
  start := ⟨by decide, by decide, by decide, by decide, fun _ _ => Int.le_refl 0⟩
  classic := classicInstB_sound classic
  startOK := by decide
  early := rfl
  trunc := rfl
  joker := by decide
  numOps := by decide
  norm := by decide
  fuel := by decide
  jobs := by decide

/-- without early dispatch the optimum 5 is reached (list order `[0, 1, 1, 1]`) -/
theorem optimum_reached : ∃ e0 mic acts e, envReset ExT.orc0 inst (ec false) s0 ExT.r0 = .ok (e0, mic) ∧
    envRun ExT.orc0 inst (ec false) st e0 acts = .ok e ∧ e.terminated = true ∧ e.truncated = false ∧
    e.res.state.time = 5 := by
  obtain ⟨e0, mic, acts, e, h1, h2, _, h4, h5, _, h7⟩ :=
    c06_list_schedule_reachable run (π := [0, 1, 1, 1]) (by decide) ExT.r0
  refine ⟨e0, mic, acts, e, h1, h2, h4, h5, ?_⟩
  rw [h7]
  decide

def omin : Option Int → Option Int → Option Int
  | some a, some b => some (min a b)
  | some a, none => some a
  | none, b => b

/-- the least makespan reported with `terminated` over all accept / decline sequences of length at
most `d` from `e` (`none`: no such sequence ends terminated) -/
def best (ec : EnvCfg) : Nat → EnvState → Option Int
  | 0, _ => none
  | d + 1, e =>
    let go (a : AgentAct) : Option Int :=
      match envStep ExT.orc0 inst ec st e a with
      | .error _ => none
      | .ok out => if out.env.terminated then out.makespan else if out.env.done then none else best ec d out.env
    omin (go .accept) (go .decline)

def search (early : Bool) (d : Nat) : Option Int :=
  match envReset ExT.orc0 inst (ec early) s0 ExT.r0 with
  | .error _ => none
  | .ok (e, _) => best (ec early) d e

/-- **with early dispatch the optimum is missed**: over all sequences of at most 8 decisions the best
makespan reported with `terminated` is 6 (such a sequence exists: with early dispatch most transports
need no decision), while the optimum – reached without early dispatch, `optimum_reached`, and with
early dispatch and two AGVs, `C06GlobalEarly.lean` – is 5.  (Kernel evaluation, about half a minute;
the interpreter gives `some 6` for every depth up to 19.) -/
theorem early_dispatch_misses_optimum : search true 8 = some 6 := by decide +kernel

end JSL.ExE
