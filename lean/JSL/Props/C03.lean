import JSL.Inv.Init
import JSL.Inv.EnvReach
import JSL.Props.Example

/-!
# C03 — jobs are conserved and every resource holds what the state says it holds

Conservation part, at full strength: for every instance and initial state satisfying the decidable
guard `initOKB` (discharged for compiled instances by C17; evaluated on every generated instance
by the driver), for every oracle of sampled durations, every configuration, **every** action
sequence through the core step API (offered transitions or not, any multiplicity and order, any
time machine) and every state that occurs – returned states, sub-states and the post-state of
every individual transition.
-/

namespace JSL

variable {orc : Oracle} {inst : Instance} {cfg : SMConfig} {s0 σ : State}

/-- Every job is stored in exactly one buffer – a standalone buffer, a machine's pre/internal/post
buffer or an AGV's buffer – and its reported location names that buffer. -/
theorem c03_conserved (h0 : initOKB inst s0 = true) (h : Occurs orc inst cfg s0 σ) :
    ∀ j ∈ σ.jobs, ∃ b ∈ allBufStates σ, j.id ∈ b.store ∧ b.id = j.loc ∧
      ∀ b' ∈ allBufStates σ, j.id ∈ b'.store → b' = b := by
  obtain ⟨w, hI0⟩ := initOKB_sound h0
  have hI := occurs_struct w hI0 h
  have c := hI.cons.toM hI.shape w
  intro j hj
  obtain ⟨b, hb, hbi, hin⟩ := c.located j hj
  refine ⟨b, hb, hin, hbi, ?_⟩
  intro b' hb' hin'
  obtain ⟨j', hj', e1, e2⟩ := c.stored b' hb' j.id hin'
  have : j' = j := eq_of_mem_of_key_eq (key := fun (y : JobState) => y.id) (hI.shape.jobsNodup w) hj' hj e1
  subst this
  exact allBufs_inj hI.shape w hb' hb (by rw [← e2, hbi])

/-- No job is duplicated inside a buffer and nothing but jobs of the instance is ever stored. -/
theorem c03_no_duplicates_no_strangers (h0 : initOKB inst s0 = true) (h : Occurs orc inst cfg s0 σ) :
    ∀ b ∈ allBufStates σ, b.store.Nodup ∧ ∀ x ∈ b.store, ∃ j ∈ σ.jobs, j.id = x ∧ j.loc = b.id := by
  obtain ⟨w, hI0⟩ := initOKB_sound h0
  have hI := occurs_struct w hI0 h
  have c := hI.cons.toM hI.shape w
  exact fun b hb => ⟨c.nodup b hb, c.stored b hb⟩

/-- The jobs, machines, AGVs and buffers of every occurring state are those of the instance
(no job is lost or invented, identifiers never change). -/
theorem c03_same_components (h0 : initOKB inst s0 = true) (h : Occurs orc inst cfg s0 σ) :
    σ.jobs.map (·.id) = inst.jobs.map (·.id) ∧ σ.machines.map (·.id) = inst.machines.map (·.id) ∧
      σ.transports.map (·.id) = inst.transports.map (·.id) ∧
      (allBufStates σ).map (·.id) = (allBufCfgs inst).map (·.id) := by
  obtain ⟨w, hI0⟩ := initOKB_sound h0
  have hI := occurs_struct w hI0 h
  exact ⟨hI.shape.jobIds, hI.shape.machineIds, hI.shape.transportIds, hI.shape.bufIds⟩

/-! ## every state the environment exposes, whatever the agent does -/

/-- conservation at every state the environment exposes in any episode -/
theorem c03_env_conserved {ec : EnvCfg} {st : RewardStatic} (hst : Start orc inst s0)
    (h : Exposed orc inst ec st s0 σ) :
    ∀ j ∈ σ.jobs, ∃ b ∈ allBufStates σ, j.id ∈ b.store ∧ b.id = j.loc ∧
      ∀ b' ∈ allBufStates σ, j.id ∈ b'.store → b' = b := by
  obtain ⟨w, hI, _⟩ := exposed_inv hst h
  have c := hI.cons.toM hI.shape w
  intro j hj
  obtain ⟨b, hb, hbi, hin⟩ := c.located j hj
  refine ⟨b, hb, hin, hbi, ?_⟩
  intro b' hb' hin'
  obtain ⟨j', hj', e1, e2⟩ := c.stored b' hb' j.id hin'
  have : j' = j := eq_of_mem_of_key_eq (key := fun (y : JobState) => y.id) (hI.shape.jobsNodup w) hj' hj e1
  subst this
  exact allBufs_inj hI.shape w hb' hb (by rw [← e2, hbi])

/-- **A busy machine holds exactly one job** – the job whose running operation is recorded on
that machine – **and an idle machine holds none.** -/
theorem c03_machine_holding {ec : EnvCfg} {st : RewardStatic} (hst : Start orc inst s0)
    (h : Exposed orc inst ec st s0 σ) (m : MachineState) (hm : m ∈ σ.machines) :
    (m.st = .idle → m.buffer.store = []) ∧
    (m.st ≠ .idle → ∃ j ∈ σ.jobs, m.buffer.store = [j.id] ∧ j.loc = m.buffer.id ∧
        ∃ op, j.processing? = some op ∧ op.machine = m.id) := by
  obtain ⟨w, hI, t, hS⟩ := exposed_inv hst h
  refine ⟨hS.idleEmpty m hm, fun hb => ?_⟩
  obtain ⟨j, hj, hstore, op, hop, hmid, _, _⟩ := hS.busyHolds m hm hb
  refine ⟨j, hj, hstore, ?_, op, hop, hmid⟩
  have c := hI.cons.toM hI.shape w
  have hbm : m.buffer ∈ allBufStates σ := by
    unfold allBufStates
    simp only [List.mem_append, List.mem_flatMap]
    exact Or.inl (Or.inr ⟨m, hm, by simp⟩)
  obtain ⟨j', hj', e1, e2⟩ := c.stored m.buffer hbm j.id (by rw [hstore]; simp)
  have : j' = j := eq_of_mem_of_key_eq (key := fun (y : JobState) => y.id) (hI.shape.jobsNodup w) hj' hj e1
  subst this; exact e2

/-- an idle AGV (and one in its drop-off outage) claims no job -/
theorem c03_idle_agv_claims_nothing {ec : EnvCfg} {st : RewardStatic} (hst : Start orc inst s0)
    (h : Exposed orc inst ec st s0 σ) (t : TransportState) (ht : t ∈ σ.transports)
    (hi : t.st = .idle ∨ t.st = .outage) : t.job = none := by
  obtain ⟨_, _, _, hS⟩ := exposed_inv hst h
  exact hS.freeNoClaim t ht hi

/-- **An AGV that is not carrying holds nothing** (in particular an idle one); one in transit holds
exactly one job of the shop. -/
theorem c03_agv_holding {ec : EnvCfg} {st : RewardStatic} (hst : Start orc inst s0)
    (h : Exposed orc inst ec st s0 σ) (t : TransportState) (ht : t ∈ σ.transports) :
    (t.st ≠ .transit → t.buffer.store = []) ∧ (t.st = .transit → ∃ j ∈ σ.jobs, t.buffer.store = [j.id]) :=
  ⟨(exposed_agv hst h).empty t ht, (exposed_agv hst h).holds t ht⟩

/-- **A job is claimed by at most one AGV**, and what an AGV claims is a job of the shop. -/
theorem c03_claim_unique {ec : EnvCfg} {st : RewardStatic} (hst : Start orc inst s0)
    (h : Exposed orc inst ec st s0 σ) (t1 t2 : TransportState) (h1 : t1 ∈ σ.transports) (h2 : t2 ∈ σ.transports)
    (x : Nat) (hx1 : t1.job = some x) (hx2 : t2.job = some x) : t1 = t2 ∧ ∃ j ∈ σ.jobs, j.id = x := by
  have hA := exposed_agv hst h
  obtain ⟨w, hI, _⟩ := exposed_inv hst h
  exact ⟨eq_of_mem_of_key_eq (key := fun (y : TransportState) => y.id) (hI.shape.trNodup w) h1 h2 (hA.unique t1 h1 t2 h2 x hx1 hx2),
    hA.claimed t1 h1 x hx1⟩

/-- non-vacuity: a compiled 2×2 instance with one AGV satisfies the guard -/
example : initOKB Ex.inst Ex.s0 = true := Ex.initOK

end JSL
