import JSL.Model.Env

/-!
# C13 — same configuration, seed and actions give the same episode

In the model an episode is a function of (instance, initial state, configuration, oracle of
sampled values, agent actions): determinism is the fact that `envStep` is a function.  The seed
enters only through the oracle (the values each stochastic duration object yields, one per
`update()`), and a time configuration that is a constant never consults it.

What the model cannot exhibit – interpreter hash randomisation, process-global random state,
other environment objects alive – is checked on the implementation by replaying episodes in fresh
interpreters (`harness/twin_c13.py`); see DESIGN.md.
-/

namespace JSL

/-- a constant time configuration yields its constant whatever the oracle and the counters are,
and never advances a counter -/
theorem c13_det_time_ignores_seed (orc orc' : Oracle) (r r' : Rng) (t : Int) :
    (TimeCfg.det t).cur orc r = (TimeCfg.det t).cur orc' r' ∧
    ((TimeCfg.det t).updRead orc r).1 = ((TimeCfg.det t).updRead orc' r').1 ∧
    ((TimeCfg.det t).readUpd orc r).1 = ((TimeCfg.det t).readUpd orc' r').1 ∧
    ((TimeCfg.det t).updRead orc r).2 = r ∧ ((TimeCfg.det t).readUpd orc r).2 = r :=
  ⟨rfl, rfl, rfl, rfl, rfl⟩

/-- whether a deterministic-frequency outage strikes does not depend on the oracle -/
theorem c13_det_frequency_ignores_seed (orc orc' : Oracle) (r r' : Rng) (f since : Int) :
    (shouldApply orc r (.det f) since).1 = (shouldApply orc' r' (.det f) since).1 := rfl

/-- a stochastic value depends on the seed only through the oracle entry for (object, number of
updates so far) -/
theorem c13_stoch_value_is_oracle_entry (orc : Oracle) (r : Rng) (sid : Nat) :
    (TimeCfg.stoch sid).cur orc r = orc sid (r sid) ∧
    ((TimeCfg.stoch sid).updRead orc r).1 = orc sid (r sid + 1) ∧
    ((TimeCfg.stoch sid).readUpd orc r).1 = orc sid (r sid) := ⟨rfl, rfl, rfl⟩

/-- oracles that agree give the same step (function extensionality: the episode depends on the
seed through nothing but the sampled values) -/
theorem c13_same_samples_same_step (orc orc' : Oracle) (h : ∀ sid k, orc sid k = orc' sid k) (inst : Instance)
    (ec : EnvCfg) (st : RewardStatic) (e : EnvState) (a : AgentAct) :
    (envStep orc inst ec st e a).map (fun o => (o.env.res, o.reward, o.env.terminated, o.env.truncated)) =
    (envStep orc' inst ec st e a).map (fun o => (o.env.res, o.reward, o.env.terminated, o.env.truncated)) := by
  have : orc = orc' := funext fun sid => funext fun k => h sid k
  subst this; rfl

end JSL
