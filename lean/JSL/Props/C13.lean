import JSL.Model.Env
import JSL.Inv.Blind
import JSL.Props.Example

/-!
# C13 — same configuration, seed and actions give the same episode

In the model an episode is a function of (instance, initial state, configuration, oracle of
sampled values, agent actions): determinism is the fact that `envStep` is a function.  The seed
enters only through the oracle (the values each stochastic duration object yields, one per
`update()`), and a time configuration that is a constant never consults it.

For an instance **without stochastic elements** (`DetInst`: every duration, setup, travel and
outage time or frequency a constant) the sampled values are never consulted at all:
`c13_deterministic_reset_ignores_seed`, `c13_deterministic_step_ignores_seed` and, for whole
episodes under any action sequence, `c13_deterministic_episode_ignores_seed`.

What the model cannot exhibit – interpreter hash randomisation, process-global random state,
other environment objects alive – is checked on the implementation by replaying episodes in fresh
interpreters (`harness/twin_c13.py`); see DESIGN.md.
-/

namespace JSL

/-- a constant time configuration yields its constant whatever the oracle and the counters are,
and never advances a counter -/
theorem c13_det_time_ignores_seed (orc orc' : Oracle) (r r' : Rng) (t : Int) :
    (TimeCfg.det t).cur orc r = (TimeCfg.det t).cur orc' r' ∧
    ((TimeCfg.det t).updRead orc r).1 = ((TimeCfg.det t).updRead orc' r').1 ∧
    ((TimeCfg.det t).readUpd orc r).1 = ((TimeCfg.det t).readUpd orc' r').1 ∧
    ((TimeCfg.det t).updRead orc r).2 = r ∧ ((TimeCfg.det t).readUpd orc r).2 = r :=
  ⟨rfl, rfl, rfl, rfl, rfl⟩

/-- whether a deterministic-frequency outage strikes does not depend on the oracle -/
theorem c13_det_frequency_ignores_seed (orc orc' : Oracle) (r r' : Rng) (f since : Int) :
    (shouldApply orc r (.det f) since).1 = (shouldApply orc' r' (.det f) since).1 := rfl

/-- a stochastic value depends on the seed only through the oracle entry for (object, number of
updates so far) -/
theorem c13_stoch_value_is_oracle_entry (orc : Oracle) (r : Rng) (sid : Nat) :
    (TimeCfg.stoch sid).cur orc r = orc sid (r sid) ∧
    ((TimeCfg.stoch sid).updRead orc r).1 = orc sid (r sid + 1) ∧
    ((TimeCfg.stoch sid).readUpd orc r).1 = orc sid (r sid) := ⟨rfl, rfl, rfl⟩

/-- oracles that agree give the same step (function extensionality: the episode depends on the
seed through nothing but the sampled values) -/
theorem c13_same_samples_same_step (orc orc' : Oracle) (h : ∀ sid k, orc sid k = orc' sid k) (inst : Instance)
    (ec : EnvCfg) (st : RewardStatic) (e : EnvState) (a : AgentAct) :
    (envStep orc inst ec st e a).map (fun o => (o.env.res, o.reward, o.env.terminated, o.env.truncated)) =
    (envStep orc' inst ec st e a).map (fun o => (o.env.res, o.reward, o.env.terminated, o.env.truncated)) := by
  have : orc = orc' := funext fun sid => funext fun k => h sid k
  subst this; rfl

/-! ### instances without stochastic elements -/

/-- everything an episode step shows to the outside (the update counters are internal) -/
def StepOut.view (o : StepOut) : SMResult × SMResult × Bool × Rat × Bool × Bool × Bool × Option Int × MwState × List State :=
  (o.env.res, o.obsRes, o.obsDone, o.reward, o.env.terminated, o.env.truncated, o.env.done, o.makespan, o.env.mw, o.micro)

/-- an episode from an environment state on: every agent action gives what the step shows, or
the error it raises (which leaves the episode where it was) -/
def runFrom (orc : Oracle) (inst : Instance) (ec : EnvCfg) (st : RewardStatic) :
    EnvState → List AgentAct → List (Except Err (SMResult × SMResult × Bool × Rat × Bool × Bool × Bool × Option Int × MwState × List State))
  | _, [] => []
  | e, a :: as =>
    match envStep orc inst ec st e a with
    | .error er => .error er :: runFrom orc inst ec st e as
    | .ok o => .ok o.view :: runFrom orc inst ec st o.env as

/-- `reset`, then the actions -/
def episode (orc : Oracle) (inst : Instance) (ec : EnvCfg) (st : RewardStatic) (s0 : State) (r : Rng) (as : List AgentAct) :
    Except Err (SMResult × List (Except Err (SMResult × SMResult × Bool × Rat × Bool × Bool × Bool × Option Int × MwState × List State))) :=
  (envReset orc inst ec s0 r).map fun p => (p.1.res, runFrom orc inst ec st p.1 as)

/-- **C13, deterministic instances: `reset` does not depend on the seed** (neither on the sampled
values nor on how many were drawn before): same state, offers and flags; the counters come back
untouched. -/
theorem c13_deterministic_reset_ignores_seed {inst : Instance} (hd : DetInst inst) (orc orc' : Oracle) (r r' : Rng)
    (ec : EnvCfg) (s0 : State) :
    envReset orc' inst ec s0 r' = (envReset orc inst ec s0 r).map (fun p => ({ p.1 with rng := r' }, p.2)) :=
  envReset_blind orc orc' r r' hd ec s0

/-- **C13, deterministic instances: a step does not depend on the seed.** -/
theorem c13_deterministic_step_ignores_seed {inst : Instance} (hd : DetInst inst) (orc orc' : Oracle) (r' : Rng)
    (ec : EnvCfg) (st : RewardStatic) (e : EnvState) (a : AgentAct) :
    envStep orc' inst ec st { e with rng := r' } a =
      (envStep orc inst ec st e a).map (fun o => { o with env := { o.env with rng := r' } }) :=
  envStep_blind orc orc' r' hd ec st e a

theorem runFrom_ignores_seed {inst : Instance} (hd : DetInst inst) (orc orc' : Oracle) (ec : EnvCfg) (st : RewardStatic) :
    ∀ (as : List AgentAct) (e : EnvState) (r' : Rng),
      runFrom orc' inst ec st { e with rng := r' } as = runFrom orc inst ec st e as
  | [], _, _ => rfl
  | a :: as, e, r' => by
    unfold runFrom
    rw [envStep_blind orc orc' r' hd ec st e a]
    cases envStep orc inst ec st e a with
    | error er =>
      simp only [except_map'_error]
      rw [runFrom_ignores_seed hd orc orc' ec st as e r']
    | ok o =>
      simp only [except_map'_ok]
      rw [runFrom_ignores_seed hd orc orc' ec st as o.env r']
      rfl

/-- **C13, deterministic instances: the whole episode does not depend on the seed** – for every
action sequence (declines, accepts, actions outside the space), two oracles of sampled values and
two histories of earlier draws give the same reset result and the same outcome of every step. -/
theorem c13_deterministic_episode_ignores_seed {inst : Instance} (hd : DetInst inst) (orc orc' : Oracle) (r r' : Rng)
    (ec : EnvCfg) (st : RewardStatic) (s0 : State) (as : List AgentAct) :
    episode orc' inst ec st s0 r' as = episode orc inst ec st s0 r as := by
  unfold episode
  rw [envReset_blind orc orc' r r' hd ec s0]
  generalize envReset orc inst ec s0 r = x
  cases x with
  | error e => simp only [except_map'_error]
  | ok p =>
    obtain ⟨e0, mic⟩ := p
    simp only [except_map'_ok]
    rw [runFrom_ignores_seed hd orc orc' ec st as e0 r']

/-- non-vacuity: the example instance has no stochastic element -/
example : DetInst Ex.inst := detInstB_sound (by decide)

end JSL
