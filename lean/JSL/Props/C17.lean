import JSL.Inv.Init
import JSL.Model.Compile
import JSL.Inv.Placement
import Batteries.Data.List.Perm

/-!
# C17 — compilation is deterministic and yields a well-formed instance and initial state

* determinism: the model of the compiler's text readers and of the id allocator are functions of
  the text / of the ids already taken; that the implementation has no other input (hash order,
  global state) is checked by compiling every third document of the check again in this and in a
  fresh interpreter with another hash seed (`harness/twin_c17.py`);
* `c17_new_id_is_fresh` – the id allocator never hands out an id that is already registered
  (custom buffer ids are registered first), so allocated ids are pairwise distinct
  (`c17_allocated_ids_distinct`);
* `c17_wellformed_checker_sound` – the decidable check `initOKB`, evaluated on every compiled
  (instance, initial state) pair by the implementation-side monitor and by the model's driver,
  implies: unique component, buffer, job and operation identifiers, every operation's machine
  exists, the initial state has the instance's shape, every job is in exactly one buffer and its
  location names that buffer, and no buffer is over capacity.
-/

namespace JSL

open Compile

theorem newIdF_fresh : ∀ (f k : Nat) (ids : List Nat), (∃ j, k ≤ j ∧ j < k + f ∧ j ∉ ids) → newIdF f k ids ∉ ids
  | 0, k, ids, ⟨j, h1, h2, _⟩ => by omega
  | f + 1, k, ids, ⟨j, h1, h2, h3⟩ => by
    simp only [newIdF]
    by_cases hk : ids.contains k = true
    · simp only [hk, if_true]
      apply newIdF_fresh f (k + 1) ids
      have hjk : j ≠ k := by
        intro e; subst e
        exact h3 (List.contains_iff_mem.mp hk)
      exact ⟨j, by omega, by omega, h3⟩
    · simp only [hk]
      intro hmem
      exact hk (List.contains_iff_mem.mpr hmem)

/-- among `n + 1` consecutive numbers one is not in a list of length `n` -/
theorem exists_free (ids : List Nat) : ∃ j, ids.length ≤ j ∧ j < ids.length + (ids.length + 1) ∧ j ∉ ids := by
  apply Classical.byContradiction
  intro hcon
  have hall : ∀ j ∈ List.range' ids.length (ids.length + 1), j ∈ ids := by
    intro j hj
    have := List.mem_range'_1.mp hj
    apply Classical.byContradiction
    intro hn
    exact hcon ⟨j, this.1, by omega, hn⟩
  have hnd : (List.range' ids.length (ids.length + 1)).Nodup := List.nodup_range' 1 (by omega)
  have hle := (List.subperm_of_subset hnd hall).length_le
  simp at hle
  omega

/-- **The id allocator never returns an id that is already taken.** -/
theorem c17_new_id_is_fresh (ids : List Nat) : newId ids ∉ ids :=
  newIdF_fresh _ _ ids (exists_free ids)

/-- allocating `n` ids one after the other, each registered before the next is requested -/
def allocate : Nat → List Nat → List Nat
  | 0, ids => ids
  | n + 1, ids => allocate n (ids ++ [newId ids])

/-- ids allocated on top of distinct registered ids are all distinct -/
theorem c17_allocated_ids_distinct : ∀ (n : Nat) (ids : List Nat), ids.Nodup → (allocate n ids).Nodup
  | 0, ids, h => h
  | n + 1, ids, h => by
    apply c17_allocated_ids_distinct n
    rw [List.nodup_append]
    refine ⟨h, by simp, ?_⟩
    intro a ha b hb
    simp at hb; subst hb
    intro e; subst e
    exact c17_new_id_is_fresh ids ha

/-- **The well-formedness check is sound.** -/
theorem c17_wellformed_checker_sound (inst : Instance) (s : State) (h : initOKB inst s = true) :
    WF inst ∧ Shape inst s ∧ ConservedV s ∧ CapV inst s := by
  obtain ⟨w, hI⟩ := initOKB_sound h
  exact ⟨w, hI.shape, hI.cons, hI.cap⟩

/-- what `WF` says, spelled out -/
theorem c17_wf_means (inst : Instance) (w : WF inst) :
    (inst.jobs.map (·.id)).Nodup ∧ (inst.machines.map (·.id)).Nodup ∧ (inst.transports.map (·.id)).Nodup ∧
    ((allBufCfgs inst).map (·.id)).Nodup ∧ (∀ j ∈ inst.jobs, (j.ops.map (·.idx)).Nodup) ∧
    (∀ j ∈ inst.jobs, ∀ o ∈ j.ops, ∃ m ∈ inst.machines, m.id = o.machine) :=
  ⟨w.jobsNodup, w.machNodup, w.trNodup, w.bufNodup, w.opIdxNodup, w.opMachine⟩

/-! ## initial placement (`_map_jobs`, `_get_buffer_state`; tied by the `CB` lines)

A job is its number and the location its own `init_state` entry names (if any); `initStore` is the
store of a stand-alone buffer given what the buffer's entry lists (if anything). -/

open Compile in
/-- **a job without an explicit location starts in the input buffer** – it is in that buffer's store
whatever the buffer lists – and a job with an explicit location is in the store of the buffer named -/
theorem c17_job_starts_where_it_says (inputId : Nat) (jobs : List (Nat × Option Nat)) (j : Nat) (sp : Option Nat)
    (hj : (j, sp) ∈ jobs) (listed : Option (List Nat)) :
    j ∈ initStore inputId jobs (sp.getD inputId) listed :=
  mem_initStore.2 (Or.inr (mem_locatedIn.2 ⟨sp, hj, rfl⟩))

open Compile in
/-- **listed buffer contents keep their order**: the store is the listed jobs in the order written,
followed by the jobs located there that are not listed, in job order -/
theorem c17_listed_contents_keep_their_order (inputId : Nat) (jobs : List (Nat × Option Nat))
    (hn : (jobs.map (·.1)).Nodup) (b : Nat) (l : List Nat) (hl : l.Nodup) :
    initStore inputId jobs b (some l) = l ++ (locatedIn inputId jobs b).filter (fun x => !l.contains x) := by
  rw [initStore_listed hn, firstOccs_of_nodup hl]

open Compile in
/-- no store holds a job twice -/
theorem c17_initial_store_has_no_duplicates (inputId : Nat) (jobs : List (Nat × Option Nat))
    (hn : (jobs.map (·.1)).Nodup) (b : Nat) (listed : Option (List Nat)) :
    (initStore inputId jobs b listed).Nodup :=
  initStore_nodup hn b listed

open Compile in
/-- **every job is in exactly one buffer, the one its location names**, provided every listing is
consistent (names only jobs located in that buffer – what the compiler insists on since the
`fix:` commit recorded in known_findings.json) -/
theorem c17_every_job_in_exactly_one_buffer (inputId : Nat) (jobs : List (Nat × Option Nat))
    (hn : (jobs.map (·.1)).Nodup) (listing : Nat → Option (List Nat))
    (hc : ∀ b, ConsistentListing inputId jobs b (listing b)) (j : Nat) (sp : Option Nat) (hj : (j, sp) ∈ jobs) (b : Nat) :
    (j ∈ initStore inputId jobs b (listing b) ↔ b = sp.getD inputId) ∧
    (initStore inputId jobs b (listing b)).count j ≤ 1 := by
  refine ⟨?_, List.nodup_iff_count.1 (initStore_nodup hn b _) j⟩
  rw [mem_initStore_consistent (hc b), mem_locatedIn]
  constructor
  · rintro ⟨sp', hj', rfl⟩
    have : (j, sp') = (j, sp) := eq_of_mem_of_key_eq (key := fun (y : Nat × Option Nat) => y.1) hn hj' hj rfl
    cases this; rfl
  · rintro rfl
    exact ⟨sp, hj, rfl⟩

open Compile in
/-- the consistency hypothesis cannot be dropped: a buffer listing a job that is located elsewhere
holds it in addition to the buffer the job's location names (the defect repaired in /repo) -/
theorem c17_foreign_listing_duplicates :
    1 ∈ initStore 0 [(0, none), (1, none)] 5 (some [1]) ∧ 1 ∈ initStore 0 [(0, none), (1, none)] 0 none := by
  decide

/-- non-vacuity: three jobs, one in a further buffer that lists it -/
example : Compile.initStore 0 [(0, none), (1, some 7), (2, none)] 0 (some [2]) = [2, 0] ∧
    Compile.initStore 0 [(0, none), (1, some 7), (2, none)] 7 (some [1]) = [1] := by decide

end JSL
