import JSL.Inv.Offers
import JSL.Inv.EnvReach
import JSL.Props.Example

/-!
# C11 — no deadlock (what is proved, and what is false)

Proved:

* `c11_no_early_dispatch_ready` – with early transport disabled, every AGV dispatch on offer is
  for a job that is ready for pickup *now*: it lies at the release position of a post-buffer or
  standalone buffer (or in an unordered one), is in no machine, and none of its operations runs;
* `c11_offered_agv_idle_job_unclaimed` – a dispatch is only offered for an idle AGV and a job no
  AGV has claimed;
* `c11_last_decline_advances` (C18/C12) – declining everything always moves the clock strictly
  forward, so "nothing happens forever at one instant" cannot be caused by the agent.

False as stated (genuine, recorded as known findings with replayable inputs): inside the class
the property delimits there are livelocks (an ordered standalone buffer, enough AGVs, early
transport on: an AGV claims a job that is not at the release position and the timed loop repeats
WAITINGPICKUP → WAITINGPICKUP at one instant forever) and deadlocks (early transport off, ordered
post-buffer, fewer AGVs than jobs: a later completion buries the claimed job).
-/

namespace JSL

variable {orc : Oracle} {inst : Instance}

/-- **With early transport disabled an AGV is only ever dispatched to a job that is ready for
pickup.** -/
theorem c11_no_early_dispatch_ready {cfg : SMConfig} {s0 σ : State} (hst : Start orc inst s0)
    (h : OccursA orc inst cfg s0 σ) (hne : cfg.allowEarly = false) {poss : List Transition}
    (hp : possibleTransitions inst cfg σ = .ok poss) (tr : Transition) (htr : tr ∈ poss) (ht : tr.new = .t .working) :
    ∃ j ∈ σ.jobs, tr.job = some j.id ∧ readyForPickup inst σ j = .ok true ∧
      (∀ m ∈ σ.machines, m.buffer.id ≠ j.loc ∧ m.pre.id ≠ j.loc) ∧ (∀ o ∈ j.ops, o.st ≠ .processing) := by
  obtain ⟨w, hI, hS⟩ := occursA_inv hst h
  unfold possibleTransitions at hp
  obtain ⟨pj, _, hp⟩ := except_bind_eq_ok hp
  obtain ⟨pt, hpt, hp⟩ := except_bind_eq_ok hp
  obtain ⟨mt, hmt, hp⟩ := except_bind_eq_ok hp
  simp at hp; subst hp
  rcases List.mem_append.mp htr with h1 | h1
  · obtain ⟨j, _, e⟩ := (mapM_ok_mem hmt).2 tr h1
    cases hn : j.nextIdle? with
    | none => simp [hn] at e
    | some o => simp [hn] at e; subst e; simp at ht
  · obtain ⟨t, _, j, hj, rfl, _, _, hr⟩ := possibleTransport_facts hpt tr h1
    exact ⟨j, hj, rfl, hr hne, ready_facts w hI hS hj (hr hne)⟩

/-- a dispatch is offered only for an idle AGV and a job that no AGV has claimed -/
theorem c11_offered_agv_idle_job_unclaimed {cfg : SMConfig} {σ : State} {poss : List Transition}
    (hp : possibleTransitions inst cfg σ = .ok poss) (tr : Transition) (htr : tr ∈ poss) (ht : tr.new = .t .working) :
    ∃ t ∈ σ.transports, tr.comp = .t t.id ∧ t.st = .idle ∧
      ∃ j ∈ σ.jobs, tr.job = some j.id ∧ ∀ x ∈ σ.transports, x.job ≠ some j.id := by
  unfold possibleTransitions at hp
  obtain ⟨pj, _, hp⟩ := except_bind_eq_ok hp
  obtain ⟨pt, hpt, hp⟩ := except_bind_eq_ok hp
  obtain ⟨mt, hmt, hp⟩ := except_bind_eq_ok hp
  simp at hp; subst hp
  rcases List.mem_append.mp htr with h1 | h1
  · obtain ⟨j, _, e⟩ := (mapM_ok_mem hmt).2 tr h1
    cases hn : j.nextIdle? with
    | none => simp [hn] at e
    | some o => simp [hn] at e; subst e; simp at ht
  · obtain ⟨t, htm, j, hj, rfl, hidle, hunc, _⟩ := possibleTransport_facts hpt tr h1
    exact ⟨t, htm, rfl, hidle, j, hj, rfl, hunc⟩

end JSL
