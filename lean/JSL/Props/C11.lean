import JSL.Inv.Offers
import JSL.Inv.EnvReach
import JSL.Props.Example
import JSL.Inv.ProgressPass
import JSL.Inv.AcceptBound

/-!
# C11 — no deadlock (what is proved, and what is false)

Proved:

* `c11_no_early_dispatch_ready` – with early transport disabled, every AGV dispatch on offer is
  for a job that is ready for pickup *now*: it lies at the release position of a post-buffer or
  standalone buffer (or in an unordered one), is in no machine, and none of its operations runs;
* `c11_offered_agv_idle_job_unclaimed` – a dispatch is only offered for an idle AGV and a job no
  AGV has claimed;
* `c11_last_decline_advances` (C18/C12) – declining everything always moves the clock strictly
  forward, so "nothing happens forever at one instant" cannot be caused by the agent.

* **`c11_never_out_of_offers`** – for instances whose buffers are all unordered and that have an AGV
  (`flexInstB`, `hasAgvB`: decidable, on the `G` line of every scenario by both sides): every
  environment state held after a successful reset or step that is not finished offers at least one
  transition – the finding "zero offers although not done" cannot occur in this class;
  `c11_something_can_happen` – at state level: a non-finished state has an offer or something is
  pending (an operation in progress or a busy AGV with a fixed arrival time not in the past), also
  with ordered buffers when early transport is allowed (`c11_something_can_happen_early`);
  `c11_an_agv_is_needed` – without an AGV-typed transport the initial state is stuck.
* **`c11_always_accept_finishes`** – in that class, an agent that accepts every offer is done after at
  most `2·(number of operations) + (number of jobs)` steps, provided every step returns and succeeds
  (exceptions such as a delivery into a full buffer are C05's findings); the potential behind it
  (`2·idle records + jobs waiting for a dispatch`) never increases, whatever the agent answers
  (`c11_no_step_increases_the_potential`), and every successful accept strictly decreases it
  (`c11_accept_makes_progress`) – on every instance.

False as stated (genuine, recorded as known findings with replayable inputs): inside the class
the property delimits there are livelocks (an ordered standalone buffer, enough AGVs, early
transport on: an AGV claims a job that is not at the release position and the timed loop repeats
WAITINGPICKUP → WAITINGPICKUP at one instant forever) and deadlocks (early transport off, ordered
post-buffer, fewer AGVs than jobs: a later completion buries the claimed job).
-/

namespace JSL

variable {orc : Oracle} {inst : Instance}

/-- **With early transport disabled an AGV is only ever dispatched to a job that is ready for
pickup.** -/
theorem c11_no_early_dispatch_ready {cfg : SMConfig} {s0 σ : State} (hst : Start orc inst s0)
    (h : OccursA orc inst cfg s0 σ) (hne : cfg.allowEarly = false) {poss : List Transition}
    (hp : possibleTransitions inst cfg σ = .ok poss) (tr : Transition) (htr : tr ∈ poss) (ht : tr.new = .t .working) :
    ∃ j ∈ σ.jobs, tr.job = some j.id ∧ readyForPickup inst σ j = .ok true ∧
      (∀ m ∈ σ.machines, m.buffer.id ≠ j.loc ∧ m.pre.id ≠ j.loc) ∧ (∀ o ∈ j.ops, o.st ≠ .processing) := by
  obtain ⟨w, hI, hS⟩ := occursA_inv hst h
  unfold possibleTransitions at hp
  obtain ⟨pj, _, hp⟩ := except_bind_eq_ok hp
  obtain ⟨pt, hpt, hp⟩ := except_bind_eq_ok hp
  obtain ⟨mt, hmt, hp⟩ := except_bind_eq_ok hp
  simp at hp; subst hp
  rcases List.mem_append.mp htr with h1 | h1
  · obtain ⟨j, _, e⟩ := (mapM_ok_mem hmt).2 tr h1
    cases hn : j.nextIdle? with
    | none => simp [hn] at e
    | some o => simp [hn] at e; subst e; simp at ht
  · obtain ⟨t, _, j, hj, rfl, _, _, hr⟩ := possibleTransport_facts hpt tr h1
    exact ⟨j, hj, rfl, hr hne, ready_facts w hI hS hj (hr hne)⟩

/-- a dispatch is offered only for an idle AGV and a job that no AGV has claimed -/
theorem c11_offered_agv_idle_job_unclaimed {cfg : SMConfig} {σ : State} {poss : List Transition}
    (hp : possibleTransitions inst cfg σ = .ok poss) (tr : Transition) (htr : tr ∈ poss) (ht : tr.new = .t .working) :
    ∃ t ∈ σ.transports, tr.comp = .t t.id ∧ t.st = .idle ∧
      ∃ j ∈ σ.jobs, tr.job = some j.id ∧ ∀ x ∈ σ.transports, x.job ≠ some j.id := by
  unfold possibleTransitions at hp
  obtain ⟨pj, _, hp⟩ := except_bind_eq_ok hp
  obtain ⟨pt, hpt, hp⟩ := except_bind_eq_ok hp
  obtain ⟨mt, hmt, hp⟩ := except_bind_eq_ok hp
  simp at hp; subst hp
  rcases List.mem_append.mp htr with h1 | h1
  · obtain ⟨j, _, e⟩ := (mapM_ok_mem hmt).2 tr h1
    cases hn : j.nextIdle? with
    | none => simp [hn] at e
    | some o => simp [hn] at e; subst e; simp at ht
  · obtain ⟨t, htm, j, hj, rfl, hidle, hunc, _⟩ := possibleTransport_facts hpt tr h1
    exact ⟨t, htm, rfl, hidle, j, hj, rfl, hunc⟩

/-- **In the class of unordered buffers with an AGV the environment never runs out of offers**
before the shop is done. -/
theorem c11_never_out_of_offers {ec : EnvCfg} {st : RewardStatic} {s0 : State} (hst : Start orc inst s0)
    (hF : flexInstB inst = true) (hA : hasAgvB inst = true) {e : EnvState} (h : EnvReach orc inst ec st s0 e)
    (hs : e.res.success = true) (hnd : isDone inst e.res.state = false) : e.res.possible ≠ [] :=
  env_offers hst hF hA h hs hnd

/-- a non-finished state of an episode has an offer, or something is pending -/
theorem c11_something_can_happen {ec : EnvCfg} {st : RewardStatic} {s0 : State} (hst : Start orc inst s0)
    (hF : flexInstB inst = true) (hA : hasAgvB inst = true) {e : EnvState} (h : EnvReach orc inst ec st s0 e)
    (hnd : isDone inst e.res.state = false) {poss : List Transition}
    (hposs : possibleTransitions inst ec.sm e.res.state = .ok poss) : poss ≠ [] ∨ Pending e.res.state :=
  env_progress hst hF hA h hnd hposs

/-- the same at state level with early transport allowed, whatever the buffer types -/
theorem c11_something_can_happen_early (w : WF inst) (hA : HasAgv inst) {cfg : SMConfig} (he : cfg.allowEarly = true)
    {s : State} (hI : StructInv inst s) (hS : SchedInv s) (hP : AgvFull inst s) (hN : NoDep s)
    (hnd : isDone inst s = false) {poss : List Transition} (hp : possibleTransitions inst cfg s = .ok poss) :
    poss ≠ [] ∨ Pending s :=
  progress_state_early w hA he hI hS hP hN hnd hp

/-- **an AGV is needed**: unordered buffers alone do not give progress -/
theorem c11_an_agv_is_needed : initOKB ExP.instC Ex.s0 = true ∧ restB Ex.s0 = true ∧ placedB ExP.instC Ex.s0 = true ∧
    flexInstB ExP.instC = true ∧ hasAgvB ExP.instC = false ∧ isDone ExP.instC Ex.s0 = false ∧
    possibleTransitions ExP.instC { allowEarly := true } Ex.s0 = .ok [] ∧
    possibleTransitions ExP.instC { allowEarly := false } Ex.s0 = .ok [] ∧ ¬ Pending Ex.s0 :=
  ExP.no_agv_stuck

/-- non-vacuity: the example instance is in the class -/
example : flexInstB Ex.inst = true ∧ hasAgvB Ex.inst = true := by decide

/-- every successful accept makes progress: the potential strictly decreases (any instance) -/
theorem c11_accept_makes_progress {ec : EnvCfg} {st : RewardStatic} {s0 : State} {e : EnvState} {out : StepOut}
    (hst : Start orc inst s0) (hr : EnvReach orc inst ec st s0 e)
    (h : envStep orc inst ec st e .accept = .ok out) (hs : out.obsRes.success = true) :
    pot inst out.env.res.state < pot inst e.res.state :=
  accept_decreases hst hr h hs

/-- no step increases the potential, whatever the agent answers; it is at most
`2·(operations) + (jobs)` – so an episode contains at most that many successful accepts -/
theorem c11_no_step_increases_the_potential {ec : EnvCfg} {st : RewardStatic} {s0 : State} {e : EnvState} {out : StepOut}
    (hst : Start orc inst s0) (hr : EnvReach orc inst ec st s0 e) {a : AgentAct}
    (h : envStep orc inst ec st e a = .ok out) :
    pot inst out.env.res.state ≤ pot inst e.res.state ∧ pot inst e.res.state ≤ potBound inst :=
  ⟨envStep_pot_le hst hr h, pot_le_bound (envReach_inv hst hr).struct.shape⟩

/-- **The always-accept agent finishes within `2·(operations) + (jobs)` steps** (unordered buffers, an
AGV; every step of the run returns and succeeds). -/
theorem c11_always_accept_finishes {ec : EnvCfg} {st : RewardStatic} {s0 : State} (hst : Start orc inst s0)
    (hF : flexInstB inst = true) (hA : hasAgvB inst = true) (hjk : 0 ≤ ec.mw.jokerInit)
    {r0 : Rng} {e0 e : EnvState} {mic0 : List State} (hreset : envReset orc inst ec s0 r0 = .ok (e0, mic0))
    {n : Nat} (hrun : acceptRun orc inst ec st n e0 = .ok e) (hn : potBound inst ≤ n) :
    isDone inst e.res.state = true ∧ e.truncated = false ∧
      (isDone inst e0.res.state = false → e.terminated = true) :=
  always_accept_bound hst hF hA hjk hreset hrun hn

end JSL
