import JSL.Props.C05Fuel
import JSL.Props.C11

/-!
# C11 — the always-accept agent terminates (unconditionally, in the class `totalClassB`)

`c11_always_accept_finishes` (`JSL/Props/C11.lean`) is conditional: *if* every step of the run of
accepted offers returns, the run ends with the shop finished within `potBound inst = 2·#operations +
#jobs` steps.  In the class `totalClassB` with fuel `≥ fuelBound inst` every step does return
(`c05_step_returns_in_class`) and succeeds (`c05_no_step_fails_in_class`), so the run exists:

* `c11_accept_run_returns`         – the run of `n` accepted offers from any state of such a run returns;
* **`c11_always_accept_terminates`** – for every state of the counters `r0`: `reset` returns, the run of
  `potBound inst` accepted offers returns (it stops at the first state that is done), and it ends
  terminated, not truncated, with every job in an output buffer, after at most `potBound inst` steps;
* `c11_always_accept_terminates_exact` – the same with the exact number `n ≤ potBound inst` of steps made.

Every episode of an instance of the class **can** be finished: within `2·#operations + #jobs` accepted
offers.
-/

namespace JSL

variable {orc : Oracle} {inst : Instance}

/-- the class contains the guards of C11's progress theorems -/
theorem totalClassB_flex_agv {s0 : State} (hC : totalClassB inst s0 = true) :
    flexInstB inst = true ∧ hasAgvB inst = true := by
  simp only [totalClassB, totalInstB, Bool.and_eq_true] at hC
  obtain ⟨⟨⟨⟨⟨⟨⟨⟨⟨⟨_, _⟩, _⟩, hagv⟩, _⟩, _⟩, hflex⟩, _⟩, _⟩, _⟩, _⟩ := hC
  refine ⟨hflex, ?_⟩
  unfold agvOnlyB at hagv
  unfold hasAgvB
  cases htr : inst.transports with
  | nil => simp [htr] at hagv
  | cons tc ts =>
    simp only [htr, Bool.and_eq_true, List.all_cons] at hagv
    simp only [List.any_cons, Bool.or_eq_true]
    exact Or.inl hagv.2.1

/-- a returned, successful step makes the history one longer -/
theorem envStep_histLen_succ {ec : EnvCfg} {st : RewardStatic} {e : EnvState} {a : AgentAct} {out : StepOut}
    (h : envStep orc inst ec st e a = .ok out) (hs : out.obsRes.success = true) :
    out.env.histLen = e.histLen + 1 := by
  unfold envStep at h
  split at h
  · simp at h
  · obtain ⟨⟨res', mw, r, mic⟩, hm, h⟩ := except_bind_eq_ok h
    simp only at h
    obtain ⟨⟨rew, cnt⟩, _, h⟩ := except_bind_eq_ok h
    simp at h; subst h
    simp at hs
    simp [hs]

/-- **the run of accepted offers returns**: from any state of an always-accept run, for any number of steps -/
theorem c11_accept_run_returns {ec : EnvCfg} {st : RewardStatic} {s0 : State} (hst : Start orc inst s0)
    (hC : totalClassB inst s0 = true) (hops : st.numOps ≠ 0) (hspan : st.tmax - st.lb ≠ 0)
    (hbias : ec.rw.sparseBias ≠ 0) (hfuel : fuelBound inst ≤ ec.fuel) {e0 : EnvState} :
    ∀ (n : Nat) (e : EnvState), RunInv orc inst ec st s0 e0 e → ∃ e', acceptRun orc inst ec st n e = .ok e' := by
  intro n
  induction n with
  | zero => intro e _; exact ⟨e, rfl⟩
  | succ n ih =>
    intro e hi
    simp only [acceptRun]
    by_cases hd : e.done = true
    · simp [hd]
    · have hd' : e.done = false := by simpa using hd
      obtain ⟨out, ho⟩ := c05_step_returns_in_class hst hC hops hspan hbias hfuel hi.reach hd' (Or.inl rfl)
      have hs := c05_no_step_fails_in_class hst hC hi.reach ho
      simp only [hd', Bool.false_eq_true, if_false, ho, hs, if_true]
      exact ih out.env (runInv_step hi ho hs)

/-- the number of steps an always-accept run made -/
theorem acceptRun_histLen {ec : EnvCfg} {st : RewardStatic} :
    ∀ (n : Nat) (e e' : EnvState), acceptRun orc inst ec st n e = .ok e' →
      e.histLen ≤ e'.histLen ∧ e'.histLen ≤ e.histLen + n ∧
      acceptRun orc inst ec st (e'.histLen - e.histLen) e = .ok e' := by
  intro n
  induction n with
  | zero =>
    intro e e' h
    simp [acceptRun] at h; subst h
    simp [acceptRun]
  | succ n ih =>
    intro e e' h
    simp only [acceptRun] at h
    by_cases hd : e.done = true
    · simp [hd] at h; subst h
      simp [acceptRun]
    · simp only [hd, Bool.false_eq_true, if_false] at h
      cases hstep : envStep orc inst ec st e .accept with
      | error err => simp [hstep] at h
      | ok out =>
        simp only [hstep] at h
        by_cases hs : out.obsRes.success = true
        · simp only [hs, if_true] at h
          have hl := envStep_histLen_succ hstep hs
          obtain ⟨h1, h2, h3⟩ := ih out.env e' h
          refine ⟨by omega, by omega, ?_⟩
          have e1 : e'.histLen - e.histLen = (e'.histLen - out.env.histLen) + 1 := by omega
          rw [e1]
          simp only [acceptRun, hd, Bool.false_eq_true, if_false, hstep, hs, if_true]
          exact h3
        · simp [hs] at h

/-- **The always-accept agent terminates.**  In the class `totalClassB`, with a non-negative truncation
allowance, reward parameters that cannot divide by zero and fuel `≥ fuelBound inst`: for every state of
the counters, `reset` returns, the run of `potBound inst = 2·#operations + #jobs` accepted offers
returns – no step raises, no step fails, the timed loop always ends – and the state it ends in is
terminated, not truncated, every job lies in an output buffer, and at most `potBound inst` steps were made. -/
theorem c11_always_accept_terminates {ec : EnvCfg} {st : RewardStatic} {s0 : State} (hst : Start orc inst s0)
    (hC : totalClassB inst s0 = true) (hjk : 0 ≤ ec.mw.jokerInit) (hops : st.numOps ≠ 0)
    (hspan : st.tmax - st.lb ≠ 0) (hbias : ec.rw.sparseBias ≠ 0) (hfuel : fuelBound inst ≤ ec.fuel) (r0 : Rng) :
    ∃ e0 mic0 e, envReset orc inst ec s0 r0 = .ok (e0, mic0) ∧
      acceptRun orc inst ec st (potBound inst) e0 = .ok e ∧
      e.terminated = true ∧ e.truncated = false ∧ e.done = true ∧ isDone inst e.res.state = true ∧
      e.histLen ≤ potBound inst := by
  obtain ⟨hF, hA⟩ := totalClassB_flex_agv hC
  obtain ⟨e0, mic0, hreset⟩ := c05_reset_returns_in_class (ec := ec) hst hC hfuel r0
  have hr0 : EnvReach orc inst ec st s0 e0 := EnvReach.reset hreset
  obtain ⟨hjok, htr0, hd0, ht0, _⟩ := envReset_flags hreset
  obtain ⟨_, hs0, hnd0⟩ := c05_not_done_is_live_in_class hst hC hr0 hd0
  have hi0 : RunInv orc inst ec st s0 e0 e0 :=
    ⟨hr0, hs0, by rw [hjok]; exact hjk, htr0, by rw [hd0, ht0], Or.inl rfl⟩
  obtain ⟨e, hrun⟩ := c11_accept_run_returns hst hC hops hspan hbias hfuel (potBound inst) e0 hi0
  obtain ⟨hdone, htr, hterm⟩ := c11_always_accept_finishes hst hF hA hjk hreset hrun (Nat.le_refl _)
  have hi := (acceptRun_pot hst (potBound inst) e0 e hi0 hrun).1
  have hlen := (acceptRun_histLen (potBound inst) e0 e hrun).2.1
  have h0len : e0.histLen = 0 := by
    unfold envReset at hreset
    obtain ⟨⟨res, mw, r', mic'⟩, _, h⟩ := except_bind_eq_ok hreset
    simp at h
    rw [← h.1]
  refine ⟨e0, mic0, e, hreset, hrun, hterm hnd0, htr, ?_, hdone, by omega⟩
  rw [hi.done]; exact hterm hnd0

/-- the same with the exact number of steps: the episode is finished after `n ≤ 2·#operations + #jobs`
accepted offers, `n` the length of the history -/
theorem c11_always_accept_terminates_exact {ec : EnvCfg} {st : RewardStatic} {s0 : State} (hst : Start orc inst s0)
    (hC : totalClassB inst s0 = true) (hjk : 0 ≤ ec.mw.jokerInit) (hops : st.numOps ≠ 0)
    (hspan : st.tmax - st.lb ≠ 0) (hbias : ec.rw.sparseBias ≠ 0) (hfuel : fuelBound inst ≤ ec.fuel) (r0 : Rng) :
    ∃ e0 mic0 n e, n ≤ potBound inst ∧ envReset orc inst ec s0 r0 = .ok (e0, mic0) ∧
      acceptRun orc inst ec st n e0 = .ok e ∧ e.histLen = n ∧ e.terminated = true ∧ e.truncated = false := by
  obtain ⟨e0, mic0, e, hreset, hrun, hterm, htr, _, _, hlen⟩ :=
    c11_always_accept_terminates hst hC hjk hops hspan hbias hfuel r0
  have h0len : e0.histLen = 0 := by
    unfold envReset at hreset
    obtain ⟨⟨res, mw, r', mic'⟩, _, h⟩ := except_bind_eq_ok hreset
    simp at h
    rw [← h.1]
  have h3 := (acceptRun_histLen (potBound inst) e0 e hrun).2.2
  rw [h0len, Nat.sub_zero] at h3
  exact ⟨e0, mic0, e.histLen, e, hlen, hreset, h3, rfl, hterm, htr⟩

/-! ## the hypotheses are satisfiable -/

/-- on the example instance (2 jobs × 2 machines, one AGV, early dispatch on): the run exists and ends
terminated within `potBound = 10` steps -/
example : ∃ e0 mic0 e, envReset ExT.orc0 ExT.instT ExT.ec Ex.s0 ExT.r0 = .ok (e0, mic0) ∧
    acceptRun ExT.orc0 ExT.instT ExT.ec ExT.st (potBound ExT.instT) e0 = .ok e ∧
    e.terminated = true ∧ e.truncated = false ∧ e.done = true ∧ isDone ExT.instT e.res.state = true ∧
    e.histLen ≤ potBound ExT.instT :=
  c11_always_accept_terminates ExT.start_exT (by decide) (by decide) (by decide) (by decide) (by decide) (by decide)
    ExT.r0

/-! ## a fuel hypothesis is needed: one `state.step` makes several rounds of the loop -/

namespace ExFuel

/-- reset the example and accept ten times, with `k` rounds of fuel per `state.step` -/
def run (k : Nat) : Except Err EnvState :=
  match envReset ExT.orc0 ExT.instT { ExT.ec with fuel := k } Ex.s0 ExT.r0 with
  | .error e => .error e
  | .ok (e0, _) => acceptRun ExT.orc0 ExT.instT { ExT.ec with fuel := k } ExT.st (potBound ExT.instT) e0

def finished (k : Nat) : Bool :=
  match run k with
  | .ok e => e.terminated && !e.truncated
  | .error _ => false

/-- with five rounds the loop of some `state.step` of the run is cut off (`Hang`), with six the run
finishes; `fuelBound ExT.instT = 19` -/
theorem fuel_is_needed : (match run 5 with | .error e => e == .outOfFuel | .ok _ => false) = true ∧
    finished 6 = true ∧ fuelBound ExT.instT = 19 := by decide

end ExFuel

end JSL
