import JSL.Inv.PlanLemmas

/-!
# C06 — the lower bound never exceeds the makespan of any feasible schedule

`lowerBound` is the loop-faithful model of `utils.calculate_lower_bound` (Taillard's bound as the
code computes it).  For every instance in which no job visits a machine twice and no duration is
negative, and **every** feasible schedule of it – operations of a job in order from time 0 on, no
two operations of one machine overlapping – the bound is at most the makespan.  Hence it is at
most the optimum, and the normalised terminal reward never exceeds its nominal maximum.

The hypothesis "no job visits a machine twice" is needed: `c06_recirculation_breaks_bound`.
-/

namespace JSL

/-- **C06: the lower bound the environment computes never exceeds the makespan of any feasible
schedule** of an instance without recirculation and without negative durations – in particular
not the optimal one. -/
theorem c06_lower_bound_sound {p : Plan} {C L : Int} (hf : FeasiblePlan p C)
    (hd : ∀ j ∈ p, ∀ x ∈ j, 0 ≤ x.dur) (hnd : ∀ j ∈ p, (j.map POp.mach).Nodup)
    (h : lowerBound p.proj = some L) : L ≤ C := by
  obtain ⟨hrect, per, mm, mj, hper, hmm, hmj, rfl⟩ := lowerBound_spec h
  -- `per` is non-empty, so there is at least one operation per job
  have hmem := maxOfList_mem hmm
  obtain ⟨μ, hμ, hval⟩ := option_mapM_mem hper mm hmem
  have hnm : 0 < nmOf p.proj := by
    have := List.mem_range.mp hμ; omega
  have hne : ∀ j ∈ p, j ≠ [] := by
    intro j hj e
    subst e
    have := hrect (PJob.proj []) (List.mem_map.mpr ⟨[], hj, rfl⟩)
    simp [PJob.proj] at this
    omega
  cases hb : bOf p.proj μ with
  | none => simp [hb] at hval
  | some b =>
    cases ha : aOf p.proj μ with
    | none => simp [hb, ha] at hval
    | some a =>
      simp [hb, ha] at hval
      have h1 := machine_bound hf hd hnd hne μ hb ha
      have h2 := job_bound hf hd hne hmj
      omega

/-- the hypothesis "no job visits a machine twice" cannot be dropped: one job (m0,1)(m1,5)(m0,1)
run back to back has makespan 7, yet the code's bound is 8 (the tail `a_0` is taken after the
first visit of machine 0 while its last operation there ends the schedule) -/
theorem c06_recirculation_breaks_bound :
    ∃ (p : Plan) (C L : Int), FeasiblePlan p C ∧ (∀ j ∈ p, ∀ x ∈ j, 0 ≤ x.dur) ∧
      lowerBound p.proj = some L ∧ C < L := by
  refine ⟨[[(0, 1, 0), (1, 5, 1), (0, 1, 6)]], 7, 8, ⟨?_, ?_, ?_⟩, ?_, by decide, by decide⟩
  · intro j hj; simp at hj; subst hj; simp [ChainOK, POp.start, POp.stop]
  · simp [disjointOps, POp.mach, POp.stop, POp.start]
  · intro j hj x hx; simp at hj; subst hj; simp at hx; rcases hx with rfl | rfl | rfl <;> simp [POp.stop]
  · intro j hj x hx; simp at hj; subst hj; simp at hx; rcases hx with rfl | rfl | rfl <;> simp [POp.dur]

/-- non-vacuity: a feasible schedule of a 2×2 instance and its bound -/
example : FeasiblePlan [[(0, 3, 0), (1, 2, 3)], [(1, 2, 0), (0, 4, 3)]] 7 ∧
    lowerBound (Plan.proj [[(0, 3, 0), (1, 2, 3)], [(1, 2, 0), (0, 4, 3)]]) = some 7 := by
  refine ⟨⟨?_, ?_, ?_⟩, by decide⟩
  · intro j hj; simp at hj; rcases hj with rfl | rfl <;> simp [ChainOK, POp.start, POp.stop]
  · simp [disjointOps, POp.mach, POp.stop, POp.start]
  · intro j hj x hx; simp at hj; rcases hj with rfl | rfl <;> simp at hx <;> rcases hx with rfl | rfl <;> simp [POp.stop]

end JSL
