import JSL.Inv.PlanLemmas
import JSL.Inv.PlanOf
import JSL.Inv.EnvReach
import JSL.Props.Example
import JSL.Props.C19

/-!
# C06 — the lower bound never exceeds the makespan of any feasible schedule

`lowerBound` is the loop-faithful model of `utils.calculate_lower_bound` (Taillard's bound as the
code computes it).  For every instance in which no job visits a machine twice and no duration is
negative, and **every** feasible schedule of it – operations of a job in order from time 0 on, no
two operations of one machine overlapping – the bound is at most the makespan.  Hence it is at
most the optimum, and the normalised terminal reward never exceeds its nominal maximum.

The hypothesis "no job visits a machine twice" is needed: `c06_recirculation_breaks_bound`.

`c06_env_makespan_at_least_bound` closes the loop with the environment: the schedule recorded in
the state of **any terminated episode** (reset, then any agent actions) of an instance with
constant durations is such a feasible schedule with the reported makespan, so the action interface
admits no shortcut below the bound.  (That the optimum is *reached* by some accept/decline
sequence is the correspondence side of C06: exhaustive decision trees against an independent
optimum.)
-/

namespace JSL

/-- **C06: the lower bound the environment computes never exceeds the makespan of any feasible
schedule** of an instance without recirculation and without negative durations – in particular
not the optimal one. -/
theorem c06_lower_bound_sound {p : Plan} {C L : Int} (hf : FeasiblePlan p C)
    (hd : ∀ j ∈ p, ∀ x ∈ j, 0 ≤ x.dur) (hnd : ∀ j ∈ p, (j.map POp.mach).Nodup)
    (h : lowerBound p.proj = some L) : L ≤ C := by
  obtain ⟨hrect, per, mm, mj, hper, hmm, hmj, rfl⟩ := lowerBound_spec h
  -- `per` is non-empty, so there is at least one operation per job
  have hmem := maxOfList_mem hmm
  obtain ⟨μ, hμ, hval⟩ := option_mapM_mem hper mm hmem
  have hnm : 0 < nmOf p.proj := by
    have := List.mem_range.mp hμ; omega
  have hne : ∀ j ∈ p, j ≠ [] := by
    intro j hj e
    subst e
    have := hrect (PJob.proj []) (List.mem_map.mpr ⟨[], hj, rfl⟩)
    simp [PJob.proj] at this
    omega
  cases hb : bOf p.proj μ with
  | none => simp [hb] at hval
  | some b =>
    cases ha : aOf p.proj μ with
    | none => simp [hb, ha] at hval
    | some a =>
      simp [hb, ha] at hval
      have h1 := machine_bound hf hd hnd hne μ hb ha
      have h2 := job_bound hf hd hne hmj
      omega

/-- **C06, environment side: no terminated episode beats the bound.**  For an instance whose
durations are constants and in which no job visits a machine twice, started at a non-negative
time from a state at rest: whatever the agent does, the makespan reported with `terminated` is at
least the lower bound computed from the instance. -/
theorem c06_env_makespan_at_least_bound {orc : Oracle} {inst : Instance} {ec : EnvCfg} {st : RewardStatic}
    {s0 : State} (hst : Start orc inst s0) (h0 : 0 ≤ s0.time)
    (hdet : ∀ jc ∈ inst.jobs, ∀ oc ∈ jc.ops, ∃ d, oc.dur = .det d)
    (hnr : ∀ jc ∈ inst.jobs, (jc.ops.map (·.machine)).Nodup)
    {e : EnvState} (hr : EnvReach orc inst ec st s0 e) {a : AgentAct} {out : StepOut}
    (h : envStep orc inst ec st e a = .ok out) {C : Int} (hm : out.makespan = some C)
    {r : Rng} {L : Int} (hL : lowerBound (schedOf orc r inst) = some L) : L ≤ C := by
  have hi := envReach_inv hst (EnvReach.step hr h)
  obtain ⟨w, _⟩ := initOKB_sound hst.init
  have nn := nonnegB_sound hst.samples hst.nonneg
  have hx : Exposed orc inst ec st s0 out.env.res.state := Exposed.state (EnvReach.step hr h)
  -- the reported makespan is the clock of a successful, fully delivered result
  have hfin : out.env.res.success = true ∧ isDone inst out.env.res.state = true ∧ C = out.env.res.state.time := by
    unfold envStep at h
    split at h
    · simp at h
    · obtain ⟨⟨res', mw, r, mic⟩, _, h⟩ := except_bind_eq_ok h
      simp only at h
      obtain ⟨⟨rew, cnt⟩, _, h⟩ := except_bind_eq_ok h
      simp at h; subst h
      by_cases hs : res'.success = true
      · simp only [hs, if_true] at hm ⊢
        by_cases hd : isDone inst res'.state = true
        · simp [hd] at hm; exact ⟨trivial, hd, hm.symm⟩
        · simp [hd] at hm
      · simp [hs] at hm
  obtain ⟨hsuc, hdone, rfl⟩ := hfin
  have hall : ∀ j ∈ out.env.res.state.jobs, ∀ o ∈ j.ops, o.st = .done := by
    intro j hj
    have hl : j.loc ∈ outputIds inst := by
      unfold isDone at hdone
      exact List.contains_iff_mem.mp (List.all_eq_true.mp hdone j hj)
    exact (exposed_route hst hx).delivered j hj hl
  obtain ⟨t, hS⟩ := hi.sched
  have hF : Feasible inst out.env.res.state := Feasible.of_time (feasible_of_inv w (hi.struct.time t) hS)
  obtain ⟨hplan, hdur⟩ := feasiblePlan_of_state w hi.struct hS.ops hF hi.dur
    (fun j hj o ho a ha => Int.le_trans h0 (hi.starts j hj o ho (by rw [hall j hj o ho]; simp) a ha))
    hall hdet (fun jc hjc oc hoc d hd => nn.ops jc hjc oc hoc d hd)
    (C := out.env.res.state.time) (fun j hj o ho b hb => hi.stamp hsuc hdone j hj o ho (hall j hj o ho) b hb)
  have hproj := planOf_proj (orc := orc) w hi.struct.shape r hdet
  exact c06_lower_bound_sound hplan hdur (planOf_nodup_mach hi.struct.shape hnr) (by rw [hproj]; exact hL)

/-- **…so the normalised terminal reward never exceeds its nominal maximum**: when the reward factory
is given the computed bound (`st.lb`) and the bound is below the normalisation constant, the main
term `(T_max − makespan)/(T_max − LB)` of the reward of every terminated episode is at most 1. -/
theorem c06_terminal_reward_at_most_nominal {orc : Oracle} {inst : Instance} {ec : EnvCfg} {st : RewardStatic}
    {s0 : State} (hst : Start orc inst s0) (h0 : 0 ≤ s0.time)
    (hdet : ∀ jc ∈ inst.jobs, ∀ oc ∈ jc.ops, ∃ d, oc.dur = .det d)
    (hnr : ∀ jc ∈ inst.jobs, (jc.ops.map (·.machine)).Nodup)
    {e : EnvState} (hr : EnvReach orc inst ec st s0 e) {a : AgentAct} {out : StepOut}
    (h : envStep orc inst ec st e a = .ok out) {C : Int} (hm : out.makespan = some C)
    {r : Rng} (hL : lowerBound (schedOf orc r inst) = some st.lb) (hlt : st.lb < st.tmax) :
    sparseReward ec.rw st C true false = .ok (mainTerm st C) ∧ mainTerm st C ≤ 1 :=
  ⟨c19_terminal_value ec.rw st C (by omega),
   c19_le_one st hlt C (c06_env_makespan_at_least_bound hst h0 hdet hnr hr h hm hL)⟩

/-- non-vacuity of the environment theorem: the example instance meets every hypothesis and has a bound -/
example : initOKB Ex.inst Ex.s0 = true ∧ restB Ex.s0 = true ∧ placedB Ex.inst Ex.s0 = true ∧ nonnegB Ex.inst = true ∧
    0 ≤ Ex.s0.time ∧ (∀ jc ∈ Ex.inst.jobs, ∀ oc ∈ jc.ops, ∃ d, oc.dur = .det d) ∧
    (∀ jc ∈ Ex.inst.jobs, (jc.ops.map (·.machine)).Nodup) ∧
    lowerBound (schedOf (fun _ _ => 0) (fun _ => 0) Ex.inst) = some 6 := by
  refine ⟨by decide, by decide, by decide, by decide, by decide, ?_, by decide, by decide⟩
  intro jc hjc oc hoc
  simp [Ex.inst] at hjc
  rcases hjc with rfl | rfl <;> simp at hoc <;> rcases hoc with rfl | rfl <;> simp

/-- the hypothesis "no job visits a machine twice" cannot be dropped: one job (m0,1)(m1,5)(m0,1)
run back to back has makespan 7, yet the code's bound is 8 (the tail `a_0` is taken after the
first visit of machine 0 while its last operation there ends the schedule) -/
theorem c06_recirculation_breaks_bound :
    ∃ (p : Plan) (C L : Int), FeasiblePlan p C ∧ (∀ j ∈ p, ∀ x ∈ j, 0 ≤ x.dur) ∧
      lowerBound p.proj = some L ∧ C < L := by
  refine ⟨[[(0, 1, 0), (1, 5, 1), (0, 1, 6)]], 7, 8, ⟨?_, ?_, ?_⟩, ?_, by decide, by decide⟩
  · intro j hj; simp at hj; subst hj; simp [ChainOK, POp.start, POp.stop]
  · simp [disjointOps, POp.mach, POp.stop, POp.start]
  · intro j hj x hx; simp at hj; subst hj; simp at hx; rcases hx with rfl | rfl | rfl <;> simp [POp.stop]
  · intro j hj x hx; simp at hj; subst hj; simp at hx; rcases hx with rfl | rfl | rfl <;> simp [POp.dur]

/-- non-vacuity: a feasible schedule of a 2×2 instance and its bound -/
example : FeasiblePlan [[(0, 3, 0), (1, 2, 3)], [(1, 2, 0), (0, 4, 3)]] 7 ∧
    lowerBound (Plan.proj [[(0, 3, 0), (1, 2, 3)], [(1, 2, 0), (0, 4, 3)]]) = some 7 := by
  refine ⟨⟨?_, ?_, ?_⟩, by decide⟩
  · intro j hj; simp at hj; rcases hj with rfl | rfl <;> simp [ChainOK, POp.start, POp.stop]
  · simp [disjointOps, POp.mach, POp.stop, POp.start]
  · intro j hj x hx; simp at hj; rcases hj with rfl | rfl <;> simp at hx <;> rcases hx with rfl | rfl <;> simp [POp.stop]

end JSL
