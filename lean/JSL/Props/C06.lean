import JSL.Inv.PlanLemmas
import JSL.Inv.PlanOf
import JSL.Inv.EnvReach
import JSL.Props.Example
import JSL.Props.C19
import JSL.Inv.Fresh

/-!
# C06 — the lower bound never exceeds the makespan of any feasible schedule

`lowerBound` is the loop-faithful model of `utils.calculate_lower_bound` (Taillard's bound as the
code computes it).  For every instance in which no job visits a machine twice and no duration is
negative, and **every** feasible schedule of it – operations of a job in order from time 0 on, no
two operations of one machine overlapping – the bound is at most the makespan.  Hence it is at
most the optimum, and the normalised terminal reward never exceeds its nominal maximum.

The hypothesis "no job visits a machine twice" is needed: `c06_recirculation_breaks_bound`.

`c06_env_makespan_at_least_bound` closes the loop with the environment: the schedule recorded in
the state of **any terminated episode** (reset, then any agent actions) of an instance with
constant durations is such a feasible schedule with the reported makespan, so the action interface
admits no shortcut below the bound.  (That the optimum is *reached* by some accept/decline
sequence is the correspondence side of C06: exhaustive decision trees against an independent
optimum.)
-/

namespace JSL

/-- **C06: the lower bound the environment computes never exceeds the makespan of any feasible
schedule** of an instance without recirculation and without negative durations – in particular
not the optimal one. -/
theorem c06_lower_bound_sound {p : Plan} {C L : Int} (hf : FeasiblePlan p C)
    (hd : ∀ j ∈ p, ∀ x ∈ j, 0 ≤ x.dur) (hnd : ∀ j ∈ p, (j.map POp.mach).Nodup)
    (h : lowerBound p.proj = some L) : L ≤ C := by
  obtain ⟨hrect, per, mm, mj, hper, hmm, hmj, rfl⟩ := lowerBound_spec h
  -- `per` is non-empty, so there is at least one operation per job
  have hmem := maxOfList_mem hmm
  obtain ⟨μ, hμ, hval⟩ := option_mapM_mem hper mm hmem
  have hnm : 0 < nmOf p.proj := by
    have := List.mem_range.mp hμ; omega
  have hne : ∀ j ∈ p, j ≠ [] := by
    intro j hj e
    subst e
    have := hrect (PJob.proj []) (List.mem_map.mpr ⟨[], hj, rfl⟩)
    simp [PJob.proj] at this
    omega
  cases hb : bOf p.proj μ with
  | none => simp [hb] at hval
  | some b =>
    cases ha : aOf p.proj μ with
    | none => simp [hb, ha] at hval
    | some a =>
      simp [hb, ha] at hval
      have h1 := machine_bound hf hd hnd hne μ hb ha
      have h2 := job_bound hf hd hne hmj
      omega

/-- **C06, environment side: no terminated episode beats the bound.**  For an instance whose
durations are constants and in which no job visits a machine twice, started at a non-negative
time from a state at rest: whatever the agent does, the makespan reported with `terminated` is at
least the lower bound computed from the instance. -/
theorem c06_env_makespan_at_least_bound {orc : Oracle} {inst : Instance} {ec : EnvCfg} {st : RewardStatic}
    {s0 : State} (hst : Start orc inst s0) (h0 : 0 ≤ s0.time)
    (hdet : ∀ jc ∈ inst.jobs, ∀ oc ∈ jc.ops, ∃ d, oc.dur = .det d)
    (hnr : ∀ jc ∈ inst.jobs, (jc.ops.map (·.machine)).Nodup)
    {e : EnvState} (hr : EnvReach orc inst ec st s0 e) {a : AgentAct} {out : StepOut}
    (h : envStep orc inst ec st e a = .ok out) {C : Int} (hm : out.makespan = some C)
    {r : Rng} {L : Int} (hL : lowerBound (schedOf orc r inst) = some L) : L ≤ C := by
  have hi := envReach_inv hst (EnvReach.step hr h)
  obtain ⟨w, _⟩ := initOKB_sound hst.init
  have nn := nonnegB_sound hst.samples hst.nonneg
  have hx : Exposed orc inst ec st s0 out.env.res.state := Exposed.state (EnvReach.step hr h)
  -- the reported makespan is the clock of a successful, fully delivered result
  have hfin : out.env.res.success = true ∧ isDone inst out.env.res.state = true ∧ C = out.env.res.state.time := by
    unfold envStep at h
    split at h
    · simp at h
    · obtain ⟨⟨res', mw, r, mic⟩, _, h⟩ := except_bind_eq_ok h
      simp only at h
      obtain ⟨⟨rew, cnt⟩, _, h⟩ := except_bind_eq_ok h
      simp at h; subst h
      by_cases hs : res'.success = true
      · simp only [hs, if_true] at hm ⊢
        by_cases hd : isDone inst res'.state = true
        · simp [hd] at hm; exact ⟨trivial, hd, hm.symm⟩
        · simp [hd] at hm
      · simp [hs] at hm
  obtain ⟨hsuc, hdone, rfl⟩ := hfin
  have hall : ∀ j ∈ out.env.res.state.jobs, ∀ o ∈ j.ops, o.st = .done := by
    intro j hj
    have hl : j.loc ∈ outputIds inst := by
      unfold isDone at hdone
      exact List.contains_iff_mem.mp (List.all_eq_true.mp hdone j hj)
    exact (exposed_route hst hx).delivered j hj hl
  obtain ⟨t, hS⟩ := hi.sched
  have hF : Feasible inst out.env.res.state := Feasible.of_time (feasible_of_inv w (hi.struct.time t) hS)
  obtain ⟨hplan, hdur⟩ := feasiblePlan_of_state w hi.struct hS.ops hF hi.dur
    (fun j hj o ho a ha => Int.le_trans h0 (hi.starts j hj o ho (by rw [hall j hj o ho]; simp) a ha))
    hall hdet (fun jc hjc oc hoc d hd => nn.ops jc hjc oc hoc d hd)
    (C := out.env.res.state.time) (fun j hj o ho b hb => hi.stamp hsuc hdone j hj o ho (hall j hj o ho) b hb)
  have hproj := planOf_proj (orc := orc) w hi.struct.shape r hdet
  exact c06_lower_bound_sound hplan hdur (planOf_nodup_mach hi.struct.shape hnr) (by rw [hproj]; exact hL)

/-- **…so the normalised terminal reward never exceeds its nominal maximum**: when the reward factory
is given the computed bound (`st.lb`) and the bound is below the normalisation constant, the main
term `(T_max − makespan)/(T_max − LB)` of the reward of every terminated episode is at most 1. -/
theorem c06_terminal_reward_at_most_nominal {orc : Oracle} {inst : Instance} {ec : EnvCfg} {st : RewardStatic}
    {s0 : State} (hst : Start orc inst s0) (h0 : 0 ≤ s0.time)
    (hdet : ∀ jc ∈ inst.jobs, ∀ oc ∈ jc.ops, ∃ d, oc.dur = .det d)
    (hnr : ∀ jc ∈ inst.jobs, (jc.ops.map (·.machine)).Nodup)
    {e : EnvState} (hr : EnvReach orc inst ec st s0 e) {a : AgentAct} {out : StepOut}
    (h : envStep orc inst ec st e a = .ok out) {C : Int} (hm : out.makespan = some C)
    {r : Rng} (hL : lowerBound (schedOf orc r inst) = some st.lb) (hlt : st.lb < st.tmax) :
    sparseReward ec.rw st C true false = .ok (mainTerm st C) ∧ mainTerm st C ≤ 1 :=
  ⟨c19_terminal_value ec.rw st C (by omega),
   c19_le_one st hlt C (c06_env_makespan_at_least_bound hst h0 hdet hnr hr h hm hL)⟩

/-- non-vacuity of the environment theorem: the example instance meets every hypothesis and has a bound -/
example : initOKB Ex.inst Ex.s0 = true ∧ restB Ex.s0 = true ∧ placedB Ex.inst Ex.s0 = true ∧ nonnegB Ex.inst = true ∧
    0 ≤ Ex.s0.time ∧ (∀ jc ∈ Ex.inst.jobs, ∀ oc ∈ jc.ops, ∃ d, oc.dur = .det d) ∧
    (∀ jc ∈ Ex.inst.jobs, (jc.ops.map (·.machine)).Nodup) ∧
    lowerBound (schedOf (fun _ _ => 0) (fun _ => 0) Ex.inst) = some 6 := by
  refine ⟨by decide, by decide, by decide, by decide, by decide, ?_, by decide, by decide⟩
  intro jc hjc oc hoc
  simp [Ex.inst] at hjc
  rcases hjc with rfl | rfl <;> simp at hoc <;> rcases hoc with rfl | rfl <;> simp

/-- the hypothesis "no job visits a machine twice" cannot be dropped: one job (m0,1)(m1,5)(m0,1)
run back to back has makespan 7, yet the code's bound is 8 (the tail `a_0` is taken after the
first visit of machine 0 while its last operation there ends the schedule) -/
theorem c06_recirculation_breaks_bound :
    ∃ (p : Plan) (C L : Int), FeasiblePlan p C ∧ (∀ j ∈ p, ∀ x ∈ j, 0 ≤ x.dur) ∧
      lowerBound p.proj = some L ∧ C < L := by
  refine ⟨[[(0, 1, 0), (1, 5, 1), (0, 1, 6)]], 7, 8, ⟨?_, ?_, ?_⟩, ?_, by decide, by decide⟩
  · intro j hj; simp at hj; subst hj; simp [ChainOK, POp.start, POp.stop]
  · simp [disjointOps, POp.mach, POp.stop, POp.start]
  · intro j hj x hx; simp at hj; subst hj; simp at hx; rcases hx with rfl | rfl | rfl <;> simp [POp.stop]
  · intro j hj x hx; simp at hj; subst hj; simp at hx; rcases hx with rfl | rfl | rfl <;> simp [POp.dur]

/-- non-vacuity: a feasible schedule of a 2×2 instance and its bound -/
example : FeasiblePlan [[(0, 3, 0), (1, 2, 3)], [(1, 2, 0), (0, 4, 3)]] 7 ∧
    lowerBound (Plan.proj [[(0, 3, 0), (1, 2, 3)], [(1, 2, 0), (0, 4, 3)]]) = some 7 := by
  refine ⟨⟨?_, ?_, ?_⟩, by decide⟩
  · intro j hj; simp at hj; rcases hj with rfl | rfl <;> simp [ChainOK, POp.start, POp.stop]
  · simp [disjointOps, POp.mach, POp.stop, POp.start]
  · intro j hj x hx; simp at hj; rcases hj with rfl | rfl <;> simp at hx <;> rcases hx with rfl | rfl <;> simp [POp.stop]

/-!

## Reachability side: the local ingredients of "every schedule can be steered to through
accept / decline decisions"

At a decision point the environment holds a shop state and a list of offers.

* **T1** `c06_offers_are_the_startable_operations` – right after a state-machine step the machine
  starts on offer are exactly the startable operations of the state held: job not running, its first
  idle operation routed to an idle machine in whose pre-buffer the job stands.  In general the held
  list is that list minus the prefix already declined (`envReach_held_offers`).
* **T2** `c06_any_offer_can_be_chosen` – whatever is still on offer can be brought to the head by
  declining what stands in front of it: no transition is applied, shop state, update counters and
  allowance are untouched, the episode goes on.
* **T3** `c06_only_an_accepted_start_starts` – for FLEX pre-buffers: a step that is not the acceptance
  of a machine start takes no operation record out of `IDLE`.  For ordered pre-buffers this is false
  (`c06_ordered_prebuffers_start_by_themselves`): machines then take their jobs themselves.
* **T4** `c06_accepted_start_starts_now` – accepting a machine start applies it first, to the state
  held, and the operation begins at the decision instant.
* `c06_startable_can_be_started_now` – the composition: at a fresh decision point every startable
  operation can be started at the current instant by a run of declines followed by one accept
  (provided that accept returns – its timed loop is where the recorded C05 findings lie).
-/

variable {orc : Oracle} {inst : Instance}

/-- **T1.**  At a fresh decision point of any episode: the machine start `(mid, jid)` is on offer iff
job `jid` is not running, its first idle operation is routed to machine `mid`, that machine is idle,
and the job stands in its pre-buffer. -/
theorem c06_offers_are_the_startable_operations {ec : EnvCfg} {st : RewardStatic} {s0 : State}
    (hst : Start orc inst s0) {e : EnvState} (hr : EnvReach orc inst ec st s0 e) (hne : e.res.possible ≠ [])
    (hf : FreshOffers inst ec e) (mid jid : Nat) :
    ({ comp := .m mid, new := .m .setup, job := some jid } : Transition) ∈ e.res.possible ↔
      ∃ j ∈ e.res.state.jobs, j.id = jid ∧ ∃ o m, StartableOp e.res.state j o m ∧ o.machine = mid := by
  obtain ⟨_, _, hS⟩ := occursA_inv hst ((envReach_inv hst hr).live hne).1
  exact machine_offer_iff_op hS hf mid jid

/-- **T2.**  Whatever is on offer can be chosen: `tr ∈ e.res.possible` is brought to the head by
declining the offers in front of it. -/
theorem c06_any_offer_can_be_chosen {ec : EnvCfg} {st : RewardStatic} {s0 : State} (hst : Start orc inst s0)
    (hj : 0 ≤ ec.mw.jokerInit) (hn : st.numOps ≠ 0) {e : EnvState} (hr : EnvReach orc inst ec st s0 e)
    (hd : e.done = false) {tr : Transition} (htr : tr ∈ e.res.possible) :
    ∃ k e' post, k < e.res.possible.length ∧ envDeclineN orc inst ec st k e = .ok (e', []) ∧
      EnvReach orc inst ec st s0 e' ∧ e'.done = false ∧ e'.res.state = e.res.state ∧
      e'.res.possible = tr :: post ∧ e'.rng = e.rng ∧ e'.mw.joker = e.mw.joker ∧ e'.mw.actCnt = e.mw.actCnt := by
  obtain ⟨pre, post, hp⟩ := List.append_of_mem htr
  obtain ⟨e', h1, h2, h3, h4, h5, h6, h7, h8⟩ := envReach_decline_to_offer hst hj hn hr hd pre tr post hp
  exact ⟨pre.length, e', post, by rw [hp]; simp, h1, h2, h3, h4, h5, h6, h7, h8⟩

/-- **T3.**  With FLEX pre-buffers, a step of the environment that is not the acceptance of a machine
start starts no operation: every record that is not idle afterwards (in the state held, and right
after every transition applied inside the step) was not idle before. -/
theorem c06_only_an_accepted_start_starts {ec : EnvCfg} {st : RewardStatic} {s0 : State} (hst : Start orc inst s0)
    (hflex : PreFlex inst) {e : EnvState} (hr : EnvReach orc inst ec st s0 e) {a : AgentAct} {out : StepOut}
    (hk : a = .decline ∨ ∀ tr ∈ e.res.possible.head?, tr.new ≠ .m .setup)
    (h : envStep orc inst ec st e a = .ok out) :
    NoStartSince e.res.state out.env.res.state ∧ (∀ σ ∈ out.micro, NoStartSince e.res.state σ) := by
  rcases hk with rfl | hk
  · exact envStep_decline_starts_nothing hst hflex hr h
  · exact envStep_dispatch_starts_nothing hst hflex hr hk h

/-- T3 read forwards: under the same hypotheses every record that is idle before the step is still
idle after it -/
theorem c06_idle_records_stay_idle {ec : EnvCfg} {st : RewardStatic} {s0 : State} (hst : Start orc inst s0)
    (hflex : PreFlex inst) {e : EnvState} (hr : EnvReach orc inst ec st s0 e) {a : AgentAct} {out : StepOut}
    (hk : a = .decline ∨ ∀ tr ∈ e.res.possible.head?, tr.new ≠ .m .setup)
    (h : envStep orc inst ec st e a = .ok out) :
    ∀ j ∈ e.res.state.jobs, ∀ o ∈ j.ops, o.st = .idle →
      ∃ j' ∈ out.env.res.state.jobs, j'.id = j.id ∧ ∃ o' ∈ j'.ops, o'.job = o.job ∧ o'.idx = o.idx ∧ o'.st = .idle :=
  (c06_only_an_accepted_start_starts hst hflex hr hk h).1.idle_stays (initOKB_sound hst.init).1
    (envReach_inv hst hr).struct.shape (envReach_inv hst (EnvReach.step hr h)).struct.shape

/-- the hypothesis of T3 cannot be dropped -/
theorem c06_ordered_prebuffers_start_by_themselves : Start ExT.orc0 ExFifo.inst Ex.s0 ∧
    ∃ e out, EnvReach ExT.orc0 ExFifo.inst ExT.ec ExT.st Ex.s0 e ∧
      envStep ExT.orc0 ExFifo.inst ExT.ec ExT.st e .decline = .ok out ∧
      e.res.possible.length = 1 ∧ (∀ tr ∈ e.res.possible, tr.new ≠ .m .setup) ∧
      ¬ NoStartSince e.res.state out.env.res.state :=
  fifo_decline_starts

/-- **T4.**  An accepted machine start is applied first and the operation begins at the decision
instant. -/
theorem c06_accepted_start_starts_now {ec : EnvCfg} {st : RewardStatic} {s0 : State} (hst : Start orc inst s0)
    {e : EnvState} (hr : EnvReach orc inst ec st s0 e) {mid jid : Nat} {rest : List Transition}
    (hp : e.res.possible = { comp := .m mid, new := .m .setup, job := some jid } :: rest)
    {out : StepOut} (h : envStep orc inst ec st e .accept = .ok out) :
    ∃ s1 r1 mic', applyTransition orc inst e.res.state e.rng { comp := .m mid, new := .m .setup, job := some jid } = .ok (s1, r1) ∧
      out.micro = s1 :: mic' ∧
      ∃ j ∈ e.res.state.jobs, j.id = jid ∧ ∃ o mm, StartableOp e.res.state j o mm ∧ o.machine = mid ∧
      ∃ sd : Int, ∃ j1 ∈ s1.jobs, j1.id = jid ∧
        (∃ o1 ∈ j1.ops, o1.job = o.job ∧ o1.idx = o.idx ∧ o1.st = .processing ∧ o1.machine = mid ∧
          o1.start = some e.res.state.time ∧ o1.stop = some (e.res.state.time + sd)) ∧
        ∃ m1 ∈ s1.machines, m1.id = mid ∧ m1.st = .setup ∧ m1.occ = some (e.res.state.time + sd) :=
  envStep_accept_starts_now hst hr hp h

/-- **Composition.**  At a fresh decision point of an episode that is not over, for every startable
operation `o` of a job `j`: some number `k` of declines – applying nothing, changing neither the
shop state nor the counters nor the allowance – leads to an environment state of the same episode
whose head offer is the start of `o`; and if the `accept` there returns, its first applied
transition starts `o` at the current instant `e.res.state.time`. -/
theorem c06_startable_can_be_started_now {ec : EnvCfg} {st : RewardStatic} {s0 : State} (hst : Start orc inst s0)
    (hj : 0 ≤ ec.mw.jokerInit) (hn : st.numOps ≠ 0) {e : EnvState} (hr : EnvReach orc inst ec st s0 e)
    (hd : e.done = false) (hne : e.res.possible ≠ []) (hf : FreshOffers inst ec e)
    {j : JobState} (hjm : j ∈ e.res.state.jobs) {o : OpState} {m : MachineState} (hso : StartableOp e.res.state j o m) :
    ∃ k e' post, envDeclineN orc inst ec st k e = .ok (e', []) ∧ EnvReach orc inst ec st s0 e' ∧ e'.done = false ∧
      e'.res.state = e.res.state ∧ e'.rng = e.rng ∧ e'.mw.joker = e.mw.joker ∧
      e'.res.possible = { comp := .m o.machine, new := .m .setup, job := some j.id } :: post ∧
      ∀ out, envStep orc inst ec st e' .accept = .ok out →
        ∃ s1 r1 mic', applyTransition orc inst e.res.state e.rng
            { comp := .m o.machine, new := .m .setup, job := some j.id } = .ok (s1, r1) ∧
          out.micro = s1 :: mic' ∧
          ∃ j1 ∈ s1.jobs, j1.id = j.id ∧ ∃ o1 ∈ j1.ops, o1.job = o.job ∧ o1.idx = o.idx ∧
            o1.st = .processing ∧ o1.machine = o.machine ∧ o1.start = some e.res.state.time := by
  obtain ⟨w, hI, hS⟩ := occursA_inv hst ((envReach_inv hst hr).live hne).1
  have hmem := offers_complete_op hS hf hjm hso
  obtain ⟨k, e', post, _, h1, h2, h3, h4, h5, h6, h7, _⟩ := c06_any_offer_can_be_chosen hst hj hn hr hd hmem
  refine ⟨k, e', post, h1, h2, h3, h4, h6, h7, h5, ?_⟩
  intro out hout
  obtain ⟨s1, r1, mic', ha, hmic, j2, hj2, hid, o2, m2, hso2, _, sd, j1, hj1, e1, ⟨o1, ho1, k1, k2, k3, k4, k5, _⟩, _⟩ :=
    envStep_accept_starts_now hst h2 h5 hout
  rw [h4] at hj2 hso2 ha k5
  rw [h6] at ha
  have : j2 = j := eq_of_mem_of_key_eq (key := fun (y : JobState) => y.id) (hI.shape.jobsNodup w) hj2 hjm hid
  subst this
  have : o2 = o := by
    have := hso2.nextIdle; rw [hso.nextIdle] at this; simpa using this.symm
  subst this
  exact ⟨s1, r1, mic', ha, hmic, j1, hj1, e1, o1, ho1, k1, k2, k3, k4, k5⟩

/-- the FLEX hypothesis of T3 follows from the decidable guard `flexInstB` (every buffer unordered),
which the correspondence check evaluates on both sides for every scenario -/
theorem c06_flex_guard_suffices (h : flexInstB inst = true) : PreFlex inst := by
  intro mc hmc
  apply flexInstB_sound h
  simp only [allBufCfgs, List.mem_append, List.mem_flatMap, List.mem_map]
  exact Or.inl (Or.inr ⟨mc, hmc, by simp⟩)

/-- non-vacuity: the example instance is in that class -/
example : PreFlex Ex.inst := c06_flex_guard_suffices (by decide)

end JSL
