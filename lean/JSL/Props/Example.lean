import JSL.Model.Check

/-!
A concrete compiled instance (2 jobs × 2 machines, one AGV, ids as the compiler assigns them)
used for the non-vacuity examples of the property theorems.
-/

namespace JSL.Ex

def bc (id : Nat) (cap : Int) (role : BufRole) (parent : Option Comp) : BufCfg :=
  { id := id, type := .flex, cap := cap, role := role, parent := parent }

def big : Int := 9223372036854775807

def mc (id pre post buf : Nat) : MachineCfg :=
  { id := id, outages := [], setup := [((0, 0), .det 0)], pre := bc pre big .component (some (.m id)),
    post := bc post big .component (some (.m id)), buf := bc buf 1 .component (some (.m id)) }

def inst : Instance :=
  { jobs := [{ id := 0, ops := [{ job := 0, idx := 0, machine := 0, dur := .det 3, tool := 0 },
                                { job := 0, idx := 1, machine := 1, dur := .det 2, tool := 0 }] },
             { id := 1, ops := [{ job := 1, idx := 0, machine := 1, dur := .det 4, tool := 0 },
                                { job := 1, idx := 1, machine := 0, dur := .det 1, tool := 0 }] }],
    travel := [((.m 0, .m 1), .det 2), ((.m 1, .m 0), .det 3), ((.b 7, .m 0), .det 1), ((.b 7, .m 1), .det 1),
               ((.m 0, .b 8), .det 1), ((.m 1, .b 8), .det 2), ((.m 0, .b 7), .det 1), ((.m 1, .b 7), .det 1),
               ((.m 0, .m 0), .det 0), ((.m 1, .m 1), .det 0)],
    machines := [mc 0 0 1 2, mc 1 3 4 5],
    buffers := [bc 7 big .input none, bc 8 big .output none],
    transports := [{ id := 0, type := .agv, outages := [], buf := bc 6 1 .component (some (.t 0)) }] }

def eb (id : Nat) : BufState := { id := id, bss := .empty, store := [] }

def ms (id pre post buf : Nat) : MachineState :=
  { id := id, buffer := eb buf, occ := none, pre := eb pre, post := eb post, st := .idle, tool := 0, outages := [] }

def op (j k m : Nat) : OpState := { job := j, idx := k, start := none, stop := none, machine := m, st := .idle }

def s0 : State :=
  { jobs := [{ id := 0, ops := [op 0 0 0, op 0 1 1], loc := 7 }, { id := 1, ops := [op 1 0 1, op 1 1 0], loc := 7 }],
    time := 0,
    machines := [ms 0 0 1 2, ms 1 3 4 5],
    transports := [{ st := .idle, id := 0, occ := .none, buffer := eb 6, loc := .at (.m 0), outages := [], job := none }],
    buffers := [{ id := 7, bss := .notEmpty, store := [0, 1] }, eb 8] }

theorem initOK : initOKB inst s0 = true := by decide

end JSL.Ex
