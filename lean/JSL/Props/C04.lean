import JSL.Lib.StepSpec
import JSL.Inv.EnvReach

/-!
# C04 — episodes end exactly when all work is delivered (environment-level part)

`terminated` is by definition `isDone` of the new state; that `isDone` (every job lies in an
output buffer) implies every operation is done is an invariant of the state machine
(`delivered ⇒ done`, see `JSL.Inv`).  Here: never both flags, refusal after the end, and the
allowance bookkeeping that makes "never both" true.
-/

namespace JSL

variable {orc : Oracle} {inst : Instance} {ec : EnvCfg} {st : RewardStatic}

/-- the environment refuses further steps once done -/
theorem c04_refuses (e : EnvState) (a : AgentAct) (hd : e.done = true) :
    envStep orc inst ec st e a = .error .envDone := by
  simp [envStep, hd]

/-- `terminated` is reported exactly when every job lies in an output buffer -/
theorem c04_terminated_iff_isDone (e : EnvState) (a : AgentAct) (out : StepOut)
    (h : envStep orc inst ec st e a = .ok out) (hs : out.obsRes.success = true) :
    out.env.terminated = isDone inst out.env.res.state := by
  unfold envStep at h
  split at h
  · simp at h
  · obtain ⟨⟨res', mw, r, mic⟩, _, h⟩ := except_bind_eq_ok h
    simp only at h
    obtain ⟨⟨rew, cnt⟩, _, h⟩ := except_bind_eq_ok h
    simp at h; subst h
    simp at hs
    simp [hs]

/-- whenever a middleware step lowers the allowance, the new result still has offers, hence is
not done -/
theorem mwStep_joker_lt (mc : MwCfg) (cfg : SMConfig) (fuel : Nat) (res : SMResult) (m : MwState) (r : Rng) (a : AgentAct)
    (out : SMResult × MwState × Rng × List State)
    (h : mwStep orc inst cfg mc fuel res m r a = .ok out) (hlt : out.2.1.joker < m.joker) :
    out.1.success = true ∧ isDone inst out.1.state = false := by
  unfold mwStep interpret at h
  cases hp : res.possible with
  | nil => simp [hp] at h
  | cons o rest =>
    cases a with
    | outside => simp [hp] at h
    | accept =>
      simp only [hp, except_pure, except_bind_ok, MwState.addOp] at h
      obtain ⟨⟨res', r', mic⟩, hs, h⟩ := except_bind_eq_ok h
      simp at h; subst h; simp at hlt
    | decline =>
      simp only [hp, except_pure, except_bind_ok, noOpAction, MwState.addOp, if_true, noOpResult] at h
      cases rest with
      | cons o' rest' => simp at h; subst h; simp at hlt
      | nil =>
        simp only at h
        obtain ⟨⟨res', r', mic⟩, hs, h⟩ := except_bind_eq_ok h
        simp only [List.isEmpty_iff] at h
        by_cases he : res'.possible = []
        · simp only [he, if_true] at h
          split at h
          · simp at h; subst h; simp at hlt
          · simp at h
        · simp only [he, if_false] at h
          simp at h; subst h
          rcases (smStep_spec hs).2 with h1 | h1 | h1
          · exact absurd h1.2.2.2 he
          · exact absurd h1.2.2.1 he
          · exact ⟨h1.1, h1.2.2.1⟩

/-- **Never both.**  From an episode whose allowance is not yet exhausted, a step never reports
termination and truncation together. -/
theorem c04_not_both (e : EnvState) (a : AgentAct) (out : StepOut) (hj : 0 ≤ e.mw.joker)
    (h : envStep orc inst ec st e a = .ok out) :
    ¬ (out.env.terminated = true ∧ out.env.truncated = true) := by
  unfold envStep at h
  split at h
  · simp at h
  · obtain ⟨⟨res', mw, r, mic⟩, hm, h⟩ := except_bind_eq_ok h
    simp only at h
    obtain ⟨⟨rew, cnt⟩, _, h⟩ := except_bind_eq_ok h
    simp at h; subst h
    by_cases hs : res'.success = true
    · simp only [hs, if_true]
      intro ⟨ht, hq⟩
      simp at hq
      have := mwStep_joker_lt ec.mw ec.sm ec.fuel e.res e.mw e.rng a (res', mw, r, mic) hm (by simp; omega)
      simp [this.2] at ht
    · simp [hs]

/-- the allowance invariant that `c04_not_both` needs is maintained: after a step the episode is
done or the allowance is still non-negative -/
theorem c04_joker_inv (e : EnvState) (a : AgentAct) (out : StepOut)
    (h : envStep orc inst ec st e a = .ok out) :
    out.env.done = true ∨ 0 ≤ out.env.mw.joker := by
  unfold envStep at h
  split at h
  · simp at h
  · obtain ⟨⟨res', mw, r, mic⟩, hm, h⟩ := except_bind_eq_ok h
    simp only at h
    obtain ⟨⟨rew, cnt⟩, _, h⟩ := except_bind_eq_ok h
    simp at h; subst h
    by_cases hs : res'.success = true
    · simp only [hs, if_true]
      by_cases hq : mw.joker < 0
      · left; simp [hq]
      · right; show 0 ≤ mw.joker; omega
    · left; simp [hs]

/-- on termination the reported makespan is the time of the state -/
theorem c04_makespan_is_time (e : EnvState) (a : AgentAct) (out : StepOut)
    (h : envStep orc inst ec st e a = .ok out) (ht : out.env.terminated = true) :
    out.makespan = some out.env.res.state.time := by
  unfold envStep at h
  split at h
  · simp at h
  · obtain ⟨⟨res', mw, r, mic⟩, hm, h⟩ := except_bind_eq_ok h
    simp only at h
    obtain ⟨⟨rew, cnt⟩, _, h⟩ := except_bind_eq_ok h
    simp at h; subst h
    simp at ht ⊢
    simp [ht]


/-! ## delivered means finished -/

/-- **A job that lies in an output buffer has every operation done** – at every state the
environment exposes in any episode.  So `terminated` (every job lies in an output buffer) is
equivalent to "every operation of every job is done and every job lies in an output buffer". -/
theorem c04_delivered_is_done {ec : EnvCfg} {s0 σ : State} (hst : Start orc inst s0)
    (h : Exposed orc inst ec st s0 σ) (j : JobState) (hj : j ∈ σ.jobs) (hloc : j.loc ∈ outputIds inst) :
    ∀ o ∈ j.ops, o.st = .done :=
  (exposed_route hst h).delivered j hj hloc

/-- `terminated` says exactly: all work is done and delivered -/
theorem c04_terminated_iff_done_and_delivered {s0 : State} (hst : Start orc inst s0) (e : EnvState)
    (hr : EnvReach orc inst ec st s0 e) (a : AgentAct) (out : StepOut)
    (h : envStep orc inst ec st e a = .ok out) (hs : out.obsRes.success = true) :
    out.env.terminated = true ↔
      (∀ j ∈ out.env.res.state.jobs, j.loc ∈ outputIds inst ∧ ∀ o ∈ j.ops, o.st = .done) := by
  rw [c04_terminated_iff_isDone e a out h hs]
  have hx : Exposed orc inst ec st s0 out.env.res.state := Exposed.state (EnvReach.step hr h)
  unfold isDone
  rw [List.all_eq_true]
  constructor
  · intro hall j hj
    have hl : j.loc ∈ outputIds inst := List.contains_iff_mem.mp (hall j hj)
    exact ⟨hl, c04_delivered_is_done hst hx j hj hl⟩
  · intro hall j hj
    exact List.contains_iff_mem.mpr (hall j hj).1

end JSL
