import JSL.Lib.StepSpec

/-!
# C20 — stepping is functional; rejected actions have no effect

Purity (the input state is never altered) holds of the model by construction – `smStep` is a
function – and says nothing about Python aliasing; that half is covered by the harness
(deep snapshots before/after every step).  The theorems below are the atomicity of rejection.
-/

namespace JSL

variable {orc : Oracle} {inst : Instance} {cfg : SMConfig} {fuel : Nat}

/-- number of validation errors of `process_state_transitions` is positive as soon as one
transition is rejected at its turn -/
theorem processTransitions_nerr_pos (trs₁ : List Transition) (tr : Transition) (trs₂ : List Transition) :
    ∀ (s : State) (r : Rng) (o : ProcOut),
      processTransitions orc inst (trs₁ ++ tr :: trs₂) s r = .ok o →
      (∀ o₁, processTransitions orc inst trs₁ s r = .ok o₁ → transitionValid o₁.state tr = .ok false) →
      o.nerr > 0 := by
  induction trs₁ with
  | nil =>
    intro s r o h hrej
    have hv := hrej ⟨s, r, 0, []⟩ (by simp [processTransitions])
    simp only [List.nil_append, processTransitions, hv, except_bind_ok] at h
    obtain ⟨o', _, h⟩ := except_bind_eq_ok h
    simp at h; subst h; simp
  | cons t ts ih =>
    intro s r o h hrej
    simp only [List.cons_append, processTransitions] at h
    obtain ⟨v, hv, h⟩ := except_bind_eq_ok h
    cases v with
    | true =>
      simp only [if_true] at h
      obtain ⟨⟨s', r'⟩, ha, h⟩ := except_bind_eq_ok h
      obtain ⟨o', ho', h⟩ := except_bind_eq_ok h
      simp at h; subst h
      apply ih s' r' o' ho'
      intro o₁ h₁
      apply hrej { o₁ with micro := s' :: o₁.micro }
      simp [processTransitions, hv, ha, h₁]
    | false =>
      simp only [Bool.false_eq_true, if_false] at h
      obtain ⟨o', _, h⟩ := except_bind_eq_ok h
      simp at h; subst h; simp

/-- **Atomicity of rejection.**  If the step reports failure it returns exactly the state it was
given, with no offers. -/
theorem c20_failure_returns_input (s0 : State) (r : Rng) (a : Action) (res : SMResult) (r' : Rng)
    (mic : List State) (h : smStep orc inst cfg fuel s0 r a = .ok (res, r', mic))
    (hf : res.success = false) : res.state = s0 ∧ res.possible = [] := by
  rcases (smStep_spec h).2 with h1 | h1 | h1
  · exact ⟨h1.2.2.1, h1.2.2.2⟩
  · simp [h1.1] at hf
  · simp [h1.1] at hf

/-- If any transition of the action is rejected at its turn (in the order the step processes
them: transports first, stable), the step – when it returns – reports failure and hands back the
state it was given.  Any order and multiplicity of the offending transitions is covered because
`pre`/`post` are arbitrary. -/
theorem c20_atomic (s0 : State) (r : Rng) (a : Action) (pre : List Transition) (bad : Transition)
    (post : List Transition) (hsort : sortedByTransport a.transitions = pre ++ bad :: post)
    (hrej : ∀ o₁, processTransitions orc inst pre s0 r = .ok o₁ → transitionValid o₁.state bad = .ok false)
    (res : SMResult) (r' : Rng) (mic : List State)
    (h : smStep orc inst cfg fuel s0 r a = .ok (res, r', mic)) :
    res.success = false ∧ res.state = s0 ∧ res.possible = [] := by
  unfold smStep at h
  obtain ⟨p, hp, h⟩ := except_bind_eq_ok h
  have hpos := processTransitions_nerr_pos pre bad post s0 r p (hsort ▸ hp) hrej
  simp only [hpos, if_true] at h
  simp at h
  obtain ⟨rfl, _, _⟩ := h
  simp

/-- A failed step makes the environment end the episode as truncated, not terminated, and keep
its state. -/
theorem c20_env_truncates {ec : EnvCfg} {st : RewardStatic} (e : EnvState) (a : AgentAct) (out : StepOut)
    (h : envStep orc inst ec st e a = .ok out) (hf : out.obsRes.success = false) :
    out.env.truncated = true ∧ out.env.terminated = false ∧ out.env.done = true ∧
      out.env.res = e.res := by
  unfold envStep at h
  split at h
  · simp at h
  · obtain ⟨⟨res', mw, r, mic⟩, _, h⟩ := except_bind_eq_ok h
    simp only at h
    obtain ⟨⟨rew, cnt⟩, _, h⟩ := except_bind_eq_ok h
    simp at h
    subst h
    simp at hf
    simp [hf]

end JSL
