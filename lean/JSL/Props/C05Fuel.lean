import JSL.Inv.FuelEnv
import JSL.Props.C05Total

/-!
# C05 in the class `totalClassB`, without the fuel caveat — the timed loop of `state.step` ends

`JSL/Props/C05Total.lean` proves that in the class `totalClassB` a step returns **or** the
`while timed_transitions` loop of `state.step` runs out of fuel (the model of a loop that does not
end).  Here the second alternative is excluded: the loop makes at most

  `fuelBound inst = 6·M + 5·A + 2`      (`M` machines, `A` transports; `JSL/Model/FuelBound.lean`)

rounds.  No further guard is needed: the class is exactly `totalClassB` (early dispatch on or off,
outages with any frequency and duration, stochastic times, any travel times).

The measure (`JSL/Inv/FuelMeasure.lean`): `fbM s = 2·Σ machine stages + Σ AGV stages + #AGVs behind`.

* a timed machine transition moves its machine one stage along SETUP → WORKING → OUTAGE → IDLE (the
  outage stage is passed after every operation, whether or not an outage record strikes – its
  length is then 0 – so the number of outage configurations does not enter the bound); an idle
  machine creates no timed transition (unordered pre-buffers), so no operation starts inside the loop;
* a timed AGV transition other than WAITINGPICKUP → WAITINGPICKUP moves its AGV one stage along
  PICKUP → WAITINGPICKUP → TRANSIT → OUTAGE → IDLE; an AGV parked on a time dependency does not occur
  (`AgvShape.noDep`); dispatches happen only in the first round (the teleports);
* WAITINGPICKUP → WAITINGPICKUP (early dispatch, the job still on its machine) re-reads the end of
  the operation: afterwards the AGV waits exactly until the machine's `occupied_till`
  (`fb_wait_not_late`).  It keeps the stages.  But an AGV that is due while its job is not ready is
  *behind* its machine unless the machine is due as well; `create_timed_transitions` lists machine
  transitions first, so the **first** transition of every round lowers the measure (`fb_head`), and
  no transition of a round raises it (`fb_step`).  A machine transition can put at most one AGV
  behind – the one that claimed the job the machine holds (`AgvInv.unique`, `fbNu_machine`): hence the
  weight `2` of a machine stage.

So the model cannot spin at one instant in this class: the livelock of C11's findings (WAITINGPICKUP →
WAITINGPICKUP forever) needs an ordered buffer.

* `c05_timed_loop_ends_in_class`        – `state.step` never runs out of fuel;
* `c05_state_step_returns_in_class`     – `state.step` returns a successful result;
* `c05_step_returns_in_class`           – `env.step` returns for the actions 0 and 1 before the end;
* `c05_reset_returns_in_class`          – `reset` returns.
-/

namespace JSL

variable {orc : Oracle} {inst : Instance}

/-- **`state.step` returns** (a successful result) from any state of an execution of the environment,
with any action the middleware can submit, when the fuel is at least `fuelBound inst` -/
theorem c05_state_step_returns_in_class {cfg : SMConfig} {s0 s : State} (hst : Start orc inst s0)
    (hC : totalClassB inst s0 = true) (h : OccursF orc inst cfg s0 s) {a : Action} (ha : Admissible a)
    (hadm : AdmOffer inst cfg s a) {fuel : Nat} (hfuel : fuelBound inst ≤ fuel) (r : Rng) :
    ∃ res r' mic, smStep orc inst cfg fuel s r a = .ok (res, r', mic) ∧ res.success = true := by
  obtain ⟨C, _, _⟩ := totalClassB_sound hC
  obtain ⟨w, hI, hS⟩ := occursA_inv hst h.toC.toA
  have nn := nonnegB_sound hst.samples hst.nonneg
  exact fb_smStep w nn C hI hS (occursF_tot hst C (totP_of_guards hst hC) h) ha hadm hfuel

/-- **the timed loop of one `state.step` ends within `fuelBound inst` rounds** -/
theorem c05_timed_loop_ends_in_class {cfg : SMConfig} {s0 s : State} (hst : Start orc inst s0)
    (hC : totalClassB inst s0 = true) (h : OccursF orc inst cfg s0 s) {a : Action} (ha : Admissible a)
    (hadm : AdmOffer inst cfg s a) {fuel : Nat} (hfuel : fuelBound inst ≤ fuel) (r : Rng) :
    smStep orc inst cfg fuel s r a ≠ .error .outOfFuel := by
  obtain ⟨res, r', mic, hs, _⟩ := c05_state_step_returns_in_class hst hC h ha hadm hfuel r
  rw [hs]
  intro e
  cases e

/-- **C05 in the class: `env.step` returns** for the actions 0 and 1 in every environment state of
every episode that is not done -/
theorem c05_step_returns_in_class {ec : EnvCfg} {st : RewardStatic} {s0 : State} (hst : Start orc inst s0)
    (hC : totalClassB inst s0 = true) (hops : st.numOps ≠ 0) (hspan : st.tmax - st.lb ≠ 0)
    (hbias : ec.rw.sparseBias ≠ 0) (hfuel : fuelBound inst ≤ ec.fuel) {e : EnvState}
    (h : EnvReach orc inst ec st s0 e) (hd : e.done = false) {a : AgentAct} (ha : a = .accept ∨ a = .decline) :
    ∃ out, envStep orc inst ec st e a = .ok out := by
  obtain ⟨C, hJ, _⟩ := totalClassB_sound hC
  have h0 := totP_of_guards hst hC
  exact fb_envStep hst C h0 ⟨hops, hspan, hbias⟩ hfuel h hd (envReach_has_offer hst C h0 hJ h hd) ha

/-- **`reset` returns** -/
theorem c05_reset_returns_in_class {ec : EnvCfg} {s0 : State} (hst : Start orc inst s0)
    (hC : totalClassB inst s0 = true) (hfuel : fuelBound inst ≤ ec.fuel) (r : Rng) :
    ∃ e0 mic0, envReset orc inst ec s0 r = .ok (e0, mic0) := by
  obtain ⟨res, r', mic, hs, _⟩ :=
    c05_state_step_returns_in_class (cfg := ec.sm) hst hC OccursF.init admissible_noOp (Or.inl rfl) hfuel r
  unfold envReset mwReset
  simp only [hs, except_bind_ok, except_pure]
  exact ⟨_, _, rfl⟩

/-- a returned step of the class is a successful one, the episode is not truncated by it unless the
allowance is used up, and it is terminated exactly when the shop is finished (from
`c05_no_step_fails_in_class`) – restated here for the step that `c05_step_returns_in_class` gives -/
theorem c05_step_returns_successfully_in_class {ec : EnvCfg} {st : RewardStatic} {s0 : State}
    (hst : Start orc inst s0) (hC : totalClassB inst s0 = true) (hops : st.numOps ≠ 0)
    (hspan : st.tmax - st.lb ≠ 0) (hbias : ec.rw.sparseBias ≠ 0) (hfuel : fuelBound inst ≤ ec.fuel)
    {e : EnvState} (h : EnvReach orc inst ec st s0 e) (hd : e.done = false) {a : AgentAct}
    (ha : a = .accept ∨ a = .decline) :
    ∃ out, envStep orc inst ec st e a = .ok out ∧ out.obsRes.success = true := by
  obtain ⟨out, ho⟩ := c05_step_returns_in_class hst hC hops hspan hbias hfuel h hd ha
  exact ⟨out, ho, c05_no_step_fails_in_class hst hC h ho⟩

/-! ## the hypotheses are satisfiable -/

/-- the example instance: 2 machines, 1 AGV – 19 rounds suffice, the example configuration allows 40 -/
example : totalClassB ExT.instT Ex.s0 = true ∧ fuelBound ExT.instT = 19 ∧ fuelBound ExT.instT ≤ ExT.ec.fuel ∧
    fuelOKB ExT.instT ExT.ec.fuel = true := by decide

/-- … so every step of every episode of it returns -/
example {e : EnvState} (h : EnvReach ExT.orc0 ExT.instT ExT.ec ExT.st Ex.s0 e) (hd : e.done = false) :
    ∃ out, envStep ExT.orc0 ExT.instT ExT.ec ExT.st e .accept = .ok out :=
  c05_step_returns_in_class ExT.start_exT (by decide) (by decide) (by decide) (by decide) (by decide) h hd (Or.inl rfl)

example : ∃ e0 mic0, envReset ExT.orc0 ExT.instT ExT.ec Ex.s0 ExT.r0 = .ok (e0, mic0) :=
  c05_reset_returns_in_class ExT.start_exT (by decide) (by decide) ExT.r0

end JSL
