import JSL.Inv.ClassicIfaceE
import JSL.Inv.ClassicSteerG
import JSL.Props.C06Global

/-!
# C06, global half, with early dispatch (the default configuration)

The default configuration of the environment dispatches early (`allowEarly = true`) and, when the
document has no logistics section, the compiler creates as many AGVs as there are jobs.  The
theorems of `C06Global.lean` hold in that setting too – in fact for ANY value of `allowEarly` – when
the hypothesis `allowEarly = false` is replaced by **at least as many AGVs as jobs**
(`ClassicRunEarly.agvs : inst.jobs.length ≤ inst.transports.length`; with fewer AGVs and early
dispatch the statement is false: `C06EarlyDispatch.lean`).  The fuel bound becomes
`6·#machines + 11·#AGVs + 2`.

What changes inside: the teleport pass at the beginning of a step also sends AGVs to RUNNING jobs; such
an AGV waits (WAITINGPICKUP, `occupied_till` = the end of the running operation) and carries the job
to its next machine by itself when the operation ends.  So at a decision point an AGV is idle or
waits for a running job (`c06_classic_settled_early`), and "every AGV is idle" is replaced by "a
waiting job always finds an idle AGV" (pigeonhole: busy AGVs claim pairwise different running jobs).
The steering agent is the same: accept every dispatch (early ones included), accept a machine start
iff its target start is now, decline otherwise.
-/

namespace JSL

section

variable {orc : Oracle} {inst : Instance} {ec : EnvCfg} {st : RewardStatic} {s0 : State}

theorem ClassicRunEarly.allOps_ne (hR : ClassicRunEarly orc inst ec st s0) : allOps inst ≠ [] := by
  intro h
  cases hj : inst.jobs with
  | nil => exact hR.jobs hj
  | cons jc rest =>
    have hjc : jc ∈ inst.jobs := by rw [hj]; simp
    have hne := hR.classic.jobsNonempty jc hjc
    cases ho : jc.ops with
    | nil => exact hne ho
    | cons oc _ =>
      have : oc ∈ allOps inst := by
        unfold allOps
        exact List.mem_flatMap.mpr ⟨jc, hjc, by rw [ho]; simp⟩
      rw [h] at this; cases this

/-- **settledness with early dispatch**: at every decision point every AGV is idle (unclaimed, empty)
or waits, empty, for a running job until the end of its processing record, which lies ahead; every
machine is idle or working; and the invariants hold. -/
theorem c06_classic_settled_early (hR : ClassicRunEarly orc inst ec st s0) {e : EnvState}
    (h : EnvReach orc inst ec st s0 e) (hne : e.res.possible ≠ []) :
    (∀ t ∈ e.res.state.transports, (t.st = .idle ∧ t.job = none ∧ t.buffer.store = []) ∨
       (t.st = .waitingpickup ∧ t.buffer.store = [] ∧ ∃ j ∈ e.res.state.jobs, t.job = some j.id ∧ j.running = true ∧
          ∃ c, t.occ = .at c ∧ e.res.state.time < c ∧ ∃ o ∈ j.ops, o.st = .processing ∧ o.stop = some c)) ∧
    (∀ m ∈ e.res.state.machines, m.st = .idle ∨ m.st = .working) ∧
    BundleE inst e.res.state ∧ DurInv inst e.res.state :=
  classic_settled_early hR h hne

/-- **no `env.step` of a classic run with early dispatch ever raises** -/
theorem c06_classic_step_returns_early (hR : ClassicRunEarly orc inst ec st s0) {e : EnvState}
    (h : EnvReach orc inst ec st s0 e) (hd : e.done = false) (hs : e.res.success = true) (hj : 0 ≤ e.mw.joker)
    (a : AgentAct) (ha : a = .accept ∨ a = .decline) :
    ∃ out, envStep orc inst ec st e a = .ok out ∧ EnvReach orc inst ec st s0 out.env ∧
      out.env.res.success = true ∧ 0 ≤ out.env.mw.joker ∧ out.env.truncated = false ∧
      out.env.done = isDone inst out.env.res.state :=
  classic_step_returns_early hR h hd hs hj a ha

theorem c06_classic_reset_returns_early (hR : ClassicRunEarly orc inst ec st s0) (r0 : Rng) :
    ∃ e0 mic, envReset orc inst ec s0 r0 = .ok (e0, mic) ∧ e0.res.success = true ∧ e0.done = false ∧
      0 ≤ e0.mw.joker :=
  classic_reset_returns_early hR r0

/-- **every event-aligned feasible schedule is reached exactly, with early dispatch** -/
theorem c06_target_reachable_early (hR : ClassicRunEarly orc inst ec st s0) {S : Nat → Nat → Int}
    (hT : TargetOK inst S) (r0 : Rng) :
    ∃ e0 mic acts e, envReset orc inst ec s0 r0 = .ok (e0, mic) ∧ envRun orc inst ec st e0 acts = .ok e ∧
      EnvReach orc inst ec st s0 e ∧ e.terminated = true ∧ e.truncated = false ∧
      planOf inst e.res.state = planOfTarget inst S ∧ e.res.state.time = targetMakespan inst S := by
  have hst := hR.start
  have hC := hR.classic
  obtain ⟨e0, mic, acts, e, hreset, hrun, hreach, hterm, htrunc, hdone, t, hsync⟩ :=
    steerG hst hC hR.joker hR.numOps hR.jobs (stepIfaceG_early hR hT) r0
  refine ⟨e0, mic, acts, e, hreset, hrun, hreach, hterm, htrunc, ?_, ?_⟩
  all_goals
    have hi := envReach_inv hst hreach
    have w := (initOKB_sound hst.init).1
    have hall : ∀ j ∈ e.res.state.jobs, ∀ o ∈ j.ops, o.st = .done := by
      intro j hj
      have hl : j.loc ∈ outputIds inst := by
        unfold isDone at hdone
        exact List.contains_iff_mem.mp (List.all_eq_true.mp hdone j hj)
      exact hi.full.route.delivered j hj hl
    have hstart : ∀ j ∈ e.res.state.jobs, ∀ o ∈ j.ops, o.start = some (S o.job o.idx) := by
      intro j hj o ho
      exact hsync.started j hj o ho (by rw [hall j hj o ho]; simp)
  · exact planOf_eq_target w hi.struct.shape (fun oc hoc => by
      obtain ⟨d, hd, _⟩ := hC.posDur oc hoc; exact ⟨d, hd⟩) hstart
  · have hsuc := envReach_terminated_success hreach hterm
    exact final_time_eq_target w hC hi.struct hi.dur hall hstart (hi.stamp hsuc hdone)
      (envReach_terminated_attained hst hreach hterm) hR.allOps_ne hT.nonneg

theorem c06_list_schedule_reachable_early (hR : ClassicRunEarly orc inst ec st s0) {π : List Nat}
    (hπ : ValidOrder inst π) (r0 : Rng) :
    ∃ e0 mic acts e, envReset orc inst ec s0 r0 = .ok (e0, mic) ∧ envRun orc inst ec st e0 acts = .ok e ∧
      EnvReach orc inst ec st s0 e ∧ e.terminated = true ∧ e.truncated = false ∧
      planOf inst e.res.state = planOfTarget inst (listStarts inst π) ∧
      e.res.state.time = targetMakespan inst (listStarts inst π) :=
  c06_target_reachable_early hR (listStarts_targetOK (initOKB_sound hR.start.init).1 hR.classic.posDur hπ) r0

/-- **C06 with early dispatch: the optimum is reachable** -/
theorem c06_optimum_reachable_early (hR : ClassicRunEarly orc inst ec st s0) (r0 : Rng) {p : Plan} {C : Int}
    (hf : FeasiblePlan p C) {orc' : Oracle} {r' : Rng} (hproj : p.proj = schedOf orc' r' inst) :
    ∃ e0 mic acts e, envReset orc inst ec s0 r0 = .ok (e0, mic) ∧ envRun orc inst ec st e0 acts = .ok e ∧
      EnvReach orc inst ec st s0 e ∧ e.terminated = true ∧ e.truncated = false ∧ e.res.state.time ≤ C ∧
      FeasiblePlan (planOf inst e.res.state) e.res.state.time := by
  have w := (initOKB_sound hR.start.init).1
  obtain ⟨π, hπ, hT, hle⟩ := feasible_dominated_target w hR.classic.posDur hf hproj (Or.inr hR.allOps_ne)
  obtain ⟨e0, mic, acts, e, h1, h2, h3, h4, h5, h6, h7⟩ := c06_target_reachable_early hR hT r0
  refine ⟨e0, mic, acts, e, h1, h2, h3, h4, h5, by rw [h7]; exact hle, ?_⟩
  rw [h6, h7]
  exact targetOK_feasible w hT

end

/-! ## the class is inhabited: the instance of `C06EarlyDispatch.lean` with a second AGV -/

namespace ExE2

def zeroTravel (locs : List Loc) : List ((Loc × Loc) × TimeCfg) :=
  locs.flatMap fun a => locs.map fun b => ((a, b), TimeCfg.det 0)

/-- 3 machines, 2 jobs (job 0: 5 on m0; job 1: 1 on m1, 1 on m2, 1 on m1), TWO AGVs -/
def inst : Instance :=
  { jobs := [{ id := 0, ops := [{ job := 0, idx := 0, machine := 0, dur := .det 5, tool := 0 }] },
             { id := 1, ops := [{ job := 1, idx := 0, machine := 1, dur := .det 1, tool := 0 },
                                { job := 1, idx := 1, machine := 2, dur := .det 1, tool := 0 },
                                { job := 1, idx := 2, machine := 1, dur := .det 1, tool := 0 }] }],
    travel := zeroTravel [.m 0, .m 1, .m 2, .b 20, .b 21],
    machines := [Ex.mc 0 0 1 2, Ex.mc 1 3 4 5, Ex.mc 2 6 7 8],
    buffers := [Ex.bc 20 Ex.big .input none, Ex.bc 21 Ex.big .output none],
    transports := [{ id := 0, type := .agv, outages := [], buf := Ex.bc 9 1 .component (some (.t 0)) },
                   { id := 1, type := .agv, outages := [], buf := Ex.bc 10 1 .component (some (.t 1)) }] }

def s0 : State :=
  { jobs := [{ id := 0, ops := [Ex.op 0 0 0], loc := 20 },
             { id := 1, ops := [Ex.op 1 0 1, Ex.op 1 1 2, Ex.op 1 2 1], loc := 20 }],
    time := 0,
    machines := [Ex.ms 0 0 1 2, Ex.ms 1 3 4 5, Ex.ms 2 6 7 8],
    transports := [{ st := .idle, id := 0, occ := .none, buffer := Ex.eb 9, loc := .at (.m 0), outages := [], job := none },
                   { st := .idle, id := 1, occ := .none, buffer := Ex.eb 10, loc := .at (.m 0), outages := [], job := none }],
    buffers := [{ id := 20, bss := .notEmpty, store := [0, 1] }, Ex.eb 21] }

def st : RewardStatic := { tmax := 100, lb := 1, numJobs := 2, numOps := 4 }

/-- the default configuration: early dispatch -/
def ec : EnvCfg := ⟨{ allowEarly := true }, { jokerInit := 1000, truncActive := false },
  { sparseBias := 1, denseBias := 1, truncBias := 1 }, 60⟩

theorem run : ClassicRunEarly ExT.orc0 inst ec st s0 where
  start := ⟨by decide, by decide, by decide, by decide, fun _ _ => Int.le_refl 0⟩
  classic := classicInstB_sound (by decide)
  startOK := by decide
  agvs := by decide
  trunc := rfl
  joker := by decide
  numOps := by decide
  norm := by decide
  fuel := by decide
  jobs := by decide

/-- with early dispatch and as many AGVs as jobs the optimum 5 is reached (list order `[0, 1, 1, 1]`) -/
example : ∃ e0 mic acts e, envReset ExT.orc0 inst ec s0 ExT.r0 = .ok (e0, mic) ∧
    envRun ExT.orc0 inst ec st e0 acts = .ok e ∧ e.terminated = true ∧ e.truncated = false ∧
    e.res.state.time = 5 := by
  obtain ⟨e0, mic, acts, e, h1, h2, _, h4, h5, _, h7⟩ :=
    c06_list_schedule_reachable_early run (π := [0, 1, 1, 1]) (by decide) ExT.r0
  refine ⟨e0, mic, acts, e, h1, h2, h4, h5, ?_⟩
  rw [h7]
  decide

end ExE2

/-- the two remaining guards the driver evaluates on every classic scenario (`K` line) are the
hypotheses `fuel` and `agvs` of `ClassicRunEarly` -/
theorem classicEarly_guards_eq (inst : Instance) (fuel : Nat) :
    (classicFuelEarlyB inst fuel = true ↔ 6 * inst.machines.length + 11 * inst.transports.length + 2 ≤ fuel) ∧
    (enoughAgvsB inst = true ↔ inst.jobs.length ≤ inst.transports.length) := by
  simp [classicFuelEarlyB, enoughAgvsB]

end JSL
