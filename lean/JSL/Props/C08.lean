import JSL.Inv.Init
import JSL.Props.Example
import JSL.Inv.Discipline

/-!
# C08 — buffers never exceed capacity; ordered buffers release in discipline order

Table part (regenerated from the code on every run) and the local contracts of the three buffer
primitives through which every move goes.  The lift to all executions is in `JSL.Inv`.

Discipline over whole episodes (`Inv/StoreStep.lean`, `Inv/DiscGuard.lean`, `Inv/Calls.lean`,
`Inv/Discipline.lean`; `EnvCall σ tr σ'` = "transition `tr` is applied to state `σ` with result `σ'`
somewhere inside `reset` or a `step` of an episode"):
**`c08_arrivals_join_at_the_back`**, **`c08_fifo_releases_oldest_to_agv`** (FIFO / DUMMY post- and
stand-alone buffers), **`c08_machine_takes_release_job`** (FIFO / DUMMY: first, LIFO: last element of
the pre-buffer – whether created by the timed mechanism or accepted by the agent).  For LIFO buffers
emptied by AGVs the property is false (recorded finding).
-/

namespace JSL

/-- the release selector of the code: FIFO and DUMMY release the oldest job, LIFO the newest,
FLEX has no automatic release -/
theorem c08_release_selector :
    releaseSel .fifo = .front ∧ releaseSel .dummy = .front ∧ releaseSel .lifo = .back ∧ releaseSel .flex = .none := by
  decide

/-- the hand-written closed form of `is_correct_position_for_buffer_type` agrees with the code on
the whole probed range (positions 0..4, lengths 0..5, all buffer types) -/
theorem c08_posOk_matches_code :
    ∀ t ∈ BufType.all, ∀ p ∈ List.range 5, ∀ l ∈ List.range 6,
      posOk t p l = (decide (p < l) && posOkTable t (p + 1) l) := by
  decide

/-- a job is ready for AGV pickup from a FIFO/DUMMY buffer only at the front, from a LIFO buffer
only at the back (closed form, all sizes) -/
theorem c08_posOk_discipline (t : BufType) (p l : Nat) (h : posOk t p l = true) :
    p < l ∧ (t = .fifo ∨ t = .dummy → p = 0) ∧ (t = .lifo → p + 1 = l) := by
  unfold posOk at h
  by_cases hl : l = 0
  · simp [hl] at h
  · cases t <;> simp_all <;> omega

/-- `put_in_buffer` appends at the back, never exceeds the capacity, and sets the location -/
theorem c08_put_contract (b : BufState) (c : BufCfg) (j : JobState) (b' : BufState) (j' : JobState)
    (h : putInBuffer b c j = .ok (b', j')) :
    b'.store = b.store ++ [j.id] ∧ (b'.store.length : Int) ≤ c.cap ∧ b'.id = b.id ∧ j'.loc = b.id ∧
      j'.id = j.id ∧ j'.ops = j.ops := by
  unfold putInBuffer at h
  split at h
  · simp at h
  · simp at h
    obtain ⟨rfl, rfl⟩ := h
    simp
    omega

/-- `put_in_buffer` refuses exactly when the buffer is full -/
theorem c08_put_full (b : BufState) (c : BufCfg) (j : JobState) (h : (b.store.length : Int) ≥ c.cap) :
    putInBuffer b c j = .error .bufferFull := by
  simp [putInBuffer, h]

/-- `remove_from_buffer` removes exactly the named job and keeps the order of the others -/
theorem c08_remove_contract (b : BufState) (j : Nat) (b' : BufState) (h : removeFromBuffer b j = .ok b') :
    b'.store = b.store.filter (· != j) ∧ b'.id = b.id ∧ j ∈ b.store := by
  unfold removeFromBuffer at h
  split at h
  · simp at h
  · rename_i hc
    simp at h; subst h
    simp at hc
    simp [hc]

/-- the machine behind an ordered pre-buffer is auto-started with the job the discipline names:
the front job for FIFO/DUMMY, the back job for LIFO, nothing for FLEX -/
theorem c08_auto_start_discipline (b : BufState) (c : BufCfg) :
    nextJobFromBuffer b c =
      (match c.type with
       | .fifo | .dummy => b.store.head?
       | .lifo => b.store.getLast?
       | .flex => none) := by
  unfold nextJobFromBuffer
  cases c.type <;> rfl

/-- **Capacity along all executions.**  In every state that occurs – after every individual
transition of every step of every action sequence (offered or not) – no buffer holds more jobs
than its configured capacity; machine internal buffers and AGV buffers (capacity 1 in compiled
instances) therefore hold at most one job. -/
theorem c08_capacity {orc : Oracle} {inst : Instance} {cfg : SMConfig} {s0 σ : State}
    (h0 : initOKB inst s0 = true) (h : Occurs orc inst cfg s0 σ) :
    ∀ b ∈ allBufStates σ, ∀ c ∈ allBufCfgs inst, c.id = b.id → (b.store.length : Int) ≤ c.cap := by
  obtain ⟨w, hI0⟩ := initOKB_sound h0
  have hI := occurs_struct w hI0 h
  intro b hb c hc hid
  have := hI.cap c hc
  rwa [hid, storeAt_of_mem (hI.shape.bufNodup w) hb] at this

/-- every buffer of every occurring state has a configuration (so `c08_capacity` is not vacuous) -/
theorem c08_every_buffer_configured {orc : Oracle} {inst : Instance} {cfg : SMConfig} {s0 σ : State}
    (h0 : initOKB inst s0 = true) (h : Occurs orc inst cfg s0 σ) :
    ∀ b ∈ allBufStates σ, ∃ c ∈ allBufCfgs inst, c.id = b.id := by
  obtain ⟨w, hI0⟩ := initOKB_sound h0
  have hI := occurs_struct w hI0 h
  intro b hb
  have : b.id ∈ (allBufCfgs inst).map (·.id) := by
    rw [← hI.shape.bufIds]; exact List.mem_map.mpr ⟨b, hb, rfl⟩
  obtain ⟨c, hc, e⟩ := List.mem_map.mp this
  exact ⟨c, hc, e⟩

example : initOKB Ex.inst Ex.s0 = true := Ex.initOK

/-- **Arriving jobs join at the back**: every transition applied during an episode either leaves all
buffer contents as they are, or takes exactly one job out of one buffer (the others keep their
order) and appends it at the back of another; no other buffer changes. -/
theorem c08_arrivals_join_at_the_back {orc : Oracle} {inst : Instance} {ec : EnvCfg} {st : RewardStatic} {s0 : State}
    (hst : Start orc inst s0) {σ σ' : State} {tr : Transition} (hc : EnvCall orc inst ec st s0 σ tr σ') :
    (∀ i, storeAt σ' i = storeAt σ i) ∨
    ∃ x a b, a ≠ b ∧ x ∈ storeAt σ a ∧ storeAt σ' a = (storeAt σ a).filter (· != x) ∧
      storeAt σ' b = storeAt σ b ++ [x] ∧ ∀ i, i ≠ a → i ≠ b → storeAt σ' i = storeAt σ i :=
  disc_env_arrivals_join_back hst hc

/-- **A FIFO (or DUMMY) buffer releases only its oldest job to an AGV**: whenever a pickup (→ TRANSIT)
is applied during an episode, the job leaves a post-buffer or stand-alone buffer `i` for the back of
the AGV's buffer, and if `i` is configured FIFO or DUMMY the job is the first element of `i` in the
state right before the application. -/
theorem c08_fifo_releases_oldest_to_agv {orc : Oracle} {inst : Instance} {ec : EnvCfg} {st : RewardStatic} {s0 : State}
    (hst : Start orc inst s0) {σ σ' : State} {tr : Transition} (hc : EnvCall orc inst ec st s0 σ tr σ')
    (hn : tr.new = .t .transit) :
    ∃ t ∈ σ.transports, ∃ x i, tr.comp = .t t.id ∧ tr.job = some x ∧ pickupBufferKind inst i = true ∧
      x ∈ storeAt σ i ∧ storeAt σ' i = (storeAt σ i).filter (· != x) ∧
      storeAt σ' t.buffer.id = storeAt σ t.buffer.id ++ [x] ∧
      ∀ bc ∈ allBufCfgs inst, bc.id = i → (bc.type = .fifo ∨ bc.type = .dummy) → storeAt σ i = x :: storeAt σ' i :=
  disc_agv_takes_front hst hc hn

/-- **The machine behind a pre-buffer takes the job the discipline names**: whenever IDLE → SETUP is
applied during an episode – timed or accepted by the agent – the job leaves the machine's pre-buffer,
and it is its first element if the pre-buffer is FIFO or DUMMY, its last if LIFO. -/
theorem c08_machine_takes_release_job {orc : Oracle} {inst : Instance} {ec : EnvCfg} {st : RewardStatic} {s0 : State}
    (hst : Start orc inst s0) {σ σ' : State} {tr : Transition} (hc : EnvCall orc inst ec st s0 σ tr σ')
    (hn : tr.new = .m .setup) :
    ∃ m ∈ σ.machines, ∃ x, tr.comp = .m m.id ∧ m.st = .idle ∧ tr.job = some x ∧ x ∈ m.pre.store ∧
      storeAt σ m.pre.id = m.pre.store ∧ storeAt σ' m.pre.id = m.pre.store.filter (· != x) ∧
      storeAt σ' m.buffer.id = storeAt σ m.buffer.id ++ [x] ∧
      ∀ bc ∈ allBufCfgs inst, bc.id = m.pre.id →
        ((bc.type = .fifo ∨ bc.type = .dummy) → m.pre.store.head? = some x) ∧
        (bc.type = .lifo → m.pre.store.getLast? = some x) :=
  disc_machine_takes_release_job hst hc hn

/-- every post-state recorded during an episode step is the result of such an application (the
recorded transitions are covered) -/
theorem c08_recorded_applications_are_covered {orc : Oracle} {inst : Instance} {ec : EnvCfg} {st : RewardStatic} {s0 : State}
    {e : EnvState} (he : EnvReach orc inst ec st s0 e) {a : AgentAct} {out : StepOut}
    (h : envStep orc inst ec st e a = .ok out) : ∀ σ' ∈ out.micro, ∃ σ x, EnvCall orc inst ec st s0 σ x σ' :=
  envCall_of_step_micro he h

end JSL
