import JSL.Inv.Init
import JSL.Props.Example

/-!
# C08 — buffers never exceed capacity; ordered buffers release in discipline order

Table part (regenerated from the code on every run) and the local contracts of the three buffer
primitives through which every move goes.  The lift to all executions is in `JSL.Inv`.
-/

namespace JSL

/-- the release selector of the code: FIFO and DUMMY release the oldest job, LIFO the newest,
FLEX has no automatic release -/
theorem c08_release_selector :
    releaseSel .fifo = .front ∧ releaseSel .dummy = .front ∧ releaseSel .lifo = .back ∧ releaseSel .flex = .none := by
  decide

/-- the hand-written closed form of `is_correct_position_for_buffer_type` agrees with the code on
the whole probed range (positions 0..4, lengths 0..5, all buffer types) -/
theorem c08_posOk_matches_code :
    ∀ t ∈ BufType.all, ∀ p ∈ List.range 5, ∀ l ∈ List.range 6,
      posOk t p l = (decide (p < l) && posOkTable t (p + 1) l) := by
  decide

/-- a job is ready for AGV pickup from a FIFO/DUMMY buffer only at the front, from a LIFO buffer
only at the back (closed form, all sizes) -/
theorem c08_posOk_discipline (t : BufType) (p l : Nat) (h : posOk t p l = true) :
    p < l ∧ (t = .fifo ∨ t = .dummy → p = 0) ∧ (t = .lifo → p + 1 = l) := by
  unfold posOk at h
  by_cases hl : l = 0
  · simp [hl] at h
  · cases t <;> simp_all <;> omega

/-- `put_in_buffer` appends at the back, never exceeds the capacity, and sets the location -/
theorem c08_put_contract (b : BufState) (c : BufCfg) (j : JobState) (b' : BufState) (j' : JobState)
    (h : putInBuffer b c j = .ok (b', j')) :
    b'.store = b.store ++ [j.id] ∧ (b'.store.length : Int) ≤ c.cap ∧ b'.id = b.id ∧ j'.loc = b.id ∧
      j'.id = j.id ∧ j'.ops = j.ops := by
  unfold putInBuffer at h
  split at h
  · simp at h
  · simp at h
    obtain ⟨rfl, rfl⟩ := h
    simp
    omega

/-- `put_in_buffer` refuses exactly when the buffer is full -/
theorem c08_put_full (b : BufState) (c : BufCfg) (j : JobState) (h : (b.store.length : Int) ≥ c.cap) :
    putInBuffer b c j = .error .bufferFull := by
  simp [putInBuffer, h]

/-- `remove_from_buffer` removes exactly the named job and keeps the order of the others -/
theorem c08_remove_contract (b : BufState) (j : Nat) (b' : BufState) (h : removeFromBuffer b j = .ok b') :
    b'.store = b.store.filter (· != j) ∧ b'.id = b.id ∧ j ∈ b.store := by
  unfold removeFromBuffer at h
  split at h
  · simp at h
  · rename_i hc
    simp at h; subst h
    simp at hc
    simp [hc]

/-- the machine behind an ordered pre-buffer is auto-started with the job the discipline names:
the front job for FIFO/DUMMY, the back job for LIFO, nothing for FLEX -/
theorem c08_auto_start_discipline (b : BufState) (c : BufCfg) :
    nextJobFromBuffer b c =
      (match c.type with
       | .fifo | .dummy => b.store.head?
       | .lifo => b.store.getLast?
       | .flex => none) := by
  unfold nextJobFromBuffer
  cases c.type <;> rfl

/-- **Capacity along all executions.**  In every state that occurs – after every individual
transition of every step of every action sequence (offered or not) – no buffer holds more jobs
than its configured capacity; machine internal buffers and AGV buffers (capacity 1 in compiled
instances) therefore hold at most one job. -/
theorem c08_capacity {orc : Oracle} {inst : Instance} {cfg : SMConfig} {s0 σ : State}
    (h0 : initOKB inst s0 = true) (h : Occurs orc inst cfg s0 σ) :
    ∀ b ∈ allBufStates σ, ∀ c ∈ allBufCfgs inst, c.id = b.id → (b.store.length : Int) ≤ c.cap := by
  obtain ⟨w, hI0⟩ := initOKB_sound h0
  have hI := occurs_struct w hI0 h
  intro b hb c hc hid
  have := hI.cap c hc
  rwa [hid, storeAt_of_mem (hI.shape.bufNodup w) hb] at this

/-- every buffer of every occurring state has a configuration (so `c08_capacity` is not vacuous) -/
theorem c08_every_buffer_configured {orc : Oracle} {inst : Instance} {cfg : SMConfig} {s0 σ : State}
    (h0 : initOKB inst s0 = true) (h : Occurs orc inst cfg s0 σ) :
    ∀ b ∈ allBufStates σ, ∃ c ∈ allBufCfgs inst, c.id = b.id := by
  obtain ⟨w, hI0⟩ := initOKB_sound h0
  have hI := occurs_struct w hI0 h
  intro b hb
  have : b.id ∈ (allBufCfgs inst).map (·.id) := by
    rw [← hI.shape.bufIds]; exact List.mem_map.mpr ⟨b, hb, rfl⟩
  obtain ⟨c, hc, e⟩ := List.mem_map.mp this
  exact ⟨c, hc, e⟩

example : initOKB Ex.inst Ex.s0 = true := Ex.initOK

end JSL
