import JSL.Inv.CompileLemmas
import JSL.Inv.Placement

/-!
# C16 — the compiled instance is exactly the instance the specification describes

For the three textual matrices of the DSL – the job matrix, the travel-time matrix and the setup
matrices – reading what was written gives back exactly what was written, for every size:

* `c16_job_matrix_read_back` – the rows of (machine, duration) pairs, in text order, whatever the
  numbers; jobs are numbered by position;
* `c16_matrix_read_back` – column names, row names and values of a travel/setup matrix;
* `c16_entry_is_row_then_column` – the value stored for (row name, column name) is the one written
  in that row under that column: the matrix is read in the from → to direction, by name and not by
  position, in whatever order the rows are written.

The rest of the compiler (defaults, buffers, outages, id allocation) is compared field by field
with an independent reading of every generated document, and documents with one defect each must
be rejected with a library error (`harness/monitors/compmon.py`, malformed stream).
-/

namespace JSL

open Compile

/-- the job matrix is read back exactly -/
theorem c16_job_matrix_read_back (header : Text) (rows : List (List (Nat × Nat))) (hh : '\n' ∉ header)
    (hj : parseJobLine (stripSpaces header) = none) (hr : ∀ r ∈ rows, r ≠ []) :
    parseJobMatrix (renderJobMatrix header rows) = rows :=
  parseJobMatrix_render header rows hh hj hr

/-- the machine-declaration line of the DSL is not a job line, whatever machines it declares -/
theorem c16_header_is_not_a_job_line (rest : Text) : parseJobLine (stripSpaces ('(' :: rest)) = none := by
  simp [stripSpaces, List.filter_cons, parseJobLine]

/-- a well-formed matrix: at least one column, usable names -/
structure GoodMatrix (m : Matrix) : Prop where
  cols : m.cols ≠ []
  colNames : ∀ c ∈ m.cols, GoodName c
  rowNames : ∀ r ∈ m.rows, GoodName r.1

/-- a travel / setup matrix is read back exactly -/
theorem c16_matrix_read_back (m : Matrix) (hm : GoodMatrix m) : parseMatrix (renderMatrix m) = some m := by
  unfold parseMatrix renderMatrix
  have hhdr_nl : '\n' ∉ joinWith '|' m.cols := not_mem_joinWith (by decide) (fun c hc => (hm.colNames c hc).2.2.2)
  have hhdr_sp : ' ' ∉ joinWith '|' m.cols := not_mem_joinWith (by decide) (fun c hc => (hm.colNames c hc).2.1)
  have hrow_nl : ∀ r ∈ m.rows, '\n' ∉ renderRow r := by
    intro r hr hc
    unfold renderRow at hc
    rcases List.mem_append.mp hc with e | e
    · exact (hm.rowNames r hr).2.2.2 e
    · rcases List.mem_cons.mp e with e | e
      · revert e; decide
      · exact not_mem_vals (by decide) (by decide) (by decide) r.2 e
  rw [splitOnC_joinWith (by simp)]
  · simp only [List.map_cons, trim_of_no_space hhdr_sp]
    have hhdr_ne : joinWith '|' m.cols ≠ [] := by
      cases hc : m.cols with
      | nil => exact absurd hc hm.cols
      | cons c cs =>
        have hcne := (hm.colNames c (by rw [hc]; simp)).1
        cases cs with
        | nil => simpa [joinWith] using hcne
        | cons c2 cs2 => simp only [joinWith]; intro h0; exact hcne (List.append_eq_nil_iff.mp h0).1
    have hrows : (m.rows.map renderRow).map trim = m.rows.map renderRow := by
      rw [List.map_map]
      apply List.map_congr_left
      intro r hr
      exact renderRow_trim r (hm.rowNames r hr)
    rw [hrows]
    have hfilter : (joinWith '|' m.cols :: m.rows.map renderRow).filter (fun l => !l.isEmpty) =
        joinWith '|' m.cols :: m.rows.map renderRow := by
      apply List.filter_eq_self.mpr
      intro t ht
      rcases List.mem_cons.mp ht with rfl | ht
      · simpa using hhdr_ne
      · obtain ⟨r, hr, rfl⟩ := List.mem_map.mp ht
        have hne : renderRow r ≠ [] := by
          intro h0
          exact (hm.rowNames r hr).1 (List.append_eq_nil_iff.mp h0).1
        simpa using hne
    rw [hfilter]
    simp only
    rw [mapM_rows m.rows hm.rowNames, splitOnC_joinWith hm.cols (fun c hc => (hm.colNames c hc).2.2.1)]
    rfl
  · intro l hl
    rcases List.mem_cons.mp hl with rfl | hl
    · exact hhdr_nl
    · obtain ⟨r, hr, rfl⟩ := List.mem_map.mp hl
      exact hrow_nl r hr

/-- **Direction and naming.**  With distinct row names and distinct column names, of which each
row lists one value per column, the value stored for (row `r`, column `c`) is the value written in
row `r` at the position of column `c` – wherever that row stands in the text. -/
theorem c16_entry_is_row_then_column (m : Matrix) (hrows : (m.rows.map (·.1)).Nodup) (hcols : m.cols.Nodup)
    (r : Text × List Int) (hr : r ∈ m.rows) (hlen : r.2.length = m.cols.length) (k : Nat) (hk : k < m.cols.length) :
    m.lookup r.1 (m.cols[k]) = some (r.2[k]'(by omega)) := by
  unfold Matrix.lookup
  -- the entry is in the dictionary …
  have hmem : ((r.1, m.cols[k]), r.2[k]'(by omega)) ∈ m.entries := by
    unfold Matrix.entries
    apply List.mem_flatMap.mpr
    refine ⟨r, hr, ?_⟩
    apply List.mem_map.mpr
    refine ⟨(m.cols[k], r.2[k]'(by omega)), ?_, rfl⟩
    have : (m.cols.zip r.2)[k]'(by simp [List.length_zip]; omega) = (m.cols[k], r.2[k]'(by omega)) := by simp
    rw [← this]; exact List.getElem_mem _
  -- … and every entry for that key carries that value
  have huniq : ∀ e ∈ m.entries, e.1 = (r.1, m.cols[k]) → e.2 = r.2[k]'(by omega) := by
    intro e he hkey
    unfold Matrix.entries at he
    obtain ⟨r', hr', he⟩ := List.mem_flatMap.mp he
    obtain ⟨⟨c, v⟩, hcv, rfl⟩ := List.mem_map.mp he
    simp only [Prod.mk.injEq] at hkey
    have hrr : r' = r := eq_of_mem_of_fst_eq hrows hr' hr hkey.1
    subst hrr
    obtain ⟨i, hi, hget⟩ := List.getElem_of_mem hcv
    simp only [List.getElem_zip, Prod.mk.injEq] at hget
    have hik : i = k := by
      have hi' : i < m.cols.length := by simp [List.length_zip] at hi; omega
      exact (List.getElem_inj hcols).mp (by rw [hget.1, hkey.2])
    subst hik
    exact hget.2.symm
  cases hf : m.entries.reverse.find? (fun e => e.1 = (r.1, m.cols[k])) with
  | none =>
    have := List.find?_eq_none.mp hf _ (List.mem_reverse.mpr hmem)
    simp at this
  | some e =>
    have he := List.mem_reverse.mp (List.mem_of_find?_eq_some hf)
    have hkey : e.1 = (r.1, m.cols[k]) := by simpa using List.find?_some hf
    simp [huniq e he hkey]

/-- non-vacuity: a 2×2 travel matrix written with its rows in the opposite order of its header -/
example : parseMatrix "a|b\nb|3 0\na|0 7\n".toList =
    some { cols := ["a".toList, "b".toList], rows := [("b".toList, [3, 0]), ("a".toList, [0, 7])] } := by decide

example : parseJobMatrix "(m0,t)|(m1,t)\nj0|(0,3) (1,12)\nj1|(1,2)(0,4)\n".toList = [[(0, 3), (1, 12)], [(1, 2), (0, 4)]] := by
  decide

/-! ## outages (`_map_spec_dict_to_outage`; tied by the `CO` lines) -/

open Compile in
/-- **a component carries exactly the entries of the `outages:` section addressed to it**: an entry
is among a component's outages iff its component name is one of the names that address it -/
theorem c16_component_carries_its_outage_entries {α : Type} (names : List Text) (entries : List (Text × α)) (x : α) :
    x ∈ outagesFor names entries ↔ ∃ n, (n, x) ∈ entries ∧ n ∈ names :=
  mem_outagesFor

open Compile in
/-- ... all of them (as many as there are matching entries, so several entries for one component
are all active), in the order of the document -/
theorem c16_outage_entries_all_kept_in_order {α : Type} (names : List Text) (entries : List (Text × α)) :
    (outagesFor names entries).length = entries.countP (fun e => names.contains e.1) ∧
    (outagesFor names entries).Sublist (entries.map (·.2)) ∧
    ∀ e₁ e₂ : List (Text × α), outagesFor names (e₁ ++ e₂) = outagesFor names e₁ ++ outagesFor names e₂ :=
  ⟨outagesFor_length names entries, outagesFor_sublist names entries, outagesFor_append names⟩

open Compile in
/-- a machine is addressed by `m`, `machine`, … and by its own id, not by another machine's id -/
theorem c16_machine_addressed_by_own_id (id other : Text) (h : other ∉ machineOutageNames id) :
    other ≠ id ∧ other ≠ "m".toList := by
  constructor <;> rintro rfl <;> simp [machineOutageNames] at h

/-- non-vacuity: two entries for `m` and `m-0`, one for `m-1`: machine `m-0` carries the first two -/
example : Compile.outagesFor (Compile.machineOutageNames "m-0".toList)
    [("m".toList, 1), ("m-1".toList, 2), ("m-0".toList, 3)] = [1, 3] := by decide

end JSL
