import JSL.Inv.EnvReach
import JSL.Inv.DurStoch
import JSL.Props.Example

/-!
# C02 — operations last exactly their configured duration, never ending early or late

The life of one operation record, as the code writes it:

* `c02_begin` – at SETUP → WORKING the record becomes `[now, now + d)` where `d` is the configured
  duration, or for a stochastic duration the value sampled at this very moment, and the machine
  is occupied until `now + d`;
* `c02_never_early` / `c02_on_time` – a timed machine transition is only created when the
  machine's time is up, and in every state of every execution a busy machine whose time is up is
  up *exactly now*, and the end recorded for its operation is now: completion is never late;
* `c02_outage_extends` – at WORKING → OUTAGE (which by `c02_on_time` fires at the recorded end)
  the end becomes that end plus the longest outage that strikes;
* `c02_stamp_keeps` – at OUTAGE → IDLE (on time again) the record is stamped DONE with end = now,
  which is the end already recorded: the final interval is `d` + outage.
-/

namespace JSL

variable {orc : Oracle} {inst : Instance}

/-- the value `update(); .time` yields: the configured constant, or the next sample of the stream -/
def TimeCfg.sampleNow (orc : Oracle) (r : Rng) : TimeCfg → Int
  | .det t => t
  | .stoch sid => orc sid (r sid + 1)

theorem updRead_fst (c : TimeCfg) (r : Rng) : (c.updRead orc r).1 = c.sampleNow orc r := by
  cases c <;> rfl

/-- **Begin.**  When processing begins the record is `[now, now + d)` on this machine with `d`
the configured / freshly sampled duration of exactly this operation, and the machine is occupied
until `now + d`. -/
theorem c02_begin {s s' : State} {r r' : Rng} {tr : Transition} {m : MachineState}
    (h : handleMachineSetupToWorking orc inst s r tr m = .ok (s', r')) :
    ∃ (j : JobState) (op : OpState) (oc : OpCfg),
      j ∈ s.jobs ∧ tr.job = some j.id ∧ j.nextNotDone? = some op ∧
      oc ∈ inst.jobs.flatMap (·.ops) ∧ oc.job = op.job ∧ oc.idx = op.idx ∧
      s' = (s.replaceJob (j.replaceOp
              { job := oc.job, idx := oc.idx, start := some s.time,
                stop := some (s.time + oc.dur.sampleNow orc r), machine := m.id, st := .processing })).replaceMachine
            { m with st := .working, occ := some (s.time + oc.dur.sampleNow orc r) } := by
  obtain ⟨j, op, oc, d, h1, h2, _, h4, h5, h6, h7, h8, h9⟩ := setupToWorking_spec h
  have hd : d = oc.dur.sampleNow orc r := by
    have := congrArg Prod.fst h8; simp only at this; rw [this, updRead_fst]
  subst hd
  exact ⟨j, op, oc, h1, h2, h4, h5, h6, h7, h9⟩

/-- **Never early.**  The transition that ends a machine phase is only ever created when the
machine's `occupied_till` has been reached. -/
theorem c02_never_early {now : Int} {m : MachineState} {tr : Transition}
    (h : timedMachine inst now m = .ok (some tr)) (hb : m.st ≠ .idle) : dueAt m.occ now = true := by
  unfold timedMachine at h
  split at h
  · rename_i ns hns
    split at hns
    · assumption
    · simp at hns
  · split at h
    · rename_i hidle; simp at hidle; exact absurd hidle hb
    · simp at h

/-- **Never late.**  Under the schedule invariant – which holds in every state of every execution
(`c02_no_overdue`) – a busy machine whose time is up is up exactly now, and the end
recorded for the operation it runs is now. -/
theorem c02_on_time {s : State} (hS : SchedInv s) {m : MachineState} (hm : m ∈ s.machines) (hb : m.st ≠ .idle)
    (hd : dueAt m.occ s.time = true) :
    m.occ = some s.time ∧ ∃ j ∈ s.jobs, m.buffer.store = [j.id] ∧
      ∃ op, j.processing? = some op ∧ op.machine = m.id ∧ op.stop = some s.time := by
  obtain ⟨j, hj, hst, op, hop, hmid, hstop, hne⟩ := hS.busyHolds m hm hb
  obtain ⟨l1, l2, hl, _, hp⟩ := processing?_split' hop
  have hmem : op ∈ j.ops := by rw [hl]; simp
  obtain ⟨a, b, _, h2, _, _, h5⟩ := (OpsOK_mem _ _ (hS.ops j hj) op hmem).2.1 hp
  cases ho : m.occ with
  | none => exact absurd ho hne
  | some o =>
    rw [ho] at hd hstop
    simp [dueAt] at hd
    rw [h2] at hstop
    have : b = o := by simpa using hstop
    have : o = s.time := by omega
    subst this
    exact ⟨rfl, j, hj, hst, op, hop, hmid, by rw [h2]; simp [*]⟩

/-- **No machine is ever overdue**: in every state of every execution (results while the shop is
not done, sub-states, post-states of every applied transition) a busy machine holds exactly the
job whose running record ends at the machine's `occupied_till`, and that time is not in the past.
So whenever `c02_never_early`'s condition becomes true it is true with equality. -/
theorem c02_no_overdue {cfg : SMConfig} {s0 σ : State} (hst : Start orc inst s0) (h : OccursA orc inst cfg s0 σ)
    {m : MachineState} (hm : m ∈ σ.machines) (hb : m.st ≠ .idle) :
    ∃ j ∈ σ.jobs, m.buffer.store = [j.id] ∧ ∃ op b, j.processing? = some op ∧ op.machine = m.id ∧
      op.stop = some b ∧ m.occ = some b ∧ σ.time ≤ b := by
  obtain ⟨_, _, hS⟩ := occursA_inv hst h
  obtain ⟨j, hj, hst', op, hop, hmid, hstop, hne⟩ := hS.busyHolds m hm hb
  obtain ⟨l1, l2, hl, _, hp⟩ := processing?_split' hop
  have hmem : op ∈ j.ops := by rw [hl]; simp
  obtain ⟨a, b, _, h2, _, _, h5⟩ := (OpsOK_mem _ _ (hS.ops j hj) op hmem).2.1 hp
  exact ⟨j, hj, hst', op, b, hop, hmid, h2, by rw [← hstop, h2], h5⟩

/-- the same coupling at every state the environment exposes (including the final, stamped one) -/
theorem c02_busy_coupled {ec : EnvCfg} {st : RewardStatic} {s0 σ : State} (hst : Start orc inst s0)
    (h : Exposed orc inst ec st s0 σ) {m : MachineState} (hm : m ∈ σ.machines) (hb : m.st ≠ .idle) :
    ∃ j ∈ σ.jobs, m.buffer.store = [j.id] ∧ ∃ op, j.processing? = some op ∧ op.machine = m.id ∧
      op.stop = m.occ ∧ m.occ ≠ none := by
  obtain ⟨_, _, t, hS⟩ := exposed_inv hst h
  exact hS.busyHolds m hm hb

/-- **Outage extends.**  At WORKING → OUTAGE the recorded end and the machine's `occupied_till`
both become now + the longest of the outages that strike now (0 if none does); the start is
untouched. -/
theorem c02_outage_extends {s s' : State} {r r' : Rng} {tr : Transition} {m : MachineState}
    (h : handleMachineWorkingToOutage orc inst s r tr m = .ok (s', r')) :
    ∃ (mc : MachineCfg) (outs : List OutageState) (j : JobState) (op : OpState),
      mc ∈ inst.machines ∧ mc.id = m.id ∧ newOutageStates orc s.time m.outages mc.outages r = .ok (outs, r') ∧
      j ∈ s.jobs ∧ tr.job = some j.id ∧ j.processing? = some op ∧
      s' = (s.replaceMachine { m with st := .outage, outages := outs, occ := some (s.time + occupiedFor outs) }).replaceJob
            (j.replaceOp { op with stop := some (s.time + occupiedFor outs) }) :=
  workingToOutage_spec h

/-- **Stamp.**  At OUTAGE → IDLE the record is marked DONE with end = now; start and machine are
untouched.  With `c02_on_time` now is the end already recorded, so the completed interval is the
duration fixed at `c02_begin` plus the outage added at `c02_outage_extends`. -/
theorem c02_stamp_keeps {s s' : State} {r r' : Rng} {m : MachineState}
    (h : handleMachineOutageToIdle inst s r m = .ok (s', r')) :
    ∃ (j : JobState) (op : OpState), j ∈ s.jobs ∧ m.buffer.store.head? = some j.id ∧ j.processing? = some op ∧
      ∃ j' ∈ s'.jobs, j'.id = j.id ∧ j'.ops = (j.replaceOp { op with stop := some s.time, st := .done }).ops := by
  obtain ⟨j, op, mc, rest, b1, b2, h1, h2, h3, _, _, _, _, h8⟩ := outageToIdle_spec h
  refine ⟨j, op, h2, by simp [h1], h3, (j.replaceOp { op with stop := some s.time, st := .done }).at m.post.id, ?_, rfl, rfl⟩
  subst h8
  simp only [State.replaceMachine, State.replaceJob]
  exact List.mem_map.mpr ⟨j, h2, by simp⟩

/-- stamping at the recorded end changes nothing but the state flag -/
theorem c02_stamp_on_time (op : OpState) (now : Int) (h : op.stop = some now) :
    ({ op with stop := some now, st := .done } : OpState) = { op with st := .done } := by
  cases op; simp_all

/-! ## along every episode -/

/-- **C02 at every state the environment exposes, whatever the agent does.**  A completed
operation whose configured duration is the constant `d` has a recorded interval of at least `d`
– the difference is the outage time applied at its completion – and of exactly `d` when its
machine has no outage configured; an operation in progress on a WORKING / OUTAGE machine is
scheduled to end accordingly.  (For a stochastic duration the value is fixed when processing
begins – `c02_begin` – and the same bookkeeping applies to it step by step: `c02_outage_extends`,
`c02_stamp_keeps`, `c02_no_overdue`.) -/
theorem c02_durations {ec : EnvCfg} {st : RewardStatic} {s0 σ : State} (hst : Start orc inst s0)
    (h : Exposed orc inst ec st s0 σ) (j : JobState) (hj : j ∈ σ.jobs) (o : OpState) (ho : o ∈ j.ops)
    (hrun : o.st = .done ∨ (o.st = .processing ∧ ∃ m ∈ σ.machines, m.id = o.machine ∧ (m.st = .working ∨ m.st = .outage)))
    (oc : OpCfg) (hoc : oc ∈ inst.jobs.flatMap (·.ops)) (hk : oc.job = o.job ∧ oc.idx = o.idx) (d : Int)
    (hd : oc.dur = .det d) :
    ∃ a b, o.start = some a ∧ o.stop = some b ∧ a + d ≤ b ∧
      ((∀ mc ∈ inst.machines, mc.id = o.machine → mc.outages = []) → b = a + d) := by
  have hD := exposed_dur hst h
  rcases hrun with hdone | ⟨hp, m, hm, hid, hms⟩
  · exact hD.done j hj o ho hdone d ⟨oc, hoc, hk.1, hk.2, hd⟩
  · exact hD.running j hj o ho hp m hm hid hms d ⟨oc, hoc, hk.1, hk.2, hd⟩

/-- **Stochastic durations: the value sampled when processing began.**  In every state an episode
exposes, a completed operation whose configured duration is the stochastic object `sid` has a
recorded interval of at least one of that object's samples `orc sid k` (`k ≥ 1`: the sample drawn by
the `update()` at the start of processing) – exactly that sample when its machine has no outage
configured; an operation in progress on a WORKING / OUTAGE machine is scheduled to end accordingly. -/
theorem c02_stochastic_durations {ec : EnvCfg} {st : RewardStatic} {s0 σ : State} (hst : Start orc inst s0)
    (h : Exposed orc inst ec st s0 σ) (j : JobState) (hj : j ∈ σ.jobs) (o : OpState) (ho : o ∈ j.ops)
    (hrun : o.st = .done ∨ (o.st = .processing ∧ ∃ m ∈ σ.machines, m.id = o.machine ∧ (m.st = .working ∨ m.st = .outage)))
    (oc : OpCfg) (hoc : oc ∈ inst.jobs.flatMap (·.ops)) (hk : oc.job = o.job ∧ oc.idx = o.idx) (sid : Nat)
    (hd : oc.dur = .stoch sid) :
    ∃ a b k, 1 ≤ k ∧ o.start = some a ∧ o.stop = some b ∧ a + orc sid k ≤ b ∧
      ((∀ mc ∈ inst.machines, mc.id = o.machine → mc.outages = []) → b = a + orc sid k) := by
  have hD := exposed_durS hst h
  rcases hrun with hdone | ⟨hp, m, hm, hid, hms⟩
  · exact hD.done j hj o ho hdone sid ⟨oc, hoc, hk.1, hk.2, hd⟩
  · exact hD.running j hj o ho hp m hm hid hms sid ⟨oc, hoc, hk.1, hk.2, hd⟩

end JSL
