import JSL.Inv.ApproachOwn
import JSL.Inv.Applies

/-!
# C07, the approach leg composed over whole episodes

`c07_dispatch` (in `C07.lean`) is the per-transition fact: at a dispatch the AGV's `occupied_till`
is set to now + the matrix entry (where the AGV stands → component holding the job).  Here this is
composed over whole episodes of the environment, for any agent behaviour and any instance:

**a pickup (`→ TRANSIT`) of an AGV is applied no earlier than the time of any earlier dispatch of
that AGV plus the travel time of that dispatch's empty run** (`c07_approach_leg`, with the constant
and the sampled form in `c07_approach_leg_travel`), and consequently the arrival time written at the
pickup is no earlier than dispatch time + approach + loaded leg (`c07_dispatch_to_arrival`).

The state keeps no record of the dispatch time once the AGV waits at the pickup point (`loc` keeps
`route cur pick drop`, but `occupied_till` is overwritten by the waiting time), so the statement is
about the *applied transitions* of the episode, in order: `EnvRun … e C` lists every application
(`Call` = state before, transition, state after) made from `reset` up to the environment state `e`;
the post-states of the listed calls are exactly the ghost lists `micro` the model returns
(`ap_stepCalls_micro`, `ap_mwCalls_micro`), every listed post-state is `Exposed`
(`c07_calls_exposed`) and every episode has its list (`c07_run_of_reach`).

Hypothesis `hown`: in the post-state of every listed call, a transition parked in a
`TimeDependency` is parked at the AGV it addresses (`DepOwn`).  `_get_waiting_time` may *copy* the
`occupied_till` of another AGV (`waitBehind`, the AGV assigned to the job at the release position);
were that a `TimeDependency`, the copier would later re-submit the other AGV's parked
`→ WAITINGPICKUP` transition, which `validate` accepts for an AGV in PICKUP whatever its arrival
time – the approach would be cut short.  No such state was found, and the copy seems unreachable
(the AGV assigned to the job at the release position is re-evaluated, and its dependency resolved,
before that job can become the release job), but this is not proved here; it is the one open
obligation, isolated as a state predicate on exposed states.  For instances with a single AGV it is
proved (`ap_exposed_depOwn`: a copy can only be the AGV's own), so `c07_approach_leg_single_agv` and
`c07_approach_leg_travel_single_agv` carry no such hypothesis.
-/

namespace JSL

variable {orc : Oracle} {inst : Instance}

/-- from now on AGV `a` has completed, or will complete no earlier than `T`, its current approach -/
def ApAfter (a : Nat) (T : Int) (σ : State) : Prop :=
  ∀ t ∈ σ.transports, t.id = a →
    (t.st = .pickup → ∃ c, t.occ = .at c ∧ T ≤ c) ∧ (t.st ≠ .pickup → T ≤ σ.time)

theorem ap_after_adv {a : Nat} {T : Int} {s s' : State} (h : ApAdv s s') (hq : ApAfter a T s) : ApAfter a T s' := by
  obtain ⟨t, hle, rfl⟩ := h
  intro x hx hid
  have := hq x hx hid
  exact ⟨this.1, fun hs => by have := this.2 hs; simp only; omega⟩

theorem ap_after_call {a : Nat} {T : Int} {c : Call} (hc : ApCall orc inst c) (h : ApAfter a T c.pre) :
    ApAfter a T c.post := by
  intro t ht hid
  rcases hc.fx.fx t ht with ⟨ht0, _⟩ | ⟨t0, ht0, hcomp, hid0, hcase⟩
  · have := h t ht0 hid
    exact ⟨this.1, fun hs => by rw [hc.fx.time]; exact this.2 hs⟩
  · have h0 := h t0 ht0 (by rw [← hid0, hid])
    rcases hcase with ⟨_, hidle, hpk, j, cur, target, src, bc, cf, v, _, _, _, _, _, _, _, hocc, _, hv, _, _⟩ |
      ⟨_, hnp, hleave, _⟩
    · have hT := h0.2 (by rw [hidle]; simp)
      exact ⟨fun _ => ⟨_, hocc, by omega⟩, fun hs => absurd hpk hs⟩
    · refine ⟨fun hs => absurd hs hnp, fun _ => ?_⟩
      rw [hc.fx.time]
      by_cases hp : t0.st = .pickup
      · obtain ⟨x, hx, hTx⟩ := h0.1 hp
        have := hc.due (hleave hp) t0 ht0 hcomp hp x hx
        omega
      · exact h0.2 hp

theorem ap_after_chain {a : Nat} {T : Int} : ∀ {C : List Call} {s : State}, (∀ c ∈ C, ApCall orc inst c) →
    ApLinked s C → ApAfter a T s → ∀ c ∈ C, ApAfter a T c.pre
  | [], _, _, _, _, c, hc => by cases hc
  | c0 :: C, s, hall, hl, hq, c, hc => by
    have h0 : ApAfter a T c0.pre := ap_after_adv hl.1 hq
    rcases List.mem_cons.mp hc with rfl | hc
    · exact h0
    · exact ap_after_chain (C := C) (fun x hx => hall x (by simp [hx])) hl.2
        (ap_after_call (hall c0 (by simp)) h0) c hc

theorem ap_linked_suffix : ∀ {A : List Call} {s : State} {c : Call} {B : List Call},
    ApLinked s (A ++ c :: B) → ApLinked c.post B
  | [], _, _, _, h => h.2
  | _ :: A, _, _, _, h => ap_linked_suffix (A := A) h.2

/-- **The approach leg over whole episodes.**  In the list `C` of all transitions applied in an
episode up to the environment state `e`: let `cd` be a dispatch (`→ WORKING`) of AGV `a` and `cp` a
later pickup (`→ TRANSIT`) of the same AGV.  Then the record `t'` of the AGV right after the dispatch
is what `c07_dispatch` describes (`Dispatched`: it stood at `cur`, the job lies in buffer `bc` of
component `src`, `occupied_till = time of cd + v`, `v` the current value of the matrix entry
`cur → src`), and that arrival time is not later than the time at which `cp` is applied. -/
theorem c07_approach_leg {ec : EnvCfg} {st : RewardStatic} {s0 : State} (hst : Start orc inst s0) {e : EnvState}
    {C : List Call} (hrun : EnvRun orc inst ec st s0 e C) (hown : ∀ c ∈ C, DepOwn c.post)
    {C1 C2 C3 : List Call} {cd cp : Call} (hC : C = C1 ++ cd :: (C2 ++ cp :: C3)) {a : Nat}
    (hd1 : cd.tr.comp = .t a) (hd2 : cd.tr.new = .t .working)
    (hp1 : cp.tr.comp = .t a) (hp2 : cp.tr.new = .t .transit) :
    ∃ t0 ∈ cd.pre.transports, t0.id = a ∧ ∃ t' ∈ cd.post.transports, t'.id = a ∧ t0.st = .idle ∧ t'.st = .pickup ∧
      Dispatched orc inst cd.pre cd.tr t0 t' ∧ ∀ x, t'.occ = .at x → x ≤ cp.pre.time := by
  obtain ⟨w, _⟩ := initOKB_sound hst.init
  obtain ⟨hall, hlink, _⟩ := ap_envRun_ok hst hrun hown
  subst hC
  have hcd := hall cd (by simp)
  have hcp := hall cp (by simp)
  obtain ⟨t', ht', hid'⟩ := hcd.fx.ex a hd1
  rcases hcd.fx.fx t' ht' with ⟨_, hne⟩ | ⟨t0, ht0, hcomp, hid0, hcase⟩
  · exact absurd (by rw [hd1, hid']) hne
  · rcases hcase with ⟨_, hidle, hpk, hdisp⟩ | ⟨hnw, _⟩
    · have ha0 : t0.id = a := by rw [← hid0, hid']
      refine ⟨t0, ht0, ha0, t', ht', hid', hidle, hpk, hdisp, ?_⟩
      intro x hx
      have hQ : ApAfter a x cd.post := by
        intro t ht hid
        have : t = t' := eq_of_mem_of_key_eq (key := fun (y : TransportState) => y.id)
          (hcd.structPost.shape.trNodup w) ht ht' (by rw [hid, hid'])
        subst this
        exact ⟨fun _ => ⟨x, hx, Int.le_refl _⟩, fun hs => absurd hpk hs⟩
      have hlk : ApLinked cd.post (C2 ++ cp :: C3) := ap_linked_suffix hlink
      have hQp := ap_after_chain (fun c hc => hall c (by simp [hc])) hlk hQ cp (by simp)
      obtain ⟨t2', ht2', hid2'⟩ := hcp.fx.ex a hp1
      rcases hcp.fx.fx t2' ht2' with ⟨_, hne⟩ | ⟨t2, ht2, hcomp2, hid2, hcase2⟩
      · exact absurd (by rw [hp1, hid2']) hne
      · rcases hcase2 with ⟨hw, _⟩ | ⟨_, _, hleave, _⟩
        · rw [hp2] at hw; cases hw
        · have h2 := hQp t2 ht2 (by rw [← hid2, hid2'])
          by_cases hp : t2.st = .pickup
          · obtain ⟨y, hy, hxy⟩ := h2.1 hp
            have := hcp.due (Or.inr hp2) t2 ht2 hcomp2 hp y hy
            omega
          · exact h2.2 hp
    · exact absurd hd2 hnw

/-- the same with the travel time spelled out: for a **constant** entry `d` from where the AGV stood
(`cur`) to the component holding the job (`src`), *time of the dispatch + d ≤ time of the pickup*;
for a **stochastic** entry, *time of the dispatch + one of the object's samples ≤ time of the pickup*
(the sample current at the dispatch – the empty run does not call `update()`) -/
theorem c07_approach_leg_travel {ec : EnvCfg} {st : RewardStatic} {s0 : State} (hst : Start orc inst s0) {e : EnvState}
    {C : List Call} (hrun : EnvRun orc inst ec st s0 e C) (hown : ∀ c ∈ C, DepOwn c.post)
    {C1 C2 C3 : List Call} {cd cp : Call} (hC : C = C1 ++ cd :: (C2 ++ cp :: C3)) {a : Nat}
    (hd1 : cd.tr.comp = .t a) (hd2 : cd.tr.new = .t .working)
    (hp1 : cp.tr.comp = .t a) (hp2 : cp.tr.new = .t .transit) :
    ∃ t0 ∈ cd.pre.transports, t0.id = a ∧ ∃ j ∈ cd.pre.jobs, cd.tr.job = some j.id ∧
      ∃ (cur src : Loc) (bc : BufCfg) (c : TimeCfg), t0.loc = .at cur ∧ bc ∈ allBufCfgs inst ∧ bc.id = j.loc ∧
        (bc.parent = none ∧ src = .b j.loc ∨ ∃ mid, bc.parent = some (.m mid) ∧ src = .m mid) ∧
        travelCfg inst cur src = some c ∧
        (∀ d, c = .det d → cd.pre.time + d ≤ cp.pre.time) ∧
        (∀ sid, c = .stoch sid → ∃ k, cd.pre.time + orc sid k ≤ cp.pre.time) := by
  obtain ⟨t0, ht0, ha0, t', _, _, _, _, ⟨j, cur, target, src, bc, c, v, hj, htj, hloc, hbc, hbid, hsrc, htc, hocc, _, _,
    hdet, hsto⟩, hle⟩ := c07_approach_leg hst hrun hown hC hd1 hd2 hp1 hp2
  have := hle _ hocc
  refine ⟨t0, ht0, ha0, j, hj, htj, cur, src, bc, c, hloc, hbc, hbid, hsrc, htc, ?_, ?_⟩
  · intro d hd; rw [← hdet d hd]; exact this
  · intro sid hs
    obtain ⟨k, hk⟩ := hsto sid hs
    exact ⟨k, by rw [← hk]; exact this⟩

/-- **Dispatch to arrival.**  With `cd`, `cp` as above: the record `t''` of the AGV right after the
pickup `cp` carries an arrival time `y` with *time of the dispatch + approach + loaded leg ≤ y*:
`v1` is the value of the entry (where the AGV stood → component holding the job of `cd`), `v2` the
value of the entry (component holding the job of `cp` → its destination) – the constants when the
entries are constant, samples of the objects when they are stochastic. -/
theorem c07_dispatch_to_arrival {ec : EnvCfg} {st : RewardStatic} {s0 : State} (hst : Start orc inst s0) {e : EnvState}
    {C : List Call} (hrun : EnvRun orc inst ec st s0 e C) (hown : ∀ c ∈ C, DepOwn c.post)
    {C1 C2 C3 : List Call} {cd cp : Call} (hC : C = C1 ++ cd :: (C2 ++ cp :: C3)) {a : Nat}
    (hd1 : cd.tr.comp = .t a) (hd2 : cd.tr.new = .t .working)
    (hp1 : cp.tr.comp = .t a) (hp2 : cp.tr.new = .t .transit) :
    ∃ t0 ∈ cd.pre.transports, t0.id = a ∧ ∃ t' ∈ cd.post.transports, t'.id = a ∧
      Dispatched orc inst cd.pre cd.tr t0 t' ∧
      ∃ t'' ∈ cp.post.transports, t''.id = a ∧ Loaded orc inst cp.pre cp.tr t'' ∧
      ∀ v1 v2, t'.occ = .at (cd.pre.time + v1) → t''.occ = .at (cp.pre.time + v2) →
        ∃ y, t''.occ = .at y ∧ cd.pre.time + v1 + v2 ≤ y := by
  obtain ⟨t0, ht0, ha0, t', ht', hid', _, _, hdisp, hle⟩ := c07_approach_leg hst hrun hown hC hd1 hd2 hp1 hp2
  obtain ⟨hall, _, _⟩ := ap_envRun_ok hst hrun hown
  subst hC
  have hcp := hall cp (by simp)
  obtain ⟨t2', ht2', hid2'⟩ := hcp.fx.ex a hp1
  rcases hcp.fx.fx t2' ht2' with ⟨_, hne⟩ | ⟨t2, ht2, hcomp2, hid2, hcase2⟩
  · exact absurd (by rw [hp1, hid2']) hne
  · rcases hcase2 with ⟨hw, _⟩ | ⟨_, _, _, hload⟩
    · rw [hp2] at hw; cases hw
    · refine ⟨t0, ht0, ha0, t', ht', hid', hdisp, t2', ht2', hid2', hload hp2, ?_⟩
      intro v1 v2 h1 h2
      have := hle _ h1
      exact ⟨_, h2, by omega⟩

/-! ## the list is the list of the episode -/

/-- every episode has its list of applications -/
theorem c07_run_of_reach {ec : EnvCfg} {st : RewardStatic} {s0 : State} {e : EnvState}
    (h : EnvReach orc inst ec st s0 e) : ∃ C, EnvRun orc inst ec st s0 e C := by
  induction h with
  | reset h => exact ⟨_, .reset h⟩
  | step _ h ih => obtain ⟨C, hC⟩ := ih; exact ⟨_, .step hC h⟩

/-- the post-state of every listed application is a state the environment exposes -/
theorem c07_calls_exposed {ec : EnvCfg} {st : RewardStatic} {s0 : State} {e : EnvState} {C : List Call}
    (h : EnvRun orc inst ec st s0 e C) : ∀ c ∈ C, Exposed orc inst ec st s0 c.post := by
  induction h with
  | @reset r e mic h =>
    intro c hc
    have h' := h
    unfold envReset mwReset at h'
    obtain ⟨⟨res, mw, r', mic'⟩, h1, h'⟩ := except_bind_eq_ok h'
    obtain ⟨⟨res', r'', mic''⟩, h2, h1⟩ := except_bind_eq_ok h1
    simp at h1 h'
    obtain ⟨rfl, rfl, rfl, rfl⟩ := h1
    obtain ⟨rfl, rfl⟩ := h'
    refine Exposed.resetMicro h ?_
    rw [← ap_stepCalls_micro h2]
    exact List.mem_map.mpr ⟨c, hc, rfl⟩
  | @step e a out C hprev h ih =>
    intro c hc
    rcases List.mem_append.mp hc with hc | hc
    · exact ih c hc
    · have h' := h
      unfold envStep at h'
      split at h'
      · simp at h'
      · obtain ⟨⟨res', mw, r, mic⟩, hm, h'⟩ := except_bind_eq_ok h'
        simp only at h'
        obtain ⟨⟨rew, cnt⟩, _, h'⟩ := except_bind_eq_ok h'
        simp at h'
        refine Exposed.micro (ap_envRun_reach hprev) h ?_
        rw [← h']
        simp only
        have hmm := ap_mwCalls_micro hm
        simp only at hmm
        rw [← hmm]
        exact List.mem_map.mpr ⟨c, hc, rfl⟩

/-- so `hown` follows from `DepOwn` in every exposed state -/
theorem c07_approach_leg_of_exposed {ec : EnvCfg} {st : RewardStatic} {s0 : State} (hst : Start orc inst s0)
    {e : EnvState} {C : List Call} (hrun : EnvRun orc inst ec st s0 e C)
    (hown : ∀ σ, Exposed orc inst ec st s0 σ → DepOwn σ)
    {C1 C2 C3 : List Call} {cd cp : Call} (hC : C = C1 ++ cd :: (C2 ++ cp :: C3)) {a : Nat}
    (hd1 : cd.tr.comp = .t a) (hd2 : cd.tr.new = .t .working)
    (hp1 : cp.tr.comp = .t a) (hp2 : cp.tr.new = .t .transit) :
    ∃ t0 ∈ cd.pre.transports, t0.id = a ∧ ∃ t' ∈ cd.post.transports, t'.id = a ∧ t0.st = .idle ∧ t'.st = .pickup ∧
      Dispatched orc inst cd.pre cd.tr t0 t' ∧ ∀ x, t'.occ = .at x → x ≤ cp.pre.time :=
  c07_approach_leg hst hrun (fun c hc => hown _ (c07_calls_exposed hrun c hc)) hC hd1 hd2 hp1 hp2

/-- **unconditional for instances with one AGV**: there every parked transition is the AGV's own
(`ap_exposed_depOwn`) -/
theorem c07_approach_leg_single_agv {ec : EnvCfg} {st : RewardStatic} {s0 : State} (hst : Start orc inst s0)
    (hone : inst.transports.length ≤ 1) {e : EnvState} {C : List Call} (hrun : EnvRun orc inst ec st s0 e C)
    {C1 C2 C3 : List Call} {cd cp : Call} (hC : C = C1 ++ cd :: (C2 ++ cp :: C3)) {a : Nat}
    (hd1 : cd.tr.comp = .t a) (hd2 : cd.tr.new = .t .working)
    (hp1 : cp.tr.comp = .t a) (hp2 : cp.tr.new = .t .transit) :
    ∃ t0 ∈ cd.pre.transports, t0.id = a ∧ ∃ t' ∈ cd.post.transports, t'.id = a ∧ t0.st = .idle ∧ t'.st = .pickup ∧
      Dispatched orc inst cd.pre cd.tr t0 t' ∧ ∀ x, t'.occ = .at x → x ≤ cp.pre.time :=
  c07_approach_leg_of_exposed hst hrun (fun _ h => ap_exposed_depOwn hst hone h) hC hd1 hd2 hp1 hp2

theorem c07_approach_leg_travel_single_agv {ec : EnvCfg} {st : RewardStatic} {s0 : State} (hst : Start orc inst s0)
    (hone : inst.transports.length ≤ 1) {e : EnvState} {C : List Call} (hrun : EnvRun orc inst ec st s0 e C)
    {C1 C2 C3 : List Call} {cd cp : Call} (hC : C = C1 ++ cd :: (C2 ++ cp :: C3)) {a : Nat}
    (hd1 : cd.tr.comp = .t a) (hd2 : cd.tr.new = .t .working)
    (hp1 : cp.tr.comp = .t a) (hp2 : cp.tr.new = .t .transit) :
    ∃ t0 ∈ cd.pre.transports, t0.id = a ∧ ∃ j ∈ cd.pre.jobs, cd.tr.job = some j.id ∧
      ∃ (cur src : Loc) (bc : BufCfg) (c : TimeCfg), t0.loc = .at cur ∧ bc ∈ allBufCfgs inst ∧ bc.id = j.loc ∧
        (bc.parent = none ∧ src = .b j.loc ∨ ∃ mid, bc.parent = some (.m mid) ∧ src = .m mid) ∧
        travelCfg inst cur src = some c ∧
        (∀ d, c = .det d → cd.pre.time + d ≤ cp.pre.time) ∧
        (∀ sid, c = .stoch sid → ∃ k, cd.pre.time + orc sid k ≤ cp.pre.time) :=
  c07_approach_leg_travel hst hrun
    (fun c hc => ap_exposed_depOwn hst hone (c07_calls_exposed hrun c hc)) hC hd1 hd2 hp1 hp2

/-! ## non-vacuity -/

namespace ExA

open ExT

/-- `reset`, then "accept" on `ExT.instT`: the AGV stands at `m-0`, the jobs lie in the input buffer
`b-7`; the applications are dispatch (time 0), arrive-and-wait (1), pickup (1), delivery (2),
release (2) -/
def check : Bool :=
  match envReset orc0 instT ec Ex.s0 r0 with
  | .error _ => false
  | .ok (e, _) =>
    match envStep orc0 instT ec st e .accept with
    | .error _ => false
    | .ok _ =>
      match stepCalls orc0 instT ec.sm ec.fuel Ex.s0 r0 noOpAction ++ mwCalls orc0 instT ec.sm ec.fuel e.res e.rng .accept with
      | cd :: cw :: cp :: _ =>
        decide (cd.tr = ⟨.t 0, .t .working, some 0⟩ ∧ cd.pre.time = 0 ∧
          cd.pre.transports.map (fun t => (t.id, t.loc)) = [(0, .at (.m 0))] ∧
          cd.post.transports.map (fun t => (t.id, t.loc, t.occ)) = [(0, .route (.m 0) 7 (.m 0), .at 1)] ∧
          travelCfg instT (.m 0) (.b 7) = some (.det 1) ∧
          cw.tr = ⟨.t 0, .t .waitingpickup, some 0⟩ ∧ cw.pre.time = 1 ∧
          cp.tr = ⟨.t 0, .t .transit, some 0⟩ ∧ cp.pre.time = 1 ∧
          travelCfg instT (.b 7) (.m 0) = some (.det 1) ∧
          cp.post.transports.map (fun t => (t.id, t.occ)) = [(0, .at 2)] ∧
          (cd :: cw :: cp :: []).all (fun c => c.post.transports.all fun t =>
            match t.occ with | .dep _ _ tr => tr.comp == .t t.id | _ => true))
      | _ => false

/-- **non-vacuity, tight**: an episode prefix of `ExT.instT` in which the AGV, standing at `m-0`, is
dispatched at time 0 to a job in the input buffer `b-7` (entry `m-0 → b-7` = 1), arrives and waits at
time 1 and picks up at time 1 = 0 + 1; its arrival time after the pickup is 2 = 0 + 1 + 1 -/
theorem c07_approach_example : ∃ e C cd cw cp rest, EnvRun orc0 instT ec st Ex.s0 e C ∧ C = cd :: cw :: cp :: rest ∧
    cd.tr = ⟨.t 0, .t .working, some 0⟩ ∧ cd.pre.time = 0 ∧
    cd.pre.transports.map (fun t => (t.id, t.loc)) = [(0, .at (.m 0))] ∧
    cd.post.transports.map (fun t => (t.id, t.loc, t.occ)) = [(0, .route (.m 0) 7 (.m 0), .at 1)] ∧
    travelCfg instT (.m 0) (.b 7) = some (.det 1) ∧
    cp.tr = ⟨.t 0, .t .transit, some 0⟩ ∧ cp.pre.time = 1 ∧
    travelCfg instT (.b 7) (.m 0) = some (.det 1) ∧
    cp.post.transports.map (fun t => (t.id, t.occ)) = [(0, .at 2)] := by
  have h : check = true := by decide
  unfold check at h
  split at h
  · cases h
  · rename_i e mic hreset
    split at h
    · cases h
    · rename_i out hstep
      split at h
      · rename_i cd cw cp rest hC
        have h' := of_decide_eq_true h
        exact ⟨_, _, cd, cw, cp, rest, EnvRun.step (EnvRun.reset hreset) hstep, hC, h'.1, h'.2.1, h'.2.2.1, h'.2.2.2.1,
          h'.2.2.2.2.1, h'.2.2.2.2.2.2.2.1, h'.2.2.2.2.2.2.2.2.1, h'.2.2.2.2.2.2.2.2.2.1, h'.2.2.2.2.2.2.2.2.2.2.1⟩
      · cases h

/-- the example instance has one AGV: the theorems apply to all its episodes without `hown` -/
example : instT.transports.length ≤ 1 := by decide

end ExA

end JSL
