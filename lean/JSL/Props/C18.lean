import JSL.Lib.StepSpec
import JSL.Inv.EnvReach
import JSL.Props.C12

/-!
# C18 — declining changes only the offer list or the clock; truncation counts exactly
-/

namespace JSL

variable {orc : Oracle} {inst : Instance} {cfg : SMConfig} {mc : MwCfg} {fuel : Nat}

/-- Declining while several transitions are on offer leaves the shop untouched, applies no
transition, removes exactly the declined (first) offer and does not touch the allowance. -/
theorem c18_decline_many (res : SMResult) (m : MwState) (r : Rng) (o o' : Transition)
    (rest : List Transition) (hp : res.possible = o :: o' :: rest) :
    ∃ res' m', mwStep orc inst cfg mc fuel res m r .decline = .ok (res', m', r, []) ∧
      res'.state = res.state ∧ res'.possible = o' :: rest ∧ res'.success = true ∧
      res'.action.transitions = [] ∧ m'.joker = m.joker ∧ m'.actCnt = m.actCnt := by
  refine ⟨{ state := res.state, subStates := res.subStates, action := noOpAction, success := true,
            done := false, possible := o' :: rest }, m.addOp noOpAction, ?_, ?_⟩
  · simp [mwStep, interpret, hp, noOpAction, MwState.addOp, noOpResult]
  · simp [noOpAction, MwState.addOp]

/-- Declining the last remaining offer runs one state-machine step whose action contains no
transition at all (nothing of the agent's choosing is applied) with the forced time jump. -/
theorem c18_decline_last_is_forced_jump (res : SMResult) (m : MwState) (r : Rng) (o : Transition)
    (hp : res.possible = [o]) (out : SMResult × MwState × Rng × List State)
    (h : mwStep orc inst cfg mc fuel res m r .decline = .ok out) :
    ∃ r' mic, smStep orc inst cfg fuel res.state r
        { transitions := [], noOp := true, tm := .forceJump } = .ok (out.1, r', mic) ∧
      out.1.action.transitions = [] := by
  simp only [mwStep, interpret, hp, noOpAction, MwState.addOp, noOpResult, except_pure, except_bind_ok,
    if_true] at h
  obtain ⟨⟨res', r', mic⟩, hs, h⟩ := except_bind_eq_ok h
  have ha := (smStep_spec hs).1
  refine ⟨r', mic, ?_, ?_⟩
  · split at h
    · split at h
      · simp at h; subst h; exact hs
      · simp at h
    · simp at h; subst h; exact hs
  · split at h
    · split at h
      · simp at h; subst h; simp [ha]
      · simp at h
    · simp at h; subst h; simp [ha]

/-- After declining the last offer, unless the shop is done, the offer list presented is the
complete list computed afresh from the new state. -/
theorem c18_decline_last_fresh (res : SMResult) (m : MwState) (r : Rng) (o : Transition)
    (hp : res.possible = [o]) (out : SMResult × MwState × Rng × List State)
    (h : mwStep orc inst cfg mc fuel res m r .decline = .ok out) (hnd : out.1.done = false)
    (hs : out.1.success = true) :
    possibleTransitions inst cfg out.1.state = .ok out.1.possible := by
  obtain ⟨r', mic, hstep, _⟩ := c18_decline_last_is_forced_jump res m r o hp out h
  rcases (smStep_spec hstep).2 with h1 | h1 | h1
  · simp [h1.1] at hs
  · simp [h1.2.1] at hnd
  · exact h1.2.2.2

/-- Allowance accounting of one middleware step: the allowance drops by one exactly when the last
offer is declined, truncation is active, no offer was accepted since the previous such moment,
and the shop goes on; it never changes otherwise. -/
theorem c18_joker_step (res : SMResult) (m : MwState) (r : Rng) (a : AgentAct)
    (out : SMResult × MwState × Rng × List State)
    (h : mwStep orc inst cfg mc fuel res m r a = .ok out) :
    out.2.1.joker =
      if a = .decline ∧ res.possible.length = 1 ∧ out.1.possible ≠ [] ∧ mc.truncActive = true ∧ m.actCnt = 0
      then m.joker - 1 else m.joker := by
  unfold mwStep interpret at h
  cases hp : res.possible with
  | nil => simp [hp] at h
  | cons o rest =>
    cases a with
    | outside => simp [hp] at h
    | accept =>
      simp only [hp, except_pure, except_bind_ok, MwState.addOp] at h
      obtain ⟨⟨res', r', mic⟩, hs, h⟩ := except_bind_eq_ok h
      simp at h; subst h; simp
    | decline =>
      simp only [hp, except_pure, except_bind_ok, noOpAction, MwState.addOp, if_true, noOpResult] at h
      cases rest with
      | cons o' rest' => simp at h; subst h; simp
      | nil =>
        simp only [except_bind_ok] at h
        obtain ⟨⟨res', r', mic⟩, hs, h⟩ := except_bind_eq_ok h
        simp only [List.isEmpty_iff] at h
        by_cases he : res'.possible = []
        · simp only [he, if_true] at h
          split at h
          · simp at h; subst h; simp [he]
          · simp at h
        · simp only [he, if_false] at h
          simp at h; subst h
          by_cases ht : mc.truncActive = true ∧ m.actCnt = 0
          · simp [he, ht.1, ht.2]
          · by_cases h1 : mc.truncActive = true
            · have h2 : ¬ m.actCnt = 0 := fun h2 => ht ⟨h1, h2⟩
              simp [he, h1, h2]
            · simp [he, h1]

/-- the allowance never increases and the "accepted since" counter is reset exactly by a
last-offer decline that goes on -/
theorem c18_actCnt_step (res : SMResult) (m : MwState) (r : Rng) (a : AgentAct)
    (out : SMResult × MwState × Rng × List State)
    (h : mwStep orc inst cfg mc fuel res m r a = .ok out) :
    out.2.1.actCnt =
      if a = .accept then m.actCnt + 1
      else if res.possible.length = 1 ∧ out.1.possible ≠ [] then 0 else m.actCnt := by
  unfold mwStep interpret at h
  cases hp : res.possible with
  | nil => simp [hp] at h
  | cons o rest =>
    cases a with
    | outside => simp [hp] at h
    | accept =>
      simp only [hp, except_pure, except_bind_ok, MwState.addOp] at h
      obtain ⟨⟨res', r', mic⟩, hs, h⟩ := except_bind_eq_ok h
      simp at h; subst h; simp
    | decline =>
      simp only [hp, except_pure, except_bind_ok, noOpAction, MwState.addOp, if_true, noOpResult] at h
      cases rest with
      | cons o' rest' => simp at h; subst h; simp
      | nil =>
        simp only [except_bind_ok] at h
        obtain ⟨⟨res', r', mic⟩, hs, h⟩ := except_bind_eq_ok h
        simp only [List.isEmpty_iff] at h
        by_cases he : res'.possible = []
        · simp only [he, if_true] at h
          split at h
          · simp at h; subst h; simp [he]
          · simp at h
        · simp only [he, if_false] at h
          simp at h; subst h
          simp [he, MwState.addOp]

/-- truncation is never reported while it is inactive: with `truncActive = false` the allowance
never changes -/
theorem c18_inactive_never (res : SMResult) (m : MwState) (r : Rng) (a : AgentAct)
    (out : SMResult × MwState × Rng × List State) (hoff : mc.truncActive = false)
    (h : mwStep orc inst cfg mc fuel res m r a = .ok out) : out.2.1.joker = m.joker := by
  rw [c18_joker_step res m r a out h]; simp [hoff]

/-- **Declining the last offer strictly advances time** – in every environment state of every
episode: if the step goes on (success, shop not done) the clock of the new state is strictly
later than before. -/
theorem c18_decline_last_advances {ec : EnvCfg} {st : RewardStatic} {s0 : State} {e : EnvState}
    (hst : Start orc inst s0) (hr : EnvReach orc inst ec st s0 e) (o : Transition) (hp : e.res.possible = [o])
    (m : MwState) (r : Rng) (out : SMResult × MwState × Rng × List State)
    (h : mwStep orc inst ec.sm mc fuel e.res m r .decline = .ok out)
    (hs : out.1.success = true) (hd : out.1.done = false) :
    e.res.state.time < out.1.state.time := by
  obtain ⟨r', mic, hstep, _⟩ := c18_decline_last_is_forced_jump e.res m r o hp out h
  have hne : e.res.possible ≠ [] := by rw [hp]; simp
  have hi := envReach_inv hst hr
  obtain ⟨w, hI, hS⟩ := occursA_inv hst (hi.live hne).1
  have nn := nonnegB_sound hst.samples hst.nonneg
  have ha : Admissible { transitions := [], noOp := true, tm := .forceJump } := ⟨by simp, by simp⟩
  obtain ⟨p, t, hp', ht, hle⟩ := (smStep_clock w nn hI hS ha hstep).2.2.2.2 hs hd
  simp [sortedByTransport, processTransitions] at hp'
  subst hp'
  simp only [runTimeMachine] at ht
  have := forceJump_strict w hI hS (hi.quiet hne) ht
  omega

end JSL
