import JSL.Inv.Offers
import JSL.Inv.EnvReach
import JSL.Props.Example
import JSL.Props.C18
import JSL.Inv.Applies

/-!
# C05 — every offered action can be taken (what is proved, and what is false)

Proved, for every state of every episode:

* `c05_offers_valid` – every transition on offer passes `is_transition_valid` in the state it is
  offered in, so accepting it is never rejected;
* `c05_result_invariants` – whenever a step returns normally, the new state – and every sub-state
  and the post-state of every transition applied inside the step – satisfies all structural,
  schedule and duration invariants again;
* `c05_decline_many_total` – declining one of several offers always returns normally;
* `c05_offered_transition_applies` – **applying an offered transition never raises**: in every
  environment state of every episode, every transition on offer is applied by `apply_transition`
  without an exception, provided the configuration tables are total where the two start handlers
  read them and the initial state is ready (`tablesTotalB`, `readyB`: decidable, printed on the `G`
  line of every scenario by both sides).  `c05_tables_must_be_total`: without a travel row from the
  output buffer an offered dispatch does raise (`TransportConfigError`) – the runtime face of the
  C16 finding that a travel matrix with a missing row is accepted.

Not provable because false (genuine defects, listed as known findings with replayable inputs):
a delivery or a finished operation is put into a buffer without any check that it has room
(`c05_delivery_needs_room`, `c05_release_needs_room`: the handlers succeed *only if* there is
room, and nothing in the offers guarantees it), the timed loop need not end for ordered standalone
buffers, and with fewer AGVs than jobs all offers can disappear before the shop is done.
-/

namespace JSL

variable {orc : Oracle} {inst : Instance}

/-- every offer the environment presents passes validation in the state it presents it in -/
theorem c05_offers_valid {ec : EnvCfg} {st : RewardStatic} {s0 : State} {e : EnvState}
    (hst : Start orc inst s0) (h : EnvReach orc inst ec st s0 e) :
    ∀ tr ∈ e.res.possible, transitionValid e.res.state tr = .ok true := by
  intro tr htr
  have hi := envReach_inv hst h
  have hne : e.res.possible ≠ [] := by intro e0; rw [e0] at htr; cases htr
  obtain ⟨w, hI, hS⟩ := occursA_inv hst (hi.live hne).1
  obtain ⟨poss, hf, hsub⟩ := hi.offersFrom hne
  exact offers_valid w hI hS hf tr (hsub tr htr)

/-- the general statement behind it -/
theorem c05_offers_valid_state {cfg : SMConfig} {s0 σ : State} (hst : Start orc inst s0)
    (h : OccursA orc inst cfg s0 σ) {poss : List Transition} (hp : possibleTransitions inst cfg σ = .ok poss) :
    ∀ tr ∈ poss, transitionValid σ tr = .ok true := by
  obtain ⟨w, hI, hS⟩ := occursA_inv hst h
  exact offers_valid w hI hS hp

/-- whatever a step returns satisfies all invariants again -/
theorem c05_result_invariants {ec : EnvCfg} {st : RewardStatic} {s0 σ : State} (hst : Start orc inst s0)
    (h : Exposed orc inst ec st s0 σ) :
    StructInv inst σ ∧ (∃ t, SchedInv { σ with time := t }) ∧ DurInv inst σ :=
  ⟨(exposed_inv hst h).2.1, (exposed_inv hst h).2.2, exposed_dur hst h⟩

/-- declining one of several offers cannot fail -/
theorem c05_decline_many_total {cfg : SMConfig} {mc : MwCfg} {fuel : Nat} (res : SMResult) (m : MwState) (r : Rng)
    (o o' : Transition) (rest : List Transition) (hp : res.possible = o :: o' :: rest) :
    ∃ out, mwStep orc inst cfg mc fuel res m r .decline = .ok out := by
  obtain ⟨res', m', h, _⟩ := c18_decline_many (orc := orc) (inst := inst) (cfg := cfg) (mc := mc) (fuel := fuel) res m r o o' rest hp
  exact ⟨_, h⟩

/-- a delivery succeeds only if the destination has room: the handler checks nothing beforehand
and `put_in_buffer` raises otherwise -/
theorem c05_delivery_needs_room {s s' : State} {r r' : Rng} {tr : Transition} {t : TransportState}
    (h : handleAgvTransitToOutage orc inst s r tr t = .ok (s', r')) :
    ∃ cur pick drop, t.loc = .route cur pick drop ∧
      ((∃ ms ∈ s.machines, drop = .m ms.id ∧ ∃ c ∈ allBufCfgs inst, c.id = ms.pre.id ∧ (ms.pre.store.length : Int) < c.cap) ∨
       (∃ b ∈ s.buffers, drop = .b b.id ∧ ∃ c ∈ allBufCfgs inst, c.id = b.id ∧ (b.store.length : Int) < c.cap)) := by
  obtain ⟨j, cur, pick, drop, tc, outs, b1, b2, _, _, h3, _, _, _, _, hcase⟩ := transitToOutage_spec h
  refine ⟨cur, pick, drop, h3, ?_⟩
  rcases hcase with ⟨mid, ms, e1, hms, e2, hroom, _⟩ | ⟨bid, b, e1, hb, e2, hroom, _⟩
  · subst e2; exact Or.inl ⟨ms, hms, e1, hroom⟩
  · subst e2; exact Or.inr ⟨b, hb, e1, hroom⟩

/-- a finished operation is released only if the post-buffer has room -/
theorem c05_release_needs_room {s s' : State} {r r' : Rng} {m : MachineState}
    (h : handleMachineOutageToIdle inst s r m = .ok (s', r')) :
    ∃ mc ∈ inst.machines, mc.id = m.id ∧ (m.post.store.length : Int) < mc.post.cap := by
  obtain ⟨_, _, mc, _, _, _, _, _, _, hmc, hid, hroom, _, _⟩ := outageToIdle_spec h
  exact ⟨mc, hmc, hid, hroom⟩

/-- **Applying an offered transition never raises** (first link of "accepting the offered
transition returns normally"; what follows it – the timed loop, deliveries into finite buffers –
is where the recorded findings lie). -/
theorem c05_offered_transition_applies {ec : EnvCfg} {st : RewardStatic} {s0 : State} {e : EnvState}
    (hst : Start orc inst s0) (hT : tablesTotalB inst = true) (h0 : readyB inst s0 = true)
    (h : EnvReach orc inst ec st s0 e) :
    ∀ tr ∈ e.res.possible, ∃ s' r', applyTransition orc inst e.res.state e.rng tr = .ok (s', r') :=
  env_offer_applies_of_guards hst hT h0 h

/-- the hypothesis on the tables cannot be dropped: an instance meeting every `Start` guard whose
travel matrix has no row from the output buffer reaches an environment state with an offer whose
application raises -/
theorem c05_tables_must_be_total : ∃ e, EnvReach ExT.orc0 Ex.inst ExT.ec ExT.st Ex.s0 e ∧
    ∃ tr ∈ e.res.possible, applyTransition ExT.orc0 Ex.inst e.res.state e.rng tr = .error .transportConfig :=
  ExT.ex_offer_raises

/-- non-vacuity: the example instance completed by the three missing travel entries meets the guards -/
example : tablesTotalB ExT.instT = true ∧ readyB ExT.instT Ex.s0 = true := by decide

end JSL
