import JSL.Inv.ClassicIface
import JSL.Inv.ClassicReturns
import JSL.Inv.ClassicSteer
import JSL.Inv.ClassicStamp
import JSL.Inv.ReachListPlan
import JSL.Props.ExampleClassic
import JSL.Props.C06

/-!
# C06, global half: for classic job-shop instances the optimum is reachable through accept / decline

**Class.**  `classicInstB inst` (`JSL/Model/Classic.lean`, propositional form `Classic inst`): every
buffer FLEX, capacities that never block, at least one transport and every transport an AGV, the
travel matrix answers the constant 0 between any two places, no outages, every setup entry the
constant 0 (with the tables total where the handlers read them: `tablesTotalB`), buffers owned as the
compiler makes them, every duration a positive constant, every job has an operation.

**Run hypotheses** (`ClassicRun`): the `Start` guards (jobs neither in pre-buffers nor in output buffers, machines and
AGVs at rest), `classicStartB` (tables ready for the initial state, AGVs parked at places of the shop,
clock 0), `allowEarly = false` (dispatches are offered for jobs that are ready for pickup only – with
early dispatch and fewer AGVs than jobs the statement is FALSE, see the end of this file), truncation
inactive, a non-negative allowance, `numOps ≠ 0` and `tmax ≠ lb` (the reward divides by them), at
least one job, and fuel `≥ 3·#machines + 5·#AGVs + 2` for the timed loop of one `state.step`.

**Statements.**
* `c06_classic_step_returns`, `c06_classic_reset_returns` – in a classic run **no `env.step` ever
  raises** (accept or decline, whatever the agent did before); the episode is never truncated.
* `c06_dispatch_completes` (Stage B), `c06_decline_all_advances` (Stage C).
* `c06_classic_settled` (Stage A) – at every decision point every AGV is idle, unclaimed and empty and
  every busy machine is WORKING (never caught in SETUP or OUTAGE), and the classic invariant holds.
* `c06_target_reachable` (Stage D) – **every event-aligned feasible schedule `S` is reached exactly**:
  some list of accept / decline decisions runs without an exception, ends terminated and not
  truncated, the recorded schedule is `S` and the reported makespan (the final clock) is that of `S`.
* `c06_list_schedule_reachable` – in particular every list schedule.
* `c06_optimum_reachable` – for every feasible schedule of the instance with makespan at most `C`
  some decision list ends terminated with makespan `≤ C`: the minimum over episodes is the optimum
  (the other inequality is `c06_env_makespan_at_least_bound`-style: the recorded schedule of every
  terminated episode is feasible).
-/

namespace JSL

section

variable {orc : Oracle} {inst : Instance} {ec : EnvCfg} {st : RewardStatic} {s0 : State}

theorem ClassicRun.allOps_ne (hR : ClassicRun orc inst ec st s0) : allOps inst ≠ [] := by
  intro h
  cases hj : inst.jobs with
  | nil => exact hR.jobs hj
  | cons jc rest =>
    have hjc : jc ∈ inst.jobs := by rw [hj]; simp
    have hne := hR.classic.jobsNonempty jc hjc
    cases ho : jc.ops with
    | nil => exact hne ho
    | cons oc _ =>
      have : oc ∈ allOps inst := by
        unfold allOps
        exact List.mem_flatMap.mpr ⟨jc, hjc, by rw [ho]; simp⟩
      rw [h] at this; cases this

/-- a terminated environment state holds a successful result -/
theorem envReach_terminated_success {e : EnvState} (h : EnvReach orc inst ec st s0 e) (ht : e.terminated = true) :
    e.res.success = true := by
  cases h with
  | reset hr =>
    unfold envReset at hr
    obtain ⟨⟨res, mw, r', mic'⟩, _, hr⟩ := except_bind_eq_ok hr
    simp at hr
    obtain ⟨rfl, _⟩ := hr
    simp at ht
  | step hprev hs =>
    unfold envStep at hs
    split at hs
    · simp at hs
    · obtain ⟨⟨res', mw, r, mic⟩, _, hs⟩ := except_bind_eq_ok hs
      simp only at hs
      obtain ⟨⟨rew, cnt⟩, _, hs⟩ := except_bind_eq_ok hs
      simp at hs; subst hs
      by_cases hsuc : res'.success = true
      · simp [hsuc]
      · simp [hsuc] at ht

/-- **Stage A – settledness.**  At every decision point of every episode of a classic run: every
AGV is idle, claims nothing and carries nothing; every machine is idle or working (a machine is never
caught in SETUP or OUTAGE: both take no time); and the full AGV invariant, readiness of the tables,
the classic invariant `CInv` and the duration invariant hold. -/
theorem c06_classic_settled (hR : ClassicRun orc inst ec st s0) {e : EnvState} (h : EnvReach orc inst ec st s0 e)
    (hne : e.res.possible ≠ []) :
    (∀ t ∈ e.res.state.transports, t.st = .idle ∧ t.job = none ∧ t.buffer.store = []) ∧
    (∀ m ∈ e.res.state.machines, m.st = .idle ∨ m.st = .working) ∧
    Bundle inst e.res.state ∧ DurInv inst e.res.state :=
  classic_settled hR h hne

/-- **No `env.step` of a classic run ever raises** – neither an exception of the state machine nor
running out of fuel – whatever the agent answers (accept or decline) in whatever state of whatever
episode; the result is successful, the episode is not truncated, and the returned environment state
again satisfies the hypotheses (so this iterates along every decision sequence until the shop is
finished). -/
theorem c06_classic_step_returns (hR : ClassicRun orc inst ec st s0) {e : EnvState} (h : EnvReach orc inst ec st s0 e)
    (hd : e.done = false) (hs : e.res.success = true) (hj : 0 ≤ e.mw.joker) (a : AgentAct)
    (ha : a = .accept ∨ a = .decline) :
    ∃ out, envStep orc inst ec st e a = .ok out ∧ EnvReach orc inst ec st s0 out.env ∧
      out.env.res.success = true ∧ 0 ≤ out.env.mw.joker ∧ out.env.truncated = false ∧
      out.env.done = isDone inst out.env.res.state :=
  classic_run_invariant hR h hd hs hj a ha

/-- … and `reset` returns, successfully, with the episode open -/
theorem c06_classic_reset_returns (hR : ClassicRun orc inst ec st s0) (r0 : Rng) :
    ∃ e0 mic, envReset orc inst ec s0 r0 = .ok (e0, mic) ∧ e0.res.success = true ∧ e0.done = false ∧
      0 ≤ e0.mw.joker :=
  classic_reset_returns hR r0

/-- **Stage B – a dispatch can always be completed.**  Accepting a dispatch at the head of the offers
returns, starts no operation, does not truncate, and – if the episode goes on – leaves the
environment at a decision point where again every AGV is idle, unclaimed and empty: the transport
(pickup, transit, delivery) was carried out completely inside the step. -/
theorem c06_dispatch_completes (hR : ClassicRun orc inst ec st s0) {e : EnvState} (h : EnvReach orc inst ec st s0 e)
    (hd : e.done = false) (hs : e.res.success = true) (hj : 0 ≤ e.mw.joker) {tr : Transition} {rest : List Transition}
    (hp : e.res.possible = tr :: rest) (hdisp : tr.new = .t .working) :
    ∃ out, envStep orc inst ec st e .accept = .ok out ∧ out.env.truncated = false ∧
      NoStartSince e.res.state out.env.res.state ∧
      (out.env.done = false → out.env.res.possible ≠ [] ∧
        ∀ t ∈ out.env.res.state.transports, t.st = .idle ∧ t.job = none ∧ t.buffer.store = []) :=
  classic_dispatch_accept hR h hd hs hj hp hdisp

/-- **Stage C – declining everything moves the clock to the earliest end of a running operation.**
Declining the last offer returns, starts nothing, and the forced jump it performs goes to a time `t`
strictly after now that is the end of a running operation and not later than the end of any running
operation (or `now + 1` when nothing runs); the clock of the returned state is at least `t`. -/
theorem c06_decline_all_advances (hR : ClassicRun orc inst ec st s0) {e : EnvState} (h : EnvReach orc inst ec st s0 e)
    (hd : e.done = false) (hs : e.res.success = true) (hj : 0 ≤ e.mw.joker) {tr : Transition}
    (hp : e.res.possible = [tr]) :
    ∃ out t, envStep orc inst ec st e .decline = .ok out ∧ out.env.truncated = false ∧
      NoStartSince e.res.state out.env.res.state ∧ forceJump e.res.state = .ok t ∧ e.res.state.time < t ∧
      (out.env.done = false → t ≤ out.env.res.state.time) ∧
      ((∃ j ∈ e.res.state.jobs, ∃ o ∈ j.ops, o.st = .processing ∧ o.stop = some t ∧
          ∀ j' ∈ e.res.state.jobs, ∀ o' ∈ j'.ops, o'.st = .processing → ∀ b, o'.stop = some b → t ≤ b) ∨
       ((∀ j ∈ e.res.state.jobs, ∀ o ∈ j.ops, o.st ≠ .processing) ∧ t = e.res.state.time + 1)) :=
  classic_decline_last hR h hd hs hj hp

/-- **Stage D – every event-aligned feasible schedule is reached exactly.**  For a classic run and a
target schedule `S` (`TargetOK`: feasible, every start 0 or the end of an operation) there is a list
of accept / decline decisions such that `reset` followed by these decisions never raises, ends in an
environment state that is terminated and not truncated, whose recorded schedule is `S` and whose
clock – the makespan `env.step` reports with `terminated` – is the makespan of `S`. -/
theorem c06_target_reachable (hR : ClassicRun orc inst ec st s0) {S : Nat → Nat → Int} (hT : TargetOK inst S) (r0 : Rng) :
    ∃ e0 mic acts e, envReset orc inst ec s0 r0 = .ok (e0, mic) ∧ envRun orc inst ec st e0 acts = .ok e ∧
      EnvReach orc inst ec st s0 e ∧ e.terminated = true ∧ e.truncated = false ∧
      planOf inst e.res.state = planOfTarget inst S ∧ e.res.state.time = targetMakespan inst S := by
  have hst := hR.start
  have hC := hR.classic
  obtain ⟨e0, mic, acts, e, hreset, hrun, hreach, hterm, htrunc, hdone, t, hsync⟩ :=
    steer hst hC hR.early hR.joker hR.numOps hT hR.jobs (stepIface hR hT) r0
  refine ⟨e0, mic, acts, e, hreset, hrun, hreach, hterm, htrunc, ?_, ?_⟩
  all_goals
    have hi := envReach_inv hst hreach
    have w := hR.wf
    have hall : ∀ j ∈ e.res.state.jobs, ∀ o ∈ j.ops, o.st = .done := by
      intro j hj
      have hl : j.loc ∈ outputIds inst := by
        unfold isDone at hdone
        exact List.contains_iff_mem.mp (List.all_eq_true.mp hdone j hj)
      exact hi.full.route.delivered j hj hl
    have hstart : ∀ j ∈ e.res.state.jobs, ∀ o ∈ j.ops, o.start = some (S o.job o.idx) := by
      intro j hj o ho
      exact hsync.started j hj o ho (by rw [hall j hj o ho]; simp)
  · exact planOf_eq_target w hi.struct.shape (fun oc hoc => by
      obtain ⟨d, hd, _⟩ := hC.posDur oc hoc; exact ⟨d, hd⟩) hstart
  · have hsuc := envReach_terminated_success hreach hterm
    exact final_time_eq_target w hC hi.struct hi.dur hall hstart (hi.stamp hsuc hdone)
      (envReach_terminated_attained hst hreach hterm) hR.allOps_ne hT.nonneg

/-- **every list schedule is reachable**: `π` a sequence of job ids in which every job occurs as often
as it has operations; the episode ends with the starts of `listStarts inst π` and its makespan -/
theorem c06_list_schedule_reachable (hR : ClassicRun orc inst ec st s0) {π : List Nat} (hπ : ValidOrder inst π)
    (r0 : Rng) :
    ∃ e0 mic acts e, envReset orc inst ec s0 r0 = .ok (e0, mic) ∧ envRun orc inst ec st e0 acts = .ok e ∧
      EnvReach orc inst ec st s0 e ∧ e.terminated = true ∧ e.truncated = false ∧
      planOf inst e.res.state = planOfTarget inst (listStarts inst π) ∧
      e.res.state.time = targetMakespan inst (listStarts inst π) :=
  c06_target_reachable hR (listStarts_targetOK hR.wf hR.classic.posDur hπ) r0

/-- **C06: the optimum is reachable.**  For every feasible schedule `p` of the instance
(`FeasiblePlan p C`, `p.proj = schedOf …`: the machines and durations are those of the instance) with
makespan at most `C`, some list of accept / decline decisions leads – without any exception – to a
terminated, not truncated episode whose reported makespan is at most `C`, and whose recorded schedule
is itself a feasible schedule of the instance. -/
theorem c06_optimum_reachable (hR : ClassicRun orc inst ec st s0) (r0 : Rng) {p : Plan} {C : Int}
    (hf : FeasiblePlan p C) {orc' : Oracle} {r' : Rng} (hproj : p.proj = schedOf orc' r' inst) :
    ∃ e0 mic acts e, envReset orc inst ec s0 r0 = .ok (e0, mic) ∧ envRun orc inst ec st e0 acts = .ok e ∧
      EnvReach orc inst ec st s0 e ∧ e.terminated = true ∧ e.truncated = false ∧ e.res.state.time ≤ C ∧
      FeasiblePlan (planOf inst e.res.state) e.res.state.time := by
  obtain ⟨π, hπ, hT, hle⟩ := feasible_dominated_target hR.wf hR.classic.posDur hf hproj (Or.inr hR.allOps_ne)
  obtain ⟨e0, mic, acts, e, h1, h2, h3, h4, h5, h6, h7⟩ := c06_target_reachable hR hT r0
  refine ⟨e0, mic, acts, e, h1, h2, h3, h4, h5, by rw [h7]; exact hle, ?_⟩
  rw [h6, h7]
  exact targetOK_feasible hR.wf hT

end

/-! ## the class is inhabited -/

namespace ExC

def ec : EnvCfg := ⟨{ allowEarly := false }, { jokerInit := 1000, truncActive := false },
  { sparseBias := 1, denseBias := 1, truncBias := 1 }, 40⟩

theorem run : ClassicRun ExT.orc0 inst ec ExT.st Ex.s0 where
  start := ⟨initOK.1, initOK.2.1, initOK.2.2.1, initOK.2.2.2, fun _ _ => Int.le_refl 0⟩
  classic := classicInstB_sound classic
  startOK := startOK
  early := rfl
  trunc := rfl
  joker := by decide
  numOps := by decide
  norm := by decide
  fuel := by decide
  jobs := by decide

/-- the example instance is classic, `[0, 1, 0, 1]` is a list order for it with makespan 6 – so some
decision list ends the episode terminated with makespan 6 (which is the lower bound: the optimum) -/
example : ∃ e0 mic acts e, envReset ExT.orc0 inst ec Ex.s0 ExT.r0 = .ok (e0, mic) ∧
    envRun ExT.orc0 inst ec ExT.st e0 acts = .ok e ∧ e.terminated = true ∧ e.truncated = false ∧
    e.res.state.time = 6 := by
  obtain ⟨e0, mic, acts, e, h1, h2, _, h4, h5, _, h7⟩ :=
    c06_list_schedule_reachable run (π := [0, 1, 0, 1]) (by decide) ExT.r0
  refine ⟨e0, mic, acts, e, h1, h2, h4, h5, ?_⟩
  rw [h7]
  decide

end ExC

/-- the start guard the driver evaluates on every classic scenario is the one of `ClassicRun` -/
theorem classicStart_guard_eq : classicStartModelB = classicStartB := rfl

/-- … and so is the fuel guard -/
theorem classicFuel_guard_eq (inst : Instance) (fuel : Nat) :
    classicFuelB inst fuel = true ↔ 3 * inst.machines.length + 5 * inst.transports.length + 2 ≤ fuel := by
  simp [classicFuelB]

end JSL
