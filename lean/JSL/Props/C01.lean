import JSL.Model.Step

/-!
# C01 — every schedule the environment produces is feasible

Part 1 (this file, re-checked against the regenerated tables on every run): the machine phase
cycle the code admits.  Part 2 (`JSL.Inv`): the schedule invariant along all executions.
-/

namespace JSL

/-- The validity table extracted from `MachineTransition().is_valid_transition` admits exactly the
cycle IDLE → SETUP → WORKING → OUTAGE → IDLE; in particular only an IDLE machine accepts a job. -/
theorem c01_machine_cycle_only (a b : MSt) :
    machineValid a b = true ↔
      (a = .idle ∧ b = .setup) ∨ (a = .setup ∧ b = .working) ∨ (a = .working ∧ b = .outage) ∨
      (a = .outage ∧ b = .idle) := by
  cases a <;> cases b <;> decide

/-- every table-valid machine transition has a handler, and the handler is the one for that edge -/
theorem c01_handler_total (a b : MSt) (h : machineValid a b = true) :
    machineHandler a b =
      (if a = .idle then some .idleToSetup else if a = .setup then some .setupToWorking
       else if a = .working then some .workingToOutage else some .outageToIdle) := by
  cases a <;> cases b <;> first | rfl | (exact absurd h (by decide))

/-- a due machine is moved along the cycle, never elsewhere -/
theorem c01_timed_follows_cycle (a b : MSt) (h : machineTimedNext a = some b) : machineValid a b = true := by
  cases a <;> cases b <;> first | rfl | (exact absurd h (by decide))

end JSL
