import JSL.Model.Step
import JSL.Inv.EnvReach
import JSL.Props.Example

/-!
# C01 — every schedule the environment produces is feasible

Part 1 (this file, re-checked against the regenerated tables on every run): the machine phase
cycle the code admits.  Part 2 (`JSL.Inv`): the schedule invariant along all executions.
-/

namespace JSL

/-- The validity table extracted from `MachineTransition().is_valid_transition` admits exactly the
cycle IDLE → SETUP → WORKING → OUTAGE → IDLE; in particular only an IDLE machine accepts a job. -/
theorem c01_machine_cycle_only (a b : MSt) :
    machineValid a b = true ↔
      (a = .idle ∧ b = .setup) ∨ (a = .setup ∧ b = .working) ∨ (a = .working ∧ b = .outage) ∨
      (a = .outage ∧ b = .idle) := by
  cases a <;> cases b <;> decide

/-- every table-valid machine transition has a handler, and the handler is the one for that edge -/
theorem c01_handler_total (a b : MSt) (h : machineValid a b = true) :
    machineHandler a b =
      (if a = .idle then some .idleToSetup else if a = .setup then some .setupToWorking
       else if a = .working then some .workingToOutage else some .outageToIdle) := by
  cases a <;> cases b <;> first | rfl | (exact absurd h (by decide))

/-- a due machine is moved along the cycle, never elsewhere -/
theorem c01_timed_follows_cycle (a b : MSt) (h : machineTimedNext a = some b) : machineValid a b = true := by
  cases a <;> cases b <;> first | rfl | (exact absurd h (by decide))

/-! ## Part 2 — along every execution -/

variable {orc : Oracle} {inst : Instance}

/-- **C01, state-machine level.**  Every state of every execution with admissible actions –
results, sub-states and the post-state of every applied transition – carries a feasible
schedule: operations are those specified, in order and non-overlapping within a job, and no
machine runs two operations at overlapping times. -/
theorem c01_feasible {cfg : SMConfig} {s0 σ : State} (hst : Start orc inst s0) (h : OccursA orc inst cfg s0 σ) :
    Feasible inst σ := by
  obtain ⟨w, hI, hS⟩ := occursA_inv hst h
  exact feasible_of_inv w hI hS

/-- the final result (shop done, clock stamped with the makespan) too -/
theorem c01_feasible_final {cfg : SMConfig} {s0 s : State} (hst : Start orc inst s0) (h : OccursA orc inst cfg s0 s)
    {a : Action} (ha : Admissible a) {fuel : Nat} {r r' : Rng} {res : SMResult} {mic : List State}
    (hstep : smStep orc inst cfg fuel s r a = .ok (res, r', mic)) : Feasible inst res.state := by
  obtain ⟨w, _, _⟩ := occursA_inv hst h
  obtain ⟨hI, t, hS⟩ := final_inv hst h ha hstep
  exact (feasible_of_inv (s := { res.state with time := t }) w (hI.time t) hS).of_time

/-- **C01, environment level: whatever the agent does.**  Every state the environment exposes
during any episode – after reset, after every `step` with any agent action, every sub-state and
the post-state of every transition applied inside a step – carries a feasible schedule. -/
theorem c01_env_feasible {ec : EnvCfg} {st : RewardStatic} {s0 σ : State} (hst : Start orc inst s0)
    (h : Exposed orc inst ec st s0 σ) : Feasible inst σ := by
  obtain ⟨w, hI, t, hS⟩ := exposed_inv hst h
  exact (feasible_of_inv (s := { σ with time := t }) w (hI.time t) hS).of_time

/-- a running operation and a machine: the job is on that machine and the machine is busy with it -/
theorem c01_running_on_busy {ec : EnvCfg} {st : RewardStatic} {s0 σ : State} (hst : Start orc inst s0)
    (h : Exposed orc inst ec st s0 σ) (j : JobState) (hj : j ∈ σ.jobs) (o : OpState) (ho : o ∈ j.ops)
    (hp : o.st = .processing) :
    ∃ m ∈ σ.machines, m.id = o.machine ∧ m.st ≠ .idle ∧ m.buffer.store = [j.id] := by
  obtain ⟨_, _, t, hS⟩ := exposed_inv hst h
  exact hS.procOnBusy j hj o ho hp

/-- the guard is satisfiable: the example instance and its initial state meet it -/
example : initOKB Ex.inst Ex.s0 = true ∧ restB Ex.s0 = true ∧ nonnegB Ex.inst = true := by decide

end JSL
