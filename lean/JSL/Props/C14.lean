import JSL.Lib.StepSpec
import JSL.Inv.EnvReach
import JSL.Inv.ObsSpace
import JSL.Inv.OpArraySpace

/-!
# C14 — the environment honours the Gymnasium contract

Action-space and episode-end part, and – for the `SimpleJssp`-based observation factories – that
the observation lies in the declared space: `maxOpsPerJob`, `maxOpsPerMachine` and the shapes are
the model of the declared `gym.spaces.Dict` (compared with the implementation's declared space on
the `B` line of every scenario; the `in=` flag of every `V` line compares the model's membership
test with the implementation's).
-/

namespace JSL

variable {orc : Oracle} {inst : Instance} {ec : EnvCfg} {st : RewardStatic}

/-- An action outside `Discrete(2)` is rejected with the dedicated error (while offers exist);
the model being a function, the episode `e` is unchanged. -/
theorem c14_reject (e : EnvState) (hd : e.done = false) (hp : e.res.possible ≠ []) :
    envStep orc inst ec st e .outside = .error .actionOutOfSpace := by
  unfold envStep mwStep interpret
  cases h : e.res.possible with
  | nil => exact absurd h hp
  | cons o rest => simp [hd]

/-- Stepping a finished episode raises the dedicated error, whatever the action. -/
theorem c14_done_raises (e : EnvState) (a : AgentAct) (hd : e.done = true) :
    envStep orc inst ec st e a = .error .envDone := by
  simp [envStep, hd]

/-- `reset` returns to the instance's initial situation with empty history and cleared flags,
independently of anything that happened before (it is a function of the compiled initial state). -/
theorem c14_reset_initial (s0 : State) (r : Rng) (e : EnvState) (mic : List State)
    (h : envReset orc inst ec s0 r = .ok (e, mic)) :
    e.histLen = 0 ∧ e.histNoOps = 0 ∧ e.terminated = false ∧ e.truncated = false ∧ e.done = false ∧
      e.mw.joker = ec.mw.jokerInit ∧ e.mw.actCnt = 0 ∧ e.mw.noOpCnt = 0 ∧ e.rwCnt = 0 := by
  unfold envReset mwReset at h
  simp only [except_pure] at h
  obtain ⟨⟨res, mw, r', mic'⟩, h1, h⟩ := except_bind_eq_ok h
  obtain ⟨⟨res2, r2, mic2⟩, _, h1⟩ := except_bind_eq_ok h1
  simp at h1 h
  obtain ⟨rfl, rfl, rfl, rfl⟩ := h1
  obtain ⟨rfl, rfl⟩ := h
  simp

/-- **The integer and boolean fields of every observation lie in the declared space**, with the
declared shapes: in every state an episode exposes (reset, then any agent actions), whenever the
factory returns, `job_running`, `available_jobs`, `job_executed_on_machine`, `machine_running` have
the declared shapes, and `job_progression` / `machine_progression` have the declared shapes and stay
within `[0, max_ops_per_job]` / `[0, max_ops_per_machine]`. -/
theorem c14_observation_integer_fields_in_space {s0 σ : State} (hst : Start orc inst s0)
    (h : Exposed orc inst ec st s0 σ) {tmax : Int} {o : SimpleObs}
    (ho : simpleObs inst.machines.length tmax σ = .ok o) :
    o.intFieldsInSpaceB inst.jobs.length inst.machines.length (maxOpsPerJob inst) (maxOpsPerMachine inst) = true :=
  simpleObs_int_fields_in_space (exposed_inv hst h).2.1.shape ho

/-- **The whole observation lies in the declared space** as long as the clock has not passed the
normalisation constant (`0 ≤ time ≤ max_allowed_time`); beyond it `current_time` exceeds 1 – the
recorded finding of C14. -/
theorem c14_observation_in_space {s0 σ : State} (hst : Start orc inst s0)
    (h : Exposed orc inst ec st s0 σ) {tmax : Int} {o : SimpleObs}
    (ho : simpleObs inst.machines.length tmax σ = .ok o) (h0 : 0 ≤ σ.time) (h1 : σ.time ≤ tmax) :
    o.inSpaceB inst.jobs.length inst.machines.length (maxOpsPerJob inst) (maxOpsPerMachine inst) = true :=
  simpleObs_in_space (exposed_inv hst h).1 (exposed_inv hst h).2.1.shape ho h0 h1

/-- past the normalisation constant the observation leaves the space (witness of the finding) -/
theorem c14_current_time_leaves_space : ∃ (s : State) (o : SimpleObs), simpleObs 0 5 s = .ok o ∧ o.timeInSpaceB = false :=
by
  refine ⟨{ jobs := [], time := 6, machines := [], transports := [], buffers := [] },
    { jobRunning := [], jobExecutedOnMachine := [], jobProgression := [], machineRunning := [],
      machineProgression := [], availableJobs := [], currentTime := 6 / 5 }, ?_, by decide +kernel⟩
  simp [simpleObs, sortById, List.mergeSort_nil, List.mapM_nil, List.foldlM_nil]

/-! ### operation-array factory and the offer encoding -/

/-- **`operation_state` lies in `[0,1]`** in every environment state of every episode (idle 0, done 1,
the elapsed fraction of an operation in progress – the clock lies within its interval). -/
theorem c14_operation_state_in_unit {s0 : State} (hst : Start orc inst s0) {e : EnvState}
    (he : EnvReach orc inst ec st s0 e) (ops locs : List Rat) (h : opArrayObs inst e.res.state = .ok (ops, locs)) :
    (∀ v ∈ ops, 0 ≤ v ∧ v ≤ 1) ∧ ops.length = (e.res.state.jobs.flatMap (·.ops)).length :=
  opArray_operation_state_env_all hst he ops locs h

/-- **`job_locations` lies in `[0,1]`** when the configured buffer ids are `0 … n-1` in some order (what
the compiler produces when it numbers every buffer itself); -/
theorem c14_job_locations_in_unit {s0 : State} (hst : Start orc inst s0) {e : EnvState}
    (he : EnvReach orc inst ec st s0 e)
    (hids : ((allBufCfgs inst).map (·.id)).Perm (List.range (allBufCfgs inst).length))
    (ops locs : List Rat) (h : opArrayObs inst e.res.state = .ok (ops, locs)) :
    (∀ v ∈ locs, 0 ≤ v ∧ v ≤ 1) ∧ locs.length = e.res.state.jobs.length :=
  opArray_job_locations_env hst he hids ops locs h

/-- …and exceeds 1 when a buffer id is beyond the number of buffers (witness of the recorded finding) -/
theorem c14_job_locations_leave_space :
    let inst : Instance := { jobs := [], travel := [], machines := [],
                             buffers := [default, { (default : BufCfg) with id := 5 }], transports := [] }
    let s : State := { jobs := [{ id := 0, ops := [], loc := 5 }], time := 0, machines := [],
                       transports := [], buffers := [default, { (default : BufState) with id := 5, store := [0] }] }
    opArrayMaxBuf inst = 1 ∧ (∃ j ∈ s.jobs, opArrayMaxBuf inst < (j.loc : Int)) ∧
    ∃ ops locs, opArrayObs inst s = .ok (ops, locs) ∧ ∃ v ∈ locs, 1 < v :=
  opArray_job_locations_exceed_witness

/-- **the offer encoding lies in `[0,1]³`** (and is `(1,1,1)` exactly for a finished episode) as long as
job numbers do not exceed the number of jobs -/
theorem c14_offer_encoding_in_unit (inst : Instance) (n : Nat) (res : SMResult) (done : Bool)
    (a b c : Rat) (h : currentTransition inst n res done = .ok (a, b, c))
    (hj : ∀ tr rest, res.possible = tr :: rest → ∀ j, tr.job = some j → j ≤ n) :
    (0 ≤ a ∧ a ≤ 1) ∧ (0 ≤ b ∧ b ≤ 1) ∧ (0 ≤ c ∧ c ≤ 1) ∧
    (done = true → a = 1 ∧ b = 1 ∧ c = 1) ∧ (done = false → a < 1) :=
  currentTransition_in_unit inst n res done a b c h hj

end JSL
