import JSL.Lib.StepSpec

/-!
# C14 — the environment honours the Gymnasium contract (action-space and episode-end part)
-/

namespace JSL

variable {orc : Oracle} {inst : Instance} {ec : EnvCfg} {st : RewardStatic}

/-- An action outside `Discrete(2)` is rejected with the dedicated error (while offers exist);
the model being a function, the episode `e` is unchanged. -/
theorem c14_reject (e : EnvState) (hd : e.done = false) (hp : e.res.possible ≠ []) :
    envStep orc inst ec st e .outside = .error .actionOutOfSpace := by
  unfold envStep mwStep interpret
  cases h : e.res.possible with
  | nil => exact absurd h hp
  | cons o rest => simp [hd]

/-- Stepping a finished episode raises the dedicated error, whatever the action. -/
theorem c14_done_raises (e : EnvState) (a : AgentAct) (hd : e.done = true) :
    envStep orc inst ec st e a = .error .envDone := by
  simp [envStep, hd]

/-- `reset` returns to the instance's initial situation with empty history and cleared flags,
independently of anything that happened before (it is a function of the compiled initial state). -/
theorem c14_reset_initial (s0 : State) (r : Rng) (e : EnvState) (mic : List State)
    (h : envReset orc inst ec s0 r = .ok (e, mic)) :
    e.histLen = 0 ∧ e.histNoOps = 0 ∧ e.terminated = false ∧ e.truncated = false ∧ e.done = false ∧
      e.mw.joker = ec.mw.jokerInit ∧ e.mw.actCnt = 0 ∧ e.mw.noOpCnt = 0 ∧ e.rwCnt = 0 := by
  unfold envReset mwReset at h
  simp only [except_pure] at h
  obtain ⟨⟨res, mw, r', mic'⟩, h1, h⟩ := except_bind_eq_ok h
  obtain ⟨⟨res2, r2, mic2⟩, _, h1⟩ := except_bind_eq_ok h1
  simp at h1 h
  obtain ⟨rfl, rfl, rfl, rfl⟩ := h1
  obtain ⟨rfl, rfl⟩ := h
  simp

end JSL
