import JSL.Inv.EnvReach
import JSL.Props.C02

/-!
# C09 — sequence-dependent setup times are always paid, using the right matrix entry

* `c09_setup_paid` – IDLE → SETUP reads the machine's matrix at (mounted tool, tool of the new
  operation) – from-tool first – occupies the machine until now + that time and mounts the new
  tool; the value is the configured constant or, for a stochastic entry, its current sample;
* `c09_only_idle_accepts` – the transition table admits a new job on an IDLE machine only, so
  during setup (and processing, and outage) the machine is unavailable to every other job;
* `c09_processing_after_setup` – SETUP → WORKING is only created once the setup time is up
  (`c02_never_early`) and in every execution it then fires exactly at that instant
  (`c02_on_time`): processing starts exactly the setup time after the job was accepted.
-/

namespace JSL

variable {orc : Oracle} {inst : Instance}

/-- the value `.time; update()` yields: the configured constant or the current sample -/
def TimeCfg.sampleCur (orc : Oracle) (r : Rng) : TimeCfg → Int
  | .det t => t
  | .stoch sid => orc sid (r sid)

theorem readUpd_fst (c : TimeCfg) (r : Rng) : (c.readUpd orc r).1 = c.sampleCur orc r := by
  cases c <;> rfl

/-- **Setup is paid, from-tool → to-tool.** -/
theorem c09_setup_paid {s s' : State} {r r' : Rng} {tr : Transition} {m : MachineState}
    (hm : m ∈ s.machines) (h : handleMachineIdleToSetup orc inst s r tr m = .ok (s', r')) :
    ∃ (j : JobState) (op : OpState) (oc : OpCfg) (mc : MachineCfg) (c : TimeCfg),
      j ∈ s.jobs ∧ tr.job = some j.id ∧ j.id ∈ m.pre.store ∧ j.nextNotDone? = some op ∧
      oc ∈ inst.jobs.flatMap (·.ops) ∧ oc.job = op.job ∧ oc.idx = op.idx ∧
      mc ∈ inst.machines ∧ mc.id = m.id ∧
      mc.setup.lookup (m.tool, oc.tool) = some c ∧
      ∃ m' ∈ s'.machines, m'.id = m.id ∧ m'.st = .setup ∧ m'.tool = oc.tool ∧
        m'.occ = some (s.time + c.sampleCur orc r) ∧ m'.buffer.store = m.buffer.store ++ [j.id] := by
  obtain ⟨j, op, oc, mc, sd, b1, b2, h1, h2, h3, h4, h5, h6, h7, h8, h9, _, ⟨c, hc, hsd⟩, hs'⟩ := idleToSetup_spec h
  have hd : sd = c.sampleCur orc r := by
    have := congrArg Prod.fst hsd; simp only at this; rw [this, readUpd_fst]
  subst hd
  refine ⟨j, op, oc, mc, c, h1, h2, h3, h4, h5, h6, h7, h8, h9, hc,
    m.toSetup j.id b1 b2 (s.time + c.sampleCur orc r) oc.tool, ?_, rfl, rfl, rfl, rfl, rfl⟩
  subst hs'
  simp only [State.replaceMachine]
  exact List.mem_map.mpr ⟨m, hm, by simp [MachineState.toSetup]⟩

/-- only an IDLE machine accepts a job: from SETUP, WORKING and OUTAGE the table admits exactly
the next phase of the cycle, and the transition into SETUP exists from IDLE only -/
theorem c09_only_idle_accepts (a : MSt) : machineValid a .setup = true ↔ a = .idle := by
  cases a <;> decide

/-- the setup phase ends exactly when the setup time is up: the SETUP → WORKING transition is
created only when due, and in every state of every execution a due machine is due exactly now,
so processing starts at (acceptance time + setup time) -/
theorem c09_processing_after_setup {cfg : SMConfig} {s0 σ : State} (hst : Start orc inst s0)
    (h : OccursA orc inst cfg s0 σ) {m : MachineState} (hm : m ∈ σ.machines) (hs : m.st = .setup)
    {tr : Transition} (ht : timedMachine inst σ.time m = .ok (some tr)) :
    m.occ = some σ.time ∧ tr.new = .m .working := by
  obtain ⟨_, _, hS⟩ := occursA_inv hst h
  have hb : m.st ≠ .idle := by rw [hs]; simp
  have hd := c02_never_early ht hb
  refine ⟨(c02_on_time hS hm hb hd).1, ?_⟩
  unfold timedMachine at ht
  simp only [hd, if_true, hs, machineTimedNext] at ht
  split at ht
  · simp at ht; subst ht; rfl
  · simp at ht

end JSL
