import JSL.Inv.EnvReach
import JSL.Props.C02
import JSL.Inv.SetupSep
import JSL.Inv.SetupStoch

/-!
# C09 — sequence-dependent setup times are always paid, using the right matrix entry

* `c09_setup_paid` – IDLE → SETUP reads the machine's matrix at (mounted tool, tool of the new
  operation) – from-tool first – occupies the machine until now + that time and mounts the new
  tool; the value is the configured constant or, for a stochastic entry, its current sample;
* `c09_only_idle_accepts` – the transition table admits a new job on an IDLE machine only, so
  during setup (and processing, and outage) the machine is unavailable to every other job;
* `c09_processing_after_setup` – SETUP → WORKING is only created once the setup time is up
  (`c02_never_early`) and in every execution it then fires exactly at that instant
  (`c02_on_time`): processing starts exactly the setup time after the job was accepted.

Composed over whole episodes (`Inv/Setup*.lean`, invariant `SetupInv` carried through every
handler): `c09_mounted_tool` (the mounted tool is the tool of the operation the machine processes /
processed last), `c09_setup_interval` (while a machine is in SETUP the record of the new operation
spans exactly the constant matrix entry (tool of the last operation → tool of the new one)), and
**`c09_consecutive_operations_separated`** – the "so" of the property: consecutive finished
operations of one machine are separated by at least the setup time, read from-tool → to-tool.
-/

namespace JSL

variable {orc : Oracle} {inst : Instance}

/-- the value `.time; update()` yields: the configured constant or the current sample -/
def TimeCfg.sampleCur (orc : Oracle) (r : Rng) : TimeCfg → Int
  | .det t => t
  | .stoch sid => orc sid (r sid)

theorem readUpd_fst (c : TimeCfg) (r : Rng) : (c.readUpd orc r).1 = c.sampleCur orc r := by
  cases c <;> rfl

/-- **Setup is paid, from-tool → to-tool.** -/
theorem c09_setup_paid {s s' : State} {r r' : Rng} {tr : Transition} {m : MachineState}
    (hm : m ∈ s.machines) (h : handleMachineIdleToSetup orc inst s r tr m = .ok (s', r')) :
    ∃ (j : JobState) (op : OpState) (oc : OpCfg) (mc : MachineCfg) (c : TimeCfg),
      j ∈ s.jobs ∧ tr.job = some j.id ∧ j.id ∈ m.pre.store ∧ j.nextNotDone? = some op ∧
      oc ∈ inst.jobs.flatMap (·.ops) ∧ oc.job = op.job ∧ oc.idx = op.idx ∧
      mc ∈ inst.machines ∧ mc.id = m.id ∧
      mc.setup.lookup (m.tool, oc.tool) = some c ∧
      ∃ m' ∈ s'.machines, m'.id = m.id ∧ m'.st = .setup ∧ m'.tool = oc.tool ∧
        m'.occ = some (s.time + c.sampleCur orc r) ∧ m'.buffer.store = m.buffer.store ++ [j.id] := by
  obtain ⟨j, op, oc, mc, sd, b1, b2, h1, h2, h3, h4, h5, h6, h7, h8, h9, _, ⟨c, hc, hsd⟩, hs'⟩ := idleToSetup_spec h
  have hd : sd = c.sampleCur orc r := by
    have := congrArg Prod.fst hsd; simp only at this; rw [this, readUpd_fst]
  subst hd
  refine ⟨j, op, oc, mc, c, h1, h2, h3, h4, h5, h6, h7, h8, h9, hc,
    m.toSetup j.id b1 b2 (s.time + c.sampleCur orc r) oc.tool, ?_, rfl, rfl, rfl, rfl, rfl⟩
  subst hs'
  simp only [State.replaceMachine]
  exact List.mem_map.mpr ⟨m, hm, by simp [MachineState.toSetup]⟩

/-- only an IDLE machine accepts a job: from SETUP, WORKING and OUTAGE the table admits exactly
the next phase of the cycle, and the transition into SETUP exists from IDLE only -/
theorem c09_only_idle_accepts (a : MSt) : machineValid a .setup = true ↔ a = .idle := by
  cases a <;> decide

/-- the setup phase ends exactly when the setup time is up: the SETUP → WORKING transition is
created only when due, and in every state of every execution a due machine is due exactly now,
so processing starts at (acceptance time + setup time) -/
theorem c09_processing_after_setup {cfg : SMConfig} {s0 σ : State} (hst : Start orc inst s0)
    (h : OccursA orc inst cfg s0 σ) {m : MachineState} (hm : m ∈ σ.machines) (hs : m.st = .setup)
    {tr : Transition} (ht : timedMachine inst σ.time m = .ok (some tr)) :
    m.occ = some σ.time ∧ tr.new = .m .working := by
  obtain ⟨_, _, hS⟩ := occursA_inv hst h
  have hb : m.st ≠ .idle := by rw [hs]; simp
  have hd := c02_never_early ht hb
  refine ⟨(c02_on_time hS hm hb hd).1, ?_⟩
  unfold timedMachine at ht
  simp only [hd, if_true, hs, machineTimedNext] at ht
  split at ht
  · simp at ht; subst ht; rfl
  · simp at ht

/-- the mounted tool of a busy machine is the tool of the operation it works on; of an idle one
the tool of the operation it finished last -/
theorem c09_mounted_tool {ec : EnvCfg} {st : RewardStatic} {s0 σ : State} (hst : Start orc inst s0)
    (h : Exposed orc inst ec st s0 σ) {m : MachineState} (hm : m ∈ σ.machines) :
    (m.st ≠ .idle → ∀ b, ProcOn (recs σ) m.id b → toolOf inst b = some m.tool) ∧
    (m.st = .idle → ∀ p, LastDoneOn σ m.id p → toolOf inst p = some m.tool) :=
  ⟨fun hms _ hb => mounted_busy hst h hm hms hb, fun hms _ hp => mounted_idle hst h hm hms hp⟩

/-- while a machine is in SETUP, the record of the new operation spans exactly the constant matrix
entry (tool of the operation finished last on it → tool of the new operation), and the machine is
occupied until then -/
theorem c09_setup_interval {ec : EnvCfg} {st : RewardStatic} {s0 σ : State} (hst : Start orc inst s0)
    (h : Exposed orc inst ec st s0 σ) {m : MachineState} (hm : m ∈ σ.machines) (hms : m.st = .setup)
    {b p : OpState} (hb : ProcOn (recs σ) m.id b) (hp : LastDoneOn σ m.id p) {d : Int} (hd : detSetup inst m.id p b d) :
    tE p ≤ tS b ∧ b.start = some (tS b) ∧ b.stop = some (tS b + d) ∧ m.occ = some (tS b + d) :=
  setup_interval hst h hm hms hb hp hd

/-- **Consecutive operations on one machine are separated by at least the setup time**, the matrix
read from-tool → to-tool: in every state an episode exposes, for finished operations `a`, `b` of one
machine, `a` ending no later than `b` starts (one of them of positive length), with no third finished
operation of that machine in between, and a constant entry `d` at (tool of `a`, tool of `b`):
`end(a) + d ≤ start(b)`. -/
theorem c09_consecutive_operations_separated {ec : EnvCfg} {st : RewardStatic} {s0 σ : State} (hst : Start orc inst s0)
    (h : Exposed orc inst ec st s0 σ)
    {ja jb : JobState} (hja : ja ∈ σ.jobs) (hjb : jb ∈ σ.jobs) {a b : OpState} (ha : a ∈ ja.ops) (hb : b ∈ jb.ops)
    (hda : a.st = .done) (hdb : b.st = .done) (hm : a.machine = b.machine)
    {sa ea sb eb : Int} (hsa : a.start = some sa) (hea : a.stop = some ea) (hsb : b.start = some sb) (heb : b.stop = some eb)
    (hab : ea ≤ sb) (hpos : sa < ea ∨ sb < eb)
    (hnone : ∀ jc ∈ σ.jobs, ∀ c ∈ jc.ops, c.st = .done → c.machine = b.machine → c ≠ a → c ≠ b →
      ∀ sc ec', c.start = some sc → c.stop = some ec' → ¬ (ea ≤ sc ∧ ec' ≤ sb))
    {mc : MachineCfg} (hmc : mc ∈ inst.machines) (hmcid : mc.id = b.machine)
    {ta tb : Nat} (hta : toolOf inst a = some ta) (htb : toolOf inst b = some tb)
    {d : Int} (hd : mc.setup.lookup (ta, tb) = some (.det d)) : ea + d ≤ sb :=
  setup_separates hst h hja hjb ha hb hda hdb hm hsa hea hsb heb hab hpos hnone hmc hmcid hta htb hd

/-- the same separation for a **stochastic** setup entry: the gap is at least one of its samples -/
theorem c09_consecutive_operations_separated_sampled {ec : EnvCfg} {st : RewardStatic} {s0 σ : State} (hst : Start orc inst s0)
    (h : Exposed orc inst ec st s0 σ)
    {ja jb : JobState} (hja : ja ∈ σ.jobs) (hjb : jb ∈ σ.jobs) {a b : OpState} (ha : a ∈ ja.ops) (hb : b ∈ jb.ops)
    (hda : a.st = .done) (hdb : b.st = .done) (hm : a.machine = b.machine)
    {sa ea sb eb : Int} (hsa : a.start = some sa) (hea : a.stop = some ea) (hsb : b.start = some sb) (heb : b.stop = some eb)
    (hab : ea ≤ sb) (hpos : sa < ea ∨ sb < eb)
    (hnone : ∀ jc ∈ σ.jobs, ∀ c ∈ jc.ops, c.st = .done → c.machine = b.machine → c ≠ a → c ≠ b →
      ∀ sc ec', c.start = some sc → c.stop = some ec' → ¬ (ea ≤ sc ∧ ec' ≤ sb))
    {mc : MachineCfg} (hmc : mc ∈ inst.machines) (hmcid : mc.id = b.machine)
    {ta tb : Nat} (hta : toolOf inst a = some ta) (htb : toolOf inst b = some tb)
    {sid : Nat} (hd : mc.setup.lookup (ta, tb) = some (.stoch sid)) : ∃ k, ea + orc sid k ≤ sb :=
  setup_separatesS hst h hja hjb ha hb hda hdb hm hsa hea hsb heb hab hpos hnone hmc hmcid hta htb hd

end JSL
