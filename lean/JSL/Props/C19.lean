import JSL.Model.Env
import JSL.Lib.Except
import Mathlib.Tactic.Linarith
import Mathlib.Tactic.FieldSimp
import Mathlib.Tactic.Ring
import Mathlib.Algebra.Order.Field.Rat

/-!
# C19 — reward is aligned with the objective

Theorems about `sparseReward`, `denseReward`, `rewardMake` (the model of
`rewards.BinaryActionJsspReward`), over exact rationals.
-/

namespace JSL

/-- the main term of the terminal reward as a function of the makespan -/
def mainTerm (st : RewardStatic) (makespan : Int) : Rat :=
  ((st.tmax - makespan : Int) : Rat) / ((st.tmax - st.lb : Int) : Rat)

/-- terminal, not truncated: the sparse reward is exactly the main term (when `T_max ≠ LB`) -/
theorem c19_terminal_value (rc : RewardCfg) (st : RewardStatic) (t : Int) (h : st.tmax - st.lb ≠ 0) :
    sparseReward rc st t true false = .ok (mainTerm st t) := by
  simp [sparseReward, mainTerm, h]

/-- the main term is computable from the instance alone and strictly decreasing in the makespan -/
theorem c19_strict_anti (st : RewardStatic) (h : st.lb < st.tmax) (m₁ m₂ : Int) (hm : m₁ < m₂) :
    mainTerm st m₂ < mainTerm st m₁ := by
  unfold mainTerm
  have hd : (0 : Rat) < ((st.tmax - st.lb : Int) : Rat) := by
    have : (0 : Int) < st.tmax - st.lb := by omega
    exact_mod_cast this
  apply div_lt_div_of_pos_right _ hd
  have : st.tmax - m₂ < st.tmax - m₁ := by omega
  exact_mod_cast this

/-- of two finished episodes the one with the smaller makespan never gets the smaller main term -/
theorem c19_anti (st : RewardStatic) (h : st.lb < st.tmax) (m₁ m₂ : Int) (hm : m₁ ≤ m₂) :
    mainTerm st m₂ ≤ mainTerm st m₁ := by
  rcases Int.lt_or_eq_of_le hm with h' | h'
  · exact le_of_lt (c19_strict_anti st h m₁ m₂ h')
  · subst h'; exact le_refl _

/-- the main term equals its nominal maximum 1 at the lower bound -/
theorem c19_at_lb (st : RewardStatic) (h : st.lb < st.tmax) : mainTerm st st.lb = 1 := by
  unfold mainTerm
  have hd : ((st.tmax - st.lb : Int) : Rat) ≠ 0 := by
    have : st.tmax - st.lb ≠ 0 := by omega
    exact_mod_cast this
  exact div_self hd

/-- a makespan that is at least the lower bound gives a main term of at most 1 -/
theorem c19_le_one (st : RewardStatic) (h : st.lb < st.tmax) (m : Int) (hm : st.lb ≤ m) :
    mainTerm st m ≤ 1 := by
  rw [← c19_at_lb st h]; exact c19_anti st h _ _ hm

private theorem dense_bounds (x : Int) (hx0 : 0 ≤ x) (hx1 : x ≤ 1) (n d : Rat) (hn : 0 < n) (hd : 0 ≤ d) :
    -d / n ≤ (-(x : Rat)) / n * d ∧ (-(x : Rat)) / n * d ≤ 0 := by
  have e : (-(x : Rat)) / n * d = -((x : Rat) * d) / n := by ring
  have hx0' : (0 : Rat) ≤ (x : Rat) := by exact_mod_cast hx0
  have hx1' : (x : Rat) ≤ 1 := by exact_mod_cast hx1
  rw [e]
  constructor
  · rw [div_le_div_iff_of_pos_right hn]; nlinarith
  · apply div_nonpos_of_nonpos_of_nonneg _ (le_of_lt hn); nlinarith

/-- the shaping term is `-x / #ops` with `x ∈ {0, 1}` -/
theorem denseReward_form (st : RewardStatic) (cnt : Nat) (res : SMResult) (d : Rat) (cnt' : Nat)
    (h : denseReward st cnt res = .ok (d, cnt')) :
    ∃ x : Int, 0 ≤ x ∧ x ≤ 1 ∧ d = (-(x : Rat)) / (st.numOps : Rat) ∧ st.numOps ≠ 0 := by
  unfold denseReward at h
  by_cases hn : st.numOps = 0
  · simp [hn] at h
  · simp only [hn, if_false, except_pure, Except.ok.injEq, Prod.mk.injEq] at h
    refine ⟨_, ?_, ?_, h.1.symm, hn⟩ <;> split <;> omega

/-- non-final steps yield only the bounded non-positive shaping term -/
theorem c19_nonfinal_bounds (rc : RewardCfg) (st : RewardStatic) (cnt : Nat) (res : SMResult)
    (hd : 0 ≤ rc.denseBias) (r : Rat) (cnt' : Nat)
    (h : rewardMake rc st cnt res false false = .ok (r, cnt')) :
    -rc.denseBias / (st.numOps : Rat) ≤ r ∧ r ≤ 0 := by
  unfold rewardMake sparseReward at h
  simp only [Bool.false_eq_true, if_false, Bool.not_false, if_true, except_pure, except_bind_ok] at h
  obtain ⟨⟨d, c⟩, hdr, h⟩ := except_bind_eq_ok h
  simp only [Except.ok.injEq, Prod.mk.injEq, zero_mul, zero_add] at h
  obtain ⟨hr, hc⟩ := h
  subst hr
  obtain ⟨x, hx0, hx1, hdx, hn⟩ := denseReward_form st cnt res d c hdr
  subst hdx
  have hpos : (0 : Rat) < (st.numOps : Rat) := by
    have : 0 < st.numOps := Nat.pos_of_ne_zero hn
    exact_mod_cast this
  exact dense_bounds x hx0 hx1 _ _ hpos hd

/-- truncation yields the configured truncation reward (plus the shaping term) -/
theorem c19_trunc (rc : RewardCfg) (st : RewardStatic) (cnt : Nat) (res : SMResult) (term : Bool)
    (hs : rc.sparseBias ≠ 0) (r : Rat) (cnt' : Nat) (d : Rat)
    (hdense : denseReward st cnt res = .ok (d, cnt'))
    (h : rewardMake rc st cnt res term true = .ok (r, cnt')) :
    r = rc.truncBias + d * rc.denseBias := by
  unfold rewardMake sparseReward at h
  simp [hs, hdense] at h
  rw [← h]

/-- the terminal reward is NOT finite for every accepted instance: with `T_max = LB`
    (e.g. zero-duration operations) the model – like the code – divides by zero -/
theorem c19_zero_div_witness (rc : RewardCfg) (st : RewardStatic) (t : Int) (h : st.tmax = st.lb) :
    sparseReward rc st t true false = .error .zeroDivision := by
  simp [sparseReward, h]

/-- non-vacuity: a concrete instance summary satisfying the hypotheses of the theorems above -/
example : (⟨55, 40, 3, 9⟩ : RewardStatic).lb < (⟨55, 40, 3, 9⟩ : RewardStatic).tmax := by decide

end JSL
