import JSL.Props.Example
import JSL.Model.Classic
import JSL.Inv.ClassicDefs

/-!
A classic instance: the example instance with a travel matrix that answers 0 between any two places.
-/

namespace JSL.ExC

def inst : Instance :=
  { Ex.inst with travel := (locsOf Ex.inst).flatMap fun a => (locsOf Ex.inst).map fun b => ((a, b), TimeCfg.det 0) }

theorem classic : classicInstB inst = true := by decide

theorem startOK : classicStartB inst Ex.s0 = true := by decide

theorem initOK : initOKB inst Ex.s0 = true ∧ restB Ex.s0 = true ∧ placedB inst Ex.s0 = true ∧ nonnegB inst = true := by
  decide

end JSL.ExC
