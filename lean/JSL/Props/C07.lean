import JSL.Inv.EnvReach
import JSL.Props.Example
import JSL.Inv.TravelStoch

/-!
# C07 — transport takes the configured travel time and never moves an unready job

Per transition (every execution applies exactly these handlers):

* `c07_dispatch` – IDLE → WORKING: the AGV reaches the pickup point at now + travel(where it
  stands → component holding the job), destination = machine of the job's next idle operation,
  or the output buffer when no operation is idle;
* `c07_pickup_only_when_ready` – a pickup (→ TRANSIT) is only ever created for a job that is ready:
  it lies in a post-buffer or standalone buffer at the release position, not in a machine, and no
  operation of it is being processed;
* `c07_transit_time` – WAITINGPICKUP → TRANSIT: arrival = now + travel(source → destination), the
  matrix entry read in that direction (freshly sampled if stochastic), job moved into the AGV;
* `c07_delivery` – TRANSIT → OUTAGE: the job joins the back of the destination machine's pre-buffer
  or of the output buffer, the AGV stands at the destination and no longer claims the job;
* `c07_arrival_on_time` – in every execution a busy AGV's arrival time is never in the past, so
  the delivery (created only when due) fires exactly at the arrival time.

Composed over whole episodes: `c07_route_destination` (where a claimed job is taken) and
**`c07_start_after_predecessor_plus_travel`** – the "hence" of the property: an operation never
starts earlier than its predecessor's end plus the (constant) travel time between the two machines.
-/

namespace JSL

variable {orc : Oracle} {inst : Instance}

/-- **Dispatch.** -/
theorem c07_dispatch {s s' : State} {r r' : Rng} {tr : Transition} {t : TransportState} (ht : t ∈ s.transports)
    (h : handleAgvIdleToWorking orc inst s r tr t = .ok (s', r')) :
    ∃ (j : JobState) (cur target src : Loc) (bc : BufCfg) (c : TimeCfg),
      j ∈ s.jobs ∧ tr.job = some j.id ∧ t.loc = .at cur ∧
      -- destination: output buffer iff no operation is idle, else the next idle operation's machine
      ((j.noOpIdle = true ∧ ∃ o, firstOutput inst = .ok o ∧ target = .b o) ∨
       (j.noOpIdle = false ∧ ∃ op, j.nextIdle? = some op ∧ target = .m op.machine)) ∧
      -- source: the component whose buffer holds the job
      bc ∈ allBufCfgs inst ∧ bc.id = j.loc ∧
      (bc.parent = none ∧ src = .b j.loc ∨ ∃ mid, bc.parent = some (.m mid) ∧ src = .m mid) ∧
      -- travel time: the matrix entry (where the AGV stands → source)
      inst.travel.lookup (cur, src) = some c ∧
      ∃ t' ∈ s'.transports, t'.id = t.id ∧ t'.st = .pickup ∧ t'.job = some j.id ∧
        t'.occ = .at (s.time + c.cur orc r) ∧ t'.loc = .route cur bc.id target ∧ t'.buffer = t.buffer := by
  obtain ⟨j, cur, target, src, bc, c, h1, h2, h3, h4, h5, h6, h7, h8, _, rfl⟩ := idleToWorking_spec h
  refine ⟨j, cur, target, src, bc, c, h1, h2, h3, h4, h5, h6, h7, h8,
    t.toPickup cur bc.id target (s.time + c.cur orc r) j.id, ?_, rfl, rfl, rfl, rfl, rfl, rfl⟩
  simp only [State.replaceTransport]
  exact List.mem_map.mpr ⟨t, ht, by simp [TransportState.toPickup]⟩

/-- **Never an unready job.**  The transitions `create_timed_transport_transitions` builds in a
state of any execution: one into TRANSIT exists only for a job that is ready for pickup – it is
in no machine's internal or pre-buffer and none of its operations is being processed. -/
theorem c07_pickup_only_when_ready {cfg : SMConfig} {s0 σ : State} (hst : Start orc inst s0)
    (h : OccursA orc inst cfg s0 σ) {t : TransportState} (ht : t ∈ σ.transports) {tr : Transition}
    (hc : timedTransport inst σ t = .ok (some tr)) (hn : tr.new = .t .transit) :
    ∃ j ∈ σ.jobs, tr.job = some j.id ∧ readyForPickup inst σ j = .ok true ∧
      (∀ m ∈ σ.machines, m.buffer.id ≠ j.loc ∧ m.pre.id ≠ j.loc) ∧ (∀ o ∈ j.ops, o.st ≠ .processing) := by
  obtain ⟨w, hI, hS⟩ := occursA_inv hst h
  obtain ⟨j, hj, htj, hr⟩ := (timedTransport_spec hS ht hc).2 hn
  exact ⟨j, hj, htj, hr, ready_facts w hI hS hj hr⟩

/-- a parked time dependency never leads straight into TRANSIT: what is parked is always a
"keep waiting" transition, so readiness is re-examined before every pickup -/
theorem c07_dependency_rechecks {cfg : SMConfig} {s0 σ : State} (hst : Start orc inst s0)
    (h : OccursA orc inst cfg s0 σ) {t : TransportState} (ht : t ∈ σ.transports) {b j : Nat} {tr : Transition}
    (ho : t.occ = .dep b j tr) : tr.new = .t .waitingpickup :=
  (occursA_inv hst h).2.2.depWaiting t ht b j tr ho

/-- **Transit time.** -/
theorem c07_transit_time {s s' : State} {r r' : Rng} {tr : Transition} {t : TransportState} (ht : t ∈ s.transports)
    (h : handleAgvPickupToTransit orc inst s r tr t = .ok (s', r')) :
    ∃ (j : JobState) (src dst : Loc) (c : TimeCfg) (tt : Int),
      j ∈ s.jobs ∧ tr.job = some j.id ∧
      ((j.noOpIdle = true ∧ ∃ o, firstOutput inst = .ok o ∧ dst = .b o) ∨
       (j.noOpIdle = false ∧ ∃ op, j.nextNotDone? = some op ∧ dst = .m op.machine)) ∧
      (src = .b j.loc ∧ machineIdOfBuffer inst.machines j.loc = none ∨
       ∃ mid, src = .m mid ∧ machineIdOfBuffer inst.machines j.loc = some mid) ∧
      inst.travel.lookup (src, dst) = some c ∧ (tt, r') = c.updRead orc r ∧
      ∃ t' ∈ s'.transports, t'.id = t.id ∧ t'.st = .transit ∧ t'.occ = .at (s.time + tt) ∧
        t'.buffer.store = t.buffer.store ++ [j.id] ∧
        ∃ j' ∈ s'.jobs, j'.id = j.id ∧ j'.loc = t.buffer.id := by
  obtain ⟨j, src, dst, tt, b1, b2, h1, h2, h3, h4, _, hcase⟩ := pickupToTransit_spec h
  have hc : ∃ c, inst.travel.lookup (src, dst) = some c ∧ (tt, r') = c.updRead orc r := by
    unfold travelTimeFromSpec travelCfg at h4
    split at h4
    · simp at h4
    · cases hl : inst.travel.lookup (src, dst) with
      | none => simp [hl] at h4
      | some c => simp [hl] at h4; exact ⟨c, rfl, by simp [← h4]⟩
  obtain ⟨c, hc1, hc2⟩ := hc
  have hsrc : (src = .b j.loc ∧ machineIdOfBuffer inst.machines j.loc = none ∨
       ∃ mid, src = .m mid ∧ machineIdOfBuffer inst.machines j.loc = some mid) := by
    rcases hcase with ⟨fb, e1, e2, _⟩ | ⟨mid, ms, bs, ms', e1, e2, _⟩
    · exact Or.inl ⟨e1, e2⟩
    · exact Or.inr ⟨mid, e1, e2⟩
  refine ⟨j, src, dst, c, tt, h1, h2, h3, hsrc, hc1, hc2, t.toTransit (s.time + tt) j.id b2, ?_, rfl, rfl, rfl, rfl,
    j.at t.buffer.id, ?_, rfl, rfl⟩
  · rcases hcase with ⟨fb, _, _, _, _, _, rfl⟩ | ⟨mid, ms, bs, ms', _, _, _, _, _, _, _, rfl⟩ <;>
      exact List.mem_map.mpr ⟨t, ht, by simp [TransportState.toTransit]⟩
  · rcases hcase with ⟨fb, _, _, _, _, _, rfl⟩ | ⟨mid, ms, bs, ms', _, _, _, _, _, _, _, rfl⟩ <;>
      exact List.mem_map.mpr ⟨j, h1, by simp [JobState.at]⟩

/-- **Delivery.** -/
theorem c07_delivery {s s' : State} {r r' : Rng} {tr : Transition} {t : TransportState} (ht : t ∈ s.transports)
    (h : handleAgvTransitToOutage orc inst s r tr t = .ok (s', r')) :
    ∃ (j : JobState) (cur : Loc) (pick : Nat) (drop : Loc),
      j ∈ s.jobs ∧ tr.job = some j.id ∧ t.loc = .route cur pick drop ∧ j.id ∈ t.buffer.store ∧
      (∃ t' ∈ s'.transports, t'.id = t.id ∧ t'.st = .outage ∧ t'.loc = .at drop ∧ t'.job = none ∧
          t'.buffer.store = t.buffer.store.filter (· != j.id)) ∧
      ((∃ ms ∈ s.machines, drop = .m ms.id ∧ ∃ ms' ∈ s'.machines, ms'.id = ms.id ∧
            ms'.pre.store = ms.pre.store ++ [j.id] ∧ ∃ j' ∈ s'.jobs, j'.id = j.id ∧ j'.loc = ms.pre.id) ∨
       (∃ b ∈ s.buffers, drop = .b b.id ∧ ∃ b' ∈ s'.buffers, b'.id = b.id ∧
            b'.store = b.store ++ [j.id] ∧ ∃ j' ∈ s'.jobs, j'.id = j.id ∧ j'.loc = b.id)) := by
  obtain ⟨j, cur, pick, drop, tc, outs, b1, b2, h1, h2, h3, h4, _, _, _, hcase⟩ := transitToOutage_spec h
  refine ⟨j, cur, pick, drop, h1, h2, h3, h4, ?_, ?_⟩
  · refine ⟨t.toOutage j.id b1 outs (s.time + occupiedFor outs) drop, ?_, rfl, rfl, rfl, rfl, rfl⟩
    rcases hcase with ⟨mid, ms, _, _, _, _, rfl⟩ | ⟨bid, b, _, _, _, _, rfl⟩ <;>
      exact List.mem_map.mpr ⟨t, ht, by simp [TransportState.toOutage]⟩
  · rcases hcase with ⟨mid, ms, e1, hms, e2, _, rfl⟩ | ⟨bid, b, e1, hb, e2, _, rfl⟩
    · left
      subst e2
      refine ⟨ms, hms, e1, ms.withPre j.id b2, ?_, rfl, rfl, j.at ms.pre.id, ?_, rfl, rfl⟩
      · exact List.mem_map.mpr ⟨ms, hms, by simp [MachineState.withPre]⟩
      · exact List.mem_map.mpr ⟨j, h1, by simp [JobState.at]⟩
    · right
      subst e2
      refine ⟨b, hb, e1, b.withBack j.id b2, ?_, rfl, rfl, j.at b.id, ?_, rfl, rfl⟩
      · exact List.mem_map.mpr ⟨b, hb, by simp⟩
      · exact List.mem_map.mpr ⟨j, h1, by simp [JobState.at]⟩

/-- **Arrival on time.**  In every state of every execution a busy AGV's arrival / waiting time
is not in the past; the timed transition that ends its phase is created only when that time has
been reached – hence exactly then. -/
theorem c07_arrival_on_time {cfg : SMConfig} {s0 σ : State} (hst : Start orc inst s0)
    (h : OccursA orc inst cfg s0 σ) {t : TransportState} (ht : t ∈ σ.transports) (hb : t.st ≠ .idle)
    {o : Int} (ho : t.occ = .at o) :
    σ.time ≤ o ∧ (∀ tr, timedTransport inst σ t = .ok (some tr) → o = σ.time) := by
  obtain ⟨_, _, hS⟩ := occursA_inv hst h
  have hle := hS.agvPending t ht hb o ho
  refine ⟨hle, ?_⟩
  intro tr hc
  unfold timedTransport at hc
  rw [ho] at hc
  simp only at hc
  split at hc
  · omega
  · simp at hc

/-- **Where a claimed job is taken.**  In every state the environment exposes, an AGV that has
claimed a job is routed to the machine of that job's next idle operation, or – exactly when no
operation of the job is idle any more – to the output buffer; and the job an AGV carries is the
job it claimed. -/
theorem c07_route_destination {ec : EnvCfg} {st : RewardStatic} {s0 σ : State} (hst : Start orc inst s0)
    (h : Exposed orc inst ec st s0 σ) (t : TransportState) (ht : t ∈ σ.transports) (j : JobState) (hj : j ∈ σ.jobs)
    (hc : t.job = some j.id) :
    (∃ cur pick drop, t.loc = .route cur pick drop ∧
      ((j.noOpIdle = true ∧ ∃ o, firstOutput inst = .ok o ∧ drop = .b o) ∨
       (j.noOpIdle = false ∧ ∃ op, j.nextIdle? = some op ∧ drop = .m op.machine))) ∧
    (t.st = .transit → t.buffer.store = [j.id]) := by
  have hR := exposed_route hst h
  have hA := exposed_agv hst h
  refine ⟨hR.route t ht j.id hc j hj rfl, ?_⟩
  intro hst'
  obtain ⟨j', _, hstore⟩ := hA.holds t ht hst'
  have := hR.transitOwn t ht hst' j'.id (by rw [hstore]; simp)
  rw [hc] at this
  simp at this
  rw [hstore, this]

/-- **An operation never starts earlier than its predecessor's end plus the travel time between
the two machines.**  In every state an episode exposes (reset, then any agent actions; sub-states
and the post-state of every applied transition included): for consecutive operations `a`, `b` of a
job, `a` finished at `e`, `b` started at `x` (its setup, once it is processed its processing), and
a constant travel time `d` configured from `a`'s machine to `b`'s machine – the matrix entry for the
direction actually travelled – `e + d ≤ x`.  (Proved from the invariant that, before `b` starts, the
job lies in the post-buffer of `a`'s machine, or on an AGV that arrives no earlier than `e + d`, or
in the pre-buffer of `b`'s machine at a time no earlier than `e + d`: `Inv/Travel.lean`.) -/
theorem c07_start_after_predecessor_plus_travel {ec : EnvCfg} {st : RewardStatic} {s0 σ : State} (hst : Start orc inst s0)
    (h : Exposed orc inst ec st s0 σ) (j : JobState) (hj : j ∈ σ.jobs) (a b : OpState) (l1 l2 : List OpState)
    (hadj : j.ops = l1 ++ a :: b :: l2) (ha : a.st = .done) (e : Int) (he : a.stop = some e) (d : Int)
    (hd : travelCfg inst (.m a.machine) (.m b.machine) = some (.det d)) (hb : b.st ≠ .idle) (x : Int)
    (hx : b.start = some x) : e + d ≤ x :=
  exposed_travel hst h j hj a b ⟨l1, l2, hadj⟩ ha e he d hd hb x hx

/-- non-vacuity: the example instance has a constant travel time between its machines -/
example : travelCfg Ex.inst (.m 0) (.m 1) = some (.det 2) := by decide

/-- the same for a **stochastic** travel entry: the gap is at least one of the object's samples
`orc sid k`, `k ≥ 1` – the value drawn by the `update()` at pickup -/
theorem c07_start_after_predecessor_plus_sampled_travel {ec : EnvCfg} {st : RewardStatic} {s0 σ : State}
    (hst : Start orc inst s0) (h : Exposed orc inst ec st s0 σ) (j : JobState) (hj : j ∈ σ.jobs) (a b : OpState)
    (l1 l2 : List OpState) (hadj : j.ops = l1 ++ a :: b :: l2) (ha : a.st = .done) (e : Int) (he : a.stop = some e)
    (sid : Nat) (hd : travelCfg inst (.m a.machine) (.m b.machine) = some (.stoch sid)) (hb : b.st ≠ .idle) (x : Int)
    (hx : b.start = some x) : ∃ k, 1 ≤ k ∧ e + orc sid k ≤ x :=
  exposed_travelS hst h j hj a b ⟨l1, l2, hadj⟩ ha e he sid hd hb x hx

end JSL
