import JSL.Model.Env

/-!
# Observation factories

Mirror of `observations.SimpleJsspObservationFactory`, `BinaryActionObservationFactory`,
`OperationArrayObservation`, `BinaryOperationArrayObservation`.  All numeric entries are exact
rationals; float32 rounding is not modelled.
-/

namespace JSL

/-- Python's `sorted(xs, key=lambda x: get_id_int(x.id))`: stable sort by the numeric id -/
def sortById {α} (id : α → Nat) (l : List α) : List α :=
  l.mergeSort fun a b => decide (id a ≤ id b)

/-- the order the factory used before the repair (`key=lambda x: x.id`): lexicographic order of
    the decimal renderings of the numbers (the prefix is shared); kept for the regression theorem -/
def idStrLe (a b : Nat) : Bool := toString a ≤ toString b

def sortByIdStr {α} (id : α → Nat) (l : List α) : List α :=
  l.mergeSort fun a b => idStrLe (id a) (id b)

structure SimpleObs where
  jobRunning : List Bool
  jobExecutedOnMachine : List (List Bool)
  jobProgression : List Nat
  machineRunning : List Bool
  machineProgression : List Nat
  availableJobs : List Bool
  currentTime : Rat
  deriving Repr, Inhabited

def listSet? {α} (l : List α) (i : Nat) (a : α) : Except Err (List α) :=
  if i < l.length then pure (l.set i a) else throw .indexError

/-- `SimpleJsspObservationFactory.make` -/
def simpleObs (numMachines : Nat) (tmax : Int) (s : State) : Except Err SimpleObs := do
  let jobs := sortById (·.id) s.jobs
  let jobRunning := jobs.map (·.running)
  let avail ← jobs.mapM fun j => do
    let hasIdle := j.ops.any (·.st == .idle)
    if !hasIdle then pure false   -- `and` short-circuits before indexing
    else match jobRunning[j.id]? with
      | some b => pure (!b)
      | none => throw .indexError
  let exec ← jobs.mapM fun j =>
    (j.ops.filter (·.st == .done)).foldlM (fun acc o => listSet? acc o.machine true)
      (List.replicate numMachines false)
  let prog ← jobs.foldlM (fun acc j => listSet? acc j.id (j.ops.filter (·.st == .done)).length)
      (List.replicate jobs.length 0)
  let machines := sortById (·.id) s.machines
  let mrun := machines.map (·.st == .working)
  let mprog := machines.map fun m =>
    ((jobs.flatMap (·.ops)).filter fun o => o.machine == m.id && o.st == .done).length
  if tmax = 0 then throw .zeroDivision
  pure { jobRunning := jobRunning, jobExecutedOnMachine := exec, jobProgression := prog,
         machineRunning := mrun, machineProgression := mprog, availableJobs := avail,
         currentTime := (s.time : Rat) / (tmax : Rat) }

/-- the `current_transition` triple of the binary factories -/
def currentTransition (inst : Instance) (numJobsDen : Nat) (res : SMResult) (done : Bool) :
    Except Err (Rat × Rat × Rat) :=
  if done then pure (1, 1, 1) else
  match res.possible with
  | [] => throw .invalidValue
  | tr :: _ => do
    if numJobsDen = 0 then throw .zeroDivision
    let jobNum : Nat := match tr.job with | some j => j | none => numJobsDen
    let comps : List Comp := inst.machines.map (fun m => Comp.m m.id) ++ inst.transports.map (fun t => Comp.t t.id)
    let idx ← match comps.idxOf? tr.comp with | some i => pure i | none => throw .invalidValue
    let code : Nat := match tr.comp with | .m _ => typeCode100 0 | .t _ => typeCode100 1 | .b _ => typeCode100 2
    pure ((idx : Rat) / (comps.length : Rat), (jobNum : Rat) / (numJobsDen : Rat), (code : Rat) / 100)

/-- `OperationArrayObservation.make` -/
def opArrayObs (inst : Instance) (s : State) : Except Err (List Rat × List Rat) := do
  let ops ← (s.jobs.flatMap (·.ops)).mapM fun o =>
    match o.st with
    | .idle => pure (0 : Rat)
    | .done => pure 1
    | .processing =>
      match o.start, o.stop with
      | some a, some b =>
        if b - a = 0 then throw .zeroDivision
        else pure (((s.time - a : Int) : Rat) / ((b - a : Int) : Rat))
      | _, _ => throw .typeError
    | .transport => throw .notImplemented
  let maxBuf : Int := (inst.buffers.length + inst.machines.length * 3 + inst.transports.length : Nat) - 1
  let locs ← s.jobs.mapM fun j =>
    if maxBuf = 0 then throw .zeroDivision else pure ((j.loc : Rat) / (maxBuf : Rat))
  pure (ops, locs)

end JSL
