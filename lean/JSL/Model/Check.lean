import JSL.Model.Utils

/-!
# Decidable guards: well-formedness of an instance, admissibility of an initial state

Boolean versions of the hypotheses of the theorems (`WF`, `Shape`, `Conserved`, `CapOK`), evaluated by
the driver on every generated instance (so the evidence can say how often the theorems'
hypotheses hold on what the compiler produces) and proved sound in `JSL.Inv.Init`.
-/

namespace JSL

def nodupB (l : List Nat) : Bool := decide l.Nodup

def wfB (inst : Instance) : Bool :=
  nodupB (inst.jobs.map (·.id)) && nodupB (inst.machines.map (·.id)) && nodupB (inst.transports.map (·.id)) &&
  nodupB ((allBufCfgs inst).map (·.id)) &&
  inst.jobs.all (fun j => j.ops.all (fun o => o.job == j.id) && nodupB (j.ops.map (·.idx)) &&
    j.ops.all (fun o => inst.machines.any (fun m => m.id == o.machine)))

def shapeB (inst : Instance) (s : State) : Bool :=
  decide (s.jobs.map (fun j => (j.id, j.ops.map fun o => (o.job, o.idx, o.machine))) =
          inst.jobs.map (fun j => (j.id, j.ops.map fun o => (o.job, o.idx, o.machine)))) &&
  decide (s.machines.map (fun m => (m.id, m.pre.id, m.buffer.id, m.post.id)) =
          inst.machines.map (fun m => (m.id, m.pre.id, m.buf.id, m.post.id))) &&
  decide (s.transports.map (fun t => (t.id, t.buffer.id)) = inst.transports.map (fun t => (t.id, t.buf.id))) &&
  decide (s.buffers.map (·.id) = inst.buffers.map (·.id))

def conservedB (s : State) : Bool :=
  (allBufStates s).all (fun b => nodupB b.store &&
    b.store.all (fun x => s.jobs.any (fun j => j.id == x && j.loc == b.id))) &&
  s.jobs.all (fun j => (allBufStates s).any (fun b => b.id == j.loc && b.store.contains j.id))

def capB (inst : Instance) (s : State) : Bool :=
  (allBufStates s).all fun b => (allBufCfgs inst).all fun c => c.id != b.id || decide ((b.store.length : Int) ≤ c.cap)

/-- the initial state is at rest: machines idle and empty, no operation started, AGVs idle and unclaimed -/
def restB (s : State) : Bool :=
  s.machines.all (fun m => m.st == .idle && m.buffer.store.isEmpty) &&
  s.jobs.all (fun j => j.ops.all (fun o => o.st == .idle)) &&
  s.transports.all (fun t => t.st == .idle && t.job.isNone && (match t.occ with | .dep .. => false | _ => true) &&
    t.buffer.store.isEmpty)

/-- initial placement: no job waits in a machine's pre-buffer and none lies in an output buffer -/
def placedB (inst : Instance) (s : State) : Bool :=
  s.machines.all (fun m => m.pre.store.isEmpty) && s.jobs.all (fun j => !(outputIds inst).contains j.loc)

/-- everything the structural theorems assume about a compiled (instance, initial state) pair -/
def initOKB (inst : Instance) (s : State) : Bool :=
  wfB inst && shapeB inst s && conservedB s && capB inst s

/-- non-negative configured times (the DSL admits only `\\d+` for job durations; matrix and outage
    entries are parsed with `int()`, so a negative literal would violate this guard) -/
def TimeCfg.nonnegB : TimeCfg → Bool
  | .det t => decide (0 ≤ t)
  | .stoch _ => true

def nonnegB (inst : Instance) : Bool :=
  inst.jobs.all (fun j => j.ops.all (fun o => o.dur.nonnegB)) &&
  inst.machines.all (fun m => m.setup.all (fun e => e.2.nonnegB) && m.outages.all (fun o => o.dur.nonnegB)) &&
  inst.travel.all (fun e => e.2.nonnegB) &&
  inst.transports.all (fun t => t.outages.all (fun o => o.dur.nonnegB))

/-- a time configuration that is a constant -/
def TimeCfg.isDetB : TimeCfg → Bool
  | .det _ => true
  | .stoch _ => false

/-- no stochastic element anywhere in the instance (what the harness calls "no stochastic objects") -/
def detInstB (inst : Instance) : Bool :=
  inst.jobs.all (fun j => j.ops.all (fun o => o.dur.isDetB)) &&
  inst.machines.all (fun m => m.setup.all (fun e => e.2.isDetB) && m.outages.all (fun o => o.dur.isDetB && o.freq.isDetB)) &&
  inst.travel.all (fun e => e.2.isDetB) &&
  inst.transports.all (fun t => t.outages.all (fun o => o.dur.isDetB && o.freq.isDetB))

/-- no outage is configured on any machine or AGV (hypothesis of C12's translation invariance) -/
def noOutagesB (inst : Instance) : Bool :=
  inst.machines.all (fun m => m.outages.isEmpty) && inst.transports.all (fun t => t.outages.isEmpty)

end JSL
