import JSL.Model.Guards
import JSL.Model.Check

/-!
# Decidable guards of the class for which C05 ("a step never raises") is proved

* `roomyTotB`       – capacities: the first output buffer and every pre- and post-buffer take all jobs of
                   the instance, the internal buffer of a machine and the buffer of an AGV take one;
* `parentsTotB`     – `parent` of a stand-alone buffer is `None`, of the three buffers of a machine the
                   machine (what the compiler produces);
* `agvOnlyB`     – there is a transport and every transport is an AGV;
* `routesB`      – the travel matrix has an entry from every place a job is picked up at (a machine,
                   a stand-alone buffer that is not an output buffer) to every place a job is taken to
                   (a machine, the first output buffer); buffer → buffer is exempt (never asked);
* `jobsHaveOpsB` – every job has an operation;
* `outShapeB`    – every configured outage of a machine / AGV has a record in the initial state;
* `hasJobsB`     – there is a job.

`totalClassB` is the conjunction with the existing `tablesTotalB`, `readyB`, `flexInstB`, `outRestB`.
-/

namespace JSL

/-- capacities large enough -/
def roomyTotB (inst : Instance) : Bool :=
  (match outputBuffers inst with
    | b :: _ => decide ((inst.jobs.length : Int) ≤ b.cap)
    | [] => true) &&
  inst.machines.all (fun mc => decide ((inst.jobs.length : Int) ≤ mc.pre.cap) &&
    decide ((inst.jobs.length : Int) ≤ mc.post.cap) && decide (1 ≤ mc.buf.cap)) &&
  inst.transports.all (fun tc => decide (1 ≤ tc.buf.cap))

/-- the `parent` fields are what the compiler produces -/
def parentsTotB (inst : Instance) : Bool :=
  inst.buffers.all (fun b => b.parent == none) &&
  inst.machines.all (fun mc => mc.pre.parent == some (Comp.m mc.id) && mc.buf.parent == some (Comp.m mc.id) &&
    mc.post.parent == some (Comp.m mc.id))

/-- there is a transport, and every transport is an AGV -/
def agvOnlyB (inst : Instance) : Bool :=
  !inst.transports.isEmpty && inst.transports.all (fun tc => tc.type == .agv)

/-- the places a job can be picked up at: a machine, a stand-alone buffer that is not an output buffer -/
def sources (inst : Instance) : List Loc :=
  inst.machines.map (fun m => Loc.m m.id) ++ (inst.buffers.filter (·.role != .output)).map (fun b => Loc.b b.id)

def Loc.isBuf : Loc → Bool
  | .b _ => true
  | .m _ => false

/-- the travel matrix has an entry from every pickup place to every place of delivery -/
def routesB (inst : Instance) : Bool :=
  (sources inst).all fun a => (stands inst).all fun b => (a.isBuf && b.isBuf) || (travelCfg inst a b).isSome

/-- every job has an operation -/
def jobsHaveOpsB (inst : Instance) : Bool := inst.jobs.all fun j => !j.ops.isEmpty

/-- every configured outage has a record -/
def outCoverB (cfgs : List OutageCfg) (sts : List OutageState) : Bool :=
  cfgs.all fun oc => sts.any fun o => o.id == oc.id

def outShapeB (inst : Instance) (s : State) : Bool :=
  s.machines.all (fun m => inst.machines.all fun mc => mc.id != m.id || outCoverB mc.outages m.outages) &&
  s.transports.all (fun t => inst.transports.all fun tc => tc.id != t.id || outCoverB tc.outages t.outages)

/-- the static part of the class -/
def totalInstB (inst : Instance) : Bool :=
  tablesTotalB inst && roomyTotB inst && parentsTotB inst && agvOnlyB inst && routesB inst && jobsHaveOpsB inst &&
    flexInstB inst

/-- there is a job -/
def hasJobsB (inst : Instance) : Bool := !inst.jobs.isEmpty

/-- the class: static part, at least one job, and the guards on the initial state -/
def totalClassB (inst : Instance) (s0 : State) : Bool :=
  totalInstB inst && hasJobsB inst && readyB inst s0 && outShapeB inst s0 && outRestB s0

end JSL
