import JSL.Model.Check
import JSL.Model.Guards

/-!
# The class of classic job-shop instances (C06, reachability side)

`classicInstB inst`: the instance is a textbook job shop as far as the state machine can tell –
transport costs nothing and is always possible, buffers neither order nor block, nothing fails and
every operation takes a positive constant time.  Evaluated by the driver; proved sound in
`JSL.Inv.ClassicDefs`.
-/

namespace JSL

/-- the places of an instance: its machines and its standalone buffers -/
def locsOf (inst : Instance) : List Loc :=
  inst.machines.map (fun m => Loc.m m.id) ++ inst.buffers.map (fun b => Loc.b b.id)

/-- the travel matrix answers 0 between any two places -/
def zeroTravelB (inst : Instance) : Bool :=
  (locsOf inst).all fun a => (locsOf inst).all fun b => travelCfg inst a b == some (.det 0)

/-- every setup entry is the constant 0 -/
def zeroSetupB (inst : Instance) : Bool :=
  inst.machines.all fun m => m.setup.all fun e => e.2 == .det 0

/-- every duration is a positive constant -/
def posDurB (inst : Instance) : Bool :=
  inst.jobs.all fun j => j.ops.all fun o => match o.dur with | .det d => decide (0 < d) | .stoch _ => false

/-- buffers are owned as the compiler makes them: the three buffers of a machine by the machine,
the buffer of an AGV by the AGV, standalone buffers by nobody -/
def parentsB (inst : Instance) : Bool :=
  inst.machines.all (fun m => m.pre.parent == some (.m m.id) && m.buf.parent == some (.m m.id) &&
    m.post.parent == some (.m m.id)) &&
  inst.buffers.all (fun b => b.parent == none) &&
  inst.transports.all (fun t => t.buf.parent == some (.t t.id))

/-- capacities never block: every standalone buffer, pre- and post-buffer takes all jobs, the
internal buffer of a machine and the buffer of an AGV take one -/
def roomyB (inst : Instance) : Bool :=
  inst.buffers.all (fun b => decide ((inst.jobs.length : Int) ≤ b.cap)) &&
  inst.machines.all (fun m => decide ((inst.jobs.length : Int) ≤ m.pre.cap) &&
    decide ((inst.jobs.length : Int) ≤ m.post.cap) && decide (1 ≤ m.buf.cap)) &&
  inst.transports.all (fun t => decide (1 ≤ t.buf.cap))

/-- **classic job-shop instances** -/
def classicInstB (inst : Instance) : Bool :=
  flexInstB inst &&                                   -- no buffer orders its content
  roomyB inst &&                                      -- no buffer blocks
  hasAgvB inst && inst.transports.all (fun t => t.type == .agv) &&
  zeroTravelB inst &&                                 -- transport is free and always possible
  noOutagesB inst &&                                  -- nothing fails
  zeroSetupB inst &&                                  -- no setup time …
  tablesTotalB inst &&                                -- … an output buffer, setup entries for the tools used
  parentsB inst &&
  posDurB inst &&                                     -- positive constant durations
  inst.jobs.all (fun j => !j.ops.isEmpty)             -- every job has an operation

/-- the start guard of the classic run hypotheses as the driver evaluates it (`classicStartB` of
`JSL.Inv.ClassicDefs` is this definition: `classicStart_guard_eq` in `Props/C06Global.lean`) -/
def classicStartModelB (inst : Instance) (s : State) : Bool :=
  readyB inst s &&
  s.transports.all (fun t => match t.loc with | .at l => (locsOf inst).contains l | .route .. => false) &&
  decide (s.time = 0)

/-- the fuel hypothesis of `ClassicRun` -/
def classicFuelB (inst : Instance) (fuel : Nat) : Bool :=
  decide (3 * inst.machines.length + 5 * inst.transports.length + 2 ≤ fuel)

/-- the fuel hypothesis of `ClassicRunEarly` (either value of `allowEarly`) -/
def classicFuelEarlyB (inst : Instance) (fuel : Nat) : Bool :=
  decide (6 * inst.machines.length + 11 * inst.transports.length + 2 ≤ fuel)

/-- at least as many AGVs as jobs (what the compiler creates when the document has no logistics section) -/
def enoughAgvsB (inst : Instance) : Bool := decide (inst.jobs.length ≤ inst.transports.length)

end JSL
