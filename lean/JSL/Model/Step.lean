import JSL.Model.Handler

/-!
# Offers, time machines, validation and `state.step`

Mirror of `possible_transition_utils.py`, `time_machines.py`, `validate.py` and `state.py`.
-/

namespace JSL

/-! ## possible_transition_utils -/

/-- `is_job_next_operation_free` -/
def JobState.nextOpFree (j : JobState) : Bool :=
  !j.running && j.ops.any (·.st == .idle)

/-- `is_job_at_machine` (job locations are buffer ids, so the legacy `location == machine_id`
    disjunct is false; the call to `get_next_not_done_operation` may still raise) -/
def jobAtMachine (j : JobState) (m : MachineState) : Except Err Bool := do
  let _ ← j.nextNotDone
  pure (m.pre.id == j.loc)

/-- `is_action_possible` -/
def actionPossible (inst : Instance) (s : State) (j : JobState) : Except Err Bool := do
  if !j.nextOpFree then return false
  let t0 ← match inst.transports with | t :: _ => pure t | [] => throw .indexError
  if t0.type == .teleporter then
    -- `next_machine` is unbound in the Python code on this path
    throw .typeError
  let op ← j.nextNotDone
  let m ← getMachine s.machines op.machine
  if !(← jobAtMachine j m) then return false
  pure (m.st == .idle)

/-- `get_possible_transports` -/
def possibleTransports (inst : Instance) (s : State) : Except Err (List TransportState) := do
  let l ← s.transports.mapM fun t => do
    let tc ← findE (fun c => c.id == t.id) inst.transports .invalidKey
    pure (if t.st == .idle && tc.type == .agv then some t else none)
  pure (l.filterMap id)

/-- `is_transportable` -/
def transportable (inst : Instance) (s : State) (j : JobState) : Except Err Bool := do
  if jobDone inst j then return false
  if j.allDone then return true
  let op ← match j.nextIdle? with | some o => pure o | none => throw .invalidValue
  let m ← getMachine s.machines op.machine
  if (← jobAtMachine j m) then return false
  pure true

def filterE {α} (p : α → Except Err Bool) : List α → Except Err (List α)
  | [] => pure []
  | a :: as => do
    let b ← p a
    let r ← filterE p as
    pure (if b then a :: r else r)

/-- with early transport disabled only jobs that are ready for pickup are offered -/
def earlyFilter (inst : Instance) (cfg : SMConfig) (s : State) (l : List JobState) : Except Err (List JobState) :=
  if cfg.allowEarly then pure l else filterE (fun j => readyForPickup inst s j) l

/-- `get_possible_transport_transition` -/
def possibleTransportTransitions (inst : Instance) (cfg : SMConfig) (s : State) :
    Except Err (List Transition) := do
  let ts ← possibleTransports inst s
  let running := s.jobs.filter (·.running)
  let idle ← filterE (transportable inst s) (s.jobs.filter (!·.running))
  let assigned := s.transports.filterMap (·.job)
  let lonely := (running ++ idle).filter fun j => !assigned.contains j.id
  let lonely ← earlyFilter inst cfg s lonely
  pure (ts.flatMap fun t => lonely.map fun j =>
    ({ comp := .t t.id, new := .t .working, job := some j.id } : Transition))

/-- the jobs for which a machine start is offered -/
def possibleJobs (inst : Instance) (s : State) : Except Err (List JobState) :=
  filterE (actionPossible inst s) s.jobs

/-- `state.get_possible_transitions` -/
def possibleTransitions (inst : Instance) (cfg : SMConfig) (s : State) :
    Except Err (List Transition) := do
  let pj ← possibleJobs inst s
  let pt ← possibleTransportTransitions inst cfg s
  let mt ← pj.mapM fun j =>
    match j.nextIdle? with
    | some o => pure ({ comp := .m o.machine, new := .m .setup, job := some j.id } : Transition)
    | none => throw .typeError
  pure (mt ++ pt)

/-- `get_num_possible_events` -/
def numPossibleEvents (inst : Instance) (cfg : SMConfig) (s : State) : Except Err Nat := do
  let pt ← possibleTransportTransitions inst cfg s
  let pj ← possibleJobs inst s
  pure (pt.length + pj.length)

/-! ## time_machines -/

/-- minimum w.r.t. `sorted(...)[0]` – the first minimal element -/
def minList : List Int → Option Int
  | [] => none
  | x :: xs => some (xs.foldl min x)

/-- `force_jump_to_event` -/
def forceJump (s : State) : Except Err Int := do
  let procEnds ← (s.jobs.flatMap (·.ops)).filter (·.st == .processing) |>.mapM fun o =>
    match o.stop with | some e => pure e | none => throw .typeError
  let trEnds ← (s.transports.filter fun t =>
      t.st != .idle && (match t.occ with | .dep .. => false | _ => true)).mapM fun t =>
    match t.occ with | .at e => pure e | _ => throw .typeError
  match minList procEnds, minList trEnds with
  | none, none => pure (s.time + 1)
  | some a, none => pure a
  | none, some b => pure b
  | some a, some b => pure (min a b)

/-- `jump_to_event` -/
def jumpToEvent (inst : Instance) (cfg : SMConfig) (s : State) : Except Err Int := do
  if (← numPossibleEvents inst cfg s) > 0 then pure s.time else forceJump s

def runTimeMachine (inst : Instance) (cfg : SMConfig) (s : State) : TimeMachine → Except Err Int
  | .jumpByOne => pure (s.time + 1)
  | .jumpToEvent => jumpToEvent inst cfg s
  | .forceJump => forceJump s

/-! ## validate -/

/-- table lookup of `MachineTransition().is_valid_transition` for either kind of new state -/
def machineAllowed (st : MSt) (new : NewSt) : Bool :=
  match new with
  | .m ns => machineValid st ns
  | .t ns => machineValidX st ns

/-- the job check of `is_machine_transition_valid` -/
def machineJobCheck (s : State) (m : MachineState) (job : Option Nat) : Except Err Bool :=
  match job with
  | some jid => do
    let j ← getJob s.jobs jid
    let op ← j.nextNotDone
    pure (op.machine == m.id)
  | none => pure true

/-- `is_machine_transition_valid` -/
def machineTransitionValid (s : State) (m : MachineState) (tr : Transition) : Except Err Bool :=
  if !machineAllowed m.st tr.new then pure false
  else if m.st == .outage && tr.new == .m .idle then pure true
  else if m.st == .working && tr.new == .m .outage then pure true
  else machineJobCheck s m tr.job

/-- `is_transport_transition_valid` -/
def transportTransitionValid (t : TransportState) (tr : Transition) : Bool :=
  match tr.new with
  | .t ns => transportValid t.st ns
  | .m ns => transportValidX t.st ns

/-- `is_transition_valid` -/
def transitionValid (s : State) (tr : Transition) : Except Err Bool :=
  match tr.comp with
  | .m mid => do
    let m ← getMachine s.machines mid
    machineTransitionValid s m tr
  | .t tid => do
    let t ← getTransport s.transports tid
    pure (transportTransitionValid t tr)
  | .b bid => do
    let _ ← getBufState s.buffers bid
    throw .notImplemented

/-! ## state.py -/

/-- result of `process_state_transitions`: new state, update counters, number of validation
    errors, and (ghost output, read by no model function) the post-state of every applied
    transition in order -/
structure ProcOut where
  state : State
  rng : Rng
  nerr : Nat
  micro : List State

/-- `process_state_transitions` (after sorting) -/
def processTransitions (orc : Oracle) (inst : Instance) :
    List Transition → State → Rng → Except Err ProcOut
  | [], s, r => pure ⟨s, r, 0, []⟩
  | tr :: trs, s, r => do
    if (← transitionValid s tr) then
      let (s, r) ← applyTransition orc inst s r tr
      let o ← processTransitions orc inst trs s r
      pure { o with micro := s :: o.micro }
    else
      let o ← processTransitions orc inst trs s r
      pure { o with nerr := o.nerr + 1 }

def Transition.sortKey (t : Transition) : Nat :=
  match t.new with | .m s => sortKeyM s | .t s => sortKeyT s

/-- `core_utils.sorted_by_transport` (stable) -/
def sortedByTransport (l : List Transition) : List Transition :=
  l.filter (·.sortKey == 0) ++ l.filter (·.sortKey != 0)

/-- `_get_travel_time_for_transport` -/
def travelTimeForTransport (orc : Oracle) (inst : Instance) (r : Rng) (s : State) (jid : Option Nat) :
    Except Err Int := do
  let j ← getJobOpt s.jobs jid
  let bc ← getBufCfg (allBufCfgs inst) j.loc
  let cur : Except Err Loc := match bc.parent with
    | some (.m mid) => pure (Loc.m mid)
    | some (.b n) => pure (Loc.b n)
    | some (.t _) => throw .notImplemented   -- AGV buffer: never equal to a destination, no matrix entry
    | none => pure (Loc.b j.loc)
  let nxt : Loc ← if j.noOpIdle then (firstOutput inst).map Loc.b
    else match j.nextIdle? with
      | some o => pure (Loc.m o.machine) | none => throw .typeError
  let cur ← cur
  if cur == nxt then pure 0 else
  match travelCfg inst cur nxt with
  | some c => pure (c.cur orc r)
  | none => throw .notImplemented

/-- conflict removal loop of `_filter_teleport_transitions` -/
def teleportGreedy : Nat → List Transition → List Transition
  | 0, _ => []
  | _, [] => []
  | n + 1, t :: ts =>
    t :: teleportGreedy n (ts.filter fun x => x.job != t.job && x.comp != t.comp)

/-- `_filter_teleport_transitions` -/
def filterTeleport (orc : Oracle) (inst : Instance) (r : Rng) (s : State) (poss : List Transition) :
    Except Err (List Transition) := do
  -- `all([startswith("t"), travel == 0])` builds the list first: the travel time is computed
  -- for machine offers too
  let l ← filterE (fun x => do
    let tt ← travelTimeForTransport orc inst r s x.job
    pure ((match x.comp with | .t _ => true | _ => false) && tt == 0)) poss
  pure (teleportGreedy l.length l)

/-- `sorted_done_operations(...)[-1].end_time` when there is a DONE operation -/
def lastDoneEnd (s : State) : Except Err (Option Int) := do
  let ends ← ((s.jobs.flatMap (·.ops)).filter (·.st == .done)).mapM fun o =>
    match o.stop with | some e => pure e | none => throw .typeError
  match ends with
  | [] => pure none
  | e :: es => pure (some (es.foldl max e))

/-- state of the `while timed_transitions` loop -/
structure LoopOut where
  state : State
  rng : Rng
  subs : List State
  failed : Bool
  micro : List State

/-- the `while timed_transitions:` loop of `state.step`, with fuel -/
def timedLoop (orc : Oracle) (inst : Instance) (cfg : SMConfig) :
    Nat → List Transition → State → Rng → List State → List State → Except Err LoopOut
  | _, [], s, r, subs, mic => pure ⟨s, r, subs, false, mic⟩
  | 0, _ :: _, _, _, _, _ => throw .outOfFuel
  | fuel + 1, tt@(_ :: _), s, r, subs, mic => do
    let o ← processTransitions orc inst tt s r
    if o.nerr > 0 then return ⟨o.state, o.rng, subs, true, mic ++ o.micro⟩
    let t ← jumpToEvent inst cfg o.state
    let s := { o.state with time := t }
    let tt ← timedTransitions inst s
    timedLoop orc inst cfg fuel tt s o.rng (subs ++ [s]) (mic ++ o.micro)

/-- `state.step` -/
def smStep (orc : Oracle) (inst : Instance) (cfg : SMConfig) (fuel : Nat)
    (s0 : State) (r : Rng) (a : Action) : Except Err (SMResult × Rng × List State) := do
  let p ← processTransitions orc inst (sortedByTransport a.transitions) s0 r
  let fail (subs : List State) (r : Rng) (mic : List State) : SMResult × Rng × List State :=
    ({ state := s0, subStates := subs, action := a, success := false, done := false, possible := [] },
     r, mic)
  if p.nerr > 0 then return fail [p.state] p.rng p.micro
  let s := p.state
  let r := p.rng
  let subs := [s]
  let t ← runTimeMachine inst cfg s a.tm
  let s := { s with time := t }
  let timed ← timedTransitions inst s
  let poss ← possibleTransitions inst cfg s
  let tele ← filterTeleport orc inst r s poss
  let out ← timedLoop orc inst cfg fuel (timed ++ tele) s r subs p.micro
  if out.failed then return fail out.subs out.rng out.micro
  let s := out.state
  let r := out.rng
  if isDone inst s then
    let s := match (← lastDoneEnd s) with | some e => { s with time := e } | none => s
    pure ({ state := s, subStates := out.subs.dropLast, action := a, success := true, done := true,
            possible := [] }, r, out.micro)
  else
    let poss ← possibleTransitions inst cfg s
    pure ({ state := s, subStates := out.subs.dropLast, action := a, success := true, done := false,
            possible := poss }, r, out.micro)

end JSL
