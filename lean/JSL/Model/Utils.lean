import JSL.Model.Types

/-!
# Lookup / buffer / job utilities

Mirror of `utils/state_machine_utils/{buffer,job,machine,transport,component}_type_utils.py`
and the `replace_*` helpers of `possible_transition_utils.py`.
-/

namespace JSL

/-- `next(filter(..), None)` then raise -/
def findE {α} (p : α → Bool) (l : List α) (e : Err) : Except Err α :=
  match l.find? p with
  | some a => .ok a
  | none => .error e

/-! ## jobs -/

def getJob (jobs : List JobState) (j : Nat) : Except Err JobState :=
  findE (fun x => x.id == j) jobs .invalidValue

/-- `get_job_state_by_id(jobs, transition.job_id)` with a possibly-`None` id -/
def getJobOpt (jobs : List JobState) (j : Option Nat) : Except Err JobState :=
  match j with
  | some j => getJob jobs j
  | none => .error .invalidValue

def JobState.running (j : JobState) : Bool := j.ops.any (·.st == .processing)
def JobState.noOpIdle (j : JobState) : Bool := j.ops.all (·.st != .idle)
def JobState.allDone (j : JobState) : Bool := j.ops.all (·.st == .done)
def JobState.nextNotDone? (j : JobState) : Option OpState := j.ops.find? (·.st != .done)
def JobState.nextIdle? (j : JobState) : Option OpState := j.ops.find? (·.st == .idle)
def JobState.processing? (j : JobState) : Option OpState := j.ops.find? (·.st == .processing)

def JobState.nextNotDone (j : JobState) : Except Err OpState :=
  match j.nextNotDone? with | some o => .ok o | none => .error .invalidValue

/-- `replace_job_operation_state` -/
def JobState.replaceOp (j : JobState) (o : OpState) : JobState :=
  { j with ops := j.ops.map fun x => if x.job == o.job && x.idx == o.idx then o else x }

def getOpCfg (inst : Instance) (job idx : Nat) : Except Err OpCfg :=
  findE (fun o => o.job == job && o.idx == idx) (inst.jobs.flatMap (·.ops)) .invalidValue

/-! ## buffers -/

def outputBuffers (inst : Instance) : List BufCfg := inst.buffers.filter (·.role == .output)

def outputIds (inst : Instance) : List Nat := (outputBuffers inst).map (·.id)

/-- `next(iter(get_output_buffers(instance))).id` -/
def firstOutput (inst : Instance) : Except Err Nat :=
  match outputBuffers inst with
  | b :: _ => .ok b.id
  | [] => .error .stopIteration

def allBufCfgs (inst : Instance) : List BufCfg :=
  inst.buffers ++ inst.machines.flatMap (fun m => [m.pre, m.buf, m.post]) ++ inst.transports.map (·.buf)

def allBufStates (s : State) : List BufState :=
  s.buffers ++ s.machines.flatMap (fun m => [m.pre, m.buffer, m.post]) ++ s.transports.map (·.buffer)

def getBufCfg (l : List BufCfg) (i : Nat) : Except Err BufCfg :=
  findE (fun b => b.id == i) l .invalidValue

def getBufState (l : List BufState) (i : Nat) : Except Err BufState :=
  findE (fun b => b.id == i) l .invalidValue

/-- `put_in_buffer` (the job's location update is done by the caller through `JobState.loc`) -/
def putInBuffer (b : BufState) (c : BufCfg) (j : JobState) : Except Err (BufState × JobState) :=
  if (b.store.length : Int) ≥ c.cap then .error .bufferFull
  else
    let store := b.store ++ [j.id]
    let bss := if (store.length : Int) = c.cap then BSS.full else BSS.notEmpty
    .ok ({ b with store := store, bss := bss }, { j with loc := b.id })

/-- `remove_from_buffer` -/
def removeFromBuffer (b : BufState) (j : Nat) : Except Err BufState :=
  if !b.store.contains j then .error .jobNotInBuffer
  else
    let store := b.store.filter (· != j)
    .ok { b with store := store, bss := if store.isEmpty then BSS.empty else BSS.notEmpty }

/-- `switch_buffer` → (from', to', job') -/
def switchBuffer (inst : Instance) (from_ to : BufState) (j : JobState) :
    Except Err (BufState × BufState × JobState) := do
  if !from_.store.contains j.id then throw .jobNotInBuffer
  let from' ← removeFromBuffer from_ j.id
  let c ← getBufCfg (allBufCfgs inst) to.id
  let (to', j') ← putInBuffer to c j
  pure (from', to', j')

/-- `get_next_job_from_buffer`; the selector per buffer type is the generated `releaseSel` -/
def nextJobFromBuffer (b : BufState) (c : BufCfg) : Option Nat :=
  match releaseSel c.type with
  | .front => b.store.head?
  | .back => b.store.getLast?
  | .none => none

/-- closed form of `is_correct_position_for_buffer_type` for a position that exists -/
def posOk (t : BufType) (pos len : Nat) : Bool :=
  if len = 0 then false else
  match t with
  | .fifo | .dummy => pos == 0
  | .lifo => pos + 1 == len
  | .flex => pos < len

/-- `job_in_correct_buffer_for_pickup` -/
def pickupBufferKind (inst : Instance) (bid : Nat) : Bool :=
  (inst.buffers.map (·.id)).contains bid || (inst.machines.map (·.post.id)).contains bid

/-- `is_job_ready_for_pickup_from_postbuffer` -/
def readyForPickup (inst : Instance) (s : State) (j : JobState) : Except Err Bool := do
  let bs ← getBufState (allBufStates s) j.loc
  let bc ← getBufCfg (allBufCfgs inst) j.loc
  let kind := pickupBufferKind inst bs.id
  match bs.store.idxOf? j.id with
  | some p => pure (kind && posOk bc.type p bs.store.length)
  | none =>
    if bs.store.length = 0 then pure false else
    match posNone bc.type with
    | some r => pure (kind && r)
    | none => throw .typeError

/-! ## machines / transports / components -/

def getMachine (l : List MachineState) (i : Nat) : Except Err MachineState :=
  findE (fun m => m.id == i) l .invalidValue

def getMachineCfg (l : List MachineCfg) (i : Nat) : Except Err MachineCfg :=
  findE (fun m => m.id == i) l .invalidValue

def getTransport (l : List TransportState) (i : Nat) : Except Err TransportState :=
  findE (fun m => m.id == i) l .invalidValue

def getTransportCfg (l : List TransportCfg) (i : Nat) : Except Err TransportCfg :=
  findE (fun m => m.id == i) l .invalidValue

/-- `get_machine_id_from_buffer` -/
def machineIdOfBuffer (ms : List MachineCfg) (bid : Nat) : Option Nat :=
  (ms.find? fun m => m.pre.id == bid || m.buf.id == bid || m.post.id == bid).map (·.id)

/-- `get_buffer_state_from_machine` -/
def bufOfMachine (m : MachineState) (bid : Nat) : Except Err BufState :=
  if bid == m.pre.id then .ok m.pre
  else if bid == m.buffer.id then .ok m.buffer
  else if bid == m.post.id then .ok m.post
  else .error .invalidValue

/-- `replace_buffer_state_in_machine` -/
def replaceBufInMachine (m : MachineState) (b : BufState) : Except Err MachineState :=
  if b.id == m.pre.id then .ok { m with pre := b }
  else if b.id == m.buffer.id then .ok { m with buffer := b }
  else if b.id == m.post.id then .ok { m with post := b }
  else .error .invalidValue

/-- `get_transport_state_by_job_id` -/
def transportByJob (s : State) (j : Nat) : Option TransportState :=
  s.transports.find? (·.job == some j)

def State.replaceJob (s : State) (j : JobState) : State :=
  { s with jobs := s.jobs.map fun x => if x.id == j.id then j else x }
def State.replaceMachine (s : State) (m : MachineState) : State :=
  { s with machines := s.machines.map fun x => if x.id == m.id then m else x }
def State.replaceTransport (s : State) (t : TransportState) : State :=
  { s with transports := s.transports.map fun x => if x.id == t.id then t else x }
def State.replaceBuffer (s : State) (b : BufState) : State :=
  { s with buffers := s.buffers.map fun x => if x.id == b.id then b else x }

/-- `job_type_utils.is_done` -/
def jobDone (inst : Instance) (j : JobState) : Bool :=
  j.allDone && (outputIds inst).contains j.loc

/-- `core_utils.is_done` -/
def isDone (inst : Instance) (s : State) : Bool :=
  s.jobs.all fun j => (outputIds inst).contains j.loc

/-- travel-time dictionary lookup -/
def travelCfg (inst : Instance) (a b : Loc) : Option TimeCfg := inst.travel.lookup (a, b)

end JSL
