/-!
# The textual matrices of the DSL

Model of the line/regex parsers of `compiler/mapper.py` (after `SimpleDSLValidator` has accepted
the document): the job matrix (`_parse_specification`, `_get_job_params`, `_check_pattern`) and the
travel-time / setup-time matrices (`_parse_travel_times`, `_parse_setup_times`,
`_map_travel_times_names`).  Texts are lists of characters; a result `none` stands for "the
validator or `int()` rejects".  Unicode decimal digits (accepted by Python's `\d` and `int`) are
outside the model.
-/

namespace JSL.Compile

abbrev Text := List Char

/-- `str.split(sep)` for a single-character separator -/
def splitOnC (c : Char) : Text → List Text
  | [] => [[]]
  | x :: xs =>
    if x = c then [] :: splitOnC c xs
    else match splitOnC c xs with
      | [] => [[x]]          -- unreachable: the result is never empty
      | l :: ls => (x :: l) :: ls

/-- `line.replace(" ", "")` -/
def stripSpaces (t : Text) : Text := t.filter (· ≠ ' ')

/-- a non-empty run of ASCII digits read as a decimal number (`int` on a `\d+` match) -/
def parseDigits (t : Text) : Option Nat :=
  if t ≠ [] ∧ t.all Char.isDigit then some (Nat.ofDigitChars 10 t 0) else none

/-- `int(token)`: optional minus sign, digits -/
def parseInt (t : Text) : Option Int :=
  match t with
  | '-' :: r => (parseDigits r).map fun n => -(n : Int)
  | _ => (parseDigits t).map fun n => (n : Int)

/-- the leading run of ASCII digits and the rest -/
def spanDigits (t : Text) : Text × Text := (t.takeWhile Char.isDigit, t.dropWhile Char.isDigit)

/-! ## job matrix -/

/-- one `(machine,duration)` group at the head of the text -/
def parseGroup (t : Text) : Option ((Nat × Nat) × Text) :=
  match t with
  | '(' :: r =>
    match spanDigits r with
    | (a, ',' :: r2) =>
      match spanDigits r2 with
      | (b, ')' :: r4) =>
        match parseDigits a, parseDigits b with
        | some m, some d => some ((m, d), r4)
        | _, _ => none
      | _ => none
    | _ => none
  | _ => none

/-- the whitespace the validator's `\s*` lets through between two groups once the blanks are
removed (tab, carriage return, vertical tab, form feed; Unicode spaces are outside the model) -/
def isWs (c : Char) : Bool := c = '\t' || c = '\r' || c = '\x0b' || c = '\x0c'

/-- `(\(\d+,\d+\)\s*)+` to the end of the text (the validator's shape of a job line; the mapper's
`re.findall` then collects exactly these groups) -/
def parseOpsF : Nat → Text → Option (List (Nat × Nat))
  | 0, _ => none
  | f + 1, t =>
    match parseGroup t with
    | none => none
    | some (g, rest) =>
      match rest.dropWhile isWs with
      | [] => some [g]
      | rest' => (parseOpsF f rest').map (g :: ·)

def parseOps (t : Text) : Option (List (Nat × Nat)) := parseOpsF t.length t

/-- a job line `j<digits>|<groups>` (spaces already removed); anything else is not a job line.
The label is not used: jobs are numbered by their position (as the mapper does). -/
def parseJobLine (t : Text) : Option (List (Nat × Nat)) :=
  match t with
  | 'j' :: r =>
    match spanDigits r with
    | (lab, '|' :: body) => if lab ≠ [] then parseOps body else none
    | _ => none
  | _ => none

/-- `_parse_specification`: the rows of (machine, duration) pairs in text order -/
def parseJobMatrix (t : Text) : List (List (Nat × Nat)) :=
  ((splitOnC '\n' t).map stripSpaces).filterMap parseJobLine

/-! ## travel / setup matrices -/

/-- `str.strip()` restricted to blanks -/
def trimLeft (t : Text) : Text := t.dropWhile (· = ' ')
def trim (t : Text) : Text := (trimLeft (trimLeft t).reverse).reverse

/-- `str.split()` restricted to blanks: the maximal blank-free runs -/
def splitWS (t : Text) : List Text := (splitOnC ' ' t).filter (· ≠ [])

structure Matrix where
  cols : List Text
  rows : List (Text × List Int)
  deriving Repr, DecidableEq

/-- one `name|v v v` line -/
def parseRowLine (l : Text) : Option (Text × List Int) :=
  match splitOnC '|' l with
  | [name, vals] => ((splitWS vals).mapM parseInt).map fun vs => (name, vs)
  | _ => none

/-- header line of column names, then `name|v v v` lines -/
def parseMatrix (t : Text) : Option Matrix :=
  match ((splitOnC '\n' t).map trim).filter (fun l => !l.isEmpty) with
  | [] => none
  | hdr :: lines => (lines.mapM parseRowLine).map fun rows => { cols := splitOnC '|' hdr, rows := rows }

/-- the dictionary the mapper builds: later entries overwrite earlier ones -/
def Matrix.entries (m : Matrix) : List ((Text × Text) × Int) :=
  m.rows.flatMap fun (r, vs) => (m.cols.zip vs).map fun (c, v) => ((r, c), v)

def Matrix.lookup (m : Matrix) (r c : Text) : Option Int :=
  (m.entries.reverse.find? fun e => e.1 = (r, c)).map (·.2)

def lower (t : Text) : Text := t.map Char.toLower

def inNames : List Text := ["input", "input-buffer", "inputbuffer", "input buffer", "input_buffer", "in-buf", "inbuf",
  "in buf", "in_buffer"].map String.toList
def outNames : List Text := ["output", "output-buffer", "outputbuffer", "output buffer", "output_buffer", "out-buf"].map String.toList

/-- `_map_travel_times_names` -/
def mapLocName (inId outId : Text) (n : Text) : Option Text :=
  if n.take 2 = ['m', '-'] then some n
  else if n.take 2 = ['b', '-'] then some n
  else if inNames.contains (lower n) then some inId
  else if outNames.contains (lower n) then some outId
  else none

/-! ## id allocation -/

/-- the search loop of `ID_Counter._get_new_id`: the first number from `k` on that is not taken
(`f` bounds the number of candidates tried) -/
def newIdF : Nat → Nat → List Nat → Nat
  | 0, k, _ => k
  | f + 1, k, ids => if ids.contains k then newIdF f (k + 1) ids else k

/-- `_get_new_id`: start at the number of ids handed out or registered so far -/
def newId (ids : List Nat) : Nat := newIdF (ids.length + 1) ids.length ids

/-! ## initial placement (`DictToInitStateMapper._map_jobs`, `_get_buffer_state`) -/

/-- `tuple(dict.fromkeys(l))`: the first occurrences, in order -/
def firstOccs : List Nat → List Nat
  | [] => []
  | x :: xs => x :: (firstOccs xs).filter (· != x)

/-- a job starts in the input buffer (`instance.buffers[0]`) unless its own entry names a location -/
def jobLocation (inputId : Nat) (spec : Option Nat) : Nat := spec.getD inputId

/-- `jobs_in_buffer`: the jobs located in buffer `b`, in job order; a job is its number and the
location its `init_state` entry names (if any) -/
def locatedIn (inputId : Nat) (jobs : List (Nat × Option Nat)) (b : Nat) : List Nat :=
  (jobs.filter fun j => jobLocation inputId j.2 == b).map (·.1)

/-- the store of buffer `b`: the listed jobs in the order written, then the jobs located there that
are not listed; without a listing the located jobs in job order -/
def initStore (inputId : Nat) (jobs : List (Nat × Option Nat)) (b : Nat) (listed : Option (List Nat)) : List Nat :=
  match listed with
  | none => locatedIn inputId jobs b
  | some l => firstOccs (l ++ locatedIn inputId jobs b)

/-! ## outage entries (`_map_spec_dict_to_outage`) -/

/-- the component names an entry may carry to apply to machine `id` -/
def machineOutageNames (id : Text) : List Text :=
  ["m", "machine", "Machine", "MACHINE"].map String.toList ++ [id]

/-- ... to apply to every transport -/
def transportOutageNames : List Text := ["t", "transport", "Transport", "TRANSPORT"].map String.toList

/-- the entries of the `outages:` section that apply to a component, in document order -/
def outagesFor {α : Type} (names : List Text) (entries : List (Text × α)) : List α :=
  (entries.filter fun e => names.contains e.1).map (·.2)

/-! ## rendering (what "written in the specification" means) -/

def renderNat (n : Nat) : Text := Nat.toDigits 10 n
def renderInt (i : Int) : Text := if i < 0 then '-' :: renderNat i.natAbs else renderNat i.natAbs
def renderGroup (g : Nat × Nat) : Text := '(' :: renderNat g.1 ++ ',' :: renderNat g.2 ++ [')']
def renderJobLine (k : Nat) (row : List (Nat × Nat)) : Text := 'j' :: renderNat k ++ '|' :: row.flatMap renderGroup
def joinWith (c : Char) : List Text → Text
  | [] => []
  | [l] => l
  | l :: ls => l ++ c :: joinWith c ls

def renderJobLinesFrom (k : Nat) : List (List (Nat × Nat)) → List Text
  | [] => []
  | r :: rs => renderJobLine k r :: renderJobLinesFrom (k + 1) rs

/-- header line (machine declarations) followed by one line per job -/
def renderJobMatrix (header : Text) (rows : List (List (Nat × Nat))) : Text :=
  joinWith '\n' (header :: renderJobLinesFrom 0 rows)

def renderRow (r : Text × List Int) : Text := r.1 ++ '|' :: joinWith ' ' (r.2.map renderInt)
def renderMatrix (m : Matrix) : Text := joinWith '\n' (joinWith '|' m.cols :: m.rows.map renderRow)

end JSL.Compile
