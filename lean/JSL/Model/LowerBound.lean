import JSL.Model.Types

/-!
# `utils.calculate_lower_bound` / `get_max_allowed_time` (loop-faithful)

`sched[j][k] = (machine, duration)`; `nm = shape[1]` is the number of operations per job
(numpy requires a rectangular array).
-/

namespace JSL

abbrev Sched := List (List (Nat × Int))

def sumDur (l : List (Nat × Int)) : Int := (l.map (·.2)).sum

/-- inner loop of `calculate_bi` for one job: durations before the first occurrence of
    `machine` (all of them if it does not occur) -/
def prefixBefore (machine : Nat) : List (Nat × Int) → Int
  | [] => 0
  | (m, d) :: rest => if m = machine then 0 else d + prefixBefore machine rest

/-- inner loop of `calculate_ai` for one job: durations after the first occurrence of `machine`
    (after the LAST operation – i.e. 0 – if it does not occur, since `op_id` ends at `nm-1`) -/
def suffixAfter (machine : Nat) : List (Nat × Int) → Int
  | [] => 0
  | (m, _) :: rest => if m = machine then sumDur rest else suffixAfter machine rest

def minOfList : List Int → Option Int
  | [] => none
  | x :: xs => some (xs.foldl min x)

def maxOfList : List Int → Option Int
  | [] => none
  | x :: xs => some (xs.foldl max x)

def bOf (sched : Sched) (machine : Nat) : Option Int := minOfList (sched.map (prefixBefore machine))
def aOf (sched : Sched) (machine : Nat) : Option Int := minOfList (sched.map (suffixAfter machine))

/-- `total_processing_time` for one machine -/
def tOf (sched : Sched) (machine : Nat) : Int :=
  (sched.map fun job => ((job.filter (·.1 = machine)).map (·.2)).sum).sum

def maxJobDuration (sched : Sched) : Option Int := maxOfList (sched.map sumDur)

/-- number of machines as numpy sees it: `schedule.shape[1]` -/
def nmOf (sched : Sched) : Nat := match sched with | [] => 0 | j :: _ => j.length

/-- `calculate_lower_bound`; `none` stands for the exceptions numpy/python raise on degenerate
    input (no jobs, no operations, machine index out of range) -/
def lowerBound (sched : Sched) : Option Int := do
  let nm := nmOf sched
  if sched.any (fun j => j.length != nm) then none
  if sched.any (fun j => j.any (fun o => o.1 ≥ nm)) then none
  let per ← (List.range nm).mapM fun m => do
    let b ← bOf sched m
    let a ← aOf sched m
    pure (b + tOf sched m + a)
  let mm ← maxOfList per
  let mj ← maxJobDuration sched
  pure (max mm mj)

/-- `get_max_allowed_time` -/
def maxAllowedTime (sched : Sched) : Int := (sched.map sumDur).sum

/-- the array `utils.get_schedule_array` builds from the instance: per job the (machine, current
duration) pairs in operation order -/
def schedOf (orc : Oracle) (r : Rng) (inst : Instance) : Sched :=
  inst.jobs.map fun j => j.ops.map fun o => (o.machine, o.dur.cur orc r)

end JSL
