import JSL.Model.Step
import JSL.Model.LowerBound

/-!
# Middleware, action interpretation, reward and environment bookkeeping

Mirror of `middleware.EventBasedBinaryActionMiddleware` (+ `SubTimeStepper`),
`actions.BinaryJobActionFactory.interpret`, `rewards.BinaryActionJsspReward`,
`env.JobShopLabEnv.step/reset/_get_info`.
-/

namespace JSL

structure MwCfg where
  jokerInit : Int
  truncActive : Bool
  deriving Repr, Inhabited

structure MwState where
  joker : Int
  noOpCnt : Nat
  actCnt : Nat
  deriving DecidableEq, Repr, Inhabited

def noOpAction : Action := { transitions := [], noOp := true, tm := .jumpToEvent }

/-- an agent action as it reaches `interpret`: 0, 1, or something outside `Discrete(2)` -/
inductive AgentAct where
  | decline | accept | outside
  deriving DecidableEq, Repr, Inhabited

/-- `BinaryJobActionFactory.interpret` -/
def interpret (res : SMResult) (a : AgentAct) : Except Err Action :=
  match res.possible with
  | [] => throw .invalidValue
  | tr :: _ =>
    match a with
    | .outside => throw .actionOutOfSpace
    | .decline => pure noOpAction
    | .accept => pure { transitions := [tr], noOp := false, tm := .jumpToEvent }

/-- `SubTimeStepper.add_operation` -/
def MwState.addOp (m : MwState) (a : Action) : MwState :=
  if a.noOp then { m with noOpCnt := m.noOpCnt + 1 } else { m with actCnt := m.actCnt + 1 }

/-- `middleware.reset` -/
def mwReset (orc : Oracle) (inst : Instance) (cfg : SMConfig) (mc : MwCfg) (fuel : Nat)
    (s0 : State) (r : Rng) : Except Err (SMResult × MwState × Rng × List State) := do
  let (res, r, mic) ← smStep orc inst cfg fuel s0 r noOpAction
  pure (res, { joker := mc.jokerInit, noOpCnt := 0, actCnt := 0 }, r, mic)

/-- `_get_no_op_result` -/
def noOpResult (orc : Oracle) (inst : Instance) (cfg : SMConfig) (mc : MwCfg) (fuel : Nat)
    (res : SMResult) (m : MwState) (r : Rng) (a : Action) :
    Except Err (SMResult × MwState × Rng × List State) :=
  match res.possible with
  | [] => throw .unsuccessful
  | [_] => do
    let a := { a with tm := .forceJump }
    let (res', r, mic) ← smStep orc inst cfg fuel res.state r a
    if res'.possible.isEmpty then
      if isDone inst res'.state then return (res', m, r, mic) else throw .unsuccessful
    let m := if mc.truncActive && m.actCnt == 0 then { m with joker := m.joker - 1 } else m
    let m := ({ m with noOpCnt := 0, actCnt := 0 } : MwState).addOp a
    pure (res', m, r, mic)
  | _ :: rest =>
    pure ({ state := res.state, subStates := res.subStates, action := noOpAction, success := true,
            done := false, possible := rest }, m, r, [])

/-- `middleware.step` (observation construction is separate) -/
def mwStep (orc : Oracle) (inst : Instance) (cfg : SMConfig) (mc : MwCfg) (fuel : Nat)
    (res : SMResult) (m : MwState) (r : Rng) (a : AgentAct) :
    Except Err (SMResult × MwState × Rng × List State) := do
  let act ← interpret res a
  let m := m.addOp act
  if act.noOp then noOpResult orc inst cfg mc fuel res m r act
  else do
    let (res', r, mic) ← smStep orc inst cfg fuel res.state r act
    pure (res', m, r, mic)

/-! ## reward -/

structure RewardCfg where
  sparseBias : Rat
  denseBias : Rat
  truncBias : Rat
  deriving Repr, Inhabited

/-- the static numbers the reward factory computes from the instance -/
structure RewardStatic where
  tmax : Int
  lb : Int
  numJobs : Nat
  numOps : Nat
  deriving Repr, Inhabited

/-- `_sparse_reward` -/
def sparseReward (rc : RewardCfg) (st : RewardStatic) (time : Int) (terminated truncated : Bool) :
    Except Err Rat :=
  if truncated then
    if rc.sparseBias = 0 then throw .zeroDivision else pure (rc.truncBias * 1 / rc.sparseBias)
  else if !terminated then pure 0
  else if st.tmax - st.lb = 0 then throw .zeroDivision
  else pure (((st.tmax - time : Int) : Rat) / ((st.tmax - st.lb : Int) : Rat))

/-- `_dense_reward`; `cnt` is `no_op_counter` before the call; returns the new counter -/
def denseReward (st : RewardStatic) (cnt : Nat) (res : SMResult) : Except Err (Rat × Nat) :=
  let cnt := if res.action.transitions.isEmpty then cnt + 1 else 0
  if st.numOps = 0 then throw .zeroDivision
  else pure (-((if cnt ≥ st.numJobs then 1 else 0 : Int) : Rat) / (st.numOps : Rat), cnt)

/-- `BinaryActionJsspReward.make` -/
def rewardMake (rc : RewardCfg) (st : RewardStatic) (cnt : Nat) (res : SMResult)
    (terminated truncated : Bool) : Except Err (Rat × Nat) := do
  let s ← sparseReward rc st res.state.time terminated truncated
  let (d, cnt) ← denseReward st cnt res
  pure (s * rc.sparseBias + d * rc.denseBias, cnt)

/-! ## environment -/

structure EnvCfg where
  sm : SMConfig
  mw : MwCfg
  rw : RewardCfg
  fuel : Nat
  deriving Repr, Inhabited

structure EnvState where
  res : SMResult          -- `self.state`
  histLen : Nat           -- `len(self.history)`
  histNoOps : Nat         -- number of history entries whose action has no transitions
  lastNoOp : Bool         -- `len(self.history[-1].action.transitions) == 0`
  terminated : Bool
  truncated : Bool
  done : Bool
  mw : MwState
  rng : Rng
  rwCnt : Nat             -- reward factory `no_op_counter`

structure StepOut where
  env : EnvState
  /-- the result the observation is built from, and the `done` flag passed to the factory -/
  obsRes : SMResult
  obsDone : Bool
  reward : Rat
  makespan : Option Int
  /-- ghost: post-state of every transition applied inside this step -/
  micro : List State

/-- `JobShopLabEnv.reset` after compilation -/
def envReset (orc : Oracle) (inst : Instance) (ec : EnvCfg) (s0 : State) (r : Rng) :
    Except Err (EnvState × List State) := do
  let (res, mw, r, mic) ← mwReset orc inst ec.sm ec.mw ec.fuel s0 r
  pure ({ res := res, histLen := 0, histNoOps := 0, lastNoOp := false, terminated := false,
          truncated := false, done := false, mw := mw, rng := r, rwCnt := 0 }, mic)

/-- `JobShopLabEnv.step` -/
def envStep (orc : Oracle) (inst : Instance) (ec : EnvCfg) (st : RewardStatic)
    (e : EnvState) (a : AgentAct) : Except Err StepOut := do
  if e.done then throw .envDone
  let (res', mw, r, mic) ← mwStep orc inst ec.sm ec.mw ec.fuel e.res e.mw e.rng a
  let obsDone := res'.possible.isEmpty
  let e' : EnvState :=
    if res'.success then
      let noop := res'.action.transitions.isEmpty
      { e with res := res', histLen := e.histLen + 1,
               histNoOps := e.histNoOps + (if noop then 1 else 0), lastNoOp := noop,
               terminated := isDone inst res'.state, truncated := decide (mw.joker < 0),
               mw := mw, rng := r }
    else { e with truncated := true, terminated := false, mw := mw, rng := r }
  let e' := { e' with done := e'.terminated || e'.truncated }
  let (rew, cnt) ← rewardMake ec.rw st e.rwCnt e'.res e'.terminated e'.truncated
  let e' := { e' with rwCnt := cnt }
  pure { env := e', obsRes := res', obsDone := obsDone, reward := rew,
         makespan := if e'.terminated then some e'.res.state.time else none, micro := mic }

end JSL
