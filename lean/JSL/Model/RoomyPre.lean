import JSL.Model.Roomy
import JSL.Model.FuelBound

/-!
# The class `totalClassB` widened: machine pre-buffers of any type

`totalClassB` (`JSL/Model/Roomy.lean`) requires `flexInstB`: every buffer unordered.  The recorded
counterexamples all use ordered **pickup** buffers (stand-alone buffers, post-buffers).  An ordered
**pre-buffer** is different: jobs are delivered into it by AGVs (always allowed while there is room) and
taken out of it by the machine itself (a timed transition `IDLE → SETUP` for the job its discipline
names: `machineSetupTransition`).

* `pickupFlexB`   – every stand-alone buffer, every machine internal buffer and post-buffer and every AGV
                    buffer is unordered; pre-buffers may have any type;
* `totalClassPB`  – `totalClassB` with `flexInstB` replaced by `pickupFlexB`;
* `preFlex`       – the instance with every pre-buffer declared unordered (a device of the proofs);
* `fuelBoundPre`  – the **candidate** (not proved) for the rounds of the timed loop of one `state.step` in the
                    wider class: a machine can start operations inside the loop, so every operation pays for
                    one more tour `SETUP → WORKING → OUTAGE → IDLE` of its machine (four stages of weight 2
                    in the measure of `JSL/Inv/FuelMeasure.lean`).
-/

namespace JSL

/-- every buffer a job can be picked up from (and every AGV buffer) is unordered; pre-buffers are free -/
def pickupFlexB (inst : Instance) : Bool :=
  inst.buffers.all (fun bc => bc.type == .flex) &&
  inst.machines.all (fun mc => mc.buf.type == .flex && mc.post.type == .flex) &&
  inst.transports.all (fun tc => tc.buf.type == .flex)

/-- the static part of the wider class -/
def totalInstPB (inst : Instance) : Bool :=
  tablesTotalB inst && roomyTotB inst && parentsTotB inst && agvOnlyB inst && routesB inst && jobsHaveOpsB inst &&
    pickupFlexB inst

/-- the wider class: static part, at least one job, and the guards on the initial state -/
def totalClassPB (inst : Instance) (s0 : State) : Bool :=
  totalInstPB inst && hasJobsB inst && readyB inst s0 && outShapeB inst s0 && outRestB s0

/-- the instance with every pre-buffer declared unordered (a proof device: the two instances differ
only in the timed transition `IDLE → SETUP` of a machine) -/
def preFlex (inst : Instance) : Instance :=
  { inst with machines := inst.machines.map fun mc => { mc with pre := { mc.pre with type := .flex } } }

/-- number of operations of the instance -/
def numOpsOf (inst : Instance) : Nat := (allOps inst).length

/-- candidate fuel bound for the wider class (not proved; `fuelBound inst` does not count the operations a
machine with an ordered pre-buffer starts inside the loop) -/
def fuelBoundPre (inst : Instance) : Nat := fuelBound inst + 8 * numOpsOf inst

end JSL
