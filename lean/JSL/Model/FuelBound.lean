import JSL.Model.Roomy

/-!
# A bound on the number of rounds of the `while timed_transitions` loop of one `state.step`

In the class `totalClassB` (`JSL/Model/Roomy.lean`) the loop of one `state.step` makes at most
`fuelBound inst` rounds (`JSL/Props/C05Fuel.lean`).  With `M` machines and `A` transports:

* every timed machine transition moves a machine one stage along `SETUP → WORKING → OUTAGE → IDLE`
  (three stages per machine; no operation is started inside the loop);
* every timed AGV transition but `WAITINGPICKUP → WAITINGPICKUP` moves an AGV one stage along
  `PICKUP → WAITINGPICKUP → TRANSIT → OUTAGE → IDLE` (four stages per AGV; the only dispatches
  inside the loop are the teleports of its very first round);
* a `WAITINGPICKUP → WAITINGPICKUP` round re-reads the end of the operation the AGV waits for; an
  AGV can fall behind that end only when the machine makes a transition, and then it is the one AGV
  that claimed the job the machine holds – so these rounds are paid for by the machine transitions:
  weight `2` per machine stage, `1` per AGV that is behind.

`fuelBound inst = 6·M + 5·A + 2`.
-/

namespace JSL

/-- rounds of the timed loop of one `state.step` that suffice in the class `totalClassB` -/
def fuelBound (inst : Instance) : Nat :=
  6 * inst.machines.length + 5 * inst.transports.length + 2

/-- the fuel hypothesis of `c05_step_returns_in_class` / `c11_always_accept_terminates` -/
def fuelOKB (inst : Instance) (fuel : Nat) : Bool := decide (fuelBound inst ≤ fuel)

end JSL
