import JSL.Model.Utils

/-!
# Outages, state manipulation and transition handlers

Mirror of `outage_utils.py`, `manipulate.py`, `time_utils.py` and `handler.py`.
Every function that may call `StochasticTimeConfig.update()` threads the update
counters `Rng`; `orc` is the (universally quantified) table of sampled values.
-/

namespace JSL

/-! ## outage_utils -/

/-- `_get_duration` of `outage_utils`: time since the outage was last active (`NoTime` counts as 0) -/
def outageSince (now : Int) : OutSt → Except Err Int
  | .active _ _ => throw .valueError
  | .inactive none => pure (now - 0)
  | .inactive (some l) => pure (now - l)

/-- `_should_apply_based_on_frequency` -/
def shouldApply (orc : Oracle) (r : Rng) (freq : TimeCfg) (since : Int) : Bool × Rng :=
  match freq with
  | .det f => (decide (f ≥ since), r)
  | .stoch sid => if since > orc sid (r sid) then (true, r.bump sid) else (false, r)

/-- `_sample_from_outage_obj` -/
def sampleOutage (orc : Oracle) (now : Int) (comp : List OutageState) (r : Rng) (o : OutageCfg) :
    Except Err (OutageState × Rng) := do
  let st ← findE (fun x => x.id == o.id) comp .valueError
  let since ← outageSince now st.st
  let ar := shouldApply orc r o.freq since
  if !ar.1 then pure (st, ar.2) else
  let dr := o.dur.updRead orc ar.2
  pure ({ id := o.id, st := .active now (now + dr.1) }, dr.2)

/-- `get_new_outage_states` for an explicit list of outage configs -/
def newOutageStates (orc : Oracle) (now : Int) (comp : List OutageState) :
    List OutageCfg → Rng → Except Err (List OutageState × Rng)
  | [], r => pure ([], r)
  | o :: os, r => do
    let (x, r) ← sampleOutage orc now comp r o
    let (xs, r) ← newOutageStates orc now comp os r
    pure (x :: xs, r)

/-- durations of the active records -/
def activeDurations (l : List OutageState) : List Int :=
  l.filterMap fun o => match o.st with | .active s e => some (e - s) | .inactive _ => none

/-- `get_occupied_time_from_outage_iterator` -/
def occupiedFor (l : List OutageState) : Int :=
  match activeDurations l with
  | [] => 0
  | d :: ds => ds.foldl max d

/-- `release_outage` -/
def releaseOutage (o : OutageState) : OutageState :=
  match o.st with
  | .active _ e => { o with st := .inactive (some e) }
  | .inactive _ => o

/-! ## manipulate.py -/

/-- `_get_setup_duration` -/
def setupDuration (orc : Oracle) (r : Rng) (mc : MachineCfg) (old new : Nat) :
    Except Err (Int × Rng) :=
  match mc.setup.lookup (old, new) with
  | some c => pure (c.readUpd orc r)
  | none => throw .invalidValue

/-- `begin_machine_setup` -/
def beginMachineSetup (orc : Oracle) (inst : Instance) (now : Int) (r : Rng)
    (j : JobState) (m : MachineState) : Except Err (JobState × MachineState × Rng) := do
  let op ← j.nextNotDone
  let oc ← getOpCfg inst op.job op.idx
  let mc ← getMachineCfg inst.machines m.id
  let (sd, r) ← setupDuration orc r mc m.tool oc.tool
  let op' : OpState := { job := oc.job, idx := oc.idx, start := some now, stop := some (now + sd),
                         machine := m.id, st := .processing }
  let j := j.replaceOp op'
  let pre ← removeFromBuffer m.pre j.id
  let (buf, j) ← putInBuffer m.buffer mc.buf j
  pure (j, { m with pre := pre, buffer := buf, st := .setup, occ := some (now + sd), tool := oc.tool }, r)

/-- `begin_next_job_on_machine` -/
def beginNextJobOnMachine (orc : Oracle) (inst : Instance) (now : Int) (r : Rng)
    (j : JobState) (m : MachineState) : Except Err (JobState × MachineState × Rng) := do
  let op ← j.nextNotDone
  let oc ← getOpCfg inst op.job op.idx
  let (d, r) := oc.dur.updRead orc r
  let op' : OpState := { job := oc.job, idx := oc.idx, start := some now, stop := some (now + d),
                         machine := m.id, st := .processing }
  pure (j.replaceOp op', { m with st := .working, occ := some (now + d) }, r)

/-- `begin_machine_outage` -/
def beginMachineOutage (now : Int) (j : JobState) (m : MachineState) (occFor : Int)
    (outs : List OutageState) : Except Err (JobState × MachineState) := do
  let m' := { m with st := .outage, outages := outs, occ := some (now + occFor) }
  match j.processing? with
  | none => throw .typeError
  | some op => pure (j.replaceOp { op with stop := some (now + occFor) }, m')

/-- `complete_active_operation_on_machine` -/
def completeActiveOperation (inst : Instance) (now : Int) (jobs : List JobState) (m : MachineState) :
    Except Err (JobState × MachineState) := do
  let jid ← match m.buffer.store with | x :: _ => pure x | [] => throw .invalidValue
  let j ← getJob jobs jid
  let op ← match j.processing? with | some o => pure o | none => throw .invalidValue
  let j := j.replaceOp { op with stop := some now, st := .done }
  let buf ← removeFromBuffer m.buffer j.id
  let mc ← getMachineCfg inst.machines m.id
  let (post, j) ← putInBuffer m.post mc.post j
  pure (j, { m with buffer := buf, post := post, st := .idle, outages := m.outages.map releaseOutage })

/-- what `get_comp_by_id` may return as transport target -/
inductive Target where
  | machine (m : MachineState) | buffer (b : BufState)

/-- `get_comp_by_id(state, id)` for a location id -/
def getCompByLoc (s : State) : Loc → Except Err Target
  | .m n => (getMachine s.machines n).map .machine
  | .b n => (getBufState s.buffers n).map .buffer

/-- `complete_transport_task` -/
def completeTransportTask (orc : Oracle) (inst : Instance) (now : Int) (r : Rng)
    (j : JobState) (t : TransportState) (drop : Loc) (target : Target) :
    Except Err (JobState × TransportState × Target × Rng) := do
  let toFill := match target with
    | .machine m => m.pre
    | .buffer b => b
  let (tbuf, filled, j) ← switchBuffer inst t.buffer toFill j
  let tc ← getTransportCfg inst.transports t.id
  let (outs, r) ← newOutageStates orc now t.outages tc.outages r
  let occFor := occupiedFor outs
  let t' := { t with buffer := tbuf, st := .outage, outages := outs, occ := .at (now + occFor),
                     loc := .at drop, job := none }
  let target' := match target with
    | .machine m => Target.machine { m with pre := filled }
    | .buffer _ => Target.buffer filled
  pure (j, t', target', r)

/-! ## handler.py : machine handlers -/

def handleMachineIdleToSetup (orc : Oracle) (inst : Instance) (s : State) (r : Rng)
    (tr : Transition) (m : MachineState) : Except Err (State × Rng) := do
  let jid ← match tr.job with | some j => pure j | none => throw .invalidValue
  let j ← getJob s.jobs jid
  if !m.pre.store.contains j.id then throw .invalidValue
  let (j, m, r) ← beginMachineSetup orc inst s.time r j m
  pure ((s.replaceJob j).replaceMachine m, r)

def handleMachineSetupToWorking (orc : Oracle) (inst : Instance) (s : State) (r : Rng)
    (tr : Transition) (m : MachineState) : Except Err (State × Rng) := do
  let jid ← match tr.job with | some j => pure j | none => throw .invalidValue
  let j ← getJob s.jobs jid
  if !m.buffer.store.contains j.id then throw .invalidValue
  let (j, m, r) ← beginNextJobOnMachine orc inst s.time r j m
  pure ((s.replaceJob j).replaceMachine m, r)

def handleMachineWorkingToOutage (orc : Oracle) (inst : Instance) (s : State) (r : Rng)
    (tr : Transition) (m : MachineState) : Except Err (State × Rng) := do
  let mc ← getMachineCfg inst.machines m.id
  let (outs, r) ← newOutageStates orc s.time m.outages mc.outages r
  let occFor := occupiedFor outs
  let j ← getJobOpt s.jobs tr.job
  let (j, m) ← beginMachineOutage s.time j m occFor outs
  pure ((s.replaceMachine m).replaceJob j, r)

def handleMachineOutageToIdle (inst : Instance) (s : State) (r : Rng)
    (m : MachineState) : Except Err (State × Rng) := do
  let (j, m) ← completeActiveOperation inst s.time s.jobs m
  pure ((s.replaceJob j).replaceMachine m, r)

/-- first matching entry of the machine handler dictionary -/
def machineHandlerOf (st : MSt) (new : NewSt) : Except Err MHandler :=
  match new with
  | .m ns => match machineHandler st ns with | some h => pure h | none => throw .notImplemented
  | .t _ => throw .notImplemented

/-- `handle_machine_transition` -/
def handleMachineTransition (orc : Oracle) (inst : Instance) (s : State) (r : Rng)
    (tr : Transition) (mid : Nat) : Except Err (State × Rng) := do
  let m ← getMachine s.machines mid
  let h ← machineHandlerOf m.st tr.new
  match h with
  | .idleToSetup => handleMachineIdleToSetup orc inst s r tr m
  | .setupToWorking => handleMachineSetupToWorking orc inst s r tr m
  | .workingToOutage => handleMachineWorkingToOutage orc inst s r tr m
  | .outageToIdle => handleMachineOutageToIdle inst s r m

/-! ## handler.py : transport handlers -/

/-- `Optional` value or raise -/
def optE {α} (o : Option α) (e : Err) : Except Err α :=
  match o with | some a => pure a | none => throw e

/-- the branch of `_get_waiting_time` for a finished job that is not at the release position of
    its post-buffer: wait for the job in front of it -/
def waitBehind (inst : Instance) (s : State) (tr : Transition) (j : JobState) (ms : MachineState) (bc : BufCfg) :
    Except Err Occ := do
  let nxt ← optE (nextJobFromBuffer ms.post bc) .invalidValue
  let nj ← getJob s.jobs nxt
  if jobDone inst nj then pure (.at s.time)
  else pure (match transportByJob s nxt with
    | none => Occ.dep j.loc nxt tr
    | some t => t.occ)

/-- the branch of `_get_waiting_time` for a job that is still on the machine -/
def waitProcessing (j : JobState) : Except Err Occ :=
  match j.processing? with
  | none => throw .missingProcessingOp
  | some op => pure (match op.stop with | some e => .at e | none => .none)

/-- `_get_waiting_time` -/
def getWaitingTime (inst : Instance) (s : State) (tr : Transition) : Except Err Occ := do
  let j ← getJobOpt s.jobs tr.job
  let bc ← getBufCfg (allBufCfgs inst) j.loc
  match bc.parent with
  | none => pure (.at s.time)
  | some (.m mid) =>
    let ms ← getMachine s.machines mid
    if ms.post.store.contains j.id then
      if (← readyForPickup inst s j) then pure (.at s.time)
      else waitBehind inst s tr j ms bc
    else waitProcessing j
  | some _ => throw .notImplemented

def handleAgvPickupToWaiting (inst : Instance) (s : State) (r : Rng)
    (tr : Transition) (t : TransportState) : Except Err (State × Rng) := do
  if tr.job.isNone then throw .missingJobId
  let occ ← getWaitingTime inst s tr
  pure (s.replaceTransport { t with st := .waitingpickup, occ := occ }, r)

def handleAgvWaitingToWaiting (inst : Instance) (s : State) (r : Rng)
    (tr : Transition) (t : TransportState) : Except Err (State × Rng) := do
  let occ ← getWaitingTime inst s tr
  pure (s.replaceTransport { t with st := .waitingpickup, occ := occ }, r)

/-- destination of a transport: the (first) output buffer when no operation is idle, else the
    machine of the operation selected by `pick` -/
def dropLoc (inst : Instance) (j : JobState) (pick : JobState → Except Err OpState) : Except Err Loc :=
  if j.noOpIdle then (firstOutput inst).map Loc.b else (pick j).map (fun o => Loc.m o.machine)

/-- `get_next_idle_operation` with the `InvalidValue` raised by the dispatch handler when absent -/
def JobState.nextIdleE (j : JobState) : Except Err OpState :=
  match j.nextIdle? with | some o => pure o | none => throw .invalidValue

/-- `_get_travel_time_from_spec` (update, then read) -/
def travelTimeFromSpec (orc : Oracle) (inst : Instance) (r : Rng) (src dst : Loc) :
    Except Err (Int × Rng) :=
  match src, dst with
  | .b _, .b _ => throw .notImplemented
  | _, _ =>
    match travelCfg inst src dst with
    | some c => pure (c.updRead orc r)
    | none => throw .travelTime

def handleAgvPickupToTransit (orc : Oracle) (inst : Instance) (s : State) (r : Rng)
    (tr : Transition) (t : TransportState) : Except Err (State × Rng) := do
  let jid ← match tr.job with | some j => pure j | none => throw .missingJobId
  let j ← getJob s.jobs jid
  let src : Loc := match machineIdOfBuffer inst.machines j.loc with
    | some mid => .m mid | none => .b j.loc
  let dst ← dropLoc inst j JobState.nextNotDone
  let (tt, r) ← travelTimeFromSpec orc inst r src dst
  let (s, tbuf, j) ← match src with
    | .b bid => do
      let fb ← getBufState s.buffers bid
      let (fb, tbuf, j) ← switchBuffer inst fb t.buffer j
      pure (s.replaceBuffer fb, tbuf, j)
    | .m mid => do
      let ms ← getMachine s.machines mid
      let bs ← bufOfMachine ms j.loc
      let (fb, tbuf, j) ← switchBuffer inst bs t.buffer j
      let ms ← replaceBufInMachine ms fb
      pure (s.replaceMachine ms, tbuf, j)
  let t' := { t with st := .transit, occ := .at (s.time + tt), buffer := tbuf }
  pure ((s.replaceJob j).replaceTransport t', r)

/-- where the AGV has to go for a job stored in the buffer with config `bc` -/
def pickupSource (bc : BufCfg) (loc : Nat) : Except Err Loc :=
  match bc.parent with
  | none => pure (Loc.b loc)
  | some (.m mid) => pure (Loc.m mid)
  | some _ => throw .transportConfig

/-- matrix lookup without `update()` for the empty run to the pickup point -/
def travelNoUpdate (orc : Oracle) (inst : Instance) (r : Rng) (a b : Loc) : Except Err Int :=
  match travelCfg inst a b with
  | some c => pure (c.cur orc r)
  | none => throw .transportConfig

def handleAgvIdleToWorking (orc : Oracle) (inst : Instance) (s : State) (r : Rng)
    (tr : Transition) (t : TransportState) : Except Err (State × Rng) := do
  let jid ← match tr.job with | some j => pure j | none => throw .invalidValue
  let cur ← match t.loc with | .at l => pure l | .route .. => throw .invalidValue
  let j ← getJob s.jobs jid
  let target ← dropLoc inst j JobState.nextIdleE
  let bc ← getBufCfg (allBufCfgs inst) j.loc
  let src ← pickupSource bc j.loc
  let ttp ← travelNoUpdate orc inst r cur src
  let t' := { t with loc := .route cur bc.id target, st := .pickup, occ := .at (s.time + ttp),
                     job := some j.id }
  pure (s.replaceTransport t', r)

def handleAgvTransitToOutage (orc : Oracle) (inst : Instance) (s : State) (r : Rng)
    (tr : Transition) (t : TransportState) : Except Err (State × Rng) := do
  let jid ← match tr.job with | some j => pure j | none => throw .missingJobId
  let j ← getJob s.jobs jid
  let drop ← match t.loc with | .route _ _ d => pure d | .at _ => throw .invalidValue
  let target ← getCompByLoc s drop
  let (j, t', target', r) ← completeTransportTask orc inst s.time r j t drop target
  let s := (s.replaceJob j).replaceTransport t'
  let s := match target' with
    | .machine m => s.replaceMachine m
    | .buffer b => s.replaceBuffer b
  pure (s, r)

def handleAgvOutageToIdle (s : State) (r : Rng) (t : TransportState) : Except Err (State × Rng) :=
  pure (s.replaceTransport { t with st := .idle, outages := t.outages.map releaseOutage }, r)

/-- first matching entry of the AGV handler dictionary -/
def agvHandlerOf (st : TSt) (new : NewSt) : Except Err THandler :=
  match new with
  | .t ns => match agvHandler st ns with | some h => pure h | none => throw .notImplemented
  | .m _ => throw .notImplemented

/-- `handle_transport_transition` -/
def handleTransportTransition (orc : Oracle) (inst : Instance) (s : State) (r : Rng)
    (tr : Transition) (tid : Nat) : Except Err (State × Rng) := do
  let t ← getTransport s.transports tid
  let tc ← getTransportCfg inst.transports t.id
  if !trTypeHandled tc.type then throw .notImplemented
  let h ← agvHandlerOf t.st tr.new
  match h with
  | .idleToWorking => handleAgvIdleToWorking orc inst s r tr t
  | .pickupToWaitingpickup => handleAgvPickupToWaiting inst s r tr t
  | .pickupToTransit => handleAgvPickupToTransit orc inst s r tr t
  | .transitToOutage => handleAgvTransitToOutage orc inst s r tr t
  | .outageToIdle => handleAgvOutageToIdle s r t
  | .waitingPickupToWaitingPickup => handleAgvWaitingToWaiting inst s r tr t

/-- `state.apply_transition` -/
def applyTransition (orc : Oracle) (inst : Instance) (s : State) (r : Rng) (tr : Transition) :
    Except Err (State × Rng) :=
  match tr.comp with
  | .m mid => do
    let _ ← getMachine s.machines mid
    handleMachineTransition orc inst s r tr mid
  | .t tid => do
    let _ ← getTransport s.transports tid
    handleTransportTransition orc inst s r tr tid
  | .b bid => do
    let _ ← getBufState s.buffers bid
    throw .notImplemented

/-! ## timed transitions -/

/-- `create_machine_setup_transition` -/
def machineSetupTransition (inst : Instance) (m : MachineState) : Except Err (Option Transition) :=
  if m.pre.store.length > 0 then do
    let pc ← getBufCfg (allBufCfgs inst) m.pre.id
    match nextJobFromBuffer m.pre pc with
    | some j => pure (some { comp := .m m.id, new := .m .setup, job := some j })
    | none => pure none
  else pure none

/-- is the component's `occupied_till` a time that has been reached -/
def dueAt (occ : Option Int) (now : Int) : Bool :=
  match occ with | some o => decide (o ≤ now) | none => false

/-- body of the loop of `create_timed_machine_transitions` for one machine -/
def timedMachine (inst : Instance) (now : Int) (m : MachineState) : Except Err (Option Transition) :=
  match (if dueAt m.occ now then machineTimedNext m.st else none) with
  | some ns =>
    match m.buffer.store with
    | j :: _ => pure (some { comp := .m m.id, new := .m ns, job := some j })
    | [] => throw .indexError
  | none => if m.st == .idle then machineSetupTransition inst m else pure none

/-- `create_timed_machine_transitions` -/
def timedMachineTransitions (inst : Instance) (s : State) : Except Err (List Transition) :=
  (s.machines.mapM (timedMachine inst s.time)).map (·.filterMap id)

/-- `_time_dependency_is_resolved` -/
def timeDependencyResolved (inst : Instance) (s : State) (t : TransportState) (buf blocking : Nat) :
    Except Err Bool := do
  let bs ← getBufState (s.machines.map (·.post)) buf
  let bc ← getBufCfg (inst.machines.map (·.post)) bs.id
  if t.job == nextJobFromBuffer bs bc then pure true
  else pure (s.transports.any fun x => x.job == some blocking)

/-- `create_avg_idle_to_pick_transition` -/
def agvIdleToPickTransition (inst : Instance) (s : State) (t : TransportState) :
    Except Err (Option Transition) := do
  let jid ← optE t.job .transportJob
  let j ← getJob s.jobs jid
  let ready ← readyForPickup inst s j
  pure ((idleToPickNext t.st ready).map fun ns => { comp := .t t.id, new := .t ns, job := some j.id })

/-- body of the loop of `create_timed_transport_transitions` for one transport -/
def timedTransport (inst : Instance) (s : State) (t : TransportState) : Except Err (Option Transition) :=
  match t.occ with
  | .dep buf blocking tr => do
    if (← timeDependencyResolved inst s t buf blocking) then pure (some tr) else pure none
  | .at o =>
    if o ≤ s.time then
      match agvTimedCreator t.st with
      | .idleToPick => agvIdleToPickTransition inst s t
      | .pickupToDrop =>
        match t.buffer.store with
        | [j] => do
          let js ← getJob s.jobs j
          pure (some { comp := .t t.id, new := .t .outage, job := some js.id })
        | _ => throw .notImplemented
      | .dropToIdle => pure (some { comp := .t t.id, new := .t .idle, job := none })
      | .raises => throw .notImplemented
      | .none => pure none
    else pure none
  | .none => pure none

/-- `create_timed_transport_transitions` -/
def timedTransportTransitions (inst : Instance) (s : State) : Except Err (List Transition) :=
  (s.transports.mapM (timedTransport inst s)).map (·.filterMap id)

/-- `create_timed_transitions` -/
def timedTransitions (inst : Instance) (s : State) : Except Err (List Transition) := do
  let a ← timedMachineTransitions inst s
  let b ← timedTransportTransitions inst s
  pure (a ++ b)

end JSL
