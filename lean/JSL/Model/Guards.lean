import JSL.Model.Step

/-!
# Further decidable guards (hypotheses of theorems), evaluated by the driver on every scenario

* `tablesTotalB`, `readyB` – C05: the configuration tables are total where the two start handlers
  read them, and the initial state is ready (`Inv/Applies.lean`);
* `outRestB`, `outPastB` – C10: the outage records of the initial state are inactive and remember
  no end in the future (`Inv/OutageInv.lean`, `Inv/OutagePast.lean`).
-/

namespace JSL

/-- every operation of the instance -/
def allOps (inst : Instance) : List OpCfg := inst.jobs.flatMap (·.ops)

/-- the tools of the operations routed to machine `mid` -/
def toolsOn (inst : Instance) (mid : Nat) : List Nat :=
  ((allOps inst).filter (·.machine == mid)).map (·.tool)

/-- the places an AGV is parked at after a delivery: a machine, or the first output buffer
(`dropLoc`) -/
def stands (inst : Instance) : List Loc :=
  inst.machines.map (fun m => Loc.m m.id) ++
    (match outputBuffers inst with | b :: _ => [Loc.b b.id] | [] => [])

/-- the buffers a job on offer for a dispatch can lie in: a standalone buffer that is not an
output buffer, the internal buffer of a machine (early dispatch for a running job) or a
post-buffer.  (Not a pre-buffer: `offers_not_in_pre`; not an AGV: `RouteInv.transitOwn`; not an
output buffer: `RouteInv.delivered`.) -/
def pickupBufs (inst : Instance) : List BufCfg :=
  inst.buffers.filter (·.role != .output) ++ inst.machines.flatMap (fun m => [m.buf, m.post])

def srcOK (inst : Instance) (a : Loc) (bc : BufCfg) : Bool :=
  match pickupSource bc bc.id with
  | .ok src => (travelCfg inst a src).isSome
  | .error _ => false

def reachesB (inst : Instance) (l : Loc) : Bool := (pickupBufs inst).all (srcOK inst l)

def tablesTotalB (inst : Instance) : Bool :=
  (match firstOutput inst with | .ok _ => true | .error _ => false) &&
  inst.machines.all (fun mc => decide (1 ≤ mc.buf.cap)) &&
  (pickupBufs inst).all (fun bc => match pickupSource bc bc.id with | .ok _ => true | .error _ => false) &&
  inst.machines.all (fun mc => (toolsOn inst mc.id).all fun a => (toolsOn inst mc.id).all fun b =>
    (mc.setup.lookup (a, b)).isSome) &&
  (stands inst).all (reachesB inst)

def readyB (inst : Instance) (s : State) : Bool :=
  s.machines.all (fun m => inst.machines.all fun mc => mc.id != m.id ||
    (toolsOn inst m.id).all fun b => (mc.setup.lookup (m.tool, b)).isSome) &&
  s.transports.all (fun t => !(t.st == .idle || t.st == .outage) ||
    match t.loc with | .at l => reachesB inst l | .route .. => false)

def OutSt.isInactive : OutSt → Bool
  | .inactive _ => true
  | .active _ _ => false

/-- start guard: every outage record of every machine and AGV of the initial state is inactive -/
def outRestB (s : State) : Bool :=
  s.machines.all (fun m => m.outages.all (fun o => o.st.isInactive)) &&
  s.transports.all (fun t => t.outages.all (fun o => o.st.isInactive))

def OutSt.pastB (now : Int) : OutSt → Bool
  | .inactive (some e) => decide (e ≤ now)
  | _ => true

/-- start guard: no record of the initial state remembers an end later than the initial clock
(records that were never active – `inactive none`, what the compiler produces – pass) -/
def outPastB (s : State) : Bool :=
  s.machines.all (fun m => m.outages.all (fun o => o.st.pastB s.time)) &&
  s.transports.all (fun t => t.outages.all (fun o => o.st.pastB s.time))


/-- every buffer is unordered (hypothesis of C11's progress theorem) -/
def flexInstB (inst : Instance) : Bool := (allBufCfgs inst).all fun bc => bc.type == .flex

/-- there is a transport of type AGV -/
def hasAgvB (inst : Instance) : Bool := inst.transports.any fun tc => tc.type == .agv

end JSL
