import JSL.Model.Obs

/-!
# The declared observation space of `SimpleJsspObservationFactory`

Mirror of the `gym.spaces.Dict` the factory declares in its constructor: the shapes are
`num_jobs`, `num_machines`, the `int32` bounds are `max_ops_per_job` and `max_ops_per_machine`,
the `int8` boxes are `[0, 1]` (booleans in the model) and `current_time` is a float in `[0, 1]`
(an exact rational in the model).
-/

namespace JSL

/-- `max((len(job.operations) for job in specification), default=0)` -/
def maxOpsPerJob (inst : Instance) : Nat :=
  (inst.jobs.map fun j => j.ops.length).foldl max 0

/-- the number of configured operations (over all jobs) that run on machine number `k` -/
def opsOnMachine (inst : Instance) (k : Nat) : Nat :=
  ((inst.jobs.flatMap (·.ops)).filter fun o => o.machine == k).length

/-- `max((sum(op.machine == machine.id for op in operations) for machine in machines), default=0)` -/
def maxOpsPerMachine (inst : Instance) : Nat :=
  (inst.machines.map fun m => opsOnMachine inst m.id).foldl max 0

/-- decidable: the observation lies in the declared space (integer / boolean fields and shapes;
`current_time` within `[0, 1]`).  `nj`, `nm` are the declared numbers of jobs and machines, `hiJ`,
`hiM` the declared upper bounds of `job_progression` and `machine_progression`. -/
def SimpleObs.inSpaceB (nj nm hiJ hiM : Nat) (o : SimpleObs) : Bool :=
  o.jobRunning.length == nj && o.availableJobs.length == nj &&
  o.jobExecutedOnMachine.length == nj && o.jobExecutedOnMachine.all (·.length == nm) &&
  o.jobProgression.length == nj && o.jobProgression.all (· ≤ hiJ) &&
  o.machineRunning.length == nm && o.machineProgression.length == nm &&
  o.machineProgression.all (· ≤ hiM) &&
  decide (0 ≤ o.currentTime) && decide (o.currentTime ≤ 1)

/-- the integer / boolean part of `inSpaceB` (everything except `current_time`) -/
def SimpleObs.intFieldsInSpaceB (nj nm hiJ hiM : Nat) (o : SimpleObs) : Bool :=
  o.jobRunning.length == nj && o.availableJobs.length == nj &&
  o.jobExecutedOnMachine.length == nj && o.jobExecutedOnMachine.all (·.length == nm) &&
  o.jobProgression.length == nj && o.jobProgression.all (· ≤ hiJ) &&
  o.machineRunning.length == nm && o.machineProgression.length == nm &&
  o.machineProgression.all (· ≤ hiM)

/-- the `current_time` part of `inSpaceB` -/
def SimpleObs.timeInSpaceB (o : SimpleObs) : Bool :=
  decide (0 ≤ o.currentTime) && decide (o.currentTime ≤ 1)

end JSL
