import JSL.Gen.Tables

/-!
# Types of the executable model

Mirror of `jobshoplab/types/state_types.py`, `instance_config_types.py`,
`action_types.py`.  Identifiers are structured (`m-<n>` ↦ `Comp.m n`, `b-<n>` ↦ buffer id `n`,
`j-<n>` ↦ job id `n`, `o-<j>-<k>` ↦ `(job, idx)`, `tl-<n>` ↦ tool `n`, `out-<n>` ↦ outage `n`).
Time is `Int` (start times may be any integer), `NoTime` is `none`.
-/

namespace JSL

/-- Exception classes of the Python implementation (class name only, never the message). -/
inductive Err where
  | invalidValue | invalidKey | notImplemented | bufferFull | jobNotInBuffer
  | missingProcessingOp | missingJobId | transportJob | transportConfig | travelTime
  | valueError | indexError | typeError | zeroDivision | stopIteration
  | unsuccessful | envDone | actionOutOfSpace | outOfFuel
  deriving DecidableEq, Repr, Inhabited

def Err.pyName : Err → String
  | .invalidValue => "InvalidValue" | .invalidKey => "InvalidKey"
  | .notImplemented => "NotImplementedError" | .bufferFull => "BufferFullError"
  | .jobNotInBuffer => "JobNotInBufferError"
  | .missingProcessingOp => "MissingProcessingOperationError"
  | .missingJobId => "MissingJobIdError" | .transportJob => "TransportJobError"
  | .transportConfig => "TransportConfigError" | .travelTime => "TravelTimeError"
  | .valueError => "ValueError" | .indexError => "IndexError" | .typeError => "TypeError"
  | .zeroDivision => "ZeroDivisionError" | .stopIteration => "StopIteration"
  | .unsuccessful => "UnsuccessfulStateMachineResult" | .envDone => "EnvDone"
  | .actionOutOfSpace => "ActionOutOfActionSpace" | .outOfFuel => "Hang"

/-- A place between which AGVs travel: a machine or a standalone buffer. -/
inductive Loc where
  | m (n : Nat) | b (n : Nat)
  deriving DecidableEq, Repr, Inhabited

/-- Component addressed by a transition (`component_id`). -/
inductive Comp where
  | m (n : Nat) | t (n : Nat) | b (n : Nat)
  deriving DecidableEq, Repr, Inhabited

/-- `new_state` of a `ComponentTransition`: a machine state or a transport state. -/
inductive NewSt where
  | m (s : MSt) | t (s : TSt)
  deriving DecidableEq, Repr, Inhabited

structure Transition where
  comp : Comp
  new : NewSt
  job : Option Nat
  deriving DecidableEq, Repr, Inhabited

/-- `DeterministicTimeConfig | StochasticTimeConfig`; a stochastic object is named by its
creation index `sid`; its current `.time` is `orc sid (rng sid)`. -/
inductive TimeCfg where
  | det (t : Int) | stoch (sid : Nat)
  deriving DecidableEq, Repr, Inhabited

/-- value of stochastic object `sid` after its `k`-th `update()` -/
abbrev Oracle := Nat → Nat → Int
/-- number of `update()` calls so far per stochastic object -/
abbrev Rng := Nat → Nat

def Rng.bump (r : Rng) (sid : Nat) : Rng := fun i => if i = sid then r i + 1 else r i

/-- `.time` of a time config (no update) -/
def TimeCfg.cur (orc : Oracle) (r : Rng) : TimeCfg → Int
  | .det t => t
  | .stoch sid => orc sid (r sid)

/-- `update()` then `.time` (operation durations, travel at pickup, outage durations) -/
def TimeCfg.updRead (orc : Oracle) (r : Rng) : TimeCfg → Int × Rng
  | .det t => (t, r)
  | .stoch sid => (orc sid (r sid + 1), r.bump sid)

/-- `.time` then `update()` (setup durations) -/
def TimeCfg.readUpd (orc : Oracle) (r : Rng) : TimeCfg → Int × Rng
  | .det t => (t, r)
  | .stoch sid => (orc sid (r sid), r.bump sid)

/-! ## instance configuration -/

structure BufCfg where
  id : Nat
  type : BufType
  cap : Int
  role : BufRole
  parent : Option Comp
  deriving DecidableEq, Repr, Inhabited

structure OutageCfg where
  id : Nat
  freq : TimeCfg
  dur : TimeCfg
  deriving DecidableEq, Repr, Inhabited

structure MachineCfg where
  id : Nat
  outages : List OutageCfg
  setup : List ((Nat × Nat) × TimeCfg)
  pre : BufCfg
  post : BufCfg
  buf : BufCfg
  deriving DecidableEq, Repr, Inhabited

structure TransportCfg where
  id : Nat
  type : TrType
  outages : List OutageCfg
  buf : BufCfg
  deriving DecidableEq, Repr, Inhabited

structure OpCfg where
  job : Nat
  idx : Nat
  machine : Nat
  dur : TimeCfg
  tool : Nat
  deriving DecidableEq, Repr, Inhabited

structure JobCfg where
  id : Nat
  ops : List OpCfg
  deriving DecidableEq, Repr, Inhabited

structure Instance where
  jobs : List JobCfg
  travel : List ((Loc × Loc) × TimeCfg)
  machines : List MachineCfg
  buffers : List BufCfg
  transports : List TransportCfg
  deriving Repr, Inhabited

/-! ## state -/

structure OpState where
  job : Nat
  idx : Nat
  start : Option Int
  stop : Option Int
  machine : Nat
  st : OSt
  deriving DecidableEq, Repr, Inhabited

structure JobState where
  id : Nat
  ops : List OpState
  loc : Nat
  deriving DecidableEq, Repr, Inhabited

structure BufState where
  id : Nat
  bss : BSS
  store : List Nat
  deriving DecidableEq, Repr, Inhabited

inductive OutSt where
  | active (s e : Int)
  | inactive (last : Option Int)
  deriving DecidableEq, Repr, Inhabited

structure OutageState where
  id : Nat
  st : OutSt
  deriving DecidableEq, Repr, Inhabited

structure MachineState where
  id : Nat
  buffer : BufState
  occ : Option Int
  pre : BufState
  post : BufState
  st : MSt
  tool : Nat
  outages : List OutageState
  deriving DecidableEq, Repr, Inhabited

/-- `occupied_till` of a transport: `NoTime | Time t | TimeDependency` -/
inductive Occ where
  | none | at (t : Int) | dep (buf : Nat) (job : Nat) (tr : Transition)
  deriving DecidableEq, Repr, Inhabited

/-- `TransportLocation.location`: a place, or the route triple (current, pickup buffer, drop) -/
inductive TLoc where
  | at (l : Loc) | route (cur : Loc) (pick : Nat) (drop : Loc)
  deriving DecidableEq, Repr, Inhabited

structure TransportState where
  st : TSt
  id : Nat
  occ : Occ
  buffer : BufState
  loc : TLoc
  outages : List OutageState
  job : Option Nat
  deriving DecidableEq, Repr, Inhabited

structure State where
  jobs : List JobState
  time : Int
  machines : List MachineState
  transports : List TransportState
  buffers : List BufState
  deriving DecidableEq, Repr, Inhabited

/-- time machines an action may carry -/
inductive TimeMachine where
  | jumpByOne | jumpToEvent | forceJump
  deriving DecidableEq, Repr, Inhabited

structure Action where
  transitions : List Transition
  noOp : Bool            -- action_factory_info == NoOperation
  tm : TimeMachine
  deriving DecidableEq, Repr, Inhabited

/-- the part of `Config` the state machine reads -/
structure SMConfig where
  allowEarly : Bool
  deriving DecidableEq, Repr, Inhabited

structure SMResult where
  state : State
  subStates : List State
  action : Action
  success : Bool
  done : Bool            -- message == "Done"
  possible : List Transition
  deriving Repr, Inhabited

end JSL
