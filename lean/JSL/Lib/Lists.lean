import JSL.Model.Step
import JSL.Lib.Except

/-! List / lookup lemmas: `findE`, replace-by-id as a point update, `filterE` -/

namespace JSL

theorem findE_ok {α} {p : α → Bool} {l : List α} {e : Err} {a : α} (h : findE p l e = .ok a) :
    a ∈ l ∧ p a = true := by
  unfold findE at h
  split at h
  · rename_i x hx
    simp at h; subst h
    exact ⟨List.mem_of_find?_eq_some hx, List.find?_some hx⟩
  · simp at h

theorem getJob_ok {jobs : List JobState} {j : Nat} {x : JobState} (h : getJob jobs j = .ok x) :
    x ∈ jobs ∧ x.id = j := by
  have := findE_ok h; simpa using this

theorem getJobOpt_ok {jobs : List JobState} {j : Option Nat} {x : JobState} (h : getJobOpt jobs j = .ok x) :
    x ∈ jobs ∧ j = some x.id := by
  cases j with
  | none => simp [getJobOpt] at h
  | some j => have := getJob_ok (by simpa [getJobOpt] using h); simp [this]

theorem getMachine_ok {l : List MachineState} {i : Nat} {x : MachineState} (h : getMachine l i = .ok x) :
    x ∈ l ∧ x.id = i := by
  have := findE_ok h; simpa using this

theorem getMachineCfg_ok {l : List MachineCfg} {i : Nat} {x : MachineCfg} (h : getMachineCfg l i = .ok x) :
    x ∈ l ∧ x.id = i := by
  have := findE_ok h; simpa using this

theorem getTransport_ok {l : List TransportState} {i : Nat} {x : TransportState} (h : getTransport l i = .ok x) :
    x ∈ l ∧ x.id = i := by
  have := findE_ok h; simpa using this

theorem getTransportCfg_ok {l : List TransportCfg} {i : Nat} {x : TransportCfg} (h : getTransportCfg l i = .ok x) :
    x ∈ l ∧ x.id = i := by
  have := findE_ok h; simpa using this

theorem getBufCfg_ok {l : List BufCfg} {i : Nat} {x : BufCfg} (h : getBufCfg l i = .ok x) :
    x ∈ l ∧ x.id = i := by
  have := findE_ok h; simpa using this

theorem getBufState_ok {l : List BufState} {i : Nat} {x : BufState} (h : getBufState l i = .ok x) :
    x ∈ l ∧ x.id = i := by
  have := findE_ok h; simpa using this

/-- two elements of a list with duplicate-free keys and equal keys are equal -/
theorem eq_of_mem_of_key_eq {α} {key : α → Nat} {l : List α} (hnd : (l.map key).Nodup) {a b : α}
    (ha : a ∈ l) (hb : b ∈ l) (h : key a = key b) : a = b := by
  induction l with
  | nil => cases ha
  | cons x xs ih =>
    simp only [List.map_cons, List.nodup_cons, List.mem_map, not_exists, not_and] at hnd
    rcases List.mem_cons.mp ha with rfl | ha' <;> rcases List.mem_cons.mp hb with rfl | hb'
    · rfl
    · exact absurd h.symm (hnd.1 b hb')
    · exact absurd h (hnd.1 a ha')
    · exact ih hnd.2 ha' hb'

/-- replace-by-key is a point update: membership characterisation -/
theorem mem_replace {α} {key : α → Nat} {l : List α} (hnd : (l.map key).Nodup) {m m' : α} (hm : m ∈ l)
    (hk : key m' = key m) (x : α) :
    x ∈ l.map (fun y => if key y == key m' then m' else y) ↔ (x = m' ∨ (x ∈ l ∧ key x ≠ key m)) := by
  constructor
  · intro hx
    obtain ⟨y, hy, rfl⟩ := List.mem_map.mp hx
    by_cases h : key y = key m'
    · simp [h]
    · right; simp [h]; exact ⟨hy, by rw [← hk]; exact h⟩
  · rintro (rfl | ⟨hx, hne⟩)
    · exact List.mem_map.mpr ⟨m, hm, by simp [hk]⟩
    · exact List.mem_map.mpr ⟨x, hx, by simp [hk, hne]⟩

/-- replace-by-key keeps every projection that agrees on the replaced element -/
theorem map_replace {α β} {key : α → Nat} {l : List α} (hnd : (l.map key).Nodup) {m m' : α} (hm : m ∈ l)
    (hk : key m' = key m) (f : α → β) (hf : f m' = f m) :
    (l.map (fun y => if key y == key m' then m' else y)).map f = l.map f := by
  rw [List.map_map]
  apply List.map_congr_left
  intro y hy
  by_cases h : key y = key m'
  · have : y = m := eq_of_mem_of_key_eq hnd hy hm (by rw [h, hk])
    subst this
    simp [hk, hf]
  · simp [h]

theorem filterE_ok {α} {p : α → Except Err Bool} {l r : List α} (h : filterE p l = .ok r) :
    ∀ x, x ∈ r → x ∈ l ∧ p x = .ok true := by
  induction l generalizing r with
  | nil => simp [filterE] at h; subst h; simp
  | cons a as ih =>
    simp only [filterE] at h
    obtain ⟨b, hb, h⟩ := except_bind_eq_ok h
    obtain ⟨r', hr', h⟩ := except_bind_eq_ok h
    simp at h
    intro x hx
    cases b with
    | true =>
      simp at h; subst h
      rcases List.mem_cons.mp hx with rfl | hx'
      · exact ⟨List.mem_cons_self, hb⟩
      · have := ih hr' x hx'; exact ⟨List.mem_cons_of_mem _ this.1, this.2⟩
    | false =>
      simp at h; subst h
      have := ih hr' x hx; exact ⟨List.mem_cons_of_mem _ this.1, this.2⟩

end JSL
