/-! simp normal form for the `Except` monad used by the model: `ok` / `error` constructors -/

namespace JSL

@[simp] theorem except_pure {ε α} (a : α) : (pure a : Except ε α) = .ok a := rfl
@[simp] theorem except_throw {ε α} (e : ε) : (throw e : Except ε α) = .error e := rfl
@[simp] theorem except_bind_ok {ε α β} (a : α) (f : α → Except ε β) : ((Except.ok a : Except ε α) >>= f) = f a := rfl
@[simp] theorem except_bind_error {ε α β} (e : ε) (f : α → Except ε β) :
    ((Except.error e : Except ε α) >>= f) = .error e := rfl
@[simp] theorem except_map_ok {ε α β} (a : α) (f : α → β) : (f <$> (Except.ok a : Except ε α)) = .ok (f a) := rfl
@[simp] theorem except_map_error {ε α β} (e : ε) (f : α → β) : (f <$> (Except.error e : Except ε α)) = .error e := rfl
@[simp] theorem except_map'_ok {ε α β} (a : α) (f : α → β) : ((Except.ok a : Except ε α).map f) = .ok (f a) := rfl
@[simp] theorem except_map'_error {ε α β} (e : ε) (f : α → β) : ((Except.error e : Except ε α).map f) = .error e := rfl

/-- inversion of a successful bind -/
theorem except_bind_eq_ok {ε α β} {x : Except ε α} {f : α → Except ε β} {b : β}
    (h : (x >>= f) = .ok b) : ∃ a, x = .ok a ∧ f a = .ok b := by
  cases x with
  | error e => simp at h
  | ok a => exact ⟨a, rfl, by simpa using h⟩

end JSL
