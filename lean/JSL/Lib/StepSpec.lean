import JSL.Model.Env
import JSL.Lib.Except

/-! Structural facts about `smStep` obtained by unfolding its definition -/

namespace JSL

theorem isDone_time (inst : Instance) (s : State) (t : Int) :
    isDone inst { s with time := t } = isDone inst s := rfl

/-- The three ways `smStep` returns: failure (the given state back, no offers), done (no offers,
the result state is done), or success with freshly computed offers on a state that is not done. -/
theorem smStep_spec {orc : Oracle} {inst : Instance} {cfg : SMConfig} {fuel : Nat} {s0 : State}
    {r : Rng} {a : Action} {res : SMResult} {r' : Rng} {mic : List State}
    (h : smStep orc inst cfg fuel s0 r a = .ok (res, r', mic)) :
    res.action = a ∧
    ((res.success = false ∧ res.done = false ∧ res.state = s0 ∧ res.possible = []) ∨
     (res.success = true ∧ res.done = true ∧ res.possible = [] ∧ isDone inst res.state = true) ∨
     (res.success = true ∧ res.done = false ∧ isDone inst res.state = false ∧
        possibleTransitions inst cfg res.state = .ok res.possible)) := by
  unfold smStep at h
  simp only [bind, Except.bind, pure, Except.pure] at h
  repeat' split at h
  all_goals first
    | (simp at h; done)
    | (simp only [Except.ok.injEq, Prod.mk.injEq] at h
       obtain ⟨rfl, rfl, rfl⟩ := h
       simp_all [isDone_time])

end JSL
