import JSL.Inv.ObsIndex
import JSL.Inv.ObsSpace

/-!
# C15 — every field of the observation equals an independent reading of the state

`JSL/Props/C15.lean` proves that `job_running`, `machine_running` and `machine_progression` are
indexed by job / machine *number*.  This file supplies the remaining fields of
`SimpleJsspObservationFactory.make` (`simpleObs`):

* `obs_job_progression_by_number` – entry `k` of `job_progression` is the number of finished
  operations of the job numbered `k`;
* `obs_available_by_number` – entry `k` of `available_jobs` says that job `k` has an idle operation
  and is not running;
* `obs_executed_by_number` – row `k`, column `μ` of `job_executed_on_machine` says that job `k` has
  a finished operation on machine `μ`;
* `obs_current_time` – `current_time = time / tmax`;

and of `OperationArrayObservation.make` (`opArrayObs`):

* `opArray_ops_read` – one entry per operation record: 0 idle, 1 done, elapsed fraction when
  processing;
* `opArray_locs_read` – one entry per job: its location divided by `opArrayMaxBuf`.  **This array is
  in the internal order of `state.jobs`, not indexed by job number** (the factory does not sort).

Each `…_by_number` theorem comes in two forms: `∀ j ∈ s.jobs, j.id = k → …` (suffix `_of_mem`) and
the `∃ j ∈ s.jobs, j.id = k ∧ …` form of the theorems in `Props/C15.lean`.
-/

namespace JSL

/-! ## list / `Except` helpers -/

/-- a successful `mapM` in `Except` relates inputs and outputs position by position -/
theorem mapM_except_forall2 {ε α β} (f : α → Except ε β) :
    ∀ (l : List α) (r : List β), l.mapM f = .ok r →
      List.Forall₂ (fun a b => f a = .ok b) l r := by
  intro l
  induction l with
  | nil =>
    intro r h
    simp only [List.mapM_nil, except_pure, Except.ok.injEq] at h
    subst h
    exact .nil
  | cons x xs ih =>
    intro r h
    rw [List.mapM_cons] at h
    obtain ⟨b, hb, h⟩ := except_bind_eq_ok h
    obtain ⟨bs, hbs, h⟩ := except_bind_eq_ok h
    simp only [except_pure, Except.ok.injEq] at h
    subst h
    exact .cons hb (ih bs hbs)

theorem forall2_getElem_left {α β} {R : α → β → Prop} {l : List α} {r : List β}
    (h : List.Forall₂ R l r) : ∀ (i : Nat) (a : α), l[i]? = some a → ∃ b, r[i]? = some b ∧ R a b := by
  induction h with
  | nil => intro i a ha; simp at ha
  | cons hab _ ih =>
    intro i a ha
    cases i with
    | zero =>
      simp only [List.getElem?_cons_zero, Option.some.injEq] at ha
      subst ha
      exact ⟨_, by simp, hab⟩
    | succ i =>
      simp only [List.getElem?_cons_succ] at ha
      obtain ⟨b, hb, hr⟩ := ih i a ha
      exact ⟨b, by simpa using hb, hr⟩

theorem listSet_ok_lt {α} {l r : List α} {i : Nat} {a : α} (h : listSet? l i a = .ok r) :
    i < l.length := by
  unfold listSet? at h
  split at h
  · assumption
  · simp at h

/-- folding `listSet?`: a position no key points at keeps its initial value -/
theorem foldlM_listSet_untouched {α β} (k : β → Nat) (v : β → α) (i : Nat) :
    ∀ (l : List β) (acc r : List α),
      l.foldlM (fun acc j => listSet? acc (k j) (v j)) acc = .ok r →
      (∀ j ∈ l, k j ≠ i) → r[i]? = acc[i]? := by
  intro l
  induction l with
  | nil =>
    intro acc r h _
    simp only [List.foldlM_nil, except_pure, Except.ok.injEq] at h
    subst h
    rfl
  | cons y ys ih =>
    intro acc r h hne
    rw [List.foldlM_cons] at h
    obtain ⟨acc', h1, h⟩ := except_bind_eq_ok h
    have e := listSet_ok h1
    subst e
    rw [ih _ _ h (fun j hj => hne j (List.mem_cons_of_mem _ hj))]
    exact List.getElem?_set_ne (hne y List.mem_cons_self)

/-- folding `listSet?`: a position some key points at, all of whose writers write `x`, holds `x` -/
theorem foldlM_listSet_written {α β} (k : β → Nat) (v : β → α) (i : Nat) (x : α) :
    ∀ (l : List β) (acc r : List α),
      l.foldlM (fun acc j => listSet? acc (k j) (v j)) acc = .ok r →
      (∃ j ∈ l, k j = i) → (∀ j ∈ l, k j = i → v j = x) → r[i]? = some x := by
  intro l
  induction l with
  | nil =>
    intro acc r _ hex _
    obtain ⟨j, hj, _⟩ := hex
    cases hj
  | cons y ys ih =>
    intro acc r h hex hval
    rw [List.foldlM_cons] at h
    obtain ⟨acc', h1, h⟩ := except_bind_eq_ok h
    have hlt := listSet_ok_lt h1
    have e := listSet_ok h1
    subst e
    by_cases hys : ∃ j ∈ ys, k j = i
    · exact ih _ _ h hys (fun j hj => hval j (List.mem_cons_of_mem _ hj))
    · have hne : ∀ j ∈ ys, k j ≠ i := fun j hj e => hys ⟨j, hj, e⟩
      rw [foldlM_listSet_untouched k v i _ _ _ h hne]
      obtain ⟨j, hj, hji⟩ := hex
      rcases List.mem_cons.mp hj with rfl | hj
      · rw [← hval j List.mem_cons_self hji, ← hji]
        exact List.getElem?_set_self hlt
      · exact absurd hji (hne j hj)

theorem inj_of_nodup_map {α} (id : α → Nat) :
    ∀ (l : List α), (l.map id).Nodup → ∀ {a b : α}, a ∈ l → b ∈ l → id a = id b → a = b := by
  intro l
  induction l with
  | nil => intro _ a b ha; cases ha
  | cons x xs ih =>
    intro hnd a b ha hb e
    rw [List.map_cons, List.nodup_cons] at hnd
    rcases List.mem_cons.mp ha with ha1 | ha1
    · rcases List.mem_cons.mp hb with hb1 | hb1
      · rw [ha1, hb1]
      · exact absurd (List.mem_map.mpr ⟨b, hb1, by rw [← e, ha1]⟩) hnd.1
    · rcases List.mem_cons.mp hb with hb1 | hb1
      · exact absurd (List.mem_map.mpr ⟨a, ha1, by rw [e, hb1]⟩) hnd.1
      · exact ih hnd.2 ha1 hb1 e

/-- jobs numbered 0 … n-1: the number determines the job -/
theorem number_unique {α} (id : α → Nat) (l : List α) (n : Nat)
    (hids : (l.map id).Perm (List.range n)) {a b : α} (ha : a ∈ l) (hb : b ∈ l)
    (e : id a = id b) : a = b :=
  inj_of_nodup_map id l (hids.nodup_iff.mpr List.nodup_range) ha hb e

/-- position `k` of the sorted list holds *the* element numbered `k` -/
theorem sorted_getElem_of_mem {α} (id : α → Nat) (l : List α) (n : Nat)
    (hids : (l.map id).Perm (List.range n)) (a : α) (ha : a ∈ l) (hk : id a < n) :
    (sortById id l)[id a]? = some a := by
  obtain ⟨b, hb, hid, hget⟩ := sorted_getElem id l n hids (id a) hk
  have e := number_unique id l n hids ha hb hid.symm
  subst e
  exact hget

/-! ## the parts of a successful `simpleObs` -/

structure SimpleObsParts (nm : Nat) (tmax : Int) (s : State) (o : SimpleObs) : Prop where
  running : o.jobRunning = (sortById (·.id) s.jobs).map (·.running)
  avail : List.Forall₂
    (fun (j : JobState) (b : Bool) =>
      (j.ops.any (·.st == .idle) = false ∧ b = false) ∨
      (j.ops.any (·.st == .idle) = true ∧
        ∃ c, ((sortById (·.id) s.jobs).map (·.running))[j.id]? = some c ∧ b = !c))
    (sortById (·.id) s.jobs) o.availableJobs
  exec : List.Forall₂
    (fun (j : JobState) (row : List Bool) =>
      (j.ops.filter (·.st == .done)).foldlM (fun acc o => listSet? acc o.machine true)
        (List.replicate nm false) = .ok row)
    (sortById (·.id) s.jobs) o.jobExecutedOnMachine
  prog : (sortById (·.id) s.jobs).foldlM
      (fun acc j => listSet? acc j.id (j.ops.filter (·.st == .done)).length)
      (List.replicate (sortById (·.id) s.jobs).length 0) = .ok o.jobProgression

theorem simpleObs_parts {nm : Nat} {tmax : Int} {s : State} {o : SimpleObs}
    (h : simpleObs nm tmax s = .ok o) : SimpleObsParts nm tmax s o := by
  unfold simpleObs at h
  obtain ⟨avail, h1, h⟩ := except_bind_eq_ok h
  obtain ⟨exec, h2, h⟩ := except_bind_eq_ok h
  obtain ⟨prog, h3, h⟩ := except_bind_eq_ok h
  by_cases ht : tmax = 0
  · simp [ht] at h
  · simp only [ht, if_false] at h
    simp only [except_pure, Except.ok.injEq] at h
    subst h
    refine
      { running := rfl
        avail := ?_
        exec := mapM_except_forall2 _ _ _ h2
        prog := h3 }
    refine (mapM_except_forall2 _ _ _ h1).imp ?_
    intro j b hb
    dsimp only at hb
    by_cases hi : j.ops.any (·.st == .idle) = true
    · right
      refine ⟨hi, ?_⟩
      simp only [hi, Bool.not_true, Bool.false_eq_true, if_false] at hb
      split at hb
      · rename_i c hc
        simp only [except_pure, Except.ok.injEq] at hb
        exact ⟨c, hc, hb.symm⟩
      · simp at hb
    · left
      have hi' : j.ops.any (·.st == .idle) = false := by simpa using hi
      refine ⟨hi', ?_⟩
      simp only [hi', Bool.not_false, if_true, except_pure, Except.ok.injEq] at hb
      exact hb.symm

/-! ## `job_progression` -/

theorem obs_job_progression_by_number_of_mem (nm : Nat) (tmax : Int) (s : State) (obs : SimpleObs)
    (h : simpleObs nm tmax s = .ok obs) (n : Nat)
    (hids : (s.jobs.map (·.id)).Perm (List.range n)) (j : JobState) (hj : j ∈ s.jobs) :
    obs.jobProgression[j.id]? = some (j.ops.filter (·.st == .done)).length := by
  have p := simpleObs_parts h
  have hj' : j ∈ sortById (·.id) s.jobs := mem_sortById.mpr hj
  refine foldlM_listSet_written (fun (j : JobState) => j.id)
    (fun (j : JobState) => (j.ops.filter (·.st == .done)).length) j.id _ _ _ _ p.prog
    ⟨j, hj', rfl⟩ ?_
  intro j2 hj2 e
  rw [number_unique (fun (x : JobState) => x.id) s.jobs n hids (mem_sortById.mp hj2) hj e]

/-- the `job_progression` array is indexed by job number and counts the finished operations of
that job -/
theorem obs_job_progression_by_number (nm : Nat) (tmax : Int) (s : State) (obs : SimpleObs)
    (h : simpleObs nm tmax s = .ok obs) (n : Nat)
    (hids : (s.jobs.map (·.id)).Perm (List.range n)) (k : Nat) (hk : k < n) :
    ∃ j ∈ s.jobs, j.id = k ∧
      obs.jobProgression[k]? = some (j.ops.filter (·.st == .done)).length := by
  obtain ⟨j, hj, hid, _⟩ := sorted_getElem (fun (x : JobState) => x.id) s.jobs n hids k hk
  refine ⟨j, hj, hid, ?_⟩
  rw [← hid]
  exact obs_job_progression_by_number_of_mem nm tmax s obs h n hids j hj

/-! ## `available_jobs` -/

theorem mem_lt_of_perm_range {α} (id : α → Nat) (l : List α) (n : Nat)
    (hids : (l.map id).Perm (List.range n)) {a : α} (ha : a ∈ l) : id a < n :=
  List.mem_range.mp (hids.subset (List.mem_map.mpr ⟨a, ha, rfl⟩))

theorem obs_available_by_number_of_mem (nm : Nat) (tmax : Int) (s : State) (obs : SimpleObs)
    (h : simpleObs nm tmax s = .ok obs) (n : Nat)
    (hids : (s.jobs.map (·.id)).Perm (List.range n)) (j : JobState) (hj : j ∈ s.jobs) :
    obs.availableJobs[j.id]? = some (j.ops.any (·.st == .idle) && !j.running) := by
  have p := simpleObs_parts h
  have hk := mem_lt_of_perm_range (fun (x : JobState) => x.id) s.jobs n hids hj
  have hget := sorted_getElem_of_mem (fun (x : JobState) => x.id) s.jobs n hids j hj hk
  obtain ⟨b, hb, hr⟩ := forall2_getElem_left p.avail j.id j hget
  rw [hb]
  rcases hr with ⟨hi, rfl⟩ | ⟨hi, c, hc, rfl⟩
  · simp [hi]
  · rw [List.getElem?_map] at hc
    have hget' : (sortById (fun (x : JobState) => x.id) s.jobs)[j.id]? = some j := hget
    rw [hget'] at hc
    simp only [Option.map_some, Option.some.injEq] at hc
    subst hc
    simp [hi]

/-- the `available_jobs` array is indexed by job number: entry `k` says that the job numbered `k`
has an idle operation and is not running -/
theorem obs_available_by_number (nm : Nat) (tmax : Int) (s : State) (obs : SimpleObs)
    (h : simpleObs nm tmax s = .ok obs) (n : Nat)
    (hids : (s.jobs.map (·.id)).Perm (List.range n)) (k : Nat) (hk : k < n) :
    ∃ j ∈ s.jobs, j.id = k ∧
      obs.availableJobs[k]? = some (j.ops.any (·.st == .idle) && !j.running) := by
  obtain ⟨j, hj, hid, _⟩ := sorted_getElem (fun (x : JobState) => x.id) s.jobs n hids k hk
  refine ⟨j, hj, hid, ?_⟩
  rw [← hid]
  exact obs_available_by_number_of_mem nm tmax s obs h n hids j hj

/-! ## `job_executed_on_machine` -/

/-- one row of `job_executed_on_machine`: column `μ` says whether a finished operation of the job
ran on machine `μ` -/
theorem exec_row_read (nm : Nat) (ops : List OpState) (row : List Bool)
    (h : (ops.filter (·.st == .done)).foldlM (fun acc o => listSet? acc o.machine true)
      (List.replicate nm false) = .ok row) (μ : Nat) (hμ : μ < nm) :
    row[μ]? = some (ops.any fun o => o.st == .done && o.machine == μ) := by
  by_cases hex : ∃ o ∈ ops.filter (·.st == .done), o.machine = μ
  · rw [foldlM_listSet_written (fun (o : OpState) => o.machine) (fun _ => true) μ true _ _ _ h hex
      (fun _ _ _ => rfl)]
    obtain ⟨o, ho, hm⟩ := hex
    rw [List.mem_filter] at ho
    have : (ops.any fun o => o.st == .done && o.machine == μ) = true := by
      rw [List.any_eq_true]
      exact ⟨o, ho.1, by simp [ho.2, hm]⟩
    rw [this]
  · have hne : ∀ o ∈ ops.filter (·.st == .done), o.machine ≠ μ := fun o ho e => hex ⟨o, ho, e⟩
    rw [foldlM_listSet_untouched (fun (o : OpState) => o.machine) (fun _ => true) μ _ _ _ h hne]
    have : (ops.any fun o => o.st == .done && o.machine == μ) = false := by
      rw [List.any_eq_false]
      intro o ho hc
      simp only [Bool.and_eq_true, beq_iff_eq] at hc
      exact hne o (List.mem_filter.mpr ⟨ho, by simp [hc.1]⟩) hc.2
    rw [this]
    simp [hμ]

theorem obs_executed_by_number_of_mem (nm : Nat) (tmax : Int) (s : State) (obs : SimpleObs)
    (h : simpleObs nm tmax s = .ok obs) (n : Nat)
    (hids : (s.jobs.map (·.id)).Perm (List.range n)) (j : JobState) (hj : j ∈ s.jobs) :
    ∃ row, obs.jobExecutedOnMachine[j.id]? = some row ∧ row.length = nm ∧
      ∀ μ, μ < nm → row[μ]? = some (j.ops.any fun o => o.st == .done && o.machine == μ) := by
  have p := simpleObs_parts h
  have hk := mem_lt_of_perm_range (fun (x : JobState) => x.id) s.jobs n hids hj
  have hget := sorted_getElem_of_mem (fun (x : JobState) => x.id) s.jobs n hids j hj hk
  obtain ⟨row, hrow, hr⟩ := forall2_getElem_left p.exec j.id j hget
  refine ⟨row, hrow, ?_, fun μ hμ => exec_row_read nm j.ops row hr μ hμ⟩
  rw [(foldlM_listSet_ok (fun (o : OpState) => o.machine) (fun _ => true) _ _ _ hr).1,
    List.length_replicate]

/-- the `job_executed_on_machine` matrix is indexed by job number and machine number: row `k`,
column `μ` says that the job numbered `k` has a finished operation on machine `μ`.  No hypothesis
on the machine numbers of the operations: a finished operation whose machine number is `≥ nm` makes
the factory raise `IndexError`, contradicting `h`. -/
theorem obs_executed_by_number (nm : Nat) (tmax : Int) (s : State) (obs : SimpleObs)
    (h : simpleObs nm tmax s = .ok obs) (n : Nat)
    (hids : (s.jobs.map (·.id)).Perm (List.range n)) (k : Nat) (hk : k < n) :
    ∃ j ∈ s.jobs, j.id = k ∧ ∃ row, obs.jobExecutedOnMachine[k]? = some row ∧ row.length = nm ∧
      ∀ μ, μ < nm → row[μ]? = some (j.ops.any fun o => o.st == .done && o.machine == μ) := by
  obtain ⟨j, hj, hid, _⟩ := sorted_getElem (fun (x : JobState) => x.id) s.jobs n hids k hk
  refine ⟨j, hj, hid, ?_⟩
  rw [← hid]
  exact obs_executed_by_number_of_mem nm tmax s obs h n hids j hj

/-- a successful observation implies every *finished* operation names a machine `< nm` -/
theorem obs_done_machine_lt (nm : Nat) (tmax : Int) (s : State) (obs : SimpleObs)
    (h : simpleObs nm tmax s = .ok obs) :
    ∀ j ∈ s.jobs, ∀ o ∈ j.ops, o.st = .done → o.machine < nm := by
  intro j hj o ho hst
  have p := simpleObs_parts h
  obtain ⟨i, hi, hget⟩ := List.getElem_of_mem (mem_sortById.mpr hj : j ∈ sortById (·.id) s.jobs)
  obtain ⟨row, _, hr⟩ := forall2_getElem_left p.exec i j (by simp [hi, hget])
  have hlen := (foldlM_listSet_ok (fun (o : OpState) => o.machine) (fun _ => true) _ _ _ hr).1
  have hmem : o ∈ j.ops.filter (·.st == .done) := List.mem_filter.mpr ⟨ho, by simp [hst]⟩
  have hw := foldlM_listSet_written (fun (o : OpState) => o.machine) (fun _ => true) o.machine true
    _ _ _ hr ⟨o, hmem, rfl⟩ (fun _ _ _ => rfl)
  have hlt : o.machine < row.length := by
    rcases Nat.lt_or_ge o.machine row.length with hlt | hge
    · exact hlt
    · rw [List.getElem?_eq_none hge] at hw
      cases hw
  rw [hlen, List.length_replicate] at hlt
  exact hlt

/-! ## `current_time` -/

/-- `current_time` is the state's time divided by the configured horizon -/
theorem obs_current_time (nm : Nat) (tmax : Int) (s : State) (obs : SimpleObs)
    (h : simpleObs nm tmax s = .ok obs) :
    obs.currentTime = (s.time : Rat) / (tmax : Rat) ∧ tmax ≠ 0 :=
  ⟨(simpleObs_facts h).time, (simpleObs_facts h).tmaxNe⟩

/-! ## `OperationArrayObservation.make` -/

/-- the divisor of the job locations: number of buffers + 3 · machines + transports, minus one -/
def opArrayMaxBuf (inst : Instance) : Int :=
  (inst.buffers.length + inst.machines.length * 3 + inst.transports.length : Nat) - 1

/-- what the entry of an operation record must be -/
def OpEntryRead (time : Int) (o : OpState) (v : Rat) : Prop :=
  (o.st = .idle → v = 0) ∧ (o.st = .done → v = 1) ∧
  (o.st = .processing → ∃ a b, o.start = some a ∧ o.stop = some b ∧ b - a ≠ 0 ∧
    v = ((time - a : Int) : Rat) / ((b - a : Int) : Rat)) ∧
  o.st ≠ .transport

theorem opArrayObs_parts {inst : Instance} {s : State} {ops locs : List Rat}
    (h : opArrayObs inst s = .ok (ops, locs)) :
    List.Forall₂ (OpEntryRead s.time) (s.jobs.flatMap (·.ops)) ops ∧
    List.Forall₂ (fun (j : JobState) (v : Rat) =>
      opArrayMaxBuf inst ≠ 0 ∧ v = (j.loc : Rat) / (opArrayMaxBuf inst : Rat)) s.jobs locs := by
  unfold opArrayObs at h
  obtain ⟨ops', h1, h⟩ := except_bind_eq_ok h
  obtain ⟨locs', h2, h⟩ := except_bind_eq_ok h
  simp only [except_pure, Except.ok.injEq, Prod.mk.injEq] at h
  obtain ⟨rfl, rfl⟩ := h
  constructor
  · refine (mapM_except_forall2 _ _ _ h1).imp ?_
    intro o v hv
    unfold OpEntryRead
    split at hv
    · rename_i hst
      simp only [except_pure, Except.ok.injEq] at hv
      simp [hst, hv.symm]
    · rename_i hst
      simp only [except_pure, Except.ok.injEq] at hv
      simp [hst, hv.symm]
    · rename_i hst
      split at hv
      · rename_i a b ha hb
        by_cases hz : b - a = 0
        · simp [hz] at hv
        · simp only [hz, if_false, except_pure, Except.ok.injEq] at hv
          refine ⟨by simp [hst], by simp [hst], fun _ => ⟨a, b, ha, hb, hz, hv.symm⟩, by simp [hst]⟩
      · simp at hv
    · simp at hv
  · refine (mapM_except_forall2 _ _ _ h2).imp ?_
    intro j v hv
    have hv' : (if opArrayMaxBuf inst = 0 then (throw Err.zeroDivision : Except Err Rat)
        else pure ((j.loc : Rat) / (opArrayMaxBuf inst : Rat))) = .ok v := hv
    by_cases hz : opArrayMaxBuf inst = 0
    · rw [if_pos hz] at hv'
      simp at hv'
    · rw [if_neg hz] at hv'
      simp only [except_pure, Except.ok.injEq] at hv'
      exact ⟨hz, hv'.symm⟩

/-- **Operation entries**: the first array has one entry per operation record, in the order of
`state.jobs` and of each job's operations: 0 for an idle operation, 1 for a finished one, the
elapsed fraction `(time - start) / (stop - start)` for one in process (and no operation is in
state `transport`, for which the factory raises `NotImplementedError`). -/
theorem opArray_ops_read (inst : Instance) (s : State) (ops locs : List Rat)
    (h : opArrayObs inst s = .ok (ops, locs)) :
    ops.length = (s.jobs.flatMap (·.ops)).length ∧
    List.Forall₂ (OpEntryRead s.time) (s.jobs.flatMap (·.ops)) ops :=
  ⟨(opArrayObs_parts h).1.length_eq.symm, (opArrayObs_parts h).1⟩

/-- the same, position by position -/
theorem opArray_ops_read_at (inst : Instance) (s : State) (ops locs : List Rat)
    (h : opArrayObs inst s = .ok (ops, locs)) (i : Nat) (o : OpState)
    (ho : (s.jobs.flatMap (·.ops))[i]? = some o) :
    ∃ v, ops[i]? = some v ∧ OpEntryRead s.time o v :=
  forall2_getElem_left (opArrayObs_parts h).1 i o ho

/-- **Job locations**: the second array has one entry per job, the job's location divided by
`opArrayMaxBuf inst`.  The array follows the *internal order* of `state.jobs`; it is **not**
indexed by job number (the factory iterates `state.jobs` without sorting), unlike the arrays of
`SimpleJsspObservationFactory`.  The divisor is non-zero as soon as there is a job (with no jobs
the factory returns two empty arrays whatever the divisor). -/
theorem opArray_locs_read (inst : Instance) (s : State) (ops locs : List Rat)
    (h : opArrayObs inst s = .ok (ops, locs)) :
    locs.length = s.jobs.length ∧
    List.Forall₂ (fun (j : JobState) (v : Rat) => v = (j.loc : Rat) / (opArrayMaxBuf inst : Rat))
      s.jobs locs ∧
    (s.jobs ≠ [] → opArrayMaxBuf inst ≠ 0) := by
  have p := (opArrayObs_parts h).2
  refine ⟨p.length_eq.symm, p.imp (fun _ _ h => h.2), ?_⟩
  revert p
  generalize s.jobs = l
  intro p hne
  cases p with
  | nil => exact absurd rfl hne
  | cons hab _ => exact hab.1

/-- the same, position by position (positions of `state.jobs`, not job numbers) -/
theorem opArray_locs_read_at (inst : Instance) (s : State) (ops locs : List Rat)
    (h : opArrayObs inst s = .ok (ops, locs)) (i : Nat) (j : JobState)
    (hj : s.jobs[i]? = some j) :
    locs[i]? = some ((j.loc : Rat) / (opArrayMaxBuf inst : Rat)) ∧ opArrayMaxBuf inst ≠ 0 := by
  obtain ⟨v, hv, hz, rfl⟩ := forall2_getElem_left (opArrayObs_parts h).2 i j hj
  exact ⟨hv, hz⟩

/-- with no jobs the factory succeeds although the divisor may be zero: `maxBuf ≠ 0` is not a
consequence of success alone -/
theorem opArray_no_jobs_zero_divisor :
    let inst : Instance := { jobs := [], travel := [], machines := [], buffers := [default], transports := [] }
    let s : State := { jobs := [], time := 0, machines := [], transports := [], buffers := [] }
    opArrayMaxBuf inst = 0 ∧ opArrayObs inst s = .ok ([], []) := by
  decide

end JSL
