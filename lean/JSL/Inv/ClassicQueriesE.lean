import JSL.Inv.ClassicQueries
import JSL.Inv.ClassicInvE

/-!
# States without offers when AGVs may be waiting for running jobs

The early-dispatch versions of `dispatch_offered`, `no_dispatch_at_pre`, `dead_point_busy` of
`JSL/Inv/ClassicQueries.lean`: instead of "every AGV is idle" we assume that there are at least as many
AGVs as jobs and that every busy AGV claims a RUNNING job.  Then a job that is not running is claimed by
nobody and some AGV is idle (pigeonhole), so at a pickup place a dispatch for it is on offer — for any
value of `cfg.allowEarly`.
-/

namespace JSL

variable {orc : Oracle} {inst : Instance}

/-- a list whose images under `g` are pairwise different has pairwise different images under `f`, when `f` is
injective "modulo `g`" on the list -/
theorem nodup_map_of_nodup_map_E {α : Type} {f g : α → Nat} {l : List α} (hg : (l.map g).Nodup)
    (hinj : ∀ a ∈ l, ∀ b ∈ l, f a = f b → g a = g b) : (l.map f).Nodup := by
  unfold List.Nodup at hg ⊢
  rw [List.pairwise_map] at hg ⊢
  exact List.Pairwise.imp_of_mem (fun {a b} ha hb hne e => hne (hinj a ha b hb e)) hg

/-- a job that is not running is claimed by nobody, when every busy AGV claims a running job -/
theorem unclaimed_of_not_running_E (w : WF inst) {s : State} (hI : StructInv inst s) (hS : SchedInv s)
    (hbusy : ∀ t ∈ s.transports, t.st ≠ .idle → ∃ j ∈ s.jobs, t.job = some j.id ∧ j.running = true)
    {j : JobState} (hj : j ∈ s.jobs) (hrun : j.running = false) : ∀ t ∈ s.transports, t.job ≠ some j.id := by
  intro t ht htj
  by_cases hi : t.st = .idle
  · have := hS.freeNoClaim t ht (Or.inl hi)
    rw [this] at htj; cases htj
  · obtain ⟨j', hj', hc, hr⟩ := hbusy t ht hi
    rw [hc] at htj
    have hid : j'.id = j.id := by injection htj
    have : j' = j := eq_of_mem_of_key_eq (key := fun (y : JobState) => y.id) (hI.shape.jobsNodup w) hj' hj hid
    subst this
    rw [hrun] at hr; cases hr

set_option linter.unusedVariables false in
/-- some AGV is idle when every busy AGV claims a running job, there are at least as many AGVs as jobs, and some
job is not running -/
theorem exists_idle_agv (w : WF inst) {s : State} (hI : StructInv inst s) (hA : AgvFull inst s)
    (hcount : inst.jobs.length ≤ inst.transports.length)
    (hbusy : ∀ t ∈ s.transports, t.st ≠ .idle → ∃ j ∈ s.jobs, t.job = some j.id ∧ j.running = true)
    {j0 : JobState} (hj0 : j0 ∈ s.jobs) (hnr : j0.running = false) : ∃ t ∈ s.transports, t.st = .idle := by
  apply Classical.byContradiction
  intro hno
  have hall : ∀ t ∈ s.transports, t.st ≠ .idle := fun t ht e => hno ⟨t, ht, e⟩
  have hs := hI.shape
  have hjn := hs.jobsNodup w
  -- the claimed job of every AGV
  have hcl : ∀ t ∈ s.transports, ∃ j ∈ s.jobs, t.job = some j.id ∧ j.running = true ∧ t.job.getD 0 = j.id := by
    intro t ht
    obtain ⟨j, hj, hc, hr⟩ := hbusy t ht (hall t ht)
    exact ⟨j, hj, hc, hr, by rw [hc]; rfl⟩
  have hnd : (s.transports.map (fun t => t.job.getD 0)).Nodup := by
    apply nodup_map_of_nodup_map_E (g := fun (t : TransportState) => t.id) (hs.trNodup w)
    intro a ha b hb e
    obtain ⟨ja, _, hca, _, ea⟩ := hcl a ha
    obtain ⟨jb, _, hcb, _, eb⟩ := hcl b hb
    rw [ea, eb] at e
    exact hA.agv.unique a ha b hb ja.id hca (by rw [hcb, e])
  have hnot : j0.id ∉ s.transports.map (fun t => t.job.getD 0) := by
    intro hmem
    obtain ⟨t, ht, e⟩ := List.mem_map.mp hmem
    obtain ⟨j, hj, _, hr, ej⟩ := hcl t ht
    rw [ej] at e
    have : j = j0 := eq_of_mem_of_key_eq (key := fun (y : JobState) => y.id) hjn hj hj0 e
    subst this
    rw [hnr] at hr; cases hr
  have hsub : ∀ a ∈ j0.id :: s.transports.map (fun t => t.job.getD 0), a ∈ s.jobs.map (·.id) := by
    intro a ha
    rcases List.mem_cons.mp ha with rfl | ha
    · exact List.mem_map.mpr ⟨j0, hj0, rfl⟩
    · obtain ⟨t, ht, e⟩ := List.mem_map.mp ha
      obtain ⟨j, hj, _, _, ej⟩ := hcl t ht
      exact List.mem_map.mpr ⟨j, hj, by rw [← e, ej]⟩
  have hlen := nodup_subset_length (List.nodup_cons.mpr ⟨hnot, hnd⟩) hsub
  have hjl : (s.jobs.map (·.id)).length = inst.jobs.length := by rw [hs.jobIds]; simp
  have htl : s.transports.length = inst.transports.length := by
    have := congrArg List.length hs.transports
    simpa using this
  simp only [List.length_cons, List.length_map] at hlen hjl
  omega

/-- a job that is not running, is claimed by nobody and lies in a buffer AGVs pick up from (not an output
buffer) is on offer for a dispatch to any idle AGV — whatever `cfg.allowEarly` is -/
theorem dispatch_offered_early (w : WF inst) (hF : FlexInst inst) (hall : ∀ tc ∈ inst.transports, tc.type = .agv)
    {cfg : SMConfig} {s : State}
    (hI : StructInv inst s) {t0 : TransportState} (ht0 : t0 ∈ s.transports) (hidle0 : t0.st = .idle)
    {j : JobState} (hj : j ∈ s.jobs) (hrun : j.running = false)
    (hcl : ∀ t ∈ s.transports, t.job ≠ some j.id)
    {b : BufState} (hb : b ∈ allBufStates s) (hloc : j.loc = b.id) (hin : j.id ∈ b.store)
    (hk : pickupBufferKind inst b.id = true) (hout : j.loc ∉ outputIds inst)
    (hpre : ∀ m ∈ s.machines, m.pre.id ≠ j.loc)
    {pt : List Transition} (hpt : possibleTransportTransitions inst cfg s = .ok pt) :
    ({ comp := .t t0.id, new := .t .working, job := some j.id } : Transition) ∈ pt := by
  have hs := hI.shape
  obtain ⟨tc, htc, hk0⟩ := hs.transport_cfg ht0
  simp only [tKey, tcKey, Prod.mk.injEq] at hk0
  have hty := hall tc htc
  unfold possibleTransportTransitions at hpt
  obtain ⟨ts, hts, hpt⟩ := except_bind_eq_ok hpt
  obtain ⟨idle, hidl, hpt⟩ := except_bind_eq_ok hpt
  simp only at hpt
  obtain ⟨lonely, hlonely, hpt⟩ := except_bind_eq_ok hpt
  simp at hpt; subst hpt
  have ht0' : t0 ∈ ts := possibleTransports_mem w hts ht0 hidle0 htc hk0.1.symm hty
  have hjf : j ∈ s.jobs.filter (!·.running) := List.mem_filter.mpr ⟨hj, by simp [hrun]⟩
  obtain ⟨b', hb'⟩ := filterE_total hidl j hjf
  have hbt := transportable_true hout hpre hb'
  subst hbt
  have hji : j ∈ idle := filterE_mem_of_true hidl j hjf hb'
  have hjl : j ∈ (s.jobs.filter (·.running) ++ idle).filter
      (fun j => !(s.transports.filterMap (·.job)).contains j.id) := by
    apply List.mem_filter.mpr
    refine ⟨List.mem_append.mpr (Or.inr hji), ?_⟩
    cases hc : (s.transports.filterMap (·.job)).contains j.id with
    | false => rfl
    | true =>
      obtain ⟨t, ht, e⟩ := List.mem_filterMap.mp (List.contains_iff_mem.mp hc)
      exact absurd e (hcl t ht)
  have hjlo : j ∈ lonely := by
    unfold earlyFilter at hlonely
    by_cases he : cfg.allowEarly = true
    · rw [if_pos he] at hlonely
      injection hlonely with h'
      rw [← h']; exact hjl
    · rw [if_neg he] at hlonely
      exact filterE_mem_of_true hlonely j hjl (readyForPickup_flex w hF hs hb hloc hin hk)
  exact List.mem_flatMap.mpr ⟨t0, ht0', List.mem_map.mpr ⟨j, hjlo, rfl⟩⟩

/-- with at least as many AGVs as jobs, every busy AGV claiming a running job and no dispatch on offer, every job that
is not running and has an idle record stands in the pre-buffer of the machine of that record -/
theorem no_dispatch_at_pre_early (w : WF inst) (hC : Classic inst) {s : State} (hI : StructInv inst s) (hS : SchedInv s)
    (hA : AgvFull inst s) {cfg : SMConfig} (hcount : inst.jobs.length ≤ inst.transports.length)
    (hbusy : ∀ t ∈ s.transports, t.st ≠ .idle → ∃ j ∈ s.jobs, t.job = some j.id ∧ j.running = true)
    {pt : List Transition} (hpt : possibleTransportTransitions inst cfg s = .ok pt) (hnil : pt = []) :
    ∀ j ∈ s.jobs, j.running = false → ∀ o, j.nextIdle? = some o →
      ∃ m ∈ s.machines, m.id = o.machine ∧ m.pre.id = j.loc ∧ j.id ∈ m.pre.store := by
  intro j hj hrun o hn
  have hs := hI.shape
  have hjn := hs.jobsNodup w
  obtain ⟨t0, ht0, hidle0⟩ := exists_idle_agv w hI hA hcount hbusy hj hrun
  have hcl := unclaimed_of_not_running_E w hI hS hbusy hj hrun
  obtain ⟨b, hb, hbid, hin⟩ := job_buffer hI hj
  have hout : j.loc ∉ outputIds inst := by
    intro h
    have hd := hA.route.delivered j hj h o (List.mem_of_find?_eq_some hn)
    have hi : (o.st == OSt.idle) = true := (find?_mem_ops hn).2
    rw [hd] at hi; cases hi
  rcases (mem_allBufs s b).mp hb with hb1 | ⟨m, hm, rfl | rfl | rfl⟩ | ⟨t, ht, rfl⟩
  · -- a standalone buffer that is not an output buffer: the dispatch would be on offer
    exfalso
    have hp := (ids_parts hs w).1 b hb1
    have hmem := dispatch_offered_early w hC.flex hC.allAgv hI ht0 hidle0 hj hrun hcl hb hbid.symm hin
      (kind_of_buffer hs hb1) hout (fun m hm => by rw [← hbid]; exact (hp m hm).1.symm) hpt
    rw [hnil] at hmem; cases hmem
  · -- the pre-buffer of `m`
    obtain ⟨op, hni, hopm⟩ := hA.route.preNext m hm j.id hin j hj rfl
    rw [hn] at hni
    injection hni with hni
    subst hni
    exact ⟨m, hm, hopm.symm, hbid, hin⟩
  · -- the internal buffer of `m`: the job would be running
    exfalso
    have hbusym : m.st ≠ .idle := by
      intro e
      have := hS.idleEmpty m hm e
      rw [this] at hin; cases hin
    obtain ⟨j', hj', hst, op, hp, _⟩ := hS.busyHolds m hm hbusym
    rw [hst] at hin
    have hid : j.id = j'.id := by simpa using hin
    have : j = j' := eq_of_mem_of_key_eq (key := fun (y : JobState) => y.id) hjn hj hj' hid
    subst this
    have : j.running = true := by
      unfold JobState.running
      unfold JobState.processing? at hp
      exact List.any_eq_true.mpr ⟨op, (find?_mem_ops hp).1, (find?_mem_ops hp).2⟩
    rw [hrun] at this; cases this
  · -- the post-buffer of `m`: the dispatch would be on offer
    exfalso
    have hmem := dispatch_offered_early w hC.flex hC.allAgv hI ht0 hidle0 hj hrun hcl hb hbid.symm hin
      (kind_of_post hs hm) hout
      (fun m2 hm2 => by
        rw [← hbid]
        by_cases e2 : m2.id = m.id
        · have : m2 = m := eq_of_mem_of_key_eq (key := fun (y : MachineState) => y.id) (hs.machNodup w) hm2 hm e2
          subst this; exact (machine_buf_ids_ne hs w hm2).2.1
        · exact machines_bufs_ne hs w hm2 hm e2 _ (by simp) _ (by simp)) hpt
    rw [hnil] at hmem; cases hmem
  · -- on an AGV: a carried job is claimed, but nobody claims `j`
    exfalso
    by_cases htr : t.st = .transit
    · exact hcl t ht (hA.route.transitOwn t ht htr j.id hin)
    · have := hA.agv.empty t ht htr
      rw [this] at hin; cases hin

/-- a dead point with early dispatch: nothing on offer — then the machine of the next operation of every waiting job
is busy -/
theorem dead_point_busy_early (w : WF inst) (hC : Classic inst) {s : State} (hI : StructInv inst s) (hS : SchedInv s)
    (hA : AgvFull inst s) {cfg : SMConfig} (hcount : inst.jobs.length ≤ inst.transports.length)
    (hbusy : ∀ t ∈ s.transports, t.st ≠ .idle → ∃ j ∈ s.jobs, t.job = some j.id ∧ j.running = true)
    (h0 : numPossibleEvents inst cfg s = .ok 0) :
    ∀ j ∈ s.jobs, j.running = false → ∀ o, j.nextIdle? = some o → ∀ m ∈ s.machines, m.id = o.machine → m.st ≠ .idle := by
  intro j hj hrun o hn m hm hmid hst
  have hs := hI.shape
  unfold numPossibleEvents at h0
  obtain ⟨pt, hpt, h0⟩ := except_bind_eq_ok h0
  obtain ⟨pj, hpj, h0⟩ := except_bind_eq_ok h0
  simp only [except_pure, Except.ok.injEq] at h0
  have hptn : pt = [] := List.eq_nil_of_length_eq_zero (by omega)
  have hpjn : pj = [] := List.eq_nil_of_length_eq_zero (by omega)
  obtain ⟨m', hm', hid', _, hin⟩ := no_dispatch_at_pre_early w hC hI hS hA hcount hbusy hpt hptn j hj hrun o hn
  have : m' = m := eq_of_mem_of_key_eq (key := fun (y : MachineState) => y.id) (hs.machNodup w) hm' hm
    (by rw [hid', hmid])
  subst this
  unfold possibleJobs at hpj
  obtain ⟨b', hb'⟩ := filterE_total hpj j hj
  have := actionPossible_true w hI hS hA.route hj hm hst hin hb'
  subst this
  have := filterE_mem_of_true hpj j hj hb'
  rw [hpjn] at this; cases this

end JSL
