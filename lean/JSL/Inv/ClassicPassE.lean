import JSL.Inv.ClassicFrameE
import JSL.Inv.ClassicStepE
import JSL.Inv.ClassicBatchE
import JSL.Inv.ClassicQueriesE
import JSL.Inv.ClassicTotalsE
import JSL.Inv.ClassicSyncE
import JSL.Inv.ClassicTotalR
import JSL.Inv.ClassicPass

/-!
# The classic pass with early dispatch

`CPassE`: `BundleE` (`AgvFull`, `Ready`, `CInvE`) with the duration invariant as a `Pass`, for any
`allowEarly`; `cpassE_total_of`: it meets the interface `TotalHypR` of the totality plumbing with the
measure `muE` and the re-wait predicate `RWE`; `cpassE_total`: the instance for "in step with the
target schedule", which needs at least as many AGVs as jobs (so that a waiting job always finds an
idle AGV when every busy AGV waits for a running job).
-/

namespace JSL

variable {orc : Oracle} {inst : Instance} {cfg : SMConfig}

def CPassE (orc : Oracle) (inst : Instance) (cfg : SMConfig) (w : WF inst) (nn : NonNeg orc inst) (hC : Classic inst) :
    Pass orc inst cfg where
  P := fun s => BundleE inst s ∧ DurInv inst s
  GS := fun s L => FullGS s L ∧ DueGS s L ∧ EnGSE inst s L
  Adm := AdmOffer inst cfg
  tail := fun h => ⟨(FullPass orc inst cfg w).tail h.1, h.2.1.tail, h.2.2.tail⟩
  step := fun {s s' r r' tr R} hI hS hP hv hsafe hfresh hgs ha => by
    have h1 := (ReadyPass orc inst cfg w hC.tables).step hI hS ⟨hP.1.full, hP.1.ready⟩ hv hsafe hfresh hgs.1 ha
    have h2 := (DurPass orc inst cfg w nn).step hI hS hP.2 hv hsafe hfresh hgs.2.1 ha
    have h3 := cinvE_step w hC hI hS hP.1 (hgs.2.2.en tr (by simp))
      (fun m hm hc hn => hgs.2.1.due tr (by simp) m.id hc (Or.inl hn) m hm rfl) hv ha
    have h4 := enGSE_step w hI hS hP.1.full hP.1.cinv hgs.2.2 ha
    exact ⟨⟨⟨h1.1.1, h1.1.2, h3⟩, h2.1⟩, h1.2, h2.2, h4⟩
  advance := fun {s t} hI hS hP hle hpend => by
    have h1 := (ReadyPass orc inst cfg w hC.tables).advance hI hS ⟨hP.1.full, hP.1.ready⟩ hle hpend
    exact ⟨⟨h1.1, h1.2, hP.1.cinv.time hle⟩, (DurPass orc inst cfg w nn).advance hI hS hP.2 hle hpend⟩
  timed := fun hI hS hP htt hposs htele =>
    ⟨(FullPass orc inst cfg w).timed hI hS hP.1.full htt hposs htele,
     (DurPass orc inst cfg w nn).timed hI hS hP.2 htt hposs htele, timed_enGSE w hC hI hS hP.1 htt hposs htele⟩
  timedOnly := fun hI hS hP htt =>
    ⟨(FullPass orc inst cfg w).timedOnly hI hS hP.1.full htt, (DurPass orc inst cfg w nn).timedOnly hI hS hP.2 htt,
     timedOnly_enGSE w hC hI hS hP.1 htt⟩
  action := fun hI hS hP hadm =>
    ⟨(FullPass orc inst cfg w).action hI hS hP.1.full hadm,
     (DurPass orc inst cfg w nn).action hI hS hP.2 (admOffer_shaped hadm), action_enGSE w hC hI hS hP.1 hadm⟩

/-- `create_timed_transitions` never raises (the claimed job of a dispatched AGV exists; where it lies does
not matter here) -/
theorem timedTransitions_totalE (w : WF inst) (hC : Classic inst) {s : State} (hI : StructInv inst s)
    (hS : SchedInv s) (hA : AgvFull inst s) (hP : CInvE inst s) : ∃ tt, timedTransitions inst s = .ok tt := by
  have hs := hI.shape
  have hjn := hs.jobsNodup w
  obtain ⟨a, ha⟩ := timedMachineTransitions_total w hC.flex hI hS
  have htr : ∀ t ∈ s.transports, ∃ r, timedTransport inst s t = .ok r := by
    intro t ht
    unfold timedTransport
    cases hocc : t.occ with
    | dep b j tr => exact absurd hocc (hP.noDep t ht b j tr)
    | none => exact ⟨_, rfl⟩
    | «at» o =>
      simp only
      by_cases hdue : o ≤ s.time
      · rw [if_pos hdue]
        have claim : t.st = .pickup ∨ t.st = .waitingpickup → ∃ r, agvIdleToPickTransition inst s t = .ok r := by
          intro hst
          obtain ⟨j, hj, htj, _⟩ := hP.claimed t ht hst
          obtain ⟨b, hb⟩ := readyForPickup_total w hI hj
          unfold agvIdleToPickTransition
          simp only [htj, optE, except_pure, except_bind_ok, getJob_of_mem hjn hj, hb]
          exact ⟨_, rfl⟩
        cases hst : t.st with
        | idle => simp only [agvTimedCreator]; exact ⟨_, rfl⟩
        | working => exact absurd hst (hP.noWorking t ht)
        | pickup => simp only [agvTimedCreator]; exact claim (Or.inl hst)
        | waitingpickup => simp only [agvTimedCreator]; exact claim (Or.inr hst)
        | transit =>
          obtain ⟨j, hj, hstore⟩ := hA.agv.holds t ht hst
          simp only [agvTimedCreator, hstore, getJob_of_mem hjn hj, except_bind_ok, except_pure]
          exact ⟨_, rfl⟩
        | outage => simp only [agvTimedCreator]; exact ⟨_, rfl⟩
      · rw [if_neg hdue]; exact ⟨_, rfl⟩
  obtain ⟨l, hl⟩ := mapM_ok_of_total (f := timedTransport inst s) (l := s.transports) htr
  have hb : timedTransportTransitions inst s = .ok (l.filterMap id) := by
    unfold timedTransportTransitions; rw [hl]; rfl
  unfold timedTransitions
  simp only [ha, hb, except_bind_ok, except_pure]
  exact ⟨_, rfl⟩

end JSL
