import JSL.Model.RoomyPre
import JSL.Inv.TotalDefs

/-!
# The wider class `totalClassPB`: definitions and the instance `preFlex inst`

`PickFlex inst` – the `Prop` version of `pickupFlexB`; `TotClassP inst` – `TotClass inst` with `FlexInst`
replaced by `PickFlex`.

The proofs for the class `totalClassB` take `C : TotClass inst`.  They are reused through the instance
`preFlex inst` (every pre-buffer declared unordered): `TotClassP inst → TotClass (preFlex inst)`, every
invariant of `inst` is one of `preFlex inst` (this file, `PreTransfer.lean`), and the functions of the
model agree on the two instances except `machineSetupTransition` (`PreEq.lean`).
-/

namespace JSL

variable {orc : Oracle} {inst : Instance}

/-- every buffer a job is picked up from, and every AGV buffer, is unordered -/
structure PickFlex (inst : Instance) : Prop where
  standalone : ∀ bc ∈ inst.buffers, bc.type = .flex
  buf : ∀ mc ∈ inst.machines, mc.buf.type = .flex
  post : ∀ mc ∈ inst.machines, mc.post.type = .flex
  agv : ∀ tc ∈ inst.transports, tc.buf.type = .flex

theorem pickupFlexB_sound (h : pickupFlexB inst = true) : PickFlex inst := by
  simp only [pickupFlexB, Bool.and_eq_true, List.all_eq_true, beq_iff_eq] at h
  exact ⟨h.1.1, fun mc hmc => (h.1.2 mc hmc).1, fun mc hmc => (h.1.2 mc hmc).2, h.2⟩

/-- the static part of the wider class -/
structure TotClassP (inst : Instance) : Prop where
  tables : TablesTotal inst
  roomy : Roomy inst
  parents : Parents inst
  agvOnly : AgvOnly inst
  routes : Routes inst
  jobsOps : JobsHaveOps inst
  pflex : PickFlex inst

theorem totalInstPB_sound (h : totalInstPB inst = true) : TotClassP inst := by
  simp only [totalInstPB, Bool.and_eq_true] at h
  obtain ⟨⟨⟨⟨⟨⟨h1, h2⟩, h3⟩, h4⟩, h5⟩, h6⟩, h7⟩ := h
  exact ⟨tablesTotalB_sound h1, roomyB_sound h2, parentsB_sound h3, agvOnlyB_sound h4, routesB_sound h5,
    jobsHaveOpsB_sound h6, pickupFlexB_sound h7⟩

theorem totalClassPB_sound {s0 : State} (h : totalClassPB inst s0 = true) :
    TotClassP inst ∧ inst.jobs ≠ [] ∧ Ready inst s0 ∧ OutShape inst s0 ∧ outRestB s0 = true := by
  simp only [totalClassPB, Bool.and_eq_true] at h
  obtain ⟨⟨⟨⟨h1, h2⟩, h3⟩, h4⟩, h5⟩ := h
  refine ⟨totalInstPB_sound h1, ?_, readyB_sound h3, outShapeB_sound h4, h5⟩
  simpa [hasJobsB] using h2

/-- the narrower class is contained in the wider one -/
theorem totalClassPB_of_totalClassB {s0 : State} (h : totalClassB inst s0 = true) : totalClassPB inst s0 = true := by
  simp only [totalClassB, totalInstB, Bool.and_eq_true] at h
  obtain ⟨⟨⟨⟨⟨⟨⟨⟨⟨⟨h1, h2⟩, h3⟩, h4⟩, h5⟩, h6⟩, h7⟩, h8⟩, h9⟩, h10⟩, h11⟩ := h
  have hp : pickupFlexB inst = true := by
    simp only [flexInstB, List.all_eq_true, beq_iff_eq] at h7
    simp only [pickupFlexB, Bool.and_eq_true, List.all_eq_true, beq_iff_eq]
    refine ⟨⟨fun bc hbc => h7 bc ?_, fun mc hmc => ⟨h7 _ ?_, h7 _ ?_⟩⟩, fun tc htc => h7 _ ?_⟩
    · simp [allBufCfgs, hbc]
    · simp only [allBufCfgs, List.mem_append, List.mem_flatMap]
      exact Or.inl (Or.inr ⟨mc, hmc, by simp⟩)
    · simp only [allBufCfgs, List.mem_append, List.mem_flatMap]
      exact Or.inl (Or.inr ⟨mc, hmc, by simp⟩)
    · simp only [allBufCfgs, List.mem_append, List.mem_map]
      exact Or.inr ⟨tc, htc, rfl⟩
  simp [totalClassPB, totalInstPB, h1, h2, h3, h4, h5, h6, hp, h8, h9, h10, h11]

/-! ## `preFlex inst` -/

/-- a machine configuration with its pre-buffer declared unordered -/
def pfM (mc : MachineCfg) : MachineCfg := { mc with pre := { mc.pre with type := .flex } }

theorem preFlex_machines : (preFlex inst).machines = inst.machines.map pfM := rfl

@[simp] theorem pfM_id (mc : MachineCfg) : (pfM mc).id = mc.id := rfl
@[simp] theorem pfM_outages (mc : MachineCfg) : (pfM mc).outages = mc.outages := rfl
@[simp] theorem pfM_setup (mc : MachineCfg) : (pfM mc).setup = mc.setup := rfl
@[simp] theorem pfM_post (mc : MachineCfg) : (pfM mc).post = mc.post := rfl
@[simp] theorem pfM_buf (mc : MachineCfg) : (pfM mc).buf = mc.buf := rfl
@[simp] theorem pfM_pre_id (mc : MachineCfg) : (pfM mc).pre.id = mc.pre.id := rfl
@[simp] theorem pfM_pre_cap (mc : MachineCfg) : (pfM mc).pre.cap = mc.pre.cap := rfl
@[simp] theorem pfM_pre_parent (mc : MachineCfg) : (pfM mc).pre.parent = mc.pre.parent := rfl
@[simp] theorem pfM_pre_role (mc : MachineCfg) : (pfM mc).pre.role = mc.pre.role := rfl
@[simp] theorem pfM_pre_type (mc : MachineCfg) : (pfM mc).pre.type = .flex := rfl

/-- a buffer configuration with its type forgotten -/
def eraseT (c : BufCfg) : BufCfg := { c with type := .flex }

@[simp] theorem eraseT_id (c : BufCfg) : (eraseT c).id = c.id := rfl
@[simp] theorem eraseT_cap (c : BufCfg) : (eraseT c).cap = c.cap := rfl
@[simp] theorem eraseT_parent (c : BufCfg) : (eraseT c).parent = c.parent := rfl
@[simp] theorem eraseT_role (c : BufCfg) : (eraseT c).role = c.role := rfl

/-- two lists related position by position -/
inductive PbAll2 {α : Type} (R : α → α → Prop) : List α → List α → Prop where
  | nil : PbAll2 R [] []
  | cons {a' a : α} {l' l : List α} : R a' a → PbAll2 R l' l → PbAll2 R (a' :: l') (a :: l)

theorem PbAll2.append {α : Type} {R : α → α → Prop} {l1' l1 l2' l2 : List α} (h1 : PbAll2 R l1' l1)
    (h2 : PbAll2 R l2' l2) : PbAll2 R (l1' ++ l2') (l1 ++ l2) := by
  induction h1 with
  | nil => exact h2
  | cons hab _ ih => exact PbAll2.cons hab ih

theorem PbAll2.same {α : Type} {R : α → α → Prop} (hR : ∀ a, R a a) : ∀ l : List α, PbAll2 R l l
  | [] => PbAll2.nil
  | a :: as => PbAll2.cons (hR a) (PbAll2.same hR as)

/-- an entry of `preFlex inst` is the entry of `inst` at the same position, or its unordered version
when that is a pre-buffer -/
def PbCfgRel (inst : Instance) (c' c : BufCfg) : Prop := c' = c ∨ (c' = eraseT c ∧ ∃ mc ∈ inst.machines, c = mc.pre)

/-- the two instances have the same buffer configurations up to the type of the pre-buffers -/
theorem pb_allBufCfgs_rel (inst : Instance) :
    PbAll2 (PbCfgRel inst) (allBufCfgs (preFlex inst)) (allBufCfgs inst) := by
  unfold allBufCfgs
  apply PbAll2.append
  · apply PbAll2.append
    · exact PbAll2.same (R := PbCfgRel inst) (fun _ => Or.inl rfl) inst.buffers
    · rw [preFlex_machines]
      have : ∀ (l : List MachineCfg), (∀ mc ∈ l, mc ∈ inst.machines) →
          PbAll2 (PbCfgRel inst)
            ((l.map pfM).flatMap fun m => [m.pre, m.buf, m.post]) (l.flatMap fun m => [m.pre, m.buf, m.post]) := by
        intro l
        induction l with
        | nil => intro _; exact PbAll2.nil
        | cons a as ih =>
          intro hl
          simp only [List.map_cons, List.flatMap_cons]
          apply PbAll2.append
          · exact PbAll2.cons (Or.inr ⟨rfl, a, hl a (by simp), rfl⟩)
              (PbAll2.cons (Or.inl rfl) (PbAll2.cons (Or.inl rfl) PbAll2.nil))
          · exact ih (fun mc hmc => hl mc (by simp [hmc]))
      exact this inst.machines (fun _ h => h)
  · exact PbAll2.same (R := PbCfgRel inst) (fun _ => Or.inl rfl) (inst.transports.map (·.buf))

theorem pb_allBufCfgs_ids : (allBufCfgs (preFlex inst)).map (·.id) = (allBufCfgs inst).map (·.id) := by
  have h := pb_allBufCfgs_rel inst
  generalize allBufCfgs (preFlex inst) = l' at h
  generalize allBufCfgs inst = l at h
  induction h with
  | nil => rfl
  | cons hab _ ih =>
    simp only [List.map_cons, ih]
    rcases hab with rfl | ⟨rfl, _⟩ <;> rfl

/-- membership, from `preFlex inst` to `inst` -/
theorem pb_mem_cfgs_of_pre {c' : BufCfg} (h : c' ∈ allBufCfgs (preFlex inst)) :
    ∃ c ∈ allBufCfgs inst, PbCfgRel inst c' c := by
  have hr := pb_allBufCfgs_rel inst
  generalize allBufCfgs (preFlex inst) = l' at h hr
  generalize allBufCfgs inst = l at hr
  induction hr with
  | nil => cases h
  | cons hab _ ih =>
    rcases List.mem_cons.mp h with rfl | h
    · exact ⟨_, by simp, hab⟩
    · obtain ⟨c, hc, hcc⟩ := ih h
      exact ⟨c, by simp [hc], hcc⟩

/-- membership, from `inst` to `preFlex inst` -/
theorem pb_mem_cfgs_to_pre {c : BufCfg} (h : c ∈ allBufCfgs inst) :
    ∃ c' ∈ allBufCfgs (preFlex inst), PbCfgRel inst c' c := by
  have hr := pb_allBufCfgs_rel inst
  generalize allBufCfgs (preFlex inst) = l' at hr
  generalize allBufCfgs inst = l at h hr
  induction hr with
  | nil => cases h
  | cons hab _ ih =>
    rcases List.mem_cons.mp h with rfl | h
    · exact ⟨_, by simp, hab⟩
    · obtain ⟨c', hc', hcc⟩ := ih h
      exact ⟨c', by simp [hc'], hcc⟩

/-- looking a buffer configuration up by id in the two instances -/
theorem pb_getBufCfg_rel (i : Nat) :
    (∃ e, getBufCfg (allBufCfgs inst) i = .error e ∧ getBufCfg (allBufCfgs (preFlex inst)) i = .error e) ∨
    (∃ c c', getBufCfg (allBufCfgs inst) i = .ok c ∧ getBufCfg (allBufCfgs (preFlex inst)) i = .ok c' ∧
      PbCfgRel inst c' c) := by
  have hr := pb_allBufCfgs_rel inst
  generalize allBufCfgs (preFlex inst) = l' at hr
  generalize allBufCfgs inst = l at hr
  unfold getBufCfg findE
  induction hr with
  | nil => left; exact ⟨_, rfl, rfl⟩
  | @cons a' a l' l hab _ ih =>
    have hid : a'.id = a.id := by rcases hab with rfl | ⟨rfl, _⟩ <;> rfl
    by_cases ha : a.id = i
    · right
      refine ⟨a, a', ?_, ?_, hab⟩
      · simp [ha]
      · simp [hid, ha]
    · have h1 : (a.id == i) = false := by simpa using ha
      have h2 : (a'.id == i) = false := by rw [hid]; exact h1
      simp only [List.find?_cons, h1, h2]
      exact ih

/-- looking a machine configuration up by id -/
theorem pb_getMachineCfg (i : Nat) :
    getMachineCfg (preFlex inst).machines i = (getMachineCfg inst.machines i).map pfM := by
  rw [preFlex_machines]
  unfold getMachineCfg findE
  generalize inst.machines = l
  induction l with
  | nil => rfl
  | cons a as ih =>
    simp only [List.map_cons, List.find?_cons, pfM_id]
    cases h : a.id == i
    · exact ih
    · rfl

end JSL
