import JSL.Model.Compile

/-! Round-trip lemmas for the matrix parsers -/

namespace JSL.Compile

theorem splitOnC_ne_nil (c : Char) : ∀ t, splitOnC c t ≠ []
  | [] => by simp [splitOnC]
  | x :: xs => by
    simp only [splitOnC]
    split
    · simp
    · split <;> simp

theorem splitOnC_not_mem {c : Char} : ∀ {t : Text}, c ∉ t → splitOnC c t = [t]
  | [], _ => by simp [splitOnC]
  | x :: xs, h => by
    have hx : x ≠ c := fun e => h (by simp [e])
    have hxs : c ∉ xs := fun e => h (by simp [e])
    simp only [splitOnC, hx, if_false, splitOnC_not_mem hxs]

theorem splitOnC_append {c : Char} : ∀ {l : Text} (r : Text), c ∉ l → splitOnC c (l ++ c :: r) = l :: splitOnC c r
  | [], r, _ => by simp [splitOnC]
  | x :: xs, r, h => by
    have hx : x ≠ c := fun e => h (by simp [e])
    have hxs : c ∉ xs := fun e => h (by simp [e])
    simp only [List.cons_append, splitOnC, hx, if_false, splitOnC_append r hxs]

theorem splitOnC_joinWith {c : Char} : ∀ {ls : List Text}, ls ≠ [] → (∀ l ∈ ls, c ∉ l) → splitOnC c (joinWith c ls) = ls
  | [], h, _ => absurd rfl h
  | [l], _, hc => by simp [joinWith, splitOnC_not_mem (hc l (by simp))]
  | l :: l2 :: ls, _, hc => by
    simp only [joinWith]
    rw [splitOnC_append _ (hc l (by simp))]
    rw [splitOnC_joinWith (by simp) (fun x hx => hc x (by simp [hx]))]

theorem spanDigits_append_of : ∀ {a : Text} {b : Char} {r : Text}, (∀ c ∈ a, c.isDigit = true) → b.isDigit = false →
    spanDigits (a ++ b :: r) = (a, b :: r)
  | [], b, r, _, hb => by simp [spanDigits, List.takeWhile_cons, List.dropWhile_cons, hb]
  | x :: xs, b, r, ha, hb => by
    have hx : x.isDigit = true := ha x (by simp)
    have := spanDigits_append_of (a := xs) (b := b) (r := r) (fun c hc => ha c (by simp [hc])) hb
    simp only [spanDigits, Prod.mk.injEq] at this
    simp only [spanDigits, List.cons_append, List.takeWhile_cons, List.dropWhile_cons, hx, if_true, this.1, this.2]

/-! ### numbers -/

theorem renderNat_digits (n : Nat) : ∀ c ∈ renderNat n, c.isDigit = true :=
  fun _ hc => Nat.isDigit_of_mem_toDigits (by omega) (by omega) hc

theorem renderNat_ne_nil (n : Nat) : renderNat n ≠ [] := Nat.toDigits_ne_nil

theorem parseDigits_renderNat (n : Nat) : parseDigits (renderNat n) = some n := by
  unfold parseDigits
  have h1 := renderNat_ne_nil n
  have h2 : (renderNat n).all Char.isDigit = true := List.all_eq_true.mpr (renderNat_digits n)
  simp only [h1, h2, ne_eq, not_false_eq_true, and_self, if_true]
  rw [renderNat, Nat.ofDigitChars_toDigits (by omega) (by omega)]

theorem not_digit_of {c : Char} (h : c.isDigit = false) (n : Nat) : c ∉ renderNat n := by
  intro hc; rw [renderNat_digits n c hc] at h; cases h

theorem parseInt_renderInt (i : Int) : parseInt (renderInt i) = some i := by
  unfold renderInt
  by_cases h : i < 0
  · have e : -(↑i.natAbs : Int) = i := by omega
    simp [h, parseInt, parseDigits_renderNat, e]
  · simp only [h, if_false]
    have hne : ∀ r, renderNat i.natAbs ≠ '-' :: r := by
      intro r e
      have := renderNat_digits i.natAbs '-' (by rw [e]; simp)
      revert this; decide
    have e : (↑i.natAbs : Int) = i := by omega
    unfold parseInt
    split
    · rename_i r heq; exact absurd heq (hne r)
    · simp [parseDigits_renderNat, e]

/-! ### job matrix -/

theorem renderGroup_eq (g : Nat × Nat) : renderGroup g = '(' :: (renderNat g.1 ++ ',' :: (renderNat g.2 ++ [')'])) := by
  simp [renderGroup]

theorem parseGroup_render (g : Nat × Nat) (rest : Text) : parseGroup (renderGroup g ++ rest) = some (g, rest) := by
  have e : renderGroup g ++ rest = '(' :: (renderNat g.1 ++ ',' :: (renderNat g.2 ++ ')' :: rest)) := by
    rw [renderGroup_eq]; simp
  rw [e]
  unfold parseGroup
  simp only
  rw [spanDigits_append_of (renderNat_digits g.1) (by decide)]
  simp only
  rw [spanDigits_append_of (renderNat_digits g.2) (by decide)]
  simp [parseDigits_renderNat]

theorem flatMap_renderGroup_ne_nil {row : List (Nat × Nat)} (h : row ≠ []) : row.flatMap renderGroup ≠ [] := by
  cases row with
  | nil => exact absurd rfl h
  | cons g gs => simp [renderGroup]

theorem parseOpsF_render : ∀ (row : List (Nat × Nat)) (f : Nat), row ≠ [] → row.length ≤ f →
    parseOpsF f (row.flatMap renderGroup) = some row
  | [], _, h, _ => absurd rfl h
  | g :: gs, 0, _, hf => by simp at hf
  | g :: gs, f + 1, _, hf => by
    simp only [List.flatMap_cons, parseOpsF, parseGroup_render]
    cases gs with
    | nil => simp
    | cons g2 gs2 =>
      have hne : (g2 :: gs2).flatMap renderGroup ≠ [] := flatMap_renderGroup_ne_nil (by simp)
      have ih := parseOpsF_render (g2 :: gs2) f (by simp) (by simp at hf ⊢; omega)
      have hdrop : ((g2 :: gs2).flatMap renderGroup).dropWhile isWs = (g2 :: gs2).flatMap renderGroup := by
        simp [List.flatMap_cons, renderGroup, List.dropWhile, isWs]
      rw [hdrop]
      cases hx : (g2 :: gs2).flatMap renderGroup with
      | nil => exact absurd hx hne
      | cons y ys => rw [hx] at ih; simp [ih]

theorem length_renderGroup (g : Nat × Nat) : 1 ≤ (renderGroup g).length := by simp [renderGroup]

theorem length_flatMap_renderGroup : ∀ (row : List (Nat × Nat)), row.length ≤ (row.flatMap renderGroup).length
  | [] => by simp
  | g :: gs => by
    have := length_flatMap_renderGroup gs
    have := length_renderGroup g
    simp only [List.flatMap_cons, List.length_append, List.length_cons]; omega

theorem parseOps_render (row : List (Nat × Nat)) (h : row ≠ []) : parseOps (row.flatMap renderGroup) = some row :=
  parseOpsF_render row _ h (length_flatMap_renderGroup row)

theorem renderJobLine_eq (k : Nat) (row : List (Nat × Nat)) :
    renderJobLine k row = 'j' :: (renderNat k ++ '|' :: row.flatMap renderGroup) := by
  simp [renderJobLine]

theorem parseJobLine_render (k : Nat) (row : List (Nat × Nat)) (h : row ≠ []) :
    parseJobLine (renderJobLine k row) = some row := by
  rw [renderJobLine_eq]
  unfold parseJobLine
  simp only
  rw [spanDigits_append_of (renderNat_digits k) (by decide)]
  simp [renderNat_ne_nil, parseOps_render row h]

theorem not_mem_group {c : Char} (hd : c.isDigit = false) (h3 : c ≠ '(') (h4 : c ≠ ',') (h5 : c ≠ ')') (g : Nat × Nat) :
    c ∉ renderGroup g := by
  intro hc
  rw [renderGroup_eq] at hc
  rcases List.mem_cons.mp hc with e | hc
  · exact h3 e
  rcases List.mem_append.mp hc with e | hc
  · exact not_digit_of hd _ e
  rcases List.mem_cons.mp hc with e | hc
  · exact h4 e
  rcases List.mem_append.mp hc with e | hc
  · exact not_digit_of hd _ e
  · simp at hc; exact h5 hc

theorem not_mem_jobLine {c : Char} (hd : c.isDigit = false) (h1 : c ≠ 'j') (h2 : c ≠ '|') (h3 : c ≠ '(') (h4 : c ≠ ',')
    (h5 : c ≠ ')') (k : Nat) (row : List (Nat × Nat)) : c ∉ renderJobLine k row := by
  intro hc
  rw [renderJobLine_eq] at hc
  rcases List.mem_cons.mp hc with e | hc
  · exact h1 e
  rcases List.mem_append.mp hc with e | hc
  · exact not_digit_of hd _ e
  rcases List.mem_cons.mp hc with e | hc
  · exact h2 e
  obtain ⟨g, _, e⟩ := List.mem_flatMap.mp hc
  exact not_mem_group hd h3 h4 h5 g e

theorem stripSpaces_of_no_space {t : Text} (h : ' ' ∉ t) : stripSpaces t = t := by
  unfold stripSpaces
  apply List.filter_eq_self.mpr
  intro c hc
  simp only [ne_eq, decide_eq_true_eq]
  intro e; subst e; exact h hc

theorem filterMap_jobLines : ∀ (rows : List (List (Nat × Nat))) (k : Nat), (∀ r ∈ rows, r ≠ []) →
    ((renderJobLinesFrom k rows).map stripSpaces).filterMap parseJobLine = rows
  | [], _, _ => by simp [renderJobLinesFrom]
  | r :: rs, k, h => by
    simp only [renderJobLinesFrom, List.map_cons, List.filterMap_cons]
    rw [stripSpaces_of_no_space (not_mem_jobLine (by decide) (by decide) (by decide) (by decide) (by decide) (by decide) k r)]
    rw [parseJobLine_render k r (h r (by simp))]
    simp only
    rw [filterMap_jobLines rs (k + 1) (fun x hx => h x (by simp [hx]))]

theorem no_newline_jobLines : ∀ (rows : List (List (Nat × Nat))) (k : Nat), ∀ l ∈ renderJobLinesFrom k rows, '\n' ∉ l
  | [], _, l, hl => by simp [renderJobLinesFrom] at hl
  | r :: rs, k, l, hl => by
    simp only [renderJobLinesFrom, List.mem_cons] at hl
    rcases hl with rfl | hl
    · exact not_mem_jobLine (by decide) (by decide) (by decide) (by decide) (by decide) (by decide) k r
    · exact no_newline_jobLines rs (k + 1) l hl


theorem parseJobMatrix_render (header : Text) (rows : List (List (Nat × Nat))) (hh : '\n' ∉ header)
    (hj : parseJobLine (stripSpaces header) = none) (hr : ∀ r ∈ rows, r ≠ []) :
    parseJobMatrix (renderJobMatrix header rows) = rows := by
  unfold parseJobMatrix renderJobMatrix
  rw [splitOnC_joinWith (by simp)]
  · simp only [List.map_cons, List.filterMap_cons, hj]
    exact filterMap_jobLines rows 0 hr
  · intro l hl
    rcases List.mem_cons.mp hl with rfl | hl
    · exact hh
    · exact no_newline_jobLines rows 0 l hl

/-! ### matrices -/

theorem getLast?_append_of_ne_nil {l1 l2 : Text} (h : l2 ≠ []) : (l1 ++ l2).getLast? = l2.getLast? := by
  rw [List.getLast?_append]
  cases hl : l2.getLast? with
  | none => exact absurd (List.getLast?_eq_none_iff.mp hl) h
  | some x => rfl

theorem trimLeft_of_head {t : Text} (h : t.head? ≠ some ' ') : trimLeft t = t := by
  cases t with
  | nil => rfl
  | cons x xs =>
    have : x ≠ ' ' := by intro e; apply h; simp [e]
    simp [trimLeft, List.dropWhile_cons, this]

theorem trim_of_ends {t : Text} (h1 : t.head? ≠ some ' ') (h2 : t.getLast? ≠ some ' ') : trim t = t := by
  unfold trim
  rw [trimLeft_of_head h1, trimLeft_of_head (by rw [List.head?_reverse]; exact h2), List.reverse_reverse]

theorem trim_of_no_space {t : Text} (h : ' ' ∉ t) : trim t = t := by
  apply trim_of_ends
  · intro e; exact h (List.mem_of_mem_head? e)
  · intro e; exact h (List.mem_of_getLast? e)

theorem not_mem_joinWith {c sep : Char} (hs : c ≠ sep) : ∀ {ls : List Text}, (∀ l ∈ ls, c ∉ l) → c ∉ joinWith sep ls
  | [], _ => by simp [joinWith]
  | [l], h => by simpa [joinWith] using h l (by simp)
  | l :: l2 :: ls, h => by
    simp only [joinWith, List.mem_append, List.mem_cons, not_or]
    exact ⟨h l (by simp), hs, not_mem_joinWith hs (fun x hx => h x (by simp [hx]))⟩

theorem not_mem_renderInt {c : Char} (hd : c.isDigit = false) (hm : c ≠ '-') (i : Int) : c ∉ renderInt i := by
  unfold renderInt
  split
  · simp only [List.mem_cons, not_or]; exact ⟨hm, not_digit_of hd _⟩
  · exact not_digit_of hd _

theorem renderInt_ne_nil (i : Int) : renderInt i ≠ [] := by
  unfold renderInt; split
  · simp
  · exact renderNat_ne_nil _

/-- names usable in a matrix: non-empty, without blanks, separators or line breaks -/
def GoodName (n : Text) : Prop := n ≠ [] ∧ ' ' ∉ n ∧ '|' ∉ n ∧ '\n' ∉ n

theorem splitWS_joinWith_ints (vs : List Int) : splitWS (joinWith ' ' (vs.map renderInt)) = vs.map renderInt := by
  unfold splitWS
  cases vs with
  | nil => simp [joinWith, splitOnC]
  | cons v vs =>
    rw [splitOnC_joinWith (by simp)]
    · apply List.filter_eq_self.mpr
      intro t ht
      obtain ⟨i, _, rfl⟩ := List.mem_map.mp ht
      simpa using renderInt_ne_nil i
    · intro t ht
      obtain ⟨i, _, rfl⟩ := List.mem_map.mp ht
      exact not_mem_renderInt (by decide) (by decide) i

theorem mapM_parseInt_render : ∀ (vs : List Int), (vs.map renderInt).mapM parseInt = some vs
  | [] => by simp
  | v :: vs => by
    simp [List.mapM_cons, parseInt_renderInt, mapM_parseInt_render vs]

theorem not_mem_vals {c : Char} (hd : c.isDigit = false) (hm : c ≠ '-') (hs : c ≠ ' ') (vs : List Int) :
    c ∉ joinWith ' ' (vs.map renderInt) :=
  not_mem_joinWith hs (fun t ht => by
    obtain ⟨i, _, rfl⟩ := List.mem_map.mp ht
    exact not_mem_renderInt hd hm i)

theorem parseRow_render (r : Text × List Int) (hn : GoodName r.1) : parseRowLine (renderRow r) = some r := by
  unfold parseRowLine renderRow
  rw [splitOnC_append _ hn.2.2.1, splitOnC_not_mem (not_mem_vals (by decide) (by decide) (by decide) r.2)]
  simp only [splitWS_joinWith_ints, mapM_parseInt_render, Option.map_some]

theorem mapM_rows : ∀ (rows : List (Text × List Int)), (∀ r ∈ rows, GoodName r.1) →
    (rows.map renderRow).mapM parseRowLine = some rows
  | [], _ => by simp
  | r :: rs, h => by
    simp [List.mapM_cons, parseRow_render r (h r (by simp)), mapM_rows rs (fun x hx => h x (by simp [hx]))]

theorem eq_of_mem_of_fst_eq : ∀ {l : List (Text × List Int)}, (l.map (·.1)).Nodup → ∀ {a b}, a ∈ l → b ∈ l → a.1 = b.1 → a = b
  | [], _, _, _, ha, _, _ => by cases ha
  | x :: xs, hnd, a, b, ha, hb, h => by
    simp only [List.map_cons, List.nodup_cons, List.mem_map, not_exists, not_and] at hnd
    rcases List.mem_cons.mp ha with rfl | ha'
    · rcases List.mem_cons.mp hb with rfl | hb'
      · rfl
      · exact absurd h.symm (hnd.1 b hb')
    · rcases List.mem_cons.mp hb with rfl | hb'
      · exact absurd h (hnd.1 a ha')
      · exact eq_of_mem_of_fst_eq hnd.2 ha' hb' h

theorem renderRow_trim (r : Text × List Int) (hn : GoodName r.1) : trim (renderRow r) = renderRow r := by
  apply trim_of_ends
  · unfold renderRow
    cases h : r.1 with
    | nil => exact absurd h hn.1
    | cons x xs =>
      simp only [List.cons_append, List.head?_cons]
      intro e
      apply hn.2.1
      rw [h]; simp at e; simp [e]
  · unfold renderRow
    intro e
    have hmem := List.mem_of_getLast? e
    -- the last character: of the values if there are any, else the separator
    cases hv : r.2 with
    | nil => rw [hv] at e; simp [joinWith] at e
    | cons v vs =>
      rw [hv] at e
      have hne : joinWith ' ' ((v :: vs).map renderInt) ≠ [] := by
        cases vs with
        | nil => simpa [joinWith] using renderInt_ne_nil v
        | cons v2 vs2 =>
          simp only [List.map_cons, joinWith]
          intro h0
          have := List.append_eq_nil_iff.mp h0
          exact renderInt_ne_nil v this.1
      rw [show r.1 ++ '|' :: joinWith ' ' ((v :: vs).map renderInt) = (r.1 ++ ['|']) ++ joinWith ' ' ((v :: vs).map renderInt) by simp,
        getLast?_append_of_ne_nil hne] at e
      -- the last character of a space-joined list of numerals is the last character of the last numeral
      have : ∀ (ts : List Text), ts ≠ [] → (∀ t ∈ ts, t ≠ [] ∧ t.getLast? ≠ some ' ') → (joinWith ' ' ts).getLast? ≠ some ' ' := by
        intro ts
        induction ts with
        | nil => intro h; exact absurd rfl h
        | cons t ts ih =>
          intro _ hall
          cases ts with
          | nil => simpa [joinWith] using (hall t (by simp)).2
          | cons t2 ts2 =>
            simp only [joinWith]
            have hne2 : joinWith ' ' (t2 :: ts2) ≠ [] := by
              cases ts2 with
              | nil => simpa [joinWith] using (hall t2 (by simp)).1
              | cons t3 ts3 =>
                simp only [joinWith]; intro h0
                exact (hall t2 (by simp)).1 (List.append_eq_nil_iff.mp h0).1
            rw [show t ++ ' ' :: joinWith ' ' (t2 :: ts2) = (t ++ [' ']) ++ joinWith ' ' (t2 :: ts2) by simp,
              getLast?_append_of_ne_nil hne2]
            exact ih (by simp) (fun x hx => hall x (by simp [hx]))
      refine this _ (by simp) ?_ e
      intro t ht
      obtain ⟨i, _, rfl⟩ := List.mem_map.mp ht
      refine ⟨renderInt_ne_nil i, ?_⟩
      intro e2
      exact not_mem_renderInt (by decide) (by decide) i (List.mem_of_getLast? e2)

end JSL.Compile
