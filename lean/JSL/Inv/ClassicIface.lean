import JSL.Inv.ClassicEnv
import JSL.Inv.EnvPass
import JSL.Props.C06

/-!
# Classic instances: the interface `StepIface`

* `ClassicRun` – the hypotheses on instance, start state and environment configuration;
* `cinv_init`, `cpass_init` – the start state satisfies the invariant of the classic pass;
* `envReach_cr` – the pass invariant at every state the environment holds;
* `classic_settled` – **Stage A**: at a decision point every AGV is idle, unclaimed and empty, and
  every machine is idle or working;
* `reset_not_done`, `classic_offers` – a running episode holds offers and its shop is not finished;
* `stepIface` – the interface the steering strategy works with.
-/

namespace JSL

variable {orc : Oracle} {inst : Instance}

structure ClassicRun (orc : Oracle) (inst : Instance) (ec : EnvCfg) (st : RewardStatic) (s0 : State) : Prop where
  start : Start orc inst s0
  classic : Classic inst
  startOK : classicStartB inst s0 = true
  early : ec.sm.allowEarly = false
  trunc : ec.mw.truncActive = false
  joker : 0 ≤ ec.mw.jokerInit
  numOps : st.numOps ≠ 0
  norm : st.tmax - st.lb ≠ 0
  fuel : 3 * inst.machines.length + 5 * inst.transports.length + 2 ≤ ec.fuel
  jobs : inst.jobs ≠ []

variable {ec : EnvCfg} {st : RewardStatic} {s0 : State}

theorem ClassicRun.wf (hR : ClassicRun orc inst ec st s0) : WF inst := (initOKB_sound hR.start.init).1
theorem ClassicRun.struct0 (hR : ClassicRun orc inst ec st s0) : StructInv inst s0 := (initOKB_sound hR.start.init).2
theorem ClassicRun.nn (hR : ClassicRun orc inst ec st s0) : NonNeg orc inst :=
  nonnegB_sound hR.start.samples hR.start.nonneg
theorem ClassicRun.sched0 (hR : ClassicRun orc inst ec st s0) : SchedInv s0 := restB_sound hR.start.rest

/-! ## (1) the initial state -/

/-- what `restB` says -/
theorem restB_facts {s : State} (h : restB s = true) :
    (∀ m ∈ s.machines, m.st = .idle ∧ m.buffer.store = []) ∧
    (∀ j ∈ s.jobs, ∀ o ∈ j.ops, o.st = .idle) ∧
    (∀ t ∈ s.transports, t.st = .idle ∧ t.job = none ∧ (∀ b j tr, t.occ ≠ .dep b j tr) ∧ t.buffer.store = []) := by
  simp only [restB, Bool.and_eq_true, List.all_eq_true, beq_iff_eq, List.isEmpty_iff, Option.isNone_iff_eq_none] at h
  obtain ⟨⟨hm, hj⟩, ht⟩ := h
  refine ⟨hm, hj, fun t htm => ⟨(ht t htm).1.1.1, (ht t htm).1.1.2, ?_, (ht t htm).2⟩⟩
  intro b j tr e
  have := (ht t htm).1.2
  rw [e] at this; simp at this

/-- what `classicStartB` says -/
theorem classicStartB_facts {s : State} (h : classicStartB inst s = true) :
    readyB inst s = true ∧ (∀ t ∈ s.transports, ∃ l, t.loc = .at l ∧ l ∈ locsOf inst) ∧ s.time = 0 := by
  simp only [classicStartB, Bool.and_eq_true, List.all_eq_true, decide_eq_true_eq] at h
  obtain ⟨⟨h1, h2⟩, h3⟩ := h
  refine ⟨h1, fun t ht => ?_, h3⟩
  have := h2 t ht
  cases hl : t.loc with
  | «at» l => rw [hl] at this; exact ⟨l, rfl, List.contains_iff_mem.mp this⟩
  | route a b c => rw [hl] at this; simp at this

/-- every job of a state shaped like a classic instance has a record -/
theorem job_has_record (hC : Classic inst) {s : State} (hs : Shape inst s) {j : JobState} (hj : j ∈ s.jobs) :
    j.ops ≠ [] := by
  obtain ⟨jc, hjc, hk⟩ := hs.job_cfg hj
  simp only [jKey, jcKey, Prod.mk.injEq] at hk
  intro e
  have := hk.2
  rw [e] at this
  simp at this
  exact hC.jobsNonempty jc hjc this

/-- a job all of whose records are idle: the first record is the next idle one -/
theorem nextIdle_of_allIdle {j : JobState} (hne : j.ops ≠ []) (h : ∀ o ∈ j.ops, o.st = .idle) :
    ∃ o, j.nextIdle? = some o := by
  unfold JobState.nextIdle?
  cases hops : j.ops with
  | nil => exact absurd hops hne
  | cons o os =>
    have : o.st = .idle := h o (by rw [hops]; simp)
    exact ⟨o, by simp [List.find?, this]⟩

theorem cinv_init (hR : ClassicRun orc inst ec st s0) : CInv inst s0 := by
  obtain ⟨hm, hj, ht⟩ := restB_facts hR.start.rest
  obtain ⟨_, hloc, _⟩ := classicStartB_facts hR.startOK
  have hs := hR.struct0.shape
  refine ⟨fun t htm => (ht t htm).2.2.1, fun t htm => by rw [(ht t htm).1]; simp, ?_, ?_, fun t htm _ => hloc t htm,
    ?_, ?_, ?_⟩
  · intro t htm hst
    rcases hst with h | h <;> (rw [(ht t htm).1] at h; cases h)
  · intro t htm hst
    exact absurd (ht t htm).1 hst
  · intro j hjm _ _
    exact nextIdle_of_allIdle (job_has_record hR.classic hs hjm) (hj j hjm)
  · intro m hmm hst
    rcases hst with h | h <;> (rw [(hm m hmm).1] at h; cases h)
  · intro m hmm hst
    rw [(hm m hmm).1] at hst; cases hst

theorem cpass_init (hR : ClassicRun orc inst ec st s0) : Bundle inst s0 ∧ DurInv inst s0 :=
  ⟨⟨AgvFull.of_rest hR.start.rest hR.start.placed, readyB_sound (classicStartB_facts hR.startOK).1, cinv_init hR⟩,
   DurInv.of_rest hR.start.rest⟩

/-! ## (2) the pass invariant at every state the environment holds -/

structure CR (inst : Instance) (res : SMResult) : Prop where
  fin : ∃ t, Bundle inst { res.state with time := t } ∧ DurInv inst { res.state with time := t }
  live : res.possible ≠ [] → Bundle inst res.state ∧ DurInv inst res.state

/-- one `state.step` from a state with the invariants -/
theorem smStep_cr (hR : ClassicRun orc inst ec st s0) {s : State} (hI : StructInv inst s) (hS : SchedInv s)
    (hP : Bundle inst s ∧ DurInv inst s) {a : Action} (ha : Admissible a) (hadm : AdmOffer inst ec.sm s a)
    {fuel : Nat} {r r' : Rng} {res : SMResult} {mic : List State}
    (hstep : smStep orc inst ec.sm fuel s r a = .ok (res, r', mic)) : CR inst res := by
  have h := (CPass orc inst ec.sm hR.wf hR.nn hR.classic hR.early).smStep hR.wf hR.nn hI hS hP ha hadm hstep
  refine ⟨h.2.2.1, fun hne => h.2.2.2 ?_⟩
  rcases (smStep_spec hstep).2 with h1 | h1 | h1
  · exact h1.2.1
  · exact absurd h1.2.2.1 hne
  · exact h1.2.1

/-- the action the middleware submits is admissible and consists of offers -/
theorem mw_action_adm {s0 : State} {res : SMResult} (hi : ResInv orc inst ec.sm s0 res) {a : AgentAct} {act : Action}
    (hsub : ∀ tr ∈ act.transitions, tr ∈ res.possible.head?)
    (hk : (a = .accept ∧ act.tm = .jumpToEvent ∧ act.transitions = res.possible.take 1 ∧ res.possible ≠ []) ∨
          (a = .decline ∧ act.tm = .forceJump ∧ act.transitions = [] ∧ res.possible.length = 1)) :
    res.possible ≠ [] ∧ Admissible act ∧ AdmOffer inst ec.sm res.state act := by
  have hne : res.possible ≠ [] := by
    rcases hk with ⟨_, _, _, h⟩ | ⟨_, _, _, h⟩
    · exact h
    · intro h0; rw [h0] at h; simp at h
  have hl := hi.live hne
  refine ⟨hne, ⟨fun tr htr => hl.2 tr ?_, ?_⟩, ?_⟩
  · have := hsub tr htr
    cases hp : res.possible with
    | nil => rw [hp] at this; simp at this
    | cons x xs => rw [hp] at this; simp at this; rw [this]; simp
  · rcases hk with ⟨_, h, _⟩ | ⟨_, h, _⟩ <;> rw [h] <;> simp
  · obtain ⟨poss, hposs, hsub⟩ := hi.offersFrom hne
    rcases hk with ⟨_, _, ht, _⟩ | ⟨_, _, ht, _⟩
    · right
      cases hp : res.possible with
      | nil => exact absurd hp hne
      | cons x xs => exact ⟨poss, hposs, x, hsub x (by rw [hp]; simp), by rw [ht, hp]; rfl⟩
    · left; exact ht

theorem envReset_cr (hR : ClassicRun orc inst ec st s0) {r : Rng} {e : EnvState} {mic : List State}
    (h : envReset orc inst ec s0 r = .ok (e, mic)) : CR inst e.res := by
  unfold envReset mwReset at h
  obtain ⟨⟨res, mw, r', mic'⟩, h1, h⟩ := except_bind_eq_ok h
  obtain ⟨⟨res', r'', mic''⟩, h2, h1⟩ := except_bind_eq_ok h1
  simp at h1 h
  obtain ⟨rfl, rfl, rfl, rfl⟩ := h1
  obtain ⟨rfl, rfl⟩ := h
  exact smStep_cr hR hR.struct0 hR.sched0 (cpass_init hR) admissible_noOp (Or.inl rfl) h2

theorem envStep_cr (hR : ClassicRun orc inst ec st s0) {e : EnvState} (hi : ResInv orc inst ec.sm s0 e.res)
    (hd : CR inst e.res) {a : AgentAct} {out : StepOut} (h : envStep orc inst ec st e a = .ok out) :
    CR inst out.env.res := by
  have hst := hR.start
  unfold envStep at h
  split at h
  · simp at h
  · obtain ⟨⟨res', mw, r, mic⟩, hm, h⟩ := except_bind_eq_ok h
    simp only at h
    obtain ⟨⟨rew, cnt⟩, _, h⟩ := except_bind_eq_ok h
    simp at h; subst h
    have key : CR inst res' := by
      rcases mwStep_cases hm with ⟨o, o', rest, _, hp, e1, _, _, _, _, _, _⟩ | ⟨act, hsub, hk, hs⟩
      · simp only at e1
        have hP := hd.live (by rw [hp]; simp)
        exact ⟨by rw [e1]; exact ⟨e.res.state.time, hP⟩, fun _ => by rw [e1]; exact hP⟩
      · obtain ⟨hne, ha, hadm⟩ := mw_action_adm hi hsub hk
        obtain ⟨_, hI, hS⟩ := occursA_inv hst (hi.live hne).1
        exact smStep_cr hR hI hS (hd.live hne) ha hadm hs
    by_cases hsuc : res'.success = true
    · simp only [hsuc, if_true]; exact key
    · simp only [hsuc]
      exact hd

theorem envReach_cr (hR : ClassicRun orc inst ec st s0) {e : EnvState} (h : EnvReach orc inst ec st s0 e) :
    CR inst e.res := by
  induction h with
  | reset h => exact envReset_cr hR h
  | step he h ih => exact envStep_cr hR (envReach_inv hR.start he) ih h

/-! ## (3) Stage A: settledness at decision points -/

/-- the invariants at a state that holds offers -/
theorem envReach_live (hR : ClassicRun orc inst ec st s0) {e : EnvState} (h : EnvReach orc inst ec st s0 e)
    (hne : e.res.possible ≠ []) :
    StructInv inst e.res.state ∧ SchedInv e.res.state ∧ Bundle inst e.res.state ∧ DurInv inst e.res.state := by
  obtain ⟨_, hI, hS⟩ := occursA_inv hR.start ((envReach_inv hR.start h).live hne).1
  have hP := (envReach_cr hR h).live hne
  exact ⟨hI, hS, hP.1, hP.2⟩

theorem classic_settled (hR : ClassicRun orc inst ec st s0) {e : EnvState} (h : EnvReach orc inst ec st s0 e)
    (hne : e.res.possible ≠ []) :
    (∀ t ∈ e.res.state.transports, t.st = .idle ∧ t.job = none ∧ t.buffer.store = []) ∧
    (∀ m ∈ e.res.state.machines, m.st = .idle ∨ m.st = .working) ∧
    Bundle inst e.res.state ∧ DurInv inst e.res.state := by
  obtain ⟨hI, hS, hB, hD⟩ := envReach_live hR h hne
  have hq : Quiet inst e.res.state := (envReach_inv hR.start h).quiet hne
  have hidle : ∀ t ∈ e.res.state.transports, t.st = .idle := by
    intro t ht
    apply Classical.byContradiction
    intro hb
    obtain ⟨c, hc, hle⟩ := hB.cinv.agvDue t ht hb
    have := hq.transport ht hb hc
    omega
  refine ⟨fun t ht => ?_, fun m hm => ?_, hB, hD⟩
  · have hi := hidle t ht
    exact ⟨hi, hS.freeNoClaim t ht (Or.inl hi), hB.full.agv.empty t ht (by rw [hi]; simp)⟩
  · have hdue : m.st = .setup ∨ m.st = .outage → False := by
      intro hst
      have hb : m.st ≠ .idle := by rcases hst with h | h <;> rw [h] <;> simp
      obtain ⟨c, hc, hle⟩ := hB.cinv.machDue m hm hst
      obtain ⟨j, _, hstore, _⟩ := hS.busyHolds m hm hb
      have := hq.machine hm hb (by rw [hstore]; simp)
      rw [hc] at this
      simp [dueAt] at this
      omega
    cases hst : m.st with
    | idle => exact Or.inl rfl
    | working => exact Or.inr rfl
    | setup => exact (hdue (Or.inl hst)).elim
    | outage => exact (hdue (Or.inr hst)).elim

/-! ## (4) a running episode holds offers and its shop is not finished -/

/-- a state whose records are all idle (and that has a job) is not finished -/
theorem not_done_of_allIdle (hC : Classic inst) (hjobs : inst.jobs ≠ []) {s : State} (hs : Shape inst s)
    (hroute : RouteInv inst s) (hidle : ∀ j ∈ s.jobs, ∀ o ∈ j.ops, o.st = .idle) : isDone inst s = false := by
  cases hd : isDone inst s with
  | false => rfl
  | true =>
    exfalso
    obtain ⟨jc, hjc⟩ : ∃ jc, jc ∈ inst.jobs := by
      cases hj : inst.jobs with
      | nil => exact absurd hj hjobs
      | cons a as => exact ⟨a, by simp⟩
    obtain ⟨j, hj, _⟩ := mem_of_map_eq hs.jobs.symm hjc
    obtain ⟨o, ho⟩ : ∃ o, o ∈ j.ops := by
      cases hops : j.ops with
      | nil => exact absurd hops (job_has_record hC hs hj)
      | cons a as => exact ⟨a, by simp⟩
    have hl : j.loc ∈ outputIds inst := by
      unfold isDone at hd
      exact List.contains_iff_mem.mp (List.all_eq_true.mp hd j hj)
    have h1 := hroute.delivered j hj hl o ho
    rw [hidle j hj o ho] at h1
    cases h1

theorem classic_reset_not_done (hR : ClassicRun orc inst ec st s0) {r0 : Rng} {e0 : EnvState} {mic : List State}
    (h : envReset orc inst ec s0 r0 = .ok (e0, mic)) : isDone inst e0.res.state = false := by
  have hst := hR.start
  have hi := (envReset_inv hst h).1
  have hns : NoStartSince s0 e0.res.state := by
    unfold envReset mwReset at h
    obtain ⟨⟨res, mw, r', mic'⟩, h1, h⟩ := except_bind_eq_ok h
    obtain ⟨⟨res', r'', mic''⟩, h2, h1⟩ := except_bind_eq_ok h1
    simp at h1 h
    obtain ⟨rfl, rfl, rfl, rfl⟩ := h1
    obtain ⟨rfl, rfl⟩ := h
    exact (smStep_starts_nothing hR.wf hR.nn (preFlex_of_classic hR.classic) hR.struct0 hR.sched0 admissible_noOp
      (by simp [noOpAction]; exact NoSetup.nil) h2).1
  apply not_done_of_allIdle hR.classic hR.jobs hi.struct.shape hi.full.route
  intro j hj o ho
  apply Classical.byContradiction
  intro hne
  obtain ⟨j0, hj0, _, o0, ho0, _, _, hn0⟩ := hns j hj o ho hne
  exact hn0 ((restB_facts hst.rest).2.1 j0 hj0 o0 ho0)

/-- the flags of the environment: the episode is over exactly when it terminated or was truncated -/
theorem envReach_done_flags {e : EnvState} (h : EnvReach orc inst ec st s0 e) :
    e.done = (e.terminated || e.truncated) := by
  cases h with
  | reset h =>
    obtain ⟨_, h2, h3, h4, _⟩ := envReset_flags h
    rw [h2, h3, h4]; rfl
  | step _ h =>
    unfold envStep at h
    split at h
    · simp at h
    · obtain ⟨⟨res', mw, r, mic⟩, hm, h⟩ := except_bind_eq_ok h
      simp only at h
      obtain ⟨⟨rew, cnt⟩, _, h⟩ := except_bind_eq_ok h
      simp at h; subst h
      rfl

/-- while the episode runs the shop is not finished -/
theorem envReach_running (hR : ClassicRun orc inst ec st s0) {e : EnvState} (h : EnvReach orc inst ec st s0 e)
    (hd : e.done = false) : isDone inst e.res.state = false ∧ e.truncated = false := by
  cases h with
  | reset h => exact ⟨classic_reset_not_done hR h, (envReset_flags h).2.1⟩
  | step _ h =>
    unfold envStep at h
    split at h
    · simp at h
    · obtain ⟨⟨res', mw, r, mic⟩, hm, h⟩ := except_bind_eq_ok h
      simp only at h
      obtain ⟨⟨rew, cnt⟩, _, h⟩ := except_bind_eq_ok h
      simp at h; subst h
      by_cases hsuc : res'.success = true
      · simp only [hsuc, if_true] at hd ⊢
        simp only [Bool.or_eq_false_iff] at hd
        exact ⟨hd.1, hd.2⟩
      · simp [hsuc] at hd

theorem classic_offers (hR : ClassicRun orc inst ec st s0) {e : EnvState} (h : EnvReach orc inst ec st s0 e)
    (hd : e.done = false) (hs : e.res.success = true) (_htr : e.truncated = false) :
    e.res.possible ≠ [] ∧ isDone inst e.res.state = false := by
  have hnd := (envReach_running hR h hd).1
  exact ⟨(envReach_good hR.start hR.classic.flex hR.classic.hasAgv h).offers hs hnd, hnd⟩

/-! ## (5) the interface -/

/-- `state.step` from a state with the invariants returns successfully, in step with the target
schedule, and its result holds offers or has the shop finished -/
theorem classic_smStep (hR : ClassicRun orc inst ec st s0) {S : Nat → Nat → Int} (hT : TargetOK inst S) {s : State}
    (hI : StructInv inst s) (hS : SchedInv s) (hP : Bundle inst s ∧ DurInv inst s) {r : Rng} {a : Action}
    (ha : Admissible a) (hadm : AdmOffer inst ec.sm s a)
    (hact : a.transitions = [] ∨ ∃ tr, a.transitions = [tr] ∧ transitionValid s tr = .ok true ∧
        ∃ s' r', applyTransition orc inst s r tr = .ok (s', r'))
    (hQa : a.tm = .jumpToEvent → ∀ p, processTransitions orc inst (sortedByTransport a.transitions) s r = .ok p →
        SyncL inst S p.state)
    (hQb : a.tm = .forceJump → ∀ p t, processTransitions orc inst (sortedByTransport a.transitions) s r = .ok p →
        forceJump p.state = .ok t → SyncL inst S { p.state with time := t }) :
    ∃ res r' mic, smStep orc inst ec.sm ec.fuel s r a = .ok (res, r', mic) ∧ res.success = true ∧
      (∃ t, SyncL inst S { res.state with time := t }) ∧ (isDone inst res.state = false → SyncL inst S res.state) ∧
      (res.possible ≠ [] ∨ isDone inst res.state = true) := by
  have hC := hR.classic
  obtain ⟨res, r', mic, hs, hsuc, hfin, hlive, _, _⟩ :=
    smStep_total (CPass orc inst ec.sm hR.wf hR.nn hC hR.early) (cpass_total hR.wf hR.nn hC hR.early hT) hR.wf hR.nn
      hI hS hP ha hadm hR.fuel hact hQa hQb
  refine ⟨res, r', mic, hs, hsuc, hfin, ?_, ?_⟩
  · intro hnd
    apply hlive
    rcases (smStep_spec hs).2 with h1 | h1 | h1
    · exact h1.2.1
    · rw [h1.2.2.2] at hnd; cases hnd
    · exact h1.2.1
  · rcases (smStep_spec hs).2 with h1 | h1 | h1
    · rw [h1.1] at hsuc; cases hsuc
    · exact Or.inr h1.2.2.2
    · have hnodep : NoDep s := fun t ht hb => by
        obtain ⟨c, hc, _⟩ := hP.1.cinv.agvDue t ht hb; exact ⟨c, hc⟩
      exact Or.inl (smStep_offers hR.wf hR.nn hC.flex hC.hasAgv hI hS ⟨hP.1.full, hnodep⟩ ha hadm hs hsuc h1.2.1)

/-- the start state is in step with every target schedule -/
theorem sync_init (hR : ClassicRun orc inst ec st s0) {S : Nat → Nat → Int} (hT : TargetOK inst S) :
    SyncL inst S s0 := by
  have h0 := (classicStartB_facts hR.startOK).2.2
  have hidle := (restB_facts hR.start.rest).2.1
  refine ⟨by omega, fun j hj o ho hne => absurd (hidle j hj o ho) hne, ?_⟩
  intro j hj o ho hlt
  exfalso
  obtain ⟨oc, hoc, k1, k2, _⟩ := rec_cfg hR.wf hR.struct0.shape hj ho
  have := hT.nonneg oc hoc
  rw [k1, k2] at this
  omega

/-- the batch of an action that holds no transition -/
theorem process_nil_state {s : State} {r : Rng} {p : ProcOut}
    (h : processTransitions orc inst (sortedByTransport []) s r = .ok p) : p.state = s := by
  rw [sortedByTransport_nil] at h
  simp [processTransitions] at h
  subst h; rfl

/-- the batch of an action that holds one transition which passes validation -/
theorem process_single_state {s s' : State} {r r' : Rng} {tr : Transition} {p : ProcOut}
    (hv : transitionValid s tr = .ok true) (ha : applyTransition orc inst s r tr = .ok (s', r'))
    (h : processTransitions orc inst (sortedByTransport [tr]) s r = .ok p) : p.state = s' := by
  rw [sortedByTransport_single] at h
  simp [processTransitions, hv, ha] at h
  subst h; rfl

theorem stepIface (hR : ClassicRun orc inst ec st s0) {S : Nat → Nat → Int} (hT : TargetOK inst S) :
    StepIface orc inst ec st s0 S where
  reset := by
    intro r0
    obtain ⟨res, r', mic, hs, hsuc, _, hlive, _⟩ :=
      classic_smStep hR hT hR.struct0 hR.sched0 (cpass_init hR) (r := r0) admissible_noOp (Or.inl rfl) (Or.inl rfl)
        (fun _ p hp => by rw [process_nil_state hp]; exact sync_init hR hT)
        (fun h => by simp [noOpAction] at h)
    have hreset : envReset orc inst ec s0 r0 =
        .ok ({ res := res, histLen := 0, histNoOps := 0, lastNoOp := false, terminated := false, truncated := false,
               done := false, mw := { joker := ec.mw.jokerInit, noOpCnt := 0, actCnt := 0 }, rng := r', rwCnt := 0 },
             mic) := by
      simp [envReset, mwReset, hs]
    exact ⟨_, _, hreset, hsuc, hlive (classic_reset_not_done hR hreset)⟩
  step := by
    intro e hreach hd hsuc hjok hQ a ha hok
    have hC := hR.classic
    have hst := hR.start
    have w := hR.wf
    obtain ⟨hne, hnd⟩ := classic_offers hR hreach hd hsuc (envReach_running hR hreach hd).2
    obtain ⟨hI, hS, hB, hD⟩ := envReach_live hR hreach hne
    have hi := envReach_inv hst hreach
    obtain ⟨poss, hposs, hsub⟩ := hi.offersFrom hne
    have hl := hi.live hne
    -- the common conclusion from a returned `env.step` whose result is the one of `classic_smStep`
    have fin : ∀ {out : StepOut} {res' : SMResult}, envStep orc inst ec st e a = .ok out → out.env.res = res' →
        out.env.truncated = false → out.env.terminated = isDone inst res'.state →
        out.env.done = isDone inst res'.state → out.env.mw.joker = e.mw.joker → out.obsRes = res' →
        res'.success = true → (∃ t, SyncL inst S { res'.state with time := t }) →
        (isDone inst res'.state = false → SyncL inst S res'.state) →
        ∃ out, envStep orc inst ec st e a = .ok out ∧ out.env.res.success = true ∧ out.obsRes.success = true ∧
          out.env.truncated = false ∧ out.env.mw.joker = e.mw.joker ∧
          out.env.terminated = isDone inst out.env.res.state ∧ out.env.done = isDone inst out.env.res.state ∧
          (∃ t, SyncL inst S { out.env.res.state with time := t }) ∧
          (out.env.done = false → SyncL inst S out.env.res.state) := by
      intro out res' hout e1 e2 e3 e4 e5 e6 hs' hfin hlive
      subst e1
      exact ⟨out, hout, hs', by rw [e6]; exact hs', e2, e5, e3, e4, hfin, fun h => hlive (by rw [← e4]; exact h)⟩
    cases hp : e.res.possible with
    | nil => exact absurd hp hne
    | cons tr rest =>
      have htr : tr ∈ e.res.possible := by rw [hp]; simp
      rcases ha with rfl | rfl
      · -- accept: the head offer
        have hadmA : Admissible { transitions := [tr], noOp := false, tm := .jumpToEvent } :=
          ⟨fun x hx => by simp at hx; subst hx; exact hl.2 x htr, by simp⟩
        have hadmO : AdmOffer inst ec.sm e.res.state { transitions := [tr], noOp := false, tm := .jumpToEvent } :=
          Or.inr ⟨poss, hposs, tr, hsub tr htr, rfl⟩
        have hv := offers_valid w hI hS hposs tr (hsub tr htr)
        obtain ⟨s1, r1, happ⟩ :=
          env_offer_applies hst hC.tables (readyB_sound (classicStartB_facts hR.startOK).1) hreach tr htr
        have hQ1 : SyncL inst S s1 := by
          by_cases hnew : tr.new = .m .setup
          · rcases offer_cases hposs tr (hsub tr htr) with ⟨j, hj, o, _, _, rfl⟩ | ⟨pt, hpt, hin⟩
            · refine sync_start w hI hS hQ happ ?_
              intro j' hj' hid o' ho'
              exact hok.1 rfl ⟨.m o.machine, .m .setup, some j.id⟩ (by rw [hp]; simp) rfl j' hj' (by simp [hid]) o' ho'
            · obtain ⟨t, _, j, _, rfl, _⟩ := possibleTransport_facts hpt tr hin
              simp at hnew
          · exact sync_step w hC hI hS hB (offer_en w hC hR.early hI hS hB hposs tr (hsub tr htr)) hnew happ hQ
        obtain ⟨res', r', mic, hs, hs', hfin, hlive, _⟩ :=
          classic_smStep hR hT hI hS ⟨hB, hD⟩ (r := e.rng) hadmA hadmO (Or.inr ⟨tr, rfl, hv, s1, r1, happ⟩)
            (fun _ p hp' => by rw [process_single_state hv happ hp']; exact hQ1)
            (fun h => by simp at h)
        obtain ⟨out, hout, e1, e2, e3, e4, e5, _, _, e8, _⟩ :=
          envStep_accept_of_smStep (st := st) hd hR.numOps hR.norm hjok hp hs hs'
        exact fin hout e1 e2 e3 e4 e5 e8 hs' hfin hlive
      · cases rest with
        | cons o' rest' =>
          -- decline with at least two offers held: nothing is run
          have hm := mwStep_decline_many (orc := orc) (inst := inst) (cfg := ec.sm) (mc := ec.mw) (fuel := ec.fuel)
            e.res e.mw e.rng tr o' rest' hp
          obtain ⟨out, hout, e1, e2, e3, e4, e5, _, _, e8, _⟩ :=
            envStep_of_mwStep (st := st) hd hm rfl hjok hR.numOps hR.norm
          exact fin hout e1 e2 e3 e4 (by rw [e5]) e8 rfl ⟨e.res.state.time, hQ⟩ (fun _ => hQ)
        | nil =>
          -- decline of the last offer: the forced jump
          have hadmA : Admissible { transitions := [], noOp := true, tm := .forceJump } :=
            ⟨fun x hx => by simp at hx, by simp⟩
          obtain ⟨res', r', mic, hs, hs', hfin, hlive, hoff⟩ :=
            classic_smStep hR hT hI hS ⟨hB, hD⟩ (r := e.rng) hadmA (Or.inl rfl) (Or.inl rfl)
              (fun h => by simp at h)
              (fun _ p t hp' hf => by
                rw [process_nil_state hp'] at hf ⊢
                exact sync_jump w hC hT hI hS hD hB.cinv hQ (hok.2 rfl (by rw [hp]; rfl)) hf)
          obtain ⟨out, hout, e1, e2, e3, e4, e5, _, _, e8, _⟩ :=
            envStep_decline_last_of_smStep (st := st) hd hR.numOps hR.norm hjok hR.trunc hp hs hs' hoff
          exact fin hout e1 e2 e3 e4 e5 e8 hs' hfin hlive
  settled := by
    intro e hreach hne
    obtain ⟨h1, _, h3, _⟩ := classic_settled hR hreach hne
    exact ⟨fun t ht => (h1 t ht).1, h3⟩

end JSL
