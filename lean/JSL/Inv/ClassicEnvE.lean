import JSL.Inv.ClassicPassE
import JSL.Inv.ClassicEnv

/-!
# The classic pass with early dispatch meets the interface of the totality plumbing

`cpassE_total_of`, and the instances `cpassE_total` (in step with a target schedule; needs at least as
many AGVs as jobs) and `cpassE_total_true` (pure totality).
-/

namespace JSL

variable {orc : Oracle} {inst : Instance} {cfg : SMConfig}

/-- a job lying at a pickup place that is also a standalone buffer has an idle record -/
theorem fresh_of_pickupE (w : WF inst) {s : State} (hP : CInvE inst s) {j : JobState} (hj : j ∈ s.jobs)
    (hloc : j.loc ∈ pickupPlaces inst) : j.loc ∈ inst.buffers.map (·.id) → ∃ o, j.nextIdle? = some o :=
  fun hb => hP.fresh _ hj hb (pickup_not_output w hloc)

/-- **the classic pass with early dispatch meets the interface of the totality plumbing** -/
theorem cpassE_total_of (w : WF inst) (nn : NonNeg orc inst) (hC : Classic inst)
    (Q : State → Prop)
    (hqs : ∀ {s tr r s' r'}, StructInv inst s → SchedInv s → BundleE inst s ∧ DurInv inst s → EnE inst s tr →
      tr.new ≠ .m .setup → applyTransition orc inst s r tr = .ok (s', r') → Q s → Q s')
    (hqj : ∀ {s t}, StructInv inst s → SchedInv s → BundleE inst s ∧ DurInv inst s → Q s →
      numPossibleEvents inst cfg s = .ok 0 → forceJump s = .ok t → Q { s with time := t }) :
    TotalHypR (CPassE orc inst cfg w nn hC) muE (6 * inst.machines.length + 11 * inst.transports.length) Q RWE where
  apply := by
    intro s tr R r hI hS hP hgs hne
    have hB : BundleE inst s := hP.1
    have hjn := hI.shape.jobsNodup w
    have hE := hgs.2.2.en tr (by simp)
    cases hE with
    | start _ h => exact absurd h hne
    | mWork m x hm hst hx => exact setupToWorking_total w hI hS hm hst hx r
    | mOut m x hm hst hx => exact workingToOutage_total w hC hI hS hm hst hx r
    | mIdle m x hm hst hx => exact outageToIdle_total w hC hI hS hm hst hx r
    | dispatch t j ht hst hj hloc _ => exact dispatch_total_early w hC hI hS hB.ready ht hst hj hloc r
    | wait t j ht hst hj hjob =>
      obtain ⟨j0, hj0, e0, hloc⟩ := hB.cinv.claimed t ht (Or.inl hst)
      have : j0 = j := eq_of_mem_of_key_eq (key := fun (y : JobState) => y.id) hjn hj0 hj
        (by rw [hjob] at e0; exact (Option.some.inj e0).symm)
      subst this
      exact pickupToWaiting_total_early w hC hI hS ht hst hj hloc r
    | rewait t j ht hst hj hjob =>
      obtain ⟨j0, hj0, e0, hloc⟩ := hB.cinv.claimed t ht (Or.inr hst)
      have : j0 = j := eq_of_mem_of_key_eq (key := fun (y : JobState) => y.id) hjn hj0 hj
        (by rw [hjob] at e0; exact (Option.some.inj e0).symm)
      subst this
      exact rewait_total w hC hI hS ht hst hj hloc r
    | pick t j ht hst hj hjob hloc =>
      exact toTransit_total w hC hI hS hB.full ht (Or.inr hst) hj hloc (pickup_not_running w hI hS hj hloc)
        (fresh_of_pickupE w hB.cinv hj hloc) r
    | deliver t j ht hst hj hstore => exact transitToOutage_total w hC hI hS hB.full ht hst hj hstore r
    | release t ht hst => exact agvToIdle_total w hC hI ht hst r
  timed := fun hI hS hP => timedTransitions_totalE w hC hI hS hP.1.full hP.1.cinv
  poss := fun hI hS hP => possibleTransitions_total w hC hI hS hP.1.full cfg
  count := fun hI hS hP => numPossibleEvents_total w hC hI hS hP.1.full cfg
  tele := fun r hI hS hP hp => filterTeleport_total w hC hI hS hP.1.full hp r
  force := fun _ hS hP => forceJump_total hS (fun t ht hb => hP.1.cinv.agvAt t ht hb)
  lastDone := fun hS => lastDoneEnd_total hS
  noStartTimed := fun hI hS htt => timed_noStart w hC hI hS htt
  noStartTele := fun hp hte => tele_noStart hp hte
  noDispatchTimed := fun hS htt => timed_no_dispatch hS htt
  μ_time := fun s t => muE_time s t
  μ_le := fun hI => muE_le hI.shape
  μ_mono := by
    intro s tr R r s' r' hI hS hP hgs hns hnd h
    exact muE_mono w hC hI hS hP.1 (hgs.2.2.en tr (by simp)) hns hnd h
  μ_step := by
    intro s tr R r s' r' hI hS hP hgs hns hnd hrw h
    exact muE_step w hC hI hS hP.1 (hgs.2.2.en tr (by simp)) hns hnd h hrw
  rw_keep := by
    intro s a R r s' r' hI _ _ hgs hrw h
    exact rwE_keep w hI hgs.2.2 hrw h
  rw_timed := fun hI hS hP htt hne => rwE_timed w hC hI hS hP.1 htt hne
  q_step := by
    intro s tr R r s' r' hI hS hP hgs hns h hQ
    exact hqs hI hS hP (hgs.2.2.en tr (by simp)) hns h hQ
  q_jump := fun hI hS hP hQ h0 hf => hqj hI hS hP hQ h0 hf

/-- when the forced jump moves the clock, every busy AGV waits for a running job -/
theorem busy_waits_of_jump {s : State} (hS : SchedInv s) (hP : CInvE inst s) {t : Int} (hf : forceJump s = .ok t)
    (hlt : s.time < t) :
    ∀ x ∈ s.transports, x.st ≠ .idle → ∃ j ∈ s.jobs, x.job = some j.id ∧ j.running = true := by
  intro x hx hb
  obtain ⟨c, hc⟩ := hP.agvAt x hx hb
  obtain ⟨_, _, h3, _⟩ := c12_jump_exact hS hf
  have hct := h3 x hx hb c hc
  have hwait : x.st = .waitingpickup := by
    cases hst : x.st with
    | idle => exact absurd hst hb
    | working => exact absurd hst (hP.noWorking x hx)
    | waitingpickup => rfl
    | pickup => have := hP.agvDue x hx (Or.inl hst) c hc; omega
    | transit => have := hP.agvDue x hx (Or.inr (Or.inl hst)) c hc; omega
    | outage => have := hP.agvDue x hx (Or.inr (Or.inr hst)) c hc; omega
  obtain ⟨j, hj, hjob, _⟩ := hP.claimed x hx (Or.inr hwait)
  refine ⟨j, hj, hjob, ?_⟩
  rcases hP.waitDue x hx hwait j hj hjob c hc with h1 | ⟨o, ho, hst, _⟩
  · omega
  · unfold JobState.running
    exact List.any_eq_true.mpr ⟨o, ho, by simp [hst]⟩

/-- the instance for "in step with the target schedule `S`": needs at least as many AGVs as jobs -/
theorem cpassE_total (w : WF inst) (nn : NonNeg orc inst) (hC : Classic inst)
    (hcount : inst.jobs.length ≤ inst.transports.length) {S : Nat → Nat → Int} (hT : TargetOK inst S) :
    TotalHypR (CPassE orc inst cfg w nn hC) muE (6 * inst.machines.length + 11 * inst.transports.length)
      (SyncL inst S) RWE := by
  apply cpassE_total_of w nn hC (SyncL inst S)
  · intro s tr r s' r' hI hS hP hE hns h hQ
    exact sync_stepE w hC hI hS hP.1 hE hns h hQ
  · intro s t hI hS hP hQ h0 hf
    by_cases hlt : s.time < t
    · have hbusy := busy_waits_of_jump hS hP.1.cinv hf hlt
      exact sync_jumpE w hC hT hI hS hP.2 hP.1.cinv hQ
        (fun j hj hnr o ho hm => by
          exfalso
          obtain ⟨m, hm', hid⟩ := op_machine_mem w hI.shape hj (List.mem_of_find?_eq_some ho)
          exact dead_point_busy_early w hC hI hS hP.1.full hcount hbusy h0 j hj hnr o ho m hm' hid (hm m hm' hid)) hf
    · have hge := (c12_jump_exact hS hf).1
      have : t = s.time := by omega
      subst this
      exact hQ

/-- the instance for the trivial property: pure totality (any number of AGVs) -/
theorem cpassE_total_true (w : WF inst) (nn : NonNeg orc inst) (hC : Classic inst) :
    TotalHypR (CPassE orc inst cfg w nn hC) muE (6 * inst.machines.length + 11 * inst.transports.length)
      (fun _ => True) RWE :=
  cpassE_total_of w nn hC (fun _ => True) (fun _ _ _ _ _ _ _ => trivial) (fun _ _ _ _ _ _ => trivial)

end JSL
