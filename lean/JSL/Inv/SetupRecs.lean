import JSL.Inv.SetupDefs

/-!
# Records of a state: uniqueness, times, and what a rewritten record changes
-/

namespace JSL

variable {orc : Oracle} {inst : Instance}

/-- records are determined by `(job, idx)` across the whole state -/
theorem recs_key_unique (w : WF inst) {s : State} (hI : StructInv inst s) {a b : OpState}
    (ha : a ∈ recs s) (hb : b ∈ recs s) (hk : a.job = b.job ∧ a.idx = b.idx) : a = b := by
  obtain ⟨ja, hja, haa⟩ := mem_recs.mp ha
  obtain ⟨jb, hjb, hbb⟩ := mem_recs.mp hb
  have e1 := hI.shape.ops_job w hja haa
  have e2 := hI.shape.ops_job w hjb hbb
  have : ja = jb := eq_of_mem_of_key_eq (key := fun (y : JobState) => y.id) (hI.shape.jobsNodup w) hja hjb
    (by rw [← e1, ← e2, hk.1])
  subst this
  exact key_unique_in_job w hI hja haa hbb hk

/-- the recorded times of a finished record -/
theorem done_times {s : State} (hS : SchedInv s) {a : OpState} (ha : a ∈ recs s) (hst : a.st = .done) :
    a.start = some (tS a) ∧ a.stop = some (tE a) ∧ tS a ≤ tE a ∧ tE a ≤ s.time := by
  obtain ⟨j, hj, hx⟩ := mem_recs.mp ha
  obtain ⟨x, y, h1, h2, h3, h4⟩ := (OpsOK_mem _ _ (hS.ops j hj) a hx).1 hst
  simp [tS, tE, h1, h2, h3, h4]

/-- the recorded times of a record in progress -/
theorem proc_times {s : State} (hS : SchedInv s) {a : OpState} (ha : a ∈ recs s) (hst : a.st = .processing) :
    a.start = some (tS a) ∧ a.stop = some (tE a) ∧ tS a ≤ tE a ∧ tS a ≤ s.time ∧ s.time ≤ tE a := by
  obtain ⟨j, hj, hx⟩ := mem_recs.mp ha
  obtain ⟨x, y, h1, h2, h3, h4, h5⟩ := (OpsOK_mem _ _ (hS.ops j hj) a hx).2.1 hst
  simp [tS, tE, h1, h2, h3, h4, h5]

/-- on one machine a finished record ends before the record in progress starts -/
theorem done_before_proc {s : State} (hS : SchedInv s) {a b : OpState} (ha : a ∈ recs s) (hb : b ∈ recs s)
    (hm : a.machine = b.machine) (hsa : a.st = .done) (hsb : b.st = .processing) : tE a ≤ tS b := by
  obtain ⟨ja, hja, haa⟩ := mem_recs.mp ha
  obtain ⟨jb, hjb, hbb⟩ := mem_recs.mp hb
  exact hS.doneBeforeProc ja hja a haa jb hjb b hbb hm hsa hsb _ _ (done_times hS ha hsa).2.1 (proc_times hS hb hsb).1

/-- at most one record is in progress on a machine -/
theorem proc_unique (w : WF inst) {s : State} (hI : StructInv inst s) (hS : SchedInv s) {a b : OpState}
    (ha : a ∈ recs s) (hb : b ∈ recs s) (hm : a.machine = b.machine) (hsa : a.st = .processing)
    (hsb : b.st = .processing) : a = b := by
  obtain ⟨j₁, hj₁, ho₁⟩ := mem_recs.mp ha
  obtain ⟨j₂, hj₂, ho₂⟩ := mem_recs.mp hb
  obtain ⟨ma, hma, ea, _, sa⟩ := hS.procOnBusy j₁ hj₁ a ho₁ hsa
  obtain ⟨mb, hmb, eb, _, sb⟩ := hS.procOnBusy j₂ hj₂ b ho₂ hsb
  have : ma = mb := eq_of_mem_of_key_eq (key := fun (y : MachineState) => y.id) (hI.shape.machNodup w) hma hmb
    (by rw [ea, eb, hm])
  subst this
  rw [sa] at sb; simp at sb
  have : j₁ = j₂ := eq_of_mem_of_key_eq (key := fun (y : JobState) => y.id) (hI.shape.jobsNodup w) hj₁ hj₂ sb
  subst this
  exact OpsOK_one_processing _ _ (hS.ops j₁ hj₁) a ho₁ b ho₂ hsa hsb

/-- no record is in progress on an idle machine -/
theorem no_proc_on_idle (w : WF inst) {s : State} (hI : StructInv inst s) (hS : SchedInv s) {m : MachineState}
    (hm : m ∈ s.machines) (hst : m.st = .idle) {b : OpState} (hb : ProcOn (recs s) m.id b) : False := by
  obtain ⟨j, hj, ho⟩ := mem_recs.mp hb.mem
  obtain ⟨m', hm', e, hne, _⟩ := hS.procOnBusy j hj b ho hb.st
  have : m' = m := eq_of_mem_of_key_eq (key := fun (y : MachineState) => y.id) (hI.shape.machNodup w) hm' hm
    (by rw [e, hb.mach])
  subst this
  exact hne hst

/-- the records after one record of one job has been rewritten -/
theorem mem_recs_replace (w : WF inst) {s s' : State} (hI : StructInv inst s) {j J' : JobState} {target rec : OpState}
    (hj : j ∈ s.jobs) (htm : target ∈ j.ops) (hkey : rec.job = target.job ∧ rec.idx = target.idx)
    (hJid : J'.id = j.id) (hJops : J'.ops = (j.replaceOp rec).ops) (hjobs : s'.jobs = (s.replaceJob J').jobs) (x : OpState) :
    x ∈ recs s' ↔ x = rec ∨ (x ∈ recs s ∧ x ≠ target) := by
  have hjn := hI.shape.jobsNodup w
  constructor
  · intro hx
    obtain ⟨j1, hj1, hx1⟩ := mem_recs.mp hx
    rw [hjobs] at hj1
    rcases (mem_replaceJob hjn hj hJid j1).mp hj1 with rfl | ⟨hj0, hne⟩
    · rw [hJops] at hx1
      rcases mem_replaceOp.mp hx1 with ⟨rfl, _⟩ | ⟨hx0, hk⟩
      · exact Or.inl rfl
      · refine Or.inr ⟨mem_recs.mpr ⟨j, hj, hx0⟩, ?_⟩
        intro e; subst e
        exact hk ⟨hkey.1.symm, hkey.2.symm⟩
    · refine Or.inr ⟨mem_recs.mpr ⟨j1, hj0, hx1⟩, ?_⟩
      intro e; subst e
      apply hne
      rw [← hI.shape.ops_job w hj0 hx1, hI.shape.ops_job w hj htm]
  · rintro (rfl | ⟨hx, hne⟩)
    · apply mem_recs.mpr
      refine ⟨J', by rw [hjobs]; exact (mem_replaceJob hjn hj hJid J').mpr (Or.inl rfl), ?_⟩
      rw [hJops]
      exact mem_replaceOp.mpr (Or.inl ⟨rfl, target, htm, hkey.1.symm, hkey.2.symm⟩)
    · obtain ⟨j1, hj1, hx1⟩ := mem_recs.mp hx
      by_cases e : j1.id = j.id
      · have : j1 = j := eq_of_mem_of_key_eq (key := fun (y : JobState) => y.id) hjn hj1 hj e
        subst this
        apply mem_recs.mpr
        refine ⟨J', by rw [hjobs]; exact (mem_replaceJob hjn hj hJid J').mpr (Or.inl rfl), ?_⟩
        rw [hJops]
        refine mem_replaceOp.mpr (Or.inr ⟨hx1, ?_⟩)
        intro hk
        exact hne (key_unique_in_job w hI hj1 hx1 htm ⟨by rw [hk.1, hkey.1], by rw [hk.2, hkey.2]⟩)
      · exact mem_recs.mpr ⟨j1, by rw [hjobs]; exact (mem_replaceJob hjn hj hJid j1).mpr (Or.inr ⟨hj1, e⟩), hx1⟩

/-- the rewritten record is not among the old records unless it is the target itself -/
theorem rec_not_old (w : WF inst) {s : State} (hI : StructInv inst s) {target rec p : OpState}
    (ht : target ∈ recs s) (hkey : rec.job = target.job ∧ rec.idx = target.idx) (hp : p ∈ recs s) (he : p = rec) :
    p = target :=
  recs_key_unique w hI hp ht (by rw [he]; exact hkey)

end JSL
