import JSL.Inv.Startable
import JSL.Inv.EnvReach

/-!
# An accepted machine start starts now

`env.step(1)` with a machine start `(mid, jid)` at the head of the offers submits exactly that
transition with `jump_to_event`; `state.step` applies the action's transitions before anything else,
so the first applied transition (the head of the ghost list `micro`) is the start, applied to the
very state the offer was made in.  Right after it the first idle operation `o` of job `jid` – the
one the offer was made for (T1) – is `PROCESSING` on machine `mid`, which is in `SETUP`, and its
recorded start is the decision instant `res.state.time`.
-/

namespace JSL

variable {orc : Oracle} {inst : Instance} {cfg : SMConfig}

/-- the timed loop only appends to the ghost list -/
theorem timedLoop_micro_prefix : ∀ (fuel : Nat) (tt : List Transition) (s : State) (r : Rng)
    (subs mic : List State) (out : LoopOut), timedLoop orc inst cfg fuel tt s r subs mic = .ok out →
    ∃ rest, out.micro = mic ++ rest := by
  intro fuel
  induction fuel with
  | zero =>
    intro tt s r subs mic out h
    cases tt with
    | nil => simp [timedLoop] at h; subst h; exact ⟨[], by simp⟩
    | cons a as => simp [timedLoop] at h
  | succ n ih =>
    intro tt s r subs mic out h
    cases tt with
    | nil => simp [timedLoop] at h; subst h; exact ⟨[], by simp⟩
    | cons a as =>
      simp only [timedLoop] at h
      obtain ⟨o, ho, h⟩ := except_bind_eq_ok h
      split at h
      · simp at h; subst h; exact ⟨o.micro, rfl⟩
      · obtain ⟨t, ht, h⟩ := except_bind_eq_ok h
        obtain ⟨tt', htt', h⟩ := except_bind_eq_ok h
        obtain ⟨rest, e⟩ := ih _ _ _ _ _ _ h
        exact ⟨o.micro ++ rest, by rw [e, List.append_assoc]⟩

/-- the transitions of the action are applied first: the ghost list of a `state.step` begins with
the ghost list of the action batch -/
theorem smStep_micro_prefix {fuel : Nat} {s0 : State} {r : Rng} {a : Action} {res : SMResult} {r' : Rng}
    {mic : List State} (h : smStep orc inst cfg fuel s0 r a = .ok (res, r', mic)) :
    ∃ p rest, processTransitions orc inst (sortedByTransport a.transitions) s0 r = .ok p ∧ mic = p.micro ++ rest := by
  unfold smStep at h
  obtain ⟨p, hp, h⟩ := except_bind_eq_ok h
  refine ⟨p, ?_⟩
  split at h
  · simp at h
    obtain ⟨_, _, rfl⟩ := h
    exact ⟨[], hp, by simp⟩
  · simp only at h
    obtain ⟨t, ht, h⟩ := except_bind_eq_ok h
    obtain ⟨timed, htimed, h⟩ := except_bind_eq_ok h
    obtain ⟨poss, hposs, h⟩ := except_bind_eq_ok h
    obtain ⟨tele, htele, h⟩ := except_bind_eq_ok h
    obtain ⟨out, hout, h⟩ := except_bind_eq_ok h
    obtain ⟨rest, e⟩ := timedLoop_micro_prefix _ _ _ _ _ _ _ hout
    split at h
    · simp at h
      obtain ⟨_, _, rfl⟩ := h
      exact ⟨rest, hp, e⟩
    · split at h
      · obtain ⟨e', _, h⟩ := except_bind_eq_ok h
        simp at h
        obtain ⟨_, _, rfl⟩ := h
        exact ⟨rest, hp, e⟩
      · obtain ⟨poss', _, h⟩ := except_bind_eq_ok h
        simp at h
        obtain ⟨_, _, rfl⟩ := h
        exact ⟨rest, hp, e⟩

/-- a `state.step` with exactly one valid transition in its action applies it first, to the state
the step starts from -/
theorem smStep_single_first {fuel : Nat} {s0 : State} {r : Rng} {a : Action} {tr : Transition} {res : SMResult}
    {r' : Rng} {mic : List State} (hat : a.transitions = [tr]) (hv : transitionValid s0 tr = .ok true)
    (h : smStep orc inst cfg fuel s0 r a = .ok (res, r', mic)) :
    ∃ s1 r1 rest, applyTransition orc inst s0 r tr = .ok (s1, r1) ∧ mic = s1 :: rest := by
  obtain ⟨p, rest, hp, e⟩ := smStep_micro_prefix h
  rw [hat, sortedByTransport_single] at hp
  simp only [processTransitions, hv, except_bind_ok, if_true] at hp
  obtain ⟨⟨s1, r1⟩, ha, hp⟩ := except_bind_eq_ok hp
  simp only [except_pure, except_bind_ok, Except.ok.injEq] at hp
  subst hp
  exact ⟨s1, r1, rest, ha, by simpa using e⟩

/-- **what the start of a startable operation writes**: applied to a state with the structural and
the schedule invariant, the machine start offered for job `j` with first idle operation `o` turns
exactly the record of `o` into `PROCESSING` on that machine from now on, and puts the machine into
SETUP until the recorded end -/
theorem start_applies_now (w : WF inst) {s s1 : State} {r r1 : Rng} (hI : StructInv inst s) (hS : SchedInv s)
    {j : JobState} (hj : j ∈ s.jobs) {o : OpState} {m : MachineState} (hst : StartableOp s j o m)
    (h : applyTransition orc inst s r { comp := .m o.machine, new := .m .setup, job := some j.id } = .ok (s1, r1)) :
    ∃ sd : Int, ∃ j1 ∈ s1.jobs, j1.id = j.id ∧ j1.loc = m.buffer.id ∧
      (∃ o1 ∈ j1.ops, o1.job = o.job ∧ o1.idx = o.idx ∧ o1.st = .processing ∧ o1.machine = o.machine ∧
        o1.start = some s.time ∧ o1.stop = some (s.time + sd)) ∧
      ∃ m1 ∈ s1.machines, m1.id = o.machine ∧ m1.st = .setup ∧ m1.occ = some (s.time + sd) ∧
        m1.buffer.store = m.buffer.store ++ [j.id] := by
  have hjn := hI.shape.jobsNodup w
  have hmn := hI.shape.machNodup w
  have hm := getMachine_ok hst.machine
  have hnn : j.nextNotDone? = some o := by
    rw [nextNotDone_eq_nextIdle (hS.ops j hj) hst.notRunning, hst.nextIdle]
  have ho : o ∈ j.ops := (find?_mem_ops hst.nextIdle).1
  simp only [applyTransition, hst.machine, except_bind_ok, handleMachineTransition, hst.idle, machineHandlerOf,
    machineHandler, except_pure] at h
  obtain ⟨j2, op2, oc, mc, sd, b1, b2, hj2, htj, _, hnn2, _, hk1, hk2, _, _, _, _, rfl⟩ := idleToSetup_spec h
  have hid : j2.id = j.id := by simpa using htj.symm
  have : j2 = j := eq_of_mem_of_key_eq (key := fun (y : JobState) => y.id) hjn hj2 hj hid
  subst this
  have : op2 = o := by rw [hnn] at hnn2; simpa using hnn2.symm
  subst this
  refine ⟨sd, (j2.replaceOp (opRec oc s.time (s.time + sd) m.id)).at m.buffer.id, ?_, rfl, rfl,
    ⟨opRec oc s.time (s.time + sd) m.id, ?_, hk1, hk2, rfl, hm.2, rfl, rfl⟩,
    m.toSetup j2.id b1 b2 (s.time + sd) oc.tool, ?_, hm.2, rfl, rfl, rfl⟩
  · show _ ∈ (s.replaceJob _).jobs
    exact (mem_replaceJob hjn hj2 (j' := (j2.replaceOp (opRec oc s.time (s.time + sd) m.id)).at m.buffer.id) rfl _).mpr (Or.inl rfl)
  · show _ ∈ (j2.replaceOp _).ops
    exact mem_replaceOp.mpr (Or.inl ⟨rfl, op2, ho, hk1.symm, hk2.symm⟩)
  · show _ ∈ ((s.replaceJob _).replaceMachine _).machines
    simp only [State.replaceMachine, State.replaceJob]
    exact List.mem_map.mpr ⟨m, hm.1, by simp [MachineState.toSetup]⟩

variable {mc : MwCfg} {fuel : Nat}

/-- "accept" submits the head offer: the state-machine step behind it -/
theorem mwStep_accept_smStep {res : SMResult} {m : MwState} {r : Rng} {tr : Transition} {rest : List Transition}
    (hp : res.possible = tr :: rest) {out : SMResult × MwState × Rng × List State}
    (h : mwStep orc inst cfg mc fuel res m r .accept = .ok out) :
    smStep orc inst cfg fuel res.state r { transitions := [tr], noOp := false, tm := .jumpToEvent } =
      .ok (out.1, out.2.2.1, out.2.2.2) ∧ out.2.1 = { m with actCnt := m.actCnt + 1 } := by
  simp only [mwStep, interpret, hp, except_pure, except_bind_ok, MwState.addOp, Bool.false_eq_true, if_false] at h
  obtain ⟨⟨res', r', mic⟩, hs, h⟩ := except_bind_eq_ok h
  simp at h; subst h
  exact ⟨hs, rfl⟩

/-- **T4 at the middleware.**  In a state with the structural and the schedule invariant whose
offers were computed from it, with the machine start `(mid, jid)` at the head: if "accept" returns,
the start was applied first, to the state held, and right after it the operation the offer was made
for is running from the decision instant on. -/
theorem mwStep_accept_starts_now (w : WF inst) {res : SMResult} {m : MwState} {r : Rng} (hI : StructInv inst res.state)
    (hS : SchedInv res.state) {poss : List Transition} (hposs : possibleTransitions inst cfg res.state = .ok poss)
    {mid jid : Nat} {rest : List Transition}
    (hp : res.possible = { comp := .m mid, new := .m .setup, job := some jid } :: rest)
    (hsub : ({ comp := .m mid, new := .m .setup, job := some jid } : Transition) ∈ poss)
    {out : SMResult × MwState × Rng × List State} (h : mwStep orc inst cfg mc fuel res m r .accept = .ok out) :
    ∃ s1 r1 mic', applyTransition orc inst res.state r { comp := .m mid, new := .m .setup, job := some jid } = .ok (s1, r1) ∧
      out.2.2.2 = s1 :: mic' ∧
      ∃ j ∈ res.state.jobs, j.id = jid ∧ ∃ o mm, StartableOp res.state j o mm ∧ o.machine = mid ∧
      ∃ sd : Int, ∃ j1 ∈ s1.jobs, j1.id = jid ∧
        (∃ o1 ∈ j1.ops, o1.job = o.job ∧ o1.idx = o.idx ∧ o1.st = .processing ∧ o1.machine = mid ∧
          o1.start = some res.state.time ∧ o1.stop = some (res.state.time + sd)) ∧
        ∃ m1 ∈ s1.machines, m1.id = mid ∧ m1.st = .setup ∧ m1.occ = some (res.state.time + sd) := by
  obtain ⟨hs, _⟩ := mwStep_accept_smStep hp h
  have hv := offers_valid w hI hS hposs _ hsub
  obtain ⟨s1, r1, mic', ha, hmic⟩ := smStep_single_first rfl hv hs
  obtain ⟨j, hj, o, mm, hst, hm, e⟩ := offers_sound_op hS hposs hsub rfl
  simp only [Transition.mk.injEq, Comp.m.injEq, true_and, Option.some.injEq] at e
  obtain ⟨rfl, rfl⟩ := e
  obtain ⟨sd, j1, hj1, e1, _, ⟨o1, ho1, k1, k2, k3, k4, k5, k6⟩, m1, hm1, f1, f2, f3, _⟩ :=
    start_applies_now w hI hS hj hst ha
  exact ⟨s1, r1, mic', ha, hmic, j, hj, rfl, o, mm, hst, rfl, sd, j1, hj1, e1,
    ⟨o1, ho1, k1, k2, k3, k4, k5, k6⟩, m1, hm1, f1, f2, f3⟩

/-- **T4 along every episode.**  In every environment state of every episode with a machine start
`(mid, jid)` at the head of the offers: if `env.step(1)` returns, then the first transition applied
inside the step is that start, applied to the state held with the counters held; job `jid` is not
running, its first idle operation `o` is routed to the idle machine `mid` in whose pre-buffer the job
stands; and right after the start the record of `o` is `PROCESSING` on `mid` with
`start = e.res.state.time` – the accepted operation begins at the decision instant – while `mid` is
in SETUP until the recorded end. -/
theorem envStep_accept_starts_now {ec : EnvCfg} {st : RewardStatic} {s0 : State} (hst : Start orc inst s0)
    {e : EnvState} (hr : EnvReach orc inst ec st s0 e) {mid jid : Nat} {rest : List Transition}
    (hp : e.res.possible = { comp := .m mid, new := .m .setup, job := some jid } :: rest)
    {out : StepOut} (h : envStep orc inst ec st e .accept = .ok out) :
    ∃ s1 r1 mic', applyTransition orc inst e.res.state e.rng { comp := .m mid, new := .m .setup, job := some jid } = .ok (s1, r1) ∧
      out.micro = s1 :: mic' ∧
      ∃ j ∈ e.res.state.jobs, j.id = jid ∧ ∃ o mm, StartableOp e.res.state j o mm ∧ o.machine = mid ∧
      ∃ sd : Int, ∃ j1 ∈ s1.jobs, j1.id = jid ∧
        (∃ o1 ∈ j1.ops, o1.job = o.job ∧ o1.idx = o.idx ∧ o1.st = .processing ∧ o1.machine = mid ∧
          o1.start = some e.res.state.time ∧ o1.stop = some (e.res.state.time + sd)) ∧
        ∃ m1 ∈ s1.machines, m1.id = mid ∧ m1.st = .setup ∧ m1.occ = some (e.res.state.time + sd) := by
  have hi := envReach_inv hst hr
  have hne : e.res.possible ≠ [] := by rw [hp]; simp
  obtain ⟨w, hI, hS⟩ := occursA_inv hst (hi.live hne).1
  obtain ⟨poss, hposs, hsub⟩ := hi.offersFrom hne
  unfold envStep at h
  split at h
  · simp at h
  · obtain ⟨⟨res', mw, r, mic⟩, hm, h⟩ := except_bind_eq_ok h
    simp only at h
    obtain ⟨⟨rew, cnt⟩, _, h⟩ := except_bind_eq_ok h
    simp at h; subst h
    exact mwStep_accept_starts_now w hI hS hposs hp (hsub _ (by rw [hp]; simp)) hm

end JSL
