import JSL.Inv.ApproachStep

/-!
# Every listed application, in order

For the ordered list of applications of an episode (`EnvRun`): every call is a genuine application
in a state that satisfies the structure and schedule invariants, does to the AGV records what
`AgvFx` says, ends an approach only when it is due (`ApCall`); and consecutive calls are linked –
the next transition is applied to the state the previous one produced, after the clock has possibly
advanced, never gone back (`ApLinked`).

The due clause needs every parked transition to be parked at the AGV it addresses (`DepOwn`) in the
post-state of every listed call; this is a hypothesis (`hown`), see `Props/C07Approach.lean`.
-/

namespace JSL

variable {orc : Oracle} {inst : Instance}

/-- the same state with the clock advanced (or not) -/
def ApAdv (s s' : State) : Prop := ∃ t, s.time ≤ t ∧ s' = { s with time := t }

theorem ApAdv.refl (s : State) : ApAdv s s := ⟨s.time, Int.le_refl _, rfl⟩

theorem ApAdv.trans {a b c : State} (h1 : ApAdv a b) (h2 : ApAdv b c) : ApAdv a c := by
  obtain ⟨t1, l1, rfl⟩ := h1
  obtain ⟨t2, l2, rfl⟩ := h2
  exact ⟨t2, by simp at l2; omega, rfl⟩

theorem ApAdv.depOwn {s s' : State} (h : ApAdv s s') (hd : DepOwn s) : DepOwn s' := by
  obtain ⟨t, _, rfl⟩ := h
  exact hd

/-- what is known of every listed call -/
structure ApCall (orc : Oracle) (inst : Instance) (c : Call) : Prop where
  struct : StructInv inst c.pre
  sched : SchedInv c.pre
  structPost : StructInv inst c.post
  valid : transitionValid c.pre c.tr = .ok true
  app : ∃ r r', applyTransition orc inst c.pre r c.tr = .ok (c.post, r')
  fx : AgvFx orc inst c.pre c.tr c.post
  due : Leaving c.tr → ∀ t ∈ c.pre.transports, c.tr.comp = .t t.id → t.st = .pickup →
    ∀ o, t.occ = .at o → o ≤ c.pre.time

/-- consecutive calls are linked -/
def ApLinked : State → List Call → Prop
  | _, [] => True
  | s, c :: C => ApAdv s c.pre ∧ ApLinked c.post C

/-- the state after the last listed call -/
def apEnd : State → List Call → State
  | s, [] => s
  | _, c :: C => apEnd c.post C

theorem apEnd_append : ∀ (C D : List Call) (s : State), apEnd s (C ++ D) = apEnd (apEnd s C) D
  | [], _, _ => rfl
  | c :: C, D, _ => by simp only [List.cons_append, apEnd]; exact apEnd_append C D c.post

theorem ApLinked.append : ∀ {C D : List Call} {s : State}, ApLinked s C → ApLinked (apEnd s C) D → ApLinked s (C ++ D)
  | [], _, _, _, h => h
  | c :: C, D, s, h1, h2 => ⟨h1.1, ApLinked.append (C := C) h1.2 h2⟩

theorem ApLinked.of_adv {s s2 : State} (h : ApAdv s s2) : ∀ {D : List Call}, ApLinked s2 D → ApLinked s D
  | [], _ => trivial
  | _ :: _, h2 => ⟨h.trans h2.1, h2.2⟩

theorem apEnd_adv {s s2 x : State} (h : ApAdv s s2) : ∀ {D : List Call}, ApAdv (apEnd s2 D) x → ApAdv (apEnd s D) x
  | [], h2 => h.trans h2
  | _ :: _, h2 => h2

theorem ap_depOwn_end : ∀ {C : List Call} {s : State}, DepOwn s → (∀ c ∈ C, DepOwn c.post) → DepOwn (apEnd s C)
  | [], _, h, _ => h
  | c :: C, _, _, h => ap_depOwn_end (C := C) (h c (by simp)) (fun x hx => h x (by simp [hx]))

/-! ## one batch -/

theorem ap_procCalls_ok (w : WF inst) (nn : NonNeg orc inst) :
    ∀ (L : List Transition) (s : State) (r : Rng) (o : ProcOut), StructInv inst s → SchedInv s →
      Safe s L → Fresh L → ApDueGS s L → processTransitions orc inst L s r = .ok o →
      (∀ c ∈ procCalls orc inst L s r, ApCall orc inst c) ∧ ApLinked s (procCalls orc inst L s r) ∧
        o.state = apEnd s (procCalls orc inst L s r) ∧ StructInv inst o.state ∧ SchedInv o.state := by
  intro L
  induction L with
  | nil =>
    intro s r o hI hS _ _ _ h
    simp [processTransitions] at h; subst h
    exact ⟨by simp [procCalls], trivial, rfl, hI, hS⟩
  | cons tr L ih =>
    intro s r o hI hS hsafe hfresh hgs h
    simp only [processTransitions] at h
    obtain ⟨v, hv, h⟩ := except_bind_eq_ok h
    cases v with
    | true =>
      simp only [if_true] at h
      obtain ⟨⟨s1, r1⟩, ha, h⟩ := except_bind_eq_ok h
      obtain ⟨o1, ho1, h⟩ := except_bind_eq_ok h
      simp at h; subst h
      have hI1 := applyTransition_struct w hI hv ha
      have hS1 := applyTransition_sched w nn hI hS hv hsafe.guard ha
      have hfr := applyTransition_frame w hI hS hsafe.guard ha
      have hfx := ap_agv_fx w nn hI ha
      have := ih s1 r1 o1 hI1 hS1 (hsafe.step hfresh hfr) (List.pairwise_cons.mp hfresh).2 (hgs.step hfx) ho1
      simp only [procCalls, hv, ha]
      refine ⟨?_, ⟨ApAdv.refl s, this.2.1⟩, this.2.2.1, this.2.2.2⟩
      intro c hc
      rcases List.mem_cons.mp hc with rfl | hc
      · exact ⟨hI, hS, hI1, hv, ⟨r, r1, ha⟩, hfx, fun hl => hgs.due tr (by simp) hl⟩
      · exact this.1 c hc
    | false =>
      simp only [Bool.false_eq_true, if_false] at h
      obtain ⟨o1, ho1, h⟩ := except_bind_eq_ok h
      simp at h; subst h
      simp only [procCalls, hv]
      exact ih s r o1 hI hS hsafe.tail (List.pairwise_cons.mp hfresh).2 hgs.tail ho1

/-! ## the loop -/

theorem ap_loopCalls_ok {cfg : SMConfig} (w : WF inst) (nn : NonNeg orc inst) :
    ∀ (fuel : Nat) (tt : List Transition) (s : State) (r : Rng) (subs mic : List State) (out : LoopOut),
      StructInv inst s → SchedInv s → Safe s tt → Fresh tt → ApDueGS s tt → DepOwn s →
      (∀ c ∈ loopCalls orc inst cfg fuel tt s r, DepOwn c.post) →
      timedLoop orc inst cfg fuel tt s r subs mic = .ok out →
      (∀ c ∈ loopCalls orc inst cfg fuel tt s r, ApCall orc inst c) ∧ ApLinked s (loopCalls orc inst cfg fuel tt s r) ∧
        (out.failed = false → ApAdv (apEnd s (loopCalls orc inst cfg fuel tt s r)) out.state) := by
  intro fuel
  induction fuel with
  | zero =>
    intro tt s r subs mic out _ _ _ _ _ _ _ h
    cases tt with
    | nil => simp [timedLoop] at h; subst h; exact ⟨by simp [loopCalls], trivial, fun _ => ApAdv.refl s⟩
    | cons a as => simp [timedLoop] at h
  | succ n ih =>
    intro tt s r subs mic out hI hS hsafe hfresh hgs hd hown h
    cases tt with
    | nil => simp [timedLoop] at h; subst h; exact ⟨by simp [loopCalls], trivial, fun _ => ApAdv.refl s⟩
    | cons a as =>
      simp only [timedLoop] at h
      obtain ⟨o, ho, h⟩ := except_bind_eq_ok h
      have hp := ap_procCalls_ok w nn _ _ _ _ hI hS hsafe hfresh hgs ho
      simp only [loopCalls, ho] at hown ⊢
      split at h
      · rename_i hn
        simp at h; subst h
        simp only [hn, if_true, List.append_nil]
        exact ⟨hp.1, hp.2.1, fun hf => by simp at hf⟩
      · rename_i hn
        obtain ⟨t, ht, h⟩ := except_bind_eq_ok h
        obtain ⟨tt', htt', h⟩ := except_bind_eq_ok h
        simp only [hn, if_false, ht, htt'] at hown ⊢
        have hadv := jumpToEvent_spec hp.2.2.2.2 ht
        have hS' := hp.2.2.2.2.advance hadv.1 hadv.2
        have hI' := hp.2.2.2.1.time t
        have hsf := timed_batch_safe w (tele := []) hI' hS' htt' (by simp)
        simp only [List.append_nil] at hsf
        have hdo : DepOwn o.state := by
          rw [hp.2.2.1]
          exact ap_depOwn_end hd (fun c hc => hown c (List.mem_append.mpr (Or.inl hc)))
        have hgs' : ApDueGS { o.state with time := t } tt' := by
          simpa using ap_timed_due w hI' hS' (s := { o.state with time := t }) hdo (tele := []) htt' (by simp)
        have hadv' : ApAdv o.state { o.state with time := t } := ⟨t, hadv.1, rfl⟩
        have hr := ih _ _ _ _ _ _ hI' hS' hsf.1 hsf.2 hgs' hdo
          (fun c hc => hown c (List.mem_append.mpr (Or.inr hc))) h
        refine ⟨?_, ?_, ?_⟩
        · intro c hc
          rcases List.mem_append.mp hc with hc | hc
          · exact hp.1 c hc
          · exact hr.1 c hc
        · apply ApLinked.append hp.2.1
          rw [← hp.2.2.1]
          exact ApLinked.of_adv hadv' hr.2.1
        · intro hf
          rw [apEnd_append, ← hp.2.2.1]
          exact apEnd_adv hadv' (hr.2.2 hf)

/-! ## `state.step` -/

theorem ap_stepCalls_congr {cfg : SMConfig} {fuel : Nat} {s0 : State} {r : Rng} {a a' : Action}
    (h1 : a.transitions = a'.transitions) (h2 : a.tm = a'.tm) :
    stepCalls orc inst cfg fuel s0 r a = stepCalls orc inst cfg fuel s0 r a' := by
  unfold stepCalls
  rw [h1, h2]

theorem ap_stepCalls_ok {cfg : SMConfig} (w : WF inst) (nn : NonNeg orc inst) {fuel : Nat} {s0 : State} {r : Rng}
    {a : Action} {res : SMResult} {r' : Rng} {mic : List State} (hI : StructInv inst s0) (hS : SchedInv s0)
    (ha : Admissible a) (hd : DepOwn s0) (hown : ∀ c ∈ stepCalls orc inst cfg fuel s0 r a, DepOwn c.post)
    (h : smStep orc inst cfg fuel s0 r a = .ok (res, r', mic)) :
    (∀ c ∈ stepCalls orc inst cfg fuel s0 r a, ApCall orc inst c) ∧ ApLinked s0 (stepCalls orc inst cfg fuel s0 r a) ∧
      (res.success = true → isDone inst res.state = false →
        ApAdv (apEnd s0 (stepCalls orc inst cfg fuel s0 r a)) res.state) := by
  unfold smStep at h
  obtain ⟨p, hp, h⟩ := except_bind_eq_ok h
  have hsf := offerShaped_safe (s := s0) (L := sortedByTransport a.transitions)
    (fun tr htr => ha.shaped tr (mem_sortedByTransport htr))
  have hgs0 : ApDueGS s0 (sortedByTransport a.transitions) :=
    ap_dueGS_offers (fun tr htr => ha.shaped tr (mem_sortedByTransport htr))
  have hpp := ap_procCalls_ok w nn _ _ _ _ hI hS hsf.1 hsf.2 hgs0 hp
  simp only [stepCalls, hp] at hown ⊢
  split at h
  · rename_i hn
    simp at h
    obtain ⟨rfl, _, _⟩ := h
    simp only [hn, if_true, List.append_nil]
    exact ⟨hpp.1, hpp.2.1, fun hs => by simp at hs⟩
  · rename_i hn
    simp only at h
    obtain ⟨t, ht, h⟩ := except_bind_eq_ok h
    obtain ⟨timed, htimed, h⟩ := except_bind_eq_ok h
    obtain ⟨poss, hposs, h⟩ := except_bind_eq_ok h
    obtain ⟨tele, htele, h⟩ := except_bind_eq_ok h
    obtain ⟨out, hout, h⟩ := except_bind_eq_ok h
    simp only [hn, if_false, ht, htimed, hposs, htele] at hown ⊢
    have hadv := runTimeMachine_spec hpp.2.2.2.2 ha.tm ht
    have hS1 := hpp.2.2.2.2.advance hadv.1 hadv.2
    have hI1 := hpp.2.2.2.1.time t
    have hbatch := timed_batch_safe w hI1 hS1 htimed (filterTeleport_shape hposs htele)
    have hdo : DepOwn p.state := by
      rw [hpp.2.2.1]
      exact ap_depOwn_end hd (fun c hc => hown c (List.mem_append.mpr (Or.inl hc)))
    have hgs1 : ApDueGS { p.state with time := t } (timed ++ tele) :=
      ap_timed_due w hI1 hS1 (s := { p.state with time := t }) hdo htimed (filterTeleport_shape hposs htele)
    have hadv' : ApAdv p.state { p.state with time := t } := ⟨t, hadv.1, rfl⟩
    have hl := ap_loopCalls_ok w nn _ _ _ _ _ _ _ hI1 hS1 hbatch.1 hbatch.2 hgs1 hdo
      (fun c hc => hown c (List.mem_append.mpr (Or.inr hc))) hout
    refine ⟨?_, ?_, ?_⟩
    · intro c hc
      rcases List.mem_append.mp hc with hc | hc
      · exact hpp.1 c hc
      · exact hl.1 c hc
    · apply ApLinked.append hpp.2.1
      rw [← hpp.2.2.1]
      exact ApLinked.of_adv hadv' hl.2.1
    · intro hsuc hnd
      rw [apEnd_append, ← hpp.2.2.1]
      apply apEnd_adv hadv'
      split at h
      · simp at h
        obtain ⟨rfl, _, _⟩ := h
        simp at hsuc
      · rename_i hnf
        split at h
        · rename_i hdone
          obtain ⟨e, _, h⟩ := except_bind_eq_ok h
          exfalso
          cases e with
          | none =>
            simp at h
            obtain ⟨rfl, _, _⟩ := h
            simp only at hnd
            rw [hdone] at hnd; cases hnd
          | some e =>
            simp at h
            obtain ⟨rfl, _, _⟩ := h
            simp only at hnd
            rw [isDone_time, hdone] at hnd; cases hnd
        · obtain ⟨poss', _, h⟩ := except_bind_eq_ok h
          simp at h
          obtain ⟨rfl, _, _⟩ := h
          exact hl.2.2 (by simpa using hnf)

/-! ## the environment -/

theorem ap_depOwn_rest {s0 : State} (h : restB s0 = true) : DepOwn s0 := by
  simp only [restB, Bool.and_eq_true, List.all_eq_true, beq_iff_eq, List.isEmpty_iff, Option.isNone_iff_eq_none] at h
  obtain ⟨_, ht⟩ := h
  intro t ht' b j tr ho
  have := (ht t ht').1.2
  rw [ho] at this
  simp at this

theorem ap_envRun_reach {ec : EnvCfg} {st : RewardStatic} {s0 : State} {e : EnvState} {C : List Call}
    (h : EnvRun orc inst ec st s0 e C) : EnvReach orc inst ec st s0 e := by
  induction h with
  | reset h => exact .reset h
  | step _ h ih => exact .step ih h

/-- what a middleware step does, with the list of its applications -/
theorem ap_mwStep_cases {cfg : SMConfig} {mc : MwCfg} {fuel : Nat} {res : SMResult} {m : MwState} {r : Rng}
    {a : AgentAct} {out : SMResult × MwState × Rng × List State}
    (h : mwStep orc inst cfg mc fuel res m r a = .ok out) :
    (mwCalls orc inst cfg fuel res r a = [] ∧ out.2.2.2 = [] ∧ res.possible ≠ [] ∧ out.1.state = res.state ∧
        out.1.success = true) ∨
    (∃ act, (∀ tr ∈ act.transitions, tr ∈ res.possible) ∧ act.tm ≠ .jumpByOne ∧ res.possible ≠ [] ∧
        mwCalls orc inst cfg fuel res r a = stepCalls orc inst cfg fuel res.state r act ∧
        smStep orc inst cfg fuel res.state r act = .ok (out.1, out.2.2.1, out.2.2.2)) := by
  rcases mwStep_cases h with ⟨o, o', rest, ha, hp, e1, _, _, e4, _, e6, _⟩ | ⟨act, hsub, hk, hs⟩
  · subst ha
    exact Or.inl ⟨by simp [mwCalls, hp], e6, by rw [hp]; simp, e1, e4⟩
  · right
    have hmem : ∀ tr ∈ act.transitions, tr ∈ res.possible := by
      intro tr htr
      have := hsub tr htr
      cases hp : res.possible with
      | nil => rw [hp] at this; simp at this
      | cons x xs => rw [hp] at this; simp at this; rw [this]; simp
    rcases hk with ⟨rfl, htm, htr, hne⟩ | ⟨rfl, htm, htr, hlen⟩
    · refine ⟨act, hmem, by rw [htm]; simp, hne, ?_, hs⟩
      cases hp : res.possible with
      | nil => exact absurd hp hne
      | cons x xs =>
        simp only [mwCalls, hp]
        exact ap_stepCalls_congr (a' := act) (by rw [htr, hp]; rfl) (by rw [htm])
    · have hne : res.possible ≠ [] := by intro h0; rw [h0] at hlen; simp at hlen
      refine ⟨act, hmem, by rw [htm]; simp, hne, ?_, hs⟩
      cases hp : res.possible with
      | nil => exact absurd hp hne
      | cons x xs =>
        cases xs with
        | cons y ys => rw [hp] at hlen; simp at hlen
        | nil =>
          simp only [mwCalls, hp]
          exact ap_stepCalls_congr (a' := act) (by rw [htr]; rfl) (by rw [htm])

/-- the post-states of the listed calls of an episode step are the ghost list the step returns -/
theorem ap_mwCalls_micro {cfg : SMConfig} {mc : MwCfg} {fuel : Nat} {res : SMResult} {m : MwState} {r : Rng}
    {a : AgentAct} {out : SMResult × MwState × Rng × List State}
    (h : mwStep orc inst cfg mc fuel res m r a = .ok out) :
    (mwCalls orc inst cfg fuel res r a).map (·.post) = out.2.2.2 := by
  rcases ap_mwStep_cases h with ⟨e1, e2, _⟩ | ⟨act, _, _, _, e, hs⟩
  · rw [e1, e2]; rfl
  · rw [e]; exact ap_stepCalls_micro hs

theorem ap_envRun_ok {ec : EnvCfg} {st : RewardStatic} {s0 : State} (hst : Start orc inst s0) {e : EnvState}
    {C : List Call} (hrun : EnvRun orc inst ec st s0 e C) (hown : ∀ c ∈ C, DepOwn c.post) :
    (∀ c ∈ C, ApCall orc inst c) ∧ ApLinked s0 C ∧
      (e.done = false → e.res.possible ≠ [] → ApAdv (apEnd s0 C) e.res.state) := by
  obtain ⟨w, hI0⟩ := initOKB_sound hst.init
  have nn := nonnegB_sound hst.samples hst.nonneg
  have hd0 := ap_depOwn_rest hst.rest
  induction hrun with
  | @reset r e mic h =>
    unfold envReset mwReset at h
    obtain ⟨⟨res, mw, r', mic'⟩, h1, h⟩ := except_bind_eq_ok h
    obtain ⟨⟨res', r'', mic''⟩, h2, h1⟩ := except_bind_eq_ok h1
    simp at h1 h
    obtain ⟨rfl, rfl, rfl, rfl⟩ := h1
    obtain ⟨rfl, rfl⟩ := h
    have := ap_stepCalls_ok w nn hI0 (restB_sound hst.rest) admissible_noOp hd0 hown h2
    refine ⟨this.1, this.2.1, ?_⟩
    intro _ hne
    rcases (smStep_spec h2).2 with h3 | h3 | h3
    · exact absurd h3.2.2.2 hne
    · exact absurd h3.2.2.1 hne
    · exact this.2.2 h3.1 h3.2.2.1
  | @step e a out C hprev h ih =>
    have hC : ∀ c ∈ C, DepOwn c.post := fun c hc => hown c (List.mem_append.mpr (Or.inl hc))
    have hD : ∀ c ∈ mwCalls orc inst ec.sm ec.fuel e.res e.rng a, DepOwn c.post :=
      fun c hc => hown c (List.mem_append.mpr (Or.inr hc))
    obtain ⟨ih1, ih2, ih3⟩ := ih hC
    have hi := envReach_inv hst (ap_envRun_reach hprev)
    unfold envStep at h
    split at h
    · simp at h
    · rename_i hdone
      have hdone' : e.done = false := by cases hd : e.done <;> simp_all
      obtain ⟨⟨res', mw, r, mic⟩, hm, h⟩ := except_bind_eq_ok h
      simp only at h
      obtain ⟨⟨rew, cnt⟩, _, h⟩ := except_bind_eq_ok h
      simp at h; subst h
      have key : (∀ c ∈ C ++ mwCalls orc inst ec.sm ec.fuel e.res e.rng a, ApCall orc inst c) ∧
          ApLinked s0 (C ++ mwCalls orc inst ec.sm ec.fuel e.res e.rng a) ∧
          (res'.success = true → res'.possible ≠ [] →
            ApAdv (apEnd s0 (C ++ mwCalls orc inst ec.sm ec.fuel e.res e.rng a)) res'.state) := by
        rcases ap_mwStep_cases hm with ⟨e1, _, hne, e3, _⟩ | ⟨act, hmem, htm, hne, ecalls, hs⟩
        · simp only at e3
          rw [e1, List.append_nil]
          exact ⟨ih1, ih2, fun _ _ => by rw [e3]; exact ih3 hdone' hne⟩
        · simp only at hs
          have hl := hi.live hne
          obtain ⟨_, hI, hS⟩ := occursA_inv hst hl.1
          have hadv := ih3 hdone' hne
          have hde : DepOwn e.res.state := hadv.depOwn (ap_depOwn_end hd0 hC)
          have ha : Admissible act := ⟨fun tr htr => hl.2 tr (hmem tr htr), htm⟩
          rw [ecalls] at hD ⊢
          have hk := ap_stepCalls_ok w nn hI hS ha hde hD hs
          refine ⟨?_, ?_, ?_⟩
          · intro c hc
            rcases List.mem_append.mp hc with hc | hc
            · exact ih1 c hc
            · exact hk.1 c hc
          · exact ApLinked.append ih2 (ApLinked.of_adv hadv hk.2.1)
          · intro hsuc hne'
            rw [apEnd_append]
            apply apEnd_adv hadv
            rcases (smStep_spec hs).2 with h3 | h3 | h3
            · exact absurd h3.2.2.2 hne'
            · exact absurd h3.2.2.1 hne'
            · exact hk.2.2 h3.1 h3.2.2.1
      refine ⟨key.1, key.2.1, ?_⟩
      by_cases hsuc : res'.success = true
      · simp only [hsuc, if_true]
        intro _ hne'
        exact key.2.2 hsuc hne'
      · simp only [hsuc]
        intro hdn
        simp at hdn

end JSL
