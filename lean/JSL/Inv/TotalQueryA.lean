import JSL.Inv.TotalOut

/-!
# The queries of a step do not raise

`create_timed_transitions`, `force_jump_to_event`, the end of the last finished operation and
`is_job_ready_for_pickup_from_postbuffer` return in every state that satisfies the invariants.
-/

namespace JSL

variable {inst : Instance}

/-- a `mapM` whose function returns on every member returns -/
theorem mapM_total {α β} {f : α → Except Err β} : ∀ {l : List α}, (∀ a ∈ l, ∃ b, f a = .ok b) →
    ∃ r, l.mapM f = .ok r
  | [], _ => ⟨[], by simp [List.mapM_nil]⟩
  | a :: as, h => by
    obtain ⟨b, hb⟩ := h a (by simp)
    obtain ⟨bs, hbs⟩ := mapM_total (l := as) (fun x hx => h x (by simp [hx]))
    exact ⟨b :: bs, by rw [List.mapM_cons]; simp [hb, hbs]⟩

/-! ## ready for pickup -/

theorem readyForPickup_totalT (w : WF inst) {s : State} (hI : StructInv inst s) {j : JobState} (hj : j ∈ s.jobs) :
    ∃ b, readyForPickup inst s j = .ok b := by
  have hin := hI.cons.located (j.id, j.loc) (List.mem_map.mpr ⟨j, hj, rfl⟩)
  simp only at hin
  obtain ⟨b, hb, hbi, e⟩ := storeAt_mem hin
  rw [e] at hin
  have hgs := getBufState_of_mem w hI.shape hb
  obtain ⟨bc, _, _, hgc⟩ := getBufCfg_of_state w hI.shape hb
  rw [hbi] at hgs hgc
  cases hidx : b.store.idxOf? j.id with
  | none => exact absurd hin (List.idxOf?_eq_none_iff.mp hidx)
  | some p => exact ⟨_, by simp [readyForPickup, hgs, hgc, hidx]; rfl⟩

/-! ## timed transitions -/

theorem machineSetupTransition_total (w : WF inst) {s : State} (hI : StructInv inst s) {m : MachineState}
    (hm : m ∈ s.machines) : ∃ r, machineSetupTransition inst m = .ok r := by
  unfold machineSetupTransition
  split
  · obtain ⟨pc, _, _, hgc⟩ := getBufCfg_of_state w hI.shape (mem_allBufs_of_machine hm).1
    cases hn : nextJobFromBuffer m.pre pc with
    | none => exact ⟨_, by simp [hgc, hn]; rfl⟩
    | some x => exact ⟨_, by simp [hgc, hn]; rfl⟩
  · exact ⟨_, rfl⟩

theorem timedMachine_totalT (w : WF inst) {s : State} (hI : StructInv inst s) (hS : SchedInv s) {m : MachineState}
    (hm : m ∈ s.machines) (now : Int) : ∃ r, timedMachine inst now m = .ok r := by
  unfold timedMachine
  split
  · rename_i ns hns
    have hnext : machineTimedNext m.st = some ns := by
      split at hns
      · exact hns
      · simp at hns
    have hne : m.st ≠ .idle := by
      intro e; rw [e] at hnext; simp [machineTimedNext] at hnext
    obtain ⟨j, _, hst, _⟩ := hS.busyHolds m hm hne
    rw [hst]
    exact ⟨_, rfl⟩
  · split
    · exact machineSetupTransition_total w hI hm
    · exact ⟨_, rfl⟩

theorem agvIdleToPickTransition_total (w : WF inst) {s : State} (hI : StructInv inst s) (hA : AgvInv s)
    {t : TransportState} (ht : t ∈ s.transports) {x : Nat} (hx : t.job = some x) :
    ∃ r, agvIdleToPickTransition inst s t = .ok r := by
  obtain ⟨j, hj, hjx⟩ := hA.claimed t ht x hx
  have hg := getJob_of_mem (hI.shape.jobsNodup w) hj
  rw [hjx] at hg
  obtain ⟨b, hb⟩ := readyForPickup_totalT w hI hj
  exact ⟨_, by simp [agvIdleToPickTransition, hx, optE, hg, hb]; rfl⟩

theorem timedTransport_totalT (w : WF inst) {s : State} (hV : TotInv inst s) {t : TransportState}
    (ht : t ∈ s.transports) : ∃ r, timedTransport inst s t = .ok r := by
  unfold timedTransport
  cases hocc : t.occ with
  | none => exact ⟨_, rfl⟩
  | dep b j tr => exact absurd hocc (hV.shape.noDep t ht b j tr)
  | «at» o =>
    simp only
    split
    · cases hst : t.st with
      | idle => exact ⟨_, by simp [agvTimedCreator]; rfl⟩
      | working => exact absurd hst (hV.shape.noWorking t ht)
      | pickup =>
        obtain ⟨x, hx⟩ := hV.shape.busyClaims t ht (Or.inl hst)
        simp only [agvTimedCreator]
        exact agvIdleToPickTransition_total w hV.struct hV.full.agv ht hx
      | waitingpickup =>
        obtain ⟨x, hx⟩ := hV.shape.busyClaims t ht (Or.inr hst)
        simp only [agvTimedCreator]
        exact agvIdleToPickTransition_total w hV.struct hV.full.agv ht hx
      | transit =>
        obtain ⟨j, hj, hstore⟩ := hV.full.agv.holds t ht hst
        have hg := getJob_of_mem (hV.struct.shape.jobsNodup w) hj
        exact ⟨_, by simp [agvTimedCreator, hstore, hg]; rfl⟩
      | outage => exact ⟨_, by simp [agvTimedCreator]; rfl⟩
    · exact ⟨_, rfl⟩

theorem timedTransitions_totalT (w : WF inst) {s : State} (hV : TotInv inst s) : ∃ tt, timedTransitions inst s = .ok tt := by
  obtain ⟨a, ha⟩ := mapM_total (f := timedMachine inst s.time) (l := s.machines)
    (fun m hm => timedMachine_totalT w hV.struct hV.sched hm s.time)
  obtain ⟨b, hb⟩ := mapM_total (f := timedTransport inst s) (l := s.transports)
    (fun t ht => timedTransport_totalT w hV ht)
  exact ⟨_, by simp [timedTransitions, timedMachineTransitions, timedTransportTransitions, ha, hb]; rfl⟩

/-! ## the time machine and the last finished operation -/

/-- a bind of two computations that return returns -/
theorem bind_total {α β} {x : Except Err α} {f : α → Except Err β} (hx : ∃ a, x = .ok a)
    (hf : ∀ a, x = .ok a → ∃ b, f a = .ok b) : ∃ b, (x >>= f) = .ok b := by
  obtain ⟨a, ha⟩ := hx
  obtain ⟨b, hb⟩ := hf a ha
  exact ⟨b, by rw [ha]; exact hb⟩

theorem forceJump_totalT {s : State} (hS : SchedInv s) (hA : AgvShape s) : ∃ t, forceJump s = .ok t := by
  unfold forceJump
  refine bind_total (mapM_total ?_) (fun pe _ => bind_total (mapM_total ?_) (fun te _ => ?_))
  · intro o ho
    simp only [List.mem_filter, List.mem_flatMap, beq_iff_eq] at ho
    obtain ⟨⟨j, hj, hoj⟩, hst⟩ := ho
    obtain ⟨_, b, _, hb, _⟩ := (OpsOK_mem _ _ (hS.ops j hj) o hoj).2.1 hst
    exact ⟨b, by simp [hb]⟩
  · intro t ht
    simp only [List.mem_filter, Bool.and_eq_true, bne_iff_ne, ne_eq] at ht
    obtain ⟨e, he⟩ := hA.occSet t ht.1 ht.2.1
    exact ⟨e, by simp [he]⟩
  · cases minList pe <;> cases minList te <;> exact ⟨_, rfl⟩

theorem lastDoneEnd_totalT {s : State} (hS : SchedInv s) : ∃ e, lastDoneEnd s = .ok e := by
  unfold lastDoneEnd
  refine bind_total (mapM_total ?_) (fun ends _ => ?_)
  · intro o ho
    simp only [List.mem_filter, List.mem_flatMap, beq_iff_eq] at ho
    obtain ⟨⟨j, hj, hoj⟩, hst⟩ := ho
    obtain ⟨_, b, _, hb, _⟩ := (OpsOK_mem _ _ (hS.ops j hj) o hoj).1 hst
    exact ⟨b, by simp [hb]⟩
  · cases ends <;> exact ⟨_, rfl⟩

end JSL
