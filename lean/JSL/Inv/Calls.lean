import JSL.Inv.Pass

/-!
# Every `applyTransition` call of `state.step`

A `Pass` speaks about the states that occur.  To speak about the transitions that are *applied* –
the state right before the application, the transition, the state right after – the calls
`process_state_transitions` makes are recorded as a relation: `ProcCall` (one batch), `LoopCall`
(the `while timed_transitions` loop), `StepCall` (one `state.step`).  The relations follow the code
clause by clause and do not depend on the step succeeding as a whole; `stepCall_of_micro` shows
that every entry of the ghost list `micro` (the post-state of every applied transition) is the
post-state of a recorded call.

A `RelPass` is a `Pass` with a statement `Rel s tr s'` about one application that follows from
the invariant and the batch guard; it then holds for every recorded call.
-/

namespace JSL

variable {orc : Oracle} {inst : Instance}

/-- while working through the batch `L` from `(s, r)`, `process_state_transitions` applies `x` to
`σ` and obtains `σ'` -/
inductive ProcCall (orc : Oracle) (inst : Instance) :
    List Transition → State → Rng → State → Transition → State → Prop
  | here {tr L s r s1 r1} : transitionValid s tr = .ok true → applyTransition orc inst s r tr = .ok (s1, r1) →
      ProcCall orc inst (tr :: L) s r s tr s1
  | later {tr L s r s1 r1 σ x σ'} : transitionValid s tr = .ok true →
      applyTransition orc inst s r tr = .ok (s1, r1) → ProcCall orc inst L s1 r1 σ x σ' →
      ProcCall orc inst (tr :: L) s r σ x σ'
  | skip {tr L s r σ x σ'} : transitionValid s tr = .ok false → ProcCall orc inst L s r σ x σ' →
      ProcCall orc inst (tr :: L) s r σ x σ'

/-- the applications made by the `while timed_transitions` loop started with batch `tt` -/
inductive LoopCall (orc : Oracle) (inst : Instance) (cfg : SMConfig) :
    Nat → List Transition → State → Rng → State → Transition → State → Prop
  | batch {fuel tt s r σ x σ'} : ProcCall orc inst tt s r σ x σ' → LoopCall orc inst cfg (fuel + 1) tt s r σ x σ'
  | next {fuel tt s r o t tt' σ x σ'} : tt ≠ [] → processTransitions orc inst tt s r = .ok o → o.nerr = 0 →
      jumpToEvent inst cfg o.state = .ok t → timedTransitions inst { o.state with time := t } = .ok tt' →
      LoopCall orc inst cfg fuel tt' { o.state with time := t } o.rng σ x σ' →
      LoopCall orc inst cfg (fuel + 1) tt s r σ x σ'

/-- the applications made by one `state.step` -/
inductive StepCall (orc : Oracle) (inst : Instance) (cfg : SMConfig) (fuel : Nat) (s0 : State) (r : Rng)
    (a : Action) : State → Transition → State → Prop
  | action {σ x σ'} : ProcCall orc inst (sortedByTransport a.transitions) s0 r σ x σ' →
      StepCall orc inst cfg fuel s0 r a σ x σ'
  | loop {p t timed poss tele σ x σ'} :
      processTransitions orc inst (sortedByTransport a.transitions) s0 r = .ok p → p.nerr = 0 →
      runTimeMachine inst cfg p.state a.tm = .ok t →
      timedTransitions inst { p.state with time := t } = .ok timed →
      possibleTransitions inst cfg { p.state with time := t } = .ok poss →
      filterTeleport orc inst p.rng { p.state with time := t } poss = .ok tele →
      LoopCall orc inst cfg fuel (timed ++ tele) { p.state with time := t } p.rng σ x σ' →
      StepCall orc inst cfg fuel s0 r a σ x σ'

/-! ## the recorded calls cover the ghost list `micro` -/

theorem procCall_of_micro : ∀ (L : List Transition) (s : State) (r : Rng) (o : ProcOut),
    processTransitions orc inst L s r = .ok o → ∀ σ' ∈ o.micro, ∃ σ x, ProcCall orc inst L s r σ x σ'
  | [], s, r, o, h => by simp [processTransitions] at h; subst h; simp
  | tr :: L, s, r, o, h => by
    simp only [processTransitions] at h
    obtain ⟨v, hv, h⟩ := except_bind_eq_ok h
    cases v with
    | true =>
      simp only [if_true] at h
      obtain ⟨⟨s1, r1⟩, ha, h⟩ := except_bind_eq_ok h
      obtain ⟨o1, ho1, h⟩ := except_bind_eq_ok h
      simp at h; subst h
      intro σ' hσ
      rcases List.mem_cons.mp hσ with rfl | hσ
      · exact ⟨s, tr, .here hv ha⟩
      · obtain ⟨σ, x, hc⟩ := procCall_of_micro L s1 r1 o1 ho1 σ' hσ
        exact ⟨σ, x, .later hv ha hc⟩
    | false =>
      simp only [Bool.false_eq_true, if_false] at h
      obtain ⟨o1, ho1, h⟩ := except_bind_eq_ok h
      simp at h; subst h
      intro σ' hσ
      obtain ⟨σ, x, hc⟩ := procCall_of_micro L s r o1 ho1 σ' hσ
      exact ⟨σ, x, .skip hv hc⟩

theorem loopCall_of_micro {cfg : SMConfig} : ∀ (fuel : Nat) (tt : List Transition) (s : State) (r : Rng)
    (subs mic : List State) (out : LoopOut), timedLoop orc inst cfg fuel tt s r subs mic = .ok out →
    ∀ σ' ∈ out.micro, σ' ∈ mic ∨ ∃ σ x, LoopCall orc inst cfg fuel tt s r σ x σ' := by
  intro fuel
  induction fuel with
  | zero =>
    intro tt s r subs mic out h
    cases tt with
    | nil => simp [timedLoop] at h; subst h; exact fun σ' hσ => Or.inl hσ
    | cons a as => simp [timedLoop] at h
  | succ n ih =>
    intro tt s r subs mic out h
    cases tt with
    | nil => simp [timedLoop] at h; subst h; exact fun σ' hσ => Or.inl hσ
    | cons a as =>
      simp only [timedLoop] at h
      obtain ⟨o, ho, h⟩ := except_bind_eq_ok h
      have hcall : ∀ σ' ∈ mic ++ o.micro, σ' ∈ mic ∨ ∃ σ x, LoopCall orc inst cfg (n + 1) (a :: as) s r σ x σ' := by
        intro σ' hσ
        rcases List.mem_append.mp hσ with hσ | hσ
        · exact Or.inl hσ
        · obtain ⟨σ, x, hc⟩ := procCall_of_micro _ _ _ _ ho σ' hσ
          exact Or.inr ⟨σ, x, .batch hc⟩
      split at h
      · simp at h; subst h; exact hcall
      · rename_i hnerr
        obtain ⟨t, ht, h⟩ := except_bind_eq_ok h
        obtain ⟨tt', htt', h⟩ := except_bind_eq_ok h
        intro σ' hσ
        rcases ih _ _ _ _ _ _ h σ' hσ with h1 | ⟨σ, x, hc⟩
        · exact hcall σ' h1
        · exact Or.inr ⟨σ, x, .next (by simp) ho (by omega) ht htt' hc⟩

/-- **every post-state listed in `micro` is the post-state of a recorded call** -/
theorem stepCall_of_micro {cfg : SMConfig} {fuel : Nat} {s0 : State} {r : Rng} {a : Action} {res : SMResult}
    {r' : Rng} {mic : List State} (h : smStep orc inst cfg fuel s0 r a = .ok (res, r', mic)) :
    ∀ σ' ∈ mic, ∃ σ x, StepCall orc inst cfg fuel s0 r a σ x σ' := by
  unfold smStep at h
  obtain ⟨p, hp, h⟩ := except_bind_eq_ok h
  have h0 : ∀ σ' ∈ p.micro, ∃ σ x, StepCall orc inst cfg fuel s0 r a σ x σ' := by
    intro σ' hσ
    obtain ⟨σ, x, hc⟩ := procCall_of_micro _ _ _ _ hp σ' hσ
    exact ⟨σ, x, .action hc⟩
  split at h
  · simp at h
    obtain ⟨_, _, rfl⟩ := h
    exact h0
  · rename_i hnerr
    simp only at h
    obtain ⟨t, ht, h⟩ := except_bind_eq_ok h
    obtain ⟨timed, htimed, h⟩ := except_bind_eq_ok h
    obtain ⟨poss, hposs, h⟩ := except_bind_eq_ok h
    obtain ⟨tele, htele, h⟩ := except_bind_eq_ok h
    obtain ⟨out, hout, h⟩ := except_bind_eq_ok h
    have hl : ∀ σ' ∈ out.micro, ∃ σ x, StepCall orc inst cfg fuel s0 r a σ x σ' := by
      intro σ' hσ
      rcases loopCall_of_micro _ _ _ _ _ _ _ hout σ' hσ with h1 | ⟨σ, x, hc⟩
      · exact h0 σ' h1
      · exact ⟨σ, x, .loop hp (by omega) ht htimed hposs htele hc⟩
    split at h
    · simp at h
      obtain ⟨_, _, rfl⟩ := h
      exact hl
    · split at h
      · obtain ⟨e, _, h⟩ := except_bind_eq_ok h
        simp at h
        obtain ⟨_, _, rfl⟩ := h
        exact hl
      · obtain ⟨poss', _, h⟩ := except_bind_eq_ok h
        simp at h
        obtain ⟨_, _, rfl⟩ := h
        exact hl

/-! ## a pass with a statement about every application -/

structure RelPass (orc : Oracle) (inst : Instance) (cfg : SMConfig) extends Pass orc inst cfg where
  Rel : State → Transition → State → Prop
  rel : ∀ {s s' r r' tr R}, StructInv inst s → SchedInv s → P s → transitionValid s tr = .ok true →
    Safe s (tr :: R) → Fresh (tr :: R) → GS s (tr :: R) → applyTransition orc inst s r tr = .ok (s', r') →
    Rel s tr s'

variable {cfg : SMConfig}

theorem RelPass.procCall (ps : RelPass orc inst cfg) (w : WF inst) (nn : NonNeg orc inst)
    {L : List Transition} {s : State} {r : Rng} {σ : State} {x : Transition} {σ' : State}
    (hc : ProcCall orc inst L s r σ x σ') :
    StructInv inst s → SchedInv s → ps.P s → Safe s L → Fresh L → ps.GS s L → ps.Rel σ x σ' := by
  induction hc with
  | here hv ha =>
    intro hI hS hP hsafe hfresh hgs
    exact ps.rel hI hS hP hv hsafe hfresh hgs ha
  | later hv ha _ ih =>
    intro hI hS hP hsafe hfresh hgs
    have hI1 := applyTransition_struct w hI hv ha
    have hS1 := applyTransition_sched w nn hI hS hv hsafe.guard ha
    have hfr := applyTransition_frame w hI hS hsafe.guard ha
    have hP1 := ps.step hI hS hP hv hsafe hfresh hgs ha
    exact ih hI1 hS1 hP1.1 (hsafe.step hfresh hfr) (List.pairwise_cons.mp hfresh).2 hP1.2
  | skip hv _ ih =>
    intro hI hS hP hsafe hfresh hgs
    exact ih hI hS hP hsafe.tail (List.pairwise_cons.mp hfresh).2 (ps.tail hgs)

theorem RelPass.loopCall (ps : RelPass orc inst cfg) (w : WF inst) (nn : NonNeg orc inst)
    {fuel : Nat} {tt : List Transition} {s : State} {r : Rng} {σ : State} {x : Transition} {σ' : State}
    (hc : LoopCall orc inst cfg fuel tt s r σ x σ') :
    StructInv inst s → SchedInv s → ps.P s → Safe s tt → Fresh tt → ps.GS s tt → ps.Rel σ x σ' := by
  induction hc with
  | batch hc =>
    intro hI hS hP hsafe hfresh hgs
    exact ps.procCall w nn hc hI hS hP hsafe hfresh hgs
  | @next fuel tt s r o t tt' σ x σ' _ ho _ ht htt' _ ih =>
    intro hI hS hP hsafe hfresh hgs
    have hp := processTransitions_sched w nn _ _ _ _ hI hS hsafe hfresh ho
    have hpI := processTransitions_struct w _ _ _ _ hI ho
    have hpP := ps.toPass.process w nn _ _ _ _ hI hS hP hsafe hfresh hgs ho
    have hadv := jumpToEvent_spec hp.1 ht
    have hS' := hp.1.advance hadv.1 hadv.2
    have hI' := hpI.1.time t
    have hP' := ps.advance hpI.1 hp.1 hpP.1 hadv.1 hadv.2
    have hsf := timed_batch_safe w (tele := []) hI' hS' htt' (by simp)
    simp only [List.append_nil] at hsf
    exact ih hI' hS' hP' hsf.1 hsf.2 (ps.timedOnly hI' hS' hP' htt')

/-- **the statement of a `RelPass` holds for every application made by `state.step`** started from a
state that satisfies the invariants with an admissible action -/
theorem RelPass.stepCall (ps : RelPass orc inst cfg) (w : WF inst) (nn : NonNeg orc inst) {fuel : Nat} {s0 : State}
    {r : Rng} {a : Action} {σ : State} {x : Transition} {σ' : State} (hI : StructInv inst s0) (hS : SchedInv s0)
    (hP : ps.P s0) (ha : Admissible a) (hadm : ps.Adm s0 a)
    (hc : StepCall orc inst cfg fuel s0 r a σ x σ') : ps.Rel σ x σ' := by
  have hsf := offerShaped_safe (s := s0) (L := sortedByTransport a.transitions)
    (fun tr htr => ha.shaped tr (mem_sortedByTransport htr))
  have hgs0 := ps.action hI hS hP hadm
  cases hc with
  | action hc => exact ps.procCall w nn hc hI hS hP hsf.1 hsf.2 hgs0
  | @loop p t timed poss tele _ _ _ hp _ ht htimed hposs htele hc =>
    have hp' := processTransitions_sched w nn _ _ _ _ hI hS hsf.1 hsf.2 hp
    have hpI := processTransitions_struct w _ _ _ _ hI hp
    have hpP := ps.toPass.process w nn _ _ _ _ hI hS hP hsf.1 hsf.2 hgs0 hp
    have hadv := runTimeMachine_spec hp'.1 ha.tm ht
    have hS1 := hp'.1.advance hadv.1 hadv.2
    have hI1 := hpI.1.time t
    have hP1 := ps.advance hpI.1 hp'.1 hpP.1 hadv.1 hadv.2
    have hbatch := timed_batch_safe w hI1 hS1 htimed (filterTeleport_shape hposs htele)
    exact ps.loopCall w nn hc hI1 hS1 hP1 hbatch.1 hbatch.2 (ps.timed hI1 hS1 hP1 htimed hposs htele)

end JSL
