import JSL.Inv.ClassicRoom

/-!
# Classic instances: totality of the AGV dispatch and of the first timed AGV transitions

For a classic instance (`Classic inst`) and a job lying at a pickup place (`pickupPlaces inst`: a
standalone buffer that is not an output buffer, or a post-buffer):

* `getWaitingTime_classic` – the waiting time is "now";
* `dispatch_total`         – IDLE → WORKING of an idle, parked AGV validates and applies;
* `pickupToWaiting_total`  – PICKUP → WAITINGPICKUP validates and applies;
* `agvToIdle_total`        – OUTAGE → IDLE validates and applies;
* `travelNoUpdate_classic`, `pickupSource_locs` – the empty run between places of the shop takes 0.
-/

namespace JSL

variable {orc : Oracle} {inst : Instance}

/-! ## the configuration of a pickup place -/

/-- a pickup place is the id of a configured buffer of `pickupBufs`: a standalone buffer (no parent) or
the post-buffer of a machine (owned by that machine) -/
theorem pickupPlace_cfg (hC : Classic inst) {l : Nat} (hl : l ∈ pickupPlaces inst) :
    ∃ bc ∈ allBufCfgs inst, bc.id = l ∧ bc ∈ pickupBufs inst ∧
      ((bc ∈ inst.buffers ∧ bc.parent = none) ∨
       (∃ mc ∈ inst.machines, bc = mc.post ∧ bc.parent = some (.m mc.id))) := by
  unfold pickupPlaces at hl
  rcases List.mem_append.mp hl with h | h
  · obtain ⟨bc, hbc, e⟩ := List.mem_map.mp h
    have hb := (List.mem_filter.mp hbc).1
    refine ⟨bc, ?_, e, ?_, Or.inl ⟨hb, hC.parentB bc hb⟩⟩
    · unfold allBufCfgs
      exact List.mem_append.mpr (Or.inl (List.mem_append.mpr (Or.inl hb)))
    · unfold pickupBufs
      exact List.mem_append.mpr (Or.inl hbc)
  · obtain ⟨mc, hmc, e⟩ := List.mem_map.mp h
    refine ⟨mc.post, (mem_allBufCfgs_of_machine hmc).2.2, e, ?_, Or.inr ⟨mc, hmc, rfl, hC.parentPost mc hmc⟩⟩
    unfold pickupBufs
    exact List.mem_append.mpr (Or.inr (List.mem_flatMap.mpr ⟨mc, hmc, by simp⟩))

/-- the lookup of the configuration of a pickup place succeeds -/
theorem getBufCfg_pickupPlace (w : WF inst) (hC : Classic inst) {l : Nat} (hl : l ∈ pickupPlaces inst) :
    ∃ bc, getBufCfg (allBufCfgs inst) l = .ok bc ∧ bc ∈ allBufCfgs inst ∧ bc.id = l ∧ bc ∈ pickupBufs inst ∧
      ((bc ∈ inst.buffers ∧ bc.parent = none) ∨
       (∃ mc ∈ inst.machines, bc = mc.post ∧ bc.parent = some (.m mc.id))) := by
  obtain ⟨bc, hbc, hid, hp, hcase⟩ := pickupPlace_cfg hC hl
  have hget := findE_of_mem (key := fun (y : BufCfg) => y.id) w.bufNodup hbc .invalidValue
  simp only [hid] at hget
  exact ⟨bc, hget, hbc, hid, hp, hcase⟩

/-- the machine state of a configured machine -/
theorem machine_of_cfg (w : WF inst) {s : State} (hs : Shape inst s) {mc : MachineCfg} (hmc : mc ∈ inst.machines) :
    ∃ m ∈ s.machines, m.id = mc.id ∧ m.post.id = mc.post.id ∧ getMachine s.machines mc.id = .ok m := by
  obtain ⟨m, hm, hk⟩ := mem_of_map_eq hs.machines.symm hmc
  simp only [mKey, mcKey, Prod.mk.injEq] at hk
  refine ⟨m, hm, hk.1.symm, hk.2.2.2.symm, ?_⟩
  rw [hk.1]
  exact getMachine_of_mem (hs.machNodup w) hm

/-! ## the waiting time -/

/-- the waiting time of an AGV sent to a job lying at a pickup place (a standalone buffer that is not an output
buffer, or a post-buffer) is "now" -/
theorem getWaitingTime_classic (w : WF inst) (hC : Classic inst) {s : State} (hI : StructInv inst s) (hS : SchedInv s)
    {j : JobState} (hj : j ∈ s.jobs) (hloc : j.loc ∈ pickupPlaces inst) (c : Comp) (ns : NewSt) :
    getWaitingTime inst s ⟨c, ns, some j.id⟩ = .ok (.at s.time) := by
  have hs := hI.shape
  obtain ⟨bc, hget, _, hid, _, hcase⟩ := getBufCfg_pickupPlace w hC hloc
  have hgj : getJobOpt s.jobs (some j.id) = .ok j := getJob_of_mem (hs.jobsNodup w) hj
  rcases hcase with ⟨_, hpar⟩ | ⟨mc, hmc, hbc, hpar⟩
  · simp only [getWaitingTime, hgj, except_bind_ok, hget, hpar, except_pure]
  · obtain ⟨m, hm, _, hpid, hgm⟩ := machine_of_cfg w hs hmc
    have hpost := (mem_allBufs_of_machine hm).2.2
    have hlm : j.loc = m.post.id := by rw [hpid, ← hbc, hid]
    have hin : j.id ∈ m.post.store := by
      have h1 := hI.cons.located (j.id, j.loc) (List.mem_map.mpr ⟨j, hj, rfl⟩)
      simp only at h1
      rw [hlm, storeAt_of_mem (hs.bufNodup w) hpost] at h1
      exact h1
    have hcont : m.post.store.contains j.id = true := List.contains_iff_mem.mpr hin
    have hr := readyForPickup_flex w hC.flex hs hpost hlm hin (kind_of_post hs hm)
    simp only [getWaitingTime, hgj, except_bind_ok, hget, hpar, hgm, hcont, if_true, hr, except_pure]

/-! ## the AGV of the state and its configuration -/

/-- the configuration of an AGV of the state is found, and it is handled (an AGV) -/
theorem getTransportCfg_classic (w : WF inst) (hC : Classic inst) {s : State} (hs : Shape inst s)
    {t : TransportState} (ht : t ∈ s.transports) :
    ∃ tc, getTransportCfg inst.transports t.id = .ok tc ∧ tc ∈ inst.transports ∧ trTypeHandled tc.type = true := by
  obtain ⟨tc, htc, hk⟩ := hs.transport_cfg ht
  simp only [tKey, tcKey, Prod.mk.injEq] at hk
  have := findE_of_mem (key := fun (y : TransportCfg) => y.id) w.trNodup htc .invalidValue
  simp only [← hk.1] at this
  refine ⟨tc, this, htc, ?_⟩
  rw [hC.allAgv tc htc]; rfl

/-- validation of a transport transition only reads the table `transportValid` -/
theorem transitionValid_agv (w : WF inst) {s : State} (hs : Shape inst s) {t : TransportState}
    (ht : t ∈ s.transports) (ns : TSt) (job : Option Nat) :
    transitionValid s ⟨.t t.id, .t ns, job⟩ = .ok (transportValid t.st ns) := by
  simp only [transitionValid, getTransport_of_mem (hs.trNodup w) ht, except_bind_ok, except_pure,
    transportTransitionValid]

/-! ## IDLE → WORKING -/

/-- IDLE → WORKING (dispatch) of an idle, parked AGV to a job at a pickup place -/
theorem dispatch_total (w : WF inst) (hC : Classic inst) {s : State} (hI : StructInv inst s) (hS : SchedInv s)
    (hR : Ready inst s) {t : TransportState} (ht : t ∈ s.transports) (hst : t.st = .idle)
    {j : JobState} (hj : j ∈ s.jobs) (hloc : j.loc ∈ pickupPlaces inst) (r : Rng) :
    transitionValid s ⟨.t t.id, .t .working, some j.id⟩ = .ok true ∧
    ∃ s' r', applyTransition orc inst s r ⟨.t t.id, .t .working, some j.id⟩ = .ok (s', r') := by
  have hs := hI.shape
  refine ⟨by rw [transitionValid_agv w hs ht, hst]; rfl, ?_⟩
  have hgt := getTransport_of_mem (hs.trNodup w) ht
  obtain ⟨tc, hgtc, _, hty⟩ := getTransportCfg_classic w hC hs ht
  obtain ⟨l, hl, hreach⟩ := hR.parked t ht (Or.inl hst)
  obtain ⟨d, hd⟩ := dropLoc_total hC.tables j
  obtain ⟨bc, hbc, _, hid, hpick, _⟩ := getBufCfg_pickupPlace w hC hloc
  obtain ⟨src, hsrc⟩ := hC.tables.parents bc hpick
  obtain ⟨c, hc⟩ := Option.isSome_iff_exists.mp (hreach bc hpick src hsrc)
  rw [hid] at hsrc
  simp only [applyTransition, hgt, except_bind_ok, handleTransportTransition, hgtc, hty,
    Bool.not_true, Bool.false_eq_true, if_false, hst, agvHandlerOf, agvHandler, except_pure,
    handleAgvIdleToWorking, hl, getJob_of_mem (hs.jobsNodup w) hj, hd, hbc, hsrc, travelNoUpdate, hc]
  exact ⟨_, _, rfl⟩

/-! ## PICKUP → WAITINGPICKUP -/

/-- PICKUP → WAITINGPICKUP -/
theorem pickupToWaiting_total (w : WF inst) (hC : Classic inst) {s : State} (hI : StructInv inst s) (hS : SchedInv s)
    {t : TransportState} (ht : t ∈ s.transports) (hst : t.st = .pickup)
    {j : JobState} (hj : j ∈ s.jobs) (hloc : j.loc ∈ pickupPlaces inst) (r : Rng) :
    transitionValid s ⟨.t t.id, .t .waitingpickup, some j.id⟩ = .ok true ∧
    ∃ s' r', applyTransition orc inst s r ⟨.t t.id, .t .waitingpickup, some j.id⟩ = .ok (s', r') := by
  have hs := hI.shape
  refine ⟨by rw [transitionValid_agv w hs ht, hst]; rfl, ?_⟩
  have hgt := getTransport_of_mem (hs.trNodup w) ht
  obtain ⟨tc, hgtc, _, hty⟩ := getTransportCfg_classic w hC hs ht
  have hw := getWaitingTime_classic w hC hI hS hj hloc (.t t.id) (.t .waitingpickup)
  simp only [applyTransition, hgt, except_bind_ok, handleTransportTransition, hgtc, hty,
    Bool.not_true, Bool.false_eq_true, if_false, hst, agvHandlerOf, agvHandler, except_pure,
    handleAgvPickupToWaiting, Option.isNone_some, hw]
  exact ⟨_, _, rfl⟩

/-! ## OUTAGE → IDLE -/

/-- OUTAGE → IDLE of an AGV -/
theorem agvToIdle_total (w : WF inst) (hC : Classic inst) {s : State} (hI : StructInv inst s)
    {t : TransportState} (ht : t ∈ s.transports) (hst : t.st = .outage) (r : Rng) :
    transitionValid s ⟨.t t.id, .t .idle, none⟩ = .ok true ∧
    ∃ s' r', applyTransition orc inst s r ⟨.t t.id, .t .idle, none⟩ = .ok (s', r') := by
  have hs := hI.shape
  refine ⟨by rw [transitionValid_agv w hs ht, hst]; rfl, ?_⟩
  have hgt := getTransport_of_mem (hs.trNodup w) ht
  obtain ⟨tc, hgtc, _, hty⟩ := getTransportCfg_classic w hC hs ht
  simp only [applyTransition, hgt, except_bind_ok, handleTransportTransition, hgtc, hty,
    Bool.not_true, Bool.false_eq_true, if_false, hst, agvHandlerOf, agvHandler, except_pure,
    handleAgvOutageToIdle]
  exact ⟨_, _, rfl⟩

/-! ## the empty run costs nothing -/

/-- the travel time of the empty run is 0 between places of the shop -/
theorem travelNoUpdate_classic (hC : Classic inst) {a b : Loc} (ha : a ∈ locsOf inst) (hb : b ∈ locsOf inst) (r : Rng) :
    travelNoUpdate orc inst r a b = .ok 0 := by
  simp only [travelNoUpdate, hC.travel0 a ha b hb, except_pure, TimeCfg.cur]

/-- the pickup source of a pickup place is a place of the shop -/
theorem pickupSource_locs (w : WF inst) (hC : Classic inst) {bc : BufCfg} (hbc : bc ∈ allBufCfgs inst)
    (hid : bc.id ∈ pickupPlaces inst) : ∃ src, pickupSource bc bc.id = .ok src ∧ src ∈ locsOf inst := by
  obtain ⟨bc', hbc', hid', _, hcase⟩ := pickupPlace_cfg hC hid
  have : bc' = bc := eq_of_mem_of_key_eq (key := fun (y : BufCfg) => y.id) w.bufNodup hbc' hbc hid'
  subst this
  unfold locsOf
  rcases hcase with ⟨hb, hpar⟩ | ⟨mc, hmc, _, hpar⟩
  · refine ⟨.b bc'.id, by simp only [pickupSource, hpar, except_pure], ?_⟩
    exact List.mem_append.mpr (Or.inr (List.mem_map.mpr ⟨bc', hb, rfl⟩))
  · refine ⟨.m mc.id, by simp only [pickupSource, hpar, except_pure], ?_⟩
    exact List.mem_append.mpr (Or.inl (List.mem_map.mpr ⟨mc, hmc, rfl⟩))

/-! ## the states the three transitions produce (explicit forms) -/

/-- the dispatch of an idle AGV parked at a place of the shop: the AGV is routed to the job and due at once
(the empty run takes 0), nothing else changes and no sample is drawn -/
theorem dispatch_result (w : WF inst) (hC : Classic inst) {s : State} (hI : StructInv inst s)
    {t : TransportState} (ht : t ∈ s.transports) (hst : t.st = .idle) {l : Loc} (hl : t.loc = .at l)
    (hlo : l ∈ locsOf inst) {j : JobState} (hj : j ∈ s.jobs) (hloc : j.loc ∈ pickupPlaces inst) (r : Rng) :
    ∃ d, dropLoc inst j JobState.nextIdleE = .ok d ∧
      applyTransition orc inst s r ⟨.t t.id, .t .working, some j.id⟩ =
        .ok (s.replaceTransport { t with loc := .route l j.loc d, st := .pickup, occ := .at s.time,
                                         job := some j.id }, r) := by
  have hs := hI.shape
  have hgt := getTransport_of_mem (hs.trNodup w) ht
  obtain ⟨tc, hgtc, _, hty⟩ := getTransportCfg_classic w hC hs ht
  obtain ⟨d, hd⟩ := dropLoc_total hC.tables j
  obtain ⟨bc, hbc, hmem, hid, _, _⟩ := getBufCfg_pickupPlace w hC hloc
  obtain ⟨src, hsrc, hsl⟩ := pickupSource_locs w hC hmem (by rw [hid]; exact hloc)
  rw [hid] at hsrc
  have htr := travelNoUpdate_classic (orc := orc) hC hlo hsl r
  refine ⟨d, hd, ?_⟩
  simp only [applyTransition, hgt, except_bind_ok, handleTransportTransition, hgtc, hty,
    Bool.not_true, Bool.false_eq_true, if_false, hst, agvHandlerOf, agvHandler, except_pure,
    handleAgvIdleToWorking, hl, getJob_of_mem (hs.jobsNodup w) hj, hd, hbc, hsrc, htr, hid, Int.add_zero]

/-- PICKUP → WAITINGPICKUP for a job at a pickup place: the AGV waits until "now" -/
theorem pickupToWaiting_result (w : WF inst) (hC : Classic inst) {s : State} (hI : StructInv inst s) (hS : SchedInv s)
    {t : TransportState} (ht : t ∈ s.transports) (hst : t.st = .pickup)
    {j : JobState} (hj : j ∈ s.jobs) (hloc : j.loc ∈ pickupPlaces inst) (r : Rng) :
    applyTransition orc inst s r ⟨.t t.id, .t .waitingpickup, some j.id⟩ =
      .ok (s.replaceTransport { t with st := .waitingpickup, occ := .at s.time }, r) := by
  have hs := hI.shape
  have hgt := getTransport_of_mem (hs.trNodup w) ht
  obtain ⟨tc, hgtc, _, hty⟩ := getTransportCfg_classic w hC hs ht
  have hw := getWaitingTime_classic w hC hI hS hj hloc (.t t.id) (.t .waitingpickup)
  simp only [applyTransition, hgt, except_bind_ok, handleTransportTransition, hgtc, hty,
    Bool.not_true, Bool.false_eq_true, if_false, hst, agvHandlerOf, agvHandler, except_pure,
    handleAgvPickupToWaiting, Option.isNone_some, hw]

/-- OUTAGE → IDLE of an AGV: the AGV is idle, its outage records are released -/
theorem agvToIdle_result (w : WF inst) (hC : Classic inst) {s : State} (hI : StructInv inst s)
    {t : TransportState} (ht : t ∈ s.transports) (hst : t.st = .outage) (r : Rng) :
    applyTransition orc inst s r ⟨.t t.id, .t .idle, none⟩ =
      .ok (s.replaceTransport { t with st := .idle, outages := t.outages.map releaseOutage }, r) := by
  have hs := hI.shape
  have hgt := getTransport_of_mem (hs.trNodup w) ht
  obtain ⟨tc, hgtc, _, hty⟩ := getTransportCfg_classic w hC hs ht
  simp only [applyTransition, hgt, except_bind_ok, handleTransportTransition, hgtc, hty,
    Bool.not_true, Bool.false_eq_true, if_false, hst, agvHandlerOf, agvHandler, except_pure,
    handleAgvOutageToIdle]

end JSL
