import JSL.Inv.ClassicPass
import JSL.Inv.ClassicSync
import JSL.Inv.ClassicTotal
import JSL.Inv.ClassicEnvDefs

/-!
# Classic instances: `state.step` and `env.step` return, and the state stays in step

* `cpass_total` – the classic pass meets the interface of the totality plumbing, with the stage
  measure, the bound `3·#machines + 5·#AGVs` and the property "in step with the target schedule";
* `classicReach` – the bundle of invariants at every state the environment holds (Stage A:
  settledness: at a decision point every AGV is idle and every busy machine is working);
* `stepIface` – the interface `StepIface` the steering strategy works with.
-/

namespace JSL

variable {orc : Oracle} {inst : Instance}

/-- a pickup place is not an output buffer -/
theorem pickup_not_output (w : WF inst) {l : Nat} (hl : l ∈ pickupPlaces inst) : l ∉ outputIds inst := by
  intro hout
  unfold outputIds outputBuffers at hout
  obtain ⟨b2, hb2, e2⟩ := List.mem_map.mp hout
  have hb2' := List.mem_filter.mp hb2
  unfold pickupPlaces at hl
  have hnd : (inst.buffers.map (·.id)).Nodup := by
    have := w.bufNodup
    unfold allBufCfgs at this
    simp only [List.map_append] at this
    exact (List.nodup_append.mp (List.nodup_append.mp this).1).1
  rcases List.mem_append.mp hl with h | h
  · obtain ⟨b1, hb1, e1⟩ := List.mem_map.mp h
    have hb1' := List.mem_filter.mp hb1
    have : b1 = b2 := eq_of_mem_of_key_eq (key := fun (y : BufCfg) => y.id) hnd hb1'.1 hb2'.1 (by rw [e1, e2])
    subst this
    have h1 := hb1'.2
    have h2 := hb2'.2
    simp at h1 h2
    exact h1 h2
  · obtain ⟨mc, hmc, e⟩ := List.mem_map.mp h
    exact ((cfg_ids_parts w).1 b2 hb2'.1 mc hmc).2.2 (by rw [e2, e])

variable {cfg : SMConfig}

/-- **the classic pass meets the interface of the totality plumbing**, for any property `Q` kept by the
enabled transitions and by the jumps of the clock at dead points -/
theorem cpass_total_of (w : WF inst) (nn : NonNeg orc inst) (hC : Classic inst) (he : cfg.allowEarly = false)
    (Q : State → Prop)
    (hqs : ∀ {s tr r s' r'}, StructInv inst s → SchedInv s → Bundle inst s ∧ DurInv inst s → En inst s tr →
      tr.new ≠ .m .setup → applyTransition orc inst s r tr = .ok (s', r') → Q s → Q s')
    (hqj : ∀ {s t}, StructInv inst s → SchedInv s → Bundle inst s ∧ DurInv inst s → Q s →
      numPossibleEvents inst cfg s = .ok 0 → forceJump s = .ok t → Q { s with time := t }) :
    TotalHyp (CPass orc inst cfg w nn hC he) stage (3 * inst.machines.length + 5 * inst.transports.length) Q where
  apply := by
    intro s tr R r hI hS hP hgs hne
    have hB : Bundle inst s := hP.1
    have hjn := hI.shape.jobsNodup w
    have hE := hgs.2.2.en tr (by simp)
    cases hE with
    | start _ h => exact absurd h hne
    | mWork m x hm hst hx => exact setupToWorking_total w hI hS hm hst hx r
    | mOut m x hm hst hx => exact workingToOutage_total w hC hI hS hm hst hx r
    | mIdle m x hm hst hx => exact outageToIdle_total w hC hI hS hm hst hx r
    | dispatch t j ht hst hj hloc _ => exact dispatch_total w hC hI hS hB.ready ht hst hj hloc r
    | wait t j ht hst hj hjob =>
      obtain ⟨j0, hj0, e0, hloc⟩ := hB.cinv.claimed t ht (Or.inl hst)
      have : j0 = j := eq_of_mem_of_key_eq (key := fun (y : JobState) => y.id) hjn hj0 hj
        (by rw [hjob] at e0; exact (Option.some.inj e0).symm)
      subst this
      exact pickupToWaiting_total w hC hI hS ht hst hj hloc r
    | pick t j ht hst hj hjob =>
      obtain ⟨j0, hj0, e0, hloc⟩ := hB.cinv.claimed t ht (Or.inr hst)
      have : j0 = j := eq_of_mem_of_key_eq (key := fun (y : JobState) => y.id) hjn hj0 hj
        (by rw [hjob] at e0; exact (Option.some.inj e0).symm)
      subst this
      exact toTransit_total w hC hI hS hB.full ht (Or.inr hst) hj hloc (pickup_not_running w hI hS hj hloc)
        (fun hb => hB.cinv.fresh _ hj hb (pickup_not_output w hloc)) r
    | deliver t j ht hst hj hstore => exact transitToOutage_total w hC hI hS hB.full ht hst hj hstore r
    | release t ht hst => exact agvToIdle_total w hC hI ht hst r
  timed := fun hI hS hP => timedTransitions_total w hC hI hS hP.1.full hP.1.cinv.tame
  poss := fun hI hS hP => possibleTransitions_total w hC hI hS hP.1.full cfg
  count := fun hI hS hP => numPossibleEvents_total w hC hI hS hP.1.full cfg
  tele := fun r hI hS hP hp => filterTeleport_total w hC hI hS hP.1.full hp r
  force := fun _ hS hP => forceJump_total hS (fun t ht hb => by
    obtain ⟨c, hc, _⟩ := hP.1.cinv.agvDue t ht hb; exact ⟨c, hc⟩)
  lastDone := fun hS => lastDoneEnd_total hS
  noStartTimed := fun hI hS htt => timed_noStart w hC hI hS htt
  noStartTele := fun hp hte => tele_noStart hp hte
  noDispatchTimed := fun hS htt => timed_no_dispatch hS htt
  μ_time := fun s t => stage_time s t
  μ_le := fun hI => stage_le hI.shape
  μ_step := by
    intro s tr R r s' r' hI _ _ hgs hns hnd h
    have := stage_step w hI (hgs.2.2.en tr (by simp)) hns hnd h
    omega
  q_step := by
    intro s tr R r s' r' hI hS hP hgs hns h hQ
    exact hqs hI hS hP (hgs.2.2.en tr (by simp)) hns h hQ
  q_jump := fun hI hS hP hQ h0 hf => hqj hI hS hP hQ h0 hf

/-- the instance for "in step with the target schedule `S`" -/
theorem cpass_total (w : WF inst) (nn : NonNeg orc inst) (hC : Classic inst) (he : cfg.allowEarly = false)
    {S : Nat → Nat → Int} (hT : TargetOK inst S) :
    TotalHyp (CPass orc inst cfg w nn hC he) stage (3 * inst.machines.length + 5 * inst.transports.length)
      (SyncL inst S) := by
  apply cpass_total_of w nn hC he (SyncL inst S)
  · intro s tr r s' r' hI hS hP hE hns h hQ
    exact sync_step w hC hI hS hP.1 hE hns h hQ
  · intro s t hI hS hP hQ h0 hf
    by_cases hidle : ∀ x ∈ s.transports, x.st = .idle
    · exact sync_jump w hC hT hI hS hP.2 hP.1.cinv hQ
        (fun j hj hnr o ho hm => by
          exfalso
          obtain ⟨m, hm', hid⟩ := op_machine_mem w hI.shape hj (List.mem_of_find?_eq_some ho)
          exact dead_point_busy w hC hI hS hP.1.full he hidle h0 j hj hnr o ho m hm' hid (hm m hm' hid)) hf
    · -- a busy AGV is due now: the clock does not move
      have hne : ∃ x ∈ s.transports, x.st ≠ .idle := by
        apply Classical.byContradiction
        intro hcon
        apply hidle
        intro x hx
        apply Classical.byContradiction
        intro hx'
        exact hcon ⟨x, hx, hx'⟩
      obtain ⟨x, hx, hb⟩ := hne
      obtain ⟨c, hc, hle⟩ := hP.1.cinv.agvDue x hx hb
      obtain ⟨h1, _, h3, _⟩ := c12_jump_exact hS hf
      have := h3 x hx hb c hc
      have : t = s.time := by omega
      subst this
      exact hQ

/-- the instance for the trivial property: pure totality -/
theorem cpass_total_true (w : WF inst) (nn : NonNeg orc inst) (hC : Classic inst) (he : cfg.allowEarly = false) :
    TotalHyp (CPass orc inst cfg w nn hC he) stage (3 * inst.machines.length + 5 * inst.transports.length)
      (fun _ => True) :=
  cpass_total_of w nn hC he (fun _ => True) (fun _ _ _ _ _ _ _ => trivial) (fun _ _ _ _ _ _ => trivial)

end JSL
