import JSL.Inv.ClassicInv
import JSL.Inv.ReachList

/-!
# Being in step with a target schedule

`SyncL inst S s`: the state `s` is in step with the target schedule `S`: every record that has left
`IDLE` started at its target start, every operation whose target start lies strictly before now has
been started, and the clock is not negative.
-/

namespace JSL

structure SyncL (inst : Instance) (S : Nat → Nat → Int) (s : State) : Prop where
  nonneg : 0 ≤ s.time
  started : ∀ j ∈ s.jobs, ∀ o ∈ j.ops, o.st ≠ .idle → o.start = some (S o.job o.idx)
  due : ∀ j ∈ s.jobs, ∀ o ∈ j.ops, S o.job o.idx < s.time → o.st ≠ .idle

end JSL
