import JSL.Inv.ClassicInvE
import JSL.Inv.ClassicTotalDefs

/-!
# Interface of the totality plumbing, with transitions that need not lower the measure

`TotalHypR ps μ B Q RW`: like `TotalHyp`, but a transition `tr` with `RW s tr` (a "re-wait") is only
required not to raise the measure; in return every non-empty purely timed batch contains a transition
that is not a re-wait, and re-waits do not turn other transitions of the batch into re-waits.
-/

namespace JSL

variable {orc : Oracle} {inst : Instance} {cfg : SMConfig}

structure TotalHypR (ps : Pass orc inst cfg) (μ : State → Nat) (B : Nat) (Q : State → Prop)
    (RW : State → Transition → Prop) : Prop where
  apply : ∀ {s tr R} (r : Rng), StructInv inst s → SchedInv s → ps.P s → ps.GS s (tr :: R) → tr.new ≠ .m .setup →
    transitionValid s tr = .ok true ∧ ∃ s' r', applyTransition orc inst s r tr = .ok (s', r')
  timed : ∀ {s}, StructInv inst s → SchedInv s → ps.P s → ∃ tt, timedTransitions inst s = .ok tt
  poss : ∀ {s}, StructInv inst s → SchedInv s → ps.P s → ∃ poss, possibleTransitions inst cfg s = .ok poss
  count : ∀ {s}, StructInv inst s → SchedInv s → ps.P s → ∃ n, numPossibleEvents inst cfg s = .ok n
  tele : ∀ {s poss} (r : Rng), StructInv inst s → SchedInv s → ps.P s → possibleTransitions inst cfg s = .ok poss →
    ∃ tele, filterTeleport orc inst r s poss = .ok tele
  force : ∀ {s}, StructInv inst s → SchedInv s → ps.P s → ∃ t, forceJump s = .ok t
  lastDone : ∀ {s}, SchedInv s → ∃ e, lastDoneEnd s = .ok e
  noStartTimed : ∀ {s tt}, StructInv inst s → SchedInv s → timedTransitions inst s = .ok tt → ∀ tr ∈ tt, tr.new ≠ .m .setup
  noStartTele : ∀ {s poss tele} {r : Rng}, possibleTransitions inst cfg s = .ok poss →
    filterTeleport orc inst r s poss = .ok tele → ∀ tr ∈ tele, tr.new ≠ .m .setup
  noDispatchTimed : ∀ {s tt}, SchedInv s → timedTransitions inst s = .ok tt → ∀ tr ∈ tt, tr.new ≠ .t .working
  μ_time : ∀ s t, μ { s with time := t } = μ s
  μ_le : ∀ {s}, StructInv inst s → μ s ≤ B
  /-- no transition other than a start or a dispatch raises the measure -/
  μ_mono : ∀ {s tr R r s' r'}, StructInv inst s → SchedInv s → ps.P s → ps.GS s (tr :: R) → tr.new ≠ .m .setup →
    tr.new ≠ .t .working → applyTransition orc inst s r tr = .ok (s', r') → μ s' ≤ μ s
  /-- and unless it is a re-wait it lowers it -/
  μ_step : ∀ {s tr R r s' r'}, StructInv inst s → SchedInv s → ps.P s → ps.GS s (tr :: R) → tr.new ≠ .m .setup →
    tr.new ≠ .t .working → ¬ RW s tr → applyTransition orc inst s r tr = .ok (s', r') → μ s' + 1 ≤ μ s
  /-- a re-wait does not turn a later transition of the batch into a re-wait -/
  rw_keep : ∀ {s a R r s' r'}, StructInv inst s → SchedInv s → ps.P s → ps.GS s (a :: R) → RW s a →
    applyTransition orc inst s r a = .ok (s', r') → ∀ b ∈ R, RW s' b → RW s b
  /-- a non-empty purely timed batch contains a transition that is not a re-wait -/
  rw_timed : ∀ {s tt}, StructInv inst s → SchedInv s → ps.P s → timedTransitions inst s = .ok tt → tt ≠ [] →
    ∃ tr ∈ tt, ¬ RW s tr
  q_step : ∀ {s tr R r s' r'}, StructInv inst s → SchedInv s → ps.P s → ps.GS s (tr :: R) → tr.new ≠ .m .setup →
    applyTransition orc inst s r tr = .ok (s', r') → Q s → Q s'
  q_jump : ∀ {s t}, StructInv inst s → SchedInv s → ps.P s → Q s → numPossibleEvents inst cfg s = .ok 0 →
    forceJump s = .ok t → Q { s with time := t }

end JSL
