import JSL.Inv.BatchFrame

/-!
# Batches of transitions

A batch is created from one state and applied transition by transition.  `Safe s R` says the
remaining transitions `R` still meet the side conditions `Guard` in the current state `s`;
`Fresh` is the shape of a batch that keeps it so.
-/

namespace JSL

variable {orc : Oracle} {inst : Instance}

structure Safe (s : State) (R : List Transition) : Prop where
  own : ∀ tr ∈ R, ∀ mid, tr.comp = .m mid → tr.new = .m .outage → ∀ m ∈ s.machines, m.id = mid →
    ∀ x, tr.job = some x → x ∈ m.buffer.store
  notProc : ∀ tr ∈ R, ∀ tid, tr.comp = .t tid → tr.new = .t .transit → ∀ j ∈ s.jobs, tr.job = some j.id →
    ∀ o ∈ j.ops, o.st ≠ .processing

/-- an earlier transition `a` of the batch does not disturb what a later one `b` relies on -/
def FreshRel (a b : Transition) : Prop :=
  (∀ mid, b.comp = .m mid → b.new = .m .outage → a.comp ≠ .m mid) ∧
  (a.new = .m .setup → b.new = .t .transit → ∀ x, b.job = some x → a.job ≠ some x)

abbrev Fresh (L : List Transition) : Prop := L.Pairwise FreshRel

theorem Safe.guard {s : State} {tr : Transition} {R : List Transition} (h : Safe s (tr :: R)) : Guard s tr :=
  ⟨fun mid hc hn m hm hid x hx => h.own tr (by simp) mid hc hn m hm hid x hx,
   fun tid hc hn j hj hx o ho => h.notProc tr (by simp) tid hc hn j hj hx o ho⟩

theorem Safe.tail {s : State} {tr : Transition} {R : List Transition} (h : Safe s (tr :: R)) : Safe s R :=
  ⟨fun t ht => h.own t (by simp [ht]), fun t ht => h.notProc t (by simp [ht])⟩

theorem Safe.step {s s1 : State} {tr0 : Transition} {R : List Transition} (h : Safe s (tr0 :: R))
    (hf : Fresh (tr0 :: R)) (hfr : StepFrame s s1 tr0) : Safe s1 R := by
  have hrel : ∀ b ∈ R, FreshRel tr0 b := (List.pairwise_cons.mp hf).1
  constructor
  · intro tr htr mid hc hn m1 hm1 hid x hx
    have hne : tr0.comp ≠ .m m1.id := by rw [hid]; exact (hrel tr htr).1 mid hc hn
    obtain ⟨m, hm, e1, e2⟩ := hfr.machines m1 hm1 hne
    rw [← e2]
    exact h.own tr (by simp [htr]) mid hc hn m hm (by rw [e1, hid]) x hx
  · intro tr htr tid hc hn j1 hj1 hx o ho hst
    obtain ⟨j, hj, e1, hcase⟩ := hfr.jobs j1 hj1
    have hx' : tr.job = some j.id := by rw [e1]; exact hx
    rcases hcase with e | ⟨hs0, hj0⟩ | ⟨o', ho', hst'⟩
    · exact h.notProc tr (by simp [htr]) tid hc hn j hj hx' o (by rw [e]; exact ho) hst
    · exact (hrel tr htr).2 hs0 hn j.id hx' hj0
    · exact h.notProc tr (by simp [htr]) tid hc hn j hj hx' o' ho' hst'

/-- `process_state_transitions` on a safe, fresh batch keeps both invariants in every
intermediate state -/
theorem processTransitions_sched (w : WF inst) (nn : NonNeg orc inst) :
    ∀ (L : List Transition) (s : State) (r : Rng) (o : ProcOut), StructInv inst s → SchedInv s → Safe s L → Fresh L →
      processTransitions orc inst L s r = .ok o →
      SchedInv o.state ∧ ∀ σ ∈ o.micro, SchedInv σ := by
  intro L
  induction L with
  | nil =>
    intro s r o _ hS _ _ h
    simp [processTransitions] at h; subst h
    exact ⟨hS, by simp⟩
  | cons tr L ih =>
    intro s r o hI hS hsafe hfresh h
    simp only [processTransitions] at h
    obtain ⟨v, hv, h⟩ := except_bind_eq_ok h
    cases v with
    | true =>
      simp only [if_true] at h
      obtain ⟨⟨s1, r1⟩, ha, h⟩ := except_bind_eq_ok h
      obtain ⟨o1, ho1, h⟩ := except_bind_eq_ok h
      simp at h; subst h
      have hI1 := applyTransition_struct w hI hv ha
      have hS1 := applyTransition_sched w nn hI hS hv hsafe.guard ha
      have hfr := applyTransition_frame w hI hS hsafe.guard ha
      have := ih s1 r1 o1 hI1 hS1 (hsafe.step hfresh hfr) (List.pairwise_cons.mp hfresh).2 ho1
      refine ⟨this.1, ?_⟩
      intro σ hσ
      rcases List.mem_cons.mp hσ with rfl | hσ
      · exact hS1
      · exact this.2 σ hσ
    | false =>
      simp only [Bool.false_eq_true, if_false] at h
      obtain ⟨o1, ho1, h⟩ := except_bind_eq_ok h
      simp at h; subst h
      exact ih s r o1 hI hS hsafe.tail (List.pairwise_cons.mp hfresh).2 ho1

/-- a batch of offer-shaped transitions (machine → SETUP, AGV → WORKING) is safe and fresh -/
def OfferShaped (tr : Transition) : Prop := tr.new = .m .setup ∨ tr.new = .t .working

theorem offerShaped_safe {s : State} {L : List Transition} (h : ∀ tr ∈ L, OfferShaped tr) : Safe s L ∧ Fresh L := by
  refine ⟨⟨?_, ?_⟩, ?_⟩
  · intro tr htr mid _ hn; rcases h tr htr with e | e <;> rw [e] at hn <;> simp at hn
  · intro tr htr tid _ hn; rcases h tr htr with e | e <;> rw [e] at hn <;> simp at hn
  · apply List.pairwise_of_forall_mem_list
    intro a _ b hb
    refine ⟨?_, ?_⟩
    · intro mid _ hn; rcases h b hb with e | e <;> rw [e] at hn <;> simp at hn
    · intro _ hn; rcases h b hb with e | e <;> rw [e] at hn <;> simp at hn

end JSL
