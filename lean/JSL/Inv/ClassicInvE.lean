import JSL.Inv.ClassicFrame

/-!
# The classic invariant with early dispatch

With `allowEarly = true` AGVs are also dispatched to RUNNING jobs (by the agent, or by the teleport
pass at the beginning of a step): such an AGV goes PICKUP → WAITINGPICKUP and waits, with
`occupied_till` = the end of the running operation, until the job lies in the post-buffer.  So

* a claimed job lies at a pickup place **or in the internal buffer of a machine** (`Pickable`);
* a waiting AGV is due now, **or waits for the end of the processing record of its job**;
* there is a new kind of timed transition, WAITINGPICKUP → WAITINGPICKUP (`EnE.rewait`), which may leave
  the state unchanged – the termination measure `muE` counts, beside the stages, the waiting AGVs whose
  waiting time is out of date (`staleB`), and `RWE` marks the re-waits that are not out of date.

Everything here holds for `allowEarly = false` as well (then no AGV ever waits for a running job).
-/

namespace JSL

variable {orc : Oracle} {inst : Instance}

/-- ids of the internal buffers of the machines -/
def internalIds (inst : Instance) : List Nat := inst.machines.map (·.buf.id)

/-- the job lies where an AGV may be sent to: at a pickup place, or (running) in a machine -/
def Pickable (inst : Instance) (j : JobState) : Prop := j.loc ∈ pickupPlaces inst ∨ j.loc ∈ internalIds inst

structure CInvE (inst : Instance) (s : State) : Prop where
  noDep : ∀ t ∈ s.transports, ∀ b j tr, t.occ ≠ .dep b j tr
  noWorking : ∀ t ∈ s.transports, t.st ≠ .working
  claimed : ∀ t ∈ s.transports, t.st = .pickup ∨ t.st = .waitingpickup →
    ∃ j ∈ s.jobs, t.job = some j.id ∧ Pickable inst j
  agvAt : ∀ t ∈ s.transports, t.st ≠ .idle → ∃ c, t.occ = .at c
  /-- an AGV on its way, carrying, or in its drop-off outage is due now -/
  agvDue : ∀ t ∈ s.transports, t.st = .pickup ∨ t.st = .transit ∨ t.st = .outage → ∀ c, t.occ = .at c → c ≤ s.time
  /-- a waiting AGV is due now or waits for the end of the processing record of its job -/
  waitDue : ∀ t ∈ s.transports, t.st = .waitingpickup → ∀ j ∈ s.jobs, t.job = some j.id → ∀ c, t.occ = .at c →
    c ≤ s.time ∨ ∃ o ∈ j.ops, o.st = .processing ∧ o.stop = some c
  parked : ∀ t ∈ s.transports, t.st = .idle ∨ t.st = .outage → ∃ l, t.loc = .at l ∧ l ∈ locsOf inst
  fresh : ∀ j ∈ s.jobs, j.loc ∈ inst.buffers.map (·.id) → j.loc ∉ outputIds inst → ∃ o, j.nextIdle? = some o
  machDue : ∀ m ∈ s.machines, m.st = .setup ∨ m.st = .outage → ∃ c, m.occ = some c ∧ c ≤ s.time
  setupRec : ∀ m ∈ s.machines, m.st = .setup → ∀ j ∈ s.jobs, ∀ o ∈ j.ops, o.st = .processing →
    o.machine = m.id → o.start = o.stop

theorem CInvE.time {s : State} (h : CInvE inst s) {t : Int} (hle : s.time ≤ t) : CInvE inst { s with time := t } :=
  ⟨h.noDep, h.noWorking, h.claimed, h.agvAt,
   fun x hx hb c hc => Int.le_trans (h.agvDue x hx hb c hc) hle,
   fun x hx hb j hj hjob c hc => by
     rcases h.waitDue x hx hb j hj hjob c hc with h1 | h1
     · exact Or.inl (Int.le_trans h1 hle)
     · exact Or.inr h1,
   h.parked, h.fresh,
   fun m hm hb => by obtain ⟨c, h1, h2⟩ := h.machDue m hm hb; exact ⟨c, h1, Int.le_trans h2 hle⟩,
   h.setupRec⟩

/-- enabled transitions (early dispatch included) -/
inductive EnE (inst : Instance) (s : State) : Transition → Prop
  | start (tr : Transition) : tr.new = .m .setup → EnE inst s tr
  | mWork (m : MachineState) (x : Nat) : m ∈ s.machines → m.st = .setup → m.buffer.store = [x] →
      EnE inst s ⟨.m m.id, .m .working, some x⟩
  | mOut (m : MachineState) (x : Nat) : m ∈ s.machines → m.st = .working → m.buffer.store = [x] →
      EnE inst s ⟨.m m.id, .m .outage, some x⟩
  | mIdle (m : MachineState) (x : Nat) : m ∈ s.machines → m.st = .outage → m.buffer.store = [x] →
      EnE inst s ⟨.m m.id, .m .idle, some x⟩
  | dispatch (t : TransportState) (j : JobState) : t ∈ s.transports → t.st = .idle → j ∈ s.jobs →
      Pickable inst j → (∀ t' ∈ s.transports, t'.job ≠ some j.id) →
      EnE inst s ⟨.t t.id, .t .working, some j.id⟩
  | wait (t : TransportState) (j : JobState) : t ∈ s.transports → t.st = .pickup → j ∈ s.jobs →
      t.job = some j.id → EnE inst s ⟨.t t.id, .t .waitingpickup, some j.id⟩
  | rewait (t : TransportState) (j : JobState) : t ∈ s.transports → t.st = .waitingpickup → j ∈ s.jobs →
      t.job = some j.id → EnE inst s ⟨.t t.id, .t .waitingpickup, some j.id⟩
  | pick (t : TransportState) (j : JobState) : t ∈ s.transports → t.st = .waitingpickup → j ∈ s.jobs →
      t.job = some j.id → j.loc ∈ pickupPlaces inst → EnE inst s ⟨.t t.id, .t .transit, some j.id⟩
  | deliver (t : TransportState) (j : JobState) : t ∈ s.transports → t.st = .transit → j ∈ s.jobs →
      t.buffer.store = [j.id] → EnE inst s ⟨.t t.id, .t .outage, some j.id⟩
  | release (t : TransportState) : t ∈ s.transports → t.st = .outage → EnE inst s ⟨.t t.id, .t .idle, none⟩

structure EnGSE (inst : Instance) (s : State) (L : List Transition) : Prop where
  en : ∀ tr ∈ L, EnE inst s tr
  apart : L.Pairwise Apart
  alone : ∀ tr ∈ L, tr.new = .m .setup → L.length ≤ 1

theorem EnGSE.tail {s : State} {tr : Transition} {R : List Transition} (h : EnGSE inst s (tr :: R)) : EnGSE inst s R :=
  ⟨fun t ht => h.en t (by simp [ht]), (List.pairwise_cons.mp h.apart).2,
   fun t ht hn => by have := h.alone t (by simp [ht]) hn; simp at this; subst this; simp⟩

theorem EnGSE.nil (s : State) : EnGSE inst s [] where
  en := fun _ h => nomatch h
  apart := List.Pairwise.nil
  alone := fun _ h => nomatch h

structure BundleE (inst : Instance) (s : State) : Prop where
  full : AgvFull inst s
  ready : Ready inst s
  cinv : CInvE inst s

/-- the waiting time of the waiting AGV `t` is out of date: its job has a processing record that
ends at another time -/
def staleB (s : State) (t : TransportState) : Bool :=
  t.st == .waitingpickup &&
    (match t.job, t.occ with
     | some x, .at c => s.jobs.any fun j => j.id == x && j.ops.any fun o => o.st == .processing && o.stop != some c
     | _, _ => false)

def staleCount (s : State) : Nat := s.transports.countP (staleB s)

/-- the termination measure of the timed loop -/
def muE (s : State) : Nat := 2 * stage s + staleCount s

theorem muE_time (s : State) (t : Int) : muE { s with time := t } = muE s := rfl

/-- a re-wait (WAITINGPICKUP → WAITINGPICKUP) of an AGV whose waiting time is up to date: the only kind of
timed transition that need not lower `muE` -/
def RWE (s : State) (tr : Transition) : Prop :=
  ∃ t ∈ s.transports, tr.comp = .t t.id ∧ t.st = .waitingpickup ∧ tr.new = .t .waitingpickup ∧ staleB s t = false

end JSL
