import JSL.Inv.FuelHead

/-!
# The timed loop of one `state.step` ends within `fuelBound inst` rounds

For an instance of the class (`TotClass`), from a state with the invariants:

* `fb_process`  – a worked-off batch without machine start and dispatch does not raise the measure `fbM`,
                  and lowers it when its first transition does (`FbHead`);
* `fb_loop`     – the `while timed_transitions` loop returns when the fuel exceeds the measure of the
                  current state (a purely timed batch), or is at least `fuelBound inst` (the first batch
                  of `state.step`, which may contain teleport dispatches);
* `fb_smStep`   – `state.step` with an admissible action and fuel `≥ fuelBound inst` returns a successful
                  result.
-/

namespace JSL

variable {orc : Oracle} {inst : Instance}

/-- the first transition of a batch is not a `WAITINGPICKUP → WAITINGPICKUP` of an AGV that is not behind -/
def FbHead (s : State) (a : Transition) : Prop :=
  ∀ tid, a.comp = .t tid → a.new = .t .waitingpickup → ∀ t0 ∈ s.transports, t0.id = tid →
    t0.st = .waitingpickup → fbLate s.machines t0 = true

theorem fb_process (w : WF inst) (nn : NonNeg orc inst) (C : TotClass inst) (cfg : SMConfig) :
    ∀ (L : List Transition) (s : State) (r : Rng) (o : ProcOut), StructInv inst s → SchedInv s → TotP inst s →
      Safe s L → Fresh L → TotGS inst s L → (∀ tr ∈ L, tr.new ≠ .m .setup ∧ tr.new ≠ .t .working) →
      processTransitions orc inst L s r = .ok o →
      fbM o.state ≤ fbM s ∧ (∀ a rest, L = a :: rest → FbHead s a → fbM o.state + 1 ≤ fbM s) := by
  intro L
  induction L with
  | nil =>
    intro s r o _ _ _ _ _ _ _ h
    simp [processTransitions] at h
    subst h
    exact ⟨Nat.le_refl _, fun a rest e => by cases e⟩
  | cons tr L ih =>
    intro s r o hI hS hP hsafe hfresh hgs hnn h
    have hV := hP.inv hI hS
    have haim := hgs.aim tr (by simp)
    have hv := valid_true w hV haim (hgs.mvalid tr (by simp))
    simp only [processTransitions, hv, except_bind_ok, if_true] at h
    obtain ⟨⟨s1, r1⟩, ha, h⟩ := except_bind_eq_ok h
    obtain ⟨o1, ho1, h⟩ := except_bind_eq_ok h
    simp at h
    subst h
    have hI1 := applyTransition_struct w hI hv ha
    have hS1 := applyTransition_sched w nn hI hS hv hsafe.guard ha
    have hfr := applyTransition_frame w hI hS hsafe.guard ha
    have hP1 := (TotPass orc inst cfg w nn C).step hI hS hP hv hsafe hfresh hgs ha
    have hrec := (ih s1 r1 o1 hI1 hS1 hP1.1 (hsafe.step hfresh hfr) (List.pairwise_cons.mp hfresh).2 hP1.2
      (fun t ht => hnn t (by simp [ht])) ho1).1
    have hstep := fb_step w C.parents hI hS hP.full.agv.unique haim (hnn tr (by simp)).1 (hnn tr (by simp)).2 ha
    refine ⟨Nat.le_trans hrec hstep.1, ?_⟩
    intro a rest e hh
    simp only [List.cons.injEq] at e
    obtain ⟨rfl, _⟩ := e
    have := hstep.2 hh
    show fbM o1.state + 1 ≤ fbM s
    omega

theorem fuelBound_pos (inst : Instance) : 2 ≤ fuelBound inst := by unfold fuelBound; omega

/-- **the `while timed_transitions` loop returns** (never "failed", never out of fuel) -/
theorem fb_loop (w : WF inst) (nn : NonNeg orc inst) (C : TotClass inst) (cfg : SMConfig) :
    ∀ (fuel : Nat) (tt : List Transition) (s : State) (r : Rng) (subs mic : List State),
      StructInv inst s → SchedInv s → TotP inst s → Safe s tt → Fresh tt → TotGS inst s tt →
      ((timedTransitions inst s = .ok tt ∧ fbM s < fuel) ∨ fuelBound inst ≤ fuel) →
      ∃ out, timedLoop orc inst cfg fuel tt s r subs mic = .ok out ∧ out.failed = false ∧
        StructInv inst out.state ∧ SchedInv out.state ∧ TotP inst out.state := by
  intro fuel
  induction fuel with
  | zero =>
    intro tt s r subs mic hI hS hP _ _ _ hfuel
    cases tt with
    | nil => exact ⟨_, rfl, rfl, hI, hS, hP⟩
    | cons a as =>
      exfalso
      have := fuelBound_pos inst
      omega
  | succ n ih =>
    intro tt s r subs mic hI hS hP hsafe hfresh hgs hfuel
    cases tt with
    | nil => exact ⟨_, rfl, rfl, hI, hS, hP⟩
    | cons a as =>
      let ps := TotPass orc inst cfg w nn C
      obtain ⟨o, ho, hn⟩ := process_totalT w nn C cfg (a :: as) s r hI hS hP hsafe hfresh hgs
      have hp := processTransitions_sched w nn _ _ _ _ hI hS hsafe hfresh ho
      have hpI := processTransitions_struct w _ _ _ _ hI ho
      have hpP := ps.process w nn _ _ _ _ hI hS hP hsafe hfresh hgs ho
      have hVo : TotInv inst o.state := TotP.inv hpP.1 hpI.1 hp.1
      obtain ⟨t, ht⟩ := jumpToEvent_totalT w C hVo cfg
      have hadv := jumpToEvent_spec hp.1 ht
      have hS' := hp.1.advance hadv.1 hadv.2
      have hI' := hpI.1.time t
      have hP' := ps.advance hpI.1 hp.1 hpP.1 hadv.1 hadv.2
      obtain ⟨tt', htt'⟩ := timedTransitions_totalT w (TotP.inv hP' hI' hS')
      have hsf := timed_batch_safe w (tele := []) hI' hS' htt' (by simp)
      simp only [List.append_nil] at hsf
      -- the measure after the round
      have hμ : fbM { o.state with time := t } < n := by
        rw [fbM_time]
        rcases hfuel with ⟨htt, hlt⟩ | hB
        · have hflex : PreFlex inst := fun mc hmc => C.flex mc.pre (mem_allBufCfgs_of_machine hmc).1
          have hns := timed_no_setup w hI hS hflex htt
          have hnd := timed_no_dispatch hS htt
          have := (fb_process w nn C cfg (a :: as) s r o hI hS hP hsafe hfresh hgs
            (fun tr htr => ⟨hns tr htr, hnd tr htr⟩) ho).2 a as rfl (fb_head w C (hP.inv hI hS) htt)
          omega
        · have := fbM_le (inst := inst) hpI.1.shape
          omega
      obtain ⟨out, hout, hrest⟩ := ih tt' { o.state with time := t } o.rng (subs ++ [{ o.state with time := t }])
        (mic ++ o.micro) hI' hS' hP' hsf.1 hsf.2 (ps.timedOnly hI' hS' hP' htt') (Or.inl ⟨htt', hμ⟩)
      have e : timedLoop orc inst cfg (n + 1) (a :: as) s r subs mic =
          timedLoop orc inst cfg n tt' { o.state with time := t } o.rng (subs ++ [{ o.state with time := t }])
            (mic ++ o.micro) := by
        simp only [timedLoop, ho, except_bind_ok, hn, ht, htt']
        simp
      rw [e]
      exact ⟨out, hout, hrest⟩

/-- **`state.step` returns, successfully**, for an instance of the class and fuel `≥ fuelBound inst` -/
theorem fb_smStep (w : WF inst) (nn : NonNeg orc inst) (C : TotClass inst) {cfg : SMConfig} {fuel : Nat}
    {s0 : State} {r : Rng} {a : Action} (hI : StructInv inst s0) (hS : SchedInv s0) (hP : TotP inst s0)
    (ha : Admissible a) (hadm : AdmOffer inst cfg s0 a) (hfuel : fuelBound inst ≤ fuel) :
    ∃ res r' mic, smStep orc inst cfg fuel s0 r a = .ok (res, r', mic) ∧ res.success = true := by
  let ps := TotPass orc inst cfg w nn C
  have hsf := offerShaped_safe (s := s0) (L := sortedByTransport a.transitions)
    (fun tr htr => ha.shaped tr (mem_sortedByTransport htr))
  have hgs0 := ps.action hI hS hP hadm
  obtain ⟨p, hp, hn⟩ := process_totalT w nn C cfg _ s0 r hI hS hP hsf.1 hsf.2 hgs0
  have hp' := processTransitions_sched w nn _ _ _ _ hI hS hsf.1 hsf.2 hp
  have hpI := processTransitions_struct w _ _ _ _ hI hp
  have hpP := ps.process w nn _ _ _ _ hI hS hP hsf.1 hsf.2 hgs0 hp
  have hVp : TotInv inst p.state := TotP.inv hpP.1 hpI.1 hp'.1
  obtain ⟨t, ht⟩ := runTimeMachine_total w C hVp cfg a.tm
  have hadv := runTimeMachine_spec hp'.1 ha.tm ht
  have hS1 := hp'.1.advance hadv.1 hadv.2
  have hI1 := hpI.1.time t
  have hP1 := ps.advance hpI.1 hp'.1 hpP.1 hadv.1 hadv.2
  have hV1 : TotInv inst { p.state with time := t } := TotP.inv hP1 hI1 hS1
  obtain ⟨timed, htimed⟩ := timedTransitions_totalT w hV1
  obtain ⟨poss, hposs⟩ := possibleTransitions_totalT w C hV1 cfg
  obtain ⟨tele, htele⟩ := filterTeleport_totalT w C hV1 hposs orc p.rng
  have hbatch := timed_batch_safe w hI1 hS1 htimed (filterTeleport_shape hposs htele)
  obtain ⟨out, hout, hnf, hIo, hSo, hPo⟩ :=
    fb_loop w nn C cfg fuel (timed ++ tele) { p.state with time := t } p.rng [p.state] p.micro
      hI1 hS1 hP1 hbatch.1 hbatch.2 (ps.timed hI1 hS1 hP1 htimed hposs htele) (Or.inr hfuel)
  unfold smStep
  simp only [hp, except_bind_ok, hn, ht, htimed, hposs, htele]
  simp only [hout, except_bind_ok, hnf]
  by_cases hd : isDone inst out.state = true
  · obtain ⟨e, he⟩ := lastDoneEnd_totalT hSo
    simp [hd, he]
  · obtain ⟨poss', hposs'⟩ := possibleTransitions_totalT w C (TotP.inv hPo hIo hSo) cfg
    simp [hd, hposs']

end JSL
