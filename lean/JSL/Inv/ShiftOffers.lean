import JSL.Inv.ShiftTimed

/-!
# Translation of simulated time: the offers do not see the shift
-/

namespace JSL
variable (δ : Int) {inst : Instance}

theorem jobAtMachine_shift (j : JobState) (m : MachineState) :
    jobAtMachine (shiftJob δ j) (shiftMachine δ m) = jobAtMachine j m := by
  unfold jobAtMachine
  rw [shiftJob_nextNotDone]
  cases j.nextNotDone <;> rfl

theorem actionPossible_shift (s : State) (j : JobState) :
    actionPossible inst (shiftState δ s) (shiftJob δ j) = actionPossible inst s j := by
  unfold actionPossible
  simp only [shiftJob_nextOpFree, shiftJob_nextNotDone, shiftState_machines, getMachine_shift]
  isplit
  · cases inst.transports with
    | nil => rfl
    | cons t0 _ =>
      simp only [except_pure, except_bind_ok]
      isplit
      · ecase j.nextNotDone with op
        simp only [shiftOp_machine]
        ecase getMachine s.machines op.machine with m
        rw [jobAtMachine_shift]
        rfl

theorem filterMap_id_map {α} (f : α → α) (l : List (Option α)) :
    (l.map (Option.map f)).filterMap id = (l.filterMap id).map f := by
  induction l with
  | nil => rfl
  | cons a as ih =>
    cases a with
    | none => simpa using ih
    | some a => simpa using ih

theorem possibleTransports_shift (s : State) :
    possibleTransports inst (shiftState δ s) = (possibleTransports inst s).map (List.map (shiftTransport δ)) := by
  unfold possibleTransports
  simp only [shiftState_transports]
  rw [mapM_map_equiv (shiftTransport δ) (Option.map (shiftTransport δ)) _
    (fun (t : TransportState) => do
      let tc ← findE (fun (c : TransportCfg) => c.id == t.id) inst.transports .invalidKey
      pure (if t.st == TSt.idle && tc.type == TrType.agv then some t else none))]
  · ecase (List.mapM (fun (t : TransportState) => do
      let tc ← findE (fun (c : TransportCfg) => c.id == t.id) inst.transports .invalidKey
      pure (if t.st == TSt.idle && tc.type == TrType.agv then some t else none)) s.transports) with l
    simp only [except_pure, except_map'_ok, filterMap_id_map]
  · intro t
    simp only [shiftTransport_id, shiftTransport_st]
    ecase findE (fun c => c.id == t.id) inst.transports .invalidKey with tc
    simp only [except_pure, except_map'_ok]
    isplit

theorem transportable_shift (s : State) (j : JobState) :
    transportable inst (shiftState δ s) (shiftJob δ j) = transportable inst s j := by
  unfold transportable
  simp only [jobDone_shift, shiftJob_allDone, shiftJob_nextIdleOpt, shiftState_machines, getMachine_shift]
  isplit
  isplit
  cases j.nextIdle? with
  | none => rfl
  | some op =>
    simp only [Option.map_some, except_pure, except_bind_ok, shiftOp_machine]
    ecase getMachine s.machines op.machine with m
    rw [jobAtMachine_shift]

theorem earlyFilter_shift (cfg : SMConfig) (s : State) (l : List JobState) :
    earlyFilter inst cfg (shiftState δ s) (l.map (shiftJob δ)) =
      (earlyFilter inst cfg s l).map (List.map (shiftJob δ)) := by
  unfold earlyFilter
  split
  · rfl
  · exact filterE_map (shiftJob δ) _ _ (fun j => readyForPickup_shift δ inst s j) l

theorem possibleTransportTransitions_shift (cfg : SMConfig) (s : State) :
    possibleTransportTransitions inst cfg (shiftState δ s) = possibleTransportTransitions inst cfg s := by
  unfold possibleTransportTransitions
  rw [possibleTransports_shift]
  ecase possibleTransports inst s with ts
  simp only [shiftState_jobs, shiftState_transports]
  rw [filter_map_inv (shiftJob δ) (fun j => !j.running) (fun j => by simp only [shiftJob_running]),
    filter_map_inv (shiftJob δ) (fun j => j.running) (fun j => by simp only [shiftJob_running]),
    filterE_map (shiftJob δ) _ _ (fun j => transportable_shift δ s j)]
  ecase filterE (transportable inst s) (s.jobs.filter fun j => !j.running) with idle
  have e : (s.transports.map (shiftTransport δ)).filterMap (·.job) = s.transports.filterMap (·.job) := by
    rw [List.filterMap_map]; rfl
  rw [e, ← List.map_append,
    filter_map_inv (shiftJob δ) (fun j => !(s.transports.filterMap (·.job)).contains j.id) (fun j => rfl),
    earlyFilter_shift]
  ecase earlyFilter inst cfg s
    ((s.jobs.filter (fun j => j.running) ++ idle).filter
      fun j => !(s.transports.filterMap (·.job)).contains j.id) with lonely
  simp only [except_pure, List.flatMap_map, List.map_map]
  rfl

theorem possibleJobs_shift (s : State) :
    possibleJobs inst (shiftState δ s) = (possibleJobs inst s).map (List.map (shiftJob δ)) := by
  unfold possibleJobs
  exact filterE_map (shiftJob δ) _ _ (fun j => actionPossible_shift δ s j) s.jobs

theorem possibleTransitions_shift (cfg : SMConfig) (s : State) :
    possibleTransitions inst cfg (shiftState δ s) = possibleTransitions inst cfg s := by
  unfold possibleTransitions
  rw [possibleJobs_shift, possibleTransportTransitions_shift]
  ecase possibleJobs inst s with pj
  ecase possibleTransportTransitions inst cfg s with pt
  rw [mapM_map_inv (shiftJob δ)]
  intro j
  simp only [shiftJob_nextIdleOpt, shiftJob_id]
  cases j.nextIdle? <;> rfl

theorem numPossibleEvents_shift (cfg : SMConfig) (s : State) :
    numPossibleEvents inst cfg (shiftState δ s) = numPossibleEvents inst cfg s := by
  unfold numPossibleEvents
  rw [possibleJobs_shift, possibleTransportTransitions_shift]
  ecase possibleTransportTransitions inst cfg s with pt
  ecase possibleJobs inst s with pj
  simp only [List.length_map]
end JSL
