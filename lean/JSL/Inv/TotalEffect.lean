import JSL.Inv.TotalOut

/-!
# What one applied transition does to the further invariants

`mach_effectS` / `agv_effectS`: the component a transition addresses is replaced by a record whose
outage records still cover the configured outages, (for an AGV) whose state is not WORKING, that
claims a job when it is on its way to a pickup, and whose `occupied_till` is a time, the result of
`_get_waiting_time`, or unchanged when the AGV is released.  From these:
`applyTransition_outShape`, `applyTransition_agvShape`; `applyTransition_jobPlace` uses the effect
lemmas of the route invariant.
-/

namespace JSL

variable {orc : Oracle} {inst : Instance}

/-! ## outage records -/

theorem sampleOutage_id {now : Int} {comp : List OutageState} {r r' : Rng} {o : OutageCfg} {x : OutageState}
    (h : sampleOutage orc now comp r o = .ok (x, r')) : x.id = o.id := by
  unfold sampleOutage at h
  obtain ⟨st, hst, h⟩ := except_bind_eq_ok h
  obtain ⟨since, _, h⟩ := except_bind_eq_ok h
  have hid : st.id = o.id := by simpa using (findE_ok hst).2
  simp only at h
  split at h
  · simp at h; rw [← h.1]; exact hid
  · simp at h; rw [← h.1]

theorem newOutageStates_cover {now : Int} {comp : List OutageState} : ∀ (cfgs : List OutageCfg) (r r' : Rng)
    (outs : List OutageState), newOutageStates orc now comp cfgs r = .ok (outs, r') → OutCover cfgs outs
  | [], r, r', outs, h => by intro oc hoc; cases hoc
  | o :: os, r, r', outs, h => by
    simp only [newOutageStates] at h
    obtain ⟨⟨x, r1⟩, hx, h⟩ := except_bind_eq_ok h
    obtain ⟨⟨xs, r2⟩, hxs, h⟩ := except_bind_eq_ok h
    simp at h
    obtain ⟨rfl, rfl⟩ := h
    have ih := newOutageStates_cover os r1 r2 xs hxs
    intro oc hoc
    rcases List.mem_cons.mp hoc with rfl | hoc
    · exact ⟨x, by simp, sampleOutage_id hx⟩
    · obtain ⟨y, hy, e⟩ := ih oc hoc
      exact ⟨y, by simp [hy], e⟩

theorem outCover_release {cfgs : List OutageCfg} {sts : List OutageState} (h : OutCover cfgs sts) :
    OutCover cfgs (sts.map releaseOutage) := by
  intro oc hoc
  obtain ⟨o, ho, e⟩ := h oc hoc
  refine ⟨releaseOutage o, List.mem_map.mpr ⟨o, ho, rfl⟩, ?_⟩
  rw [← e]
  unfold releaseOutage
  split <;> rfl

/-! ## the machine addressed -/

theorem mach_effectS (w : WF inst) {s s' : State} {r r' : Rng} {tr : Transition} {mid : Nat}
    (hc : tr.comp = .m mid) (h : applyTransition orc inst s r tr = .ok (s', r')) :
    ∃ m0 ∈ s.machines, m0.id = mid ∧ ∃ M' : MachineState, M'.id = m0.id ∧
      s'.machines = (s.replaceMachine M').machines ∧ s'.transports = s.transports ∧
      (∀ mc ∈ inst.machines, mc.id = m0.id → OutCover mc.outages m0.outages → OutCover mc.outages M'.outages) := by
  unfold applyTransition at h
  simp only [hc] at h
  obtain ⟨m0, hm0, h⟩ := except_bind_eq_ok h
  unfold handleMachineTransition at h
  obtain ⟨m, hm, h⟩ := except_bind_eq_ok h
  rw [hm0] at hm; simp at hm; subst hm
  have hmem := getMachine_ok hm0
  refine ⟨m0, hmem.1, hmem.2, ?_⟩
  obtain ⟨hd, _, h⟩ := except_bind_eq_ok h
  cases hd with
  | idleToSetup =>
    obtain ⟨j, op, oc, mc, sd, b1, b2, _, _, _, _, _, _, _, _, _, _, _, rfl⟩ := idleToSetup_spec h
    exact ⟨m0.toSetup j.id b1 b2 (s.time + sd) oc.tool, rfl, rfl, rfl, fun _ _ _ hcov => hcov⟩
  | setupToWorking =>
    obtain ⟨j, op, oc, d, _, _, _, _, _, _, _, _, rfl⟩ := setupToWorking_spec h
    exact ⟨m0.toWorking (s.time + d), rfl, rfl, rfl, fun _ _ _ hcov => hcov⟩
  | workingToOutage =>
    obtain ⟨mc, outs, j, op, hmc, hmcid, hnew, _, _, _, rfl⟩ := workingToOutage_spec h
    refine ⟨m0.toOutage outs (s.time + occupiedFor outs), rfl, rfl, rfl, ?_⟩
    intro mc' hmc' hid _
    have : mc' = mc := eq_of_mem_of_key_eq (key := fun (y : MachineCfg) => y.id) w.machNodup hmc' hmc (by rw [hid, hmcid])
    subst this
    exact newOutageStates_cover _ _ _ _ hnew
  | outageToIdle =>
    obtain ⟨j, op, mc, rest, b1, b2, _, _, _, _, _, _, _, rfl⟩ := outageToIdle_spec h
    exact ⟨m0.toIdle j.id b1 b2, rfl, rfl, rfl, fun _ _ _ hcov => outCover_release hcov⟩

/-! ## the AGV addressed -/

theorem agv_effectS (w : WF inst) {s s' : State} {r r' : Rng} {tr : Transition} {tid : Nat} (hI : StructInv inst s)
    (hc : tr.comp = .t tid) (h : applyTransition orc inst s r tr = .ok (s', r')) :
    ∃ t0 t', t0 ∈ s.transports ∧ t0.id = tid ∧ t'.id = t0.id ∧ s'.transports = (s.replaceTransport t').transports ∧
      t'.st ≠ .working ∧
      (t'.st = .pickup ∨ t'.st = .waitingpickup →
        (∃ x, t'.job = some x) ∨ ((t0.st = .pickup ∨ t0.st = .waitingpickup) ∧ t'.job = t0.job)) ∧
      ((∃ e, t'.occ = .at e) ∨ (getWaitingTime inst s tr = .ok t'.occ) ∨ (t'.st = .idle ∧ t'.occ = t0.occ)) ∧
      (∀ tc ∈ inst.transports, tc.id = t0.id → OutCover tc.outages t0.outages → OutCover tc.outages t'.outages) ∧
      (∀ m ∈ s'.machines, ∃ m1 ∈ s.machines, m1.id = m.id ∧ m1.outages = m.outages) := by
  have hmn := hI.shape.machNodup w
  have same : ∀ m ∈ s.machines, ∃ m1 ∈ s.machines, m1.id = m.id ∧ m1.outages = m.outages :=
    fun m hm => ⟨m, hm, rfl, rfl⟩
  have repl : ∀ (ms ms' : MachineState), ms ∈ s.machines → ms'.id = ms.id → ms'.outages = ms.outages →
      ∀ m ∈ (s.replaceMachine ms').machines, ∃ m1 ∈ s.machines, m1.id = m.id ∧ m1.outages = m.outages := by
    intro ms ms' hms hid hout m hm
    rcases (mem_replaceMachine hmn hms hid m).mp hm with rfl | ⟨hm', _⟩
    · exact ⟨ms, hms, hid.symm, hout.symm⟩
    · exact ⟨m, hm', rfl, rfl⟩
  unfold applyTransition at h
  simp only [hc] at h
  obtain ⟨t0, ht0, h⟩ := except_bind_eq_ok h
  unfold handleTransportTransition at h
  obtain ⟨t, ht, h⟩ := except_bind_eq_ok h
  rw [ht0] at ht; simp at ht; subst ht
  have hmem := getTransport_ok ht0
  obtain ⟨tc, _, h⟩ := except_bind_eq_ok h
  split at h
  · simp at h
  · obtain ⟨hd, hh, h⟩ := except_bind_eq_ok h
    unfold agvHandlerOf at hh
    cases hn : tr.new with
    | m ns => simp [hn] at hh
    | t ns =>
      simp only [hn] at hh
      cases hah : agvHandler t0.st ns with
      | none => simp [hah] at hh
      | some hd' =>
        simp [hah] at hh; subst hh
        cases hd' with
        | idleToWorking =>
          obtain ⟨j, cur, target, src, bc, c, _, _, _, _, _, _, _, _, _, rfl⟩ := idleToWorking_spec h
          exact ⟨t0, t0.toPickup cur bc.id target (s.time + c.cur orc r) j.id, hmem.1, hmem.2, rfl, rfl,
            by simp [TransportState.toPickup], fun _ => Or.inl ⟨j.id, rfl⟩, Or.inl ⟨_, rfl⟩, fun _ _ _ hcov => hcov, same⟩
        | pickupToWaitingpickup =>
          have hst := agvHandler_pickupToWaiting hah
          obtain ⟨occ, hocc, _, _, rfl⟩ := pickupToWaiting_spec h
          exact ⟨t0, t0.toWaiting occ, hmem.1, hmem.2, rfl, rfl, by simp [TransportState.toWaiting],
            fun _ => Or.inr ⟨Or.inl hst.2, rfl⟩, Or.inr (Or.inl hocc), fun _ _ _ hcov => hcov, same⟩
        | waitingPickupToWaitingPickup =>
          have hst := agvHandler_waitingToWaiting hah
          obtain ⟨occ, hocc, _, rfl⟩ := waitingToWaiting_spec h
          exact ⟨t0, t0.toWaiting occ, hmem.1, hmem.2, rfl, rfl, by simp [TransportState.toWaiting],
            fun _ => Or.inr ⟨Or.inr hst.2, rfl⟩, Or.inr (Or.inl hocc), fun _ _ _ hcov => hcov, same⟩
        | outageToIdle =>
          obtain ⟨_, rfl⟩ := agvOutageToIdle_spec h
          refine ⟨t0, t0.toIdle, hmem.1, hmem.2, rfl, rfl, by simp [TransportState.toIdle], ?_, Or.inr (Or.inr ⟨rfl, rfl⟩),
            fun _ _ _ hcov => outCover_release hcov, same⟩
          intro hst
          rcases hst with e | e <;> simp [TransportState.toIdle] at e
        | pickupToTransit =>
          obtain ⟨j, src, dst, tt, bss1, bss2, _, _, _, _, _, hcase⟩ := pickupToTransit_spec h
          refine ⟨t0, t0.toTransit (s.time + tt) j.id bss2, hmem.1, hmem.2, rfl, ?_, by simp [TransportState.toTransit], ?_,
            Or.inl ⟨_, rfl⟩, fun _ _ _ hcov => hcov, ?_⟩
          · rcases hcase with ⟨fb, _, _, _, _, _, rfl⟩ | ⟨mid, ms, bs, ms', _, _, _, _, _, _, _, rfl⟩ <;> rfl
          · intro hst
            rcases hst with e | e <;> simp [TransportState.toTransit] at e
          · rcases hcase with ⟨fb, _, _, _, _, _, rfl⟩ | ⟨mid, ms, bs, ms', _, _, hms, _, _, _, hms', rfl⟩
            · exact same
            · have ho := replaceBufInMachine_out hms'
              exact repl ms ms' hms ho.1 ho.2.2.2
        | transitToOutage =>
          obtain ⟨j, cur, pick, drop, tc', outs, bss1, bss2, _, _, _, _, htc', htcid, hnew, hcase⟩ := transitToOutage_spec h
          refine ⟨t0, t0.toOutage j.id bss1 outs (s.time + occupiedFor outs) drop, hmem.1, hmem.2, rfl, ?_,
            by simp [TransportState.toOutage], ?_, Or.inl ⟨_, rfl⟩, ?_, ?_⟩
          · rcases hcase with ⟨mid, ms, _, _, _, _, rfl⟩ | ⟨bid, b, _, _, _, _, rfl⟩ <;> rfl
          · intro hst
            rcases hst with e | e <;> simp [TransportState.toOutage] at e
          · intro tc2 htc2 hid _
            have : tc2 = tc' := eq_of_mem_of_key_eq (key := fun (y : TransportCfg) => y.id) w.trNodup htc2 htc'
              (by rw [hid, htcid])
            subst this
            exact newOutageStates_cover _ _ _ _ hnew
          · rcases hcase with ⟨mid, ms, _, hms, _, _, rfl⟩ | ⟨bid, b, _, _, _, _, rfl⟩
            · exact repl ms (ms.withPre j.id bss2) hms rfl rfl
            · exact same

/-! ## `OutShape` -/

theorem applyTransition_outShape (w : WF inst) {s s' : State} {r r' : Rng} {tr : Transition}
    (hI : StructInv inst s) (hP : OutShape inst s) (h : applyTransition orc inst s r tr = .ok (s', r')) :
    OutShape inst s' := by
  have hs := hI.shape
  cases hc : tr.comp with
  | b bid =>
    unfold applyTransition at h
    simp only [hc] at h
    obtain ⟨_, _, h⟩ := except_bind_eq_ok h
    simp at h
  | m mid =>
    obtain ⟨m0, hm0, _, M', hid, hms, hts, hcov⟩ := mach_effectS w hc h
    constructor
    · intro m hm mc hmc hmcid
      rw [hms] at hm
      rcases (mem_replaceMachine (hs.machNodup w) hm0 hid m).mp hm with rfl | ⟨hm', _⟩
      · exact hcov mc hmc (by rw [hmcid, hid]) (hP.mach m0 hm0 mc hmc (by rw [hmcid, hid]))
      · exact hP.mach m hm' mc hmc hmcid
    · intro t ht
      rw [hts] at ht
      exact hP.agv t ht
  | t tid =>
    obtain ⟨t0, t', ht0, _, hid, hts, _, _, _, hcov, hms⟩ := agv_effectS w hI hc h
    constructor
    · intro m hm mc hmc hmcid
      obtain ⟨m1, hm1, e1, e2⟩ := hms m hm
      rw [← e2]
      exact hP.mach m1 hm1 mc hmc (by rw [hmcid, e1])
    · intro t ht tc htc htcid
      rw [hts] at ht
      rcases (mem_replaceTransport (hs.trNodup w) ht0 hid t).mp ht with rfl | ⟨ht', _⟩
      · exact hcov tc htc (by rw [htcid, hid]) (hP.agv t0 ht0 tc htc (by rw [htcid, hid]))
      · exact hP.agv t ht' tc htc htcid

/-! ## `AgvShape` -/

theorem applyTransition_agvShape (w : WF inst) (hF : FlexInst inst) {s s' : State} {r r' : Rng} {tr : Transition}
    (hI : StructInv inst s) (hS : SchedInv s) (hP : AgvShape s) (h : applyTransition orc inst s r tr = .ok (s', r')) :
    AgvShape s' := by
  have hs := hI.shape
  cases hc : tr.comp with
  | b bid =>
    unfold applyTransition at h
    simp only [hc] at h
    obtain ⟨_, _, h⟩ := except_bind_eq_ok h
    simp at h
  | m mid =>
    obtain ⟨_, _, _, _, _, _, hts, _⟩ := mach_effectS w hc h
    exact ⟨fun t ht => hP.noWorking t (hts ▸ ht), fun t ht => hP.busyClaims t (hts ▸ ht),
      fun t ht => hP.noDep t (hts ▸ ht), fun t ht => hP.occSet t (hts ▸ ht)⟩
  | t tid =>
    obtain ⟨t0, t', ht0, _, hid, hts, hnw, hbc, hocc, _, _⟩ := agv_effectS w hI hc h
    have hmem : ∀ x, x ∈ s'.transports ↔ (x = t' ∨ (x ∈ s.transports ∧ x.id ≠ t0.id)) := by
      intro x; rw [hts]; exact mem_replaceTransport (hs.trNodup w) ht0 hid x
    have hocc' : (∃ e, t'.occ = .at e) ∨ (t'.st = .idle ∧ t'.occ = t0.occ) := by
      rcases hocc with e | e | e
      · exact Or.inl e
      · exact Or.inl (getWaitingTime_at w hF hI hS e)
      · exact Or.inr e
    constructor
    · intro t ht
      rcases (hmem t).mp ht with rfl | ⟨ht', _⟩
      · exact hnw
      · exact hP.noWorking t ht'
    · intro t ht hst
      rcases (hmem t).mp ht with rfl | ⟨ht', _⟩
      · rcases hbc hst with e | ⟨e1, e2⟩
        · exact e
        · rw [e2]; exact hP.busyClaims t0 ht0 e1
      · exact hP.busyClaims t ht' hst
    · intro t ht b j x
      rcases (hmem t).mp ht with rfl | ⟨ht', _⟩
      · rcases hocc' with ⟨e, he⟩ | ⟨_, he⟩
        · rw [he]; simp
        · rw [he]; exact hP.noDep t0 ht0 b j x
      · exact hP.noDep t ht' b j x
    · intro t ht hst
      rcases (hmem t).mp ht with rfl | ⟨ht', _⟩
      · rcases hocc' with e | ⟨e, _⟩
        · exact e
        · exact absurd e hst
      · exact hP.occSet t ht' hst

theorem AgvShape.of_rest {s : State} (h : restB s = true) : AgvShape s := by
  simp only [restB, Bool.and_eq_true, List.all_eq_true, beq_iff_eq, List.isEmpty_iff, Option.isNone_iff_eq_none] at h
  obtain ⟨_, ht⟩ := h
  refine ⟨?_, ?_, ?_, ?_⟩
  · intro t ht' e; rw [(ht t ht').1.1.1] at e; cases e
  · intro t ht' e; rw [(ht t ht').1.1.1] at e; rcases e with e | e <;> cases e
  · intro t ht' b j x e
    have := (ht t ht').1.2
    rw [e] at this; simp at this
  · intro t ht' e; exact absurd (ht t ht').1.1.1 e

/-! ## `JobPlace` -/

theorem firstOutput_mem {o : Nat} (h : firstOutput inst = .ok o) : o ∈ outputIds inst := by
  unfold firstOutput at h
  unfold outputIds
  cases hob : outputBuffers inst with
  | nil => simp [hob] at h
  | cons b bs => simp [hob] at h; simp [h]

theorem nonOutIds_sub {s : State} (hs : Shape inst s) {i : Nat} (h : i ∈ nonOutIds inst) : ∃ b ∈ s.buffers, b.id = i := by
  unfold nonOutIds at h
  obtain ⟨c, hc, rfl⟩ := List.mem_map.mp h
  have hc' := (List.mem_filter.mp hc).1
  have : c.id ∈ s.buffers.map (·.id) := by rw [hs.buffers]; exact List.mem_map.mpr ⟨c, hc', rfl⟩
  obtain ⟨b, hb, e⟩ := List.mem_map.mp this
  exact ⟨b, hb, e⟩

theorem nonOut_not_out (w : WF inst) {i : Nat} (h : i ∈ nonOutIds inst) : i ∉ outputIds inst := by
  intro ho
  unfold nonOutIds at h
  unfold outputIds outputBuffers at ho
  obtain ⟨c, hc, rfl⟩ := List.mem_map.mp h
  obtain ⟨c', hc', e⟩ := List.mem_map.mp ho
  have h1 := List.mem_filter.mp hc
  have h2 := List.mem_filter.mp hc'
  have hm : ∀ x ∈ inst.buffers, x ∈ allBufCfgs inst := by
    intro x hx; unfold allBufCfgs; simp [hx]
  have : c' = c := eq_of_mem_of_key_eq (key := fun (y : BufCfg) => y.id) w.bufNodup (hm _ h2.1) (hm _ h1.1) e
  subst this
  have a := h1.2
  have b := h2.2
  simp at a b
  exact a b

theorem transport_buf_not_standalone (w : WF inst) {s : State} (hs : Shape inst s) {t : TransportState}
    (ht : t ∈ s.transports) : t.buffer.id ∉ nonOutIds inst ∧ t.buffer.id ∉ outputIds inst := by
  constructor
  · intro h
    obtain ⟨b, hb, e⟩ := nonOutIds_sub hs h
    exact (ids_parts hs w).2.1 b hb t ht e
  · intro h
    obtain ⟨b, hb, e⟩ := outputIds_sub hs h
    exact (ids_parts hs w).2.1 b hb t ht e

theorem machine_buf_not_nonOut (w : WF inst) {s : State} (hs : Shape inst s) {m : MachineState} (hm : m ∈ s.machines) :
    m.pre.id ∉ nonOutIds inst ∧ m.buffer.id ∉ nonOutIds inst ∧ m.post.id ∉ nonOutIds inst := by
  have hp := (ids_parts hs w).1
  refine ⟨?_, ?_, ?_⟩ <;> intro h <;> obtain ⟨b, hb, e⟩ := nonOutIds_sub hs h
  · exact (hp b hb m hm).1 e
  · exact (hp b hb m hm).2.1 e
  · exact (hp b hb m hm).2.2 e

/-- **one transition keeps `JobPlace`** -/
theorem applyTransition_jobPlace (w : WF inst) {s s' : State} {r r' : Rng} {tr : Transition}
    (hI : StructInv inst s) (hS : SchedInv s) (hA : AgvFull inst s) (hP : JobPlace inst s) (hg : Guard s tr)
    (haim : Aim inst s tr) (h : applyTransition orc inst s r tr = .ok (s', r')) : JobPlace inst s' := by
  have hs := hI.shape
  have hjn := hs.jobsNodup w
  have htn := hs.trNodup w
  cases hc : tr.comp with
  | b bid =>
    unfold applyTransition at h
    simp only [hc] at h
    obtain ⟨_, _, h⟩ := except_bind_eq_ok h
    simp at h
  | m mid =>
    obtain ⟨m0, hm0, _, hts, j, hj, J', hJid, hjobs, hcase⟩ := mach_effectR w hI hS hg hc h
    have hmem : ∀ x, x ∈ s'.jobs ↔ (x = J' ∨ (x ∈ s.jobs ∧ x.id ≠ j.id)) := by
      intro x; rw [hjobs]; exact mem_replaceJob hjn hj hJid x
    have hnb := machine_buf_not_nonOut w hs hm0
    have hno := machine_buf_not_output w hs hm0
    constructor
    · intro j1 hj1 hloc
      rcases (hmem j1).mp hj1 with rfl | ⟨hj1', _⟩
      · rcases hcase with ⟨_, e, _⟩ | ⟨_, _, e2, e3, _⟩
        · rw [e] at hloc; exact absurd hloc hnb.2.1
        · rcases e3 with e3 | e3
          · rw [e2]; exact hP.inputIdle j hj (e3 ▸ hloc)
          · rw [e3] at hloc; exact absurd hloc hnb.2.2
      · exact hP.inputIdle j1 hj1' hloc
    · intro t ht x hx j1 hj1 hid
      rw [hts] at ht
      rcases (hmem j1).mp hj1 with rfl | ⟨hj1', _⟩
      · rcases hcase with ⟨_, e, _⟩ | ⟨_, _, _, e3, _⟩
        · rw [e]; exact hno.2.1
        · rcases e3 with e3 | e3
          · rw [e3]; exact hP.claimNotOut t ht x hx j hj (by rw [← hJid, hid])
          · rw [e3]; exact hno.2.2
      · exact hP.claimNotOut t ht x hx j1 hj1' hid
  | t tid =>
    obtain ⟨t0, t', ht0, ht0id, hid, hts, heff⟩ := agv_effectR w hI hc h
    have hmemT : ∀ x, x ∈ s'.transports ↔ (x = t' ∨ (x ∈ s.transports ∧ x.id ≠ t0.id)) := by
      intro x; rw [hts]; exact mem_replaceTransport htn ht0 hid x
    have hnbT := transport_buf_not_standalone w hs ht0
    cases heff with
    | dispatch j cur pick drop hnew hst0 _ hjob' _ _ hj htj _ hjobs _ =>
      constructor
      · intro j1 hj1; rw [hjobs] at hj1; exact hP.inputIdle j1 hj1
      · intro t ht x hx j1 hj1 hxid
        rw [hjobs] at hj1
        rcases (hmemT t).mp ht with rfl | ⟨ht', _⟩
        · rw [hjob'] at hx
          obtain ⟨ta, hta, htaid, ns, hh, hn, hah, hdisp, _, _⟩ := haim.agv tid hc
          have : ta = t0 := eq_of_mem_of_key_eq (key := fun (y : TransportState) => y.id) htn hta ht0 (by rw [htaid, ht0id])
          subst this
          rw [hnew] at hn
          simp at hn; subst hn
          rw [hst0] at hah
          simp [agvHandler] at hah; subst hah
          obtain ⟨x', hx', _, hall⟩ := hdisp rfl
          rw [htj] at hx'
          simp at hx' hx
          exact hall j1 hj1 (by rw [hxid, ← hx, hx'])
        · exact hP.claimNotOut t ht' x hx j1 hj1 hxid
    | keep _ _ hjob' _ _ hjobs _ =>
      constructor
      · intro j1 hj1; rw [hjobs] at hj1; exact hP.inputIdle j1 hj1
      · intro t ht x hx j1 hj1 hxid
        rw [hjobs] at hj1
        rcases (hmemT t).mp ht with rfl | ⟨ht', _⟩
        · exact hP.claimNotOut t0 ht0 x (hjob' ▸ hx) j1 hj1 hxid
        · exact hP.claimNotOut t ht' x hx j1 hj1 hxid
    | pickup j _ _ _ hjob' _ _ hj _ hjobs _ =>
      have hmem : ∀ x, x ∈ s'.jobs ↔ (x = j.at t0.buffer.id ∨ (x ∈ s.jobs ∧ x.id ≠ j.id)) := by
        intro x; rw [hjobs]; exact mem_replaceJob hjn hj (JobState.at_id j _) x
      constructor
      · intro j1 hj1 hloc
        rcases (hmem j1).mp hj1 with rfl | ⟨hj1', _⟩
        · exact absurd hloc hnbT.1
        · exact hP.inputIdle j1 hj1' hloc
      · intro t ht x hx j1 hj1 hxid
        rcases (hmem j1).mp hj1 with rfl | ⟨hj1', _⟩
        · exact hnbT.2
        · rcases (hmemT t).mp ht with rfl | ⟨ht', _⟩
          · exact hP.claimNotOut t0 ht0 x (hjob' ▸ hx) j1 hj1' hxid
          · exact hP.claimNotOut t ht' x hx j1 hj1' hxid
    | deliverM j cur pick ms bss _ _ _ hjob' _ hms hj _ hjobs _ =>
      have hmem : ∀ x, x ∈ s'.jobs ↔ (x = j.at ms.pre.id ∨ (x ∈ s.jobs ∧ x.id ≠ j.id)) := by
        intro x; rw [hjobs]; exact mem_replaceJob hjn hj (JobState.at_id j _) x
      constructor
      · intro j1 hj1 hloc
        rcases (hmem j1).mp hj1 with rfl | ⟨hj1', _⟩
        · exact absurd hloc (machine_buf_not_nonOut w hs hms).1
        · exact hP.inputIdle j1 hj1' hloc
      · intro t ht x hx j1 hj1 hxid
        rcases (hmem j1).mp hj1 with rfl | ⟨hj1', _⟩
        · exact (machine_buf_not_output w hs hms).1
        · rcases (hmemT t).mp ht with rfl | ⟨ht', _⟩
          · rw [hjob'] at hx; cases hx
          · exact hP.claimNotOut t ht' x hx j1 hj1' hxid
    | deliverB j cur pick b bss _ hst0 _ hjob' hloc0 hb hj hin hjobs _ _ =>
      have hmem : ∀ x, x ∈ s'.jobs ↔ (x = j.at b.id ∨ (x ∈ s.jobs ∧ x.id ≠ j.id)) := by
        intro x; rw [hjobs]; exact mem_replaceJob hjn hj (JobState.at_id j _) x
      have htrans : t0.st = .transit := by
        apply Classical.byContradiction
        intro hne
        rw [hA.agv.empty t0 ht0 hne] at hin
        cases hin
      have hown := hA.route.transitOwn t0 ht0 htrans j.id hin
      constructor
      · intro j1 hj1 hloc
        rcases (hmem j1).mp hj1 with rfl | ⟨hj1', _⟩
        · exfalso
          obtain ⟨cur', pick', drop', hl, hd⟩ := hA.route.route t0 ht0 j.id hown j hj rfl
          rw [hloc0] at hl
          simp only [TLoc.route.injEq] at hl
          obtain ⟨_, _, rfl⟩ := hl
          rcases hd with ⟨_, o, ho, e⟩ | ⟨_, op, _, e⟩
          · simp at e; subst e
            exact nonOut_not_out w hloc (firstOutput_mem ho)
          · simp at e
        · exact hP.inputIdle j1 hj1' hloc
      · intro t ht x hx j1 hj1 hxid
        rcases (hmemT t).mp ht with rfl | ⟨ht', hne⟩
        · rw [hjob'] at hx; cases hx
        · rcases (hmem j1).mp hj1 with rfl | ⟨hj1', _⟩
          · exfalso
            simp at hxid; subst hxid
            exact hne (hA.agv.unique t ht' t0 ht0 j.id hx hown)
          · exact hP.claimNotOut t ht' x hx j1 hj1' hxid

end JSL
