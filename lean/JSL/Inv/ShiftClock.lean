import JSL.Inv.ShiftOffers

/-!
# Translation of simulated time: time machines (shifted result) and validation (unchanged)
-/

namespace JSL
variable (δ : Int) {inst : Instance}

theorem min_add (a b : Int) : min (a + δ) (b + δ) = min a b + δ := by
  simp only [Int.min_def]; split <;> split <;> omega

theorem max_add (a b : Int) : max (a + δ) (b + δ) = max a b + δ := by
  simp only [Int.max_def]; split <;> split <;> omega

theorem foldl_min_add (xs : List Int) : ∀ x : Int, (xs.map (· + δ)).foldl min (x + δ) = xs.foldl min x + δ := by
  induction xs with
  | nil => intro x; rfl
  | cons y ys ih => intro x; simp only [List.map_cons, List.foldl_cons, min_add, ih]

theorem foldl_max_add (xs : List Int) : ∀ x : Int, (xs.map (· + δ)).foldl max (x + δ) = xs.foldl max x + δ := by
  induction xs with
  | nil => intro x; rfl
  | cons y ys ih => intro x; simp only [List.map_cons, List.foldl_cons, max_add, ih]

theorem minList_shift (l : List Int) : minList (l.map (· + δ)) = (minList l).map (· + δ) := by
  cases l with
  | nil => rfl
  | cons x xs => simp only [List.map_cons, minList, foldl_min_add, Option.map_some]

theorem allOps_shift (s : State) :
    (shiftState δ s).jobs.flatMap (·.ops) = (s.jobs.flatMap (·.ops)).map (shiftOp δ) := by
  simp only [shiftState_jobs, List.flatMap_map, List.map_flatMap]
  rfl

theorem mapM_map_equiv_self {α β} (f : α → α) (k : β → β) (g : α → Except Err β)
    (hg : ∀ x, g (f x) = (g x).map k) (l : List α) : (l.map f).mapM g = (l.mapM g).map (List.map k) :=
  mapM_map_equiv f k g g hg l

theorem mapM_map_inv_self {α β} (f : α → α) (g : α → Except Err β) (hg : ∀ x, g (f x) = g x) (l : List α) :
    (l.map f).mapM g = l.mapM g :=
  mapM_map_inv f g g hg l

theorem filterE_map_self {α} (f : α → α) (p : α → Except Err Bool) (hp : ∀ x, p (f x) = p x) (l : List α) :
    filterE p (l.map f) = (filterE p l).map (List.map f) :=
  filterE_map f p p hp l

/-- peel one bind whose argument is the same on both sides up to a map -/
theorem bind_map_peel {α α₂ β β₂} (x : Except Err α) (k : α → α₂) (F : α₂ → Except Err β₂)
    (G : α → Except Err β) (m : β → β₂) (h : ∀ a, F (k a) = (G a).map m) :
    (x.map k >>= F) = (x >>= G).map m := by
  cases x with
  | error e => rfl
  | ok a => exact h a

theorem bind_peel {α β β₂} (x : Except Err α) (F : α → Except Err β₂)
    (G : α → Except Err β) (m : β → β₂) (h : ∀ a, F a = (G a).map m) :
    (x >>= F) = (x >>= G).map m := by
  cases x with
  | error e => rfl
  | ok a => exact h a

macro "epeel " x:ident : tactic =>
  `(tactic| (first
      | (refine bind_map_peel _ _ _ _ _ (fun $x => ?_); try dsimp only)
      | (refine bind_peel _ _ _ _ (fun $x => ?_); try dsimp only)))

theorem forceJump_shift (s : State) : forceJump (shiftState δ s) = (forceJump s).map (· + δ) := by
  unfold forceJump
  rw [allOps_shift, filter_map_inv (shiftOp δ) (fun o => o.st == .processing) (fun _ => rfl),
    mapM_map_equiv_self (shiftOp δ) (· + δ)]
  · epeel procEnds
    simp only [shiftState_transports]
    rw [filter_map_inv (shiftTransport δ), mapM_map_equiv_self (shiftTransport δ) (· + δ)]
    · epeel trEnds
      simp only [minList_shift, shiftState_time]
      cases minList procEnds <;> cases minList trEnds <;>
        simp only [Option.map_none, Option.map_some, except_pure, except_map'_ok, min_add,
          Int.add_right_comm _ δ 1]
    · intro t
      simp only [shiftTransport_occ]
      cases t.occ <;> rfl
    · intro t
      simp only [shiftTransport_occ, shiftTransport_st]
      cases t.occ <;> rfl
  · intro o
    simp only [shiftOp_stop]
    cases o.stop <;> rfl

theorem jumpToEvent_shift (cfg : SMConfig) (s : State) :
    jumpToEvent inst cfg (shiftState δ s) = (jumpToEvent inst cfg s).map (· + δ) := by
  unfold jumpToEvent
  rw [numPossibleEvents_shift]
  ecase numPossibleEvents inst cfg s with n
  isplit
  exact forceJump_shift δ s

theorem runTimeMachine_shift (cfg : SMConfig) (s : State) (tm : TimeMachine) :
    runTimeMachine inst cfg (shiftState δ s) tm = (runTimeMachine inst cfg s tm).map (· + δ) := by
  cases tm with
  | jumpByOne =>
    simp only [runTimeMachine, shiftState_time, except_pure, except_map'_ok, Int.add_right_comm _ δ 1]
  | jumpToEvent => exact jumpToEvent_shift δ cfg s
  | forceJump => exact forceJump_shift δ s

theorem machineJobCheck_shift (s : State) (m : MachineState) (job : Option Nat) :
    machineJobCheck (shiftState δ s) (shiftMachine δ m) job = machineJobCheck s m job := by
  unfold machineJobCheck
  cases job with
  | none => rfl
  | some jid =>
    simp only [shiftState_jobs, getJob_shift, shiftMachine_id]
    ecase getJob s.jobs jid with j
    rw [shiftJob_nextNotDone]
    ecase j.nextNotDone with op
    try rfl

theorem machineTransitionValid_shift (s : State) (m : MachineState) (tr : Transition) :
    machineTransitionValid (shiftState δ s) (shiftMachine δ m) tr = machineTransitionValid s m tr := by
  unfold machineTransitionValid
  simp only [shiftMachine_st, machineJobCheck_shift]

theorem transitionValid_shift (s : State) (tr : Transition) :
    transitionValid (shiftState δ s) tr = transitionValid s tr := by
  unfold transitionValid
  cases tr.comp with
  | m mid =>
    simp only [shiftState_machines, getMachine_shift]
    ecase getMachine s.machines mid with m
    exact machineTransitionValid_shift δ s m tr
  | t tid =>
    simp only [shiftState_transports, getTransport_shift]
    ecase getTransport s.transports tid with t
    try rfl
  | b bid => rfl
end JSL
