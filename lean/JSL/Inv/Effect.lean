import JSL.Inv.Pass

/-!
# What one transition leaves alone
-/

namespace JSL

variable {orc : Oracle} {inst : Instance}

/-- operation configurations are determined by (job, index) -/
theorem opCfg_unique (w : WF inst) {a b : OpCfg} (ha : a ∈ inst.jobs.flatMap (·.ops)) (hb : b ∈ inst.jobs.flatMap (·.ops))
    (hj : a.job = b.job) (hi : a.idx = b.idx) : a = b := by
  obtain ⟨ja, hja, haa⟩ := List.mem_flatMap.mp ha
  obtain ⟨jb, hjb, hbb⟩ := List.mem_flatMap.mp hb
  have e1 := w.opJob ja hja a haa
  have e2 := w.opJob jb hjb b hbb
  have : ja = jb := eq_of_mem_of_key_eq (key := fun (y : JobCfg) => y.id) w.jobsNodup hja hjb (by rw [← e1, ← e2, hj])
  subst this
  exact eq_of_mem_of_key_eq (key := fun (y : OpCfg) => y.idx) (w.opIdxNodup ja hja) haa hbb hi

/-- a machine transition touches no other machine and no transport -/
theorem machine_effect (w : WF inst) {s s' : State} {r r' : Rng} {tr : Transition} {mid : Nat} (hI : StructInv inst s)
    (hc : tr.comp = .m mid) (h : applyTransition orc inst s r tr = .ok (s', r')) :
    (∀ m' ∈ s'.machines, m'.id ≠ mid → m' ∈ s.machines) ∧ s'.transports = s.transports ∧ s'.buffers = s.buffers := by
  have hmn := hI.shape.machNodup w
  unfold applyTransition at h
  simp only [hc] at h
  obtain ⟨m0, hm0, h⟩ := except_bind_eq_ok h
  unfold handleMachineTransition at h
  obtain ⟨m, hm, h⟩ := except_bind_eq_ok h
  rw [hm0] at hm; simp at hm; subst hm
  have hmem := getMachine_ok hm0
  obtain ⟨hd, hh, h⟩ := except_bind_eq_ok h
  have key : ∀ (m' : MachineState) (j' : JobState), m'.id = m0.id →
      (s' = (s.replaceJob j').replaceMachine m' ∨ s' = (s.replaceMachine m').replaceJob j') →
      (∀ y ∈ s'.machines, y.id ≠ mid → y ∈ s.machines) ∧ s'.transports = s.transports ∧ s'.buffers = s.buffers := by
    intro m' j' hid hs'
    have hmach : s'.machines = (s.replaceMachine m').machines := by rcases hs' with rfl | rfl <;> rfl
    refine ⟨?_, by rcases hs' with rfl | rfl <;> rfl, by rcases hs' with rfl | rfl <;> rfl⟩
    intro y hy hne
    rw [hmach] at hy
    rcases (mem_replaceMachine hmn hmem.1 hid y).mp hy with rfl | ⟨hy0, _⟩
    · exact absurd (by rw [hid, hmem.2]) hne
    · exact hy0
  cases hd with
  | idleToSetup =>
    obtain ⟨_, _, _, _, _, _, _, _, _, _, _, _, _, _, _, _, _, _, hs'⟩ := idleToSetup_spec h
    exact key _ _ (by simp [MachineState.toSetup]) (Or.inl hs')
  | setupToWorking =>
    obtain ⟨_, _, _, _, _, _, _, _, _, _, _, _, hs'⟩ := setupToWorking_spec h
    exact key _ _ (by simp [MachineState.toWorking]) (Or.inl hs')
  | workingToOutage =>
    obtain ⟨_, _, _, _, _, _, _, _, _, _, hs'⟩ := workingToOutage_spec h
    exact key _ _ (by simp [MachineState.toOutage]) (Or.inr hs')
  | outageToIdle =>
    obtain ⟨_, _, _, _, _, _, _, _, _, _, _, _, _, hs'⟩ := outageToIdle_spec h
    exact key _ _ (by simp [MachineState.toIdle]) (Or.inl hs')

/-- an AGV transition changes no operation record and no machine's phase or `occupied_till` -/
theorem agv_effect (w : WF inst) {s s' : State} {r r' : Rng} {tr : Transition} {tid : Nat} (hI : StructInv inst s)
    (hc : tr.comp = .t tid) (h : applyTransition orc inst s r tr = .ok (s', r')) :
    (∀ m' ∈ s'.machines, ∃ m ∈ s.machines, m.id = m'.id ∧ m.st = m'.st ∧ m.occ = m'.occ) ∧
    (∀ j' ∈ s'.jobs, ∃ j ∈ s.jobs, j.id = j'.id ∧ j.ops = j'.ops) := by
  have hs := hI.shape
  have same : (∀ m' ∈ s.machines, ∃ m ∈ s.machines, m.id = m'.id ∧ m.st = m'.st ∧ m.occ = m'.occ) :=
    fun m' hm' => ⟨m', hm', rfl, rfl, rfl⟩
  have samej : (∀ j' ∈ s.jobs, ∃ j ∈ s.jobs, j.id = j'.id ∧ j.ops = j'.ops) := fun j' hj' => ⟨j', hj', rfl, rfl⟩
  unfold applyTransition at h
  simp only [hc] at h
  obtain ⟨t0, ht0, h⟩ := except_bind_eq_ok h
  unfold handleTransportTransition at h
  obtain ⟨t, ht, h⟩ := except_bind_eq_ok h
  obtain ⟨tc, _, h⟩ := except_bind_eq_ok h
  split at h
  · simp at h
  · obtain ⟨hd, hh, h⟩ := except_bind_eq_ok h
    cases hd with
    | idleToWorking => obtain ⟨_, _, _, _, _, _, _, _, _, _, _, _, _, _, _, rfl⟩ := idleToWorking_spec h; exact ⟨same, samej⟩
    | pickupToWaitingpickup => obtain ⟨_, _, _, _, rfl⟩ := pickupToWaiting_spec h; exact ⟨same, samej⟩
    | waitingPickupToWaitingPickup => obtain ⟨_, _, _, rfl⟩ := waitingToWaiting_spec h; exact ⟨same, samej⟩
    | outageToIdle => obtain ⟨_, rfl⟩ := agvOutageToIdle_spec h; exact ⟨same, samej⟩
    | pickupToTransit =>
      obtain ⟨j, src, dst, tt, bss1, bss2, hj, _, _, _, _, hcase⟩ := pickupToTransit_spec h
      rcases hcase with ⟨fb, _, _, _, _, _, rfl⟩ | ⟨mid, ms, bs, ms', _, _, hms, _, _, _, hms', rfl⟩
      · refine ⟨same, ?_⟩
        intro j1 hj1
        exact (jobs_frame_at (s := s.replaceBuffer (fb.without j.id bss1)) (hs.jobsNodup w) hj t.buffer.id).1 j1 hj1
      · have hms'eq : ms'.id = ms.id ∧ ms'.st = ms.st ∧ ms'.occ = ms.occ := by
          unfold replaceBufInMachine at hms'
          split at hms'
          · simp at hms'; subst hms'; simp
          · split at hms'
            · simp at hms'; subst hms'; simp
            · split at hms'
              · simp at hms'; subst hms'; simp
              · simp at hms'
        constructor
        · intro m1 hm1
          have hm1' : m1 ∈ (s.replaceMachine ms').machines := hm1
          rcases (mem_replaceMachine (hs.machNodup w) hms hms'eq.1 m1).mp hm1' with rfl | ⟨hy0, _⟩
          · exact ⟨ms, hms, hms'eq.1.symm, hms'eq.2.1.symm, hms'eq.2.2.symm⟩
          · exact ⟨m1, hy0, rfl, rfl, rfl⟩
        · intro j1 hj1
          exact (jobs_frame_at (s := s.replaceMachine ms') (hs.jobsNodup w) hj t.buffer.id).1 j1 hj1
    | transitToOutage =>
      obtain ⟨j, cur, pick, drop, tc, outs, bss1, bss2, hj, _, _, _, _, _, _, hcase⟩ := transitToOutage_spec h
      rcases hcase with ⟨mid, ms, _, hms, _, _, rfl⟩ | ⟨bid, b, _, hb, _, _, rfl⟩
      · constructor
        · intro m1 hm1
          have hm1' : m1 ∈ (s.replaceMachine (ms.withPre j.id bss2)).machines := hm1
          rcases (mem_replaceMachine (hs.machNodup w) hms (by simp [MachineState.withPre]) m1).mp hm1' with rfl | ⟨hy0, _⟩
          · exact ⟨ms, hms, rfl, rfl, rfl⟩
          · exact ⟨m1, hy0, rfl, rfl, rfl⟩
        · intro j1 hj1
          exact (jobs_frame_at (hs.jobsNodup w) hj ms.pre.id).1 j1 hj1
      · refine ⟨same, ?_⟩
        intro j1 hj1
        exact (jobs_frame_at (hs.jobsNodup w) hj b.id).1 j1 hj1

end JSL
