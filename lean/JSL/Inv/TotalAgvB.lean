import JSL.Inv.TotalOut

/-!
# C05 for a class of instances: the AGV handlers that move a job

`handleAgvPickupToTransit` (the pickup) and `handleAgvTransitToOutage` (the delivery, which calls
`completeTransportTask`) never raise in a state that satisfies `TotInv`.
-/

namespace JSL

variable {inst : Instance}

/-! ## small totality lemmas (in the namespace `JSL.AgvB`, so that the names cannot clash with those of
the sibling files) -/

namespace AgvB

theorem switchBuffer_totalT {from_ to : BufState} {j : JobState} (hin : j.id ∈ from_.store) {c : BufCfg}
    (hc : getBufCfg (allBufCfgs inst) to.id = .ok c) (hroom : (to.store.length : Int) < c.cap) :
    ∃ f' t', switchBuffer inst from_ to j = .ok (f', t', { j with loc := to.id }) ∧ f'.id = from_.id := by
  have hcont : from_.store.contains j.id = true := List.contains_iff_mem.mpr hin
  obtain ⟨t', ht'⟩ := putInBuffer_of_room j hroom
  unfold switchBuffer removeFromBuffer
  simp only [hcont, Bool.not_true, Bool.false_eq_true, if_false, except_pure, except_bind_ok, hc, ht']
  exact ⟨_, _, rfl, rfl⟩

theorem travelTimeFromSpec_total (orc : Oracle) (r : Rng) {src dst : Loc}
    (hnb : src.isBuf = false ∨ dst.isBuf = false) (h : (travelCfg inst src dst).isSome = true) :
    ∃ out, travelTimeFromSpec orc inst r src dst = .ok out := by
  obtain ⟨c, hc⟩ := Option.isSome_iff_exists.mp h
  cases src <;> cases dst <;> simp [travelTimeFromSpec, hc, Loc.isBuf] at hnb ⊢

theorem replaceBufInMachine_total {m : MachineState} {b : BufState}
    (h : b.id = m.pre.id ∨ b.id = m.buffer.id ∨ b.id = m.post.id) : ∃ m', replaceBufInMachine m b = .ok m' := by
  unfold replaceBufInMachine
  split
  · exact ⟨_, rfl⟩
  · split
    · exact ⟨_, rfl⟩
    · split
      · exact ⟨_, rfl⟩
      · rename_i h1 h2 h3
        simp at h1 h2 h3
        rcases h with e | e | e
        · exact absurd e h1
        · exact absurd e h2
        · exact absurd e h3

theorem bufOfMachine_total {m : MachineState} {i : Nat}
    (h : i = m.pre.id ∨ i = m.buffer.id ∨ i = m.post.id) : ∃ b, bufOfMachine m i = .ok b := by
  unfold bufOfMachine
  split
  · exact ⟨_, rfl⟩
  · split
    · exact ⟨_, rfl⟩
    · split
      · exact ⟨_, rfl⟩
      · rename_i h1 h2 h3
        simp at h1 h2 h3
        rcases h with e | e | e
        · exact absurd e h1
        · exact absurd e h2
        · exact absurd e h3

/-- a stand-alone buffer of the state is found by its id -/
theorem getBufState_of_buffer (w : WF inst) {s : State} (hs : Shape inst s) {b : BufState} (hb : b ∈ s.buffers) :
    getBufState s.buffers b.id = .ok b :=
  findE_of_mem (key := fun (y : BufState) => y.id) (hs.bufsNodup w) hb _

/-! ## which machine a buffer id belongs to -/

theorem machineIdOfBuffer_some {s : State} (hs : Shape inst s) {i mid : Nat}
    (h : machineIdOfBuffer inst.machines i = some mid) :
    ∃ mc ∈ inst.machines, ∃ ms ∈ s.machines, mc.id = mid ∧ ms.id = mid ∧
      (i = ms.pre.id ∨ i = ms.buffer.id ∨ i = ms.post.id) := by
  unfold machineIdOfBuffer at h
  cases hf : inst.machines.find? (fun m => m.pre.id == i || m.buf.id == i || m.post.id == i) with
  | none => simp [hf] at h
  | some mc =>
    simp [hf] at h
    have hmc := List.mem_of_find?_eq_some hf
    have hp := List.find?_some hf
    simp only [Bool.or_eq_true, beq_iff_eq] at hp
    obtain ⟨ms, hms, hk⟩ := mem_of_map_eq hs.machines.symm hmc
    simp only [mKey, mcKey, Prod.mk.injEq] at hk
    refine ⟨mc, hmc, ms, hms, h, by rw [← hk.1, h], ?_⟩
    rcases hp with (e | e) | e
    · exact Or.inl (by rw [← e, hk.2.1])
    · exact Or.inr (Or.inl (by rw [← e, hk.2.2.1]))
    · exact Or.inr (Or.inr (by rw [← e, hk.2.2.2]))

theorem machineIdOfBuffer_none {s : State} (hs : Shape inst s) {i : Nat}
    (h : machineIdOfBuffer inst.machines i = none) :
    ∀ ms ∈ s.machines, i ≠ ms.pre.id ∧ i ≠ ms.buffer.id ∧ i ≠ ms.post.id := by
  intro ms hms
  unfold machineIdOfBuffer at h
  simp only [Option.map_eq_none_iff] at h
  obtain ⟨mc, hmc, hk⟩ := hs.machine_cfg hms
  simp only [mKey, mcKey, Prod.mk.injEq] at hk
  have := List.find?_eq_none.mp h mc hmc
  simp only [Bool.or_eq_true, beq_iff_eq, not_or] at this
  refine ⟨?_, ?_, ?_⟩
  · intro e; exact this.1.1 (by rw [← hk.2.1, e])
  · intro e; exact this.1.2 (by rw [← hk.2.2.1, e])
  · intro e; exact this.2 (by rw [← hk.2.2.2, e])

/-! ## the buffer of an AGV -/

/-- the configuration found for the buffer of an AGV takes a job -/
theorem agv_buffer_cfg (w : WF inst) (C : TotClass inst) {s : State} (hs : Shape inst s) {t : TransportState}
    (ht : t ∈ s.transports) : ∃ c, getBufCfg (allBufCfgs inst) t.buffer.id = .ok c ∧ 1 ≤ c.cap := by
  obtain ⟨c, hc, hcid, hget⟩ := getBufCfg_of_state w hs (mem_allBufs_of_transport ht)
  refine ⟨c, hget, ?_⟩
  obtain ⟨tc, htc, hk⟩ := hs.transport_cfg ht
  simp only [tKey, tcKey, Prod.mk.injEq] at hk
  have hmem : tc.buf ∈ allBufCfgs inst := by
    unfold allBufCfgs
    exact List.mem_append.mpr (Or.inr (List.mem_map.mpr ⟨tc, htc, rfl⟩))
  have : c = tc.buf := cfg_of_id w hc hmem (by rw [hcid, hk.2])
  rw [this]
  exact C.roomy.agv tc htc

/-- the configuration of an AGV of the state is found -/
theorem getTransportCfg_of_mem (w : WF inst) {s : State} (hs : Shape inst s) {t : TransportState}
    (ht : t ∈ s.transports) : ∃ tc, getTransportCfg inst.transports t.id = .ok tc ∧ tc ∈ inst.transports ∧ tc.id = t.id := by
  obtain ⟨tc, htc, hk⟩ := hs.transport_cfg ht
  simp only [tKey, tcKey, Prod.mk.injEq] at hk
  have := findE_of_mem (key := fun (y : TransportCfg) => y.id) w.trNodup htc .invalidValue
  simp only [← hk.1] at this
  exact ⟨tc, this, htc, hk.1.symm⟩

/-! ## where a job goes -/

theorem dropLoc_nextNotDone_total (hT : TablesTotal inst) (j : JobState) :
    ∃ d, dropLoc inst j JobState.nextNotDone = .ok d := by
  unfold dropLoc
  by_cases hn : j.noOpIdle = true
  · obtain ⟨o, ho⟩ := hT.output
    simp only [hn, if_true, ho, except_map'_ok]
    exact ⟨_, rfl⟩
  · simp only [hn]
    cases hni : j.nextNotDone? with
    | some o => simp only [JobState.nextNotDone, hni, except_map'_ok]; exact ⟨_, rfl⟩
    | none =>
      exfalso
      apply hn
      unfold JobState.nextNotDone? at hni
      have := List.find?_eq_none.mp hni
      unfold JobState.noOpIdle
      apply List.all_eq_true.mpr
      intro x hx
      have hx' := this x hx
      simp at hx'
      simp [hx']

/-- the machine of an operation record is a machine of the instance, and of the state -/
theorem op_machine (w : WF inst) {s : State} (hs : Shape inst s) {j : JobState} (hj : j ∈ s.jobs)
    {o : OpState} (ho : o ∈ j.ops) :
    ∃ mc ∈ inst.machines, ∃ ms ∈ s.machines, mc.id = o.machine ∧ ms.id = o.machine ∧ mKey ms = mcKey mc := by
  obtain ⟨oc, _, hoc, hm⟩ := getOpCfg_of_mem w hs hj ho
  unfold allOps at hoc
  obtain ⟨jc, hjc, hocj⟩ := List.mem_flatMap.mp hoc
  obtain ⟨mc, hmc, hid⟩ := w.opMachine jc hjc oc hocj
  obtain ⟨ms, hms, hk⟩ := mem_of_map_eq hs.machines.symm hmc
  have hk' := hk
  simp only [mKey, mcKey, Prod.mk.injEq] at hk'
  exact ⟨mc, hmc, ms, hms, by rw [hid, hm], by rw [← hk'.1, hid, hm], hk.symm⟩

/-- a place of delivery is one of `stands` -/
theorem dropOK_mem_stands (w : WF inst) {s : State} (hs : Shape inst s) {j : JobState} (hj : j ∈ s.jobs)
    {p : OpState → Bool} {drop : Loc} (hd : dropOK inst j (fun j => j.ops.find? p) drop) : drop ∈ stands inst := by
  unfold stands
  rcases hd with ⟨_, o, ho, rfl⟩ | ⟨_, op, hop, rfl⟩
  · apply List.mem_append.mpr; right
    unfold firstOutput at ho
    cases hob : outputBuffers inst with
    | nil => simp [hob] at ho
    | cons b bs => simp [hob] at ho; simp [ho]
  · apply List.mem_append.mpr; left
    obtain ⟨mc, hmc, _, _, hid, _, _⟩ := op_machine w hs hj (find?_mem_ops hop).1
    exact List.mem_map.mpr ⟨mc, hmc, by rw [hid]⟩

end AgvB

open AgvB

/-! ## the pickup -/

/-- the pickup: the AGV (on its way to / waiting at the pickup place) takes the job it claimed -/
theorem agv_pickup_applies (w : WF inst) (C : TotClass inst) {s : State} (hV : TotInv inst s) {t : TransportState}
    (ht : t ∈ s.transports) (hst : t.st = .pickup ∨ t.st = .waitingpickup) {tr : Transition} (hjob : tr.job = t.job)
    (orc : Oracle) (r : Rng) : ∃ out, handleAgvPickupToTransit orc inst s r tr t = .ok out := by
  have hs := hV.struct.shape
  have hjn := hs.jobsNodup w
  have hbn := hs.bufNodup w
  obtain ⟨x, hx⟩ := hV.shape.busyClaims t ht hst
  obtain ⟨j, hj, hjx⟩ := hV.full.agv.claimed t ht x hx
  subst hjx
  have hnt : t.st ≠ .transit := by rcases hst with e | e <;> rw [e] <;> decide
  have hgj : getJob s.jobs j.id = .ok j := getJob_of_mem hjn hj
  -- the job lies where its location says
  have h1 := hV.struct.cons.located (j.id, j.loc) (List.mem_map.mpr ⟨j, hj, rfl⟩)
  simp only at h1
  -- the buffer of the AGV is empty and takes a job
  obtain ⟨c, hc, hcap⟩ := agv_buffer_cfg w C hs ht
  have hroom : (t.buffer.store.length : Int) < c.cap := by
    rw [hV.full.agv.empty t ht hnt]
    simp; omega
  -- the destination
  obtain ⟨dst, hdst⟩ := dropLoc_nextNotDone_total C.tables j
  have hdrop := dropLoc_nextNotDone hdst
  have hstand : dst ∈ stands inst := dropOK_mem_stands w hs hj hdrop
  unfold handleAgvPickupToTransit
  simp only [hjob, hx, except_pure, except_bind_ok, hgj, hdst]
  cases hsrc : machineIdOfBuffer inst.machines j.loc with
  | some mid =>
    obtain ⟨mc, hmc, ms, hms, hmcid, hmsid, hloc⟩ := machineIdOfBuffer_some hs hsrc
    have hsource : Loc.m mid ∈ sources inst := by
      unfold sources
      exact List.mem_append.mpr (Or.inl (List.mem_map.mpr ⟨mc, hmc, by rw [hmcid]⟩))
    have htc : (travelCfg inst (.m mid) dst).isSome = true := by
      rcases C.routes _ hsource _ hstand with h | h
      · simp [Loc.isBuf] at h
      · exact h
    obtain ⟨⟨tt, r1⟩, htt⟩ := travelTimeFromSpec_total orc r (Or.inl rfl) htc
    have hgm : getMachine s.machines mid = .ok ms := by
      rw [← hmsid]; exact getMachine_of_mem (hs.machNodup w) hms
    obtain ⟨bs, hbs⟩ := bufOfMachine_total hloc
    have hbs' := bufOfMachine_ok hbs
    have hbsmem : bs ∈ allBufStates s := by
      have := mem_allBufs_of_machine hms
      rcases hbs'.2 with e | e | e <;> rw [e]
      · exact this.1
      · exact this.2.1
      · exact this.2.2
    have hin : j.id ∈ bs.store := by
      rw [← storeAt_of_mem hbn hbsmem, hbs'.1]; exact h1
    obtain ⟨fb, tb, hsw, hfid⟩ := switchBuffer_totalT (inst := inst) (j := j) hin hc hroom
    have hfb : fb.id = ms.pre.id ∨ fb.id = ms.buffer.id ∨ fb.id = ms.post.id := by
      rw [hfid]
      rcases hbs'.2 with e | e | e <;> rw [e] <;> simp
    obtain ⟨ms', hms'⟩ := replaceBufInMachine_total hfb
    simp only [htt, except_bind_ok, hgm, hbs, hsw, hms']
    exact ⟨_, rfl⟩
  | none =>
    have hnm := machineIdOfBuffer_none hs hsrc
    obtain ⟨b, hb, hbi, hbst⟩ := storeAt_mem h1
    have hbin : j.id ∈ b.store := by rw [← hbst]; exact h1
    -- the buffer is a stand-alone buffer
    have hbuf : b ∈ s.buffers := by
      rcases (mem_allBufs s b).mp hb with h | ⟨m, hm, h⟩ | ⟨t2, ht2, h⟩
      · exact h
      · exfalso
        have := hnm m hm
        rcases h with e | e | e
        · exact this.1 (by rw [← hbi, e])
        · exact this.2.1 (by rw [← hbi, e])
        · exact this.2.2 (by rw [← hbi, e])
      · exfalso
        rw [h] at hbin
        have htr2 : t2.st = .transit := by
          apply Classical.byContradiction
          intro hne
          rw [hV.full.agv.empty t2 ht2 hne] at hbin
          cases hbin
        have hown := hV.full.route.transitOwn t2 ht2 htr2 j.id hbin
        have hidt := hV.full.agv.unique t2 ht2 t ht j.id hown hx
        have : t2 = t := eq_of_mem_of_key_eq (key := fun (y : TransportState) => y.id) (hs.trNodup w) ht2 ht hidt
        subst this
        exact hnt htr2
    -- that is not an output buffer
    have hno : j.loc ∉ outputIds inst := hV.place.claimNotOut t ht j.id hx j hj rfl
    obtain ⟨bc, hbc, hbcid⟩ := mem_of_map_eq hs.buffers hbuf
    have hrole : (bc.role != BufRole.output) = true := by
      cases hr : (bc.role == BufRole.output) with
      | false => simp [bne, hr]
      | true =>
        exfalso
        apply hno
        unfold outputIds outputBuffers
        exact List.mem_map.mpr ⟨bc, List.mem_filter.mpr ⟨hbc, hr⟩, by rw [← hbcid, hbi]⟩
    have hnon : j.loc ∈ nonOutIds inst := by
      unfold nonOutIds
      exact List.mem_map.mpr ⟨bc, List.mem_filter.mpr ⟨hbc, hrole⟩, by rw [← hbcid, hbi]⟩
    have hidle : j.noOpIdle = false := hV.place.inputIdle j hj hnon
    have hsource : Loc.b j.loc ∈ sources inst := by
      unfold sources
      exact List.mem_append.mpr (Or.inr (List.mem_map.mpr ⟨bc, List.mem_filter.mpr ⟨hbc, hrole⟩, by rw [← hbcid, hbi]⟩))
    have hdm : dst.isBuf = false := by
      rcases hdrop with ⟨h, _⟩ | ⟨_, op, _, rfl⟩
      · rw [hidle] at h; cases h
      · rfl
    have htc : (travelCfg inst (.b j.loc) dst).isSome = true := by
      rcases C.routes _ hsource _ hstand with h | h
      · rw [hdm] at h; simp at h
      · exact h
    obtain ⟨⟨tt, r1⟩, htt⟩ := travelTimeFromSpec_total orc r (Or.inr hdm) htc
    have hgb : getBufState s.buffers j.loc = .ok b := by
      rw [← hbi]; exact getBufState_of_buffer w hs hbuf
    obtain ⟨fb, tb, hsw, _⟩ := switchBuffer_totalT (inst := inst) (j := j) hbin hc hroom
    simp only [htt, except_bind_ok, hgb, hsw]
    exact ⟨_, rfl⟩

/-! ## the delivery -/

/-- the buffer `completeTransportTask` fills -/
def Target.fillBuf : Target → BufState
  | .machine m => m.pre
  | .buffer b => b

theorem completeTransportTask_total (w : WF inst) {s : State} (hV : TotInv inst s) {t : TransportState}
    (ht : t ∈ s.transports) (hst : t.st = .transit) {j : JobState} (hj : j ∈ s.jobs) (hin : j.id ∈ t.buffer.store)
    (drop : Loc) {target : Target} (hfill : target.fillBuf ∈ allBufStates s) (hne : t.buffer.id ≠ target.fillBuf.id)
    (hcap : ∀ c ∈ allBufCfgs inst, c.id = target.fillBuf.id → (inst.jobs.length : Int) ≤ c.cap)
    (orc : Oracle) (r : Rng) : ∃ out, completeTransportTask orc inst s.time r j t drop target = .ok out := by
  have hs := hV.struct.shape
  have hjn := hs.jobsNodup w
  have hloc : j.loc = t.buffer.id :=
    job_of_store hV.struct.cons hj (by rw [transport_storeAt w hs ht]; exact hin) hjn
  obtain ⟨c, hc, hcid, hget⟩ := getBufCfg_of_state w hs hfill
  have hroom : (target.fillBuf.store.length : Int) < c.cap := by
    have h1 := room_for w hV.struct hj hfill (by rw [hloc]; exact hne)
    have h2 := hcap c hc hcid
    omega
  obtain ⟨f', t', hsw, _⟩ := switchBuffer_totalT (inst := inst) (j := j) hin hget hroom
  obtain ⟨tc, hgtc, htc, htcid⟩ := getTransportCfg_of_mem w hs ht
  have hno : t.st ≠ .outage := by rw [hst]; decide
  obtain ⟨⟨outs, r'⟩, hout⟩ := newOutageStates_total orc s.time (hV.out.agvIdle t ht hno) tc.outages r
    (hV.outShape.agv t ht tc htc htcid)
  cases target with
  | machine m =>
    simp only [Target.fillBuf] at hsw
    simp only [completeTransportTask, hsw, except_bind_ok, hgtc, hout, except_pure]
    exact ⟨_, rfl⟩
  | buffer b =>
    simp only [Target.fillBuf] at hsw
    simp only [completeTransportTask, hsw, except_bind_ok, hgtc, hout, except_pure]
    exact ⟨_, rfl⟩

/-- the delivery: the AGV in transit puts down the job it carries -/
theorem agv_deliver_applies (w : WF inst) (C : TotClass inst) {s : State} (hV : TotInv inst s) {t : TransportState}
    (ht : t ∈ s.transports) (hst : t.st = .transit) {tr : Transition} {x : Nat} (hjob : tr.job = some x)
    (hx : x ∈ t.buffer.store) (orc : Oracle) (r : Rng) : ∃ out, handleAgvTransitToOutage orc inst s r tr t = .ok out := by
  have hs := hV.struct.shape
  have hjn := hs.jobsNodup w
  -- the job
  have hxs : x ∈ storeAt s t.buffer.id := by rw [transport_storeAt w hs ht]; exact hx
  obtain ⟨j, hj, hjk⟩ := List.mem_map.mp (hV.struct.cons.stored _ _ hxs)
  simp only [Prod.mk.injEq] at hjk
  obtain ⟨hjx, hjloc⟩ := hjk
  subst hjx
  have hgj : getJob s.jobs j.id = .ok j := getJob_of_mem hjn hj
  -- the route
  have hown := hV.full.route.transitOwn t ht hst j.id hx
  obtain ⟨cur, pick, drop, hloc, hdrop⟩ := hV.full.route.route t ht j.id hown j hj rfl
  unfold handleAgvTransitToOutage
  simp only [hjob, except_pure, except_bind_ok, hgj, hloc]
  rcases hdrop with ⟨_, o, ho, rfl⟩ | ⟨_, op, hop, rfl⟩
  · -- to the first output buffer
    unfold firstOutput at ho
    cases hob : outputBuffers inst with
    | nil => simp [hob] at ho
    | cons bc rest =>
      simp [hob] at ho
      subst ho
      have hbcout : bc ∈ outputBuffers inst := by rw [hob]; simp
      have hbcmem : bc ∈ inst.buffers := by
        unfold outputBuffers at hbcout
        exact (List.mem_filter.mp hbcout).1
      have hoid : bc.id ∈ outputIds inst := List.mem_map.mpr ⟨bc, hbcout, rfl⟩
      obtain ⟨b, hb, hbid⟩ := outputIds_sub hs hoid
      have hgb : getBufState s.buffers bc.id = .ok b := by
        rw [← hbid]; exact getBufState_of_buffer w hs hb
      have hfill : (Target.buffer b).fillBuf ∈ allBufStates s := mem_allBufs_of_buffer hb
      have hne : t.buffer.id ≠ (Target.buffer b).fillBuf.id := fun e => (ids_parts hs w).2.1 b hb t ht e.symm
      have hcap : ∀ c ∈ allBufCfgs inst, c.id = (Target.buffer b).fillBuf.id → (inst.jobs.length : Int) ≤ c.cap := by
        intro c hc hcid
        have hbcall : bc ∈ allBufCfgs inst := by
          unfold allBufCfgs
          exact List.mem_append.mpr (Or.inl (List.mem_append.mpr (Or.inl hbcmem)))
        have : c = bc := cfg_of_id w hc hbcall (by rw [hcid]; exact hbid)
        rw [this]
        exact C.roomy.out bc rest hob
      obtain ⟨⟨j', t', tg', r'⟩, hct⟩ := completeTransportTask_total w hV ht hst hj hx (.b bc.id) hfill hne hcap orc r
      simp only [getCompByLoc, hgb, except_map'_ok, except_bind_ok, hct]
      exact ⟨_, rfl⟩
  · -- to the machine of the next operation
    obtain ⟨mc, hmc, ms, hms, hmcid, hmsid, hk⟩ := op_machine w hs hj (find?_mem_ops hop).1
    simp only [mKey, mcKey, Prod.mk.injEq] at hk
    have hgm : getMachine s.machines op.machine = .ok ms := by
      rw [← hmsid]; exact getMachine_of_mem (hs.machNodup w) hms
    have hfill : (Target.machine ms).fillBuf ∈ allBufStates s := (mem_allBufs_of_machine hms).1
    have hne : t.buffer.id ≠ (Target.machine ms).fillBuf.id := fun e => ((ids_parts hs w).2.2 ms hms t ht).1 e.symm
    have hcap : ∀ c ∈ allBufCfgs inst, c.id = (Target.machine ms).fillBuf.id → (inst.jobs.length : Int) ≤ c.cap := by
      intro c hc hcid
      have hpre : mc.pre ∈ allBufCfgs inst := by
        unfold allBufCfgs
        exact List.mem_append.mpr (Or.inl (List.mem_append.mpr (Or.inr (List.mem_flatMap.mpr ⟨mc, hmc, by simp⟩))))
      have : c = mc.pre := cfg_of_id w hc hpre (by rw [hcid]; exact hk.2.1)
      rw [this]
      exact C.roomy.pre mc hmc
    obtain ⟨⟨j', t', tg', r'⟩, hct⟩ := completeTransportTask_total w hV ht hst hj hx (.m op.machine) hfill hne hcap orc r
    simp only [getCompByLoc, hgm, except_map'_ok, except_bind_ok, hct]
    exact ⟨_, rfl⟩

end JSL
