import JSL.Inv.AgvSteps
import JSL.Inv.Tables

/-!
# Structural invariants along `applyTransition`, `processTransitions`, `timedLoop`, `smStep`
-/

namespace JSL

variable {orc : Oracle} {inst : Instance}

/-- what validation guarantees about the job of a machine transition that is neither
OUTAGE→IDLE nor WORKING→OUTAGE -/
theorem valid_machine_job {s : State} (hnd : (s.jobs.map (·.id)).Nodup) {m : MachineState} {tr : Transition}
    (hv : machineTransitionValid s m tr = .ok true)
    (h1 : ¬(m.st = .outage ∧ tr.new = .m .idle)) (h2 : ¬(m.st = .working ∧ tr.new = .m .outage)) :
    ∀ j ∈ s.jobs, tr.job = some j.id → ∀ op, j.nextNotDone? = some op → op.machine = m.id := by
  intro j hj htj op hop
  unfold machineTransitionValid at hv
  split at hv
  · simp at hv
  · split at hv
    · rename_i h; simp at h; exact absurd h h1
    · split at hv
      · rename_i h; simp at h; exact absurd h h2
      · unfold machineJobCheck at hv
        simp only [htj] at hv
        obtain ⟨j', hj', hv⟩ := except_bind_eq_ok hv
        obtain ⟨op', hop', hv⟩ := except_bind_eq_ok hv
        simp at hv
        have hj'' := getJob_ok hj'
        have : j' = j := eq_of_mem_of_key_eq (key := fun (y : JobState) => y.id) hnd hj''.1 hj hj''.2
        subst this
        have := nextNotDone_ok hop'
        rw [hop] at this
        simp at this; subst this
        exact hv

theorem StructInv.time {s : State} (hI : StructInv inst s) (t : Int) : StructInv inst { s with time := t } :=
  ⟨⟨hI.shape.jobs, hI.shape.machines, hI.shape.transports, hI.shape.buffers⟩,
   ⟨hI.cons.stored, hI.cons.located, hI.cons.nodup⟩, hI.cap⟩

/-- one validated, successfully applied transition keeps the structural invariants -/
theorem applyTransition_struct (w : WF inst) {s s' : State} {r r' : Rng} {tr : Transition}
    (hI : StructInv inst s) (hv : transitionValid s tr = .ok true)
    (h : applyTransition orc inst s r tr = .ok (s', r')) : StructInv inst s' := by
  unfold applyTransition at h
  unfold transitionValid at hv
  cases hc : tr.comp with
  | m mid =>
    simp only [hc] at h hv
    obtain ⟨m0, hm0, h⟩ := except_bind_eq_ok h
    obtain ⟨mv, hmv, hv⟩ := except_bind_eq_ok hv
    rw [hm0] at hmv; simp at hmv; subst hmv
    unfold handleMachineTransition at h
    obtain ⟨m, hm, h⟩ := except_bind_eq_ok h
    rw [hm0] at hm; simp at hm; subst hm
    have hmem := (getMachine_ok hm0).1
    obtain ⟨hd, hh, h⟩ := except_bind_eq_ok h
    unfold machineHandlerOf at hh
    cases hn : tr.new with
    | t ns => simp [hn] at hh
    | m ns =>
      simp only [hn] at hh
      cases hmh : machineHandler m0.st ns with
      | none => simp [hmh] at hh
      | some hd' =>
        simp [hmh] at hh; subst hh
        have hnd := hI.shape.jobsNodup w
        cases hd' with
        | idleToSetup =>
          have hst := machineHandler_idleToSetup hmh
          exact idleToSetup_struct w hI hmem
            (valid_machine_job hnd hv (by simp [hst.1]) (by simp [hst.1])) h
        | setupToWorking =>
          have hst := machineHandler_setupToWorking hmh
          exact setupToWorking_struct w hI hmem
            (valid_machine_job hnd hv (by simp [hst.1]) (by simp [hst.1])) h
        | workingToOutage => exact workingToOutage_struct w hI hmem h
        | outageToIdle => exact outageToIdle_struct w hI hmem h
  | t tid =>
    simp only [hc] at h
    obtain ⟨t0, ht0, h⟩ := except_bind_eq_ok h
    unfold handleTransportTransition at h
    obtain ⟨t, ht, h⟩ := except_bind_eq_ok h
    rw [ht0] at ht; simp at ht; subst ht
    have hmem := (getTransport_ok ht0).1
    obtain ⟨tc, _, h⟩ := except_bind_eq_ok h
    split at h
    · simp at h
    · obtain ⟨hd, hh, h⟩ := except_bind_eq_ok h
      cases hd with
      | idleToWorking => exact idleToWorking_struct w hI hmem h
      | pickupToWaitingpickup => exact pickupToWaiting_struct w hI hmem h
      | pickupToTransit => exact pickupToTransit_struct w hI hmem h
      | transitToOutage => exact transitToOutage_struct w hI hmem h
      | outageToIdle => exact agvOutageToIdle_struct w hI hmem h
      | waitingPickupToWaitingPickup => exact waitingToWaiting_struct w hI hmem h
  | b bid =>
    simp only [hc] at h
    obtain ⟨_, _, h⟩ := except_bind_eq_ok h
    simp at h

/-- `process_state_transitions`: the final state and every intermediate state keep the invariants -/
theorem processTransitions_struct (w : WF inst) :
    ∀ (trs : List Transition) (s : State) (r : Rng) (o : ProcOut), StructInv inst s →
      processTransitions orc inst trs s r = .ok o →
      StructInv inst o.state ∧ ∀ σ ∈ o.micro, StructInv inst σ := by
  intro trs
  induction trs with
  | nil =>
    intro s r o hI h
    simp [processTransitions] at h; subst h
    exact ⟨hI, by simp⟩
  | cons tr trs ih =>
    intro s r o hI h
    simp only [processTransitions] at h
    obtain ⟨v, hv, h⟩ := except_bind_eq_ok h
    cases v with
    | true =>
      simp only [if_true] at h
      obtain ⟨⟨s1, r1⟩, ha, h⟩ := except_bind_eq_ok h
      obtain ⟨o1, ho1, h⟩ := except_bind_eq_ok h
      simp at h; subst h
      have hI1 := applyTransition_struct w hI hv ha
      have := ih s1 r1 o1 hI1 ho1
      refine ⟨this.1, ?_⟩
      intro σ hσ
      rcases List.mem_cons.mp hσ with rfl | hσ
      · exact hI1
      · exact this.2 σ hσ
    | false =>
      simp only [Bool.false_eq_true, if_false] at h
      obtain ⟨o1, ho1, h⟩ := except_bind_eq_ok h
      simp at h; subst h
      exact ih s r o1 hI ho1

/-- the `while timed_transitions` loop -/
theorem timedLoop_struct (w : WF inst) {cfg : SMConfig} :
    ∀ (fuel : Nat) (tt : List Transition) (s : State) (r : Rng) (subs mic : List State) (out : LoopOut),
      StructInv inst s → (∀ σ ∈ subs, StructInv inst σ) → (∀ σ ∈ mic, StructInv inst σ) →
      timedLoop orc inst cfg fuel tt s r subs mic = .ok out →
      StructInv inst out.state ∧ (∀ σ ∈ out.subs, StructInv inst σ) ∧ (∀ σ ∈ out.micro, StructInv inst σ) := by
  intro fuel
  induction fuel with
  | zero =>
    intro tt s r subs mic out hI hsub hmic h
    cases tt with
    | nil => simp [timedLoop] at h; subst h; exact ⟨hI, hsub, hmic⟩
    | cons a as => simp [timedLoop] at h
  | succ n ih =>
    intro tt s r subs mic out hI hsub hmic h
    cases tt with
    | nil => simp [timedLoop] at h; subst h; exact ⟨hI, hsub, hmic⟩
    | cons a as =>
      simp only [timedLoop] at h
      obtain ⟨o, ho, h⟩ := except_bind_eq_ok h
      have hp := processTransitions_struct w _ _ _ _ hI ho
      have hmic' : ∀ σ ∈ mic ++ o.micro, StructInv inst σ := by
        intro σ hσ
        rcases List.mem_append.mp hσ with hσ | hσ
        · exact hmic σ hσ
        · exact hp.2 σ hσ
      split at h
      · simp at h; subst h; exact ⟨hp.1, hsub, hmic'⟩
      · obtain ⟨t, _, h⟩ := except_bind_eq_ok h
        obtain ⟨tt', _, h⟩ := except_bind_eq_ok h
        apply ih _ _ _ _ _ _ (hp.1.time t) _ hmic' h
        intro σ hσ
        rcases List.mem_append.mp hσ with hσ | hσ
        · exact hsub σ hσ
        · simp at hσ; subst hσ; exact hp.1.time t

/-- **`state.step` keeps the structural invariants** – for every action whatsoever (the transitions
need not be offered ones): the state returned, every intermediate sub-state and the post-state of
every applied transition satisfy them. -/
theorem smStep_struct (w : WF inst) {cfg : SMConfig} {fuel : Nat} {s0 : State} {r : Rng} {a : Action}
    {res : SMResult} {r' : Rng} {mic : List State} (hI : StructInv inst s0)
    (h : smStep orc inst cfg fuel s0 r a = .ok (res, r', mic)) :
    StructInv inst res.state ∧ (∀ σ ∈ res.subStates, StructInv inst σ) ∧ (∀ σ ∈ mic, StructInv inst σ) := by
  unfold smStep at h
  obtain ⟨p, hp, h⟩ := except_bind_eq_ok h
  have hp' := processTransitions_struct w _ _ _ _ hI hp
  split at h
  · simp at h
    obtain ⟨rfl, _, rfl⟩ := h
    exact ⟨hI, by simpa using hp'.1, hp'.2⟩
  · simp only at h
    obtain ⟨t, _, h⟩ := except_bind_eq_ok h
    obtain ⟨timed, _, h⟩ := except_bind_eq_ok h
    obtain ⟨poss, _, h⟩ := except_bind_eq_ok h
    obtain ⟨tele, _, h⟩ := except_bind_eq_ok h
    obtain ⟨out, hout, h⟩ := except_bind_eq_ok h
    have hl := timedLoop_struct w _ _ _ _ _ _ _ (hp'.1.time t) (by simpa using hp'.1) hp'.2 hout
    split at h
    · simp at h
      obtain ⟨rfl, _, rfl⟩ := h
      exact ⟨hI, hl.2.1, hl.2.2⟩
    · split at h
      · obtain ⟨e, _, h⟩ := except_bind_eq_ok h
        simp at h
        obtain ⟨rfl, _, rfl⟩ := h
        refine ⟨?_, fun σ hσ => hl.2.1 σ ((List.dropLast_sublist _).subset hσ), hl.2.2⟩
        cases e with
        | none => exact hl.1
        | some e => exact hl.1.time e
      · obtain ⟨poss', _, h⟩ := except_bind_eq_ok h
        simp at h
        obtain ⟨rfl, _, rfl⟩ := h
        exact ⟨hl.1, fun σ hσ => hl.2.1 σ ((List.dropLast_sublist _).subset hσ), hl.2.2⟩

end JSL
