import JSL.Model.Env
import JSL.Lib.Except
import JSL.Lib.Lists

/-!
# Translation of simulated time: definitions and lookup lemmas

`shiftState δ s` adds `δ` to every timestamp of `s` (clock, operation start/stop, machine and
transport `occupied_till`) and leaves everything else – in particular the outage records – as it is.
-/

namespace JSL

/-- case split on an `Except` value: the error branch is closed, the ok branch is simplified -/
macro "ecase " t:term " with " x:ident : tactic =>
  `(tactic| (cases $t:term
             · first | rfl | simp only [except_map'_error, except_bind_error]
             rename_i $x:ident
             try simp only [except_map'_ok, except_bind_ok]))

/-- split an `if`, close the branches that hold by `rfl`, and in the others rewrite the remaining
copies of the same condition -/
macro "isplit" : tactic =>
  `(tactic| (split <;>
      first
      | rfl
      | (rename_i hsplit
         try simp only [hsplit, ↓reduceIte, if_true, if_false, Bool.false_eq_true]
         try rfl)))

theorem ite_push {α β} (f : α → β) (c : Prop) [Decidable c] (a b : α) :
    (if c then f a else f b) = f (if c then a else b) := by
  split <;> rfl

def shiftOp (δ : Int) (o : OpState) : OpState :=
  { o with start := o.start.map (· + δ), stop := o.stop.map (· + δ) }

def shiftJob (δ : Int) (j : JobState) : JobState :=
  { j with ops := j.ops.map (shiftOp δ) }

def shiftMachine (δ : Int) (m : MachineState) : MachineState :=
  { m with occ := m.occ.map (· + δ) }

def shiftOcc (δ : Int) : Occ → Occ
  | .none => .none
  | .at t => .at (t + δ)
  | .dep b j tr => .dep b j tr

def shiftTransport (δ : Int) (t : TransportState) : TransportState :=
  { t with occ := shiftOcc δ t.occ }

/-- add `δ` to every timestamp of the state -/
def shiftState (δ : Int) (s : State) : State :=
  { jobs := s.jobs.map (shiftJob δ), time := s.time + δ, machines := s.machines.map (shiftMachine δ),
    transports := s.transports.map (shiftTransport δ), buffers := s.buffers }

def shiftTarget (δ : Int) : Target → Target
  | .machine m => .machine (shiftMachine δ m)
  | .buffer b => .buffer b

def shiftResult (δ : Int) (res : SMResult) : SMResult :=
  { res with state := shiftState δ res.state, subStates := res.subStates.map (shiftState δ) }

/-- no outage is configured on any machine or transport -/
def NoOutages (inst : Instance) : Prop :=
  (∀ m ∈ inst.machines, m.outages = []) ∧ (∀ t ∈ inst.transports, t.outages = [])

variable (δ : Int)

/-! ## projections -/

@[simp] theorem shiftOp_job (o : OpState) : (shiftOp δ o).job = o.job := rfl
@[simp] theorem shiftOp_idx (o : OpState) : (shiftOp δ o).idx = o.idx := rfl
@[simp] theorem shiftOp_machine (o : OpState) : (shiftOp δ o).machine = o.machine := rfl
@[simp] theorem shiftOp_st (o : OpState) : (shiftOp δ o).st = o.st := rfl
@[simp] theorem shiftOp_start (o : OpState) : (shiftOp δ o).start = o.start.map (· + δ) := rfl
@[simp] theorem shiftOp_stop (o : OpState) : (shiftOp δ o).stop = o.stop.map (· + δ) := rfl

@[simp] theorem shiftJob_id (j : JobState) : (shiftJob δ j).id = j.id := rfl
@[simp] theorem shiftJob_loc (j : JobState) : (shiftJob δ j).loc = j.loc := rfl
@[simp] theorem shiftJob_ops (j : JobState) : (shiftJob δ j).ops = j.ops.map (shiftOp δ) := rfl

@[simp] theorem shiftMachine_id (m : MachineState) : (shiftMachine δ m).id = m.id := rfl
@[simp] theorem shiftMachine_buffer (m : MachineState) : (shiftMachine δ m).buffer = m.buffer := rfl
@[simp] theorem shiftMachine_pre (m : MachineState) : (shiftMachine δ m).pre = m.pre := rfl
@[simp] theorem shiftMachine_post (m : MachineState) : (shiftMachine δ m).post = m.post := rfl
@[simp] theorem shiftMachine_st (m : MachineState) : (shiftMachine δ m).st = m.st := rfl
@[simp] theorem shiftMachine_tool (m : MachineState) : (shiftMachine δ m).tool = m.tool := rfl
@[simp] theorem shiftMachine_outages (m : MachineState) : (shiftMachine δ m).outages = m.outages := rfl
@[simp] theorem shiftMachine_occ (m : MachineState) : (shiftMachine δ m).occ = m.occ.map (· + δ) := rfl

@[simp] theorem shiftTransport_id (t : TransportState) : (shiftTransport δ t).id = t.id := rfl
@[simp] theorem shiftTransport_st (t : TransportState) : (shiftTransport δ t).st = t.st := rfl
@[simp] theorem shiftTransport_buffer (t : TransportState) : (shiftTransport δ t).buffer = t.buffer := rfl
@[simp] theorem shiftTransport_loc (t : TransportState) : (shiftTransport δ t).loc = t.loc := rfl
@[simp] theorem shiftTransport_outages (t : TransportState) : (shiftTransport δ t).outages = t.outages := rfl
@[simp] theorem shiftTransport_job (t : TransportState) : (shiftTransport δ t).job = t.job := rfl
@[simp] theorem shiftTransport_occ (t : TransportState) : (shiftTransport δ t).occ = shiftOcc δ t.occ := rfl

@[simp] theorem shiftState_jobs (s : State) : (shiftState δ s).jobs = s.jobs.map (shiftJob δ) := rfl
@[simp] theorem shiftState_time (s : State) : (shiftState δ s).time = s.time + δ := rfl
@[simp] theorem shiftState_machines (s : State) : (shiftState δ s).machines = s.machines.map (shiftMachine δ) := rfl
@[simp] theorem shiftState_transports (s : State) :
    (shiftState δ s).transports = s.transports.map (shiftTransport δ) := rfl
@[simp] theorem shiftState_buffers (s : State) : (shiftState δ s).buffers = s.buffers := rfl

theorem shiftState_setTime (s : State) (t : Int) :
    { shiftState δ s with time := t + δ } = shiftState δ { s with time := t } := rfl

/-! ## generic list lemmas -/

theorem findE_map {α} (f : α → α) (p : α → Bool) (hp : ∀ x, p (f x) = p x) (l : List α) (e : Err) :
    findE p (l.map f) e = (findE p l e).map f := by
  unfold findE
  rw [List.find?_map]
  have : (p ∘ f) = p := funext hp
  rw [this]
  cases l.find? p <;> rfl

theorem findOpt_map_inv {α} (f : α → α) (p : α → Bool) (hp : ∀ x, p (f x) = p x) (l : List α) :
    (l.map f).find? p = (l.find? p).map f := by
  rw [List.find?_map]
  have : (p ∘ f) = p := funext hp
  rw [this]

theorem any_map_inv {α} (f : α → α) (p : α → Bool) (hp : ∀ x, p (f x) = p x) (l : List α) :
    (l.map f).any p = l.any p := by
  rw [List.any_map]
  have : (p ∘ f) = p := funext hp
  rw [this]

theorem all_map_inv {α} (f : α → α) (p : α → Bool) (hp : ∀ x, p (f x) = p x) (l : List α) :
    (l.map f).all p = l.all p := by
  rw [List.all_map]
  have : (p ∘ f) = p := funext hp
  rw [this]

theorem filter_map_inv {α} (f : α → α) (p : α → Bool) (hp : ∀ x, p (f x) = p x) (l : List α) :
    (l.map f).filter p = (l.filter p).map f := by
  rw [List.filter_map]
  have : (p ∘ f) = p := funext hp
  rw [this]

theorem filterE_map {α} (f : α → α) (p q : α → Except Err Bool) (hp : ∀ x, p (f x) = q x) :
    ∀ l : List α, filterE p (l.map f) = (filterE q l).map (List.map f)
  | [] => rfl
  | a :: as => by
    simp only [List.map_cons, filterE]
    rw [hp a, filterE_map f p q hp as]
    ecase q a with b
    ecase filterE q as with r
    cases b <;> rfl

theorem filterE_congr {α} (p q : α → Except Err Bool) (hp : ∀ x, p x = q x) (l : List α) :
    filterE p l = filterE q l := by
  have : p = q := funext hp
  rw [this]

/-- `mapM` of a function that does not see the shift -/
theorem mapM_map_inv {α β} (f : α → α) (g h : α → Except Err β) (hg : ∀ x, g (f x) = h x) :
    ∀ l : List α, (l.map f).mapM g = l.mapM h
  | [] => rfl
  | a :: as => by
    simp only [List.map_cons, List.mapM_cons]
    rw [hg a, mapM_map_inv f g h hg as]

/-- `mapM` of a function that commutes with a map on the results -/
theorem mapM_map_equiv {α β} (f : α → α) (k : β → β) (g h : α → Except Err β)
    (hg : ∀ x, g (f x) = (h x).map k) :
    ∀ l : List α, (l.map f).mapM g = (l.mapM h).map (List.map k)
  | [] => rfl
  | a :: as => by
    simp only [List.map_cons, List.mapM_cons]
    rw [hg a, mapM_map_equiv f k g h hg as]
    ecase h a with b
    ecase List.mapM h as with r
    rfl

/-! ## jobs -/

theorem getJob_shift (l : List JobState) (i : Nat) :
    getJob (l.map (shiftJob δ)) i = (getJob l i).map (shiftJob δ) :=
  findE_map (shiftJob δ) _ (fun _ => rfl) l _

theorem getJobOpt_shift (l : List JobState) (i : Option Nat) :
    getJobOpt (l.map (shiftJob δ)) i = (getJobOpt l i).map (shiftJob δ) := by
  cases i with
  | none => rfl
  | some i => exact getJob_shift δ l i

@[simp] theorem shiftJob_running (j : JobState) : (shiftJob δ j).running = j.running :=
  any_map_inv (shiftOp δ) _ (fun _ => rfl) _
@[simp] theorem shiftJob_noOpIdle (j : JobState) : (shiftJob δ j).noOpIdle = j.noOpIdle :=
  all_map_inv (shiftOp δ) _ (fun _ => rfl) _
@[simp] theorem shiftJob_allDone (j : JobState) : (shiftJob δ j).allDone = j.allDone :=
  all_map_inv (shiftOp δ) _ (fun _ => rfl) _
theorem shiftJob_nextNotDoneOpt (j : JobState) : (shiftJob δ j).nextNotDone? = j.nextNotDone?.map (shiftOp δ) :=
  findOpt_map_inv (shiftOp δ) _ (fun _ => rfl) _
theorem shiftJob_nextIdleOpt (j : JobState) : (shiftJob δ j).nextIdle? = j.nextIdle?.map (shiftOp δ) :=
  findOpt_map_inv (shiftOp δ) _ (fun _ => rfl) _
theorem shiftJob_processingOpt (j : JobState) : (shiftJob δ j).processing? = j.processing?.map (shiftOp δ) :=
  findOpt_map_inv (shiftOp δ) _ (fun _ => rfl) _

theorem shiftJob_nextNotDone (j : JobState) : (shiftJob δ j).nextNotDone = j.nextNotDone.map (shiftOp δ) := by
  unfold JobState.nextNotDone
  rw [shiftJob_nextNotDoneOpt]
  cases j.nextNotDone? <;> rfl

theorem shiftJob_nextIdleE (j : JobState) : (shiftJob δ j).nextIdleE = j.nextIdleE.map (shiftOp δ) := by
  unfold JobState.nextIdleE
  rw [shiftJob_nextIdleOpt]
  cases j.nextIdle? <;> rfl

@[simp] theorem shiftJob_nextOpFree (j : JobState) : (shiftJob δ j).nextOpFree = j.nextOpFree := by
  unfold JobState.nextOpFree
  rw [shiftJob_running, shiftJob_ops, any_map_inv (shiftOp δ) _ (fun _ => rfl)]

theorem shiftJob_replaceOp (j : JobState) (o : OpState) :
    (shiftJob δ j).replaceOp (shiftOp δ o) = shiftJob δ (j.replaceOp o) := by
  unfold JobState.replaceOp shiftJob
  simp only [List.map_map, shiftOp_job, shiftOp_idx]
  congr 1
  apply List.map_congr_left
  intro x _
  simp only [Function.comp, shiftOp_job, shiftOp_idx]
  exact ite_push _ _ _ _

@[simp] theorem jobDone_shift (inst : Instance) (j : JobState) : jobDone inst (shiftJob δ j) = jobDone inst j := by
  unfold jobDone
  rw [shiftJob_allDone, shiftJob_loc]

/-! ## machines, transports -/

theorem getMachine_shift (l : List MachineState) (i : Nat) :
    getMachine (l.map (shiftMachine δ)) i = (getMachine l i).map (shiftMachine δ) :=
  findE_map (shiftMachine δ) _ (fun _ => rfl) l _

theorem getTransport_shift (l : List TransportState) (i : Nat) :
    getTransport (l.map (shiftTransport δ)) i = (getTransport l i).map (shiftTransport δ) :=
  findE_map (shiftTransport δ) _ (fun _ => rfl) l _

@[simp] theorem bufOfMachine_shift (m : MachineState) (bid : Nat) :
    bufOfMachine (shiftMachine δ m) bid = bufOfMachine m bid := rfl

theorem replaceBufInMachine_shift (m : MachineState) (b : BufState) :
    replaceBufInMachine (shiftMachine δ m) b = (replaceBufInMachine m b).map (shiftMachine δ) := by
  unfold replaceBufInMachine
  simp only [shiftMachine_pre, shiftMachine_buffer, shiftMachine_post]
  by_cases h1 : (b.id == m.pre.id) = true
  · simp only [h1, if_true]; rfl
  · by_cases h2 : (b.id == m.buffer.id) = true
    · simp only [h1, h2, if_true]; rfl
    · by_cases h3 : (b.id == m.post.id) = true
      · simp only [h1, h2, h3, if_true]; rfl
      · simp only [h1, h2, h3]; rfl

theorem transportByJob_shift (s : State) (j : Nat) :
    transportByJob (shiftState δ s) j = (transportByJob s j).map (shiftTransport δ) :=
  findOpt_map_inv (shiftTransport δ) _ (fun _ => rfl) _

@[simp] theorem allBufStates_shift (s : State) : allBufStates (shiftState δ s) = allBufStates s := by
  unfold allBufStates
  simp only [shiftState_buffers, shiftState_machines, shiftState_transports, List.map_map, List.flatMap_map]
  rfl

theorem replaceJob_shift (s : State) (j : JobState) :
    (shiftState δ s).replaceJob (shiftJob δ j) = shiftState δ (s.replaceJob j) := by
  unfold State.replaceJob shiftState
  simp only [List.map_map, shiftJob_id]
  congr 1
  apply List.map_congr_left
  intro x _
  simp only [Function.comp, shiftJob_id]
  exact ite_push _ _ _ _

theorem replaceMachine_shift (s : State) (m : MachineState) :
    (shiftState δ s).replaceMachine (shiftMachine δ m) = shiftState δ (s.replaceMachine m) := by
  unfold State.replaceMachine shiftState
  simp only [List.map_map, shiftMachine_id]
  congr 1
  apply List.map_congr_left
  intro x _
  simp only [Function.comp, shiftMachine_id]
  exact ite_push _ _ _ _

theorem replaceTransport_shift (s : State) (t : TransportState) :
    (shiftState δ s).replaceTransport (shiftTransport δ t) = shiftState δ (s.replaceTransport t) := by
  unfold State.replaceTransport shiftState
  simp only [List.map_map, shiftTransport_id]
  congr 1
  apply List.map_congr_left
  intro x _
  simp only [Function.comp, shiftTransport_id]
  exact ite_push _ _ _ _

theorem replaceBuffer_shift (s : State) (b : BufState) :
    (shiftState δ s).replaceBuffer b = shiftState δ (s.replaceBuffer b) := rfl

@[simp] theorem isDone_shift (inst : Instance) (s : State) : isDone inst (shiftState δ s) = isDone inst s := by
  unfold isDone
  exact all_map_inv (shiftJob δ) _ (fun _ => rfl) _

/-! ## buffers -/

theorem putInBuffer_shift (b : BufState) (c : BufCfg) (j : JobState) :
    putInBuffer b c (shiftJob δ j) = (putInBuffer b c j).map (fun p => (p.1, shiftJob δ p.2)) := by
  unfold putInBuffer
  split <;> rfl

theorem switchBuffer_shift (inst : Instance) (f t : BufState) (j : JobState) :
    switchBuffer inst f t (shiftJob δ j) =
      (switchBuffer inst f t j).map (fun p => (p.1, p.2.1, shiftJob δ p.2.2)) := by
  unfold switchBuffer
  simp only [shiftJob_id]
  isplit
  · simp only [except_pure]
    ecase removeFromBuffer f j.id with f2
    ecase getBufCfg (allBufCfgs inst) t.id with c
    rw [putInBuffer_shift]
    ecase putInBuffer t c j with q
    try rfl

theorem readyForPickup_shift (inst : Instance) (s : State) (j : JobState) :
    readyForPickup inst (shiftState δ s) (shiftJob δ j) = readyForPickup inst s j := by
  unfold readyForPickup
  simp only [allBufStates_shift, shiftJob_loc, shiftJob_id]

end JSL
