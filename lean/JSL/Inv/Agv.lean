import JSL.Inv.Dur

/-!
# What the AGVs hold and claim
-/

namespace JSL

variable {orc : Oracle} {inst : Instance}

/-- what one AGV transition does to its AGV (everything else about the transports is untouched) -/
inductive AgvEffect (s : State) (tr : Transition) (t0 t' : TransportState) : Prop
  | dispatch (j : JobState) : t0.st = .idle → t'.st = .pickup → t'.buffer = t0.buffer → j ∈ s.jobs → tr.job = some j.id →
      t'.job = some j.id → AgvEffect s tr t0 t'
  | wait : (t0.st = .pickup ∨ t0.st = .waitingpickup) → t'.st = .waitingpickup → t'.buffer = t0.buffer → t'.job = t0.job →
      AgvEffect s tr t0 t'
  | pickup (j : JobState) : (t0.st = .pickup ∨ t0.st = .waitingpickup) → t'.st = .transit → j ∈ s.jobs → tr.job = some j.id →
      t'.buffer.store = t0.buffer.store ++ [j.id] → t'.job = t0.job → AgvEffect s tr t0 t'
  | deliver (j : JobState) : (t0.st = .transit ∨ t0.st = .working) → t'.st = .outage → t'.job = none → j ∈ s.jobs →
      j.id ∈ t0.buffer.store → t'.buffer.store = t0.buffer.store.filter (· != j.id) → AgvEffect s tr t0 t'
  | release : t0.st = .outage → t'.st = .idle → t'.buffer = t0.buffer → t'.job = t0.job → AgvEffect s tr t0 t'

theorem agv_transport_effect {s s' : State} {r r' : Rng} {tr : Transition} {tid : Nat}
    (hc : tr.comp = .t tid) (h : applyTransition orc inst s r tr = .ok (s', r')) :
    ∃ t0 t', t0 ∈ s.transports ∧ t0.id = tid ∧ t'.id = t0.id ∧ s'.transports = (s.replaceTransport t').transports ∧
      AgvEffect s tr t0 t' := by
  unfold applyTransition at h
  simp only [hc] at h
  obtain ⟨t0, ht0, h⟩ := except_bind_eq_ok h
  unfold handleTransportTransition at h
  obtain ⟨t, ht, h⟩ := except_bind_eq_ok h
  rw [ht0] at ht; simp at ht; subst ht
  have hmem := getTransport_ok ht0
  obtain ⟨tc, _, h⟩ := except_bind_eq_ok h
  split at h
  · simp at h
  · obtain ⟨hd, hh, h⟩ := except_bind_eq_ok h
    unfold agvHandlerOf at hh
    cases hn : tr.new with
    | m ns => simp [hn] at hh
    | t ns =>
      simp only [hn] at hh
      cases hah : agvHandler t0.st ns with
      | none => simp [hah] at hh
      | some hd' =>
        simp [hah] at hh; subst hh
        cases hd' with
        | idleToWorking =>
          have hst := agvHandler_idleToWorking hah
          obtain ⟨j, cur, target, src, bc, c, hj, htj, _, _, _, _, _, _, _, rfl⟩ := idleToWorking_spec h
          exact ⟨t0, t0.toPickup cur bc.id target (s.time + c.cur orc r) j.id, hmem.1, hmem.2, rfl, rfl, .dispatch j hst.1 rfl rfl hj htj rfl⟩
        | pickupToWaitingpickup =>
          have hst := agvHandler_pickupToWaiting hah
          obtain ⟨occ, _, _, _, rfl⟩ := pickupToWaiting_spec h
          exact ⟨t0, t0.toWaiting occ, hmem.1, hmem.2, rfl, rfl, .wait (Or.inl hst.2) rfl rfl rfl⟩
        | waitingPickupToWaitingPickup =>
          have hst := agvHandler_waitingToWaiting hah
          obtain ⟨occ, _, _, rfl⟩ := waitingToWaiting_spec h
          exact ⟨t0, t0.toWaiting occ, hmem.1, hmem.2, rfl, rfl, .wait (Or.inr hst.2) rfl rfl rfl⟩
        | outageToIdle =>
          have hst := agvHandler_outageToIdle hah
          obtain ⟨_, rfl⟩ := agvOutageToIdle_spec h
          exact ⟨t0, t0.toIdle, hmem.1, hmem.2, rfl, rfl, .release hst.1 rfl rfl rfl⟩
        | pickupToTransit =>
          have hst := agvHandler_pickupToTransit hah
          obtain ⟨j, src, dst, tt, bss1, bss2, hj, htj, _, _, _, hcase⟩ := pickupToTransit_spec h
          refine ⟨t0, t0.toTransit (s.time + tt) j.id bss2, hmem.1, hmem.2, rfl, ?_, .pickup j hst.2 rfl hj htj rfl rfl⟩
          rcases hcase with ⟨fb, _, _, _, _, _, rfl⟩ | ⟨mid, ms, bs, ms', _, _, _, _, _, _, _, rfl⟩ <;> rfl
        | transitToOutage =>
          have hst := agvHandler_transitToOutage hah
          obtain ⟨j, cur, pick, drop, tc, outs, bss1, bss2, hj, _, _, hin, _, _, _, hcase⟩ := transitToOutage_spec h
          refine ⟨t0, t0.toOutage j.id bss1 outs (s.time + occupiedFor outs) drop, hmem.1, hmem.2, rfl, ?_,
            .deliver j hst.2 rfl rfl hj hin rfl⟩
          rcases hcase with ⟨mid, ms, _, _, _, _, rfl⟩ | ⟨bid, b, _, _, _, _, rfl⟩ <;> rfl

structure AgvInv (s : State) : Prop where
  /-- an AGV that is not in transit holds nothing -/
  empty : ∀ t ∈ s.transports, t.st ≠ .transit → t.buffer.store = []
  /-- an AGV in transit holds exactly one job -/
  holds : ∀ t ∈ s.transports, t.st = .transit → ∃ j ∈ s.jobs, t.buffer.store = [j.id]
  /-- a job is claimed by at most one AGV -/
  unique : ∀ t1 ∈ s.transports, ∀ t2 ∈ s.transports, ∀ x, t1.job = some x → t2.job = some x → t1.id = t2.id
  /-- what is claimed is a job of the shop -/
  claimed : ∀ t ∈ s.transports, ∀ x, t.job = some x → ∃ j ∈ s.jobs, j.id = x

/-- batch side condition: dispatches in the batch are for jobs nobody has claimed, pairwise different -/
structure ClaimGS (s : State) (L : List Transition) : Prop where
  free : ∀ tr ∈ L, tr.new = .t .working → ∀ x, tr.job = some x → ∀ t ∈ s.transports, t.job ≠ some x
  distinct : L.Pairwise (fun a b => a.new = .t .working → b.new = .t .working → ∀ x, a.job = some x → b.job ≠ some x)

theorem ClaimGS.tail {s : State} {tr : Transition} {R : List Transition} (h : ClaimGS s (tr :: R)) : ClaimGS s R :=
  ⟨fun t ht => h.free t (by simp [ht]), (List.pairwise_cons.mp h.distinct).2⟩

theorem job_ids_same {s s' : State} (hI : StructInv inst s) (hI' : StructInv inst s') (x : Nat) :
    (∃ j ∈ s.jobs, j.id = x) ↔ (∃ j ∈ s'.jobs, j.id = x) := by
  have e : s.jobs.map (·.id) = s'.jobs.map (·.id) := by rw [hI.shape.jobIds, hI'.shape.jobIds]
  constructor
  · rintro ⟨j, hj, rfl⟩
    have : j.id ∈ s'.jobs.map (·.id) := by rw [← e]; exact List.mem_map.mpr ⟨j, hj, rfl⟩
    obtain ⟨j', hj', e'⟩ := List.mem_map.mp this
    exact ⟨j', hj', e'⟩
  · rintro ⟨j, hj, rfl⟩
    have : j.id ∈ s.jobs.map (·.id) := by rw [e]; exact List.mem_map.mpr ⟨j, hj, rfl⟩
    obtain ⟨j', hj', e'⟩ := List.mem_map.mp this
    exact ⟨j', hj', e'⟩

/-- **one transition keeps the AGV invariant** and the claim guard of the rest of the batch -/
theorem applyTransition_agv (w : WF inst) {s s' : State} {r r' : Rng} {tr : Transition} {R : List Transition}
    (hI : StructInv inst s) (hS : SchedInv s) (hP : AgvInv s) (hv : transitionValid s tr = .ok true)
    (hgs : ClaimGS s (tr :: R)) (h : applyTransition orc inst s r tr = .ok (s', r')) :
    AgvInv s' ∧ ClaimGS s' R := by
  have hI' := applyTransition_struct w hI hv h
  have hjobs := job_ids_same hI hI'
  have htn := hI.shape.trNodup w
  cases hc : tr.comp with
  | b bid =>
    unfold applyTransition at h
    simp only [hc] at h
    obtain ⟨_, _, h⟩ := except_bind_eq_ok h
    simp at h
  | m mid =>
    have htr := (machine_effect w hI hc h).2.1
    constructor
    · exact {
        empty := fun t ht => hP.empty t (htr ▸ ht)
        holds := fun t ht hst => by
          obtain ⟨j, hj, e⟩ := hP.holds t (htr ▸ ht) hst
          obtain ⟨j', hj', e'⟩ := (hjobs j.id).mp ⟨j, hj, rfl⟩
          exact ⟨j', hj', by rw [e, e']⟩
        unique := fun t1 h1 t2 h2 => hP.unique t1 (htr ▸ h1) t2 (htr ▸ h2)
        claimed := fun t ht x hx => (hjobs x).mp (hP.claimed t (htr ▸ ht) x hx) }
    · exact ⟨fun t ht hn x hx t2 ht2 => hgs.free t (by simp [ht]) hn x hx t2 (htr ▸ ht2), (List.pairwise_cons.mp hgs.distinct).2⟩
  | t tid =>
    obtain ⟨t0, t', ht0, hid0, hid', htrs, heff⟩ := agv_transport_effect hc h
    have hmemT : ∀ x, x ∈ s'.transports ↔ (x = t' ∨ (x ∈ s.transports ∧ x.id ≠ t0.id)) := by
      intro x; rw [htrs]; exact mem_replaceTransport htn ht0 hid' x
    -- facts about the new record of the AGV
    have key : (t'.st ≠ .transit → t'.buffer.store = []) ∧
        (t'.st = .transit → ∃ j ∈ s'.jobs, t'.buffer.store = [j.id]) ∧
        (∀ x, t'.job = some x → (t0.job = some x ∨ (tr.new = .t .working ∧ tr.job = some x)) ∧ ∃ j ∈ s.jobs, j.id = x) := by
      cases heff with
      | dispatch j h1 h2 h3 h4 h5 h6 =>
        refine ⟨fun _ => by rw [h3]; exact hP.empty t0 ht0 (by rw [h1]; simp), fun e => (by rw [h2] at e; cases e), ?_⟩
        intro x hx
        rw [h6] at hx; simp at hx; subst hx
        refine ⟨Or.inr ⟨?_, h5⟩, j, h4, rfl⟩
        -- the transition that dispatches an idle AGV is the offer-shaped one
        unfold applyTransition at h
        simp only [hc] at h
        obtain ⟨t1, ht1, h⟩ := except_bind_eq_ok h
        unfold handleTransportTransition at h
        obtain ⟨t2, ht2, h⟩ := except_bind_eq_ok h
        obtain ⟨tc, _, h⟩ := except_bind_eq_ok h
        split at h
        · simp at h
        · obtain ⟨hd, hh, h⟩ := except_bind_eq_ok h
          have e12 : t2 = t0 := by
            have := getTransport_ok ht2
            exact eq_of_mem_of_key_eq (key := fun (y : TransportState) => y.id) htn this.1 ht0 (by rw [this.2, hid0])
          subst e12
          unfold agvHandlerOf at hh
          cases hn : tr.new with
          | m ns => simp [hn] at hh
          | t ns =>
            simp only [hn] at hh
            rw [h1] at hh
            cases ns <;> simp [agvHandler] at hh ⊢
      | wait h1 h2 h3 h4 =>
        refine ⟨fun _ => by rw [h3]; exact hP.empty t0 ht0 (by rcases h1 with e | e <;> rw [e] <;> simp),
          fun e => (by rw [h2] at e; cases e), ?_⟩
        intro x hx
        rw [h4] at hx
        exact ⟨Or.inl hx, hP.claimed t0 ht0 x hx⟩
      | pickup j h1 h2 h3 h4 h5 h6 =>
        refine ⟨fun e => absurd h2 e, fun _ => ?_, ?_⟩
        · have he := hP.empty t0 ht0 (by rcases h1 with e | e <;> rw [e] <;> simp)
          obtain ⟨j', hj', e'⟩ := (hjobs j.id).mp ⟨j, h3, rfl⟩
          exact ⟨j', hj', by rw [h5, he, e']; rfl⟩
        · intro x hx
          rw [h6] at hx
          exact ⟨Or.inl hx, hP.claimed t0 ht0 x hx⟩
      | deliver j h1 h2 h3 h4 h5 h6 =>
        refine ⟨fun _ => ?_, fun e => (by rw [h2] at e; cases e), fun x hx => (by rw [h3] at hx; cases hx)⟩
        rcases h1 with e | e
        · obtain ⟨j0, _, hst⟩ := hP.holds t0 ht0 e
          rw [hst] at h5 h6
          simp at h5
          rw [h6, h5]; simp
        · have := hP.empty t0 ht0 (by rw [e]; simp)
          rw [this] at h5; cases h5
      | release h1 h2 h3 h4 =>
        refine ⟨fun _ => by rw [h3]; exact hP.empty t0 ht0 (by rw [h1]; simp), fun e => (by rw [h2] at e; cases e), ?_⟩
        intro x hx
        rw [h4] at hx
        exact ⟨Or.inl hx, hP.claimed t0 ht0 x hx⟩
    have hfree0 : ∀ x, tr.new = .t .working → tr.job = some x → ∀ t ∈ s.transports, t.job ≠ some x :=
      fun x hn hx => hgs.free tr (by simp) hn x hx
    constructor
    · constructor
      · intro t ht hst
        rcases (hmemT t).mp ht with rfl | ⟨ht', _⟩
        · exact key.1 hst
        · exact hP.empty t ht' hst
      · intro t ht hst
        rcases (hmemT t).mp ht with rfl | ⟨ht', _⟩
        · exact key.2.1 hst
        · obtain ⟨j, hj, e⟩ := hP.holds t ht' hst
          obtain ⟨j', hj', e'⟩ := (hjobs j.id).mp ⟨j, hj, rfl⟩
          exact ⟨j', hj', by rw [e, e']⟩
      · intro t1 h1 t2 h2 x hx1 hx2
        rcases (hmemT t1).mp h1 with rfl | ⟨h1', hne1⟩
        · rcases (hmemT t2).mp h2 with rfl | ⟨h2', hne2⟩
          · rfl
          · rcases (key.2.2 x hx1).1 with e | ⟨hn, hj⟩
            · rw [hid']; exact hP.unique t0 ht0 t2 h2' x e hx2
            · exact absurd hx2 (hfree0 x hn hj t2 h2')
        · rcases (hmemT t2).mp h2 with rfl | ⟨h2', hne2⟩
          · rcases (key.2.2 x hx2).1 with e | ⟨hn, hj⟩
            · rw [hid']; exact hP.unique t1 h1' t0 ht0 x hx1 e
            · exact absurd hx1 (hfree0 x hn hj t1 h1')
          · exact hP.unique t1 h1' t2 h2' x hx1 hx2
      · intro t ht x hx
        rcases (hmemT t).mp ht with rfl | ⟨ht', _⟩
        · exact (hjobs x).mp (key.2.2 x hx).2
        · exact (hjobs x).mp (hP.claimed t ht' x hx)
    · refine ⟨?_, (List.pairwise_cons.mp hgs.distinct).2⟩
      intro b hb hnb x hxb t ht
      rcases (hmemT t).mp ht with rfl | ⟨ht', _⟩
      · intro hx
        rcases (key.2.2 x hx).1 with e | ⟨hn, hj⟩
        · exact hgs.free b (by simp [hb]) hnb x hxb t0 ht0 e
        · exact (List.pairwise_cons.mp hgs.distinct).1 b hb hn hnb x hj hxb
      · exact hgs.free b (by simp [hb]) hnb x hxb t ht'

end JSL
