import JSL.Inv.Frame

/-!
# The store view

`storeAt s i` is the content of the buffer with id `i` wherever it lives in the state.  All
structural invariants about buffers are phrased through it, and the frame lemmas say how it
changes under the replace-by-id operations of the handlers.
-/

namespace JSL

def storeAt (s : State) (i : Nat) : List Nat :=
  match (allBufStates s).find? (fun b => b.id == i) with
  | some b => b.store
  | none => []

theorem storeAt_of_mem {s : State} (hnd : ((allBufStates s).map (·.id)).Nodup) {b : BufState}
    (hb : b ∈ allBufStates s) : storeAt s b.id = b.store := by
  unfold storeAt
  cases h : (allBufStates s).find? (fun x => x.id == b.id) with
  | none =>
    have := List.find?_eq_none.mp h b hb
    simp at this
  | some x =>
    have hx := List.mem_of_find?_eq_some h
    have hp := List.find?_some h
    simp at hp
    have : x = b := eq_of_mem_of_key_eq (key := fun (y : BufState) => y.id) hnd hx hb hp
    simp [this]

theorem storeAt_of_not_mem {s : State} {i : Nat} (h : ∀ b ∈ allBufStates s, b.id ≠ i) : storeAt s i = [] := by
  unfold storeAt
  have : (allBufStates s).find? (fun b => b.id == i) = none := by
    apply List.find?_eq_none.mpr
    intro b hb; simpa using h b hb
  simp [this]

/-- general frame principle: if the buffers of `s'` are the buffers of `s` with some of them
overridden (same ids), `storeAt` is overridden at those ids and unchanged elsewhere -/
theorem storeAt_frame {s s' : State} (hnd : ((allBufStates s).map (·.id)).Nodup)
    (hnd' : ((allBufStates s').map (·.id)).Nodup)
    (hids : ∀ i, (∃ b ∈ allBufStates s', b.id = i) ↔ (∃ b ∈ allBufStates s, b.id = i))
    (i : Nat) (b' : BufState) (hb' : b' ∈ allBufStates s') (hi : b'.id = i) : storeAt s' i = b'.store := by
  rw [← hi]; exact storeAt_of_mem hnd' hb'

theorem storeAt_frame_same {s s' : State} (hnd : ((allBufStates s).map (·.id)).Nodup)
    (hnd' : ((allBufStates s').map (·.id)).Nodup) (i : Nat)
    (hkeep : ∀ b ∈ allBufStates s, b.id = i → b ∈ allBufStates s')
    (hback : ∀ b ∈ allBufStates s', b.id = i → b ∈ allBufStates s) : storeAt s' i = storeAt s i := by
  by_cases h : ∃ b ∈ allBufStates s, b.id = i
  · obtain ⟨b, hb, rfl⟩ := h
    rw [storeAt_of_mem hnd hb, storeAt_of_mem hnd' (hkeep b hb rfl)]
  · have h1 : ∀ b ∈ allBufStates s, b.id ≠ i := fun b hb hbi => h ⟨b, hb, hbi⟩
    have h2 : ∀ b ∈ allBufStates s', b.id ≠ i := fun b hb hbi => h1 b (hback b hb hbi) hbi
    rw [storeAt_of_not_mem h1, storeAt_of_not_mem h2]

end JSL
