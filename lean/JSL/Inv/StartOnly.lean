import JSL.Inv.Effect
import JSL.Inv.EnvReach

/-!
# Only an accepted offer starts an operation

`NoStartSince s0 s`: every operation record of `s` that has left the status `IDLE` had already left
it in `s0` (records are identified by job id and `(job, idx)`, the key `replace_job_operation_state`
uses; under the structural invariant that key is unique within a job).

**As asked ("no step without an accepted offer starts an operation") the statement is false in the
model**: `create_timed_machine_transitions` itself creates IDLE → SETUP transitions for an idle
machine whose pre-buffer is not empty and releases in an order (FIFO, LIFO, DUMMY) – see
`machineSetupTransition`.  In such an instance machine starts are never offered
(`quiet_idle_pre_flex` in `Inv/Discipline.lean`) and happen by themselves, also inside a "decline"
step.  The statement holds exactly for the instances the offers are meant for: every machine
pre-buffer is a FLEX buffer (`PreFlex`).  Under that hypothesis:

* `timed_no_setup` – the timed batch contains no transition into SETUP, and (no hypothesis) the
  teleport batch contains only AGV dispatches (`filterTeleport_shape`);
* `idle_effect` – a transition other than "→ SETUP", applied to a state with the structural and the
  schedule invariant, takes no record out of `IDLE`;
* `smStep_starts_nothing` – a `state.step` whose action contains no "→ SETUP" transition (nothing at
  all, or an AGV dispatch) starts no operation: in the result, in every sub-state, after every
  applied transition;
* `mwStep_decline_starts_nothing`, `envStep_decline_starts_nothing`, `envStep_dispatch_starts_nothing`
  – the same for a declined offer (both branches of `_get_no_op_result`) and for an accepted AGV
  dispatch, in every environment state of every episode.

`a.tm ≠ jumpByOne` (part of `Admissible`) is needed because the invariants that make
SETUP → WORKING harmless (the machine in SETUP holds the job whose *running* record it is) are only
established for the time machines the middleware uses.
-/

namespace JSL

variable {orc : Oracle} {inst : Instance}

/-- every machine pre-buffer is a FLEX buffer: `get_next_job_from_buffer` names no job, so the
machine never starts by itself and the start is offered to the agent -/
def PreFlex (inst : Instance) : Prop := ∀ mc ∈ inst.machines, mc.pre.type = .flex

/-- every record of `s` that is not idle corresponds to a record of `s0` that is not idle -/
def NoStartSince (s0 s : State) : Prop :=
  ∀ j' ∈ s.jobs, ∀ o' ∈ j'.ops, o'.st ≠ .idle →
    ∃ j ∈ s0.jobs, j.id = j'.id ∧ ∃ o ∈ j.ops, o.job = o'.job ∧ o.idx = o'.idx ∧ o.st ≠ .idle

theorem NoStartSince.refl (s : State) : NoStartSince s s :=
  fun j' hj' o' ho' hn => ⟨j', hj', rfl, o', ho', rfl, rfl, hn⟩

theorem NoStartSince.trans {s0 s1 s2 : State} (h1 : NoStartSince s0 s1) (h2 : NoStartSince s1 s2) :
    NoStartSince s0 s2 := by
  intro j2 hj2 o2 ho2 hn
  obtain ⟨j1, hj1, e1, o1, ho1, k1, k2, hn1⟩ := h2 j2 hj2 o2 ho2 hn
  obtain ⟨j0, hj0, e0, o0, ho0, l1, l2, hn0⟩ := h1 j1 hj1 o1 ho1 hn1
  exact ⟨j0, hj0, by rw [e0, e1], o0, ho0, by rw [l1, k1], by rw [l2, k2], hn0⟩

theorem NoStartSince.time {s0 s : State} {t : Int} : NoStartSince s0 { s with time := t } ↔ NoStartSince s0 s :=
  Iff.rfl

/-- no transition of the batch leads into SETUP -/
def NoSetup (L : List Transition) : Prop := ∀ tr ∈ L, tr.new ≠ .m .setup

/-! ## (i) the batches the code builds -/

theorem machineTimedNext_ne_setup {st : MSt} : machineTimedNext st ≠ some .setup := by
  cases st <;> decide

theorem timedMachine_no_setup (w : WF inst) {s : State} (hs : Shape inst s) (hflex : PreFlex inst)
    {m : MachineState} (hm : m ∈ s.machines) {now : Int} {tr : Transition}
    (h : timedMachine inst now m = .ok (some tr)) : tr.new ≠ .m .setup := by
  unfold timedMachine at h
  split at h
  · rename_i ns hns
    have hns' : machineTimedNext m.st = some ns := by
      split at hns
      · exact hns
      · simp at hns
    cases hst : m.buffer.store with
    | nil => simp [hst] at h
    | cons j rest =>
      simp [hst] at h; subst h
      intro e
      simp at e; subst e
      exact machineTimedNext_ne_setup hns'
  · split at h
    · unfold machineSetupTransition at h
      split at h
      · obtain ⟨pc, hpc, h⟩ := except_bind_eq_ok h
        have hpc' := getBufCfg_ok hpc
        obtain ⟨mc, hmc, hk⟩ := hs.machine_cfg hm
        simp only [mKey, mcKey, Prod.mk.injEq] at hk
        have : pc = mc.pre := eq_of_mem_of_key_eq (key := fun (y : BufCfg) => y.id) w.bufNodup hpc'.1
          (mem_allBufCfgs_of_machine hmc).1 (by rw [hpc'.2, hk.2.1])
        have hsel : releaseSel pc.type = .none := by rw [this, hflex mc hmc]; rfl
        simp [nextJobFromBuffer, hsel] at h
      · simp at h
    · simp at h

/-- **(i)** with FLEX pre-buffers the timed batch contains no transition into SETUP -/
theorem timed_no_setup (w : WF inst) {s : State} (hI : StructInv inst s) (hS : SchedInv s) (hflex : PreFlex inst)
    {tt : List Transition} (htt : timedTransitions inst s = .ok tt) : NoSetup tt := by
  unfold timedTransitions at htt
  obtain ⟨a, ha, htt⟩ := except_bind_eq_ok htt
  obtain ⟨b, hb, htt⟩ := except_bind_eq_ok htt
  simp at htt; subst htt
  unfold timedMachineTransitions at ha
  unfold timedTransportTransitions at hb
  cases hra : s.machines.mapM (timedMachine inst s.time) with
  | error e => simp [hra] at ha
  | ok ra =>
    simp [hra] at ha; subst ha
    cases hrb : s.transports.mapM (timedTransport inst s) with
    | error e => simp [hrb] at hb
    | ok rb =>
      simp [hrb] at hb; subst hb
      intro tr htr
      rcases List.mem_append.mp htr with h | h
      · obtain ⟨x, hx, e⟩ := List.mem_filterMap.mp h
        simp at e; subst e
        obtain ⟨m, hm, hmm⟩ := (mapM_ok_mem hra).2 _ hx
        exact timedMachine_no_setup w hI.shape hflex hm hmm
      · obtain ⟨⟨ns, e⟩, _⟩ := timedTransports_spec (inst := inst) hS s.transports (fun t ht => ht) rb hrb tr h
        rw [e]; simp

/-- the teleport batch only contains transitions addressed to transports (no hypothesis needed) -/
theorem filterTeleport_comp {r : Rng} {s : State} {poss tele : List Transition}
    (h : filterTeleport orc inst r s poss = .ok tele) : ∀ tr ∈ tele, ∃ tid, tr.comp = .t tid := by
  unfold filterTeleport at h
  obtain ⟨l, hl, h⟩ := except_bind_eq_ok h
  simp at h; subst h
  intro tr htr
  have hf := filterE_ok hl tr (mem_teleportGreedy _ _ _ htr)
  obtain ⟨tt, _, hcond⟩ := except_bind_eq_ok hf.2
  simp at hcond
  cases hc : tr.comp with
  | t tid => exact ⟨tid, rfl⟩
  | m mid => rw [hc] at hcond; simp at hcond
  | b bid => rw [hc] at hcond; simp at hcond

/-! ## (ii) one transition -/

theorem machineHandlerOf_ok {st : MSt} {new : NewSt} {h : MHandler} (hh : machineHandlerOf st new = .ok h) :
    ∃ ns, new = .m ns ∧ machineHandler st ns = some h := by
  unfold machineHandlerOf at hh
  cases new with
  | t ns => simp at hh
  | m ns =>
    cases hm : machineHandler st ns with
    | none => simp [hm] at hh
    | some h' => simp [hm] at hh; subst hh; exact ⟨ns, rfl, hm⟩

/-- **(ii)** a transition other than "→ SETUP" takes no operation record out of `IDLE` -/
theorem idle_effect (w : WF inst) {s s' : State} {r r' : Rng} {tr : Transition} (hI : StructInv inst s)
    (hS : SchedInv s) (hn : tr.new ≠ .m .setup) (h : applyTransition orc inst s r tr = .ok (s', r')) :
    NoStartSince s s' := by
  have hjn := hI.shape.jobsNodup w
  have h0 := h
  -- a job replaced by one whose records are those of `j.replaceOp rec`, `rec` keyed like a busy record
  have key : ∀ (j J' : JobState) (op rec : OpState), j ∈ s.jobs → J'.id = j.id → J'.ops = (j.replaceOp rec).ops →
      op ∈ j.ops → op.st ≠ .idle → rec.job = op.job → rec.idx = op.idx → s'.jobs = (s.replaceJob J').jobs →
      NoStartSince s s' := by
    intro j J' op rec hj hid hops hop hopn hk1 hk2 hjobs j' hj' o' ho' hni
    rw [hjobs] at hj'
    rcases (mem_replaceJob hjn hj hid j').mp hj' with rfl | ⟨hj0, _⟩
    · rw [hops] at ho'
      rcases mem_replaceOp.mp ho' with ⟨rfl, _⟩ | ⟨ho0, _⟩
      · exact ⟨j, hj, hid.symm, op, hop, hk1.symm, hk2.symm, hopn⟩
      · exact ⟨j, hj, hid.symm, o', ho0, rfl, rfl, hni⟩
    · exact ⟨j', hj0, rfl, o', ho', rfl, rfl, hni⟩
  unfold applyTransition at h
  cases hc : tr.comp with
  | t tid =>
    obtain ⟨_, hj⟩ := agv_effect w hI hc h0
    intro j' hj' o' ho' hni
    obtain ⟨j, hj0, e1, e2⟩ := hj j' hj'
    exact ⟨j, hj0, e1, o', by rw [e2]; exact ho', rfl, rfl, hni⟩
  | b bid =>
    simp only [hc] at h
    obtain ⟨_, _, h⟩ := except_bind_eq_ok h
    simp at h
  | m mid =>
    simp only [hc] at h
    obtain ⟨m0, hm0, h⟩ := except_bind_eq_ok h
    unfold handleMachineTransition at h
    obtain ⟨m, hm, h⟩ := except_bind_eq_ok h
    obtain ⟨hd, hh, h⟩ := except_bind_eq_ok h
    obtain ⟨ns, hnew, hmh⟩ := machineHandlerOf_ok hh
    have hmem := getMachine_ok hm
    cases hd with
    | idleToSetup =>
      exfalso
      apply hn
      rw [hnew]
      revert hmh
      cases m.st <;> cases ns <;> simp [machineHandler]
    | setupToWorking =>
      have hst : m.st = .setup := by
        revert hmh
        cases m.st <;> cases ns <;> simp [machineHandler]
      obtain ⟨j, op, oc, d, hj, _, hin, hnn, _, hk1, hk2, _, rfl⟩ := setupToWorking_spec h
      obtain ⟨_, op0, hp0, _⟩ := busy_job hI hS w hmem.1 (by rw [hst]; simp) hj hin
      have hnn0 := nextNotDone_of_processing (hS.ops j hj) hp0
      have : op0 = op := by rw [hnn] at hnn0; simpa using hnn0.symm
      subst this
      obtain ⟨_, _, hl, _, hpr⟩ := processing?_split' hp0
      exact key j (j.replaceOp (opRec oc s.time (s.time + d) m.id)) op0 (opRec oc s.time (s.time + d) m.id) hj rfl rfl
        (by rw [hl]; simp) (by rw [hpr]; simp) hk1 hk2 rfl
    | workingToOutage =>
      obtain ⟨mc, outs, j, op, _, _, _, hj, _, hp, rfl⟩ := workingToOutage_spec h
      obtain ⟨_, _, hl, _, hpr⟩ := processing?_split' hp
      exact key j (j.replaceOp { op with stop := some (s.time + occupiedFor outs) }) op
        { op with stop := some (s.time + occupiedFor outs) } hj rfl rfl (by rw [hl]; simp) (by rw [hpr]; simp) rfl rfl rfl
    | outageToIdle =>
      obtain ⟨j, op, mc, rest, b1, b2, _, hj, hp, _, _, _, _, rfl⟩ := outageToIdle_spec h
      obtain ⟨_, _, hl, _, hpr⟩ := processing?_split' hp
      exact key j ((j.replaceOp { op with stop := some s.time, st := .done }).at m.post.id) op
        { op with stop := some s.time, st := .done } hj rfl rfl (by rw [hl]; simp) (by rw [hpr]; simp) rfl rfl rfl

/-! ## (iii) through `process_state_transitions`, the timed loop and `state.step` -/

/-- **The pass**: no record has left `IDLE` since `s0`, as long as no batch contains a "→ SETUP" -/
def StartOnlyPass (orc : Oracle) (inst : Instance) (cfg : SMConfig) (w : WF inst) (hflex : PreFlex inst) (s0 : State) :
    Pass orc inst cfg where
  P := NoStartSince s0
  GS := fun _ L => NoSetup L
  Adm := fun _ a => NoSetup a.transitions
  tail := fun h tr htr => h tr (List.mem_cons_of_mem _ htr)
  step := fun {s s' r r' tr R} hI hS hP _ _ _ hgs ha =>
    ⟨hP.trans (idle_effect w hI hS (hgs tr (by simp)) ha), fun x hx => hgs x (List.mem_cons_of_mem _ hx)⟩
  advance := fun _ _ hP _ _ => hP
  timed := fun {s tt poss tele r} hI hS _ htt hposs htele => by
    intro tr htr
    rcases List.mem_append.mp htr with h | h
    · exact timed_no_setup w hI hS hflex htt tr h
    · rw [filterTeleport_shape hposs htele tr h]; simp
  timedOnly := fun hI hS _ htt => timed_no_setup w hI hS hflex htt
  action := fun _ _ _ hadm tr htr => hadm tr (mem_sortedByTransport htr)

variable {cfg : SMConfig}

/-- **T3 at the state machine.**  For an instance with FLEX pre-buffers, from a state with the
structural and the schedule invariant: a `state.step` whose action contains no transition into SETUP
(in particular the empty action of a declined offer, or an AGV dispatch) starts no operation – in
the returned state, in every sub-state and right after every transition it applies. -/
theorem smStep_starts_nothing (w : WF inst) (nn : NonNeg orc inst) (hflex : PreFlex inst) {fuel : Nat} {s0 : State}
    {r : Rng} {a : Action} {res : SMResult} {r' : Rng} {mic : List State} (hI : StructInv inst s0) (hS : SchedInv s0)
    (ha : Admissible a) (hns : NoSetup a.transitions)
    (h : smStep orc inst cfg fuel s0 r a = .ok (res, r', mic)) :
    NoStartSince s0 res.state ∧ (∀ σ ∈ res.subStates, NoStartSince s0 σ) ∧ (∀ σ ∈ mic, NoStartSince s0 σ) := by
  obtain ⟨h1, h2, ⟨t, h3⟩, _⟩ := (StartOnlyPass orc inst cfg w hflex s0).smStep w nn hI hS (NoStartSince.refl s0) ha hns h
  exact ⟨h3, h2, h1⟩

theorem NoSetup.nil : NoSetup [] := fun _ h => by cases h

theorem admissible_of_nil {a : Action} (hnil : a.transitions = []) (htm : a.tm ≠ .jumpByOne) : Admissible a :=
  ⟨fun tr htr => (by rw [hnil] at htr; cases htr), htm⟩

/-- the form asked for: the empty action -/
theorem smStep_empty_starts_nothing (w : WF inst) (nn : NonNeg orc inst) (hflex : PreFlex inst) {fuel : Nat}
    {s0 : State} {r : Rng} {a : Action} {res : SMResult} {r' : Rng} {mic : List State} (hI : StructInv inst s0)
    (hS : SchedInv s0) (htm : a.tm ≠ .jumpByOne) (hnil : a.transitions = [])
    (h : smStep orc inst cfg fuel s0 r a = .ok (res, r', mic)) :
    ∀ j' ∈ res.state.jobs, ∀ o' ∈ j'.ops, o'.st ≠ .idle →
      ∃ j ∈ s0.jobs, j.id = j'.id ∧ ∃ o ∈ j.ops, o.job = o'.job ∧ o.idx = o'.idx ∧ o.st ≠ .idle :=
  (smStep_starts_nothing w nn hflex hI hS (admissible_of_nil hnil htm) (hnil ▸ NoSetup.nil) h).1

/-! ## idle records stay idle -/

/-- the converse reading, for two states of the same instance: every idle record is still idle -/
theorem NoStartSince.idle_stays (w : WF inst) {s0 s : State} (h : NoStartSince s0 s) (hs0 : Shape inst s0)
    (hs : Shape inst s) :
    ∀ j ∈ s0.jobs, ∀ o ∈ j.ops, o.st = .idle →
      ∃ j' ∈ s.jobs, j'.id = j.id ∧ ∃ o' ∈ j'.ops, o'.job = o.job ∧ o'.idx = o.idx ∧ o'.st = .idle := by
  intro j hj o ho hidle
  have hkeys : s.jobs.map jKey = s0.jobs.map jKey := by rw [hs.jobs, hs0.jobs]
  obtain ⟨j', hj', hk⟩ := mem_of_map_eq hkeys.symm hj
  simp only [jKey, Prod.mk.injEq] at hk
  obtain ⟨o', ho', hko⟩ := mem_of_map_eq hk.2 ho
  simp only [opKey, Prod.mk.injEq] at hko
  refine ⟨j', hj', hk.1.symm, o', ho', hko.1.symm, hko.2.1.symm, ?_⟩
  apply Classical.byContradiction
  intro hne
  obtain ⟨j2, hj2, e2, o2, ho2, k1, k2, hn2⟩ := h j' hj' o' ho' hne
  have : j2 = j := eq_of_mem_of_key_eq (key := fun (y : JobState) => y.id) (hs0.jobsNodup w) hj2 hj (by rw [e2, hk.1])
  subst this
  have : o2 = o := eq_of_mem_of_key_eq (key := fun (y : OpState) => y.idx) (hs0.ops_idx_nodup w hj2) ho2 ho
    (by rw [k2, hko.2.1])
  subst this
  exact hn2 hidle

/-! ## middleware and environment -/

variable {mc : MwCfg} {fuel : Nat}

/-- **T3 at the middleware**, both branches of `_get_no_op_result`: a declined offer starts nothing -/
theorem mwStep_decline_starts_nothing (w : WF inst) (nn : NonNeg orc inst) (hflex : PreFlex inst) {res : SMResult}
    {m : MwState} {r : Rng} {out : SMResult × MwState × Rng × List State} (hI : StructInv inst res.state)
    (hS : SchedInv res.state) (h : mwStep orc inst cfg mc fuel res m r .decline = .ok out) :
    NoStartSince res.state out.1.state ∧ (∀ σ ∈ out.2.2.2, NoStartSince res.state σ) := by
  rcases mwStep_cases h with ⟨_, _, _, _, _, e1, _, _, _, _, e6, _⟩ | ⟨act, _, hk, hs⟩
  · rw [e1, e6]
    exact ⟨NoStartSince.refl _, fun σ hσ => by cases hσ⟩
  · rcases hk with ⟨hacc, _⟩ | ⟨_, htm, hnil, _⟩
    · cases hacc
    · have := smStep_starts_nothing w nn hflex hI hS (admissible_of_nil hnil (by rw [htm]; simp))
        (hnil ▸ NoSetup.nil) hs
      exact ⟨this.1, this.2.2⟩

/-- a middleware step whose head offer is no machine start (declined or accepted) starts nothing -/
theorem mwStep_dispatch_starts_nothing (w : WF inst) (nn : NonNeg orc inst) (hflex : PreFlex inst) {res : SMResult}
    {m : MwState} {r : Rng} {a : AgentAct} {out : SMResult × MwState × Rng × List State} (hI : StructInv inst res.state)
    (hS : SchedInv res.state) (hshape : ∀ tr ∈ res.possible, OfferShaped tr)
    (hhead : ∀ tr ∈ res.possible.head?, tr.new ≠ .m .setup)
    (h : mwStep orc inst cfg mc fuel res m r a = .ok out) :
    NoStartSince res.state out.1.state ∧ (∀ σ ∈ out.2.2.2, NoStartSince res.state σ) := by
  rcases mwStep_cases h with ⟨_, _, _, _, _, e1, _, _, _, _, e6, _⟩ | ⟨act, hsub, hk, hs⟩
  · rw [e1, e6]
    exact ⟨NoStartSince.refl _, fun σ hσ => by cases hσ⟩
  · have hns : NoSetup act.transitions := fun tr htr => hhead tr (hsub tr htr)
    have ha : Admissible act := by
      refine ⟨fun tr htr => hshape tr ?_, ?_⟩
      · have := hsub tr htr
        cases hp : res.possible with
        | nil => rw [hp] at this; simp at this
        | cons x xs => rw [hp] at this; simp at this; rw [this]; simp
      · rcases hk with ⟨_, e, _⟩ | ⟨_, e, _⟩ <;> rw [e] <;> simp
    have := smStep_starts_nothing w nn hflex hI hS ha hns hs
    exact ⟨this.1, this.2.2⟩

/-- **T3 along every episode.**  For an instance with FLEX pre-buffers, in every environment state
of every episode: `env.step(0)` – whether it only drops the head offer or runs the state machine
with the forced jump – starts no operation, neither in the state the environment holds afterwards
nor right after any transition applied inside the step. -/
theorem envStep_decline_starts_nothing {ec : EnvCfg} {st : RewardStatic} {s0 : State} (hst : Start orc inst s0)
    (hflex : PreFlex inst) {e : EnvState} (hr : EnvReach orc inst ec st s0 e) {out : StepOut}
    (h : envStep orc inst ec st e .decline = .ok out) :
    NoStartSince e.res.state out.env.res.state ∧ (∀ σ ∈ out.micro, NoStartSince e.res.state σ) := by
  have hi := envReach_inv hst hr
  have nn := nonnegB_sound hst.samples hst.nonneg
  unfold envStep at h
  split at h
  · simp at h
  · obtain ⟨⟨res', mw, r, mic⟩, hm, h⟩ := except_bind_eq_ok h
    simp only at h
    obtain ⟨⟨rew, cnt⟩, _, h⟩ := except_bind_eq_ok h
    simp at h; subst h
    have hne : e.res.possible ≠ [] := by
      intro h0
      simp [mwStep, interpret, h0] at hm
    obtain ⟨w, hI, hS⟩ := occursA_inv hst (hi.live hne).1
    have key := mwStep_decline_starts_nothing w nn hflex hI hS hm
    by_cases hsuc : res'.success = true
    · simp only [hsuc, if_true]; exact key
    · simp only [hsuc]; exact ⟨NoStartSince.refl _, key.2⟩

/-- the same for any agent action while the head offer is an AGV dispatch: accepting a dispatch
starts no operation either -/
theorem envStep_dispatch_starts_nothing {ec : EnvCfg} {st : RewardStatic} {s0 : State} (hst : Start orc inst s0)
    (hflex : PreFlex inst) {e : EnvState} (hr : EnvReach orc inst ec st s0 e) {a : AgentAct} {out : StepOut}
    (hhead : ∀ tr ∈ e.res.possible.head?, tr.new ≠ .m .setup)
    (h : envStep orc inst ec st e a = .ok out) :
    NoStartSince e.res.state out.env.res.state ∧ (∀ σ ∈ out.micro, NoStartSince e.res.state σ) := by
  have hi := envReach_inv hst hr
  have nn := nonnegB_sound hst.samples hst.nonneg
  unfold envStep at h
  split at h
  · simp at h
  · obtain ⟨⟨res', mw, r, mic⟩, hm, h⟩ := except_bind_eq_ok h
    simp only at h
    obtain ⟨⟨rew, cnt⟩, _, h⟩ := except_bind_eq_ok h
    simp at h; subst h
    have hne : e.res.possible ≠ [] := by
      intro h0
      simp [mwStep, interpret, h0] at hm
    obtain ⟨w, hI, hS⟩ := occursA_inv hst (hi.live hne).1
    have key := mwStep_dispatch_starts_nothing w nn hflex hI hS (hi.live hne).2 hhead hm
    by_cases hsuc : res'.success = true
    · simp only [hsuc, if_true]; exact key
    · simp only [hsuc]; exact ⟨NoStartSince.refl _, key.2⟩

end JSL
