import JSL.Inv.ClassicTotalDefs
import JSL.Inv.ClassicMachTotal
import JSL.Inv.ClassicAgvTotalA
import JSL.Inv.DeclineTo

/-!
# The totality plumbing: `state.step` returns

For a pass `ps` with `TotalHyp ps μ B Q` the three lemmas below mirror `Pass.process`, `Pass.loop`
and `Pass.smStep`; instead of assuming that the computation returned `.ok` they prove it, and they
carry the pass invariant, the measure `μ` and the property `Q` along.
-/

namespace JSL

variable {orc : Oracle} {inst : Instance} {cfg : SMConfig}

/-- **`process_state_transitions` returns** on a guarded batch without machine starts: no validation
error, the invariants and `Q` hold afterwards, the clock is untouched, and when the batch has no
dispatch the measure went down by at least its length. -/
theorem process_total (ps : Pass orc inst cfg) {μ : State → Nat} {B : Nat} {Q : State → Prop}
    (hT : TotalHyp ps μ B Q) (w : WF inst) (nn : NonNeg orc inst) :
    ∀ (L : List Transition) (s : State) (r : Rng), StructInv inst s → SchedInv s → ps.P s → Safe s L → Fresh L →
      ps.GS s L → (∀ tr ∈ L, tr.new ≠ .m .setup) → Q s →
      ∃ o, processTransitions orc inst L s r = .ok o ∧ o.nerr = 0 ∧ StructInv inst o.state ∧ SchedInv o.state ∧
        ps.P o.state ∧ Q o.state ∧ o.state.time = s.time ∧
        ((∀ tr ∈ L, tr.new ≠ .t .working) → μ o.state + L.length ≤ μ s) := by
  intro L
  induction L with
  | nil =>
    intro s r hI hS hP _ _ _ _ hQ
    exact ⟨⟨s, r, 0, []⟩, by simp [processTransitions], rfl, hI, hS, hP, hQ, rfl, fun _ => by simp⟩
  | cons tr L ih =>
    intro s r hI hS hP hsafe hfresh hgs hns hQ
    have hne : tr.new ≠ .m .setup := hns tr (by simp)
    obtain ⟨hv, s1, r1, ha⟩ := hT.apply r hI hS hP hgs hne
    have hI1 := applyTransition_struct w hI hv ha
    have hS1 := applyTransition_sched w nn hI hS hv hsafe.guard ha
    have hfr := applyTransition_frame w hI hS hsafe.guard ha
    have hP1 := ps.step hI hS hP hv hsafe hfresh hgs ha
    have hQ1 := hT.q_step hI hS hP hgs hne ha hQ
    obtain ⟨o1, ho1, hn1, hIo, hSo, hPo, hQo, hto, hμo⟩ :=
      ih s1 r1 hI1 hS1 hP1.1 (hsafe.step hfresh hfr) (List.pairwise_cons.mp hfresh).2 hP1.2
        (fun t ht => hns t (by simp [ht])) hQ1
    refine ⟨{ o1 with micro := s1 :: o1.micro }, ?_, hn1, hIo, hSo, hPo, hQo, ?_, ?_⟩
    · simp only [processTransitions, hv, ha, ho1, except_bind_ok, except_pure, if_true]
    · show o1.state.time = s.time
      rw [hto, applyTransition_time ha]
    · intro hnd
      have h1 := hT.μ_step hI hS hP hgs hne (hnd tr (by simp)) ha
      have h2 := hμo (fun t ht => hnd t (by simp [ht]))
      show μ o1.state + (tr :: L).length ≤ μ s
      simp only [List.length_cons]
      omega

/-- `jump_to_event` returns in a state satisfying the invariants, and `Q` survives the jump -/
theorem jumpToEvent_total (ps : Pass orc inst cfg) {μ : State → Nat} {B : Nat} {Q : State → Prop}
    (hT : TotalHyp ps μ B Q) {s : State} (hI : StructInv inst s) (hS : SchedInv s) (hP : ps.P s) (hQ : Q s) :
    ∃ t, jumpToEvent inst cfg s = .ok t ∧ Q { s with time := t } := by
  obtain ⟨n, hn⟩ := hT.count hI hS hP
  cases n with
  | succ k =>
    exact ⟨s.time, by unfold jumpToEvent; simp [hn], hQ⟩
  | zero =>
    obtain ⟨t, ht⟩ := hT.force hI hS hP
    exact ⟨t, by unfold jumpToEvent; simp [hn, ht], hT.q_jump hI hS hP hQ hn ht⟩

/-- **The `while timed_transitions` loop returns** without failure.  The batch `tt` is guarded and
contains no machine start; either it contains no dispatch and the fuel exceeds the measure of the
current state, or the fuel is at least `B + 2` (the first batch of `state.step`, which may contain
teleport dispatches). -/
theorem loop_total (ps : Pass orc inst cfg) {μ : State → Nat} {B : Nat} {Q : State → Prop}
    (hT : TotalHyp ps μ B Q) (w : WF inst) (nn : NonNeg orc inst) :
    ∀ (fuel : Nat) (tt : List Transition) (s : State) (r : Rng) (subs mic : List State),
      StructInv inst s → SchedInv s → ps.P s → Q s → Safe s tt → Fresh tt → ps.GS s tt →
      (∀ tr ∈ tt, tr.new ≠ .m .setup) →
      ((∀ tr ∈ tt, tr.new ≠ .t .working) ∧ μ s < fuel ∨ B + 2 ≤ fuel) →
      ∃ out, timedLoop orc inst cfg fuel tt s r subs mic = .ok out ∧ out.failed = false ∧
        StructInv inst out.state ∧ SchedInv out.state ∧ ps.P out.state ∧ Q out.state ∧ s.time ≤ out.state.time := by
  intro fuel
  induction fuel with
  | zero =>
    intro tt s r subs mic hI hS hP hQ _ _ _ _ hfuel
    cases tt with
    | nil => exact ⟨⟨s, r, subs, false, mic⟩, by simp [timedLoop], rfl, hI, hS, hP, hQ, Int.le_refl _⟩
    | cons a as => omega
  | succ n ih =>
    intro tt s r subs mic hI hS hP hQ hsafe hfresh hgs hns hfuel
    cases tt with
    | nil => exact ⟨⟨s, r, subs, false, mic⟩, by simp [timedLoop], rfl, hI, hS, hP, hQ, Int.le_refl _⟩
    | cons a as =>
      obtain ⟨o, ho, hn0, hIo, hSo, hPo, hQo, hto, hμo⟩ :=
        process_total ps hT w nn (a :: as) s r hI hS hP hsafe hfresh hgs hns hQ
      obtain ⟨t, ht, hQt⟩ := jumpToEvent_total ps hT hIo hSo hPo hQo
      have hadv := jumpToEvent_spec hSo ht
      have hS' := hSo.advance hadv.1 hadv.2
      have hI' := hIo.time t
      have hP' := ps.advance hIo hSo hPo hadv.1 hadv.2
      obtain ⟨tt', htt'⟩ := hT.timed hI' hS' hP'
      have hsf := timed_batch_safe w (tele := []) hI' hS' htt' (by simp)
      simp only [List.append_nil] at hsf
      have hμ' : μ { o.state with time := t } < n := by
        rw [hT.μ_time]
        rcases hfuel with ⟨hnd, hlt⟩ | hB
        · have := hμo hnd
          simp only [List.length_cons] at this
          omega
        · have := hT.μ_le (s := o.state) hIo
          omega
      obtain ⟨out, hout, hf, hIout, hSout, hPout, hQout, htout⟩ :=
        ih tt' { o.state with time := t } o.rng (subs ++ [{ o.state with time := t }]) (mic ++ o.micro)
          hI' hS' hP' hQt hsf.1 hsf.2 (ps.timedOnly hI' hS' hP' htt') (hT.noStartTimed hI' hS' htt')
          (Or.inl ⟨hT.noDispatchTimed hS' htt', hμ'⟩)
      refine ⟨out, ?_, hf, hIout, hSout, hPout, hQout, ?_⟩
      · simp only [timedLoop, ho, except_bind_ok, hn0, Nat.lt_irrefl, ht, htt']
        simpa using hout
      · have : s.time ≤ t := by rw [← hto]; exact hadv.1
        exact Int.le_trans this htout

/-- the loop on a purely timed batch, with fuel exceeding the measure -/
theorem loop_total_timed (ps : Pass orc inst cfg) {μ : State → Nat} {B : Nat} {Q : State → Prop}
    (hT : TotalHyp ps μ B Q) (w : WF inst) (nn : NonNeg orc inst)
    (fuel : Nat) (tt : List Transition) (s : State) (r : Rng) (subs mic : List State)
    (hI : StructInv inst s) (hS : SchedInv s) (hP : ps.P s) (hQ : Q s) (hsafe : Safe s tt) (hfresh : Fresh tt)
    (hgs : ps.GS s tt) (hns : ∀ tr ∈ tt, tr.new ≠ .m .setup) (hnd : ∀ tr ∈ tt, tr.new ≠ .t .working)
    (hfuel : μ s < fuel) :
    ∃ out, timedLoop orc inst cfg fuel tt s r subs mic = .ok out ∧ out.failed = false ∧
      StructInv inst out.state ∧ SchedInv out.state ∧ ps.P out.state ∧ Q out.state ∧ s.time ≤ out.state.time :=
  loop_total ps hT w nn fuel tt s r subs mic hI hS hP hQ hsafe hfresh hgs hns (Or.inl ⟨hnd, hfuel⟩)

/-- the batch of the action: nothing, or one transition that passes validation and applies -/
theorem action_batch_total {s0 : State} {r : Rng} {a : Action}
    (hact : a.transitions = [] ∨ ∃ tr, a.transitions = [tr] ∧ transitionValid s0 tr = .ok true ∧
        ∃ s' r', applyTransition orc inst s0 r tr = .ok (s', r')) :
    ∃ p, processTransitions orc inst (sortedByTransport a.transitions) s0 r = .ok p ∧ p.nerr = 0 := by
  rcases hact with e | ⟨tr, e, hv, s', r', happ⟩
  · rw [e, sortedByTransport_nil]
    exact ⟨⟨s0, r, 0, []⟩, by simp [processTransitions], rfl⟩
  · rw [e, sortedByTransport_single]
    exact ⟨⟨s', r', 0, [s']⟩, by simp [processTransitions, hv, happ], rfl⟩

/-- **`state.step` returns, successfully.**  From a state satisfying the invariants, with an
admissible action that is empty or a single applicable transition, and fuel `≥ B + 2`. -/
theorem smStep_total (ps : Pass orc inst cfg) {μ : State → Nat} {B : Nat} {Q : State → Prop}
    (hT : TotalHyp ps μ B Q) (w : WF inst) (nn : NonNeg orc inst)
    {fuel : Nat} {s0 : State} {r : Rng} {a : Action} (hI : StructInv inst s0) (hS : SchedInv s0) (hP : ps.P s0)
    (ha : Admissible a) (hadm : ps.Adm s0 a) (hfuel : B + 2 ≤ fuel)
    -- the action is empty, or a single transition that passes validation and applies
    (hact : a.transitions = [] ∨ ∃ tr, a.transitions = [tr] ∧ transitionValid s0 tr = .ok true ∧
        ∃ s' r', applyTransition orc inst s0 r tr = .ok (s', r'))
    -- `Q` right after the action (the caller's business: this is where a machine start may happen)
    (hQa : a.tm = .jumpToEvent → ∀ p, processTransitions orc inst (sortedByTransport a.transitions) s0 r = .ok p →
        Q p.state)
    (hQb : a.tm = .forceJump → ∀ p t, processTransitions orc inst (sortedByTransport a.transitions) s0 r = .ok p →
        forceJump p.state = .ok t → Q { p.state with time := t }) :
    ∃ res r' mic, smStep orc inst cfg fuel s0 r a = .ok (res, r', mic) ∧ res.success = true ∧
      (∃ t, Q { res.state with time := t }) ∧ (res.done = false → Q res.state) ∧
      StructInv inst res.state ∧ (res.done = false → SchedInv res.state ∧ ps.P res.state) := by
  obtain ⟨p, hp, hn0⟩ := action_batch_total (orc := orc) (inst := inst) hact
  have hsf := offerShaped_safe (s := s0) (L := sortedByTransport a.transitions)
    (fun tr htr => ha.shaped tr (mem_sortedByTransport htr))
  have hp' := processTransitions_sched w nn _ _ _ _ hI hS hsf.1 hsf.2 hp
  have hpI := processTransitions_struct w _ _ _ _ hI hp
  have hpP := ps.process w nn _ _ _ _ hI hS hP hsf.1 hsf.2 (ps.action hI hS hP hadm) hp
  -- the time machine
  have htm : ∃ t, runTimeMachine inst cfg p.state a.tm = .ok t ∧ Q { p.state with time := t } := by
    cases htmk : a.tm with
    | jumpByOne => exact absurd htmk ha.tm
    | jumpToEvent =>
      obtain ⟨t, ht, hQt⟩ := jumpToEvent_total ps hT hpI.1 hp'.1 hpP.1 (hQa htmk p hp)
      exact ⟨t, by simpa [runTimeMachine] using ht, hQt⟩
    | forceJump =>
      obtain ⟨t, ht⟩ := hT.force hpI.1 hp'.1 hpP.1
      exact ⟨t, by simpa [runTimeMachine] using ht, hQb htmk p t hp ht⟩
  obtain ⟨t, ht, hQ1⟩ := htm
  have hadv := runTimeMachine_spec hp'.1 ha.tm ht
  have hS1 := hp'.1.advance hadv.1 hadv.2
  have hI1 := hpI.1.time t
  have hP1 := ps.advance hpI.1 hp'.1 hpP.1 hadv.1 hadv.2
  obtain ⟨timed, htimed⟩ := hT.timed hI1 hS1 hP1
  obtain ⟨poss, hposs⟩ := hT.poss hI1 hS1 hP1
  obtain ⟨tele, htele⟩ := hT.tele p.rng hI1 hS1 hP1 hposs
  have hbatch := timed_batch_safe w hI1 hS1 htimed (filterTeleport_shape hposs htele)
  have hns : ∀ tr ∈ timed ++ tele, tr.new ≠ .m .setup := by
    intro tr htr
    rcases List.mem_append.mp htr with h | h
    · exact hT.noStartTimed hI1 hS1 htimed tr h
    · exact hT.noStartTele hposs htele tr h
  obtain ⟨out, hout, hf, hIo, hSo, hPo, hQo, _⟩ :=
    loop_total ps hT w nn fuel (timed ++ tele) { p.state with time := t } p.rng [p.state] p.micro
      hI1 hS1 hP1 hQ1 hbatch.1 hbatch.2 (ps.timed hI1 hS1 hP1 htimed hposs htele) hns (Or.inr hfuel)
  cases hd : isDone inst out.state with
  | true =>
    obtain ⟨e, he⟩ := hT.lastDone hSo
    refine ⟨{ state := (match e with | some e => { out.state with time := e } | none => out.state),
              subStates := out.subs.dropLast, action := a, success := true, done := true, possible := [] },
            out.rng, out.micro, ?_, rfl, ⟨out.state.time, ?_⟩, by simp, ?_, by simp⟩
    · simp only [smStep, hp, except_bind_ok, hn0, Nat.lt_irrefl, ht, htimed, hposs, htele, hout, hf, hd, he]
      simp
      cases e <;> rfl
    · cases e <;> exact hQo
    · cases e with
      | none => exact hIo
      | some e => exact hIo.time e
  | false =>
    obtain ⟨poss', hposs'⟩ := hT.poss hIo hSo hPo
    refine ⟨{ state := out.state, subStates := out.subs.dropLast, action := a, success := true, done := false,
              possible := poss' }, out.rng, out.micro, ?_, rfl, ⟨out.state.time, hQo⟩, fun _ => hQo, hIo,
            fun _ => ⟨hSo, hPo⟩⟩
    simp only [smStep, hp, except_bind_ok, hn0, Nat.lt_irrefl, ht, htimed, hposs, htele, hout, hf, hd, hposs']
    simp

/-! ## The environment level: from a returned `state.step` to a returned `env.step` -/

/-- the reward factory returns when the episode is not truncated, there are operations, and the
normalising span `tmax - lb` is not zero -/
theorem rewardMake_total (rc : RewardCfg) {st : RewardStatic} (cnt : Nat) (res : SMResult) (terminated : Bool)
    (hops : st.numOps ≠ 0) (hden : st.tmax - st.lb ≠ 0) :
    ∃ rew cnt', rewardMake rc st cnt res terminated false = .ok (rew, cnt') := by
  unfold rewardMake sparseReward denseReward
  cases terminated <;> simp [hops, hden]

/-- **From a returned middleware step to a returned `env.step`.** -/
theorem envStep_of_mwStep {ec : EnvCfg} {st : RewardStatic} {e : EnvState} {a : AgentAct}
    {res' : SMResult} {mw : MwState} {r : Rng} {mic : List State} (hd : e.done = false)
    (hm : mwStep orc inst ec.sm ec.mw ec.fuel e.res e.mw e.rng a = .ok (res', mw, r, mic))
    (hsuc : res'.success = true) (hj : 0 ≤ mw.joker) (hops : st.numOps ≠ 0) (hden : st.tmax - st.lb ≠ 0) :
    ∃ out, envStep orc inst ec st e a = .ok out ∧ out.env.res = res' ∧ out.env.truncated = false ∧
      out.env.terminated = isDone inst res'.state ∧ out.env.done = isDone inst res'.state ∧
      out.env.mw = mw ∧ out.env.rng = r ∧ out.micro = mic ∧ out.obsRes = res' ∧
      out.obsDone = res'.possible.isEmpty ∧ out.env.histLen = e.histLen + 1 ∧
      out.makespan = (if isDone inst res'.state then some res'.state.time else none) := by
  obtain ⟨rew, cnt', hrew⟩ := rewardMake_total ec.rw e.rwCnt res' (isDone inst res'.state) hops hden
  have hjk : decide (mw.joker < 0) = false := by simp; omega
  have hE : envStep orc inst ec st e a = .ok
      { env := { e with res := res', histLen := e.histLen + 1,
                        histNoOps := e.histNoOps + (if res'.action.transitions.isEmpty then 1 else 0),
                        lastNoOp := res'.action.transitions.isEmpty, terminated := isDone inst res'.state,
                        truncated := false, mw := mw, rng := r, done := isDone inst res'.state, rwCnt := cnt' },
        obsRes := res', obsDone := res'.possible.isEmpty, reward := rew,
        makespan := if isDone inst res'.state then some res'.state.time else none, micro := mic } := by
    unfold envStep
    simp only [hd, Bool.false_eq_true, if_false, hm, except_bind_ok, hsuc, if_true, hjk, Bool.or_false, hrew,
      except_pure]
  exact ⟨_, hE, rfl, rfl, rfl, rfl, rfl, rfl, rfl, rfl, rfl, rfl, rfl⟩

/-- the middleware step of an accepted offer returns when the `state.step` it runs does -/
theorem mwStep_accept_of_smStep {mc : MwCfg} {fuel : Nat} {res : SMResult} {m : MwState} {r : Rng}
    {tr : Transition} {rest : List Transition} (hp : res.possible = tr :: rest)
    {res' : SMResult} {r' : Rng} {mic : List State}
    (hs : smStep orc inst cfg fuel res.state r { transitions := [tr], noOp := false, tm := .jumpToEvent } =
      .ok (res', r', mic)) :
    mwStep orc inst cfg mc fuel res m r .accept = .ok (res', { m with actCnt := m.actCnt + 1 }, r', mic) := by
  simp [mwStep, interpret, hp, MwState.addOp, hs]

/-- the middleware step declining the last offer returns when the `state.step` it runs does and the
result has offers or the shop is done -/
theorem mwStep_decline_last_of_smStep {mc : MwCfg} {fuel : Nat} {res : SMResult} {m : MwState} {r : Rng}
    {tr : Transition} (hp : res.possible = [tr]) (htr : mc.truncActive = false)
    {res' : SMResult} {r' : Rng} {mic : List State}
    (hs : smStep orc inst cfg fuel res.state r { transitions := [], noOp := true, tm := .forceJump } =
      .ok (res', r', mic))
    (hlive : res'.possible ≠ [] ∨ isDone inst res'.state = true) :
    ∃ m', mwStep orc inst cfg mc fuel res m r .decline = .ok (res', m', r', mic) ∧ m'.joker = m.joker := by
  by_cases he : res'.possible = []
  · have hdn : isDone inst res'.state = true := by
      rcases hlive with h | h
      · exact absurd he h
      · exact h
    exact ⟨{ m with noOpCnt := m.noOpCnt + 1 },
      by simp [mwStep, interpret, hp, MwState.addOp, noOpAction, noOpResult, hs, he, hdn], rfl⟩
  · refine ⟨_, by simp [mwStep, interpret, hp, MwState.addOp, noOpAction, noOpResult, hs, he, htr]; rfl, ?_⟩
    simp

/-- accepting the head offer: `env.step` returns when the `state.step` it runs returns successfully -/
theorem envStep_accept_of_smStep {ec : EnvCfg} {st : RewardStatic} {e : EnvState}
    (hd : e.done = false) (hops : st.numOps ≠ 0) (hden : st.tmax - st.lb ≠ 0) (hj : 0 ≤ e.mw.joker)
    {tr : Transition} {rest : List Transition} (hp : e.res.possible = tr :: rest)
    {res' : SMResult} {r' : Rng} {mic : List State}
    (hs : smStep orc inst ec.sm ec.fuel e.res.state e.rng { transitions := [tr], noOp := false, tm := .jumpToEvent } =
      .ok (res', r', mic)) (hsuc : res'.success = true) :
    ∃ out, envStep orc inst ec st e .accept = .ok out ∧ out.env.res = res' ∧ out.env.truncated = false ∧
      out.env.terminated = isDone inst res'.state ∧ out.env.done = isDone inst res'.state ∧
      out.env.mw.joker = e.mw.joker ∧ out.env.rng = r' ∧ out.micro = mic ∧ out.obsRes = res' ∧
      out.makespan = (if isDone inst res'.state then some res'.state.time else none) := by
  have hm := mwStep_accept_of_smStep (mc := ec.mw) (m := e.mw) hp hs
  obtain ⟨out, hout, e1, e2, e3, e4, e5, e6, e7, e8, _, _, e11⟩ :=
    envStep_of_mwStep (st := st) hd hm hsuc hj hops hden
  exact ⟨out, hout, e1, e2, e3, e4, by rw [e5], e6, e7, e8, e11⟩

/-- declining the last offer: `env.step` returns when the `state.step` it runs returns successfully
with offers or with the shop done -/
theorem envStep_decline_last_of_smStep {ec : EnvCfg} {st : RewardStatic} {e : EnvState}
    (hd : e.done = false) (hops : st.numOps ≠ 0) (hden : st.tmax - st.lb ≠ 0) (hj : 0 ≤ e.mw.joker)
    (htr : ec.mw.truncActive = false) {tr : Transition} (hp : e.res.possible = [tr])
    {res' : SMResult} {r' : Rng} {mic : List State}
    (hs : smStep orc inst ec.sm ec.fuel e.res.state e.rng { transitions := [], noOp := true, tm := .forceJump } =
      .ok (res', r', mic)) (hsuc : res'.success = true)
    (hlive : res'.possible ≠ [] ∨ isDone inst res'.state = true) :
    ∃ out, envStep orc inst ec st e .decline = .ok out ∧ out.env.res = res' ∧ out.env.truncated = false ∧
      out.env.terminated = isDone inst res'.state ∧ out.env.done = isDone inst res'.state ∧
      out.env.mw.joker = e.mw.joker ∧ out.env.rng = r' ∧ out.micro = mic ∧ out.obsRes = res' ∧
      out.makespan = (if isDone inst res'.state then some res'.state.time else none) := by
  obtain ⟨m', hm, hjm⟩ := mwStep_decline_last_of_smStep (mc := ec.mw) (m := e.mw) hp htr hs hlive
  obtain ⟨out, hout, e1, e2, e3, e4, e5, e6, e7, e8, _, _, e11⟩ :=
    envStep_of_mwStep (st := st) hd hm hsuc (by rw [hjm]; exact hj) hops hden
  exact ⟨out, hout, e1, e2, e3, e4, by rw [e5, hjm], e6, e7, e8, e11⟩

/-- declining with at least two offers held: `env.step` returns (no `state.step` is run) -/
theorem envStep_decline_many_total {ec : EnvCfg} {st : RewardStatic} {e : EnvState}
    (hd : e.done = false) (hops : st.numOps ≠ 0) (hden : st.tmax - st.lb ≠ 0) (hj : 0 ≤ e.mw.joker)
    {o o' : Transition} {rest : List Transition} (hp : e.res.possible = o :: o' :: rest) :
    ∃ out, envStep orc inst ec st e .decline = .ok out ∧
      out.env.res = { state := e.res.state, subStates := e.res.subStates, action := noOpAction, success := true,
                      done := false, possible := o' :: rest } ∧
      out.env.truncated = false ∧ out.env.terminated = isDone inst e.res.state ∧
      out.env.done = isDone inst e.res.state ∧ out.env.mw.joker = e.mw.joker ∧ out.env.rng = e.rng ∧
      out.micro = [] ∧ out.makespan = (if isDone inst e.res.state then some e.res.state.time else none) := by
  have hm := mwStep_decline_many (orc := orc) (inst := inst) (cfg := ec.sm) (mc := ec.mw) (fuel := ec.fuel)
    e.res e.mw e.rng o o' rest hp
  obtain ⟨out, hout, e1, e2, e3, e4, e5, e6, e7, _, _, _, e11⟩ :=
    envStep_of_mwStep (st := st) hd hm rfl hj hops hden
  exact ⟨out, hout, e1, e2, e3, e4, by rw [e5], e6, e7, e11⟩

/-- **From a returned `state.step` to a returned `env.step`.**  The episode is running, there is an
offer, the reward constants are not degenerate, truncation is off and the agent answers 0 or 1.  If
the `state.step` the middleware runs for that answer (accept: the head offer with `jump_to_event`;
decline of the last offer: nothing with the forced jump; decline with two or more offers: none)
returns a successful result that holds offers or has the shop done, then `env.step` returns; the
episode is not truncated, it terminates exactly when the shop is done, and the truncation allowance
is untouched. -/
theorem envStep_of_smStep {ec : EnvCfg} {st : RewardStatic} {e : EnvState} {a : AgentAct}
    (hd : e.done = false) (hne : e.res.possible ≠ []) (hops : st.numOps ≠ 0) (hden : st.tmax - st.lb ≠ 0)
    (htr : ec.mw.truncActive = false) (hj : 0 ≤ e.mw.joker) (ha : a = .accept ∨ a = .decline)
    (hstep : ∀ act : Action,
      (a = .accept ∧ act = { transitions := e.res.possible.take 1, noOp := false, tm := .jumpToEvent }) ∨
      (a = .decline ∧ e.res.possible.length = 1 ∧ act = { transitions := [], noOp := true, tm := .forceJump }) →
      ∃ res' r' mic, smStep orc inst ec.sm ec.fuel e.res.state e.rng act = .ok (res', r', mic) ∧
        res'.success = true ∧ (res'.possible ≠ [] ∨ isDone inst res'.state = true)) :
    ∃ out, envStep orc inst ec st e a = .ok out ∧ out.env.res.success = true ∧ out.env.truncated = false ∧
      out.env.terminated = isDone inst out.env.res.state ∧ out.env.done = isDone inst out.env.res.state ∧
      out.env.mw.joker = e.mw.joker ∧ out.obsRes = out.env.res ∧ out.env.histLen = e.histLen + 1 ∧
      out.makespan = (if isDone inst out.env.res.state then some out.env.res.state.time else none) ∧
      ((∃ o o' rest, a = .decline ∧ e.res.possible = o :: o' :: rest ∧
          out.env.res = { state := e.res.state, subStates := e.res.subStates, action := noOpAction,
                          success := true, done := false, possible := o' :: rest } ∧
          out.env.rng = e.rng ∧ out.micro = []) ∨
       (∃ act, ((a = .accept ∧ act = { transitions := e.res.possible.take 1, noOp := false, tm := .jumpToEvent }) ∨
            (a = .decline ∧ e.res.possible.length = 1 ∧
              act = { transitions := [], noOp := true, tm := .forceJump })) ∧
          smStep orc inst ec.sm ec.fuel e.res.state e.rng act = .ok (out.env.res, out.env.rng, out.micro) ∧
          (out.env.res.possible ≠ [] ∨ isDone inst out.env.res.state = true))) := by
  cases hp : e.res.possible with
  | nil => exact absurd hp hne
  | cons o rest =>
    rcases ha with rfl | rfl
    · -- accept
      have hk : (AgentAct.accept = .accept ∧
          ({ transitions := [o], noOp := false, tm := .jumpToEvent } : Action) =
            { transitions := e.res.possible.take 1, noOp := false, tm := .jumpToEvent }) := ⟨rfl, by rw [hp]; rfl⟩
      obtain ⟨res', r', mic, hs, hsuc, hlive⟩ := hstep _ (Or.inl hk)
      have hm := mwStep_accept_of_smStep (mc := ec.mw) (m := e.mw) hp hs
      obtain ⟨out, hout, e1, e2, e3, e4, e5, e6, e7, e8, _, e10, e11⟩ :=
        envStep_of_mwStep (st := st) hd hm hsuc hj hops hden
      refine ⟨out, hout, by rw [e1]; exact hsuc, e2, by rw [e1]; exact e3, by rw [e1]; exact e4, by rw [e5],
        by rw [e8, e1], e10, by rw [e1]; exact e11, Or.inr ⟨_, Or.inl ⟨rfl, rfl⟩, ?_, by rw [e1]; exact hlive⟩⟩
      rw [e1, e6, e7]; exact hs
    · cases rest with
      | nil =>
        have hk : (AgentAct.decline = .decline ∧ e.res.possible.length = 1 ∧
            ({ transitions := [], noOp := true, tm := .forceJump } : Action) =
              { transitions := [], noOp := true, tm := .forceJump }) := ⟨rfl, by rw [hp]; rfl, rfl⟩
        obtain ⟨res', r', mic, hs, hsuc, hlive⟩ := hstep _ (Or.inr hk)
        obtain ⟨m', hm, hjm⟩ := mwStep_decline_last_of_smStep (mc := ec.mw) (m := e.mw) hp htr hs hlive
        obtain ⟨out, hout, e1, e2, e3, e4, e5, e6, e7, e8, _, e10, e11⟩ :=
          envStep_of_mwStep (st := st) hd hm hsuc (by rw [hjm]; exact hj) hops hden
        refine ⟨out, hout, by rw [e1]; exact hsuc, e2, by rw [e1]; exact e3, by rw [e1]; exact e4, by rw [e5, hjm],
          by rw [e8, e1], e10, by rw [e1]; exact e11,
          Or.inr ⟨_, Or.inr ⟨rfl, rfl, rfl⟩, ?_, by rw [e1]; exact hlive⟩⟩
        rw [e1, e6, e7]; exact hs
      | cons o' rest' =>
        have hm := mwStep_decline_many (orc := orc) (inst := inst) (cfg := ec.sm) (mc := ec.mw) (fuel := ec.fuel)
          e.res e.mw e.rng o o' rest' hp
        obtain ⟨out, hout, e1, e2, e3, e4, e5, e6, e7, e8, _, e10, e11⟩ :=
          envStep_of_mwStep (st := st) hd hm rfl hj hops hden
        refine ⟨out, hout, by rw [e1], e2, by rw [e1]; exact e3, by rw [e1]; exact e4, by rw [e5],
          by rw [e8, e1], e10, by rw [e1]; exact e11, Or.inl ⟨o, o', rest', rfl, rfl, e1, e6, e7⟩⟩

end JSL
