import JSL.Inv.StoreStep
import JSL.Inv.EnvReach

/-!
# Release discipline: the batch guards

`PickGS`  – every pickup (→ TRANSIT) still waiting in the batch is for a job that sits in a
            post-buffer / stand-alone buffer and, when that buffer releases at the front
            (FIFO, DUMMY), is its first element; no two pickups of the batch are for the same job.
`StartGS` – every machine start (→ SETUP) still waiting in the batch is, for an idle machine, for
            the job `get_next_job_from_buffer` names (or the pre-buffer is a FLEX buffer); everything
            in front of it in the batch is a machine transition of another machine.

Both are kept by every applied transition, and hold for the batches the code builds.
-/

namespace JSL

variable {orc : Oracle} {inst : Instance}

/-- some configuration of the buffer with id `i` releases at the front (FIFO or DUMMY) -/
def FrontAt (inst : Instance) (i : Nat) : Prop := ∃ bc ∈ allBufCfgs inst, bc.id = i ∧ releaseSel bc.type = .front

/-- some configuration of the buffer with id `i` releases at the back (LIFO) -/
def BackAt (inst : Instance) (i : Nat) : Prop := ∃ bc ∈ allBufCfgs inst, bc.id = i ∧ releaseSel bc.type = .back

structure PickGS (inst : Instance) (s : State) (L : List Transition) : Prop where
  front : ∀ tr ∈ L, tr.new = .t .transit → ∀ x, tr.job = some x →
    ∃ i, pickupBufferKind inst i = true ∧ x ∈ storeAt s i ∧ (FrontAt inst i → (storeAt s i).head? = some x)
  distinct : L.Pairwise (fun a b => a.new = .t .transit → b.new = .t .transit → ∀ x, a.job = some x → b.job ≠ some x)

structure StartGS (inst : Instance) (s : State) (L : List Transition) : Prop where
  next : ∀ tr ∈ L, tr.new = .m .setup → ∀ m ∈ s.machines, tr.comp = .m m.id → m.st = .idle →
    ∀ x, tr.job = some x → x ∈ m.pre.store → ∀ bc ∈ allBufCfgs inst, bc.id = m.pre.id →
      nextJobFromBuffer m.pre bc = some x ∨ releaseSel bc.type = .none
  order : L.Pairwise (fun a b => b.new = .m .setup → (∃ mid, a.comp = .m mid) ∧ a.comp ≠ b.comp)

theorem PickGS.tail {s : State} {tr : Transition} {R : List Transition} (h : PickGS inst s (tr :: R)) : PickGS inst s R :=
  ⟨fun t ht => h.front t (by simp [ht]), (List.pairwise_cons.mp h.distinct).2⟩

theorem StartGS.tail {s : State} {tr : Transition} {R : List Transition} (h : StartGS inst s (tr :: R)) : StartGS inst s R :=
  ⟨fun t ht => h.next t (by simp [ht]), (List.pairwise_cons.mp h.order).2⟩

theorem PickGS.nil {s : State} : PickGS inst s [] := ⟨fun _ h => (by cases h), List.Pairwise.nil⟩
theorem StartGS.nil {s : State} : StartGS inst s [] := ⟨fun _ h => (by cases h), List.Pairwise.nil⟩

/-! ## where pickups take from -/

theorem kind_cases {s : State} (hs : Shape inst s) {i : Nat} (h : pickupBufferKind inst i = true) :
    (∃ b ∈ s.buffers, b.id = i) ∨ (∃ m ∈ s.machines, m.post.id = i) := by
  unfold pickupBufferKind at h
  simp only [Bool.or_eq_true, List.contains_iff_mem] at h
  rcases h with hk | hk
  · rw [← hs.buffers] at hk
    obtain ⟨b, hb, e⟩ := List.mem_map.mp hk
    exact Or.inl ⟨b, hb, e⟩
  · rw [← hs.postIds] at hk
    obtain ⟨m, hm, e⟩ := List.mem_map.mp hk
    exact Or.inr ⟨m, hm, e⟩

/-- pre-buffers and internal machine buffers are no pickup places -/
theorem not_kind_machine (w : WF inst) {s : State} (hs : Shape inst s) {m : MachineState} (hm : m ∈ s.machines) :
    pickupBufferKind inst m.pre.id ≠ true ∧ pickupBufferKind inst m.buffer.id ≠ true := by
  constructor
  · intro h
    rcases kind_cases hs h with ⟨b, hb, e⟩ | ⟨m2, hm2, e⟩
    · exact ((ids_parts hs w).1 b hb m hm).1 e
    · by_cases e2 : m.id = m2.id
      · have : m = m2 := eq_of_mem_of_key_eq (key := fun (y : MachineState) => y.id) (hs.machNodup w) hm hm2 e2
        subst this; exact (machine_buf_ids_ne hs w hm).2.1 e.symm
      · exact machines_bufs_ne hs w hm hm2 e2 _ (by simp) _ (by simp) e.symm
  · intro h
    rcases kind_cases hs h with ⟨b, hb, e⟩ | ⟨m2, hm2, e⟩
    · exact ((ids_parts hs w).1 b hb m hm).2.1 e
    · exact (internal_ne_pre_post hs w hm hm2).2 e.symm

/-- AGV buffers are no pickup places -/
theorem not_kind_transport (w : WF inst) {s : State} (hs : Shape inst s) {t : TransportState} (ht : t ∈ s.transports) :
    pickupBufferKind inst t.buffer.id ≠ true := by
  intro h
  rcases kind_cases hs h with ⟨b, hb, e⟩ | ⟨m2, hm2, e⟩
  · exact (ids_parts hs w).2.1 b hb t ht e
  · exact ((ids_parts hs w).2.2 m2 hm2 t ht).2.2 e

/-! ## list facts -/

theorem headq_filter_ne {l : List Nat} {x y : Nat} (hne : x ≠ y) (h : l.head? = some x) :
    (l.filter (· != y)).head? = some x := by
  cases l with
  | nil => simp at h
  | cons a as =>
    simp at h; subst h
    simp [hne]

theorem headq_append_keep {l : List Nat} {x y : Nat} (h : l.head? = some x) : (l ++ [y]).head? = some x := by
  cases l with
  | nil => simp at h
  | cons a as => simpa using h

/-- removing the head of a duplicate-free list leaves its tail -/
theorem filter_head_nodup {l : List Nat} {x : Nat} (hnd : l.Nodup) (h : l.head? = some x) :
    l = x :: l.filter (· != x) := by
  cases l with
  | nil => simp at h
  | cons a as =>
    simp at h; subst h
    have hnot : a ∉ as := (List.nodup_cons.mp hnd).1
    have : as.filter (· != a) = as := by
      apply List.filter_eq_self.mpr
      intro b hb
      have : b ≠ a := fun e => hnot (e ▸ hb)
      simpa using this
    simp [this]

/-- a job other than the moved one stays where it is, and stays first if it was first -/
theorem MovedS.keep {s s' : State} {y a c : Nat} (h : MovedS s s' y a c) {x i : Nat} (hne : x ≠ y)
    (hx : x ∈ storeAt s i) :
    x ∈ storeAt s' i ∧ ((storeAt s i).head? = some x → (storeAt s' i).head? = some x) := by
  by_cases hia : i = a
  · subst hia
    rw [h.storeA]
    exact ⟨by simp [hx, hne], headq_filter_ne hne⟩
  · by_cases hic : i = c
    · subst hic
      rw [h.storeB]
      exact ⟨by simp [hx], headq_append_keep⟩
    · rw [h.storeO i hia hic]
      exact ⟨hx, fun e => e⟩

/-! ## one applied transition keeps the guards -/

theorem pick_step (w : WF inst) {s s' : State} {tr0 : Transition} {R : List Transition} (hI : StructInv inst s)
    (he : StoreEff s s' tr0) (hgs : PickGS inst s (tr0 :: R)) : PickGS inst s' R := by
  have hs := hI.shape
  have hjn := hs.jobsNodup w
  refine ⟨?_, (List.pairwise_cons.mp hgs.distinct).2⟩
  intro b hb hn x hx
  obtain ⟨i, hk, hin, hfront⟩ := hgs.front b (by simp [hb]) hn x hx
  -- a job moved out of a place that is no pickup place is not `x`
  have other : ∀ {y a c : Nat}, MovedS s s' y a c → pickupBufferKind inst a ≠ true → x ≠ y := by
    intro y a c hmv hnk e
    subst e
    have : a = i := unique_store hI.cons hjn hmv.was hin
    exact hnk (this ▸ hk)
  have fin : ∀ {y a c : Nat}, MovedS s s' y a c → x ≠ y →
      ∃ i, pickupBufferKind inst i = true ∧ x ∈ storeAt s' i ∧ (FrontAt inst i → (storeAt s' i).head? = some x) := by
    intro y a c hmv hne
    have := hmv.keep hne hin
    exact ⟨i, hk, this.1, fun hf => this.2 (hfront hf)⟩
  cases he with
  | same _ _ hst => exact ⟨i, hk, by rw [hst]; exact hin, fun hf => by rw [hst]; exact hfront hf⟩
  | start m y hm _ _ _ _ _ hmv => exact fin hmv (other hmv (not_kind_machine w hs hm).1)
  | finish m y hm _ _ _ hmv => exact fin hmv (other hmv (not_kind_machine w hs hm).2)
  | deliver t y c ht _ _ _ hmv => exact fin hmv (other hmv (not_kind_transport w hs ht))
  | pickup t y a _ _ hn0 hy hmv =>
    refine fin hmv ?_
    intro e
    subst e
    exact (List.pairwise_cons.mp hgs.distinct).1 b hb hn0 hn x hy hx

theorem start_step {s s' : State} {tr0 : Transition} {R : List Transition}
    (hmach : ∀ mid, tr0.comp = .m mid → ∀ m' ∈ s'.machines, m'.id ≠ mid → m' ∈ s.machines)
    (hgs : StartGS inst s (tr0 :: R)) : StartGS inst s' R := by
  refine ⟨?_, (List.pairwise_cons.mp hgs.order).2⟩
  intro b hb hn m' hm' hc hidle x hx hin bc hbc hid
  obtain ⟨⟨mid, hc0⟩, hne⟩ := (List.pairwise_cons.mp hgs.order).1 b hb hn
  have hm : m' ∈ s.machines := by
    apply hmach mid hc0 m' hm'
    intro e
    apply hne
    rw [hc0, hc, e]
  exact hgs.next b (by simp [hb]) hn m' hm hc hidle x hx hin bc hbc hid

/-! ## what the guards say about the transition that is applied -/

/-- **AGV side.**  A pickup that is applied takes its job out of a post-buffer or stand-alone
buffer; if that buffer is FIFO or DUMMY the job was its first element. -/
theorem pick_rel (w : WF inst) {s s' : State} {tr : Transition} {R : List Transition} (hI : StructInv inst s)
    (he : StoreEff s s' tr) (hgs : PickGS inst s (tr :: R)) (hn : tr.new = .t .transit) :
    ∃ t ∈ s.transports, ∃ x i, tr.comp = .t t.id ∧ tr.job = some x ∧ pickupBufferKind inst i = true ∧
      MovedS s s' x i t.buffer.id ∧ (FrontAt inst i → storeAt s i = x :: storeAt s' i) := by
  have hjn := hI.shape.jobsNodup w
  cases he with
  | same _ h2 _ => exact absurd hn h2
  | start m y _ _ h3 _ _ _ _ => rw [hn] at h3; cases h3
  | finish m y _ _ h3 _ _ => rw [hn] at h3; cases h3
  | deliver t y c _ _ h3 _ _ => rw [hn] at h3; cases h3
  | pickup t y a ht hc _ hy hmv =>
    obtain ⟨i, hk, hin, hfront⟩ := hgs.front tr (by simp) hn y hy
    have : a = i := unique_store hI.cons hjn hmv.was hin
    subst this
    refine ⟨t, ht, y, a, hc, hy, hk, hmv, ?_⟩
    intro hf
    rw [hmv.storeA]
    exact filter_head_nodup (hI.cons.nodup a) (hfront hf)

/-- **Machine side.**  A machine start that is applied takes its job out of the pre-buffer of the
idle machine; the job is the one `get_next_job_from_buffer` names, unless the buffer is FLEX. -/
theorem start_rel {s s' : State} {tr : Transition} {R : List Transition}
    (he : StoreEff s s' tr) (hgs : StartGS inst s (tr :: R)) (hn : tr.new = .m .setup) :
    ∃ m ∈ s.machines, ∃ x, tr.comp = .m m.id ∧ m.st = .idle ∧ tr.job = some x ∧ x ∈ m.pre.store ∧
      MovedS s s' x m.pre.id m.buffer.id ∧
      ∀ bc ∈ allBufCfgs inst, bc.id = m.pre.id → nextJobFromBuffer m.pre bc = some x ∨ releaseSel bc.type = .none := by
  cases he with
  | same h1 _ _ => exact absurd hn h1
  | finish m y _ _ h3 _ _ => rw [hn] at h3; cases h3
  | deliver t y c _ _ h3 _ _ => rw [hn] at h3; cases h3
  | pickup t y a _ _ h3 _ _ => rw [hn] at h3; cases h3
  | start m y hm hc _ hidle hy hin hmv =>
    exact ⟨m, hm, y, hc, hidle, hy, hin, hmv, hgs.next tr (by simp) hn m hm hc hidle y hy hin⟩

/-! ## the batches the code builds -/

/-- a job that is ready for pickup sits in a pickup place and, if that place releases at the front,
is its first element -/
theorem ready_front (w : WF inst) {s : State} {j : JobState} (h : readyForPickup inst s j = .ok true) :
    pickupBufferKind inst j.loc = true ∧ j.id ∈ storeAt s j.loc ∧
      (FrontAt inst j.loc → (storeAt s j.loc).head? = some j.id) := by
  unfold readyForPickup at h
  obtain ⟨bs, hbs, h⟩ := except_bind_eq_ok h
  obtain ⟨bc, hbc, h⟩ := except_bind_eq_ok h
  have hbs' := getBufState_ok hbs
  have hbc' := getBufCfg_ok hbc
  have hst : storeAt s j.loc = bs.store := by
    unfold getBufState findE at hbs
    unfold storeAt
    cases hf : (allBufStates s).find? (fun b => b.id == j.loc) with
    | none => simp [hf] at hbs
    | some b => simp [hf] at hbs; subst hbs; rfl
  rw [hst]
  cases hidx : bs.store.idxOf? j.id with
  | none =>
    exfalso
    simp only [hidx] at h
    split at h
    · simp at h
    · cases hpn : posNone bc.type with
      | none => simp [hpn] at h
      | some r =>
        simp [hpn] at h
        have : r = false := by revert hpn; cases bc.type <;> simp [posNone] <;> intro e <;> exact e.symm
        rw [this] at h; simp at h
  | some p =>
    simp [hidx] at h
    obtain ⟨hk, hpos⟩ := h
    obtain ⟨hlt, hel, _⟩ := List.idxOf?_eq_some_iff.mp hidx
    refine ⟨by rw [← hbs'.2]; exact hk, by rw [← hel]; exact List.getElem_mem hlt, ?_⟩
    rintro ⟨bc2, hbc2, hid2, hsel⟩
    have : bc2 = bc := eq_of_mem_of_key_eq (key := fun (y : BufCfg) => y.id) w.bufNodup hbc2 hbc'.1 (by rw [hid2, hbc'.2])
    subst this
    have hp0 : p = 0 := by
      unfold posOk at hpos
      split at hpos
      · simp at hpos
      · revert hsel hpos; cases bc2.type <;> simp [releaseSel]
    subst hp0
    cases hl : bs.store with
    | nil => rw [hl] at hlt; simp at hlt
    | cons a as => simp [hl] at hel; simp [hel]

/-- the pickups of a timed batch: each belongs to an AGV of the state and carries its claimed job,
which is ready for pickup -/
theorem timed_transit_owner {s : State} (hS : SchedInv s) {tt : List Transition}
    (htt : timedTransitions inst s = .ok tt) (tr : Transition) (htr : tr ∈ tt) (hn : tr.new = .t .transit) :
    ∃ t ∈ s.transports, tr.comp = .t t.id ∧ tr.job = t.job ∧
      ∃ j ∈ s.jobs, tr.job = some j.id ∧ readyForPickup inst s j = .ok true := by
  unfold timedTransitions at htt
  obtain ⟨a, ha, htt⟩ := except_bind_eq_ok htt
  obtain ⟨b, hb, htt⟩ := except_bind_eq_ok htt
  simp at htt; subst htt
  unfold timedMachineTransitions at ha
  unfold timedTransportTransitions at hb
  cases hra : s.machines.mapM (timedMachine inst s.time) with
  | error e => simp [hra] at ha
  | ok ra =>
    simp [hra] at ha; subst ha
    cases hrb : s.transports.mapM (timedTransport inst s) with
    | error e => simp [hrb] at hb
    | ok rb =>
      simp [hrb] at hb; subst hb
      rcases List.mem_append.mp htr with h1 | h1
      · exfalso
        obtain ⟨x, hx, e⟩ := List.mem_filterMap.mp h1
        simp at e; subst e
        obtain ⟨m, hm, e⟩ := (mapM_ok_mem hra).2 _ hx
        obtain ⟨⟨m', _, _, hcase⟩, _⟩ := timedMachine_spec (inst := inst) (s := s) hm e
        rcases hcase with ⟨ns, _, hn', _⟩ | ⟨_, hn', _⟩ <;> rw [hn] at hn' <;> cases hn'
      · obtain ⟨x, hx, e⟩ := List.mem_filterMap.mp h1
        simp at e; subst e
        obtain ⟨t, ht, e⟩ := (mapM_ok_mem hrb).2 _ hx
        have h2 := (timedTransport_spec hS ht e).2 hn
        rcases timedTransport_shape hS ht e with e' | ⟨hc, hj⟩
        · rw [hn] at e'; cases e'
        · exact ⟨t, ht, hc, hj hn, h2⟩

/-- the timed batch (followed by dispatches) meets the pickup guard -/
theorem timed_pick (w : WF inst) {s : State} (hS : SchedInv s) (hA : AgvInv s)
    {tt tele : List Transition} (htt : timedTransitions inst s = .ok tt)
    (htele : ∀ tr ∈ tele, tr.new = .t .working) (hord : RouteGS s (tt ++ tele)) : PickGS inst s (tt ++ tele) := by
  have owner : ∀ tr ∈ tt ++ tele, tr.new = .t .transit → ∃ t ∈ s.transports, tr.comp = .t t.id ∧ tr.job = t.job ∧
      ∃ j ∈ s.jobs, tr.job = some j.id ∧ readyForPickup inst s j = .ok true := by
    intro tr htr hn
    rcases List.mem_append.mp htr with h | h
    · exact timed_transit_owner hS htt tr h hn
    · rw [htele tr h] at hn; cases hn
  constructor
  · intro tr htr hn x hx
    obtain ⟨_, _, _, _, j, _, hj, hrdy⟩ := owner tr htr hn
    have : x = j.id := by rw [hx] at hj; simpa using hj
    subst this
    have := ready_front w hrdy
    exact ⟨j.loc, this.1, this.2.1, this.2.2⟩
  · apply hord.order.imp_of_mem
    intro a b ha hb hab hna hnb x hxa hxb
    obtain ⟨ta, hta, hca, hja, _⟩ := owner a ha hna
    obtain ⟨tb, htb, hcb, hjb, _⟩ := owner b hb hnb
    have hid : ta.id = tb.id := hA.unique ta hta tb htb x (by rw [← hja]; exact hxa) (by rw [← hjb]; exact hxb)
    have := hab hnb (by rw [hca, hcb, hid])
    rw [hna] at this; cases this

/-- what `create_timed_machine_transitions` produces when it starts a machine -/
theorem timedMachine_setup {now : Int} {m : MachineState} {tr : Transition}
    (h : timedMachine inst now m = .ok (some tr)) (hn : tr.new = .m .setup) :
    tr.comp = .m m.id ∧ ∃ pc x, getBufCfg (allBufCfgs inst) m.pre.id = .ok pc ∧
      nextJobFromBuffer m.pre pc = some x ∧ tr.job = some x := by
  unfold timedMachine at h
  split at h
  · rename_i ns hns
    exfalso
    cases hst : m.buffer.store with
    | nil => simp [hst] at h
    | cons j rest =>
      simp [hst] at h; subst h
      simp at hn; subst hn
      split at hns
      · revert hns; cases m.st <;> simp [machineTimedNext]
      · simp at hns
  · split at h
    · unfold machineSetupTransition at h
      split at h
      · obtain ⟨pc, hpc, h⟩ := except_bind_eq_ok h
        cases hnx : nextJobFromBuffer m.pre pc with
        | none => simp [hnx] at h
        | some j =>
          simp [hnx] at h; subst h
          exact ⟨rfl, pc, j, hpc, hnx, rfl⟩
      · simp at h
    · simp at h

/-- the timed batch (followed by dispatches) meets the machine-start guard -/
theorem timed_start (w : WF inst) {s : State} (hI : StructInv inst s)
    {tt tele : List Transition} (htt : timedTransitions inst s = .ok tt)
    (hS : SchedInv s) (htele : ∀ tr ∈ tele, tr.new = .t .working) : StartGS inst s (tt ++ tele) := by
  have hs := hI.shape
  unfold timedTransitions at htt
  obtain ⟨a, ha, htt⟩ := except_bind_eq_ok htt
  obtain ⟨b, hb, htt⟩ := except_bind_eq_ok htt
  simp at htt; subst htt
  unfold timedMachineTransitions at ha
  unfold timedTransportTransitions at hb
  cases hra : s.machines.mapM (timedMachine inst s.time) with
  | error e => simp [hra] at ha
  | ok ra =>
    simp [hra] at ha; subst ha
    cases hrb : s.transports.mapM (timedTransport inst s) with
    | error e => simp [hrb] at hb
    | ok rb =>
      simp [hrb] at hb; subst hb
      have hA := timedMachines_spec (inst := inst) s.machines (fun m hm => hm) (hs.machNodup w) ra hra
      have hB := timedTransports_spec (inst := inst) hS s.transports (fun t ht => ht) rb hrb
      have hT : ∀ tr ∈ rb.filterMap id ++ tele, tr.new ≠ .m .setup := by
        intro tr htr hn
        rcases List.mem_append.mp htr with h | h
        · obtain ⟨⟨ns, e⟩, _⟩ := hB tr h; rw [e] at hn; cases hn
        · rw [htele tr h] at hn; cases hn
      have hMc : ∀ tr ∈ ra.filterMap id, ∃ mid, tr.comp = .m mid := by
        intro tr htr
        obtain ⟨_, y, _, h2⟩ := hA.1 tr htr
        exact ⟨y.id, h2⟩
      rw [List.append_assoc]
      constructor
      · intro tr htr hn m hm hc _ x hx _ bc hbc hid
        rcases List.mem_append.mp htr with h | h
        · obtain ⟨o, ho, e⟩ := List.mem_filterMap.mp h
          simp at e; subst e
          obtain ⟨m0, hm0, e⟩ := (mapM_ok_mem hra).2 _ ho
          obtain ⟨hc0, pc, x0, hpc, hnx, hj⟩ := timedMachine_setup e hn
          have : m0 = m := by
            apply eq_of_mem_of_key_eq (key := fun (y : MachineState) => y.id) (hs.machNodup w) hm0 hm
            rw [hc0] at hc; simpa using hc
          subst this
          have hpc' := getBufCfg_ok hpc
          have : pc = bc := eq_of_mem_of_key_eq (key := fun (y : BufCfg) => y.id) w.bufNodup hpc'.1 hbc (by rw [hpc'.2, hid])
          subst this
          left
          rw [hnx]
          rw [hx] at hj; simpa using hj.symm
        · exact absurd hn (hT tr h)
      · rw [List.pairwise_append]
        refine ⟨?_, ?_, ?_⟩
        · apply hA.2.imp_of_mem
          intro a b ha _ hne _
          exact ⟨hMc a ha, hne⟩
        · apply List.pairwise_of_forall_mem_list
          intro a _ b hb hn
          exact absurd hn (hT b hb)
        · intro a _ b hb hn
          exact absurd hn (hT b hb)

/-- when nothing is due, an idle machine with a non-empty pre-buffer has a FLEX pre-buffer: any
single transition meets the machine-start guard -/
theorem quiet_start (w : WF inst) {s : State} (hq : Quiet inst s) (tr : Transition) : StartGS inst s [tr] := by
  refine ⟨?_, List.pairwise_singleton _ _⟩
  intro t _ _ m hm _ hidle x _ hin bc hbc hid
  right
  have h := hq.parts.1 m hm
  unfold timedMachine at h
  have hnone : (if dueAt m.occ s.time = true then machineTimedNext m.st else none) = none := by
    rw [hidle]; split <;> rfl
  rw [hnone] at h
  simp only [hidle, beq_self_eq_true, if_true] at h
  unfold machineSetupTransition at h
  have hlen : m.pre.store.length > 0 := List.length_pos_of_mem hin
  rw [if_pos hlen] at h
  obtain ⟨pc, hpc, h⟩ := except_bind_eq_ok h
  have hpc' := getBufCfg_ok hpc
  have : pc = bc := eq_of_mem_of_key_eq (key := fun (y : BufCfg) => y.id) w.bufNodup hpc'.1 hbc (by rw [hpc'.2, hid])
  subst this
  cases hnx : nextJobFromBuffer m.pre pc with
  | some j => simp [hnx] at h
  | none =>
    unfold nextJobFromBuffer at hnx
    cases hsel : releaseSel pc.type with
    | none => rfl
    | front =>
      exfalso
      simp only [hsel] at hnx
      cases hl : m.pre.store with
      | nil => rw [hl] at hin; cases hin
      | cons a as => rw [hl] at hnx; simp at hnx
    | back =>
      exfalso
      simp only [hsel] at hnx
      cases hl : m.pre.store with
      | nil => rw [hl] at hin; cases hin
      | cons a as => rw [hl] at hnx; simp at hnx

/-- a batch without pickups meets the pickup guard -/
theorem pick_of_no_transit {s : State} {L : List Transition} (h : ∀ tr ∈ L, tr.new ≠ .t .transit) : PickGS inst s L :=
  ⟨fun tr htr hn => absurd hn (h tr htr), List.pairwise_of_forall_mem_list (fun a ha _ _ hna => absurd hna (h a ha))⟩

end JSL
