import JSL.Inv.ClassicRoom

/-!
# Classic instances: the query functions of `state.step` never raise

Totality of `timedTransitions`, `possibleTransitions`, `numPossibleEvents` and `filterTeleport`
in every state of a classic instance that satisfies the structural, schedule and AGV invariants and
in which the AGVs are tame (`AgvTame`); and two lemmas about states in which nothing is on offer.
-/

namespace JSL

variable {orc : Oracle} {inst : Instance}

/-- three facts about the AGVs of a classic instance: none is parked on a time dependency, none is in
the legacy `working` state, and an AGV on its way to (or waiting at) a pickup claims a job that lies
at a pickup place -/
structure AgvTame (inst : Instance) (s : State) : Prop where
  noDep : ∀ t ∈ s.transports, ∀ b j tr, t.occ ≠ .dep b j tr
  noWorking : ∀ t ∈ s.transports, t.st ≠ .working
  claimed : ∀ t ∈ s.transports, t.st = .pickup ∨ t.st = .waitingpickup →
    ∃ j ∈ s.jobs, t.job = some j.id ∧ j.loc ∈ pickupPlaces inst

/-! ## generic totality helpers -/

theorem mapM_ok_of_total {α β} {f : α → Except Err β} :
    ∀ {l : List α}, (∀ x ∈ l, ∃ y, f x = .ok y) → ∃ r, l.mapM f = .ok r
  | [], _ => ⟨[], by simp [List.mapM_nil]⟩
  | a :: as, h => by
    obtain ⟨y, hy⟩ := h a (by simp)
    obtain ⟨r, hr⟩ := mapM_ok_of_total (l := as) (fun x hx => h x (by simp [hx]))
    refine ⟨y :: r, ?_⟩
    rw [List.mapM_cons]
    simp only [hy, hr, except_bind_ok, except_pure]

theorem bind_ok_of_ok {α β} {x : Except Err α} {f : α → Except Err β} (hx : ∃ a, x = .ok a)
    (hf : ∀ a, x = .ok a → ∃ b, f a = .ok b) : ∃ b, (x >>= f) = .ok b := by
  obtain ⟨a, ha⟩ := hx
  obtain ⟨b, hb⟩ := hf a ha
  exact ⟨b, by rw [ha]; exact hb⟩

/-- if `p` is total on `l` then `filterE p l` returns -/
theorem filterE_ok_of_total {α} {p : α → Except Err Bool} :
    ∀ {l : List α}, (∀ x ∈ l, ∃ b, p x = .ok b) → ∃ r, filterE p l = .ok r
  | [], _ => ⟨[], rfl⟩
  | a :: as, h => by
    obtain ⟨b, hb⟩ := h a (by simp)
    obtain ⟨r, hr⟩ := filterE_ok_of_total (l := as) (fun x hx => h x (by simp [hx]))
    refine ⟨if b then a :: r else r, ?_⟩
    simp only [filterE, hb, hr, except_bind_ok, except_pure]

/-! ## where a job is -/

/-- the buffer a job is located in, and the job is stored there -/
theorem job_buffer {s : State} (hI : StructInv inst s) {j : JobState} (hj : j ∈ s.jobs) :
    ∃ b ∈ allBufStates s, b.id = j.loc ∧ j.id ∈ b.store := by
  have hst : j.id ∈ storeAt s j.loc := hI.cons.located (j.id, j.loc) (List.mem_map.mpr ⟨j, hj, rfl⟩)
  obtain ⟨b, hb, hbid, hbs⟩ := storeAt_mem hst
  exact ⟨b, hb, hbid, by rw [← hbs]; exact hst⟩

/-- the readiness check never raises on a job of the shop: the job is found in the store of its buffer -/
theorem readyForPickup_total (w : WF inst) {s : State} (hI : StructInv inst s)
    {j : JobState} (hj : j ∈ s.jobs) : ∃ b, readyForPickup inst s j = .ok b := by
  have hs := hI.shape
  obtain ⟨b, hb, hbid, hin⟩ := job_buffer hI hj
  obtain ⟨bc, hbc, _, hgc⟩ := getBufCfg_of_state w hs hb
  have hgs := getBufState_of_mem w hs hb
  rw [hbid] at hgc hgs
  cases hidx : b.store.idxOf? j.id with
  | none => exact absurd hin (List.idxOf?_eq_none_iff.mp hidx)
  | some q =>
    simp only [readyForPickup, hgs, hgc, except_bind_ok, hidx, except_pure]
    exact ⟨_, rfl⟩

/-- the machine of an operation record of the state exists -/
theorem op_machine_mem (w : WF inst) {s : State} (hs : Shape inst s) {j : JobState} (hj : j ∈ s.jobs)
    {o : OpState} (ho : o ∈ j.ops) : ∃ m ∈ s.machines, m.id = o.machine := by
  obtain ⟨jc, hjc, hk⟩ := hs.job_cfg hj
  simp only [jKey, jcKey, Prod.mk.injEq] at hk
  obtain ⟨oc, hoc, e⟩ := mem_of_map_eq hk.2 ho
  simp only [opKey, ocKey, Prod.mk.injEq] at e
  obtain ⟨mc, hmc, hid⟩ := w.opMachine jc hjc oc hoc
  obtain ⟨m, hm, hk2⟩ := mem_of_map_eq hs.machines.symm hmc
  simp only [mKey, mcKey, Prod.mk.injEq] at hk2
  exact ⟨m, hm, by rw [← hk2.1, hid, e.2.2]⟩

theorem getMachine_of_op (w : WF inst) {s : State} (hs : Shape inst s) {j : JobState} (hj : j ∈ s.jobs)
    {o : OpState} (ho : o ∈ j.ops) : ∃ m ∈ s.machines, m.id = o.machine ∧ getMachine s.machines o.machine = .ok m := by
  obtain ⟨m, hm, hid⟩ := op_machine_mem w hs hj ho
  exact ⟨m, hm, hid, by rw [← hid]; exact getMachine_of_mem (hs.machNodup w) hm⟩

/-! ## timed transitions -/

theorem timedMachine_total (w : WF inst) (hF : FlexInst inst) {s : State} (hI : StructInv inst s) (hS : SchedInv s)
    {m : MachineState} (hm : m ∈ s.machines) (now : Int) : ∃ r, timedMachine inst now m = .ok r := by
  have hs := hI.shape
  unfold timedMachine
  cases hd : (if dueAt m.occ now then machineTimedNext m.st else none) with
  | some ns =>
    have hbusy : m.st ≠ .idle := by
      intro e
      rw [e] at hd
      simp [machineTimedNext] at hd
    obtain ⟨j, _, hst, _⟩ := hS.busyHolds m hm hbusy
    simp only [hst, except_pure]
    exact ⟨_, rfl⟩
  | none =>
    simp only
    by_cases hi : (m.st == .idle) = true
    · rw [if_pos hi]
      unfold machineSetupTransition
      by_cases hl : m.pre.store.length > 0
      · rw [if_pos hl]
        obtain ⟨bc, hbc, _, hgc⟩ := getBufCfg_of_state w hs (mem_allBufs_of_machine hm).1
        have hty := hF bc hbc
        simp only [hgc, except_bind_ok, nextJobFromBuffer, hty, releaseSel, except_pure]
        exact ⟨_, rfl⟩
      · rw [if_neg hl]; exact ⟨_, rfl⟩
    · rw [if_neg hi]; exact ⟨_, rfl⟩

theorem timedMachineTransitions_total (w : WF inst) (hF : FlexInst inst) {s : State} (hI : StructInv inst s)
    (hS : SchedInv s) : ∃ r, timedMachineTransitions inst s = .ok r := by
  unfold timedMachineTransitions
  obtain ⟨l, hl⟩ := mapM_ok_of_total (f := timedMachine inst s.time) (l := s.machines)
    (fun m hm => timedMachine_total w hF hI hS hm s.time)
  rw [hl]
  exact ⟨_, rfl⟩

theorem timedTransport_total (w : WF inst) {s : State} (hI : StructInv inst s) (hA : AgvFull inst s)
    (hT : AgvTame inst s) {t : TransportState} (ht : t ∈ s.transports) : ∃ r, timedTransport inst s t = .ok r := by
  have hs := hI.shape
  have hjn := hs.jobsNodup w
  unfold timedTransport
  cases hocc : t.occ with
  | dep b j tr => exact absurd hocc (hT.noDep t ht b j tr)
  | none => exact ⟨_, rfl⟩
  | «at» o =>
    simp only
    by_cases hdue : o ≤ s.time
    · rw [if_pos hdue]
      have claim : t.st = .pickup ∨ t.st = .waitingpickup → ∃ r, agvIdleToPickTransition inst s t = .ok r := by
        intro hst
        obtain ⟨j, hj, htj, _⟩ := hT.claimed t ht hst
        obtain ⟨b, hb⟩ := readyForPickup_total w hI hj
        unfold agvIdleToPickTransition
        simp only [htj, optE, except_pure, except_bind_ok, getJob_of_mem hjn hj, hb]
        exact ⟨_, rfl⟩
      cases hst : t.st with
      | idle => simp only [agvTimedCreator]; exact ⟨_, rfl⟩
      | working => exact absurd hst (hT.noWorking t ht)
      | pickup => simp only [agvTimedCreator]; exact claim (Or.inl hst)
      | waitingpickup => simp only [agvTimedCreator]; exact claim (Or.inr hst)
      | transit =>
        obtain ⟨j, hj, hstore⟩ := hA.agv.holds t ht hst
        simp only [agvTimedCreator, hstore, getJob_of_mem hjn hj, except_bind_ok, except_pure]
        exact ⟨_, rfl⟩
      | outage => simp only [agvTimedCreator]; exact ⟨_, rfl⟩
    · rw [if_neg hdue]; exact ⟨_, rfl⟩

theorem timedTransportTransitions_total (w : WF inst) {s : State} (hI : StructInv inst s) (hA : AgvFull inst s)
    (hT : AgvTame inst s) : ∃ r, timedTransportTransitions inst s = .ok r := by
  unfold timedTransportTransitions
  obtain ⟨l, hl⟩ := mapM_ok_of_total (f := timedTransport inst s) (l := s.transports)
    (fun t ht => timedTransport_total w hI hA hT ht)
  rw [hl]
  exact ⟨_, rfl⟩

/-- **`create_timed_transitions` never raises** in a state of a classic instance -/
theorem timedTransitions_total (w : WF inst) (hC : Classic inst) {s : State} (hI : StructInv inst s)
    (hS : SchedInv s) (hA : AgvFull inst s) (hT : AgvTame inst s) : ∃ tt, timedTransitions inst s = .ok tt := by
  obtain ⟨a, ha⟩ := timedMachineTransitions_total w hC.flex hI hS
  obtain ⟨b, hb⟩ := timedTransportTransitions_total w hI hA hT
  unfold timedTransitions
  simp only [ha, hb, except_bind_ok, except_pure]
  exact ⟨_, rfl⟩

/-! ## offers -/

theorem nextIdle_of_any {j : JobState} (h : j.ops.any (·.st == .idle) = true) : ∃ o, j.nextIdle? = some o := by
  unfold JobState.nextIdle?
  cases hf : j.ops.find? (·.st == .idle) with
  | some o => exact ⟨o, rfl⟩
  | none =>
    obtain ⟨o, ho, hp⟩ := List.any_eq_true.mp h
    have := List.find?_eq_none.mp hf o ho
    exact absurd hp this

theorem nextNotDone_of_idle {s : State} (hS : SchedInv s) {j : JobState} (hj : j ∈ s.jobs) (hr : j.running = false)
    {o : OpState} (hn : j.nextIdle? = some o) : j.nextNotDone = .ok o := by
  have : j.nextNotDone? = some o := by rw [nextNotDone_eq_nextIdle (hS.ops j hj) hr, hn]
  simp [JobState.nextNotDone, this]

theorem actionPossible_total (w : WF inst) (hC : Classic inst) {s : State} (hI : StructInv inst s) (hS : SchedInv s)
    {j : JobState} (hj : j ∈ s.jobs) : ∃ b, actionPossible inst s j = .ok b := by
  have hs := hI.shape
  unfold actionPossible
  by_cases hfree : j.nextOpFree = true
  · have hfr := hfree
    simp only [JobState.nextOpFree, Bool.and_eq_true, Bool.not_eq_true'] at hfr
    obtain ⟨o, hn⟩ := nextIdle_of_any hfr.2
    have hnn := nextNotDone_of_idle hS hj hfr.1 hn
    have ho : o ∈ j.ops := List.mem_of_find?_eq_some hn
    obtain ⟨m, _, _, hgm⟩ := getMachine_of_op w hs hj ho
    obtain ⟨tc, htc, _⟩ := hC.hasAgv
    cases ht0 : inst.transports with
    | nil => rw [ht0] at htc; cases htc
    | cons t0 ts =>
      have hty : t0.type = .agv := hC.allAgv t0 (by rw [ht0]; simp)
      by_cases hat : m.pre.id = j.loc <;>
        simp [hfree, hty, hnn, hgm, jobAtMachine, bind, Except.bind, pure, Except.pure, hat]
  · simp only [hfree]
    exact ⟨false, rfl⟩

theorem possibleJobs_total (w : WF inst) (hC : Classic inst) {s : State} (hI : StructInv inst s) (hS : SchedInv s) :
    ∃ pj, possibleJobs inst s = .ok pj :=
  filterE_ok_of_total (fun _ hj => actionPossible_total w hC hI hS hj)

theorem possibleTransports_total {s : State} (hs : Shape inst s) : ∃ ts, possibleTransports inst s = .ok ts := by
  unfold possibleTransports
  apply bind_ok_of_ok
  · apply mapM_ok_of_total
    intro t ht
    obtain ⟨tc, htc, hk⟩ := hs.transport_cfg ht
    simp only [tKey, tcKey, Prod.mk.injEq] at hk
    obtain ⟨tc', h'⟩ := findE_of_exists (p := fun (c : TransportCfg) => c.id == t.id) .invalidKey htc (by simp [hk.1])
    simp only [h', except_bind_ok, except_pure]
    exact ⟨_, rfl⟩
  · intro l _; exact ⟨_, rfl⟩

/-- a job that is not running and not finished has an idle record -/
theorem idle_of_not_allDone {s : State} (hS : SchedInv s) {j : JobState} (hj : j ∈ s.jobs) (hr : j.running = false)
    (hnd : j.allDone = false) : ∃ o, j.nextIdle? = some o := by
  apply nextIdle_of_any
  unfold JobState.allDone at hnd
  have : ∃ o ∈ j.ops, ¬ (o.st == OSt.done) = true := by
    apply Classical.byContradiction
    intro hno
    have : j.ops.all (·.st == .done) = true := by
      apply List.all_eq_true.mpr
      intro o ho
      apply Classical.byContradiction
      intro h
      exact hno ⟨o, ho, h⟩
    rw [this] at hnd; cases hnd
  obtain ⟨o, ho, hnd'⟩ := this
  apply List.any_eq_true.mpr
  refine ⟨o, ho, ?_⟩
  have hm := OpsOK_mem _ _ (hS.ops j hj) o ho
  have hnp : o.st ≠ .processing := by
    intro e
    have : j.running = true := by
      unfold JobState.running
      exact List.any_eq_true.mpr ⟨o, ho, by simp [e]⟩
    rw [hr] at this; cases this
  cases hst : o.st with
  | idle => rfl
  | done => simp [hst] at hnd'
  | processing => exact absurd hst hnp
  | transport => exact absurd hst hm.2.2

theorem transportable_total (w : WF inst) {s : State} (hI : StructInv inst s) (hS : SchedInv s)
    {j : JobState} (hj : j ∈ s.jobs) (hr : j.running = false) : ∃ b, transportable inst s j = .ok b := by
  have hs := hI.shape
  unfold transportable
  by_cases hd : jobDone inst j = true
  · simp only [hd]; exact ⟨false, rfl⟩
  · by_cases hall : j.allDone = true
    · simp only [hd, hall]; exact ⟨true, rfl⟩
    · have hall' : j.allDone = false := by simpa using hall
      obtain ⟨o, hn⟩ := idle_of_not_allDone hS hj hr hall'
      have hnn := nextNotDone_of_idle hS hj hr hn
      have ho : o ∈ j.ops := List.mem_of_find?_eq_some hn
      obtain ⟨m, _, _, hgm⟩ := getMachine_of_op w hs hj ho
      simp only [hd, hall, hn, hgm, jobAtMachine, hnn, bind, Except.bind, pure, Except.pure]
      by_cases hat : (m.pre.id == j.loc) = true
      · simp [hat]
      · simp [hat]

/-- **`get_possible_transport_transition` never raises** -/
theorem possibleTransportTransitions_total (w : WF inst) {s : State} (hI : StructInv inst s)
    (hS : SchedInv s) (cfg : SMConfig) : ∃ pt, possibleTransportTransitions inst cfg s = .ok pt := by
  have hs := hI.shape
  obtain ⟨ts, hts⟩ := possibleTransports_total hs
  obtain ⟨idle, hidle⟩ := filterE_ok_of_total (p := transportable inst s) (l := s.jobs.filter (!·.running))
    (fun j hj => transportable_total w hI hS (List.mem_filter.mp hj).1 (by simpa using (List.mem_filter.mp hj).2))
  have hsub : ∀ j ∈ (s.jobs.filter (·.running) ++ idle).filter
      (fun j => !(s.transports.filterMap (·.job)).contains j.id), j ∈ s.jobs := by
    intro j hjm
    rcases List.mem_append.mp (List.mem_filter.mp hjm).1 with h1 | h1
    · exact (List.mem_filter.mp h1).1
    · exact (List.mem_filter.mp (filterE_ok hidle j h1).1).1
  obtain ⟨lonely, hlonely⟩ : ∃ l, earlyFilter inst cfg s ((s.jobs.filter (·.running) ++ idle).filter
      (fun j => !(s.transports.filterMap (·.job)).contains j.id)) = .ok l := by
    unfold earlyFilter
    by_cases he : cfg.allowEarly = true
    · rw [if_pos he]; exact ⟨_, rfl⟩
    · rw [if_neg he]
      exact filterE_ok_of_total (fun j hj => readyForPickup_total w hI (hsub j hj))
  unfold possibleTransportTransitions
  simp only [hts, hidle, hlonely, except_bind_ok, except_pure]
  exact ⟨_, rfl⟩

theorem nextOpFree_of_actionPossible {s : State} {j : JobState} (h : actionPossible inst s j = .ok true) :
    j.nextOpFree = true := by
  unfold actionPossible at h
  by_cases hfree : j.nextOpFree = true
  · exact hfree
  · simp [hfree, pure, Except.pure] at h

set_option linter.unusedVariables false in
/-- **`get_possible_transitions` never raises** in a state of a classic instance
(`hA` is not used; it is kept so that the four totality theorems take the same invariants) -/
theorem possibleTransitions_total (w : WF inst) (hC : Classic inst) {s : State} (hI : StructInv inst s)
    (hS : SchedInv s) (hA : AgvFull inst s) (cfg : SMConfig) : ∃ poss, possibleTransitions inst cfg s = .ok poss := by
  obtain ⟨pj, hpj⟩ := possibleJobs_total w hC hI hS
  obtain ⟨pt, hpt⟩ := possibleTransportTransitions_total w hI hS cfg
  unfold possibleTransitions
  simp only [hpj, hpt, except_bind_ok]
  apply bind_ok_of_ok
  · apply mapM_ok_of_total
    intro j hjm
    have hap := (filterE_ok hpj j hjm).2
    have hfree := nextOpFree_of_actionPossible hap
    simp only [JobState.nextOpFree, Bool.and_eq_true, Bool.not_eq_true'] at hfree
    obtain ⟨o, hn⟩ := nextIdle_of_any hfree.2
    simp only [hn, except_pure]
    exact ⟨_, rfl⟩
  · intro l _; exact ⟨_, rfl⟩

set_option linter.unusedVariables false in
/-- **`get_num_possible_events` never raises** in a state of a classic instance (`hA` is not used) -/
theorem numPossibleEvents_total (w : WF inst) (hC : Classic inst) {s : State} (hI : StructInv inst s)
    (hS : SchedInv s) (hA : AgvFull inst s) (cfg : SMConfig) : ∃ n, numPossibleEvents inst cfg s = .ok n := by
  obtain ⟨pj, hpj⟩ := possibleJobs_total w hC hI hS
  obtain ⟨pt, hpt⟩ := possibleTransportTransitions_total w hI hS cfg
  unfold numPossibleEvents
  simp only [hpj, hpt, except_bind_ok, except_pure]
  exact ⟨_, rfl⟩

/-! ## the teleport filter -/

theorem op_machine_cfg (w : WF inst) {s : State} (hs : Shape inst s) {j : JobState} (hj : j ∈ s.jobs)
    {o : OpState} (ho : o ∈ j.ops) : ∃ mc ∈ inst.machines, mc.id = o.machine := by
  obtain ⟨jc, hjc, hk⟩ := hs.job_cfg hj
  simp only [jKey, jcKey, Prod.mk.injEq] at hk
  obtain ⟨oc, hoc, e⟩ := mem_of_map_eq hk.2 ho
  simp only [opKey, ocKey, Prod.mk.injEq] at e
  obtain ⟨mc, hmc, hid⟩ := w.opMachine jc hjc oc hoc
  exact ⟨mc, hmc, by rw [hid, e.2.2]⟩

theorem firstOutput_locsOf {o : Nat} (h : firstOutput inst = .ok o) : Loc.b o ∈ locsOf inst := by
  unfold firstOutput at h
  cases hob : outputBuffers inst with
  | nil => simp [hob] at h
  | cons b bs =>
    simp [hob] at h
    have hb : b ∈ outputBuffers inst := by rw [hob]; simp
    unfold outputBuffers at hb
    have hb' := (List.mem_filter.mp hb).1
    unfold locsOf
    exact List.mem_append.mpr (Or.inr (List.mem_map.mpr ⟨b, hb', by rw [h]⟩))

theorem machine_locsOf {mc : MachineCfg} (h : mc ∈ inst.machines) : Loc.m mc.id ∈ locsOf inst := by
  unfold locsOf
  exact List.mem_append.mpr (Or.inl (List.mem_map.mpr ⟨mc, h, rfl⟩))

theorem buffer_locsOf {bc : BufCfg} (h : bc ∈ inst.buffers) : Loc.b bc.id ∈ locsOf inst := by
  unfold locsOf
  exact List.mem_append.mpr (Or.inr (List.mem_map.mpr ⟨bc, h, rfl⟩))

/-- a job with an idle record: the machine of its first idle record is a place of the shop -/
theorem nextIdle_of_not_noOpIdle (w : WF inst) {s : State} (hs : Shape inst s) {j : JobState} (hj : j ∈ s.jobs)
    (hn : ¬ j.noOpIdle = true) : ∃ o, j.nextIdle? = some o ∧ Loc.m o.machine ∈ locsOf inst := by
  cases hni : j.nextIdle? with
  | some o =>
    obtain ⟨mc, hmc, hid⟩ := op_machine_cfg w hs hj (List.mem_of_find?_eq_some hni)
    exact ⟨o, rfl, by rw [← hid]; exact machine_locsOf hmc⟩
  | none =>
    exfalso
    apply hn
    unfold JobState.nextIdle? at hni
    have := List.find?_eq_none.mp hni
    unfold JobState.noOpIdle
    apply List.all_eq_true.mpr
    intro x hx
    simpa using this x hx

theorem travel_tail_total (hC : Classic inst) {c n : Loc} (hc : c ∈ locsOf inst) (hn : n ∈ locsOf inst)
    (orc : Oracle) (r : Rng) :
    ∃ tt, (if c == n then pure 0 else
      match travelCfg inst c n with
      | some x => pure (x.cur orc r)
      | none => throw .notImplemented : Except Err Int) = .ok tt := by
  have ht := hC.travel0 c hc n hn
  by_cases he : (c == n) = true
  · rw [if_pos he]; exact ⟨_, rfl⟩
  · rw [if_neg he]; simp only [ht]; exact ⟨_, rfl⟩

/-- the travel time the teleport filter asks for is defined for a job lying in a buffer that is a place of
the shop or belongs to a machine -/
theorem travelTimeForTransport_total (w : WF inst) (hC : Classic inst) {s : State} (hs : Shape inst s) {j : JobState}
    (hj : j ∈ s.jobs) {bc : BufCfg} (hgc : getBufCfg (allBufCfgs inst) j.loc = .ok bc) {c : Loc} (hc : c ∈ locsOf inst)
    (hpar : (bc.parent = none ∧ c = .b j.loc) ∨ (∃ mid, bc.parent = some (.m mid) ∧ c = .m mid))
    (orc : Oracle) (r : Rng) : ∃ tt, travelTimeForTransport orc inst r s (some j.id) = .ok tt := by
  unfold travelTimeForTransport
  simp only [getJobOpt, getJob_of_mem (hs.jobsNodup w) hj, hgc, except_bind_ok]
  by_cases hn : j.noOpIdle = true
  · obtain ⟨o, ho⟩ := hC.tables.output
    have hl := firstOutput_locsOf ho
    rcases hpar with ⟨hp, rfl⟩ | ⟨mid, hp, rfl⟩
    · simp only [hn, if_true, ho, except_map'_ok, except_bind_ok, hp, except_pure]
      exact travel_tail_total hC hc hl orc r
    · simp only [hn, if_true, ho, except_map'_ok, except_bind_ok, hp, except_pure]
      exact travel_tail_total hC hc hl orc r
  · obtain ⟨o, hni, hl⟩ := nextIdle_of_not_noOpIdle w hs hj hn
    rcases hpar with ⟨hp, rfl⟩ | ⟨mid, hp, rfl⟩
    · simp only [hn, hni, hp, except_pure, except_bind_ok, Bool.false_eq_true, if_false]
      exact travel_tail_total hC hc hl orc r
    · simp only [hn, hni, hp, except_pure, except_bind_ok, Bool.false_eq_true, if_false]
      exact travel_tail_total hC hc hl orc r

/-- a member of `pickupBufs` is a standalone buffer or the internal / post-buffer of a machine -/
theorem pickupBufs_parent (hC : Classic inst) {bc : BufCfg} (h : bc ∈ pickupBufs inst) :
    (bc.parent = none ∧ Loc.b bc.id ∈ locsOf inst) ∨ (∃ mid, bc.parent = some (.m mid) ∧ Loc.m mid ∈ locsOf inst) := by
  unfold pickupBufs at h
  rcases List.mem_append.mp h with h | h
  · have hb := (List.mem_filter.mp h).1
    exact Or.inl ⟨hC.parentB bc hb, buffer_locsOf hb⟩
  · obtain ⟨mc, hmc, hin⟩ := List.mem_flatMap.mp h
    simp only [List.mem_cons, List.not_mem_nil, or_false] at hin
    rcases hin with rfl | rfl
    · exact Or.inr ⟨mc.id, hC.parentBuf mc hmc, machine_locsOf hmc⟩
    · exact Or.inr ⟨mc.id, hC.parentPost mc hmc, machine_locsOf hmc⟩

/-- **`_filter_teleport_transitions` never raises** on the offers of a state of a classic instance -/
theorem filterTeleport_total (w : WF inst) (hC : Classic inst) {s : State} (hI : StructInv inst s)
    (hS : SchedInv s) (hA : AgvFull inst s) {cfg : SMConfig} {poss : List Transition}
    (hp : possibleTransitions inst cfg s = .ok poss) (r : Rng) :
    ∃ tele, filterTeleport orc inst r s poss = .ok tele := by
  have hs := hI.shape
  have key : ∀ x ∈ poss, ∃ tt, travelTimeForTransport orc inst r s x.job = .ok tt := by
    intro x hx
    rcases offer_cases hp x hx with ⟨j, hj, o, hap, hn, rfl⟩ | ⟨pt, hpt, hin⟩
    · -- a machine start: the job stands in the pre-buffer of the machine
      obtain ⟨m, hgm, _, hloc, _⟩ := actionPossible_facts hS hj hap hn
      have hm := (getMachine_ok hgm).1
      obtain ⟨mc, hmc, hk⟩ := hs.machine_cfg hm
      simp only [mKey, mcKey, Prod.mk.injEq] at hk
      have hgc := findE_of_mem (key := fun (y : BufCfg) => y.id) w.bufNodup (mem_allBufCfgs_of_machine hmc).1 .invalidValue
      have hid : mc.pre.id = j.loc := by rw [← hk.2.1, hloc]
      simp only [hid] at hgc
      exact travelTimeForTransport_total w hC hs hj hgc (machine_locsOf hmc)
        (Or.inr ⟨mc.id, hC.parentPre mc hmc, rfl⟩) orc r
    · -- a dispatch
      obtain ⟨t, ht, tc, j, hj, rfl, hst, htc, hty, hfree, hkind⟩ := dispatch_offer_facts hpt x hin
      have hnpre := offers_not_in_pre w hI hS hA.route hp _ hx rfl j.id rfl
      obtain ⟨bc, hbc, hpick, hid⟩ := offered_job_buffer w hI hA hj hfree hkind hnpre
      rcases pickupBufs_parent hC hpick with ⟨hp1, hl⟩ | ⟨mid, hp1, hl⟩
      · rw [hid] at hl
        exact travelTimeForTransport_total w hC hs hj hbc hl (Or.inl ⟨hp1, rfl⟩) orc r
      · exact travelTimeForTransport_total w hC hs hj hbc hl (Or.inr ⟨mid, hp1, rfl⟩) orc r
  unfold filterTeleport
  apply bind_ok_of_ok
  · apply filterE_ok_of_total
    intro x hx
    obtain ⟨tt, htt⟩ := key x hx
    simp only [htt, except_bind_ok, except_pure]
    exact ⟨_, rfl⟩
  · intro l _; exact ⟨_, rfl⟩

/-! ## states without offers -/

/-- with every AGV idle, a job that is not running and lies in a buffer AGVs pick up from (not an output
buffer) is on offer for a dispatch -/
theorem dispatch_offered (w : WF inst) (hF : FlexInst inst) (hAg : HasAgv inst) {cfg : SMConfig} {s : State}
    (hI : StructInv inst s) (hS : SchedInv s) (hidle : ∀ t ∈ s.transports, t.st = .idle)
    {j : JobState} (hj : j ∈ s.jobs) (hrun : j.running = false)
    {b : BufState} (hb : b ∈ allBufStates s) (hloc : j.loc = b.id) (hin : j.id ∈ b.store)
    (hk : pickupBufferKind inst b.id = true) (hout : j.loc ∉ outputIds inst)
    (hpre : ∀ m ∈ s.machines, m.pre.id ≠ j.loc)
    {pt : List Transition} (hpt : possibleTransportTransitions inst cfg s = .ok pt) : pt ≠ [] := by
  have hs := hI.shape
  have hcl : ¬ ∃ t ∈ s.transports, t.job = some j.id := by
    rintro ⟨t, ht, htj⟩
    have := hS.freeNoClaim t ht (Or.inl (hidle t ht))
    rw [this] at htj; cases htj
  obtain ⟨tc, htc, hty⟩ := hAg
  have : tc.id ∈ s.transports.map (·.id) := by rw [hs.transportIds]; exact List.mem_map.mpr ⟨tc, htc, rfl⟩
  obtain ⟨t0, ht0, hid⟩ := List.mem_map.mp this
  unfold possibleTransportTransitions at hpt
  obtain ⟨ts, hts, hpt⟩ := except_bind_eq_ok hpt
  obtain ⟨idle, hidl, hpt⟩ := except_bind_eq_ok hpt
  simp only at hpt
  obtain ⟨lonely, hlonely, hpt⟩ := except_bind_eq_ok hpt
  simp at hpt; subst hpt
  have ht0' : t0 ∈ ts := possibleTransports_mem w hts ht0 (hidle t0 ht0) htc hid.symm hty
  have hjf : j ∈ s.jobs.filter (!·.running) := List.mem_filter.mpr ⟨hj, by simp [hrun]⟩
  obtain ⟨b', hb'⟩ := filterE_total hidl j hjf
  have hbt := transportable_true hout hpre hb'
  subst hbt
  have hji : j ∈ idle := filterE_mem_of_true hidl j hjf hb'
  have hjl : j ∈ (s.jobs.filter (·.running) ++ idle).filter
      (fun j => !(s.transports.filterMap (·.job)).contains j.id) := by
    apply List.mem_filter.mpr
    refine ⟨List.mem_append.mpr (Or.inr hji), ?_⟩
    cases hc : (s.transports.filterMap (·.job)).contains j.id with
    | false => rfl
    | true =>
      obtain ⟨t, ht, e⟩ := List.mem_filterMap.mp (List.contains_iff_mem.mp hc)
      exact absurd ⟨t, ht, e⟩ hcl
  have hjlo : j ∈ lonely := by
    unfold earlyFilter at hlonely
    by_cases he : cfg.allowEarly = true
    · rw [if_pos he] at hlonely
      injection hlonely with h'
      rw [← h']; exact hjl
    · rw [if_neg he] at hlonely
      exact filterE_mem_of_true hlonely j hjl (readyForPickup_flex w hF hs hb hloc hin hk)
  intro e
  have hmem : ({ comp := .t t0.id, new := .t .working, job := some j.id } : Transition) ∈
      ts.flatMap (fun t => lonely.map fun j => ({ comp := .t t.id, new := .t .working, job := some j.id } : Transition)) :=
    List.mem_flatMap.mpr ⟨t0, ht0', List.mem_map.mpr ⟨j, hjlo, rfl⟩⟩
  rw [e] at hmem; cases hmem

set_option linter.unusedVariables false in
/-- with every AGV idle and no dispatch on offer, every job that is not running and has an idle record stands in the
pre-buffer of the machine of that record -/
theorem no_dispatch_at_pre (w : WF inst) (hC : Classic inst) {s : State} (hI : StructInv inst s) (hS : SchedInv s)
    (hA : AgvFull inst s) {cfg : SMConfig} (he : cfg.allowEarly = false) (hidle : ∀ t ∈ s.transports, t.st = .idle)
    {pt : List Transition} (hpt : possibleTransportTransitions inst cfg s = .ok pt) (hnil : pt = []) :
    ∀ j ∈ s.jobs, j.running = false → ∀ o, j.nextIdle? = some o →
      ∃ m ∈ s.machines, m.id = o.machine ∧ m.pre.id = j.loc ∧ j.id ∈ m.pre.store := by
  intro j hj hrun o hn
  have hs := hI.shape
  have hjn := hs.jobsNodup w
  obtain ⟨b, hb, hbid, hin⟩ := job_buffer hI hj
  have hout : j.loc ∉ outputIds inst := by
    intro h
    have hd := hA.route.delivered j hj h o (List.mem_of_find?_eq_some hn)
    have hi : (o.st == OSt.idle) = true := (find?_mem_ops hn).2
    rw [hd] at hi; cases hi
  rcases (mem_allBufs s b).mp hb with hb1 | ⟨m, hm, rfl | rfl | rfl⟩ | ⟨t, ht, rfl⟩
  · -- a standalone buffer that is not an output buffer: the dispatch would be on offer
    exfalso
    have hp := (ids_parts hs w).1 b hb1
    exact dispatch_offered w hC.flex hC.hasAgv hI hS hidle hj hrun hb hbid.symm hin (kind_of_buffer hs hb1) hout
      (fun m hm => by rw [← hbid]; exact (hp m hm).1.symm) hpt hnil
  · -- the pre-buffer of `m`
    obtain ⟨op, hni, hopm⟩ := hA.route.preNext m hm j.id hin j hj rfl
    rw [hn] at hni
    injection hni with hni
    subst hni
    exact ⟨m, hm, hopm.symm, hbid, hin⟩
  · -- the internal buffer of `m`: the job would be running
    exfalso
    have hbusy : m.st ≠ .idle := by
      intro e
      have := hS.idleEmpty m hm e
      rw [this] at hin; cases hin
    obtain ⟨j', hj', hst, op, hp, _⟩ := hS.busyHolds m hm hbusy
    rw [hst] at hin
    have hid : j.id = j'.id := by simpa using hin
    have : j = j' := eq_of_mem_of_key_eq (key := fun (y : JobState) => y.id) hjn hj hj' hid
    subst this
    have : j.running = true := by
      unfold JobState.running
      unfold JobState.processing? at hp
      exact List.any_eq_true.mpr ⟨op, (find?_mem_ops hp).1, (find?_mem_ops hp).2⟩
    rw [hrun] at this; cases this
  · -- the post-buffer of `m`: the dispatch would be on offer
    exfalso
    exact dispatch_offered w hC.flex hC.hasAgv hI hS hidle hj hrun hb hbid.symm hin (kind_of_post hs hm) hout
      (fun m2 hm2 => by
        rw [← hbid]
        by_cases e2 : m2.id = m.id
        · have : m2 = m := eq_of_mem_of_key_eq (key := fun (y : MachineState) => y.id) (hs.machNodup w) hm2 hm e2
          subst this; exact (machine_buf_ids_ne hs w hm2).2.1
        · exact machines_bufs_ne hs w hm2 hm e2 _ (by simp) _ (by simp)) hpt hnil
  · -- on an AGV: idle AGVs are empty
    exfalso
    have := hA.agv.empty t ht (by rw [hidle t ht]; simp)
    rw [this] at hin; cases hin

/-- a dead point: every AGV idle and nothing on offer — then the machine of the next operation of every waiting job is busy -/
theorem dead_point_busy (w : WF inst) (hC : Classic inst) {s : State} (hI : StructInv inst s) (hS : SchedInv s)
    (hA : AgvFull inst s) {cfg : SMConfig} (he : cfg.allowEarly = false) (hidle : ∀ t ∈ s.transports, t.st = .idle)
    (h0 : numPossibleEvents inst cfg s = .ok 0) :
    ∀ j ∈ s.jobs, j.running = false → ∀ o, j.nextIdle? = some o → ∀ m ∈ s.machines, m.id = o.machine → m.st ≠ .idle := by
  intro j hj hrun o hn m hm hmid hst
  have hs := hI.shape
  unfold numPossibleEvents at h0
  obtain ⟨pt, hpt, h0⟩ := except_bind_eq_ok h0
  obtain ⟨pj, hpj, h0⟩ := except_bind_eq_ok h0
  simp only [except_pure, Except.ok.injEq] at h0
  have hptn : pt = [] := List.eq_nil_of_length_eq_zero (by omega)
  have hpjn : pj = [] := List.eq_nil_of_length_eq_zero (by omega)
  obtain ⟨m', hm', hid', _, hin⟩ := no_dispatch_at_pre w hC hI hS hA he hidle hpt hptn j hj hrun o hn
  have : m' = m := eq_of_mem_of_key_eq (key := fun (y : MachineState) => y.id) (hs.machNodup w) hm' hm
    (by rw [hid', hmid])
  subst this
  unfold possibleJobs at hpj
  obtain ⟨b', hb'⟩ := filterE_total hpj j hj
  have := actionPossible_true w hI hS hA.route hj hm hst hin hb'
  subst this
  have := filterE_mem_of_true hpj j hj hb'
  rw [hpjn] at this; cases this

end JSL
