import JSL.Inv.EnvReach

/-!
# Durations of operations with a stochastic processing time

`Dur.lean` treats operations whose configured duration is a constant.  Here the configured
duration is a stochastic object `sid`: when processing begins (`SETUP → WORKING`) the handler calls
`update()` and reads the value, i.e. `orc sid (r sid + 1)` – a sample with index `k ≥ 1` (index 0
is the value the object was created with).  The recorded interval of the operation is at least that
sample, exactly that sample when the machine has no outage configured, and the same holds for the
end scheduled for an operation in progress on a WORKING / OUTAGE machine.
-/

namespace JSL

variable {orc : Oracle} {inst : Instance}

/-- `sid` is the stochastic object configured as duration of the operation this record belongs to -/
def stochDur (inst : Instance) (o : OpState) (sid : Nat) : Prop :=
  ∃ oc ∈ inst.jobs.flatMap (·.ops), oc.job = o.job ∧ oc.idx = o.idx ∧ oc.dur = .stoch sid

/-- the record spans (at least / without outages exactly) the `k`-th sample of its duration object,
`k ≥ 1` being the index of the sample drawn when processing began -/
def DurOKS (orc : Oracle) (inst : Instance) (o : OpState) : Prop :=
  ∀ sid, stochDur inst o sid → ∃ a b k, 1 ≤ k ∧ o.start = some a ∧ o.stop = some b ∧ a + orc sid k ≤ b ∧
    (noOutages inst o.machine → b = a + orc sid k)

structure DurInvS (orc : Oracle) (inst : Instance) (s : State) : Prop where
  done : ∀ j ∈ s.jobs, ∀ o ∈ j.ops, o.st = .done → DurOKS orc inst o
  running : ∀ j ∈ s.jobs, ∀ o ∈ j.ops, o.st = .processing → ∀ m ∈ s.machines, m.id = o.machine →
    (m.st = .working ∨ m.st = .outage) → DurOKS orc inst o

/-- the statement without the bound on the index of the sample -/
theorem DurOKS.weaken {o : OpState} (h : DurOKS orc inst o) :
    ∀ sid, stochDur inst o sid → ∃ a b k, o.start = some a ∧ o.stop = some b ∧ a + orc sid k ≤ b ∧
      (noOutages inst o.machine → b = a + orc sid k) := by
  intro sid hs
  obtain ⟨a, b, k, _, h1, h2, h3, h4⟩ := h sid hs
  exact ⟨a, b, k, h1, h2, h3, h4⟩

/-- the common shape of the four machine handlers -/
theorem durS_step (w : WF inst) {s s' : State} (hI : StructInv inst s) (hP : DurInvS orc inst s)
    {j J' : JobState} {m0 M' : MachineState} {rec : OpState} (hj : j ∈ s.jobs) (hm0 : m0 ∈ s.machines)
    (hJid : J'.id = j.id) (hJops : J'.ops = (j.replaceOp rec).ops) (hMid : M'.id = m0.id)
    (hjobs : s'.jobs = (s.replaceJob J').jobs) (hmach : s'.machines = (s.replaceMachine M').machines)
    (hrecm : rec.machine = m0.id)
    (hrecd : rec.st = .done → DurOKS orc inst rec)
    (hrecp : rec.st = .processing → (M'.st = .working ∨ M'.st = .outage) → DurOKS orc inst rec)
    (hother : ∀ o ∈ j.ops, ¬ (o.job = rec.job ∧ o.idx = rec.idx) → o.st = .processing →
      (M'.st = .working ∨ M'.st = .outage) → False)
    (hforeign : ∀ j1 ∈ s.jobs, j1.id ≠ j.id → ∀ o ∈ j1.ops, o.st = .processing → o.machine = m0.id →
      (M'.st = .working ∨ M'.st = .outage) → False) :
    DurInvS orc inst s' := by
  have hjn := hI.shape.jobsNodup w
  have hmn := hI.shape.machNodup w
  constructor
  · intro j1 hj1 o ho hst
    rw [hjobs] at hj1
    rcases (mem_replaceJob hjn hj hJid j1).mp hj1 with rfl | ⟨hj0, _⟩
    · rw [hJops] at ho
      rcases mem_replaceOp.mp ho with ⟨rfl, _⟩ | ⟨ho', _⟩
      · exact hrecd hst
      · exact hP.done j hj o ho' hst
    · exact hP.done j1 hj0 o ho hst
  · intro j1 hj1 o ho hst m1 hm1 hid hmst
    rw [hjobs] at hj1
    rw [hmach] at hm1
    rcases (mem_replaceMachine hmn hm0 hMid m1).mp hm1 with rfl | ⟨hm1', hne⟩
    · rcases (mem_replaceJob hjn hj hJid j1).mp hj1 with rfl | ⟨hj0, hjne⟩
      · rw [hJops] at ho
        rcases mem_replaceOp.mp ho with ⟨rfl, _⟩ | ⟨ho', hk⟩
        · exact hrecp hst hmst
        · exact (hother o ho' hk hst hmst).elim
      · exact (hforeign j1 hj0 hjne o ho hst (by rw [← hid, hMid]) hmst).elim
    · rcases (mem_replaceJob hjn hj hJid j1).mp hj1 with rfl | ⟨hj0, _⟩
      · rw [hJops] at ho
        rcases mem_replaceOp.mp ho with ⟨rfl, _⟩ | ⟨ho', _⟩
        · exact absurd (by rw [hid, hrecm]) hne
        · exact hP.running j hj o ho' hst m1 hm1' hid hmst
      · exact hP.running j1 hj0 o ho hst m1 hm1' hid hmst

theorem stochDur_congr {o o' : OpState} (h1 : o'.job = o.job) (h2 : o'.idx = o.idx) {sid : Nat} :
    stochDur inst o' sid ↔ stochDur inst o sid := by
  unfold stochDur; rw [h1, h2]

/-- `update()` then `.time` of a stochastic object: the next sample -/
theorem updRead_stoch {c : TimeCfg} {sid : Nat} (r : Rng) (h : c = .stoch sid) :
    (c.updRead orc r).1 = orc sid (r sid + 1) := by
  subst h; rfl

/-- **one transition keeps the stochastic duration invariant** and the due-guard of the rest of
the batch -/
theorem applyTransition_durS (w : WF inst) (nn : NonNeg orc inst) {s s' : State} {r r' : Rng} {tr : Transition}
    {R : List Transition} (hI : StructInv inst s) (hS : SchedInv s) (hP : DurInvS orc inst s)
    (hsafe : Safe s (tr :: R)) (hgs : DueGS s (tr :: R))
    (h : applyTransition orc inst s r tr = .ok (s', r')) : DurInvS orc inst s' ∧ DueGS s' R := by
  have hs := hI.shape
  have htime := applyTransition_time h
  have hg := hsafe.guard
  have h0 := h
  -- the guard of the rest
  have hrest : DueGS s' R := by
    refine ⟨?_, (List.pairwise_cons.mp hgs.once).2⟩
    intro t ht mid hc hn m' hm' hid
    have hne : tr.comp ≠ .m mid := (List.pairwise_cons.mp hgs.once).1 t ht mid hc hn
    rw [htime]
    cases hc0 : tr.comp with
    | m mid0 =>
      have := (machine_effect w hI hc0 h0).1 m' hm' (by intro e; apply hne; rw [hc0, ← e, hid])
      exact hgs.due t (by simp [ht]) mid hc hn m' this hid
    | t tid =>
      obtain ⟨m, hm, e1, _, e3⟩ := (agv_effect w hI hc0 h0).1 m' hm'
      rw [← e3]
      exact hgs.due t (by simp [ht]) mid hc hn m hm (by rw [e1, hid])
    | b bid =>
      unfold applyTransition at h0
      simp only [hc0] at h0
      obtain ⟨_, _, h0⟩ := except_bind_eq_ok h0
      simp at h0
  refine ⟨?_, hrest⟩
  unfold applyTransition at h
  cases hc : tr.comp with
  | t tid =>
    obtain ⟨hm, hj⟩ := agv_effect w hI hc h0
    constructor
    · intro j1 hj1 o ho hst
      obtain ⟨j, hj0, _, e⟩ := hj j1 hj1
      exact hP.done j hj0 o (by rw [e]; exact ho) hst
    · intro j1 hj1 o ho hst m1 hm1 hid hmst
      obtain ⟨j, hj0, _, e⟩ := hj j1 hj1
      obtain ⟨m, hm0, e1, e2, _⟩ := hm m1 hm1
      exact hP.running j hj0 o (by rw [e]; exact ho) hst m hm0 (by rw [e1, hid]) (by rw [e2]; exact hmst)
  | b bid =>
    simp only [hc] at h
    obtain ⟨_, _, h⟩ := except_bind_eq_ok h
    simp at h
  | m mid =>
    simp only [hc] at h
    obtain ⟨m0, hm0, h⟩ := except_bind_eq_ok h
    unfold handleMachineTransition at h
    obtain ⟨m, hm, h⟩ := except_bind_eq_ok h
    rw [hm0] at hm; simp at hm; subst hm
    have hmem := getMachine_ok hm0
    obtain ⟨hd, hh, h⟩ := except_bind_eq_ok h
    unfold machineHandlerOf at hh
    cases hn : tr.new with
    | t ns => simp [hn] at hh
    | m ns =>
      simp only [hn] at hh
      cases hmh : machineHandler m0.st ns with
      | none => simp [hmh] at hh
      | some hd' =>
        simp [hmh] at hh; subst hh
        cases hd' with
        | idleToSetup =>
          obtain ⟨j, op, oc, mc, sd, b1, b2, hj, _, _, _, _, _, _, _, _, _, _, rfl⟩ := idleToSetup_spec h
          exact durS_step w hI hP (rec := opRec oc s.time (s.time + sd) m0.id) hj hmem.1 (by simp) (by simp)
            (by simp [MachineState.toSetup]) rfl rfl rfl (by simp [opRec])
            (by intro _ h'; simp [MachineState.toSetup] at h')
            (by intro _ _ _ _ h'; simp [MachineState.toSetup] at h')
            (by intro _ _ _ _ _ _ _ h'; simp [MachineState.toSetup] at h')
        | setupToWorking =>
          have hst0 := (machineHandler_setupToWorking hmh).1
          obtain ⟨j, op, oc, d, hj, _, hjin, hnn, hoc, hocj, hoci, hd, rfl⟩ := setupToWorking_spec h
          have hbusy : m0.st ≠ .idle := by rw [hst0]; simp
          obtain ⟨_, op0, hp0, _, _, _⟩ := busy_job hI hS w hmem.1 hbusy hj hjin
          have hop0 : op0 = op := by
            have := nextNotDone_of_processing (hS.ops j hj) hp0
            rw [hnn] at this; simpa using this.symm
          subst hop0
          refine durS_step w hI hP (rec := opRec oc s.time (s.time + d) m0.id) hj hmem.1 (by simp) (by simp)
            (by simp [MachineState.toWorking]) rfl rfl rfl (by simp [opRec]) ?_ ?_ ?_
          · intro _ _ sid ⟨oc', hoc', e1, e2, e3⟩
            have : oc' = oc := opCfg_unique w hoc' hoc (by simpa [opRec] using e1) (by simpa [opRec] using e2)
            subst this
            have hd' : d = orc sid (r sid + 1) := by
              have := congrArg Prod.fst hd; simp only at this; rw [this, updRead_stoch r e3]
            subst hd'
            exact ⟨s.time, s.time + orc sid (r sid + 1), r sid + 1, Nat.le_add_left 1 _, rfl, rfl,
              Int.le_refl _, fun _ => rfl⟩
          · intro o ho hk hst _
            have := only_running hS hj hp0 ho hst
            subst this
            exact hk ⟨by simp [opRec, hocj], by simp [opRec, hoci]⟩
          · intro j1 hj1 hne o ho hst hom _
            exact foreign_not_on w hI hS hmem.1 hjin hj1 hne ho hst hom
        | workingToOutage =>
          have hst0 := (machineHandler_workingToOutage hmh)
          obtain ⟨mc, outs, j, op, hmc, hmcid, hnew, hj, htj, hp, rfl⟩ := workingToOutage_spec h
          have hbusy : m0.st ≠ .idle := by rw [hst0.1]; simp
          have hjin : j.id ∈ m0.buffer.store := hg.ownJob mid hc (by rw [hn, hst0.2]) m0 hmem.1 hmem.2 j.id htj
          obtain ⟨_, op0, hp0, hmach0, hstop0, hne0⟩ := busy_job hI hS w hmem.1 hbusy hj hjin
          have : op0 = op := by rw [hp] at hp0; simpa using hp0.symm
          subst this
          obtain ⟨l1, l2, hl, _, hpst⟩ := processing?_split' hp
          have hopmem : op0 ∈ j.ops := by rw [hl]; simp
          have hdue := hgs.due tr (by simp) mid hc (Or.inl (by rw [hn, hst0.2])) m0 hmem.1 hmem.2
          have hocc := occupiedFor_new_nonneg nn.orc (fun o ho => nn.mout mc hmc o ho) hnew
          refine durS_step w hI hP (rec := { op0 with stop := some (s.time + occupiedFor outs) })
            (J' := j.replaceOp { op0 with stop := some (s.time + occupiedFor outs) })
            (M' := m0.toOutage outs (s.time + occupiedFor outs)) hj hmem.1 rfl rfl
            (by simp [MachineState.toOutage]) rfl rfl hmach0 (by simp [hpst]) ?_ ?_ ?_
          · intro _ _ sid hdd
            have hdd' : stochDur inst op0 sid := (stochDur_congr (by simp) (by simp)).mp hdd
            obtain ⟨a, b, k, hk1, h1, h2, h3, h4⟩ :=
              hP.running j hj op0 hopmem hpst m0 hmem.1 hmach0.symm (Or.inl hst0.1) sid hdd'
            obtain ⟨_, b', _, hb', _, _, hnb⟩ := (OpsOK_mem _ _ (hS.ops j hj) op0 hopmem).2.1 hpst
            rw [h2] at hb'; simp at hb'; subst hb'
            have hbn : b ≤ s.time := by
              rw [← hstop0, h2] at hdue; simpa [dueAt] using hdue
            refine ⟨a, s.time + occupiedFor outs, k, hk1, h1, rfl, by omega, ?_⟩
            intro hno
            have hno' : mc.outages = [] := hno mc hmc (by rw [hmcid, hmach0])
            rw [hno'] at hnew
            simp [newOutageStates] at hnew
            obtain ⟨rfl, _⟩ := hnew
            have := h4 (by simpa using hno)
            simp [occupiedFor, activeDurations]
            omega
          · intro o ho hk hst _
            have := only_running hS hj hp ho hst
            subst this
            exact hk ⟨rfl, rfl⟩
          · intro j1 hj1 hne o ho hst hom _
            exact foreign_not_on w hI hS hmem.1 hjin hj1 hne ho hst hom
        | outageToIdle =>
          have hst0 := (machineHandler_outageToIdle hmh)
          obtain ⟨j, op, mc, rest, b1, b2, hstore, hj, hp, _, _, _, _, rfl⟩ := outageToIdle_spec h
          have hbusy : m0.st ≠ .idle := by rw [hst0.1]; simp
          have hjin : j.id ∈ m0.buffer.store := by rw [hstore]; simp
          obtain ⟨_, op0, hp0, hmach0, hstop0, hne0⟩ := busy_job hI hS w hmem.1 hbusy hj hjin
          have : op0 = op := by rw [hp] at hp0; simpa using hp0.symm
          subst this
          obtain ⟨l1, l2, hl, _, hpst⟩ := processing?_split' hp
          have hopmem : op0 ∈ j.ops := by rw [hl]; simp
          have hdue := hgs.due tr (by simp) mid hc (Or.inr (by rw [hn, hst0.2])) m0 hmem.1 hmem.2
          refine durS_step w hI hP (rec := { op0 with stop := some s.time, st := .done }) hj hmem.1 (by simp) (by simp)
            (by simp [MachineState.toIdle]) rfl rfl hmach0 ?_ (by intro h'; simp at h') ?_ ?_
          · intro _ sid hdd
            have hdd' : stochDur inst op0 sid := (stochDur_congr (by simp) (by simp)).mp hdd
            obtain ⟨a, b, k, hk1, h1, h2, h3, h4⟩ :=
              hP.running j hj op0 hopmem hpst m0 hmem.1 hmach0.symm (Or.inr hst0.1) sid hdd'
            obtain ⟨_, b', _, hb', _, _, hnb⟩ := (OpsOK_mem _ _ (hS.ops j hj) op0 hopmem).2.1 hpst
            rw [h2] at hb'; simp at hb'; subst hb'
            have hbn : b ≤ s.time := by
              rw [← hstop0, h2] at hdue; simpa [dueAt] using hdue
            refine ⟨a, s.time, k, hk1, h1, rfl, by omega, ?_⟩
            intro hno
            have := h4 (by simpa using hno)
            omega
          · intro _ _ _ _ h'; simp [MachineState.toIdle] at h'
          · intro _ _ _ _ _ _ _ h'; simp [MachineState.toIdle] at h'

/-- **The stochastic duration pass.** -/
def DurStochPass (orc : Oracle) (inst : Instance) (cfg : SMConfig) (w : WF inst) (nn : NonNeg orc inst) :
    Pass orc inst cfg where
  P := DurInvS orc inst
  GS := DueGS
  Adm := fun _ a => ∀ tr ∈ a.transitions, OfferShaped tr
  tail := fun h => h.tail
  step := fun hI hS hP _ hsafe _ hgs ha => applyTransition_durS w nn hI hS hP hsafe hgs ha
  advance := fun _ _ hP _ _ => ⟨hP.done, hP.running⟩
  timed := fun hI hS _ htt hposs htele => timed_due w hI hS htt (filterTeleport_shape hposs htele)
  timedOnly := fun hI hS _ htt => by simpa using timed_due w hI hS (tele := []) htt (by simp)
  action := fun {s a} _ _ _ hadm => by
    have hsh : ∀ tr ∈ sortedByTransport a.transitions, ¬ (tr.new = .m .outage ∨ tr.new = .m .idle) := by
      intro tr htr hn
      rcases hadm tr (mem_sortedByTransport htr) with e | e <;> rw [e] at hn <;> simp at hn
    refine ⟨fun tr htr mid _ hn => absurd hn (hsh tr htr), ?_⟩
    apply List.pairwise_of_forall_mem_list
    intro a _ b hb mid _ hn
    exact absurd hn (hsh b hb)

theorem DurInvS.of_time {s : State} {t : Int} (h : DurInvS orc inst { s with time := t }) : DurInvS orc inst s :=
  ⟨h.done, h.running⟩

/-- at rest nothing has started: the invariant holds vacuously -/
theorem DurInvS.of_rest {s : State} (h : restB s = true) : DurInvS orc inst s := by
  simp only [restB, Bool.and_eq_true, List.all_eq_true, beq_iff_eq] at h
  obtain ⟨⟨_, hj⟩, _⟩ := h
  constructor
  · intro j hj' o ho hst
    rw [hj j hj' o ho] at hst; cases hst
  · intro j hj' o ho hst
    rw [hj j hj' o ho] at hst; cases hst

/-! ## along admissible executions -/

/-- the stochastic duration invariant along every admissible execution -/
theorem occursA_durS {cfg : SMConfig} {s0 σ : State} (hst : Start orc inst s0) (h : OccursA orc inst cfg s0 σ) :
    DurInvS orc inst σ := by
  obtain ⟨w, _⟩ := initOKB_sound hst.init
  have nn := nonnegB_sound hst.samples hst.nonneg
  exact occursA_pass (DurStochPass orc inst cfg w nn) hst (DurInvS.of_rest hst.rest) (fun _ _ ha => ha.shaped) h

/-- … and in the state a step returns, done or not -/
theorem final_durS {cfg : SMConfig} {s0 s : State} (hst : Start orc inst s0) (h : OccursA orc inst cfg s0 s)
    {a : Action} (ha : Admissible a) {fuel : Nat} {r r' : Rng} {res : SMResult} {mic : List State}
    (hstep : smStep orc inst cfg fuel s r a = .ok (res, r', mic)) : DurInvS orc inst res.state := by
  obtain ⟨w, hI, hS⟩ := occursA_inv hst h
  have nn := nonnegB_sound hst.samples hst.nonneg
  obtain ⟨t, ht⟩ := ((DurStochPass orc inst cfg w nn).smStep w nn hI hS (occursA_durS hst h) ha ha.shaped hstep).2.2.1
  exact DurInvS.of_time ht

/-! ## along the episodes of the environment -/

/-- what is carried for a result the environment holds -/
structure ResDurS (orc : Oracle) (inst : Instance) (res : SMResult) : Prop where
  dur : DurInvS orc inst res.state
  subsDur : ∀ σ ∈ res.subStates, DurInvS orc inst σ

/-- one state-machine step from a state of an admissible execution -/
theorem smStep_resDurS {cfg : SMConfig} {s0 s : State} (hst : Start orc inst s0) (h : OccursA orc inst cfg s0 s)
    {a : Action} (ha : Admissible a) {fuel : Nat} {r r' : Rng} {res : SMResult} {mic : List State}
    (hstep : smStep orc inst cfg fuel s r a = .ok (res, r', mic)) :
    ResDurS orc inst res ∧ ∀ σ ∈ mic, DurInvS orc inst σ :=
  ⟨⟨final_durS hst h ha hstep, fun _ hσ => occursA_durS hst (OccursA.sub h ha hstep hσ)⟩,
    fun _ hσ => occursA_durS hst (OccursA.micro h ha hstep hσ)⟩

theorem envReset_durS {ec : EnvCfg} {s0 : State} (hst : Start orc inst s0) {r : Rng} {e : EnvState} {mic : List State}
    (h : envReset orc inst ec s0 r = .ok (e, mic)) :
    ResDurS orc inst e.res ∧ ∀ σ ∈ mic, DurInvS orc inst σ := by
  unfold envReset mwReset at h
  obtain ⟨⟨res, mw, r', mic'⟩, h1, h⟩ := except_bind_eq_ok h
  obtain ⟨⟨res', r'', mic''⟩, h2, h1⟩ := except_bind_eq_ok h1
  simp at h1 h
  obtain ⟨rfl, rfl, rfl, rfl⟩ := h1
  obtain ⟨rfl, rfl⟩ := h
  exact smStep_resDurS (cfg := ec.sm) hst OccursA.init admissible_noOp h2

theorem envStep_durS {ec : EnvCfg} {st : RewardStatic} {s0 : State} (hst : Start orc inst s0) {e : EnvState}
    (hi : ResInv orc inst ec.sm s0 e.res) (hd : ResDurS orc inst e.res) {a : AgentAct} {out : StepOut}
    (h : envStep orc inst ec st e a = .ok out) :
    ResDurS orc inst out.env.res ∧ ∀ σ ∈ out.micro, DurInvS orc inst σ := by
  unfold envStep at h
  split at h
  · simp at h
  · obtain ⟨⟨res', mw, r, mic⟩, hm, h⟩ := except_bind_eq_ok h
    simp only at h
    obtain ⟨⟨rew, cnt⟩, _, h⟩ := except_bind_eq_ok h
    simp at h; subst h
    have key : ResDurS orc inst res' ∧ ∀ σ ∈ mic, DurInvS orc inst σ := by
      rcases mwStep_cases hm with ⟨o, o', rest, _, hp, e1, e2, _, _, _, e6, _⟩ | ⟨act, hsub, hk, hs⟩
      · simp only at e1 e2 e6
        refine ⟨⟨by rw [e1]; exact hd.dur, by rw [e2]; exact hd.subsDur⟩, ?_⟩
        rw [e6]; intro σ hσ; cases hσ
      · have hne : e.res.possible ≠ [] := by
          rcases hk with ⟨_, _, _, h⟩ | ⟨_, _, _, h⟩
          · exact h
          · intro h0; rw [h0] at h; simp at h
        have hl := hi.live hne
        have ha : Admissible act := by
          refine ⟨fun tr htr => hl.2 tr ?_, ?_⟩
          · have := hsub tr htr
            cases hp : e.res.possible with
            | nil => rw [hp] at this; simp at this
            | cons x xs => rw [hp] at this; simp at this; rw [this]; simp
          · rcases hk with ⟨_, h, _⟩ | ⟨_, h, _⟩ <;> rw [h] <;> simp
        exact smStep_resDurS hst hl.1 ha hs
    by_cases hsuc : res'.success = true
    · simp only [hsuc, if_true]; exact key
    · simp only [hsuc]
      exact ⟨hd, key.2⟩

theorem envReach_durS {ec : EnvCfg} {st : RewardStatic} {s0 : State} (hst : Start orc inst s0) {e : EnvState}
    (h : EnvReach orc inst ec st s0 e) : ResDurS orc inst e.res := by
  induction h with
  | reset h => exact (envReset_durS hst h).1
  | step he h ih => exact (envStep_durS hst (envReach_inv hst he) ih h).1

/-- **every exposed state satisfies the stochastic duration invariant** -/
theorem exposed_durS {ec : EnvCfg} {st : RewardStatic} {s0 σ : State} (hst : Start orc inst s0)
    (h : Exposed orc inst ec st s0 σ) : DurInvS orc inst σ := by
  cases h with
  | state he => exact (envReach_durS hst he).dur
  | sub he hσ => exact (envReach_durS hst he).subsDur σ hσ
  | resetMicro hr hσ => exact (envReset_durS hst hr).2 σ hσ
  | micro he hs hσ => exact (envStep_durS hst (envReach_inv hst he) (envReach_durS hst he) hs).2 σ hσ

end JSL
