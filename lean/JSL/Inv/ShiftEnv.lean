import JSL.Inv.Shift

/-!
# Translation of simulated time and `env.step`

`env.step` is translation invariant except for the reward: the sparse reward paid at termination is
`(tmax - time) / (tmax - lb)` with the absolute clock.  `envStep_shift_noReward` states that everything
else (environment state, observation result, flags, makespan moved by `δ`, ghost trace, raised
error) is the shifted outcome; `envStep_shift_running` that the reward is the same too unless the step
terminates the episode without truncation.  The last section pins down the two places of the model
that read the absolute clock.
-/

namespace JSL
variable (δ : Int) {inst : Instance}

/-- the environment state with every timestamp of the current result moved -/
def shiftEnv (δ : Int) (e : EnvState) : EnvState := { e with res := shiftResult δ e.res }

/-- what a step returns with every timestamp moved (the reward is left as it is) -/
def shiftStepOut (δ : Int) (o : StepOut) : StepOut :=
  { o with env := shiftEnv δ o.env, obsRes := shiftResult δ o.obsRes, makespan := o.makespan.map (· + δ),
           micro := o.micro.map (shiftState δ) }

/-- forget the reward -/
def StepOut.noReward (o : StepOut) : StepOut := { o with reward := 0 }

theorem sparseReward_err (rc : RewardCfg) (st : RewardStatic) (t t2 : Int) (te tr : Bool) :
    (sparseReward rc st t2 te tr).map (fun _ => ()) = (sparseReward rc st t te tr).map (fun _ => ()) := by
  unfold sparseReward
  split
  · rfl
  · split
    · rfl
    · split <;> rfl

theorem sparseReward_eq (rc : RewardCfg) (st : RewardStatic) (t t2 : Int) (te tr : Bool)
    (h : te = false ∨ tr = true) : sparseReward rc st t2 te tr = sparseReward rc st t te tr := by
  unfold sparseReward
  rcases h with h | h <;> subst h
  · split <;> rfl
  · rfl

theorem rewardMake_cnt (rc : RewardCfg) (st : RewardStatic) (cnt : Nat) (res : SMResult) (te tr : Bool) :
    (rewardMake rc st cnt (shiftResult δ res) te tr).map (·.2) = (rewardMake rc st cnt res te tr).map (·.2) := by
  unfold rewardMake
  have h := sparseReward_err rc st res.state.time (shiftResult δ res).state.time te tr
  have hd : denseReward st cnt (shiftResult δ res) = denseReward st cnt res := rfl
  rw [hd]
  cases h1 : sparseReward rc st (shiftResult δ res).state.time te tr with
  | error e1 =>
    cases h2 : sparseReward rc st res.state.time te tr with
    | error e2 => rw [h1, h2] at h; simp only [except_map'_error] at h; cases h; rfl
    | ok s2 => rw [h1, h2] at h; cases h
  | ok s1 =>
    cases h2 : sparseReward rc st res.state.time te tr with
    | error e2 => rw [h1, h2] at h; cases h
    | ok s2 =>
      simp only [except_bind_ok]
      cases denseReward st cnt res with
      | error e => rfl
      | ok q => rfl

theorem rewardMake_eq (rc : RewardCfg) (st : RewardStatic) (cnt : Nat) (res : SMResult) (te tr : Bool)
    (h : te = false ∨ tr = true) :
    rewardMake rc st cnt (shiftResult δ res) te tr = rewardMake rc st cnt res te tr := by
  unfold rewardMake
  rw [sparseReward_eq rc st res.state.time (shiftResult δ res).state.time te tr h]
  rfl

theorem map_snd_cases {α β} {x y : Except Err (α × β)} (h : x.map (·.2) = y.map (·.2)) :
    (∃ e, x = .error e ∧ y = .error e) ∨ (∃ a b c, x = .ok (a, c) ∧ y = .ok (b, c)) := by
  cases x with
  | error e1 =>
    cases y with
    | error e2 => simp only [except_map'_error] at h; cases h; exact .inl ⟨e1, rfl, rfl⟩
    | ok q => cases h
  | ok p =>
    cases y with
    | error e2 => cases h
    | ok q =>
      obtain ⟨a, c⟩ := p
      obtain ⟨b, d⟩ := q
      simp only [except_map'_ok] at h
      cases h
      exact .inr ⟨a, b, c, rfl, rfl⟩

/-- `env.step` from the shifted environment state: everything but the reward is the shifted outcome
(same error if the step raises) -/
theorem envStep_shift_noReward (hno : NoOutages inst) (orc : Oracle) (ec : EnvCfg) (st : RewardStatic) (e : EnvState)
    (a : AgentAct) :
    (envStep orc inst ec st (shiftEnv δ e) a).map StepOut.noReward =
      (envStep orc inst ec st e a).map (fun o => (shiftStepOut δ o).noReward) := by
  unfold envStep
  have he : (shiftEnv δ e).done = e.done := rfl
  simp only [he]
  split
  · rfl
  · have h1 : (shiftEnv δ e).res = shiftResult δ e.res := rfl
    have h2 : (shiftEnv δ e).mw = e.mw := rfl
    have h3 : (shiftEnv δ e).rng = e.rng := rfl
    have h4 : (shiftEnv δ e).rwCnt = e.rwCnt := rfl
    simp only [h1, h2, h3, h4]
    rw [mwStep_shift δ hno]
    cases mwStep orc inst ec.sm ec.mw ec.fuel e.res e.mw e.rng a with
    | error er => rfl
    | ok q =>
      obtain ⟨res', mw, r1, mic⟩ := q
      simp only [except_map'_ok, except_bind_ok, shiftMw, shiftResult_success, shiftResult_state, isDone_shift]
      cases hs : res'.success with
      | true =>
        simp only [if_true]
        rcases map_snd_cases (rewardMake_cnt δ ec.rw st e.rwCnt res' (isDone inst res'.state)
          (decide (mw.joker < 0))) with ⟨er, hx, hy⟩ | ⟨x, y, c, hx, hy⟩
        · rw [hx, hy]; rfl
        · rw [hx, hy]
          simp only [except_bind_ok, except_pure, except_map'_ok]
          cases isDone inst res'.state <;> rfl
      | false =>
        simp only [Bool.false_eq_true, if_false]
        rcases map_snd_cases (rewardMake_cnt δ ec.rw st e.rwCnt e.res false true) with
          ⟨er, hx, hy⟩ | ⟨x, y, c, hx, hy⟩
        · rw [hx, hy]; rfl
        · rw [hx, hy]
          simp only [except_bind_ok, except_pure, except_map'_ok]
          rfl

/-- `env.step` from the shifted environment state when the step does not end the episode by
termination (not terminated, or truncated): the reward is the same too -/
theorem envStep_shift_running (hno : NoOutages inst) (orc : Oracle) (ec : EnvCfg) (st : RewardStatic) (e : EnvState)
    (a : AgentAct) (o : StepOut) (h : envStep orc inst ec st e a = .ok o)
    (hrun : o.env.terminated = false ∨ o.env.truncated = true) :
    envStep orc inst ec st (shiftEnv δ e) a = .ok (shiftStepOut δ o) := by
  unfold envStep at h ⊢
  have he : (shiftEnv δ e).done = e.done := rfl
  simp only [he]
  split at h
  · cases h
  · rename_i hd
    simp only [hd, Bool.false_eq_true, if_false]
    have h1 : (shiftEnv δ e).res = shiftResult δ e.res := rfl
    have h2 : (shiftEnv δ e).mw = e.mw := rfl
    have h3 : (shiftEnv δ e).rng = e.rng := rfl
    have h4 : (shiftEnv δ e).rwCnt = e.rwCnt := rfl
    simp only [h1, h2, h3, h4]
    rw [mwStep_shift δ hno]
    cases hm : mwStep orc inst ec.sm ec.mw ec.fuel e.res e.mw e.rng a with
    | error er => rw [hm] at h; cases h
    | ok q =>
      rw [hm] at h
      obtain ⟨res', mw, r1, mic⟩ := q
      simp only [except_map'_ok, except_bind_ok, shiftMw, shiftResult_success, shiftResult_state, isDone_shift] at h ⊢
      cases hs : res'.success with
      | true =>
        simp only [hs, if_true] at h ⊢
        cases hr : rewardMake ec.rw st e.rwCnt res' (isDone inst res'.state) (decide (mw.joker < 0)) with
        | error er => rw [hr] at h; cases h
        | ok p =>
          rw [hr] at h
          simp only [except_bind_ok, except_pure, Except.ok.injEq] at h
          subst h
          simp only at hrun
          rw [rewardMake_eq δ _ _ _ _ _ _ hrun, hr]
          simp only [except_bind_ok, except_pure]
          cases isDone inst res'.state <;> rfl
      | false =>
        simp only [hs, Bool.false_eq_true, if_false] at h ⊢
        cases hr : rewardMake ec.rw st e.rwCnt e.res false true with
        | error er => rw [hr] at h; cases h
        | ok p =>
          rw [hr] at h
          simp only [except_bind_ok, except_pure, Except.ok.injEq] at h
          subst h
          rw [rewardMake_eq δ _ _ _ _ _ _ (.inl rfl), hr]
          rfl

/-! ## where the absolute clock is read -/

/-- the sparse reward at termination reads the absolute clock: the same instance numbers
(`tmax = 2`, `lb = 0`), terminated one time unit later, give another reward -/
theorem sparseReward_reads_clock :
    sparseReward ⟨1, 0, 0⟩ ⟨2, 0, 1, 1⟩ (0 + 1) true false ≠ sparseReward ⟨1, 0, 0⟩ ⟨2, 0, 1, 1⟩ 0 true false := by
  intro h
  have h1 : sparseReward ⟨1, 0, 0⟩ ⟨2, 0, 1, 1⟩ (0 + 1) true false = .ok ((1 : Rat) / 2) := by
    simp [sparseReward]
  have h2 : sparseReward ⟨1, 0, 0⟩ ⟨2, 0, 1, 1⟩ 0 true false = .ok ((2 : Rat) / 2) := by
    simp [sparseReward]
  rw [h1, h2] at h
  simp only [Except.ok.injEq] at h
  grind

/-- an outage record that was active before measures its idle time relative to its last end: this
part is translation invariant -/
theorem outageSince_shift_some (δ now l : Int) :
    outageSince (now + δ) (.inactive (some (l + δ))) = outageSince now (.inactive (some l)) := by
  simp only [outageSince, except_pure, Except.ok.injEq]
  omega

/-- a record that was never active measures its idle time from the absolute time 0, so whether the
outage strikes depends on the start time: with a constant frequency 5, at time 3 it does, at time
3 + 10 it does not.  This is why `NoOutages` is assumed. -/
theorem never_active_outage_reads_clock (orc : Oracle) (r : Rng) :
    (outageSince 3 (.inactive none)).map (fun since => (shouldApply orc r (.det 5) since).1) = .ok true ∧
    (outageSince (3 + 10) (.inactive none)).map (fun since => (shouldApply orc r (.det 5) since).1) = .ok false := by
  constructor <;> rfl
end JSL
