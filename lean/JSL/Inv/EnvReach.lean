import JSL.Inv.Feasible
import JSL.Inv.TimeStep
import JSL.Inv.RoutePass
import JSL.Inv.TravelPass
import JSL.Lib.StepSpec
import JSL.Inv.StartGe
import JSL.Inv.Stamp

/-!
# Environment-level reachability

`EnvReach` are the environment states of all episodes: `reset`, then any sequence of agent
actions (0, 1 or anything outside the action space – those raise and leave the episode where it
was).  Everything the middleware submits to the state machine is admissible, so the schedule and
structure invariants hold at every state the environment exposes.
-/

namespace JSL

variable {orc : Oracle} {inst : Instance}

/-- what a middleware step does: drop the head offer and nothing else, or exactly one
state-machine step on the current state with an admissible action (the head offer, or nothing
with a forced jump) -/
theorem mwStep_cases {cfg : SMConfig} {mc : MwCfg} {fuel : Nat} {res : SMResult} {m : MwState} {r : Rng}
    {a : AgentAct} {out : SMResult × MwState × Rng × List State}
    (h : mwStep orc inst cfg mc fuel res m r a = .ok out) :
    (∃ o o' rest, a = .decline ∧ res.possible = o :: o' :: rest ∧ out.1.state = res.state ∧
        out.1.subStates = res.subStates ∧ out.1.possible = o' :: rest ∧ out.1.success = true ∧
        out.1.done = false ∧ out.2.2.2 = [] ∧ out.2.2.1 = r) ∨
    (∃ act, (∀ tr ∈ act.transitions, tr ∈ res.possible.head?) ∧
        ((a = .accept ∧ act.tm = .jumpToEvent ∧ act.transitions = res.possible.take 1 ∧ res.possible ≠ []) ∨
         (a = .decline ∧ act.tm = .forceJump ∧ act.transitions = [] ∧ res.possible.length = 1)) ∧
        smStep orc inst cfg fuel res.state r act = .ok (out.1, out.2.2.1, out.2.2.2)) := by
  unfold mwStep interpret at h
  cases hp : res.possible with
  | nil => simp [hp] at h
  | cons o rest =>
    cases a with
    | outside => simp [hp] at h
    | accept =>
      simp only [hp, except_pure, except_bind_ok, MwState.addOp] at h
      obtain ⟨⟨res', r', mic⟩, hs, h⟩ := except_bind_eq_ok h
      simp at h; subst h
      exact Or.inr ⟨_, by simp, Or.inl ⟨rfl, rfl, by simp, by simp⟩, hs⟩
    | decline =>
      simp only [hp, except_pure, except_bind_ok, noOpAction, MwState.addOp, if_true, noOpResult] at h
      cases rest with
      | cons o' rest' =>
        simp at h; subst h
        exact Or.inl ⟨o, o', rest', rfl, rfl, rfl, rfl, rfl, rfl, rfl, rfl, rfl⟩
      | nil =>
        simp only at h
        obtain ⟨⟨res', r', mic⟩, hs, h⟩ := except_bind_eq_ok h
        refine Or.inr ⟨{ transitions := [], noOp := true, tm := .forceJump }, by simp, Or.inr ⟨rfl, rfl, rfl, by simp⟩, ?_⟩
        simp only [List.isEmpty_iff] at h
        by_cases he : res'.possible = []
        · simp only [he, if_true] at h
          split at h
          · simp at h; subst h; exact hs
          · simp at h
        · simp only [he, if_false] at h
          simp at h; subst h; exact hs

/-- the episodes of the environment -/
inductive EnvReach (orc : Oracle) (inst : Instance) (ec : EnvCfg) (st : RewardStatic) (s0 : State) :
    EnvState → Prop
  | reset {r e mic} : envReset orc inst ec s0 r = .ok (e, mic) → EnvReach orc inst ec st s0 e
  | step {e a out} : EnvReach orc inst ec st s0 e → envStep orc inst ec st e a = .ok out →
      EnvReach orc inst ec st s0 out.env

/-- states exposed during an episode: the state of every environment state, its sub-states, and
the post-state of every transition applied inside a step -/
inductive Exposed (orc : Oracle) (inst : Instance) (ec : EnvCfg) (st : RewardStatic) (s0 : State) :
    State → Prop
  | state {e} : EnvReach orc inst ec st s0 e → Exposed orc inst ec st s0 e.res.state
  | sub {e σ} : EnvReach orc inst ec st s0 e → σ ∈ e.res.subStates → Exposed orc inst ec st s0 σ
  | resetMicro {r e mic σ} : envReset orc inst ec s0 r = .ok (e, mic) → σ ∈ mic → Exposed orc inst ec st s0 σ
  | micro {e a out σ} : EnvReach orc inst ec st s0 e → envStep orc inst ec st e a = .ok out → σ ∈ out.micro →
      Exposed orc inst ec st s0 σ

/-- nothing starts before the episode does, along every admissible execution -/
theorem occursA_start {cfg : SMConfig} {s0 σ : State} (hst : Start orc inst s0) (h : OccursA orc inst cfg s0 σ) :
    StartGe s0.time σ := by
  obtain ⟨w, _⟩ := initOKB_sound hst.init
  exact occursA_pass (StartPass orc inst cfg w s0.time) hst (StartGe.of_rest hst.rest) (fun _ _ _ => trivial) h

theorem final_start {cfg : SMConfig} {s0 s : State} (hst : Start orc inst s0) (h : OccursA orc inst cfg s0 s)
    {a : Action} (ha : Admissible a) {fuel : Nat} {r r' : Rng} {res : SMResult} {mic : List State}
    (hstep : smStep orc inst cfg fuel s r a = .ok (res, r', mic)) :
    ∀ j ∈ res.state.jobs, ∀ o ∈ j.ops, o.st ≠ .idle → ∀ a, o.start = some a → s0.time ≤ a := by
  obtain ⟨w, hI, hS⟩ := occursA_inv hst h
  have nn := nonnegB_sound hst.samples hst.nonneg
  obtain ⟨t, ht⟩ := ((StartPass orc inst cfg w s0.time).smStep w nn hI hS (occursA_start hst h) ha trivial hstep).2.2.1
  exact ht.starts

/-- what is known about a result the environment holds -/
structure ResInv (orc : Oracle) (inst : Instance) (cfg : SMConfig) (s0 : State) (res : SMResult) : Prop where
  struct : StructInv inst res.state
  sched : ∃ t, SchedInv { res.state with time := t }
  subs : ∀ σ ∈ res.subStates, StructInv inst σ ∧ SchedInv σ
  dur : DurInv inst res.state
  subsDur : ∀ σ ∈ res.subStates, DurInv inst σ
  agv : AgvInv res.state
  subsAgv : ∀ σ ∈ res.subStates, AgvInv σ
  full : AgvFull inst res.state
  subsFull : ∀ σ ∈ res.subStates, AgvFull inst σ
  travel : TravelStart inst res.state
  subsTravel : ∀ σ ∈ res.subStates, TravelStart inst σ
  /-- no recorded start lies before the start of the episode -/
  starts : ∀ j ∈ res.state.jobs, ∀ o ∈ j.ops, o.st ≠ .idle → ∀ a, o.start = some a → s0.time ≤ a
  /-- a successful result with every job delivered has its clock at the last end -/
  stamp : res.success = true → isDone inst res.state = true → Stamped res.state
  /-- while there are offers, not every job is delivered -/
  notDone : res.possible ≠ [] → isDone inst res.state = false
  liveF : res.possible ≠ [] → OccursF orc inst cfg s0 res.state
  live : res.possible ≠ [] → OccursA orc inst cfg s0 res.state ∧ (∀ tr ∈ res.possible, OfferShaped tr)
  /-- while there are offers, nothing is due -/
  quiet : res.possible ≠ [] → Quiet inst res.state
  /-- the offers held are (a rest of) the offers computed from the state held -/
  offersFrom : res.possible ≠ [] → ∃ poss, possibleTransitions inst cfg res.state = .ok poss ∧
    ∀ tr ∈ res.possible, tr ∈ poss

theorem smStep_resInv {cfg : SMConfig} {s0 s : State} (hst : Start orc inst s0) (hF : OccursF orc inst cfg s0 s)
    {a : Action} (ha : Admissible a) (hadm : AdmOffer inst cfg s a) {fuel : Nat} {r r' : Rng}
    {res : SMResult} {mic : List State} (hstep : smStep orc inst cfg fuel s r a = .ok (res, r', mic)) :
    ResInv orc inst cfg s0 res ∧ ∀ σ ∈ mic, StructInv inst σ ∧ SchedInv σ ∧ DurInv inst σ ∧ AgvFull inst σ ∧ TravelStart inst σ := by
  have hC := hF.toC
  have hc := hadm.claim
  have h := hC.toA
  obtain ⟨hI, hS⟩ := final_inv hst h ha hstep
  refine ⟨⟨hI, hS, fun σ hσ => (occursA_inv hst (OccursA.sub h ha hstep hσ)).2, final_dur hst h ha hstep,
      fun σ hσ => occursA_dur hst (OccursA.sub h ha hstep hσ), final_agv hst hC ha hc hstep,
      fun σ hσ => occursC_agv hst (OccursC.sub hC ha hc hstep hσ), final_full hst hF ha hadm hstep,
      fun σ hσ => occursF_full hst (OccursF.sub hF ha hadm hstep hσ), final_travel hst hF ha hadm hstep,
      fun σ hσ => (occursF_travel hst (OccursF.sub hF ha hadm hstep hσ)).travel.toStart,
      final_start hst h ha hstep, ?_, ?_, ?_, ?_, ?_, ?_⟩,
    fun σ hσ => ⟨(occursA_inv hst (OccursA.micro h ha hstep hσ)).2.1, (occursA_inv hst (OccursA.micro h ha hstep hσ)).2.2,
      occursA_dur hst (OccursA.micro h ha hstep hσ), occursF_full hst (OccursF.micro hF ha hadm hstep hσ),
      (occursF_travel hst (OccursF.micro hF ha hadm hstep hσ)).travel.toStart⟩⟩
  · intro hsuc hd
    rcases (smStep_spec hstep).2 with h1 | h1 | h1
    · rw [h1.1] at hsuc; cases hsuc
    · exact smStep_done_stamp hstep h1.2.1
    · rw [h1.2.2.1] at hd; cases hd
  · intro hne
    rcases (smStep_spec hstep).2 with h1 | h1 | h1
    · exact absurd h1.2.2.2 hne
    · exact absurd h1.2.2.1 hne
    · exact h1.2.2.1
  · intro hne
    rcases (smStep_spec hstep).2 with h1 | h1 | h1
    · exact absurd h1.2.2.2 hne
    · exact absurd h1.2.2.1 hne
    · exact OccursF.result hF ha hadm hstep h1.2.1
  · intro hne
    rcases (smStep_spec hstep).2 with h1 | h1 | h1
    · exact absurd h1.2.2.2 hne
    · exact absurd h1.2.2.1 hne
    · exact ⟨OccursA.result h ha hstep h1.2.1, offers_offerShaped h1.2.2.2⟩
  · intro hne
    obtain ⟨w, hI0, hS0⟩ := occursA_inv hst h
    have nn := nonnegB_sound hst.samples hst.nonneg
    rcases (smStep_spec hstep).2 with h1 | h1 | h1
    · exact absurd h1.2.2.2 hne
    · exact absurd h1.2.2.1 hne
    · exact (smStep_clock w nn hI0 hS0 ha hstep).2.2.2.1 h1.1 h1.2.1
  · intro hne
    rcases (smStep_spec hstep).2 with h1 | h1 | h1
    · exact absurd h1.2.2.2 hne
    · exact absurd h1.2.2.1 hne
    · exact ⟨res.possible, h1.2.2.2, fun tr htr => htr⟩

theorem admissible_noOp : Admissible noOpAction := ⟨fun _ h => by simp [noOpAction] at h, by simp [noOpAction]⟩

theorem envReset_inv {ec : EnvCfg} {s0 : State} (hst : Start orc inst s0) {r : Rng} {e : EnvState} {mic : List State}
    (h : envReset orc inst ec s0 r = .ok (e, mic)) :
    ResInv orc inst ec.sm s0 e.res ∧ ∀ σ ∈ mic, StructInv inst σ ∧ SchedInv σ ∧ DurInv inst σ ∧ AgvFull inst σ ∧ TravelStart inst σ := by
  unfold envReset mwReset at h
  obtain ⟨⟨res, mw, r', mic'⟩, h1, h⟩ := except_bind_eq_ok h
  obtain ⟨⟨res', r'', mic''⟩, h2, h1⟩ := except_bind_eq_ok h1
  simp at h1 h
  obtain ⟨rfl, rfl, rfl, rfl⟩ := h1
  obtain ⟨rfl, rfl⟩ := h
  exact smStep_resInv hst OccursF.init admissible_noOp (Or.inl rfl) h2

theorem envStep_inv {ec : EnvCfg} {st : RewardStatic} {s0 : State} (hst : Start orc inst s0) {e : EnvState}
    (hi : ResInv orc inst ec.sm s0 e.res) {a : AgentAct} {out : StepOut}
    (h : envStep orc inst ec st e a = .ok out) :
    ResInv orc inst ec.sm s0 out.env.res ∧ ∀ σ ∈ out.micro, StructInv inst σ ∧ SchedInv σ ∧ DurInv inst σ ∧ AgvFull inst σ ∧ TravelStart inst σ := by
  unfold envStep at h
  split at h
  · simp at h
  · obtain ⟨⟨res', mw, r, mic⟩, hm, h⟩ := except_bind_eq_ok h
    simp only at h
    obtain ⟨⟨rew, cnt⟩, _, h⟩ := except_bind_eq_ok h
    simp at h; subst h
    have key : ResInv orc inst ec.sm s0 res' ∧ ∀ σ ∈ mic, StructInv inst σ ∧ SchedInv σ ∧ DurInv inst σ ∧ AgvFull inst σ ∧ TravelStart inst σ := by
      rcases mwStep_cases hm with ⟨o, o', rest, _, hp, e1, e2, e3, _, e5, e6, _⟩ | ⟨act, hsub, hk, hs⟩
      · simp only at e1 e2 e3 e5 e6
        have hl := hi.live (by rw [hp]; simp)
        refine ⟨⟨by rw [e1]; exact hi.struct, by rw [e1]; exact hi.sched, by rw [e2]; exact hi.subs,
          by rw [e1]; exact hi.dur, by rw [e2]; exact hi.subsDur, by rw [e1]; exact hi.agv, by rw [e2]; exact hi.subsAgv,
          by rw [e1]; exact hi.full, by rw [e2]; exact hi.subsFull, by rw [e1]; exact hi.travel, by rw [e2]; exact hi.subsTravel,
          by rw [e1]; exact hi.starts,
          (fun _ hd => by rw [e1, hi.notDone (by rw [hp]; simp)] at hd; cases hd),
          (fun _ => by rw [e1]; exact hi.notDone (by rw [hp]; simp)), ?_, ?_, ?_, ?_⟩, ?_⟩
        · intro _
          rw [e1]; exact hi.liveF (by rw [hp]; simp)
        · intro _
          rw [e1, e3]
          exact ⟨hl.1, fun tr htr => hl.2 tr (by rw [hp]; exact List.mem_cons_of_mem _ htr)⟩
        · intro _
          rw [e1]; exact hi.quiet (by rw [hp]; simp)
        · intro _
          obtain ⟨poss, hposs, hsub⟩ := hi.offersFrom (by rw [hp]; simp)
          rw [e1, e3]
          exact ⟨poss, hposs, fun tr htr => hsub tr (by rw [hp]; exact List.mem_cons_of_mem _ htr)⟩
        · rw [e6]; intro σ hσ; cases hσ
      · have hne : e.res.possible ≠ [] := by
          rcases hk with ⟨_, _, _, h⟩ | ⟨_, _, _, h⟩
          · exact h
          · intro h0; rw [h0] at h; simp at h
        have hl := hi.live hne
        have ha : Admissible act := by
          refine ⟨fun tr htr => hl.2 tr ?_, ?_⟩
          · have := hsub tr htr
            cases hp : e.res.possible with
            | nil => rw [hp] at this; simp at this
            | cons x xs => rw [hp] at this; simp at this; rw [this]; simp
          · rcases hk with ⟨_, h, _⟩ | ⟨_, h, _⟩ <;> rw [h] <;> simp
        have hadm : AdmOffer inst ec.sm e.res.state act := by
          obtain ⟨poss, hposs, hsub⟩ := hi.offersFrom hne
          rcases hk with ⟨_, _, ht, _⟩ | ⟨_, _, ht, _⟩
          · right
            cases hp : e.res.possible with
            | nil => exact absurd hp hne
            | cons x xs => exact ⟨poss, hposs, x, hsub x (by rw [hp]; simp), by rw [ht, hp]; rfl⟩
          · left; exact ht
        exact smStep_resInv hst (hi.liveF hne) ha hadm hs
    by_cases hsuc : res'.success = true
    · simp only [hsuc, if_true]; exact key
    · simp only [hsuc]
      exact ⟨hi, key.2⟩

theorem envReach_inv {ec : EnvCfg} {st : RewardStatic} {s0 : State} (hst : Start orc inst s0) {e : EnvState}
    (h : EnvReach orc inst ec st s0 e) : ResInv orc inst ec.sm s0 e.res := by
  induction h with
  | reset h => exact (envReset_inv hst h).1
  | step _ h ih => exact (envStep_inv hst ih h).1

/-- **Every exposed state** satisfies the structural invariants and, up to the final stamp of the
clock, the schedule invariant. -/
theorem exposed_inv {ec : EnvCfg} {st : RewardStatic} {s0 σ : State} (hst : Start orc inst s0)
    (h : Exposed orc inst ec st s0 σ) : WF inst ∧ StructInv inst σ ∧ ∃ t, SchedInv { σ with time := t } := by
  have w := (initOKB_sound hst.init).1
  refine ⟨w, ?_⟩
  cases h with
  | state he => exact ⟨(envReach_inv hst he).struct, (envReach_inv hst he).sched⟩
  | sub he hσ => have := (envReach_inv hst he).subs σ hσ; exact ⟨this.1, σ.time, this.2⟩
  | resetMicro hr hσ => have := (envReset_inv hst hr).2 σ hσ; exact ⟨this.1, σ.time, this.2.1⟩
  | micro he hs hσ => have := (envStep_inv hst (envReach_inv hst he) hs).2 σ hσ; exact ⟨this.1, σ.time, this.2.1⟩

/-- every exposed state satisfies the duration invariant -/
theorem exposed_dur {ec : EnvCfg} {st : RewardStatic} {s0 σ : State} (hst : Start orc inst s0)
    (h : Exposed orc inst ec st s0 σ) : DurInv inst σ := by
  cases h with
  | state he => exact (envReach_inv hst he).dur
  | sub he hσ => exact (envReach_inv hst he).subsDur σ hσ
  | resetMicro hr hσ => exact ((envReset_inv hst hr).2 σ hσ).2.2.1
  | micro he hs hσ => exact ((envStep_inv hst (envReach_inv hst he) hs).2 σ hσ).2.2.1

/-- every exposed state satisfies the AGV invariant -/
theorem exposed_agv {ec : EnvCfg} {st : RewardStatic} {s0 σ : State} (hst : Start orc inst s0)
    (h : Exposed orc inst ec st s0 σ) : AgvInv σ := by
  cases h with
  | state he => exact (envReach_inv hst he).agv
  | sub he hσ => exact (envReach_inv hst he).subsAgv σ hσ
  | resetMicro hr hσ => exact ((envReset_inv hst hr).2 σ hσ).2.2.2.1.agv
  | micro he hs hσ => exact ((envStep_inv hst (envReach_inv hst he) hs).2 σ hσ).2.2.2.1.agv

/-- every exposed state satisfies the route invariant -/
theorem exposed_route {ec : EnvCfg} {st : RewardStatic} {s0 σ : State} (hst : Start orc inst s0)
    (h : Exposed orc inst ec st s0 σ) : RouteInv inst σ := by
  cases h with
  | state he => exact (envReach_inv hst he).full.route
  | sub he hσ => exact ((envReach_inv hst he).subsFull σ hσ).route
  | resetMicro hr hσ => exact ((envReset_inv hst hr).2 σ hσ).2.2.2.1.route
  | micro he hs hσ => exact ((envStep_inv hst (envReach_inv hst he) hs).2 σ hσ).2.2.2.1.route

/-- every exposed state satisfies the start clause of the travel invariant -/
theorem exposed_travel {ec : EnvCfg} {st : RewardStatic} {s0 σ : State} (hst : Start orc inst s0)
    (h : Exposed orc inst ec st s0 σ) : TravelStart inst σ := by
  cases h with
  | state he => exact (envReach_inv hst he).travel
  | sub he hσ => exact (envReach_inv hst he).subsTravel σ hσ
  | resetMicro hr hσ => exact ((envReset_inv hst hr).2 σ hσ).2.2.2.2
  | micro he hs hσ => exact ((envStep_inv hst (envReach_inv hst he) hs).2 σ hσ).2.2.2.2

end JSL
