import JSL.Inv.ClassicSync
import JSL.Inv.ReachListPlan
import JSL.Inv.EnvReach
import JSL.Inv.Stamp

/-!
# The clock of a terminated episode IS the latest end

`Stamped` / `lastDoneEnd_bound` (JSL/Inv/Stamp.lean) say that the clock of a finished episode is not earlier than
the end of any finished record.  Here: it is the end of some finished record (`lastDoneEnd_attained`,
`smStep_done_attained`, `envReach_terminated_attained`), hence – when the records agree with a target schedule –
the makespan of that schedule (`final_time_eq_target`).
-/

namespace JSL

variable {orc : Oracle} {inst : Instance}

theorem foldl_max_mem_or (es : List Int) (e : Int) : es.foldl max e = e ∨ es.foldl max e ∈ es := by
  induction es generalizing e with
  | nil => exact Or.inl rfl
  | cons y ys ih =>
    simp only [List.foldl_cons]
    rcases ih (max e y) with h | h
    · rw [h]
      rcases Int.le_total e y with hle | hle
      · right; rw [Int.max_eq_right hle]; simp
      · left; exact Int.max_eq_left hle
    · right; exact List.mem_cons_of_mem _ h

/-- `lastDoneEnd` returns the end of some finished record, or nothing when no record is finished -/
theorem lastDoneEnd_attained {s : State} {x : Option Int} (h : lastDoneEnd s = .ok x) :
    (∃ e, x = some e ∧ ∃ j ∈ s.jobs, ∃ o ∈ j.ops, o.st = .done ∧ o.stop = some e) ∨
    (x = none ∧ ∀ j ∈ s.jobs, ∀ o ∈ j.ops, o.st ≠ .done) := by
  unfold lastDoneEnd at h
  obtain ⟨ends, hm, h⟩ := except_bind_eq_ok h
  obtain ⟨hm1, hm2⟩ := mapM_ok_mem hm
  cases ends with
  | nil =>
    simp [pure, Except.pure] at h
    subst h
    refine Or.inr ⟨rfl, ?_⟩
    intro j hj o ho hd
    have hmem : o ∈ (s.jobs.flatMap (·.ops)).filter (·.st == .done) :=
      List.mem_filter.mpr ⟨List.mem_flatMap.mpr ⟨j, hj, ho⟩, by simp [hd]⟩
    obtain ⟨y, hy, _⟩ := hm1 o hmem
    cases hy
  | cons e es =>
    simp [pure, Except.pure] at h
    subst h
    refine Or.inl ⟨es.foldl max e, rfl, ?_⟩
    have hy : es.foldl max e ∈ e :: es := by
      rcases foldl_max_mem_or es e with h | h
      · rw [h]; simp
      · exact List.mem_cons_of_mem _ h
    obtain ⟨o, ho, e1⟩ := hm2 _ hy
    obtain ⟨hof, hst⟩ := List.mem_filter.mp ho
    obtain ⟨j, hj, hoj⟩ := List.mem_flatMap.mp hof
    refine ⟨j, hj, o, hoj, by simpa using hst, ?_⟩
    cases hs : o.stop with
    | none => rw [hs] at e1; simp [throw, throwThe, MonadExceptOf.throw] at e1
    | some b =>
      rw [hs] at e1
      simp [pure, Except.pure] at e1
      rw [e1]

/-- a step that reports `done` leaves the clock at the end of some finished record (if there is one) -/
theorem smStep_done_attained {cfg : SMConfig} {fuel : Nat} {s0 : State} {r : Rng} {a : Action} {res : SMResult} {r' : Rng}
    {mic : List State} (h : smStep orc inst cfg fuel s0 r a = .ok (res, r', mic)) (hd : res.done = true) :
    (∃ j ∈ res.state.jobs, ∃ o ∈ j.ops, o.st = .done ∧ o.stop = some res.state.time) ∨
    (∀ j ∈ res.state.jobs, ∀ o ∈ j.ops, o.st ≠ .done) := by
  have key : ∀ {s : State} {x : Option Int}, lastDoneEnd s = .ok x →
      (∃ j ∈ (match x with | some e => { s with time := e } | none => s : State).jobs, ∃ o ∈ j.ops, o.st = .done ∧
        o.stop = some (match x with | some e => { s with time := e } | none => s : State).time) ∨
      (∀ j ∈ (match x with | some e => { s with time := e } | none => s : State).jobs, ∀ o ∈ j.ops, o.st ≠ .done) := by
    intro s x hl
    rcases lastDoneEnd_attained hl with ⟨e, rfl, hex⟩ | ⟨rfl, hno⟩
    · exact Or.inl hex
    · exact Or.inr hno
  unfold smStep at h
  simp only [bind, Except.bind, pure, Except.pure] at h
  repeat' split at h
  all_goals first
    | (simp at h; done)
    | (simp only [Except.ok.injEq, Prod.mk.injEq] at h
       obtain ⟨rfl, rfl, rfl⟩ := h
       first
         | (simp at hd; done)
         | (rename_i hl _; exact key hl)
         | (rename_i hl; exact key hl))

/-- the same for every environment state of an episode that is flagged terminated -/
theorem envReach_terminated_attained {ec : EnvCfg} {st : RewardStatic} {s0 : State} {e : EnvState}
    (hst : Start orc inst s0) (h : EnvReach orc inst ec st s0 e) (ht : e.terminated = true) :
    (∃ j ∈ e.res.state.jobs, ∃ o ∈ j.ops, o.st = .done ∧ o.stop = some e.res.state.time) ∨
    (∀ j ∈ e.res.state.jobs, ∀ o ∈ j.ops, o.st ≠ .done) := by
  cases h with
  | reset hr =>
    exfalso
    unfold envReset at hr
    obtain ⟨⟨res, mw, r', mic'⟩, _, hr⟩ := except_bind_eq_ok hr
    simp at hr
    obtain ⟨rfl, _⟩ := hr
    simp at ht
  | @step e0 a out hprev hs =>
    have hi := envReach_inv hst hprev
    unfold envStep at hs
    split at hs
    · simp at hs
    · obtain ⟨⟨res', mw, r, mic⟩, hm, hs⟩ := except_bind_eq_ok hs
      simp only at hs
      obtain ⟨⟨rew, cnt⟩, _, hs⟩ := except_bind_eq_ok hs
      simp at hs; subst hs
      by_cases hsuc : res'.success = true
      · simp only [hsuc, if_true] at ht ⊢
        rcases mwStep_cases hm with ⟨o, o', rest, _, hp, e1, _⟩ | ⟨act, _, _, hstep⟩
        · exfalso
          simp only at e1
          rw [e1, hi.notDone (by rw [hp]; simp)] at ht
          cases ht
        · simp only at hstep
          rcases (smStep_spec hstep).2 with h1 | h1 | h1
          · rw [h1.1] at hsuc; cases hsuc
          · exact smStep_done_attained hstep h1.2.1
          · rw [h1.2.2.1] at ht; cases ht
      · simp [hsuc] at ht

/-! ## the final clock and the target makespan -/

/-- in a classic instance, a finished record whose start is the target start ends at target start + duration -/
theorem done_end_eq (hC : Classic inst) {S : Nat → Nat → Int} {s : State} (hD : DurInv inst s)
    (hstart : ∀ j ∈ s.jobs, ∀ o ∈ j.ops, o.start = some (S o.job o.idx))
    {j : JobState} (hj : j ∈ s.jobs) {o : OpState} (ho : o ∈ j.ops) (hst : o.st = .done)
    {oc : OpCfg} (hoc : oc ∈ allOps inst) (k1 : oc.job = o.job) (k2 : oc.idx = o.idx) :
    o.stop = some (S o.job o.idx + oc.d) := by
  obtain ⟨d, hd, _⟩ := hC.posDur oc hoc
  obtain ⟨a, b, ha, hb, _, heq⟩ := hD.done j hj o ho hst d ⟨oc, hoc, k1, k2, hd⟩
  have := heq (fun mc hmc _ => hC.noOutM mc hmc)
  rw [hstart j hj o ho] at ha
  simp at ha
  rw [hb, d_of_det hd, this, ha]

/-- **the clock of a terminated episode whose records agree with the target schedule is the target makespan**
(variant assuming only that the clock is not negative) -/
theorem final_time_eq_target_of_nonneg (w : WF inst) (hC : Classic inst) {S : Nat → Nat → Int} {s : State}
    (hI : StructInv inst s) (hD : DurInv inst s) (hdone : ∀ j ∈ s.jobs, ∀ o ∈ j.ops, o.st = .done)
    (hstart : ∀ j ∈ s.jobs, ∀ o ∈ j.ops, o.start = some (S o.job o.idx))
    (hstamp : Stamped s)
    (hatt : (∃ j ∈ s.jobs, ∃ o ∈ j.ops, o.st = .done ∧ o.stop = some s.time) ∨ (∀ j ∈ s.jobs, ∀ o ∈ j.ops, o.st ≠ .done))
    (hne : allOps inst ≠ []) (h0 : 0 ≤ s.time) : s.time = targetMakespan inst S := by
  have hs := hI.shape
  apply Int.le_antisymm
  · rcases hatt with ⟨j, hj, o, ho, hst, hstop⟩ | hno
    · obtain ⟨oc, hoc, k1, k2, _⟩ := rec_cfg w hs hj ho
      have e := done_end_eq hC hD hstart hj ho hst hoc k1 k2
      rw [hstop] at e
      simp at e
      rw [e, ← k1, ← k2]
      exact le_targetMakespan S hoc
    · exfalso
      cases hl : allOps inst with
      | nil => exact hne hl
      | cons oc rest =>
        obtain ⟨j, hj, o, ho, _⟩ := cfg_rec hs (oc := oc) (by rw [hl]; simp)
        exact hno j hj o ho (hdone j hj o ho)
  · apply targetMakespan_le h0
    intro oc hoc
    obtain ⟨j, hj, o, ho, k1, k2⟩ := cfg_rec hs hoc
    have hst := hdone j hj o ho
    have e := done_end_eq hC hD hstart hj ho hst hoc k1.symm k2.symm
    rw [← k1, ← k2]
    exact hstamp j hj o ho hst _ e

/-- **the clock of a terminated episode whose records agree with the target schedule is the target makespan** -/
theorem final_time_eq_target (w : WF inst) (hC : Classic inst) {S : Nat → Nat → Int} {s : State} (hI : StructInv inst s)
    (hD : DurInv inst s) (hdone : ∀ j ∈ s.jobs, ∀ o ∈ j.ops, o.st = .done)
    (hstart : ∀ j ∈ s.jobs, ∀ o ∈ j.ops, o.start = some (S o.job o.idx))
    (hstamp : Stamped s)
    (hatt : (∃ j ∈ s.jobs, ∃ o ∈ j.ops, o.st = .done ∧ o.stop = some s.time) ∨ (∀ j ∈ s.jobs, ∀ o ∈ j.ops, o.st ≠ .done))
    (hne : allOps inst ≠ []) (hS0 : ∀ oc ∈ allOps inst, 0 ≤ S oc.job oc.idx) : s.time = targetMakespan inst S := by
  refine final_time_eq_target_of_nonneg w hC hI hD hdone hstart hstamp hatt hne ?_
  have hs := hI.shape
  cases hl : allOps inst with
  | nil => exact absurd hl hne
  | cons oc rest =>
    have hoc : oc ∈ allOps inst := by rw [hl]; simp
    obtain ⟨j, hj, o, ho, k1, k2⟩ := cfg_rec hs hoc
    have hst := hdone j hj o ho
    have e := done_end_eq hC hD hstart hj ho hst hoc k1.symm k2.symm
    have h1 := hstamp j hj o ho hst _ e
    have h2 := hS0 oc hoc
    have h3 := d_nonneg_of_det hC.posDur oc hoc
    rw [k1, k2] at h1
    omega

end JSL
