import JSL.Inv.FuelLoop
import JSL.Inv.TotalEnv
import JSL.Inv.TotalReset

/-!
# The middleware and the environment step return (no fuel caveat)

`mwStep_total` / `envStep_total` (`JSL/Inv/TotalEnv.lean`) with the alternative "the timed loop runs
out of fuel" removed: with `fuelBound inst ≤ fuel` every `state.step` the middleware runs returns
(`fb_smStep`).
-/

namespace JSL

variable {orc : Oracle} {inst : Instance}

theorem fb_mwStep {cfg : SMConfig} {mc : MwCfg} {fuel : Nat} {s0 : State} (hst : Start orc inst s0) (C : TotClass inst)
    (h0 : TotP inst s0) (hfuel : fuelBound inst ≤ fuel) {res : SMResult} (hi : ResInv orc inst cfg s0 res)
    (hne : res.possible ≠ []) (m : MwState) (r : Rng) {a : AgentAct} (ha : a = .accept ∨ a = .decline) :
    ∃ out, mwStep orc inst cfg mc fuel res m r a = .ok out := by
  have hl := hi.live hne
  have hF := hi.liveF hne
  obtain ⟨w, hI, hS⟩ := occursA_inv hst hl.1
  have nn := nonnegB_sound hst.samples hst.nonneg
  have hP := occursF_tot hst C h0 hF
  obtain ⟨poss, hposs, hsub⟩ := hi.offersFrom hne
  have hA : HasAgv inst := by
    cases htr : inst.transports with
    | nil => exact absurd htr C.agvOnly.ne
    | cons tc ts => exact ⟨tc, by rw [htr]; simp, C.agvOnly.agv tc (by rw [htr]; simp)⟩
  cases hp : res.possible with
  | nil => exact absurd hp hne
  | cons tr rest =>
    have htr : tr ∈ res.possible := by rw [hp]; simp
    rcases ha with rfl | rfl
    · -- accept
      have hadm : Admissible { transitions := [tr], noOp := false, tm := .jumpToEvent } :=
        ⟨fun x hx => by simp at hx; subst hx; exact hl.2 x htr, by simp⟩
      have hoff : AdmOffer inst cfg res.state { transitions := [tr], noOp := false, tm := .jumpToEvent } :=
        Or.inr ⟨poss, hposs, tr, hsub tr htr, rfl⟩
      unfold mwStep interpret
      simp only [hp, except_pure, except_bind_ok, Bool.false_eq_true, if_false]
      obtain ⟨res', r', mic, hs, _⟩ := fb_smStep (orc := orc) (r := r) w nn C hI hS hP hadm hoff hfuel
      simp only [hs, except_bind_ok]; exact ⟨_, rfl⟩
    · -- decline
      unfold mwStep interpret
      simp only [hp, except_pure, except_bind_ok, noOpAction, if_true]
      unfold noOpResult
      simp only [hp]
      cases rest with
      | cons o' rest' => exact ⟨_, rfl⟩
      | nil =>
        have hadm : Admissible { transitions := [], noOp := true, tm := .forceJump } :=
          ⟨fun x hx => by simp at hx, by simp⟩
        have hoff : AdmOffer inst cfg res.state { transitions := [], noOp := true, tm := .forceJump } := Or.inl rfl
        simp only
        obtain ⟨res', r', mic, hs, hsuc⟩ := fb_smStep (orc := orc) (r := r) w nn C hI hS hP hadm hoff hfuel
        simp only [hs, except_bind_ok]
        have hg := (smStep_good hst C.flex hA hF hadm hoff hs).2 hsuc
        by_cases hemp : res'.possible = []
        · have hdone : isDone inst res'.state = true := by
            cases hdn : isDone inst res'.state with
            | true => rfl
            | false => exact absurd hemp (hg hdn)
          simp [hemp, hdone]
        · have : res'.possible.isEmpty = false := by simpa using hemp
          simp only [this, Bool.false_eq_true, if_false]
          exact ⟨_, rfl⟩

/-- **`env.step` returns** for the actions 0 and 1 in every state of every episode that holds an offer -/
theorem fb_envStep {ec : EnvCfg} {st : RewardStatic} {s0 : State} (hst : Start orc inst s0) (C : TotClass inst)
    (h0 : TotP inst s0) (hrw : RewardOK ec.rw st) (hfuel : fuelBound inst ≤ ec.fuel) {e : EnvState}
    (h : EnvReach orc inst ec st s0 e) (hd : e.done = false)
    (hne : e.res.possible ≠ []) {a : AgentAct} (ha : a = .accept ∨ a = .decline) :
    ∃ out, envStep orc inst ec st e a = .ok out := by
  obtain ⟨out, ho⟩ := fb_mwStep (mc := ec.mw) hst C h0 hfuel (envReach_inv hst h) hne e.mw e.rng ha
  exact (envStep_of_mwStepT (orc := orc) (inst := inst) hrw hd a).1 out ho

end JSL
