import JSL.Inv.Startable
import JSL.Inv.OffersHeld
import JSL.Inv.DeclineTo
import JSL.Inv.StartOnly
import JSL.Inv.StartOnlyFifo
import JSL.Inv.StartNow

/-!
# Fresh offers: after reset, after an accepted offer and after the last offer was declined the
offers held are all the offers of the state held
-/

namespace JSL

variable {orc : Oracle} {inst : Instance}

/-- the offers held are all the offers of the state held -/
def FreshOffers (inst : Instance) (ec : EnvCfg) (e : EnvState) : Prop :=
  possibleTransitions inst ec.sm e.res.state = .ok e.res.possible

/-- after `reset` the offers are fresh -/
theorem envReset_fresh {ec : EnvCfg} {s0 : State} {r : Rng} {e : EnvState} {mic : List State}
    (h : envReset orc inst ec s0 r = .ok (e, mic)) (hne : e.res.possible ≠ []) : FreshOffers inst ec e := by
  unfold envReset mwReset at h
  obtain ⟨⟨res, mw, r', mic'⟩, h1, h⟩ := except_bind_eq_ok h
  obtain ⟨⟨res', r'', mic''⟩, h2, h1⟩ := except_bind_eq_ok h1
  simp at h1 h
  obtain ⟨rfl, rfl, rfl, rfl⟩ := h1
  obtain ⟨rfl, rfl⟩ := h
  exact smStep_offers_fresh h2 hne

/-- after an accepted offer, and after the last offer was declined, the offers are fresh (if the
episode goes on) -/
theorem envStep_fresh {ec : EnvCfg} {st : RewardStatic} {e : EnvState} {a : AgentAct} {out : StepOut}
    (h : envStep orc inst ec st e a = .ok out) (hk : a = .accept ∨ e.res.possible.length = 1)
    (hd : out.env.done = false) (hne : out.env.res.possible ≠ []) : FreshOffers inst ec out.env := by
  unfold envStep at h
  split at h
  · simp at h
  · obtain ⟨⟨res', mw, r, mic⟩, hm, h⟩ := except_bind_eq_ok h
    simp only at h
    obtain ⟨⟨rew, cnt⟩, _, h⟩ := except_bind_eq_ok h
    simp at h; subst h
    by_cases hsuc : res'.success = true
    · simp only [hsuc, if_true] at hd hne ⊢
      rcases mwStep_cases hm with ⟨o, o', rest, ha, hp, _⟩ | ⟨act, _, _, hs⟩
      · rcases hk with hk | hk
        · rw [hk] at ha; cases ha
        · rw [hp] at hk; simp at hk
      · exact smStep_offers_fresh hs hne
    · simp [hsuc] at hd


end JSL
