import JSL.Model.Guards
import JSL.Inv.EnvReach

/-!
# Progress for instances whose buffers are all unordered (C11, the part that is true)

`FlexInst inst`: every buffer of the instance is a FLEX buffer.  `HasAgv inst`: some transport is
an AGV.  For such instances, in every state that satisfies the structural, schedule and AGV
invariants and in which no AGV waits without a fixed time (`NoDep`), a state that is not finished
offers a transition or has something pending (`Pending`): a running operation or a busy AGV with
a fixed arrival / waiting time that is not in the past.
-/

namespace JSL

variable {orc : Oracle} {inst : Instance}

/-! ## the class of instances -/

/-- every buffer (stand-alone, pre, internal, post, AGV) is unordered -/
def FlexInst (inst : Instance) : Prop := ∀ bc ∈ allBufCfgs inst, bc.type = .flex

theorem flexInstB_sound (h : flexInstB inst = true) : FlexInst inst := by
  intro bc hbc
  simp only [flexInstB, List.all_eq_true, beq_iff_eq] at h
  exact h bc hbc

/-- some transport is an AGV (only AGVs are dispatched) -/
def HasAgv (inst : Instance) : Prop := ∃ tc ∈ inst.transports, tc.type = .agv

theorem hasAgvB_sound (h : hasAgvB inst = true) : HasAgv inst := by
  simp only [hasAgvB, List.any_eq_true, beq_iff_eq] at h
  exact h

/-! ## what is pending -/

/-- something is in progress: an operation record is being processed (until a recorded end that is
not in the past), or an AGV is busy with a fixed arrival / waiting time that is not in the past -/
def Pending (s : State) : Prop :=
  (∃ j ∈ s.jobs, ∃ o ∈ j.ops, o.st = .processing ∧ ∃ e, o.stop = some e ∧ s.time ≤ e) ∨
  (∃ t ∈ s.transports, t.st ≠ .idle ∧ ∃ e, t.occ = .at e ∧ s.time ≤ e)

/-- no busy AGV is without a fixed time (`NoTime`) or parked on a time dependency -/
def NoDep (s : State) : Prop := ∀ t ∈ s.transports, t.st ≠ .idle → ∃ e, t.occ = .at e

theorem NoDep.of_time {s : State} {t : Int} (h : NoDep { s with time := t }) : NoDep s := h
theorem NoDep.time {s : State} (h : NoDep s) (t : Int) : NoDep { s with time := t } := h

/-! ## `filterE` -/

theorem filterE_total {α} {p : α → Except Err Bool} {l r : List α} (h : filterE p l = .ok r) :
    ∀ x ∈ l, ∃ b, p x = .ok b := by
  induction l generalizing r with
  | nil => intro x hx; cases hx
  | cons a as ih =>
    simp only [filterE] at h
    obtain ⟨b, hb, h⟩ := except_bind_eq_ok h
    obtain ⟨r', hr', _⟩ := except_bind_eq_ok h
    intro x hx
    rcases List.mem_cons.mp hx with rfl | hx
    · exact ⟨b, hb⟩
    · exact ih hr' x hx

theorem filterE_mem_of_true {α} {p : α → Except Err Bool} {l r : List α} (h : filterE p l = .ok r) :
    ∀ x ∈ l, p x = .ok true → x ∈ r := by
  induction l generalizing r with
  | nil => intro x hx; cases hx
  | cons a as ih =>
    simp only [filterE] at h
    obtain ⟨b, hb, h⟩ := except_bind_eq_ok h
    obtain ⟨r', hr', h⟩ := except_bind_eq_ok h
    simp at h
    intro x hx hp
    rcases List.mem_cons.mp hx with rfl | hx
    · rw [hp] at hb
      injection hb with hb
      subst hb
      simp at h; subst h; simp
    · have := ih hr' x hx hp
      cases b <;> simp at h <;> subst h <;> simp [this]

/-! ## busy components are pending -/

theorem pending_of_busy_machine {s : State} (hS : SchedInv s) {m : MachineState} (hm : m ∈ s.machines)
    (hb : m.st ≠ .idle) : Pending s := by
  obtain ⟨j, hj, _, op, hp, _, _, _⟩ := hS.busyHolds m hm hb
  obtain ⟨l1, l2, hl, _, hst⟩ := processing?_split' hp
  have hmem : op ∈ j.ops := by rw [hl]; simp
  obtain ⟨_, b, _, hb', _, _, hle⟩ := (OpsOK_mem _ _ (hS.ops j hj) op hmem).2.1 hst
  exact Or.inl ⟨j, hj, op, hmem, hst, b, hb', hle⟩

theorem pending_of_busy_agv {s : State} (hS : SchedInv s) (hN : NoDep s) {t : TransportState}
    (ht : t ∈ s.transports) (hb : t.st ≠ .idle) : Pending s := by
  obtain ⟨e, he⟩ := hN t ht hb
  exact Or.inr ⟨t, ht, hb, e, he, hS.agvPending t ht hb e he⟩

/-! ## readiness in an unordered buffer -/

theorem getBufState_of_mem (w : WF inst) {s : State} (hs : Shape inst s) {b : BufState} (hb : b ∈ allBufStates s) :
    getBufState (allBufStates s) b.id = .ok b :=
  findE_of_mem (key := fun (y : BufState) => y.id) (hs.bufNodup w) hb _

theorem getBufCfg_of_state (w : WF inst) {s : State} (hs : Shape inst s) {b : BufState} (hb : b ∈ allBufStates s) :
    ∃ bc ∈ allBufCfgs inst, bc.id = b.id ∧ getBufCfg (allBufCfgs inst) b.id = .ok bc := by
  have : b.id ∈ (allBufCfgs inst).map (·.id) := by rw [← hs.bufIds]; exact List.mem_map.mpr ⟨b, hb, rfl⟩
  obtain ⟨bc, hbc, e⟩ := List.mem_map.mp this
  refine ⟨bc, hbc, e, ?_⟩
  have := findE_of_mem (key := fun (y : BufCfg) => y.id) w.bufNodup hbc Err.invalidValue
  simp only [e] at this
  exact this

/-- in an unordered buffer from which AGVs pick up, every stored job is ready for pickup -/
theorem readyForPickup_flex (w : WF inst) (hF : FlexInst inst) {s : State} (hs : Shape inst s) {j : JobState}
    {b : BufState} (hb : b ∈ allBufStates s) (hloc : j.loc = b.id) (hin : j.id ∈ b.store)
    (hk : pickupBufferKind inst b.id = true) : readyForPickup inst s j = .ok true := by
  obtain ⟨bc, hbc, _, hgc⟩ := getBufCfg_of_state w hs hb
  have hty := hF bc hbc
  obtain ⟨p, hp, hpe⟩ := List.mem_iff_getElem.mp hin
  cases hidx : b.store.idxOf? j.id with
  | none => exact absurd hin (List.idxOf?_eq_none_iff.mp hidx)
  | some q =>
    obtain ⟨hq, _, _⟩ := List.idxOf?_eq_some_iff.mp hidx
    have hlen : b.store ≠ [] := by intro e; rw [e] at hq; simp at hq
    simp [readyForPickup, hloc, getBufState_of_mem w hs hb, hgc, hidx, hk, posOk, hty, hq, hlen]

/-! ## the three kinds of offers -/

/-- a job waiting in the pre-buffer of an idle machine can be started (if the check does not raise) -/
theorem actionPossible_true (w : WF inst) {s : State} (hI : StructInv inst s) (hS : SchedInv s) (hR : RouteInv inst s)
    {j : JobState} (hj : j ∈ s.jobs) {m : MachineState} (hm : m ∈ s.machines) (hidle : m.st = .idle)
    (hin : j.id ∈ m.pre.store) {b : Bool} (h : actionPossible inst s j = .ok b) : b = true := by
  have hs := hI.shape
  have hjn := hs.jobsNodup w
  obtain ⟨op, hni, hopm⟩ := hR.preNext m hm j.id hin j hj rfl
  have hst : j.id ∈ storeAt s m.pre.id := by rw [(pre_storeAt w hs hm).1]; exact hin
  have hloc : j.loc = m.pre.id := job_of_store hI.cons hj hst hjn
  have hnp := not_processing_of_stored hI hS w hj hst (fun m3 hm3 => (internal_ne_pre_post hs w hm3 hm).1)
  have hrun : j.running = false := by
    unfold JobState.running
    cases hr : j.ops.any (·.st == .processing) with
    | false => rfl
    | true =>
      obtain ⟨o, ho, e⟩ := List.any_eq_true.mp hr
      exact absurd (by simpa using e) (hnp o ho)
  have hfree : j.nextOpFree = true := by
    unfold JobState.nextOpFree
    rw [hrun]
    simp only [Bool.not_false, Bool.true_and]
    have hoi : (op.st == OSt.idle) = true := by
      unfold JobState.nextIdle? at hni
      have := List.find?_some hni
      exact this
    exact List.any_eq_true.mpr ⟨op, List.mem_of_find?_eq_some hni, hoi⟩
  have hnn : j.nextNotDone = .ok op := by
    have : j.nextNotDone? = some op := by rw [nextNotDone_eq_nextIdle (hS.ops j hj) hrun, hni]
    simp [JobState.nextNotDone, this]
  have hgm : getMachine s.machines op.machine = .ok m := by rw [hopm]; exact getMachine_of_mem (hs.machNodup w) hm
  unfold actionPossible at h
  simp only [hfree, Bool.not_true, Bool.false_eq_true, if_false, bind, Except.bind, pure, Except.pure] at h
  cases ht0 : inst.transports with
  | nil => simp [ht0] at h
  | cons t0 ts =>
    simp only [ht0] at h
    split at h
    · simp at h
    · simp [hnn, hgm, jobAtMachine, hloc, hidle, bind, Except.bind, pure, Except.pure] at h
      exact h

/-- a job lying outside every output buffer and every pre-buffer is transportable (if the check
does not raise) -/
theorem transportable_true {s : State} {j : JobState} (hout : j.loc ∉ outputIds inst)
    (hpre : ∀ m ∈ s.machines, m.pre.id ≠ j.loc) {b : Bool} (h : transportable inst s j = .ok b) : b = true := by
  have hd : jobDone inst j = false := by
    unfold jobDone
    have : (outputIds inst).contains j.loc = false := by
      cases hc : (outputIds inst).contains j.loc with
      | false => rfl
      | true => exact absurd (List.contains_iff_mem.mp hc) hout
    rw [this]; simp
  unfold transportable at h
  simp only [hd, bind, Except.bind, pure, Except.pure] at h
  by_cases hall : j.allDone = true
  · simp [hall] at h; exact h
  · simp only [hall] at h
    cases hni : j.nextIdle? with
    | none => simp [hni] at h
    | some op =>
      simp only [hni] at h
      cases hgm : getMachine s.machines op.machine with
      | error e => simp [hgm] at h
      | ok m =>
        simp only [hgm] at h
        have hm := (getMachine_ok hgm).1
        unfold jobAtMachine at h
        simp only [bind, Except.bind, pure, Except.pure] at h
        cases hnn : j.nextNotDone with
        | error e => simp [hnn] at h
        | ok o2 =>
          have : (m.pre.id == j.loc) = false := by simpa using hpre m hm
          simp [hnn, this] at h
          exact h

/-- an idle AGV is available for dispatch -/
theorem possibleTransports_mem (w : WF inst) {s : State} {ts : List TransportState}
    (h : possibleTransports inst s = .ok ts) {t : TransportState} (ht : t ∈ s.transports) (hidle : t.st = .idle)
    {tc : TransportCfg} (htc : tc ∈ inst.transports) (hid : tc.id = t.id) (hty : tc.type = .agv) : t ∈ ts := by
  unfold possibleTransports at h
  obtain ⟨l, hl, h⟩ := except_bind_eq_ok h
  simp at h; subst h
  obtain ⟨y, hy, e⟩ := (mapM_ok_mem hl).1 t ht
  have hf : findE (fun c : TransportCfg => c.id == t.id) inst.transports Err.invalidKey = .ok tc := by
    have := findE_of_mem (key := fun (c : TransportCfg) => c.id) w.trNodup htc Err.invalidKey
    simp only [hid] at this
    exact this
  simp [hf, hidle, hty] at e
  subst e
  exact List.mem_filterMap.mpr ⟨some t, hy, rfl⟩

/-! ## the state-level theorem -/

/-- a job stored in a buffer AGVs pick up from (stand-alone or post-buffer) that is not an output
buffer: a dispatch is on offer, or something is pending -/
theorem dispatch_or_pending (w : WF inst) {cfg : SMConfig} (hF : cfg.allowEarly = true ∨ FlexInst inst) (hA : HasAgv inst) {s : State}
    (hI : StructInv inst s) (hS : SchedInv s) (hN : NoDep s) {j : JobState} (hj : j ∈ s.jobs)
    {b : BufState} (hb : b ∈ allBufStates s) (hloc : j.loc = b.id) (hin : j.id ∈ b.store)
    (hk : pickupBufferKind inst b.id = true) (hout : j.loc ∉ outputIds inst)
    (hpre : ∀ m ∈ s.machines, m.pre.id ≠ j.loc) (hint : ∀ m ∈ s.machines, m.buffer.id ≠ j.loc)
    {pt : List Transition} (hpt : possibleTransportTransitions inst cfg s = .ok pt) : pt ≠ [] ∨ Pending s := by
  have hs := hI.shape
  by_cases hcl : ∃ t ∈ s.transports, t.job = some j.id
  · obtain ⟨t, ht, htj⟩ := hcl
    right
    apply pending_of_busy_agv hS hN ht
    intro e
    have := hS.freeNoClaim t ht (Or.inl e)
    rw [this] at htj; cases htj
  · obtain ⟨tc, htc, hty⟩ := hA
    have : tc.id ∈ s.transports.map (·.id) := by rw [hs.transportIds]; exact List.mem_map.mpr ⟨tc, htc, rfl⟩
    obtain ⟨t0, ht0, hid⟩ := List.mem_map.mp this
    by_cases hidle : t0.st = .idle
    · left
      unfold possibleTransportTransitions at hpt
      obtain ⟨ts, hts, hpt⟩ := except_bind_eq_ok hpt
      obtain ⟨idle, hidl, hpt⟩ := except_bind_eq_ok hpt
      simp only at hpt
      obtain ⟨lonely, hlonely, hpt⟩ := except_bind_eq_ok hpt
      simp at hpt; subst hpt
      have ht0' : t0 ∈ ts := possibleTransports_mem w hts ht0 hidle htc hid.symm hty
      have hst : j.id ∈ storeAt s j.loc := by rw [hloc, storeAt_of_mem (hs.bufNodup w) hb]; exact hin
      have hnp := not_processing_of_stored hI hS w hj hst hint
      have hrun : j.running = false := by
        unfold JobState.running
        cases hr : j.ops.any (·.st == .processing) with
        | false => rfl
        | true =>
          obtain ⟨o, ho, e⟩ := List.any_eq_true.mp hr
          exact absurd (by simpa using e) (hnp o ho)
      have hjf : j ∈ s.jobs.filter (!·.running) := List.mem_filter.mpr ⟨hj, by simp [hrun]⟩
      obtain ⟨b', hb'⟩ := filterE_total hidl j hjf
      have hbt := transportable_true hout hpre hb'
      subst hbt
      have hji : j ∈ idle := filterE_mem_of_true hidl j hjf hb'
      have hjl : j ∈ (s.jobs.filter (·.running) ++ idle).filter
          (fun j => !(s.transports.filterMap (·.job)).contains j.id) := by
        apply List.mem_filter.mpr
        refine ⟨List.mem_append.mpr (Or.inr hji), ?_⟩
        cases hc : (s.transports.filterMap (·.job)).contains j.id with
        | false => rfl
        | true =>
          obtain ⟨t, ht, e⟩ := List.mem_filterMap.mp (List.contains_iff_mem.mp hc)
          exact absurd ⟨t, ht, e⟩ hcl
      have hjlo : j ∈ lonely := by
        unfold earlyFilter at hlonely
        by_cases he : cfg.allowEarly = true
        · rw [if_pos he] at hlonely
          injection hlonely with h'
          rw [← h']; exact hjl
        · rw [if_neg he] at hlonely
          exact filterE_mem_of_true hlonely j hjl (readyForPickup_flex w (hF.resolve_left he) hs hb hloc hin hk)
      intro e
      have hmem : ({ comp := .t t0.id, new := .t .working, job := some j.id } : Transition) ∈
          ts.flatMap (fun t => lonely.map fun j => ({ comp := .t t.id, new := .t .working, job := some j.id } : Transition)) :=
        List.mem_flatMap.mpr ⟨t0, ht0', List.mem_map.mpr ⟨j, hjlo, rfl⟩⟩
      rw [e] at hmem; cases hmem
    · right; exact pending_of_busy_agv hS hN ht0 hidle

theorem kind_of_buffer {s : State} (hs : Shape inst s) {b : BufState} (hb : b ∈ s.buffers) :
    pickupBufferKind inst b.id = true := by
  unfold pickupBufferKind
  have : b.id ∈ inst.buffers.map (·.id) := by rw [← hs.buffers]; exact List.mem_map.mpr ⟨b, hb, rfl⟩
  rw [List.contains_iff_mem.mpr this]; rfl

theorem kind_of_post {s : State} (hs : Shape inst s) {m : MachineState} (hm : m ∈ s.machines) :
    pickupBufferKind inst m.post.id = true := by
  unfold pickupBufferKind
  have : m.post.id ∈ inst.machines.map (·.post.id) := by
    rw [← hs.postIds]; exact List.mem_map.mpr ⟨m, hm, rfl⟩
  rw [List.contains_iff_mem.mpr this]; simp

/-- **Progress, in terms of the two lists the time machine counts**: in a state that is not
finished a machine start or a dispatch is on offer, or something is pending.  The buffer types
matter only when early transport is disabled (readiness of a stored job); `NoDep` is a hypothesis
on the state here – it is an invariant only for instances with unordered buffers. -/
theorem progress_core (w : WF inst) {cfg : SMConfig} (hF : cfg.allowEarly = true ∨ FlexInst inst) (hA : HasAgv inst) {s : State}
    (hI : StructInv inst s) (hS : SchedInv s) (hP : AgvFull inst s) (hN : NoDep s)
    (hnd : isDone inst s = false) {pj : List JobState} {pt : List Transition}
    (hpj : possibleJobs inst s = .ok pj) (hpt : possibleTransportTransitions inst cfg s = .ok pt) :
    pj ≠ [] ∨ pt ≠ [] ∨ Pending s := by
  have hs := hI.shape
  have hjn := hs.jobsNodup w
  -- an undelivered job
  have : ∃ j ∈ s.jobs, j.loc ∉ outputIds inst := by
    apply Classical.byContradiction
    intro hno
    have : isDone inst s = true := by
      unfold isDone
      apply List.all_eq_true.mpr
      intro j hj
      apply List.contains_iff_mem.mpr
      apply Classical.byContradiction
      intro hn
      exact hno ⟨j, hj, hn⟩
    rw [this] at hnd; cases hnd
  obtain ⟨j, hj, hout⟩ := this
  have hst : j.id ∈ storeAt s j.loc := hI.cons.located (j.id, j.loc) (List.mem_map.mpr ⟨j, hj, rfl⟩)
  obtain ⟨b, hb, hbid, hbs⟩ := storeAt_mem hst
  have hin : j.id ∈ b.store := by rw [← hbs]; exact hst
  rcases (mem_allBufs s b).mp hb with hb1 | ⟨m, hm, rfl | rfl | rfl⟩ | ⟨t, ht, rfl⟩
  · -- a stand-alone buffer that is not an output buffer
    have hp := (ids_parts hs w).1 b hb1
    rcases dispatch_or_pending w hF hA hI hS hN hj hb hbid.symm hin (kind_of_buffer hs hb1) hout
      (fun m hm => by rw [← hbid]; exact (hp m hm).1.symm) (fun m hm => by rw [← hbid]; exact (hp m hm).2.1.symm) hpt with h | h
    · exact Or.inr (Or.inl h)
    · exact Or.inr (Or.inr h)
  · -- the pre-buffer of `m`
    by_cases hidle : m.st = .idle
    · left
      unfold possibleJobs at hpj
      obtain ⟨b', hb'⟩ := filterE_total hpj j hj
      have := actionPossible_true w hI hS hP.route hj hm hidle hin hb'
      subst this
      have := filterE_mem_of_true hpj j hj hb'
      intro e; rw [e] at this; cases this
    · exact Or.inr (Or.inr (pending_of_busy_machine hS hm hidle))
  · -- the internal buffer of `m`
    have hbusy : m.st ≠ .idle := by
      intro e
      have := hS.idleEmpty m hm e
      rw [this] at hin; cases hin
    exact Or.inr (Or.inr (pending_of_busy_machine hS hm hbusy))
  · -- the post-buffer of `m`
    rcases dispatch_or_pending w hF hA hI hS hN hj hb hbid.symm hin (kind_of_post hs hm) hout
      (fun m2 hm2 => by
        rw [← hbid]
        by_cases e2 : m2.id = m.id
        · have : m2 = m := eq_of_mem_of_key_eq (key := fun (y : MachineState) => y.id) (hs.machNodup w) hm2 hm e2
          subst this; exact (machine_buf_ids_ne hs w hm2).2.1
        · exact machines_bufs_ne hs w hm2 hm e2 _ (by simp) _ (by simp))
      (fun m2 hm2 => by rw [← hbid]; exact (internal_ne_pre_post hs w hm2 hm).2) hpt with h | h
    · exact Or.inr (Or.inl h)
    · exact Or.inr (Or.inr h)
  · -- on an AGV
    have hbusy : t.st ≠ .idle := by
      intro e
      have := hP.agv.empty t ht (by rw [e]; simp)
      rw [this] at hin; cases hin
    exact Or.inr (Or.inr (pending_of_busy_agv hS hN ht hbusy))

/-- progress of a state, for unordered buffers or early transport allowed -/
theorem progress_state_gen (w : WF inst) {cfg : SMConfig} (hF : cfg.allowEarly = true ∨ FlexInst inst) (hA : HasAgv inst)
    {s : State} (hI : StructInv inst s) (hS : SchedInv s) (hP : AgvFull inst s) (hN : NoDep s)
    (hnd : isDone inst s = false) {poss : List Transition} (hp : possibleTransitions inst cfg s = .ok poss) :
    poss ≠ [] ∨ Pending s := by
  unfold possibleTransitions at hp
  obtain ⟨pj, hpj, hp⟩ := except_bind_eq_ok hp
  obtain ⟨pt, hpt, hp⟩ := except_bind_eq_ok hp
  obtain ⟨mt, hmt, hp⟩ := except_bind_eq_ok hp
  simp at hp; subst hp
  rcases progress_core w hF hA hI hS hP hN hnd hpj hpt with h | h | h
  · left
    cases pj with
    | nil => exact absurd rfl h
    | cons j rest =>
      obtain ⟨y, hy, _⟩ := (mapM_ok_mem hmt).1 j (by simp)
      intro e
      have : y ∈ mt ++ pt := List.mem_append.mpr (Or.inl hy)
      rw [e] at this; cases this
  · left
    intro e
    exact h (List.append_eq_nil_iff.mp e).2
  · exact Or.inr h

/-- **Progress of a state** (unordered buffers): in a state that is not finished there is an offer,
or something is pending. -/
theorem progress_state (w : WF inst) (hF : FlexInst inst) (hA : HasAgv inst) {cfg : SMConfig} {s : State}
    (hI : StructInv inst s) (hS : SchedInv s) (hP : AgvFull inst s) (hN : NoDep s)
    (hnd : isDone inst s = false) {poss : List Transition} (hp : possibleTransitions inst cfg s = .ok poss) :
    poss ≠ [] ∨ Pending s :=
  progress_state_gen w (Or.inr hF) hA hI hS hP hN hnd hp

/-- the same for any buffer types when early transport is allowed – for a state in which no AGV is
parked on a time dependency (`NoDep`, which ordered post-buffers do not maintain) -/
theorem progress_state_early (w : WF inst) (hA : HasAgv inst) {cfg : SMConfig} (he : cfg.allowEarly = true) {s : State}
    (hI : StructInv inst s) (hS : SchedInv s) (hP : AgvFull inst s) (hN : NoDep s)
    (hnd : isDone inst s = false) {poss : List Transition} (hp : possibleTransitions inst cfg s = .ok poss) :
    poss ≠ [] ∨ Pending s :=
  progress_state_gen w (Or.inl he) hA hI hS hP hN hnd hp

/-- the same for the count `jump_to_event` looks at -/
theorem progress_count (w : WF inst) (hF : FlexInst inst) (hA : HasAgv inst) {cfg : SMConfig} {s : State}
    (hI : StructInv inst s) (hS : SchedInv s) (hP : AgvFull inst s) (hN : NoDep s)
    (hnd : isDone inst s = false) {n : Nat} (hn : numPossibleEvents inst cfg s = .ok n) :
    0 < n ∨ Pending s := by
  unfold numPossibleEvents at hn
  obtain ⟨pt, hpt, hn⟩ := except_bind_eq_ok hn
  obtain ⟨pj, hpj, hn⟩ := except_bind_eq_ok hn
  simp at hn; subst hn
  rcases progress_core w (Or.inr hF) hA hI hS hP hN hnd hpj hpt with h | h | h
  · left
    cases pj with
    | nil => exact absurd rfl h
    | cons j rest => simp only [List.length_cons]; omega
  · left
    cases pt with
    | nil => exact absurd rfl h
    | cons j rest => simp only [List.length_cons]; omega
  · exact Or.inr h

/-- when something is pending, a forced jump lands exactly on the earliest pending end -/
theorem forceJump_pending {s : State} (hS : SchedInv s) (hp : Pending s) {t : Int} (h : forceJump s = .ok t) :
    (∃ j ∈ s.jobs, ∃ o ∈ j.ops, o.st = .processing ∧ o.stop = some t) ∨
    (∃ x ∈ s.transports, x.st ≠ .idle ∧ x.occ = .at t) := by
  rcases (forceJump_spec hS h).2.2 with h1 | h1 | ⟨h1, h2, _⟩
  · exact Or.inl h1
  · exact Or.inr h1
  · rcases hp with ⟨j, hj, o, ho, hst, _⟩ | ⟨x, hx, hb, e, he, _⟩
    · exact absurd hst (h1 j hj o ho)
    · exact absurd he (h2 x hx hb e)

/-- offers do not read the clock -/
theorem possibleTransitions_time (cfg : SMConfig) (s : State) (t : Int) :
    possibleTransitions inst cfg { s with time := t } = possibleTransitions inst cfg s := rfl

end JSL
