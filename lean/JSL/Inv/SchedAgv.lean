import JSL.Inv.SchedMachine

/-! The schedule invariant under the AGV handlers and under time advance. -/

namespace JSL

variable {orc : Oracle} {inst : Instance}

/-- Frame principle: if the jobs keep their operation records and the machines keep their phase,
`occ` and internal buffer content, every clause except the AGV ones carries over. -/
theorem SchedInv.frame {s s' : State} (hS : SchedInv s) (htime : s'.time = s.time)
    (hjf : ∀ x' ∈ s'.jobs, ∃ x ∈ s.jobs, x.id = x'.id ∧ x.ops = x'.ops)
    (hjb : ∀ x ∈ s.jobs, ∃ x' ∈ s'.jobs, x.id = x'.id ∧ x.ops = x'.ops)
    (hmf : ∀ y' ∈ s'.machines, ∃ y ∈ s.machines, y.id = y'.id ∧ y.st = y'.st ∧ y.occ = y'.occ ∧
        y.buffer.store = y'.buffer.store)
    (hmb : ∀ y ∈ s.machines, ∃ y' ∈ s'.machines, y.id = y'.id ∧ y.st = y'.st ∧ y.occ = y'.occ ∧
        y.buffer.store = y'.buffer.store)
    (hagv : ∀ t ∈ s'.transports, t.st ≠ .idle → ∀ o, t.occ = .at o → s'.time ≤ o)
    (hfree : ∀ t ∈ s'.transports, t.st = .idle ∨ t.st = .outage → t.job = none)
    (hdep : ∀ t ∈ s'.transports, ∀ b j tr, t.occ = .dep b j tr → tr.new = .t .waitingpickup) : SchedInv s' where
  idleEmpty y' hy' hst := by
    obtain ⟨y, hy, _, e2, _, e4⟩ := hmf y' hy'
    rw [← e4]; exact hS.idleEmpty y hy (by rw [e2]; exact hst)
  busyHolds y' hy' hst := by
    obtain ⟨y, hy, e1, e2, e3, e4⟩ := hmf y' hy'
    obtain ⟨j, hj, h1, op, h2, h3, h4, h5⟩ := hS.busyHolds y hy (by rw [e2]; exact hst)
    obtain ⟨j', hj', f1, f2⟩ := hjb j hj
    refine ⟨j', hj', by rw [← e4, h1, f1], op, ?_, by rw [h3, e1], by rw [h4, e3], by rw [← e3]; exact h5⟩
    unfold JobState.processing? at h2 ⊢; rw [← f2]; exact h2
  procOnBusy x' hx' o ho hp := by
    obtain ⟨x, hx, f1, f2⟩ := hjf x' hx'
    obtain ⟨y, hy, h1, h2, h3⟩ := hS.procOnBusy x hx o (by rw [f2]; exact ho) hp
    obtain ⟨y', hy', e1, e2, _, e4⟩ := hmb y hy
    exact ⟨y', hy', by rw [← e1, h1], by rw [← e2]; exact h2, by rw [← e4, h3, f1]⟩
  ops x' hx' := by
    obtain ⟨x, hx, _, f2⟩ := hjf x' hx'
    rw [htime, ← f2]; exact hS.ops x hx
  doneBeforeProc j₁ hj₁ o₁ ho₁ j₂ hj₂ o₂ ho₂ := by
    obtain ⟨x1, hx1, _, f1⟩ := hjf j₁ hj₁
    obtain ⟨x2, hx2, _, f2⟩ := hjf j₂ hj₂
    exact hS.doneBeforeProc x1 hx1 o₁ (by rw [f1]; exact ho₁) x2 hx2 o₂ (by rw [f2]; exact ho₂)
  doneDisjoint j₁ hj₁ o₁ ho₁ j₂ hj₂ o₂ ho₂ := by
    obtain ⟨x1, hx1, _, f1⟩ := hjf j₁ hj₁
    obtain ⟨x2, hx2, _, f2⟩ := hjf j₂ hj₂
    exact hS.doneDisjoint x1 hx1 o₁ (by rw [f1]; exact ho₁) x2 hx2 o₂ (by rw [f2]; exact ho₂)
  agvPending := hagv
  freeNoClaim := hfree
  depWaiting := hdep

/-- replacing one transport: jobs and machines are untouched -/
theorem SchedInv.replaceTransport (w : WF inst) {s : State} (hI : StructInv inst s) (hS : SchedInv s)
    {t t' : TransportState} (ht : t ∈ s.transports) (hid : t'.id = t.id)
    (hocc : t'.st ≠ .idle → ∀ o, t'.occ = .at o → s.time ≤ o)
    (hfree : t'.st = .idle ∨ t'.st = .outage → t'.job = none)
    (hdep : ∀ b j tr, t'.occ = .dep b j tr → tr.new = .t .waitingpickup) : SchedInv (s.replaceTransport t') := by
  apply hS.frame (s' := s.replaceTransport t') rfl (fun x hx => ⟨x, hx, rfl, rfl⟩) (fun x hx => ⟨x, hx, rfl, rfl⟩)
    (fun y hy => ⟨y, hy, rfl, rfl, rfl, rfl⟩) (fun y hy => ⟨y, hy, rfl, rfl, rfl, rfl⟩)
  · intro x hx hst o ho
    rcases (mem_replaceTransport (hI.shape.trNodup w) ht hid x).mp hx with rfl | ⟨hx0, _⟩
    · exact hocc hst o ho
    · exact hS.agvPending x hx0 hst o ho
  · intro x hx hst
    rcases (mem_replaceTransport (hI.shape.trNodup w) ht hid x).mp hx with rfl | ⟨hx0, _⟩
    · exact hfree hst
    · exact hS.freeNoClaim x hx0 hst
  · intro x hx b j tr ho
    rcases (mem_replaceTransport (hI.shape.trNodup w) ht hid x).mp hx with rfl | ⟨hx0, _⟩
    · exact hdep b j tr ho
    · exact hS.depWaiting x hx0 b j tr ho

theorem idleToWorking_sched (w : WF inst) (nn : NonNeg orc inst) {s s' : State} {r r' : Rng} {tr : Transition}
    {t : TransportState} (hI : StructInv inst s) (hS : SchedInv s) (ht : t ∈ s.transports)
    (h : handleAgvIdleToWorking orc inst s r tr t = .ok (s', r')) : SchedInv s' := by
  obtain ⟨j, cur, target, src, bc, c, _, _, _, _, _, _, _, hc, _, rfl⟩ := idleToWorking_spec h
  apply hS.replaceTransport w hI ht (by simp [TransportState.toPickup])
  · intro _ o ho
    simp [TransportState.toPickup] at ho; subst ho
    have := TimeCfg.cur_nonneg nn.orc r c (nn.travel _ (lookup_mem (by simpa [travelCfg] using hc)))
    omega
  · simp [TransportState.toPickup]
  · intro b j tr ho; simp [TransportState.toPickup] at ho

/-- a time dependency returned by `_get_waiting_time` parks a "keep waiting" transition: the one
being handled, or the one another waiting AGV has parked -/
theorem getWaitingTime_dep {s : State} (hS : SchedInv s) {tr : Transition} (hnew : tr.new = .t .waitingpickup)
    {b j : Nat} {tr' : Transition} (h : getWaitingTime inst s tr = .ok (.dep b j tr')) :
    tr'.new = .t .waitingpickup := by
  unfold getWaitingTime at h
  obtain ⟨j0, _, h⟩ := except_bind_eq_ok h
  obtain ⟨bc, _, h⟩ := except_bind_eq_ok h
  cases hp : bc.parent with
  | none => simp [hp] at h
  | some p =>
    cases p with
    | t n => simp [hp] at h
    | b n => simp [hp] at h
    | m mid =>
      simp only [hp] at h
      obtain ⟨ms, _, h⟩ := except_bind_eq_ok h
      split at h
      · obtain ⟨rdy, _, h⟩ := except_bind_eq_ok h
        split at h
        · simp at h
        · unfold waitBehind at h
          obtain ⟨nxt, _, h⟩ := except_bind_eq_ok h
          obtain ⟨nj, _, h⟩ := except_bind_eq_ok h
          split at h
          · simp at h
          · cases htb : transportByJob s nxt with
            | none => simp [htb] at h; rw [← h.2.2]; exact hnew
            | some t2 =>
              simp [htb] at h
              unfold transportByJob at htb
              exact hS.depWaiting t2 (List.mem_of_find?_eq_some htb) b j tr' h
      · unfold waitProcessing at h
        cases hpr : j0.processing? with
        | none => simp [hpr] at h
        | some op => simp [hpr] at h; split at h <;> simp at h

/-- the waiting time computed for an AGV is never in the past -/
theorem getWaitingTime_pending {s : State} (hS : SchedInv s) {tr : Transition} {occ : Occ}
    (h : getWaitingTime inst s tr = .ok occ) : ∀ o, occ = .at o → s.time ≤ o := by
  unfold getWaitingTime at h
  obtain ⟨j, hj, h⟩ := except_bind_eq_ok h
  have hj' := getJobOpt_ok hj
  obtain ⟨bc, _, h⟩ := except_bind_eq_ok h
  intro o ho
  cases hp : bc.parent with
  | none => simp [hp] at h; subst h; simp at ho; omega
  | some p =>
    cases p with
    | t n => simp [hp] at h
    | b n => simp [hp] at h
    | m mid =>
      simp only [hp] at h
      obtain ⟨ms, _, h⟩ := except_bind_eq_ok h
      split at h
      · obtain ⟨rdy, _, h⟩ := except_bind_eq_ok h
        split at h
        · simp at h; subst h; simp at ho; omega
        · unfold waitBehind at h
          obtain ⟨nxt, _, h⟩ := except_bind_eq_ok h
          obtain ⟨nj, _, h⟩ := except_bind_eq_ok h
          split at h
          · simp at h; subst h; simp at ho; omega
          · cases htb : transportByJob s nxt with
            | none => simp [htb] at h; subst h; simp at ho
            | some t2 =>
              simp [htb] at h; subst h
              unfold transportByJob at htb
              have hm := List.mem_of_find?_eq_some htb
              have hjb := List.find?_some htb
              simp at hjb
              have hni : t2.st ≠ .idle := by
                intro e
                have := hS.freeNoClaim t2 hm (Or.inl e)
                rw [this] at hjb; simp at hjb
              exact hS.agvPending t2 hm hni o ho
      · unfold waitProcessing at h
        cases hpr : j.processing? with
        | none => simp [hpr] at h
        | some op =>
          simp [hpr] at h
          obtain ⟨_, _, hl, _, hst⟩ := processing?_split' hpr
          obtain ⟨a, b, _, hb, _, _, hle⟩ := (OpsOK_mem _ _ (hS.ops j hj'.1) op (by rw [hl]; simp)).2.1 hst
          rw [hb] at h; simp at h; subst h; simp at ho; omega

theorem pickupToWaiting_sched (w : WF inst) {s s' : State} {r r' : Rng} {tr : Transition}
    {t : TransportState} (hI : StructInv inst s) (hS : SchedInv s) (ht : t ∈ s.transports)
    (hnew : tr.new = .t .waitingpickup)
    (h : handleAgvPickupToWaiting inst s r tr t = .ok (s', r')) : SchedInv s' := by
  obtain ⟨occ, hocc, _, _, rfl⟩ := pickupToWaiting_spec h
  apply hS.replaceTransport w hI ht (by simp [TransportState.toWaiting])
  · intro _ o ho; exact getWaitingTime_pending hS hocc o (by simpa [TransportState.toWaiting] using ho)
  · simp [TransportState.toWaiting]
  · intro b j tr' ho
    simp only [TransportState.toWaiting] at ho
    exact getWaitingTime_dep hS hnew (ho ▸ hocc)

theorem waitingToWaiting_sched (w : WF inst) {s s' : State} {r r' : Rng} {tr : Transition}
    {t : TransportState} (hI : StructInv inst s) (hS : SchedInv s) (ht : t ∈ s.transports)
    (hnew : tr.new = .t .waitingpickup)
    (h : handleAgvWaitingToWaiting inst s r tr t = .ok (s', r')) : SchedInv s' := by
  obtain ⟨occ, hocc, _, rfl⟩ := waitingToWaiting_spec h
  apply hS.replaceTransport w hI ht (by simp [TransportState.toWaiting])
  · intro _ o ho; exact getWaitingTime_pending hS hocc o (by simpa [TransportState.toWaiting] using ho)
  · simp [TransportState.toWaiting]
  · intro b j tr' ho
    simp only [TransportState.toWaiting] at ho
    exact getWaitingTime_dep hS hnew (ho ▸ hocc)

theorem agvOutageToIdle_sched (w : WF inst) {s s' : State} {r r' : Rng}
    {t : TransportState} (hI : StructInv inst s) (hS : SchedInv s) (ht : t ∈ s.transports) (hst : t.st = .outage)
    (h : handleAgvOutageToIdle s r t = .ok (s', r')) : SchedInv s' := by
  obtain ⟨_, rfl⟩ := agvOutageToIdle_spec h
  apply hS.replaceTransport w hI ht (by simp [TransportState.toIdle])
  · intro hne; simp [TransportState.toIdle] at hne
  · intro _; simp only [TransportState.toIdle]; exact hS.freeNoClaim t ht (Or.inr hst)
  · intro b j tr ho; simp only [TransportState.toIdle] at ho; exact hS.depWaiting t ht b j tr ho

/-- frame facts for replacing a job by a relocated copy -/
theorem jobs_frame_at {s : State} (hjn : (s.jobs.map (·.id)).Nodup) {j : JobState} (hj : j ∈ s.jobs) (l : Nat) :
    (∀ x' ∈ (s.replaceJob (j.at l)).jobs, ∃ x ∈ s.jobs, x.id = x'.id ∧ x.ops = x'.ops) ∧
    (∀ x ∈ s.jobs, ∃ x' ∈ (s.replaceJob (j.at l)).jobs, x.id = x'.id ∧ x.ops = x'.ops) := by
  constructor
  · intro x' hx'
    rcases (mem_replaceJob hjn hj (by simp) x').mp hx' with rfl | ⟨hx0, _⟩
    · exact ⟨j, hj, rfl, rfl⟩
    · exact ⟨x', hx0, rfl, rfl⟩
  · intro x hx
    by_cases e : x.id = j.id
    · have : x = j := eq_of_mem_of_key_eq (key := fun (z : JobState) => z.id) hjn hx hj e
      subst this
      exact ⟨x.at l, (mem_replaceJob hjn hj (by simp) _).mpr (Or.inl rfl), rfl, rfl⟩
    · exact ⟨x, (mem_replaceJob hjn hj (by simp) _).mpr (Or.inr ⟨hx, e⟩), rfl, rfl⟩

/-- frame facts for replacing a machine by one with the same phase, `occ` and internal buffer -/
theorem machines_frame {s : State} (hmn : (s.machines.map (·.id)).Nodup) {m m' : MachineState} (hm : m ∈ s.machines)
    (hid : m'.id = m.id) (hst : m'.st = m.st) (hocc : m'.occ = m.occ) (hb : m'.buffer.store = m.buffer.store) :
    (∀ y' ∈ (s.replaceMachine m').machines, ∃ y ∈ s.machines, y.id = y'.id ∧ y.st = y'.st ∧ y.occ = y'.occ ∧
        y.buffer.store = y'.buffer.store) ∧
    (∀ y ∈ s.machines, ∃ y' ∈ (s.replaceMachine m').machines, y.id = y'.id ∧ y.st = y'.st ∧ y.occ = y'.occ ∧
        y.buffer.store = y'.buffer.store) := by
  constructor
  · intro y' hy'
    rcases (mem_replaceMachine hmn hm hid y').mp hy' with rfl | ⟨hy0, _⟩
    · exact ⟨m, hm, hid.symm, hst.symm, hocc.symm, hb.symm⟩
    · exact ⟨y', hy0, rfl, rfl, rfl, rfl⟩
  · intro y hy
    by_cases e : y.id = m.id
    · have : y = m := eq_of_mem_of_key_eq (key := fun (z : MachineState) => z.id) hmn hy hm e
      subst this
      exact ⟨m', (mem_replaceMachine hmn hm hid _).mpr (Or.inl rfl), hid.symm, hst.symm, hocc.symm, hb.symm⟩
    · exact ⟨y, (mem_replaceMachine hmn hm hid _).mpr (Or.inr ⟨hy, e⟩), rfl, rfl, rfl, rfl⟩

theorem travelTimeFromSpec_nonneg (nn : NonNeg orc inst) {r r' : Rng} {a b : Loc} {tt : Int}
    (h : travelTimeFromSpec orc inst r a b = .ok (tt, r')) : 0 ≤ tt := by
  unfold travelTimeFromSpec at h
  split at h
  · simp at h
  · cases hc : travelCfg inst a b with
    | none => simp [hc] at h
    | some c =>
      simp [hc] at h
      have := TimeCfg.updRead_nonneg nn.orc r c (nn.travel _ (lookup_mem (by simpa [travelCfg] using hc)))
      rw [h] at this; exact this

theorem pickupToTransit_sched (w : WF inst) (nn : NonNeg orc inst) {s s' : State} {r r' : Rng} {tr : Transition}
    {t : TransportState} (hI : StructInv inst s) (hS : SchedInv s) (ht : t ∈ s.transports)
    (hnp : ∀ j ∈ s.jobs, tr.job = some j.id → ∀ o ∈ j.ops, o.st ≠ .processing)
    (h : handleAgvPickupToTransit orc inst s r tr t = .ok (s', r')) : SchedInv s' := by
  obtain ⟨j, src, dst, tt, bss1, bss2, hj, htj, _, htt, _, hcase⟩ := pickupToTransit_spec h
  have hs := hI.shape
  have htt0 := travelTimeFromSpec_nonneg nn htt
  have hnoproc := hnp j hj htj
  have hagv : ∀ (S : State), S.time = s.time → (∀ x ∈ S.transports, x = t.toTransit (s.time + tt) j.id bss2 ∨
      (x ∈ s.transports ∧ x.id ≠ t.id)) →
      (∀ x ∈ S.transports, x.st ≠ .idle → ∀ o, x.occ = .at o → S.time ≤ o) ∧
      (∀ x ∈ S.transports, x.st = .idle ∨ x.st = .outage → x.job = none) ∧
      (∀ x ∈ S.transports, ∀ b j tr, x.occ = .dep b j tr → tr.new = .t .waitingpickup) := by
    intro S hT hmem
    refine ⟨?_, ?_, ?_⟩
    · intro x hx hst o ho
      rw [hT]
      rcases hmem x hx with rfl | ⟨hx0, _⟩
      · simp [TransportState.toTransit] at ho; omega
      · exact hS.agvPending x hx0 hst o ho
    · intro x hx hst
      rcases hmem x hx with rfl | ⟨hx0, _⟩
      · simp [TransportState.toTransit] at hst
      · exact hS.freeNoClaim x hx0 hst
    · intro x hx b j tr ho
      rcases hmem x hx with rfl | ⟨hx0, _⟩
      · simp [TransportState.toTransit] at ho
      · exact hS.depWaiting x hx0 b j tr ho
  rcases hcase with ⟨fb, _, _, hfb, _, _, rfl⟩ | ⟨mid, ms, bs, ms', _, _, hms, _, hbs, hin, hms', rfl⟩
  · have hjf := jobs_frame_at (s := s.replaceBuffer (fb.without j.id bss1)) (hs.jobsNodup w) hj t.buffer.id
    have hA := hagv (((s.replaceBuffer (fb.without j.id bss1)).replaceJob (j.at t.buffer.id)).replaceTransport
      (t.toTransit (s.time + tt) j.id bss2)) rfl (by
        intro x hx
        exact (mem_replaceTransport (s := (s.replaceBuffer _).replaceJob _) (hs.trNodup w) ht
          (by simp [TransportState.toTransit]) x).mp hx)
    exact hS.frame rfl hjf.1 hjf.2 (fun y hy => ⟨y, hy, rfl, rfl, rfl, rfl⟩) (fun y hy => ⟨y, hy, rfl, rfl, rfl, rfl⟩)
      hA.1 hA.2.1 hA.2.2
  · obtain ⟨hbid, hbwhich⟩ := bufOfMachine_ok hbs
    have hne3 := machine_buf_ids_ne hs w hms
    have hnotint : bs ≠ ms.buffer ∨ bs = ms.pre ∨ bs = ms.post := by
      by_cases e : bs = ms.buffer
      · exfalso
        subst e
        have hbusy : ms.st ≠ .idle := by
          intro hi
          have := hS.idleEmpty ms hms hi
          rw [this] at hin; simp at hin
        obtain ⟨_, op, hp, _⟩ := busy_job hI hS w hms hbusy hj hin
        obtain ⟨_, _, hl, _, hst⟩ := processing?_split' hp
        exact hnoproc op (by rw [hl]; simp) hst
      · exact Or.inl e
    have hms'eq : ms'.id = ms.id ∧ ms'.st = ms.st ∧ ms'.occ = ms.occ ∧ ms'.buffer.store = ms.buffer.store := by
      unfold replaceBufInMachine at hms'
      rcases hbwhich with rfl | rfl | rfl
      · simp at hms'; subst hms'; simp
      · rcases hnotint with e | e | e
        · exact absurd rfl e
        · have := congrArg BufState.id e; exact absurd this hne3.1.symm
        · have := congrArg BufState.id e; exact absurd this hne3.2.2
      · simp [hne3.2.1.symm, hne3.2.2.symm] at hms'; subst hms'; simp
    have hmf := machines_frame (hs.machNodup w) hms hms'eq.1 hms'eq.2.1 hms'eq.2.2.1 hms'eq.2.2.2
    have hmk : mKey ms' = mKey ms := by
      unfold replaceBufInMachine at hms'
      rcases hbwhich with rfl | rfl | rfl
      · simp at hms'; subst hms'; simp [mKey]
      · simp [hne3.1.symm] at hms'; subst hms'; simp [mKey]
      · simp [hne3.2.1.symm, hne3.2.2.symm] at hms'; subst hms'; simp [mKey]
    have hjf := jobs_frame_at (s := s.replaceMachine ms') (hs.jobsNodup w) hj t.buffer.id
    have hA := hagv (((s.replaceMachine ms').replaceJob (j.at t.buffer.id)).replaceTransport
      (t.toTransit (s.time + tt) j.id bss2)) rfl (by
        intro x hx
        exact (mem_replaceTransport (s := (s.replaceMachine _).replaceJob _) (hs.trNodup w) ht
          (by simp [TransportState.toTransit]) x).mp hx)
    exact hS.frame rfl hjf.1 hjf.2 hmf.1 hmf.2 hA.1 hA.2.1 hA.2.2

theorem transitToOutage_sched (w : WF inst) (nn : NonNeg orc inst) {s s' : State} {r r' : Rng} {tr : Transition}
    {t : TransportState} (hI : StructInv inst s) (hS : SchedInv s) (ht : t ∈ s.transports)
    (h : handleAgvTransitToOutage orc inst s r tr t = .ok (s', r')) : SchedInv s' := by
  obtain ⟨j, cur, pick, drop, tc, outs, bss1, bss2, hj, htj, _, _, htc, _, hout, hcase⟩ := transitToOutage_spec h
  have hs := hI.shape
  have hocc : 0 ≤ occupiedFor outs := occupiedFor_new_nonneg nn.orc (nn.tout tc htc) hout
  have hagv : ∀ (S : State), S.time = s.time →
      (∀ x ∈ S.transports, x = t.toOutage j.id bss1 outs (s.time + occupiedFor outs) drop ∨
        (x ∈ s.transports ∧ x.id ≠ t.id)) →
      (∀ x ∈ S.transports, x.st ≠ .idle → ∀ o, x.occ = .at o → S.time ≤ o) ∧
      (∀ x ∈ S.transports, x.st = .idle ∨ x.st = .outage → x.job = none) ∧
      (∀ x ∈ S.transports, ∀ b j tr, x.occ = .dep b j tr → tr.new = .t .waitingpickup) := by
    intro S hT hmem
    refine ⟨?_, ?_, ?_⟩
    · intro x hx hst o ho
      rw [hT]
      rcases hmem x hx with rfl | ⟨hx0, _⟩
      · simp [TransportState.toOutage] at ho; omega
      · exact hS.agvPending x hx0 hst o ho
    · intro x hx hst
      rcases hmem x hx with rfl | ⟨hx0, _⟩
      · simp [TransportState.toOutage]
      · exact hS.freeNoClaim x hx0 hst
    · intro x hx b j tr ho
      rcases hmem x hx with rfl | ⟨hx0, _⟩
      · simp [TransportState.toOutage] at ho
      · exact hS.depWaiting x hx0 b j tr ho
  rcases hcase with ⟨mid, ms, _, hms, _, _, rfl⟩ | ⟨bid, b, _, hb, _, _, rfl⟩
  · have hjf := jobs_frame_at (hs.jobsNodup w) hj ms.pre.id
    have hmf := machines_frame (s := (s.replaceJob (j.at ms.pre.id)).replaceTransport
      (t.toOutage j.id bss1 outs (s.time + occupiedFor outs) drop)) (hs.machNodup w) hms
      (m' := ms.withPre j.id bss2) rfl rfl rfl rfl
    have hA := hagv ((((s.replaceJob (j.at ms.pre.id)).replaceTransport
      (t.toOutage j.id bss1 outs (s.time + occupiedFor outs) drop)).replaceMachine (ms.withPre j.id bss2))) rfl (by
        intro x hx
        exact (mem_replaceTransport (s := s.replaceJob _) (hs.trNodup w) ht
          (by simp [TransportState.toOutage]) x).mp hx)
    exact hS.frame rfl hjf.1 hjf.2 hmf.1 hmf.2 hA.1 hA.2.1 hA.2.2
  · have hjf := jobs_frame_at (hs.jobsNodup w) hj b.id
    have hA := hagv ((((s.replaceJob (j.at b.id)).replaceTransport
      (t.toOutage j.id bss1 outs (s.time + occupiedFor outs) drop)).replaceBuffer (b.withBack j.id bss2))) rfl (by
        intro x hx
        exact (mem_replaceTransport (s := s.replaceJob _) (hs.trNodup w) ht
          (by simp [TransportState.toOutage]) x).mp hx)
    exact hS.frame rfl hjf.1 hjf.2 (fun y hy => ⟨y, hy, rfl, rfl, rfl, rfl⟩) (fun y hy => ⟨y, hy, rfl, rfl, rfl, rfl⟩)
      hA.1 hA.2.1 hA.2.2

/-- every pending end of the state: processing operations and busy AGVs with a time -/
def PendingGe (s : State) (t : Int) : Prop :=
  (∀ j ∈ s.jobs, ∀ o ∈ j.ops, o.st = .processing → ∀ b, o.stop = some b → t ≤ b) ∧
  (∀ x ∈ s.transports, x.st ≠ .idle → ∀ o, x.occ = .at o → t ≤ o)

/-- time may advance to any instant that is not later than any pending end -/
theorem SchedInv.advance {s : State} (hS : SchedInv s) {t : Int} (hle : s.time ≤ t) (hp : PendingGe s t) :
    SchedInv { s with time := t } where
  idleEmpty := hS.idleEmpty
  busyHolds := hS.busyHolds
  procOnBusy := hS.procOnBusy
  ops j hj := OpsOK_time hle j.ops none (hp.1 j hj) (hS.ops j hj)
  doneBeforeProc := hS.doneBeforeProc
  doneDisjoint := hS.doneDisjoint
  agvPending := hp.2
  freeNoClaim := hS.freeNoClaim
  depWaiting := hS.depWaiting

end JSL
