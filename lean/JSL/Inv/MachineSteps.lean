import JSL.Inv.Jobs

/-!
# Structural invariants are preserved by the four machine handlers
-/

namespace JSL

variable {orc : Oracle} {inst : Instance}

structure StructInv (inst : Instance) (s : State) : Prop where
  shape : Shape inst s
  cons : ConservedV s
  cap : CapV inst s

/-- the capacity check made against the machine's own buffer config covers every config with
that id (ids are unique) -/
theorem room_of_cfg (w : WF inst) {c0 : BufCfg} (hc0 : c0 ∈ allBufCfgs inst) {n : Int} (h : n < c0.cap) :
    ∀ c ∈ allBufCfgs inst, c.id = c0.id → n < c.cap := by
  intro c hc hid
  have : c = c0 := eq_of_mem_of_key_eq (key := fun (y : BufCfg) => y.id) w.bufNodup hc hc0 hid
  rw [this]; exact h

theorem mem_allBufCfgs_of_machine {mc : MachineCfg} (h : mc ∈ inst.machines) :
    mc.pre ∈ allBufCfgs inst ∧ mc.buf ∈ allBufCfgs inst ∧ mc.post ∈ allBufCfgs inst := by
  simp only [allBufCfgs, List.mem_append, List.mem_flatMap, List.mem_map]
  exact ⟨Or.inl (Or.inr ⟨mc, h, by simp⟩), Or.inl (Or.inr ⟨mc, h, by simp⟩), Or.inl (Or.inr ⟨mc, h, by simp⟩)⟩

/-- a machine state and the machine config with the same id have the same buffer ids -/
theorem Shape.machine_cfg_ids {s : State} (hs : Shape inst s) (w : WF inst) {m : MachineState}
    (hm : m ∈ s.machines) {mc : MachineCfg} (hmc : mc ∈ inst.machines) (hid : mc.id = m.id) :
    mc.pre.id = m.pre.id ∧ mc.buf.id = m.buffer.id ∧ mc.post.id = m.post.id := by
  obtain ⟨mc', hmc', hk⟩ := hs.machine_cfg hm
  simp only [mKey, mcKey, Prod.mk.injEq] at hk
  have : mc' = mc := eq_of_mem_of_key_eq (key := fun (y : MachineCfg) => y.id) w.machNodup hmc' hmc
    (by rw [← hk.1, hid])
  subst this
  exact ⟨hk.2.1.symm, hk.2.2.1.symm, hk.2.2.2.symm⟩

theorem replaceOp_at_jKey {s : State} (hs : Shape inst s) (w : WF inst) {j : JobState}
    (hj : j ∈ s.jobs) {op op' : OpState} (hop : op ∈ j.ops) (hk : opKey op' = opKey op) (l : Nat) :
    jKey ((j.replaceOp op').at l) = jKey j := replaceOp_jKey hs w hj hop hk l

theorem replaceOp_jKey' {s : State} (hs : Shape inst s) (w : WF inst) {j : JobState}
    (hj : j ∈ s.jobs) {op op' : OpState} (hop : op ∈ j.ops) (hk : opKey op' = opKey op) :
    jKey (j.replaceOp op') = jKey j := by
  have := replaceOp_jKey hs w hj hop hk j.loc
  simpa [JobState.replaceOp, jKey] using this

theorem idleToSetup_struct (w : WF inst) {s s' : State} {r r' : Rng} {tr : Transition} {m : MachineState}
    (hI : StructInv inst s) (hm : m ∈ s.machines)
    (hvalid : ∀ j ∈ s.jobs, tr.job = some j.id → ∀ op, j.nextNotDone? = some op → op.machine = m.id)
    (h : handleMachineIdleToSetup orc inst s r tr m = .ok (s', r')) : StructInv inst s' := by
  obtain ⟨j, op, oc, mc, sd, bss1, bss2, hj, htj, hjin, hop, hoc, hocj, hoci, hmc, hmcid, hcap, _, rfl⟩ :=
    idleToSetup_spec h
  have hs := hI.shape
  have hopm := find?_mem_ops hop
  have hmach := hvalid j hj htj op hop
  have hne := machine_buf_ids_ne hs w hm
  have hk1 := replaceOp_at_jKey hs w hj hopm.1 (op' := opRec oc s.time (s.time + sd) m.id)
    (by simp [opKey, opRec, hocj, hoci, hmach]) m.buffer.id
  have hs1 := hs.replaceJob w hj hk1
  have hmk : mKey (m.toSetup j.id bss1 bss2 (s.time + sd) oc.tool) = mKey m := by
    simp [mKey, MachineState.toSetup]
  have hs2 := hs1.replaceMachine w hm hmk
  have hpre : storeAt s m.pre.id = m.pre.store := storeAt_of_mem (hs.bufNodup w) (mem_allBufs_of_machine hm).1
  have hbuf : storeAt s m.buffer.id = m.buffer.store := storeAt_of_mem (hs.bufNodup w) (mem_allBufs_of_machine hm).2.1
  have hpost : storeAt s m.post.id = m.post.store := storeAt_of_mem (hs.bufNodup w) (mem_allBufs_of_machine hm).2.2
  have hmv : Moved s _ j.id m.pre.id m.buffer.id := {
    ne := hne.1
    was := hI.cons.stored _ _ (by rw [hpre]; exact hjin)
    storeA := by rw [storeAt_replaceMachine hs1 w hm hmk]; simp [hpre, MachineState.toSetup]
    storeB := by
      rw [storeAt_replaceMachine hs1 w hm hmk]
      simp [hne.1.symm, hbuf, MachineState.toSetup]
    storeO := by
      intro i hia hib
      rw [storeAt_replaceMachine hs1 w hm hmk]
      simp only [hia, hib, if_false]
      split
      · rename_i h3; rw [h3]; exact hpost.symm
      · rfl
    locs := by simp [locs_replaceJob] }
  have hids := hs.machine_cfg_ids w hm hmc hmcid
  exact ⟨hs2, hmv.conserved (hs.jobsNodup w) hI.cons,
    hmv.cap (by
      intro c hc hcid
      rw [hbuf]
      exact room_of_cfg w (mem_allBufCfgs_of_machine hmc).2.1 hcap c hc (by rw [hcid, hids.2.1])) hI.cap⟩

theorem setupToWorking_struct (w : WF inst) {s s' : State} {r r' : Rng} {tr : Transition} {m : MachineState}
    (hI : StructInv inst s) (hm : m ∈ s.machines)
    (hvalid : ∀ j ∈ s.jobs, tr.job = some j.id → ∀ op, j.nextNotDone? = some op → op.machine = m.id)
    (h : handleMachineSetupToWorking orc inst s r tr m = .ok (s', r')) : StructInv inst s' := by
  obtain ⟨j, op, oc, d, hj, htj, hjin, hop, hoc, hocj, hoci, _, rfl⟩ := setupToWorking_spec h
  have hs := hI.shape
  have hopm := find?_mem_ops hop
  have hmach := hvalid j hj htj op hop
  have hk1 := replaceOp_jKey' hs w hj hopm.1 (op' := opRec oc s.time (s.time + d) m.id)
    (by simp [opKey, opRec, hocj, hoci, hmach])
  have hs1 := hs.replaceJob w hj hk1
  have hmk : mKey (m.toWorking (s.time + d)) = mKey m := by simp [mKey, MachineState.toWorking]
  have hs2 := hs1.replaceMachine w hm hmk
  have hb := mem_allBufs_of_machine hm
  have hsame : Same s ((s.replaceJob (j.replaceOp (opRec oc s.time (s.time + d) m.id))).replaceMachine
      (m.toWorking (s.time + d))) := {
    store := by
      intro i
      rw [storeAt_replaceMachine hs1 w hm hmk]
      simp only [MachineState.toWorking, storeAt_replaceJob]
      split
      · rename_i h1; rw [h1]; exact (storeAt_of_mem (hs.bufNodup w) hb.1).symm
      · split
        · rename_i h1; rw [h1]; exact (storeAt_of_mem (hs.bufNodup w) hb.2.1).symm
        · split
          · rename_i h1; rw [h1]; exact (storeAt_of_mem (hs.bufNodup w) hb.2.2).symm
          · rfl
    locs := by
      rw [locs_replaceMachine]
      exact locs_replaceJob_same (hs.jobsNodup w) hj rfl rfl }
  exact ⟨hs2, hsame.conserved hI.cons, hsame.cap hI.cap⟩

theorem workingToOutage_struct (w : WF inst) {s s' : State} {r r' : Rng} {tr : Transition} {m : MachineState}
    (hI : StructInv inst s) (hm : m ∈ s.machines)
    (h : handleMachineWorkingToOutage orc inst s r tr m = .ok (s', r')) : StructInv inst s' := by
  obtain ⟨mc, outs, j, op, hmc, hmcid, _, hj, htj, hop, rfl⟩ := workingToOutage_spec h
  have hs := hI.shape
  have hopm := find?_mem_ops hop
  have hmk : mKey (m.toOutage outs (s.time + occupiedFor outs)) = mKey m := by simp [mKey, MachineState.toOutage]
  have hs1 := hs.replaceMachine w hm hmk
  have hk1 := replaceOp_jKey' hs1 w (s := s.replaceMachine _) hj hopm.1
    (op' := { op with stop := some (s.time + occupiedFor outs) }) (by simp [opKey])
  have hs2 := hs1.replaceJob w (s := s.replaceMachine _) hj hk1
  have hsame : Same s ((s.replaceMachine (m.toOutage outs (s.time + occupiedFor outs))).replaceJob
      (j.replaceOp { op with stop := some (s.time + occupiedFor outs) })) := {
    store := by
      intro i
      rw [storeAt_replaceJob]
      exact storeAt_replaceMachine_same hs w hm hmk rfl rfl rfl i
    locs := locs_replaceJob_same (s := s.replaceMachine _) (hs.jobsNodup w) hj rfl rfl }
  exact ⟨hs2, hsame.conserved hI.cons, hsame.cap hI.cap⟩

theorem outageToIdle_struct (w : WF inst) {s s' : State} {r r' : Rng} {m : MachineState}
    (hI : StructInv inst s) (hm : m ∈ s.machines)
    (h : handleMachineOutageToIdle inst s r m = .ok (s', r')) : StructInv inst s' := by
  obtain ⟨j, op, mc, rest, bss1, bss2, hst, hj, hop, hmc, hmcid, hcap, _, rfl⟩ := outageToIdle_spec h
  have hs := hI.shape
  have hopm := find?_mem_ops hop
  have hne := machine_buf_ids_ne hs w hm
  have hk1 := replaceOp_at_jKey hs w hj hopm.1 (op' := { op with stop := some s.time, st := .done })
    (by simp [opKey]) m.post.id
  have hs1 := hs.replaceJob w hj hk1
  have hmk : mKey (m.toIdle j.id bss1 bss2) = mKey m := by simp [mKey, MachineState.toIdle]
  have hs2 := hs1.replaceMachine w hm hmk
  have hpre : storeAt s m.pre.id = m.pre.store := storeAt_of_mem (hs.bufNodup w) (mem_allBufs_of_machine hm).1
  have hbuf : storeAt s m.buffer.id = m.buffer.store := storeAt_of_mem (hs.bufNodup w) (mem_allBufs_of_machine hm).2.1
  have hpost : storeAt s m.post.id = m.post.store := storeAt_of_mem (hs.bufNodup w) (mem_allBufs_of_machine hm).2.2
  have hmv : Moved s _ j.id m.buffer.id m.post.id := {
    ne := hne.2.2
    was := hI.cons.stored _ _ (by rw [hbuf, hst]; simp)
    storeA := by
      rw [storeAt_replaceMachine hs1 w hm hmk]
      simp [hbuf, MachineState.toIdle, hne.1.symm]
    storeB := by
      rw [storeAt_replaceMachine hs1 w hm hmk]
      simp [hne.2.1.symm, hne.2.2.symm, hpost, MachineState.toIdle]
    storeO := by
      intro i hia hib
      rw [storeAt_replaceMachine hs1 w hm hmk]
      simp only [hia, hib, if_false]
      split
      · rename_i h3; rw [h3]; simp [MachineState.toIdle, hpre]
      · rfl
    locs := by simp [locs_replaceJob] }
  have hids := hs.machine_cfg_ids w hm hmc hmcid
  exact ⟨hs2, hmv.conserved (hs.jobsNodup w) hI.cons,
    hmv.cap (by
      intro c hc hcid
      rw [hpost]
      exact room_of_cfg w (mem_allBufCfgs_of_machine hmc).2.2 hcap c hc (by rw [hcid, hids.2.2])) hI.cap⟩

end JSL
