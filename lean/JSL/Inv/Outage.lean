import JSL.Inv.SchedDefs

/-! Facts about outage sampling: durations are non-negative, the blocking time is the longest
active one, release remembers the end. -/

namespace JSL

variable {orc : Oracle}

theorem foldl_max_ge (ds : List Int) : ∀ (d : Int), d ≤ ds.foldl max d := by
  induction ds with
  | nil => intro d; exact Int.le_refl d
  | cons x xs ih => intro d; simp only [List.foldl_cons]; exact Int.le_trans (Int.le_max_left d x) (ih _)

theorem foldl_max_ge_mem (ds : List Int) : ∀ (d : Int) (x : Int), x ∈ ds → x ≤ ds.foldl max d := by
  induction ds with
  | nil => intro d x hx; cases hx
  | cons y ys ih =>
    intro d x hx
    simp only [List.foldl_cons]
    rcases List.mem_cons.mp hx with rfl | hx
    · exact Int.le_trans (Int.le_max_right d x) (foldl_max_ge ys _)
    · exact ih _ x hx

theorem foldl_max_mem (ds : List Int) : ∀ (d : Int), ds.foldl max d = d ∨ ds.foldl max d ∈ ds := by
  induction ds with
  | nil => intro d; left; rfl
  | cons y ys ih =>
    intro d
    simp only [List.foldl_cons]
    rcases ih (max d y) with h | h
    · rw [h]
      rcases Int.le_total d y with hle | hle
      · right; rw [Int.max_eq_right hle]; simp
      · left; rw [Int.max_eq_left hle]
    · right; exact List.mem_cons_of_mem _ h

/-- `occupiedFor` is the maximum of the active durations (0 if none): an upper bound ... -/
theorem occupiedFor_ge (l : List OutageState) : ∀ d ∈ activeDurations l, d ≤ occupiedFor l := by
  intro d hd
  unfold occupiedFor
  cases h : activeDurations l with
  | nil => rw [h] at hd; cases hd
  | cons x xs =>
    rw [h] at hd
    rcases List.mem_cons.mp hd with rfl | hd
    · exact foldl_max_ge xs _
    · exact foldl_max_ge_mem xs _ _ hd

/-- ... that is attained -/
theorem occupiedFor_attained (l : List OutageState) :
    (activeDurations l = [] ∧ occupiedFor l = 0) ∨ occupiedFor l ∈ activeDurations l := by
  unfold occupiedFor
  cases h : activeDurations l with
  | nil => left; exact ⟨rfl, rfl⟩
  | cons x xs =>
    right
    rcases foldl_max_mem xs x with h' | h'
    · simp [h']
    · simp [h']

theorem occupiedFor_nonneg (l : List OutageState) (h : ∀ d ∈ activeDurations l, 0 ≤ d) : 0 ≤ occupiedFor l := by
  rcases occupiedFor_attained l with ⟨_, h0⟩ | hm
  · rw [h0]; exact Int.le_refl 0
  · exact h _ hm

theorem mem_activeDurations {l : List OutageState} {d : Int} :
    d ∈ activeDurations l ↔ ∃ o ∈ l, ∃ a b, o.st = .active a b ∧ d = b - a := by
  unfold activeDurations
  simp only [List.mem_filterMap]
  constructor
  · rintro ⟨o, ho, h⟩
    cases hst : o.st with
    | active a b => simp [hst] at h; exact ⟨o, ho, a, b, hst, h.symm⟩
    | inactive x => simp [hst] at h
  · rintro ⟨o, ho, a, b, hst, rfl⟩
    exact ⟨o, ho, by simp [hst]⟩

/-- a freshly sampled outage record starts now and has a non-negative duration; records that do
not strike are kept as they are -/
theorem sampleOutage_spec {now : Int} {comp : List OutageState} {r r' : Rng} {o : OutageCfg} {x : OutageState}
    (hn : ∀ sid k, 0 ≤ orc sid k) (hd : ∀ t, o.dur = .det t → 0 ≤ t)
    (h : sampleOutage orc now comp r o = .ok (x, r')) :
    x.id = o.id ∧ ((∃ l, x.st = .inactive l ∧ x ∈ comp) ∨ (∃ d, 0 ≤ d ∧ x.st = .active now (now + d))) := by
  unfold sampleOutage at h
  obtain ⟨st, hst, h⟩ := except_bind_eq_ok h
  have hst' := findE_ok hst
  simp at hst'
  obtain ⟨since, hsince, h⟩ := except_bind_eq_ok h
  simp only at h
  split at h
  · simp at h; obtain ⟨rfl, _⟩ := h
    cases hs : st.st with
    | active a b => simp [hs, outageSince] at hsince
    | inactive l => exact ⟨hst'.2, Or.inl ⟨l, rfl, hst'.1⟩⟩
  · simp at h; obtain ⟨rfl, _⟩ := h
    exact ⟨rfl, Or.inr ⟨_, TimeCfg.updRead_nonneg hn _ o.dur hd, rfl⟩⟩

theorem newOutageStates_spec {now : Int} {comp : List OutageState} (hn : ∀ sid k, 0 ≤ orc sid k) :
    ∀ (cfgs : List OutageCfg) (r r' : Rng) (outs : List OutageState),
      (∀ o ∈ cfgs, ∀ t, o.dur = .det t → 0 ≤ t) →
      newOutageStates orc now comp cfgs r = .ok (outs, r') →
      outs.map (·.id) = cfgs.map (·.id) ∧
      ∀ x ∈ outs, (∃ l, x.st = .inactive l ∧ x ∈ comp) ∨ (∃ d, 0 ≤ d ∧ x.st = .active now (now + d)) := by
  intro cfgs
  induction cfgs with
  | nil =>
    intro r r' outs _ h
    simp [newOutageStates] at h
    obtain ⟨rfl, _⟩ := h
    simp
  | cons c cs ih =>
    intro r r' outs hd h
    simp only [newOutageStates] at h
    obtain ⟨⟨x, r1⟩, hx, h⟩ := except_bind_eq_ok h
    obtain ⟨⟨xs, r2⟩, hxs, h⟩ := except_bind_eq_ok h
    simp at h
    obtain ⟨rfl, _⟩ := h
    have h1 := sampleOutage_spec hn (hd c (by simp)) hx
    have h2 := ih r1 r2 xs (fun o ho => hd o (by simp [ho])) hxs
    refine ⟨by simp [h1.1, h2.1], ?_⟩
    intro y hy
    rcases List.mem_cons.mp hy with rfl | hy
    · exact h1.2
    · exact h2.2 y hy

/-- the blocking time computed from freshly sampled records is non-negative -/
theorem occupiedFor_new_nonneg {now : Int} {comp : List OutageState} (hn : ∀ sid k, 0 ≤ orc sid k)
    {cfgs : List OutageCfg} {r r' : Rng} {outs : List OutageState}
    (hd : ∀ o ∈ cfgs, ∀ t, o.dur = .det t → 0 ≤ t)
    (h : newOutageStates orc now comp cfgs r = .ok (outs, r')) : 0 ≤ occupiedFor outs := by
  apply occupiedFor_nonneg
  intro d hdm
  obtain ⟨o, ho, a, b, hst, rfl⟩ := mem_activeDurations.mp hdm
  rcases (newOutageStates_spec hn cfgs r r' outs hd h).2 o ho with ⟨l, hl, _⟩ | ⟨d, hd0, hact⟩
  · rw [hl] at hst; cases hst
  · rw [hact] at hst
    simp at hst
    obtain ⟨rfl, rfl⟩ := hst
    omega

end JSL
