import JSL.Inv.SetupStep

/-!
# Setup separation along every execution
-/

namespace JSL

variable {orc : Oracle} {inst : Instance}

/-! ## AGV transitions touch neither records nor the phase / tool of a machine -/

theorem agv_tool (w : WF inst) {s s' : State} {r r' : Rng} {tr : Transition} {tid : Nat} (hI : StructInv inst s)
    (hc : tr.comp = .t tid) (h : applyTransition orc inst s r tr = .ok (s', r')) :
    ∀ m' ∈ s'.machines, ∃ m ∈ s.machines, m'.id = m.id ∧ m'.st = m.st ∧ m'.tool = m.tool := by
  have hs := hI.shape
  have same : (∀ m' ∈ s.machines, ∃ m ∈ s.machines, m'.id = m.id ∧ m'.st = m.st ∧ m'.tool = m.tool) :=
    fun m' hm' => ⟨m', hm', rfl, rfl, rfl⟩
  unfold applyTransition at h
  simp only [hc] at h
  obtain ⟨t0, ht0, h⟩ := except_bind_eq_ok h
  unfold handleTransportTransition at h
  obtain ⟨t, ht, h⟩ := except_bind_eq_ok h
  obtain ⟨tc, _, h⟩ := except_bind_eq_ok h
  split at h
  · simp at h
  · obtain ⟨hd, hh, h⟩ := except_bind_eq_ok h
    cases hd with
    | idleToWorking => obtain ⟨_, _, _, _, _, _, _, _, _, _, _, _, _, _, _, rfl⟩ := idleToWorking_spec h; exact same
    | pickupToWaitingpickup => obtain ⟨_, _, _, _, rfl⟩ := pickupToWaiting_spec h; exact same
    | waitingPickupToWaitingPickup => obtain ⟨_, _, _, rfl⟩ := waitingToWaiting_spec h; exact same
    | outageToIdle => obtain ⟨_, rfl⟩ := agvOutageToIdle_spec h; exact same
    | pickupToTransit =>
      obtain ⟨j, src, dst, tt, bss1, bss2, hj, _, _, _, _, hcase⟩ := pickupToTransit_spec h
      rcases hcase with ⟨fb, _, _, _, _, _, rfl⟩ | ⟨mid, ms, bs, ms', _, _, hms, _, _, _, hms', rfl⟩
      · exact same
      · have hms'eq : ms'.id = ms.id ∧ ms'.st = ms.st ∧ ms'.tool = ms.tool := by
          unfold replaceBufInMachine at hms'
          split at hms'
          · simp at hms'; subst hms'; simp
          · split at hms'
            · simp at hms'; subst hms'; simp
            · split at hms'
              · simp at hms'; subst hms'; simp
              · simp at hms'
        intro m1 hm1
        have hm1' : m1 ∈ (s.replaceMachine ms').machines := hm1
        rcases (mem_replaceMachine (hs.machNodup w) hms hms'eq.1 m1).mp hm1' with rfl | ⟨hy0, _⟩
        · exact ⟨ms, hms, hms'eq⟩
        · exact ⟨m1, hy0, rfl, rfl, rfl⟩
    | transitToOutage =>
      obtain ⟨j, cur, pick, drop, tc, outs, bss1, bss2, hj, _, _, _, _, _, _, hcase⟩ := transitToOutage_spec h
      rcases hcase with ⟨mid, ms, _, hms, _, _, rfl⟩ | ⟨bid, b, _, hb, _, _, rfl⟩
      · intro m1 hm1
        have hm1' : m1 ∈ (s.replaceMachine (ms.withPre j.id bss2)).machines := hm1
        rcases (mem_replaceMachine (hs.machNodup w) hms (by simp [MachineState.withPre]) m1).mp hm1' with rfl | ⟨hy0, _⟩
        · exact ⟨ms, hms, rfl, rfl, rfl⟩
        · exact ⟨m1, hy0, rfl, rfl, rfl⟩
      · exact same

theorem agv_recs (w : WF inst) {s s' : State} {r r' : Rng} {tr : Transition} {tid : Nat} (hI : StructInv inst s)
    (hI' : StructInv inst s') (hc : tr.comp = .t tid) (h : applyTransition orc inst s r tr = .ok (s', r')) :
    ∀ x, x ∈ recs s' ↔ x ∈ recs s := by
  have hj := (agv_effect w hI hc h).2
  intro x
  constructor
  · intro hx
    obtain ⟨j', hj', hx'⟩ := mem_recs.mp hx
    obtain ⟨j, hj0, _, e⟩ := hj j' hj'
    exact mem_recs.mpr ⟨j, hj0, by rw [e]; exact hx'⟩
  · intro hx
    obtain ⟨j, hj0, hx'⟩ := mem_recs.mp hx
    have e : s.jobs.map (·.id) = s'.jobs.map (·.id) := by rw [hI.shape.jobIds, hI'.shape.jobIds]
    obtain ⟨j', hj', eid⟩ := mem_of_map_eq e hj0
    obtain ⟨j1, hj1, e1, e2⟩ := hj j' hj'
    have : j1 = j := eq_of_mem_of_key_eq (key := fun (y : JobState) => y.id) (hI.shape.jobsNodup w) hj1 hj0
      (by rw [e1]; exact eid.symm)
    subst this
    exact mem_recs.mpr ⟨j', hj', by rw [← e2]; exact hx'⟩

/-! ## the batch guard -/

/-- what the remaining transitions of a batch may assume: a machine transition into WORKING is due,
and no earlier transition of the batch belongs to the same machine -/
structure DueW (s : State) (L : List Transition) : Prop where
  due : ∀ tr ∈ L, ∀ mid, tr.comp = .m mid → tr.new = .m .working →
    ∀ m ∈ s.machines, m.id = mid → dueAt m.occ s.time = true
  once : L.Pairwise (fun a b => ∀ mid, b.comp = .m mid → b.new = .m .working → a.comp ≠ .m mid)

theorem DueW.tail {s : State} {tr : Transition} {R : List Transition} (h : DueW s (tr :: R)) : DueW s R :=
  ⟨fun t ht => h.due t (by simp [ht]), (List.pairwise_cons.mp h.once).2⟩

/-- **one transition keeps the setup invariant** and the due-guard of the rest of the batch -/
theorem applyTransition_setup (w : WF inst) {s s' : State} {r r' : Rng} {tr : Transition}
    {R : List Transition} (hI : StructInv inst s) (hS : SchedInv s) (hP : SetupInv inst s)
    (hv : transitionValid s tr = .ok true) (hsafe : Safe s (tr :: R)) (hgs : DueW s (tr :: R))
    (h : applyTransition orc inst s r tr = .ok (s', r')) : SetupInv inst s' ∧ DueW s' R := by
  have hs := hI.shape
  have hjn := hs.jobsNodup w
  have htime := applyTransition_time h
  have hI' := applyTransition_struct w hI hv h
  have hg := hsafe.guard
  have h0 := h
  -- the guard of the rest
  have hrest : DueW s' R := by
    refine ⟨?_, (List.pairwise_cons.mp hgs.once).2⟩
    intro t ht mid hc hn m' hm' hid
    have hne : tr.comp ≠ .m mid := (List.pairwise_cons.mp hgs.once).1 t ht mid hc hn
    rw [htime]
    cases hc0 : tr.comp with
    | m mid0 =>
      have := (machine_effect w hI hc0 h0).1 m' hm' (by intro e; apply hne; rw [hc0, ← e, hid])
      exact hgs.due t (by simp [ht]) mid hc hn m' this hid
    | t tid =>
      obtain ⟨m, hm, e1, _, e3⟩ := (agv_effect w hI hc0 h0).1 m' hm'
      rw [← e3]
      exact hgs.due t (by simp [ht]) mid hc hn m hm (by rw [e1, hid])
    | b bid =>
      unfold applyTransition at h0
      simp only [hc0] at h0
      obtain ⟨_, _, h0⟩ := except_bind_eq_ok h0
      simp at h0
  refine ⟨?_, hrest⟩
  unfold applyTransition at h
  unfold transitionValid at hv
  cases hc : tr.comp with
  | t tid => exact hP.transfer (agv_recs w hI hI' hc h0) (agv_tool w hI hc h0)
  | b bid =>
    simp only [hc] at h
    obtain ⟨_, _, h⟩ := except_bind_eq_ok h
    simp at h
  | m mid =>
    simp only [hc] at h hv
    obtain ⟨m0, hm0, h⟩ := except_bind_eq_ok h
    obtain ⟨mv, hmv, hv⟩ := except_bind_eq_ok hv
    rw [hm0] at hmv; simp at hmv; subst hmv
    unfold handleMachineTransition at h
    obtain ⟨m, hm, h⟩ := except_bind_eq_ok h
    rw [hm0] at hm; simp at hm; subst hm
    have hmem := getMachine_ok hm0
    obtain ⟨hd, hh, h⟩ := except_bind_eq_ok h
    unfold machineHandlerOf at hh
    cases hn : tr.new with
    | t ns => simp [hn] at hh
    | m ns =>
      simp only [hn] at hh
      cases hmh : machineHandler m0.st ns with
      | none => simp [hmh] at hh
      | some hd' =>
        simp [hmh] at hh; subst hh
        cases hd' with
        | idleToSetup =>
          have hst := machineHandler_idleToSetup hmh
          obtain ⟨j, op, oc, mc, sd, b1, b2, hj, htj, _, hnn, hoc, hocj, hoci, hmc, hmcid, _, ⟨c, hcl, hsd⟩, rfl⟩ :=
            idleToSetup_spec h
          have hmach := valid_machine_job hjn hv (by simp [hst.1]) (by simp [hst.1]) j hj htj op hnn
          have hopm := find?_mem_ops hnn
          have hstep : RecStep s _ m0 (m0.toSetup j.id b1 b2 (s.time + sd) oc.tool) op (opRec oc s.time (s.time + sd) m0.id) :=
            RecStep.mk_of w hI (J' := (j.replaceOp (opRec oc s.time (s.time + sd) m0.id)).at m0.buffer.id)
              (s' := (s.replaceJob ((j.replaceOp (opRec oc s.time (s.time + sd) m0.id)).at m0.buffer.id)).replaceMachine
                (m0.toSetup j.id b1 b2 (s.time + sd) oc.tool)) hj hmem.1 hopm.1
              ⟨by simp [opRec, hocj], by simp [opRec, hoci]⟩ rfl rfl (by simp [MachineState.toSetup]) rfl rfl
              (by simp [opRec]) hmach
          exact setup_step_accept w hI hS hP hstep hst.1 (by simp [MachineState.toSetup]) (by simpa using hopm.2)
            (by simp [opRec]) (by simp [tS, opRec]) (tl := oc.tool) (by simp [MachineState.toSetup])
            (toolOf_of_cfg w hoc (by simp [opRec]) (by simp [opRec])) hmc hmcid hcl hsd (by simp [tE, opRec])
        | setupToWorking =>
          have hst := machineHandler_setupToWorking hmh
          obtain ⟨j, op, oc, d, hj, _, hjin, hnn, _, hocj, hoci, _, rfl⟩ := setupToWorking_spec h
          have hbusy : m0.st ≠ .idle := by rw [hst.1]; simp
          obtain ⟨_, op0, hp0, hmach0, hstop0, _⟩ := busy_job hI hS w hmem.1 hbusy hj hjin
          have hop0 : op0 = op := by
            have := nextNotDone_of_processing (hS.ops j hj) hp0
            rw [hnn] at this; simpa using this.symm
          subst hop0
          obtain ⟨_, _, hl, _, hpst⟩ := processing?_split' hp0
          have hopm : op0 ∈ j.ops := by rw [hl]; simp
          have hdue := hgs.due tr (by simp) mid hc (by rw [hn, hst.2]) m0 hmem.1 hmem.2
          have hdue' : tE op0 ≤ s.time := by
            unfold tE; rw [hstop0]
            cases hocc : m0.occ with
            | none => rw [hocc] at hdue; simp [dueAt] at hdue
            | some o => rw [hocc] at hdue; simpa [dueAt] using hdue
          have hstep : RecStep s _ m0 (m0.toWorking (s.time + d)) op0 (opRec oc s.time (s.time + d) m0.id) :=
            RecStep.mk_of w hI (J' := j.replaceOp (opRec oc s.time (s.time + d) m0.id))
              (s' := (s.replaceJob (j.replaceOp (opRec oc s.time (s.time + d) m0.id))).replaceMachine
                (m0.toWorking (s.time + d))) hj hmem.1 hopm
              ⟨by simp [opRec, hocj], by simp [opRec, hoci]⟩ rfl rfl (by simp [MachineState.toWorking]) rfl rfl
              (by simp [opRec]) hmach0
          exact setup_step_begin w hI hS hP hstep hst.1 (by simp [MachineState.toWorking]) (by simp [MachineState.toWorking])
            hpst (by simp [opRec]) (by simp [tS, opRec]) hdue'
        | workingToOutage =>
          have hst := machineHandler_workingToOutage hmh
          obtain ⟨mc, outs, j, op, _, _, _, hj, htj, hp, rfl⟩ := workingToOutage_spec h
          have hbusy : m0.st ≠ .idle := by rw [hst.1]; simp
          have hjin : j.id ∈ m0.buffer.store := hg.ownJob mid hc (by rw [hn, hst.2]) m0 hmem.1 hmem.2 j.id htj
          obtain ⟨_, op0, hp0, hmach0, _, _⟩ := busy_job hI hS w hmem.1 hbusy hj hjin
          have : op0 = op := by rw [hp] at hp0; simpa using hp0.symm
          subst this
          obtain ⟨_, _, hl, _, hpst⟩ := processing?_split' hp
          have hopm : op0 ∈ j.ops := by rw [hl]; simp
          have hstep : RecStep s _ m0 (m0.toOutage outs (s.time + occupiedFor outs)) op0
              { op0 with stop := some (s.time + occupiedFor outs) } :=
            RecStep.mk_of w hI (J' := j.replaceOp { op0 with stop := some (s.time + occupiedFor outs) })
              (s' := (s.replaceMachine (m0.toOutage outs (s.time + occupiedFor outs))).replaceJob
                (j.replaceOp { op0 with stop := some (s.time + occupiedFor outs) })) hj hmem.1 hopm
              ⟨rfl, rfl⟩ rfl rfl (by simp [MachineState.toOutage]) rfl rfl hmach0 hmach0
          exact setup_step_extend w hI hS hP hstep hst.1 (by simp [MachineState.toOutage]) (by simp [MachineState.toOutage])
            hpst (by simp [hpst]) (by simp [tS])
        | outageToIdle =>
          have hst := machineHandler_outageToIdle hmh
          obtain ⟨j, op, mc, rest, b1, b2, hstore, hj, hp, _, _, _, _, rfl⟩ := outageToIdle_spec h
          have hbusy : m0.st ≠ .idle := by rw [hst.1]; simp
          have hjin : j.id ∈ m0.buffer.store := by rw [hstore]; simp
          obtain ⟨_, op0, hp0, hmach0, _, _⟩ := busy_job hI hS w hmem.1 hbusy hj hjin
          have : op0 = op := by rw [hp] at hp0; simpa using hp0.symm
          subst this
          obtain ⟨_, _, hl, _, hpst⟩ := processing?_split' hp
          have hopm : op0 ∈ j.ops := by rw [hl]; simp
          have hstep : RecStep s _ m0 (m0.toIdle j.id b1 b2) op0 { op0 with stop := some s.time, st := .done } :=
            RecStep.mk_of w hI (J' := (j.replaceOp { op0 with stop := some s.time, st := .done }).at m0.post.id)
              (s' := (s.replaceJob ((j.replaceOp { op0 with stop := some s.time, st := .done }).at m0.post.id)).replaceMachine
                (m0.toIdle j.id b1 b2)) hj hmem.1 hopm
              ⟨rfl, rfl⟩ rfl rfl (by simp [MachineState.toIdle]) rfl rfl hmach0 hmach0
          exact setup_step_finish w hI hS hP hstep hst.1 (by simp [MachineState.toIdle]) (by simp [MachineState.toIdle])
            hpst rfl (by simp [tS])

/-! ## the timed batch meets the guard -/

theorem timed_dueW (w : WF inst) {s : State} (hI : StructInv inst s) (hS : SchedInv s) {tt tele : List Transition}
    (htt : timedTransitions inst s = .ok tt) (htele : ∀ tr ∈ tele, tr.new = .t .working) : DueW s (tt ++ tele) := by
  have hs := hI.shape
  unfold timedTransitions at htt
  obtain ⟨a, ha, htt⟩ := except_bind_eq_ok htt
  obtain ⟨b, hb, htt⟩ := except_bind_eq_ok htt
  simp at htt; subst htt
  unfold timedMachineTransitions at ha
  unfold timedTransportTransitions at hb
  cases hra : s.machines.mapM (timedMachine inst s.time) with
  | error e => simp [hra] at ha
  | ok ra =>
    simp [hra] at ha; subst ha
    cases hrb : s.transports.mapM (timedTransport inst s) with
    | error e => simp [hrb] at hb
    | ok rb =>
      simp [hrb] at hb; subst hb
      have hA := timedMachines_spec (inst := inst) s.machines (fun m hm => hm) (hs.machNodup w) ra hra
      have hmem := mapM_ok_mem hra
      have hB := timedTransports_spec (inst := inst) hS s.transports (fun t ht => ht) rb hrb
      have hT : ∀ tr ∈ rb.filterMap id ++ tele, ¬ (tr.new = .m .working) := by
        intro tr htr hn
        have : IsT tr := by
          rcases List.mem_append.mp htr with h | h
          · exact (hB tr h).1
          · exact ⟨_, htele tr h⟩
        obtain ⟨ns, e⟩ := this
        rw [e] at hn; simp at hn
      rw [List.append_assoc]
      constructor
      · intro tr htr mid hc hn m1 hm1 hid
        rcases List.mem_append.mp htr with h | h
        · obtain ⟨x, hx, e⟩ := List.mem_filterMap.mp h
          simp at e; subst e
          obtain ⟨m, hm, e⟩ := hmem.2 _ hx
          have hd := timedMachine_due e
          have : m = m1 := by
            apply eq_of_mem_of_key_eq (key := fun (y : MachineState) => y.id) (hs.machNodup w) hm hm1
            rw [hc] at hd; simp at hd; rw [hid]; exact hd.1.symm
          subst this
          apply hd.2
          rw [hn]; simp
        · exact absurd hn (hT tr h)
      · apply List.pairwise_append.mpr
        refine ⟨?_, ?_, ?_⟩
        · exact hA.2.imp (fun {a b} hab mid hc _ => by rw [← hc]; exact hab)
        · apply List.pairwise_of_forall_mem_list
          intro a _ b hb mid _ hn
          exact absurd hn (hT b hb)
        · intro a _ b hb mid _ hn
          exact absurd hn (hT b hb)

/-- **The setup pass.** -/
def SetupPass (orc : Oracle) (inst : Instance) (cfg : SMConfig) (w : WF inst) : Pass orc inst cfg where
  P := SetupInv inst
  GS := DueW
  Adm := fun _ a => ∀ tr ∈ a.transitions, OfferShaped tr
  tail := fun h => h.tail
  step := fun hI hS hP hv hsafe _ hgs ha => applyTransition_setup w hI hS hP hv hsafe hgs ha
  advance := fun _ _ hP _ _ => hP.advance _
  timed := fun hI hS _ htt hposs htele => timed_dueW w hI hS htt (filterTeleport_shape hposs htele)
  timedOnly := fun hI hS _ htt => by simpa using timed_dueW w hI hS (tele := []) htt (by simp)
  action := fun {s a} _ _ _ hadm => by
    have hsh : ∀ tr ∈ sortedByTransport a.transitions, ¬ (tr.new = .m .working) := by
      intro tr htr hn
      rcases hadm tr (mem_sortedByTransport htr) with e | e <;> rw [e] at hn <;> simp at hn
    refine ⟨fun tr htr mid _ hn => absurd hn (hsh tr htr), ?_⟩
    apply List.pairwise_of_forall_mem_list
    intro a _ b hb mid _ hn
    exact absurd hn (hsh b hb)

/-- the setup invariant along every admissible execution -/
theorem occursA_setup {cfg : SMConfig} {s0 σ : State} (hst : Start orc inst s0) (h : OccursA orc inst cfg s0 σ) :
    SetupInv inst σ := by
  obtain ⟨w, _⟩ := initOKB_sound hst.init
  exact occursA_pass (SetupPass orc inst cfg w) hst (SetupInv.of_rest hst.rest) (fun _ _ ha => ha.shaped) h

/-- the state a step returns (its clock possibly stamped with the makespan) -/
theorem final_setup {cfg : SMConfig} {s0 s : State} (hst : Start orc inst s0) (h : OccursA orc inst cfg s0 s)
    {a : Action} (ha : Admissible a) {fuel : Nat} {r r' : Rng} {res : SMResult} {mic : List State}
    (hstep : smStep orc inst cfg fuel s r a = .ok (res, r', mic)) : SetupInv inst res.state := by
  obtain ⟨w, hI, hS⟩ := occursA_inv hst h
  have nn := nonnegB_sound hst.samples hst.nonneg
  obtain ⟨t, ht⟩ := ((SetupPass orc inst cfg w).smStep w nn hI hS (occursA_setup hst h) ha ha.shaped hstep).2.2.1
  exact SetupInv.of_time ht

end JSL
