import JSL.Inv.EnvReach
import JSL.Model.Guards
import JSL.Inv.Outage

/-!
# Outage records: an invariant of every state (C10)

`Outage.lean` and `Props/C10.lean` describe what the two striking transitions (WORKING → OUTAGE,
TRANSIT → OUTAGE) and the two releasing ones (OUTAGE → IDLE) do to the outage records of a
component.  Here the same facts are carried as an invariant through every handler, the batches, the
timed loop and `state.step`, and then along the episodes of the environment:

* a component that is not in OUTAGE has only inactive records;
* a component in OUTAGE was struck at some instant `a` that is not in the future: every active
  record starts at `a`, does not end before it starts, and the component is occupied exactly until
  `a + occupiedFor records` – the end of the longest active record, `a` itself when none is active
  (`OutageRec.machLongest`, `OutageRec.agvLongest`); that blocking time is never negative.

The initial state has to have all records inactive (`outRestB`); `Start` does not say so.
-/

namespace JSL

variable {orc : Oracle} {inst : Instance}

/-- every record is inactive -/
def AllInactive (l : List OutageState) : Prop := ∀ o ∈ l, ∃ last, o.st = .inactive last

/-- the records of a component struck at `a`: the blocking time is not negative, every active record
starts at `a`, does not end before it starts and ends within the blocking time -/
def StruckAt (l : List OutageState) (a : Int) : Prop :=
  0 ≤ occupiedFor l ∧ ∀ o ∈ l, ∀ x y, o.st = .active x y → x = a ∧ x ≤ y ∧ y ≤ a + occupiedFor l

/-- **The outage invariant.** -/
structure OutageInv (s : State) : Prop where
  /-- a machine that is not in OUTAGE has only inactive records -/
  machIdle : ∀ m ∈ s.machines, m.st ≠ .outage → AllInactive m.outages
  /-- an AGV that is not in OUTAGE has only inactive records -/
  agvIdle : ∀ t ∈ s.transports, t.st ≠ .outage → AllInactive t.outages
  /-- a machine in OUTAGE was struck at an instant `a` that is not in the future and is occupied
  until `a` + the longest active outage -/
  machOut : ∀ m ∈ s.machines, m.st = .outage →
    ∃ a, m.occ = some (a + occupiedFor m.outages) ∧ a ≤ s.time ∧ StruckAt m.outages a
  /-- the same for an AGV in OUTAGE -/
  agvOut : ∀ t ∈ s.transports, t.st = .outage →
    ∃ a, t.occ = .at (a + occupiedFor t.outages) ∧ a ≤ s.time ∧ StruckAt t.outages a

/-- the outage invariant without the comparison of the strike instant with the clock (for the
state a step returns when the shop is done: its clock is re-stamped with the makespan) -/
structure OutageRec (s : State) : Prop where
  machIdle : ∀ m ∈ s.machines, m.st ≠ .outage → AllInactive m.outages
  agvIdle : ∀ t ∈ s.transports, t.st ≠ .outage → AllInactive t.outages
  machOut : ∀ m ∈ s.machines, m.st = .outage →
    ∃ a, m.occ = some (a + occupiedFor m.outages) ∧ StruckAt m.outages a
  agvOut : ∀ t ∈ s.transports, t.st = .outage →
    ∃ a, t.occ = .at (a + occupiedFor t.outages) ∧ StruckAt t.outages a

theorem OutageInv.toRec {s : State} (h : OutageInv s) : OutageRec s where
  machIdle := h.machIdle
  agvIdle := h.agvIdle
  machOut := fun m hm hs => by obtain ⟨a, h1, _, h3⟩ := h.machOut m hm hs; exact ⟨a, h1, h3⟩
  agvOut := fun t ht hs => by obtain ⟨a, h1, _, h3⟩ := h.agvOut t ht hs; exact ⟨a, h1, h3⟩

/-- the records do not depend on the clock -/
theorem OutageRec.of_time {s : State} {t : Int} (h : OutageInv { s with time := t }) : OutageRec s where
  machIdle := h.machIdle
  agvIdle := h.agvIdle
  machOut := fun m hm hs => by obtain ⟨a, h1, _, h3⟩ := h.machOut m hm hs; exact ⟨a, h1, h3⟩
  agvOut := fun t ht hs => by obtain ⟨a, h1, _, h3⟩ := h.agvOut t ht hs; exact ⟨a, h1, h3⟩

/-! ## the records after sampling and after release -/

/-- freshly sampled records: struck now -/
theorem struckAt_new {now : Int} {comp : List OutageState} (hn : ∀ sid k, 0 ≤ orc sid k)
    {cfgs : List OutageCfg} {r r' : Rng} {outs : List OutageState}
    (hd : ∀ o ∈ cfgs, ∀ t, o.dur = .det t → 0 ≤ t)
    (h : newOutageStates orc now comp cfgs r = .ok (outs, r')) : StruckAt outs now := by
  refine ⟨occupiedFor_new_nonneg hn hd h, ?_⟩
  intro o ho x y hst
  have hge := occupiedFor_ge outs (y - x) (mem_activeDurations.mpr ⟨o, ho, x, y, hst, rfl⟩)
  rcases (newOutageStates_spec hn cfgs r r' outs hd h).2 o ho with ⟨l, hl, _⟩ | ⟨d, hd0, hact⟩
  · rw [hl] at hst; cases hst
  · rw [hact] at hst
    simp at hst
    obtain ⟨rfl, rfl⟩ := hst
    exact ⟨rfl, by omega, by omega⟩

/-- released records are all inactive -/
theorem allInactive_release (l : List OutageState) : AllInactive (l.map releaseOutage) := by
  intro o ho
  obtain ⟨o0, _, rfl⟩ := List.mem_map.mp ho
  unfold releaseOutage
  cases h : o0.st with
  | active a b => exact ⟨some b, rfl⟩
  | inactive l => exact ⟨l, by simp [h]⟩

/-- a released record remembers the end of the outage that struck -/
theorem releaseOutage_remembers {o : OutageState} {a b : Int} (h : o.st = .active a b) :
    (releaseOutage o).st = .inactive (some b) ∧ (releaseOutage o).id = o.id := by
  unfold releaseOutage; simp [h]

/-- with no active record the blocking time is 0 -/
theorem occupiedFor_allInactive {l : List OutageState} (h : AllInactive l) : occupiedFor l = 0 := by
  have : activeDurations l = [] := by
    unfold activeDurations
    apply List.filterMap_eq_nil_iff.mpr
    intro o ho
    obtain ⟨x, hx⟩ := h o ho
    simp [hx]
  unfold occupiedFor; rw [this]

/-- the blocking time of a struck component is attained: the occupation ends with the longest
active record, or at the strike instant itself when no record is active -/
theorem StruckAt.longest {l : List OutageState} {a : Int} (h : StruckAt l a) :
    (AllInactive l ∧ occupiedFor l = 0) ∨
    (∃ o ∈ l, ∃ y, o.st = .active a y ∧ a + occupiedFor l = y ∧
      ∀ o' ∈ l, ∀ x' y', o'.st = .active x' y' → x' = a ∧ y' ≤ y) := by
  rcases occupiedFor_attained l with ⟨hnil, h0⟩ | hm
  · left
    refine ⟨?_, h0⟩
    intro o ho
    cases hst : o.st with
    | inactive x => exact ⟨x, rfl⟩
    | active x y =>
      have : y - x ∈ activeDurations l := mem_activeDurations.mpr ⟨o, ho, x, y, hst, rfl⟩
      rw [hnil] at this; cases this
  · right
    obtain ⟨o, ho, x, y, hst, e⟩ := mem_activeDurations.mp hm
    obtain ⟨rfl, _, _⟩ := h.2 o ho x y hst
    refine ⟨o, ho, y, hst, by omega, ?_⟩
    intro o' ho' x' y' hst'
    obtain ⟨e1, _, e3⟩ := h.2 o' ho' x' y' hst'
    exact ⟨e1, by omega⟩

/-! ## one transition -/

/-- a transition that replaces one machine and leaves the transports and the clock alone -/
theorem outage_mach_step (w : WF inst) {s s' : State} (hI : StructInv inst s) (hP : OutageInv s)
    {m0 M' : MachineState} (hm0 : m0 ∈ s.machines) (hid : M'.id = m0.id)
    (hmach : s'.machines = (s.replaceMachine M').machines) (htr : s'.transports = s.transports)
    (htime : s'.time = s.time)
    (hidle : M'.st ≠ .outage → AllInactive M'.outages)
    (hout : M'.st = .outage → ∃ a, M'.occ = some (a + occupiedFor M'.outages) ∧ a ≤ s.time ∧ StruckAt M'.outages a) :
    OutageInv s' := by
  have hmn := hI.shape.machNodup w
  constructor
  · intro m hm hs
    rw [hmach] at hm
    rcases (mem_replaceMachine hmn hm0 hid m).mp hm with rfl | ⟨hm', _⟩
    · exact hidle hs
    · exact hP.machIdle m hm' hs
  · intro t ht hs
    rw [htr] at ht
    exact hP.agvIdle t ht hs
  · intro m hm hs
    rw [hmach] at hm
    rw [htime]
    rcases (mem_replaceMachine hmn hm0 hid m).mp hm with rfl | ⟨hm', _⟩
    · exact hout hs
    · exact hP.machOut m hm' hs
  · intro t ht hs
    rw [htr] at ht
    rw [htime]
    exact hP.agvOut t ht hs

/-- a transition that replaces one transport, keeps phase, occupation and records of every machine
and leaves the clock alone -/
theorem outage_agv_step (w : WF inst) {s s' : State} (hI : StructInv inst s) (hP : OutageInv s)
    {t0 T' : TransportState} (ht0 : t0 ∈ s.transports) (hid : T'.id = t0.id)
    (htr : s'.transports = (s.replaceTransport T').transports)
    (hmach : ∀ m' ∈ s'.machines, ∃ m ∈ s.machines, m.st = m'.st ∧ m.occ = m'.occ ∧ m.outages = m'.outages)
    (htime : s'.time = s.time)
    (hidle : T'.st ≠ .outage → AllInactive T'.outages)
    (hout : T'.st = .outage → ∃ a, T'.occ = .at (a + occupiedFor T'.outages) ∧ a ≤ s.time ∧ StruckAt T'.outages a) :
    OutageInv s' := by
  have htn := hI.shape.trNodup w
  constructor
  · intro m' hm' hs
    obtain ⟨m, hm, e1, _, e3⟩ := hmach m' hm'
    rw [← e3]
    exact hP.machIdle m hm (by rw [e1]; exact hs)
  · intro t ht hs
    rw [htr] at ht
    rcases (mem_replaceTransport htn ht0 hid t).mp ht with rfl | ⟨ht', _⟩
    · exact hidle hs
    · exact hP.agvIdle t ht' hs
  · intro m' hm' hs
    obtain ⟨m, hm, e1, e2, e3⟩ := hmach m' hm'
    rw [← e3, ← e2, htime]
    exact hP.machOut m hm (by rw [e1]; exact hs)
  · intro t ht hs
    rw [htr] at ht
    rw [htime]
    rcases (mem_replaceTransport htn ht0 hid t).mp ht with rfl | ⟨ht', _⟩
    · exact hout hs
    · exact hP.agvOut t ht' hs

theorem same_machines (s : State) :
    ∀ m' ∈ s.machines, ∃ m ∈ s.machines, m.st = m'.st ∧ m.occ = m'.occ ∧ m.outages = m'.outages :=
  fun m' hm' => ⟨m', hm', rfl, rfl, rfl⟩

/-- replacing a buffer of a machine changes neither phase, occupation nor records -/
theorem replaceBufInMachine_out {ms ms' : MachineState} {b : BufState} (h : replaceBufInMachine ms b = .ok ms') :
    ms'.id = ms.id ∧ ms'.st = ms.st ∧ ms'.occ = ms.occ ∧ ms'.outages = ms.outages := by
  unfold replaceBufInMachine at h
  split at h
  · simp at h; subst h; simp
  · split at h
    · simp at h; subst h; simp
    · split at h
      · simp at h; subst h; simp
      · simp at h

/-- a machine replaced by one with the same phase, occupation and records -/
theorem replaced_machines (w : WF inst) {s : State} (hI : StructInv inst s) {ms ms' : MachineState}
    (hms : ms ∈ s.machines) (hid : ms'.id = ms.id) (hst : ms'.st = ms.st) (hocc : ms'.occ = ms.occ)
    (hout : ms'.outages = ms.outages) :
    ∀ m' ∈ (s.replaceMachine ms').machines, ∃ m ∈ s.machines, m.st = m'.st ∧ m.occ = m'.occ ∧ m.outages = m'.outages := by
  intro m1 hm1
  rcases (mem_replaceMachine (hI.shape.machNodup w) hms hid m1).mp hm1 with rfl | ⟨hy0, _⟩
  · exact ⟨ms, hms, hst.symm, hocc.symm, hout.symm⟩
  · exact ⟨m1, hy0, rfl, rfl, rfl⟩

/-- What one transition does to the outage data of the component it addresses.  `old` / `new` are
the component's records before and after, `wasOut` / `isOut` say whether its phase was / is OUTAGE,
`isRel` / `isStr` that the transition asks for IDLE / OUTAGE, `occAt x` that the component is now occupied until `x`,
`Cfg c` that `c` are the outages configured for the component. -/
inductive OutEffect (orc : Oracle) (now : Int) (Cfg : List OutageCfg → Prop) (wasOut isOut isRel isStr : Prop)
    (occAt : Int → Prop) (old new : List OutageState) : Prop
  /-- any transition that neither leaves nor enters OUTAGE keeps the records -/
  | keep : ¬ wasOut → ¬ isOut → new = old → OutEffect orc now Cfg wasOut isOut isRel isStr occAt old new
  /-- OUTAGE → IDLE releases every record -/
  | release : wasOut → ¬ isOut → isRel → new = old.map releaseOutage →
      OutEffect orc now Cfg wasOut isOut isRel isStr occAt old new
  /-- WORKING → OUTAGE / TRANSIT → OUTAGE samples the configured outages -/
  | strike (cfgs : List OutageCfg) (r r' : Rng) : Cfg cfgs → isOut → isStr →
      newOutageStates orc now old cfgs r = .ok (new, r') → occAt (now + occupiedFor new) →
      OutEffect orc now Cfg wasOut isOut isRel isStr occAt old new

/-- the two record clauses of the invariant for the component addressed -/
theorem OutEffect.inv {now : Int} {Cfg : List OutageCfg → Prop} {wasOut isOut isRel isStr : Prop} {occAt : Int → Prop}
    {old new : List OutageState} (h : OutEffect orc now Cfg wasOut isOut isRel isStr occAt old new)
    (hn : ∀ sid k, 0 ≤ orc sid k) (hd : ∀ c, Cfg c → ∀ o ∈ c, ∀ t, o.dur = .det t → 0 ≤ t)
    (hold : ¬ wasOut → AllInactive old) :
    (¬ isOut → AllInactive new) ∧ (isOut → ∃ a, occAt (a + occupiedFor new) ∧ a ≤ now ∧ StruckAt new a) := by
  cases h with
  | keep h1 h2 e => subst e; exact ⟨fun _ => hold h1, fun h' => absurd h' h2⟩
  | release h1 h2 _ e => subst e; exact ⟨fun _ => allInactive_release old, fun h' => absurd h' h2⟩
  | strike cfgs r r' hc h1 _ hnew hocc =>
    exact ⟨fun h' => absurd h1 h', fun _ => ⟨now, hocc, Int.le_refl _, struckAt_new hn (hd cfgs hc) hnew⟩⟩

/-- the machine a transition addresses is replaced as `OutEffect` says; transports are untouched -/
theorem machine_out_effect {s s' : State} {r r' : Rng} {tr : Transition} {mid : Nat}
    (hc : tr.comp = .m mid) (h : applyTransition orc inst s r tr = .ok (s', r')) :
    ∃ m0 ∈ s.machines, ∃ M' : MachineState, m0.id = mid ∧ M'.id = m0.id ∧
      s'.machines = (s.replaceMachine M').machines ∧ s'.transports = s.transports ∧
      OutEffect orc s.time (fun c => ∃ mc ∈ inst.machines, mc.outages = c) (m0.st = .outage) (M'.st = .outage)
        (tr.new = .m .idle) (tr.new = .m .outage) (fun x => M'.occ = some x) m0.outages M'.outages := by
  unfold applyTransition at h
  simp only [hc] at h
  obtain ⟨m0, hm0, h⟩ := except_bind_eq_ok h
  unfold handleMachineTransition at h
  obtain ⟨m, hm, h⟩ := except_bind_eq_ok h
  rw [hm0] at hm; simp at hm; subst hm
  have hmem := getMachine_ok hm0
  obtain ⟨hd, hh, h⟩ := except_bind_eq_ok h
  unfold machineHandlerOf at hh
  cases hn : tr.new with
  | t ns => simp [hn] at hh
  | m ns =>
    simp only [hn] at hh
    cases hmh : machineHandler m0.st ns with
    | none => simp [hmh] at hh
    | some hd' =>
      simp [hmh] at hh; subst hh
      cases hd' with
      | idleToSetup =>
        have hst0 := (machineHandler_idleToSetup hmh).1
        obtain ⟨j, op, oc, mc, sd, b1, b2, _, _, _, _, _, _, _, _, _, _, _, rfl⟩ := idleToSetup_spec h
        exact ⟨m0, hmem.1, m0.toSetup j.id b1 b2 (s.time + sd) oc.tool, hmem.2, rfl, rfl, rfl,
          .keep (by rw [hst0]; simp) (by simp [MachineState.toSetup]) rfl⟩
      | setupToWorking =>
        have hst0 := (machineHandler_setupToWorking hmh).1
        obtain ⟨j, op, oc, d, _, _, _, _, _, _, _, _, rfl⟩ := setupToWorking_spec h
        exact ⟨m0, hmem.1, m0.toWorking (s.time + d), hmem.2, rfl, rfl, rfl,
          .keep (by rw [hst0]; simp) (by simp [MachineState.toWorking]) rfl⟩
      | workingToOutage =>
        have hst0 := machineHandler_workingToOutage hmh
        obtain ⟨mc, outs, j, op, hmc, _, hnew, _, _, _, rfl⟩ := workingToOutage_spec h
        exact ⟨m0, hmem.1, m0.toOutage outs (s.time + occupiedFor outs), hmem.2, rfl, rfl, rfl,
          .strike mc.outages r r' ⟨mc, hmc, rfl⟩ rfl (by rw [hst0.2]) hnew rfl⟩
      | outageToIdle =>
        have hst0 := machineHandler_outageToIdle hmh
        obtain ⟨j, op, mc, rest, b1, b2, _, _, _, _, _, _, _, rfl⟩ := outageToIdle_spec h
        exact ⟨m0, hmem.1, m0.toIdle j.id b1 b2, hmem.2, rfl, rfl, rfl,
          .release hst0.1 (by simp [MachineState.toIdle]) (by rw [hst0.2]) rfl⟩

/-- the AGV a transition addresses is replaced as `OutEffect` says; every machine keeps its phase,
occupation and records -/
theorem agv_out_effect (w : WF inst) {s s' : State} {r r' : Rng} {tr : Transition} {tid : Nat}
    (hI : StructInv inst s) (hc : tr.comp = .t tid) (h : applyTransition orc inst s r tr = .ok (s', r')) :
    ∃ t0 ∈ s.transports, ∃ T' : TransportState, t0.id = tid ∧ T'.id = t0.id ∧
      s'.transports = (s.replaceTransport T').transports ∧
      (∀ m' ∈ s'.machines, ∃ m ∈ s.machines, m.st = m'.st ∧ m.occ = m'.occ ∧ m.outages = m'.outages) ∧
      OutEffect orc s.time (fun c => ∃ tc ∈ inst.transports, tc.outages = c) (t0.st = .outage) (T'.st = .outage)
        (tr.new = .t .idle) (tr.new = .t .outage) (fun x => T'.occ = .at x) t0.outages T'.outages := by
  unfold applyTransition at h
  simp only [hc] at h
  obtain ⟨t0, ht0, h⟩ := except_bind_eq_ok h
  unfold handleTransportTransition at h
  obtain ⟨t, ht, h⟩ := except_bind_eq_ok h
  rw [ht0] at ht; simp at ht; subst ht
  have hmem := getTransport_ok ht0
  obtain ⟨tc0, _, h⟩ := except_bind_eq_ok h
  split at h
  · simp at h
  · obtain ⟨hd, hh, h⟩ := except_bind_eq_ok h
    unfold agvHandlerOf at hh
    cases hn : tr.new with
    | m ns => simp [hn] at hh
    | t ns =>
      simp only [hn] at hh
      cases hah : agvHandler t0.st ns with
      | none => simp [hah] at hh
      | some hd' =>
        simp [hah] at hh; subst hh
        cases hd' with
        | idleToWorking =>
          have hst0 := (agvHandler_idleToWorking hah).1
          obtain ⟨j, cur, target, src, bc, c, _, _, _, _, _, _, _, _, _, rfl⟩ := idleToWorking_spec h
          exact ⟨t0, hmem.1, t0.toPickup cur bc.id target (s.time + c.cur orc r) j.id, hmem.2, rfl, rfl,
            same_machines s, .keep (by rw [hst0]; simp) (by simp [TransportState.toPickup]) rfl⟩
        | pickupToWaitingpickup =>
          have hst0 := (agvHandler_pickupToWaiting hah).2
          obtain ⟨occ, _, _, _, rfl⟩ := pickupToWaiting_spec h
          exact ⟨t0, hmem.1, t0.toWaiting occ, hmem.2, rfl, rfl,
            same_machines s, .keep (by rw [hst0]; simp) (by simp [TransportState.toWaiting]) rfl⟩
        | waitingPickupToWaitingPickup =>
          have hst0 := (agvHandler_waitingToWaiting hah).2
          obtain ⟨occ, _, _, rfl⟩ := waitingToWaiting_spec h
          exact ⟨t0, hmem.1, t0.toWaiting occ, hmem.2, rfl, rfl,
            same_machines s, .keep (by rw [hst0]; simp) (by simp [TransportState.toWaiting]) rfl⟩
        | outageToIdle =>
          have hst0 := agvHandler_outageToIdle hah
          obtain ⟨_, rfl⟩ := agvOutageToIdle_spec h
          exact ⟨t0, hmem.1, t0.toIdle, hmem.2, rfl, rfl,
            same_machines s, .release hst0.1 (by simp [TransportState.toIdle]) (by rw [hst0.2]) rfl⟩
        | pickupToTransit =>
          have hst0 : t0.st ≠ .outage := by
            rcases (agvHandler_pickupToTransit hah).2 with e | e <;> rw [e] <;> simp
          obtain ⟨j, src, dst, tt, bss1, bss2, _, _, _, _, _, hcase⟩ := pickupToTransit_spec h
          rcases hcase with ⟨fb, _, _, _, _, _, rfl⟩ | ⟨mid, ms, bs, ms', _, _, hms, _, _, _, hms', rfl⟩
          · exact ⟨t0, hmem.1, t0.toTransit (s.time + tt) j.id bss2, hmem.2, rfl, rfl,
              same_machines s, .keep hst0 (by simp [TransportState.toTransit]) rfl⟩
          · obtain ⟨e1, e2, e3, e4⟩ := replaceBufInMachine_out hms'
            exact ⟨t0, hmem.1, t0.toTransit (s.time + tt) j.id bss2, hmem.2, rfl, rfl,
              replaced_machines w hI hms e1 e2 e3 e4, .keep hst0 (by simp [TransportState.toTransit]) rfl⟩
        | transitToOutage =>
          have hns := (agvHandler_transitToOutage hah).1
          obtain ⟨j, cur, pick, drop, tc, outs, bss1, bss2, _, _, _, _, htc, _, hnew, hcase⟩ := transitToOutage_spec h
          rcases hcase with ⟨mid, ms, _, hms, _, _, rfl⟩ | ⟨bid, b, _, _, _, _, rfl⟩
          · exact ⟨t0, hmem.1, t0.toOutage j.id bss1 outs (s.time + occupiedFor outs) drop, hmem.2, rfl, rfl,
              replaced_machines w hI hms rfl rfl rfl rfl, .strike tc.outages r r' ⟨tc, htc, rfl⟩ rfl (by rw [hns]) hnew rfl⟩
          · exact ⟨t0, hmem.1, t0.toOutage j.id bss1 outs (s.time + occupiedFor outs) drop, hmem.2, rfl, rfl,
              same_machines s, .strike tc.outages r r' ⟨tc, htc, rfl⟩ rfl (by rw [hns]) hnew rfl⟩

theorem mout_cfg (nn : NonNeg orc inst) : ∀ c, (∃ mc ∈ inst.machines, mc.outages = c) →
    ∀ o ∈ c, ∀ t, o.dur = .det t → 0 ≤ t := by
  rintro c ⟨mc, hmc, rfl⟩ o ho
  exact nn.mout mc hmc o ho

theorem tout_cfg (nn : NonNeg orc inst) : ∀ c, (∃ tc ∈ inst.transports, tc.outages = c) →
    ∀ o ∈ c, ∀ t, o.dur = .det t → 0 ≤ t := by
  rintro c ⟨tc, htc, rfl⟩ o ho
  exact nn.tout tc htc o ho

/-- **one transition keeps the outage invariant** -/
theorem applyTransition_outage (w : WF inst) (nn : NonNeg orc inst) {s s' : State} {r r' : Rng} {tr : Transition}
    (hI : StructInv inst s) (hP : OutageInv s)
    (h : applyTransition orc inst s r tr = .ok (s', r')) : OutageInv s' := by
  have htime := applyTransition_time h
  cases hc : tr.comp with
  | b bid =>
    unfold applyTransition at h
    simp only [hc] at h
    obtain ⟨_, _, h⟩ := except_bind_eq_ok h
    simp at h
  | m mid =>
    obtain ⟨m0, hm0, M', _, hid, hmach, htr, heff⟩ := machine_out_effect hc h
    have := heff.inv nn.orc (mout_cfg nn) (hP.machIdle m0 hm0)
    exact outage_mach_step w hI hP hm0 hid hmach htr htime this.1 this.2
  | t tid =>
    obtain ⟨t0, ht0, T', _, hid, htr, hmach, heff⟩ := agv_out_effect w hI hc h
    have := heff.inv nn.orc (tout_cfg nn) (hP.agvIdle t0 ht0)
    exact outage_agv_step w hI hP ht0 hid htr hmach htime this.1 this.2


/-! ## the pass -/

/-- the clock may move forward -/
theorem OutageInv.advance {s : State} {t : Int} (h : OutageInv s) (hle : s.time ≤ t) : OutageInv { s with time := t } where
  machIdle := h.machIdle
  agvIdle := h.agvIdle
  machOut := fun m hm hs => by
    obtain ⟨a, h1, h2, h3⟩ := h.machOut m hm hs
    exact ⟨a, h1, Int.le_trans h2 hle, h3⟩
  agvOut := fun t' ht hs => by
    obtain ⟨a, h1, h2, h3⟩ := h.agvOut t' ht hs
    exact ⟨a, h1, Int.le_trans h2 hle, h3⟩

/-- **The outage pass.**  No side condition on the batches is needed. -/
def OutagePass (orc : Oracle) (inst : Instance) (cfg : SMConfig) (w : WF inst) (nn : NonNeg orc inst) :
    Pass orc inst cfg where
  P := OutageInv
  GS := fun _ _ => True
  Adm := fun _ _ => True
  tail := fun _ => trivial
  step := fun hI _ hP _ _ _ _ ha => ⟨applyTransition_outage w nn hI hP ha, trivial⟩
  advance := fun _ _ hP hle _ => hP.advance hle
  timed := fun _ _ _ _ _ _ => trivial
  timedOnly := fun _ _ _ _ => trivial
  action := fun _ _ _ _ => trivial

/-! ## the initial state -/

theorem isInactive_sound {o : OutageState} (h : o.st.isInactive = true) : ∃ last, o.st = .inactive last := by
  cases hst : o.st with
  | inactive l => exact ⟨l, rfl⟩
  | active a b => rw [hst] at h; simp [OutSt.isInactive] at h

/-- at rest with inactive records the invariant holds: nothing is in OUTAGE -/
theorem OutageInv.of_rest {s : State} (hr : restB s = true) (h0 : outRestB s = true) : OutageInv s := by
  simp only [restB, Bool.and_eq_true, List.all_eq_true, beq_iff_eq] at hr
  obtain ⟨⟨hm, _⟩, ht⟩ := hr
  simp only [outRestB, Bool.and_eq_true, List.all_eq_true] at h0
  obtain ⟨h1, h2⟩ := h0
  constructor
  · intro m hm' _ o ho
    exact isInactive_sound (h1 m hm' o ho)
  · intro t ht' _ o ho
    exact isInactive_sound (h2 t ht' o ho)
  · intro m hm' hs
    rw [(hm m hm').1] at hs; cases hs
  · intro t ht' hs
    rw [(ht t ht').1.1.1] at hs; cases hs

/-! ## along admissible executions -/

/-- **the outage invariant holds in every state of every admissible execution** -/
theorem occursA_outage {cfg : SMConfig} {s0 σ : State} (hst : Start orc inst s0) (h0 : outRestB s0 = true)
    (h : OccursA orc inst cfg s0 σ) : OutageInv σ := by
  obtain ⟨w, _⟩ := initOKB_sound hst.init
  have nn := nonnegB_sound hst.samples hst.nonneg
  exact occursA_pass (OutagePass orc inst cfg w nn) hst (OutageInv.of_rest hst.rest h0) (fun _ _ _ => trivial) h

/-- **a machine in OUTAGE**, in any state of any admissible execution: it was struck at an instant
`a`, the clock lies between `a` and `a` + the longest active outage – the instant until which it is
occupied – and it still holds its job -/
theorem occursA_outage_machine {cfg : SMConfig} {s0 σ : State} (hst : Start orc inst s0) (h0 : outRestB s0 = true)
    (h : OccursA orc inst cfg s0 σ) {m : MachineState} (hm : m ∈ σ.machines) (hs : m.st = .outage) :
    ∃ a, m.occ = some (a + occupiedFor m.outages) ∧ a ≤ σ.time ∧ σ.time ≤ a + occupiedFor m.outages ∧
      StruckAt m.outages a ∧ ∃ j ∈ σ.jobs, m.buffer.store = [j.id] := by
  obtain ⟨a, hocc, hle, hstruck⟩ := (occursA_outage hst h0 h).machOut m hm hs
  obtain ⟨_, _, hS⟩ := occursA_inv hst h
  obtain ⟨j, hj, hstore, op, hop, _, hstop, _⟩ := hS.busyHolds m hm (by rw [hs]; simp)
  obtain ⟨l1, l2, hl, _, hp⟩ := processing?_split' hop
  have hmem : op ∈ j.ops := by rw [hl]; simp
  obtain ⟨_, b, _, h2, _, _, h5⟩ := (OpsOK_mem _ _ (hS.ops j hj) op hmem).2.1 hp
  rw [h2, hocc] at hstop
  simp at hstop
  exact ⟨a, hocc, hle, by omega, hstruck, j, hj, hstore⟩

/-- **an AGV in OUTAGE**, in any state of any admissible execution: struck at `a`, the clock lies
between `a` and `a` + the longest active outage, and it claims no job -/
theorem occursA_outage_agv {cfg : SMConfig} {s0 σ : State} (hst : Start orc inst s0) (h0 : outRestB s0 = true)
    (h : OccursA orc inst cfg s0 σ) {t : TransportState} (ht : t ∈ σ.transports) (hs : t.st = .outage) :
    ∃ a, t.occ = .at (a + occupiedFor t.outages) ∧ a ≤ σ.time ∧ σ.time ≤ a + occupiedFor t.outages ∧
      StruckAt t.outages a ∧ t.job = none := by
  obtain ⟨a, hocc, hle, hstruck⟩ := (occursA_outage hst h0 h).agvOut t ht hs
  obtain ⟨_, _, hS⟩ := occursA_inv hst h
  exact ⟨a, hocc, hle, hS.agvPending t ht (by rw [hs]; simp) _ hocc, hstruck, hS.freeNoClaim t ht (Or.inr hs)⟩

/-- the state a step returns, done or not: the invariant up to the final stamp of the clock -/
theorem final_outage {cfg : SMConfig} {s0 s : State} (hst : Start orc inst s0) (h0 : outRestB s0 = true)
    (h : OccursA orc inst cfg s0 s)
    {a : Action} (ha : Admissible a) {fuel : Nat} {r r' : Rng} {res : SMResult} {mic : List State}
    (hstep : smStep orc inst cfg fuel s r a = .ok (res, r', mic)) :
    OutageRec res.state ∧ (res.done = false → OutageInv res.state) := by
  obtain ⟨w, hI, hS⟩ := occursA_inv hst h
  have nn := nonnegB_sound hst.samples hst.nonneg
  have hs := (OutagePass orc inst cfg w nn).smStep w nn hI hS (occursA_outage hst h0 h) ha trivial hstep
  obtain ⟨t, ht⟩ := hs.2.2.1
  exact ⟨OutageRec.of_time ht, hs.2.2.2⟩

/-! ## along the episodes of the environment -/

/-- what is carried for a result the environment holds -/
structure ResOutage (res : SMResult) : Prop where
  /-- the state held: the records, without the clock -/
  recs : OutageRec res.state
  /-- … with the clock as long as the result is not the final one -/
  live : res.done = false → OutageInv res.state
  subs : ∀ σ ∈ res.subStates, OutageInv σ

theorem smStep_resOutage {cfg : SMConfig} {s0 s : State} (hst : Start orc inst s0) (h0 : outRestB s0 = true)
    (h : OccursA orc inst cfg s0 s)
    {a : Action} (ha : Admissible a) {fuel : Nat} {r r' : Rng} {res : SMResult} {mic : List State}
    (hstep : smStep orc inst cfg fuel s r a = .ok (res, r', mic)) :
    ResOutage res ∧ ∀ σ ∈ mic, OutageInv σ :=
  ⟨⟨(final_outage hst h0 h ha hstep).1, (final_outage hst h0 h ha hstep).2,
      fun _ hσ => occursA_outage hst h0 (OccursA.sub h ha hstep hσ)⟩,
    fun _ hσ => occursA_outage hst h0 (OccursA.micro h ha hstep hσ)⟩

theorem envReset_outage {ec : EnvCfg} {s0 : State} (hst : Start orc inst s0) (h0 : outRestB s0 = true)
    {r : Rng} {e : EnvState} {mic : List State} (h : envReset orc inst ec s0 r = .ok (e, mic)) :
    ResOutage e.res ∧ ∀ σ ∈ mic, OutageInv σ := by
  unfold envReset mwReset at h
  obtain ⟨⟨res, mw, r', mic'⟩, h1, h⟩ := except_bind_eq_ok h
  obtain ⟨⟨res', r'', mic''⟩, h2, h1⟩ := except_bind_eq_ok h1
  simp at h1 h
  obtain ⟨rfl, rfl, rfl, rfl⟩ := h1
  obtain ⟨rfl, rfl⟩ := h
  exact smStep_resOutage (cfg := ec.sm) hst h0 OccursA.init admissible_noOp h2

theorem envStep_outage {ec : EnvCfg} {st : RewardStatic} {s0 : State} (hst : Start orc inst s0)
    (h0 : outRestB s0 = true) {e : EnvState}
    (hi : ResInv orc inst ec.sm s0 e.res) (hd : ResOutage e.res) {a : AgentAct} {out : StepOut}
    (h : envStep orc inst ec st e a = .ok out) :
    ResOutage out.env.res ∧ ∀ σ ∈ out.micro, OutageInv σ := by
  unfold envStep at h
  split at h
  · simp at h
  · obtain ⟨⟨res', mw, r, mic⟩, hm, h⟩ := except_bind_eq_ok h
    simp only at h
    obtain ⟨⟨rew, cnt⟩, _, h⟩ := except_bind_eq_ok h
    simp at h; subst h
    have key : ResOutage res' ∧ ∀ σ ∈ mic, OutageInv σ := by
      rcases mwStep_cases hm with ⟨o, o', rest, _, hp, e1, e2, _, _, _, e6, _⟩ | ⟨act, hsub, hk, hs⟩
      · simp only at e1 e2 e6
        have hl := hi.live (by rw [hp]; simp)
        refine ⟨⟨by rw [e1]; exact hd.recs, fun _ => by rw [e1]; exact occursA_outage hst h0 hl.1,
          by rw [e2]; exact hd.subs⟩, ?_⟩
        rw [e6]; intro σ hσ; cases hσ
      · have hne : e.res.possible ≠ [] := by
          rcases hk with ⟨_, _, _, h⟩ | ⟨_, _, _, h⟩
          · exact h
          · intro h0; rw [h0] at h; simp at h
        have hl := hi.live hne
        have ha : Admissible act := by
          refine ⟨fun tr htr => hl.2 tr ?_, ?_⟩
          · have := hsub tr htr
            cases hp : e.res.possible with
            | nil => rw [hp] at this; simp at this
            | cons x xs => rw [hp] at this; simp at this; rw [this]; simp
          · rcases hk with ⟨_, h, _⟩ | ⟨_, h, _⟩ <;> rw [h] <;> simp
        exact smStep_resOutage hst h0 hl.1 ha hs
    by_cases hsuc : res'.success = true
    · simp only [hsuc, if_true]; exact key
    · simp only [hsuc]
      exact ⟨hd, key.2⟩

/-- every result the environment holds: the records of its state (with the clock while the result
is not final) and the full invariant in its sub-states -/
theorem envReach_outage {ec : EnvCfg} {st : RewardStatic} {s0 : State} (hst : Start orc inst s0)
    (h0 : outRestB s0 = true) {e : EnvState} (h : EnvReach orc inst ec st s0 e) : ResOutage e.res := by
  induction h with
  | reset h => exact (envReset_outage hst h0 h).1
  | step he h ih => exact (envStep_outage hst h0 (envReach_inv hst he) ih h).1

/-- **every exposed state satisfies the outage invariant** (without the comparison of the strike
instant with the clock, which is re-stamped in the final state) -/
theorem exposed_outage {ec : EnvCfg} {st : RewardStatic} {s0 σ : State} (hst : Start orc inst s0)
    (h0 : outRestB s0 = true) (h : Exposed orc inst ec st s0 σ) : OutageRec σ := by
  cases h with
  | state he => exact (envReach_outage hst h0 he).recs
  | sub he hσ => exact ((envReach_outage hst h0 he).subs σ hσ).toRec
  | resetMicro hr hσ => exact ((envReset_outage hst h0 hr).2 σ hσ).toRec
  | micro he hs hσ =>
    exact ((envStep_outage hst h0 (envReach_inv hst he) (envReach_outage hst h0 he) hs).2 σ hσ).toRec

/-! ## readable consequences -/

/-- a machine in OUTAGE is occupied until the end of its longest active outage (until the strike
instant when none is active), and all active outages began together -/
theorem OutageRec.machLongest {s : State} (h : OutageRec s) {m : MachineState} (hm : m ∈ s.machines)
    (hs : m.st = .outage) :
    ∃ a, (AllInactive m.outages ∧ m.occ = some a) ∨
      (∃ o ∈ m.outages, ∃ y, o.st = .active a y ∧ m.occ = some y ∧
        ∀ o' ∈ m.outages, ∀ x' y', o'.st = .active x' y' → x' = a ∧ y' ≤ y) := by
  obtain ⟨a, hocc, hst⟩ := h.machOut m hm hs
  refine ⟨a, ?_⟩
  rcases hst.longest with ⟨h1, h2⟩ | ⟨o, ho, y, h1, h2, h3⟩
  · left; exact ⟨h1, by rw [hocc, h2]; simp⟩
  · right; exact ⟨o, ho, y, h1, by rw [hocc, h2], h3⟩

theorem OutageRec.agvLongest {s : State} (h : OutageRec s) {t : TransportState} (ht : t ∈ s.transports)
    (hs : t.st = .outage) :
    ∃ a, (AllInactive t.outages ∧ t.occ = .at a) ∨
      (∃ o ∈ t.outages, ∃ y, o.st = .active a y ∧ t.occ = .at y ∧
        ∀ o' ∈ t.outages, ∀ x' y', o'.st = .active x' y' → x' = a ∧ y' ≤ y) := by
  obtain ⟨a, hocc, hst⟩ := h.agvOut t ht hs
  refine ⟨a, ?_⟩
  rcases hst.longest with ⟨h1, h2⟩ | ⟨o, ho, y, h1, h2, h3⟩
  · left; exact ⟨h1, by rw [hocc, h2]; simp⟩
  · right; exact ⟨o, ho, y, h1, by rw [hocc, h2], h3⟩

end JSL
