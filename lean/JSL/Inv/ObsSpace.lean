import JSL.Model.ObsSpace
import JSL.Inv.Jobs
import JSL.Props.Example
import Mathlib.Algebra.Order.Field.Rat
import Mathlib.Algebra.Order.Field.Basic

/-!
# Every observation `SimpleJsspObservationFactory.make` returns lies in the declared space

`simpleObs_in_space`: for a state with the shape of the instance, every observation the factory
returns has the declared shapes, `job_progression ≤ max_ops_per_job`,
`machine_progression ≤ max_ops_per_machine` and, for `0 ≤ time ≤ tmax`, `current_time ∈ [0, 1]`.
No bound on the size of the instance.
-/

namespace JSL

/-! ## list helpers -/

theorem le_foldl_max_init (l : List Nat) (a : Nat) : a ≤ l.foldl max a := by
  induction l generalizing a with
  | nil => exact Nat.le_refl _
  | cons x xs ih => exact Nat.le_trans (Nat.le_max_left a x) (ih (max a x))

theorem le_foldl_max_of_mem {l : List Nat} {x : Nat} (hx : x ∈ l) (a : Nat) : x ≤ l.foldl max a := by
  induction l generalizing a with
  | nil => cases hx
  | cons y ys ih =>
    rcases List.mem_cons.mp hx with rfl | h
    · exact Nat.le_trans (Nat.le_max_right a x) (le_foldl_max_init ys (max a x))
    · exact ih h (max a y)

theorem sortById_perm_list {α} (id : α → Nat) (l : List α) : (sortById id l).Perm l :=
  List.mergeSort_perm _ _

theorem sortById_length {α} (id : α → Nat) (l : List α) : (sortById id l).length = l.length :=
  (sortById_perm_list id l).length_eq

theorem mem_sortById {α} {id : α → Nat} {l : List α} {a : α} : a ∈ sortById id l ↔ a ∈ l :=
  (sortById_perm_list id l).mem_iff

/-- a successful `mapM` in `Except`: same length, and every result comes from some element -/
theorem mapM_except_ok {ε α β} (f : α → Except ε β) :
    ∀ (l : List α) (r : List β), l.mapM f = .ok r →
      r.length = l.length ∧ ∀ b ∈ r, ∃ a ∈ l, f a = .ok b := by
  intro l
  induction l with
  | nil =>
    intro r h
    simp only [List.mapM_nil, except_pure, Except.ok.injEq] at h
    subst h
    exact ⟨rfl, fun b hb => by cases hb⟩
  | cons x xs ih =>
    intro r h
    rw [List.mapM_cons] at h
    obtain ⟨b, hb, h⟩ := except_bind_eq_ok h
    obtain ⟨bs, hbs, h⟩ := except_bind_eq_ok h
    simp only [except_pure, Except.ok.injEq] at h
    subst h
    obtain ⟨hl, hm⟩ := ih bs hbs
    refine ⟨by simp [hl], ?_⟩
    intro c hc
    rcases List.mem_cons.mp hc with rfl | hc
    · exact ⟨x, List.mem_cons_self, hb⟩
    · obtain ⟨a, ha, e⟩ := hm c hc
      exact ⟨a, List.mem_cons_of_mem _ ha, e⟩

theorem listSet_ok {α} {l r : List α} {i : Nat} {a : α} (h : listSet? l i a = .ok r) :
    r = l.set i a := by
  unfold listSet? at h
  split at h
  · simpa using h.symm
  · simp at h

/-- folding `listSet?` keeps the length of the accumulator, and every entry of the result is an
entry of the initial accumulator or one of the values written -/
theorem foldlM_listSet_ok {α β} (k : β → Nat) (v : β → α) :
    ∀ (l : List β) (acc r : List α),
      l.foldlM (fun acc j => listSet? acc (k j) (v j)) acc = .ok r →
      r.length = acc.length ∧ ∀ x ∈ r, x ∈ acc ∨ ∃ j ∈ l, x = v j := by
  intro l
  induction l with
  | nil =>
    intro acc r h
    simp only [List.foldlM_nil, except_pure, Except.ok.injEq] at h
    subst h
    exact ⟨rfl, fun x hx => Or.inl hx⟩
  | cons y ys ih =>
    intro acc r h
    rw [List.foldlM_cons] at h
    obtain ⟨acc', h1, h⟩ := except_bind_eq_ok h
    have e := listSet_ok h1
    subst e
    obtain ⟨hl, hm⟩ := ih _ _ h
    refine ⟨by rw [hl, List.length_set], ?_⟩
    intro x hx
    rcases hm x hx with hx | ⟨j, hj, e⟩
    · rcases List.mem_or_eq_of_mem_set hx with hx | rfl
      · exact Or.inl hx
      · exact Or.inr ⟨y, List.mem_cons_self, rfl⟩
    · exact Or.inr ⟨j, List.mem_cons_of_mem _ hj, e⟩

/-! ## what a successful `simpleObs` returns -/

structure SimpleObsFacts (nm : Nat) (tmax : Int) (s : State) (o : SimpleObs) : Prop where
  jobRunning : o.jobRunning.length = s.jobs.length
  availableJobs : o.availableJobs.length = s.jobs.length
  execLen : o.jobExecutedOnMachine.length = s.jobs.length
  execRow : ∀ r ∈ o.jobExecutedOnMachine, r.length = nm
  progLen : o.jobProgression.length = s.jobs.length
  progVal : ∀ x ∈ o.jobProgression, x = 0 ∨
    ∃ j ∈ s.jobs, x = (j.ops.filter (·.st == .done)).length
  machineRunning : o.machineRunning.length = s.machines.length
  mprog : o.machineProgression = (sortById (·.id) s.machines).map fun m =>
    (((sortById (·.id) s.jobs).flatMap (·.ops)).filter fun o => o.machine == m.id && o.st == .done).length
  tmaxNe : tmax ≠ 0
  time : o.currentTime = (s.time : Rat) / (tmax : Rat)

theorem simpleObs_facts {nm : Nat} {tmax : Int} {s : State} {o : SimpleObs}
    (h : simpleObs nm tmax s = .ok o) : SimpleObsFacts nm tmax s o := by
  unfold simpleObs at h
  obtain ⟨avail, h1, h⟩ := except_bind_eq_ok h
  obtain ⟨exec, h2, h⟩ := except_bind_eq_ok h
  obtain ⟨prog, h3, h⟩ := except_bind_eq_ok h
  by_cases ht : tmax = 0
  · simp [ht] at h
  · simp only [ht, if_false] at h
    simp only [except_pure, Except.ok.injEq] at h
    subst h
    have a1 := mapM_except_ok _ _ _ h1
    have a2 := mapM_except_ok _ _ _ h2
    have a3 := foldlM_listSet_ok (fun (j : JobState) => j.id)
      (fun (j : JobState) => (j.ops.filter (·.st == .done)).length) _ _ _ h3
    refine
      { jobRunning := by simp [sortById_length]
        availableJobs := by rw [a1.1, sortById_length]
        execLen := by rw [a2.1, sortById_length]
        execRow := ?_
        progLen := by rw [a3.1, List.length_replicate, sortById_length]
        progVal := ?_
        machineRunning := by simp [sortById_length]
        mprog := rfl
        tmaxNe := ht
        time := rfl }
    · intro r hr
      obtain ⟨j, _, e⟩ := a2.2 r hr
      have := (foldlM_listSet_ok (fun (o : OpState) => o.machine) (fun _ => true) _ _ _ e).1
      rw [this, List.length_replicate]
    · intro x hx
      rcases a3.2 x hx with hx | ⟨j, hj, e⟩
      · exact Or.inl (List.eq_of_mem_replicate hx)
      · exact Or.inr ⟨j, mem_sortById.mp hj, e⟩

/-! ## consequences of `Shape` for the operation tables -/

theorem flatMap_ops_keys : ∀ (l : List JobState) (l' : List JobCfg), l.map jKey = l'.map jcKey →
    (l.flatMap (·.ops)).map opKey = (l'.flatMap (·.ops)).map ocKey := by
  intro l
  induction l with
  | nil =>
    intro l' h
    cases l' with
    | nil => rfl
    | cons _ _ => simp at h
  | cons a as ih =>
    intro l' h
    cases l' with
    | nil => simp at h
    | cons b bs =>
      simp only [List.map_cons, List.cons.injEq, jKey, jcKey, Prod.mk.injEq] at h
      simp only [List.flatMap_cons, List.map_append]
      rw [h.1.2, ih bs h.2]

theorem filter_machine_length_state (l : List OpState) (k : Nat) :
    (l.filter fun o => o.machine == k).length =
      ((l.map opKey).filter fun t => t.2.2 == k).length := by
  rw [List.filter_map, List.length_map]
  rfl

theorem filter_machine_length_cfg (l : List OpCfg) (k : Nat) :
    (l.filter fun o => o.machine == k).length =
      ((l.map ocKey).filter fun t => t.2.2 == k).length := by
  rw [List.filter_map, List.length_map]
  rfl

/-- the state has as many operation records on machine `k` as the instance configures -/
theorem Shape.opsOnMachine_eq {inst : Instance} {s : State} (hs : Shape inst s) (k : Nat) :
    ((s.jobs.flatMap (·.ops)).filter fun o => o.machine == k).length = opsOnMachine inst k := by
  unfold opsOnMachine
  rw [filter_machine_length_state, filter_machine_length_cfg, flatMap_ops_keys _ _ hs.jobs]

theorem Shape.ops_length_le {inst : Instance} {s : State} (hs : Shape inst s) {j : JobState}
    (hj : j ∈ s.jobs) : j.ops.length ≤ maxOpsPerJob inst := by
  obtain ⟨jc, hjc, hk⟩ := hs.job_cfg hj
  simp only [jKey, jcKey, Prod.mk.injEq] at hk
  have e : j.ops.length = jc.ops.length := by
    have := congrArg List.length hk.2
    simpa using this
  rw [e]
  have hmem : jc.ops.length ∈ inst.jobs.map (fun j => j.ops.length) := List.mem_map.mpr ⟨jc, hjc, rfl⟩
  exact le_foldl_max_of_mem hmem 0

theorem Shape.opsOnMachine_le {inst : Instance} {s : State} (hs : Shape inst s) {m : MachineState}
    (hm : m ∈ s.machines) : opsOnMachine inst m.id ≤ maxOpsPerMachine inst := by
  obtain ⟨mc, hmc, hk⟩ := hs.machine_cfg hm
  simp only [mKey, mcKey, Prod.mk.injEq] at hk
  rw [hk.1]
  have hmem : opsOnMachine inst mc.id ∈ inst.machines.map (fun m => opsOnMachine inst m.id) :=
    List.mem_map.mpr ⟨mc, hmc, rfl⟩
  exact le_foldl_max_of_mem hmem 0

/-- the finished operations of machine `k`, counted over the jobs in any order, are at most the
operations configured on `k` -/
theorem Shape.done_on_machine_le {inst : Instance} {s : State} (hs : Shape inst s) (k : Nat) :
    (((sortById (·.id) s.jobs).flatMap (·.ops)).filter fun o => o.machine == k && o.st == .done).length
      ≤ opsOnMachine inst k := by
  rw [← hs.opsOnMachine_eq k]
  have hp : ((sortById (·.id) s.jobs).flatMap (·.ops)).Perm (s.jobs.flatMap (·.ops)) :=
    (sortById_perm_list _ _).flatMap_right _
  rw [← (hp.filter _).length_eq]
  have : (((sortById (·.id) s.jobs).flatMap (·.ops)).filter fun o => o.machine == k && o.st == .done) =
      ((((sortById (·.id) s.jobs).flatMap (·.ops)).filter fun o => o.machine == k).filter
        fun o => o.st == .done) := by
    rw [List.filter_filter]
    congr 1
    funext o
    exact Bool.and_comm _ _
  rw [this]
  exact List.length_filter_le _ _

/-! ## the theorems -/

/-- **Shapes and integer bounds**: every observation the factory returns for a state with the
shape of the instance has the declared shapes, `job_progression ≤ max_ops_per_job` and
`machine_progression ≤ max_ops_per_machine`.  No hypothesis on the time. -/
theorem simpleObs_int_fields_in_space {inst : Instance} {s : State} (hs : Shape inst s) {tmax : Int}
    {o : SimpleObs} (h : simpleObs inst.machines.length tmax s = .ok o) :
    o.intFieldsInSpaceB inst.jobs.length inst.machines.length (maxOpsPerJob inst)
      (maxOpsPerMachine inst) = true := by
  have f := simpleObs_facts h
  have hnj : s.jobs.length = inst.jobs.length := by
    have := congrArg List.length hs.jobs
    simpa using this
  have hnm : s.machines.length = inst.machines.length := by
    have := congrArg List.length hs.machines
    simpa using this
  simp only [SimpleObs.intFieldsInSpaceB, Bool.and_eq_true, beq_iff_eq, List.all_eq_true,
    decide_eq_true_eq]
  refine ⟨⟨⟨⟨⟨⟨⟨⟨?_, ?_⟩, ?_⟩, ?_⟩, ?_⟩, ?_⟩, ?_⟩, ?_⟩, ?_⟩
  · rw [f.jobRunning, hnj]
  · rw [f.availableJobs, hnj]
  · rw [f.execLen, hnj]
  · exact f.execRow
  · rw [f.progLen, hnj]
  · intro x hx
    rcases f.progVal x hx with rfl | ⟨j, hj, rfl⟩
    · exact Nat.zero_le _
    · exact Nat.le_trans (List.length_filter_le _ _) (hs.ops_length_le hj)
  · rw [f.machineRunning, hnm]
  · rw [f.mprog, List.length_map, sortById_length, hnm]
  · intro x hx
    rw [f.mprog] at hx
    obtain ⟨m, hm, rfl⟩ := List.mem_map.mp hx
    exact Nat.le_trans (hs.done_on_machine_le m.id) (hs.opsOnMachine_le (mem_sortById.mp hm))

/-- **`current_time ∈ [0, 1]`** whenever the factory returns and `0 ≤ time ≤ tmax` -/
theorem simpleObs_time_in_space {nm : Nat} {s : State} {tmax : Int} {o : SimpleObs}
    (h : simpleObs nm tmax s = .ok o) (ht0 : 0 ≤ s.time) (ht1 : s.time ≤ tmax) :
    o.timeInSpaceB = true := by
  have f := simpleObs_facts h
  have hpos : (0 : Int) < tmax := by have := f.tmaxNe; omega
  have hposq : (0 : Rat) < (tmax : Rat) := by exact_mod_cast hpos
  have h0q : (0 : Rat) ≤ (s.time : Rat) := by exact_mod_cast ht0
  have h1q : (s.time : Rat) ≤ (tmax : Rat) := by exact_mod_cast ht1
  simp only [SimpleObs.timeInSpaceB, Bool.and_eq_true, decide_eq_true_eq, f.time]
  exact ⟨div_nonneg h0q (le_of_lt hposq), (div_le_one hposq).mpr h1q⟩

theorem SimpleObs.inSpaceB_eq (nj nm hiJ hiM : Nat) (o : SimpleObs) :
    o.inSpaceB nj nm hiJ hiM = (o.intFieldsInSpaceB nj nm hiJ hiM && o.timeInSpaceB) := by
  simp only [SimpleObs.inSpaceB, SimpleObs.intFieldsInSpaceB, SimpleObs.timeInSpaceB, Bool.and_assoc]

/-- **The observation lies in the declared space.**  `WF inst` is not needed (kept in the
signature for uniformity with the other invariants). -/
theorem simpleObs_in_space {inst : Instance} (_w : WF inst) {s : State} (hs : Shape inst s)
    {tmax : Int} {o : SimpleObs}
    (h : simpleObs inst.machines.length tmax s = .ok o) (ht0 : 0 ≤ s.time) (ht1 : s.time ≤ tmax) :
    o.inSpaceB inst.jobs.length inst.machines.length (maxOpsPerJob inst) (maxOpsPerMachine inst)
      = true := by
  rw [SimpleObs.inSpaceB_eq, simpleObs_int_fields_in_space hs h, simpleObs_time_in_space h ht0 ht1]
  rfl

/-! ## non-vacuity -/

example : maxOpsPerJob Ex.inst = 2 ∧ maxOpsPerMachine Ex.inst = 2 := by decide

/-- `mergeSort` is defined by well-founded recursion, which the kernel does not unfold; the lists
of the example are already in order, so the sort is the identity -/
theorem ex_jobs_sorted : sortById (·.id) Ex.s0.jobs = Ex.s0.jobs :=
  List.mergeSort_of_pairwise (by decide)

theorem ex_machines_sorted : sortById (·.id) Ex.s0.machines = Ex.s0.machines :=
  List.mergeSort_of_pairwise (by decide)

example : ((simpleObs 2 9 Ex.s0).toOption.map
    (·.inSpaceB 2 2 (maxOpsPerJob Ex.inst) (maxOpsPerMachine Ex.inst))) = some true := by
  unfold simpleObs
  rw [ex_jobs_sorted, ex_machines_sorted]
  decide +kernel

/-- the bounds are tight enough to reject something: the same observation is outside the space
declared for a one-job instance -/
example : ((simpleObs 2 9 Ex.s0).toOption.map (·.inSpaceB 1 2 2 2)) = some false := by
  unfold simpleObs
  rw [ex_jobs_sorted, ex_machines_sorted]
  decide +kernel

end JSL
