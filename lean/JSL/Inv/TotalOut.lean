import JSL.Inv.TotalRoom

/-!
# Sampling the outages of a component does not raise

`get_new_outage_states` raises `ValueError` when a configured outage has no record, or when a
record is still active.  With a record for every configured outage (`OutCover`) and only inactive
records (`AllInactive`: what `OutageInv` says of every component that is not in OUTAGE) it returns.
-/

namespace JSL

variable {inst : Instance}

theorem sampleOutage_total (orc : Oracle) (now : Int) {comp : List OutageState} (hin : AllInactive comp)
    (r : Rng) {o : OutageCfg} (hc : ∃ st ∈ comp, st.id = o.id) :
    ∃ out, sampleOutage orc now comp r o = .ok out := by
  obtain ⟨st0, hst0, hid⟩ := hc
  obtain ⟨st, hst⟩ := findE_of_exists (p := fun (x : OutageState) => x.id == o.id) .valueError hst0 (by simp [hid])
  have hmem : st ∈ comp := by
    unfold findE at hst
    cases hf : comp.find? (fun x => x.id == o.id) with
    | none => simp [hf] at hst
    | some a => simp [hf] at hst; subst hst; exact List.mem_of_find?_eq_some hf
  obtain ⟨last, hl⟩ := hin st hmem
  have hsince : ∃ d, outageSince now st.st = .ok d := by
    rw [hl]
    cases last with
    | none => exact ⟨_, rfl⟩
    | some l => exact ⟨_, rfl⟩
  obtain ⟨d, hd⟩ := hsince
  unfold sampleOutage
  simp only [hst, hd, except_bind_ok]
  split
  · exact ⟨_, rfl⟩
  · exact ⟨_, rfl⟩

theorem newOutageStates_total (orc : Oracle) (now : Int) {comp : List OutageState} (hin : AllInactive comp) :
    ∀ (cfgs : List OutageCfg) (r : Rng), OutCover cfgs comp → ∃ out, newOutageStates orc now comp cfgs r = .ok out
  | [], r, _ => ⟨_, rfl⟩
  | o :: os, r, hc => by
    obtain ⟨⟨x, r1⟩, hx⟩ := sampleOutage_total orc now hin r (hc o (by simp))
    obtain ⟨⟨xs, r2⟩, hxs⟩ := newOutageStates_total orc now hin os r1 (fun oc hoc => hc oc (by simp [hoc]))
    simp only [newOutageStates, hx, hxs, except_bind_ok]
    exact ⟨_, rfl⟩

end JSL
