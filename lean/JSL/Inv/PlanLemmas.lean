import JSL.Inv.PlanDefs
import JSL.Inv.Outage

/-! Lemmas for the soundness of the lower bound -/

namespace JSL

/-! ### per job -/

theorem sumDur_cons (a : Nat × Int) (l : List (Nat × Int)) : sumDur (a :: l) = a.2 + sumDur l := by
  simp [sumDur]

theorem sumDur_nonneg : ∀ (l : List (Nat × Int)), (∀ a ∈ l, 0 ≤ a.2) → 0 ≤ sumDur l
  | [], _ => by simp [sumDur]
  | a :: l, h => by
    rw [sumDur_cons]
    have := sumDur_nonneg l (fun x hx => h x (by simp [hx]))
    have := h a (by simp)
    omega

theorem prefixBefore_nonneg (μ : Nat) : ∀ (l : List (Nat × Int)), (∀ a ∈ l, 0 ≤ a.2) → 0 ≤ prefixBefore μ l
  | [], _ => by simp [prefixBefore]
  | (m, d) :: l, h => by
    simp only [prefixBefore]
    split
    · exact Int.le_refl 0
    · have := prefixBefore_nonneg μ l (fun x hx => h x (by simp [hx]))
      have := h (m, d) (by simp)
      simp at this
      omega

/-- an operation on machine `μ` starts no earlier than everything its job does before first
reaching `μ` -/
theorem chain_prefix (μ : Nat) : ∀ (j : PJob) (t : Int), ChainOK t j → (∀ x ∈ j, 0 ≤ x.dur) →
    ∀ x ∈ j, x.mach = μ → t + prefixBefore μ j.proj ≤ x.start
  | [], _, _, _, x, hx, _ => by cases hx
  | y :: rest, t, hc, hd, x, hx, hm => by
    obtain ⟨h1, h2⟩ := hc
    have hdy := hd y (by simp)
    have hpn := prefixBefore_nonneg μ (PJob.proj rest) (by
      intro a ha
      simp only [PJob.proj, List.mem_map] at ha
      obtain ⟨z, hz, rfl⟩ := ha
      exact hd z (by simp [hz]))
    simp only [PJob.proj, List.map_cons, prefixBefore]
    rcases List.mem_cons.mp hx with rfl | hx'
    · have : x.1 = μ := hm
      simp [this]; exact h1
    · have ih := chain_prefix μ rest y.stop h2 (fun z hz => hd z (by simp [hz])) x hx' hm
      simp only [PJob.proj] at ih hpn
      simp only [POp.stop, POp.dur, POp.start] at *
      split <;> omega

/-- everything a job does takes at least the sum of its durations -/
theorem chain_total : ∀ (j : PJob) (t C : Int), ChainOK t j → (∀ x ∈ j, x.stop ≤ C) → t ≤ C →
    t + sumDur j.proj ≤ C
  | [], t, C, _, _, h => by simp [PJob.proj, sumDur]; exact h
  | y :: rest, t, C, hc, hb, _ => by
    obtain ⟨h1, h2⟩ := hc
    have hy := hb y (by simp)
    have ih := chain_total rest y.stop C h2 (fun z hz => hb z (by simp [hz])) hy
    simp only [PJob.proj, List.map_cons, sumDur_cons]
    simp only [PJob.proj, POp.stop, POp.start] at *
    omega

/-- after its operation on `μ` a job still needs everything that follows it -/
theorem chain_suffix (μ : Nat) : ∀ (j : PJob) (t C : Int), ChainOK t j → (∀ x ∈ j, x.stop ≤ C) →
    (j.map POp.mach).Nodup → ∀ x ∈ j, x.mach = μ → x.stop + suffixAfter μ j.proj ≤ C
  | [], _, _, _, _, _, x, hx, _ => by cases hx
  | y :: rest, t, C, hc, hb, hnd, x, hx, hm => by
    obtain ⟨h1, h2⟩ := hc
    have hy := hb y (by simp)
    simp only [List.map_cons, List.nodup_cons] at hnd
    simp only [PJob.proj, List.map_cons, suffixAfter]
    rcases List.mem_cons.mp hx with rfl | hx'
    · have : x.1 = μ := hm
      simp only [this, if_true]
      exact chain_total rest x.stop C h2 (fun z hz => hb z (by simp [hz])) hy
    · have hne : y.1 ≠ μ := by
        intro e
        apply hnd.1
        exact List.mem_map.mpr ⟨x, hx', by rw [hm]; exact e.symm⟩
      simp only [hne, if_false]
      exact chain_suffix μ rest y.stop C h2 (fun z hz => hb z (by simp [hz])) hnd.2 x hx' hm

/-- prefix before and suffix after the first visit together fit into the job -/
theorem prefix_suffix_le (μ : Nat) : ∀ (l : List (Nat × Int)), (∀ a ∈ l, 0 ≤ a.2) →
    prefixBefore μ l + suffixAfter μ l ≤ sumDur l
  | [], _ => by simp [prefixBefore, suffixAfter, sumDur]
  | (m, d) :: l, h => by
    have hd : 0 ≤ d := by simpa using h (m, d) (by simp)
    have ih := prefix_suffix_le μ l (fun x hx => h x (by simp [hx]))
    simp only [prefixBefore, suffixAfter, sumDur_cons]
    split <;> omega

/-! ### packing disjoint intervals -/

def sumDurP (l : List POp) : Int := (l.map POp.dur).sum

theorem sumDurP_cons (x : POp) (l : List POp) : sumDurP (x :: l) = x.dur + sumDurP l := by simp [sumDurP]

theorem sumDurP_filter (p : POp → Bool) : ∀ (l : List POp),
    sumDurP l = sumDurP (l.filter p) + sumDurP (l.filter (fun x => !p x))
  | [] => by simp [sumDurP]
  | x :: l => by
    have ih := sumDurP_filter p l
    by_cases hp : p x = true
    · simp only [List.filter_cons, hp, if_true, sumDurP_cons, Bool.not_true, Bool.false_eq_true, if_false]; omega
    · have hp' : p x = false := by simpa using hp
      simp only [List.filter_cons, hp', Bool.false_eq_true, if_false, Bool.not_false, if_true, sumDurP_cons]; omega

/-- pairwise disjoint intervals inside `[b, E]` have total length at most `E - b` -/
theorem packing : ∀ (n : Nat) (l : List POp) (b E : Int), l.length ≤ n → l.Pairwise disjointOps →
    (∀ x ∈ l, 0 ≤ x.dur) → (∀ x ∈ l, b ≤ x.start) → (∀ x ∈ l, x.stop ≤ E) → b ≤ E → sumDurP l ≤ E - b
  | _, [], b, E, _, _, _, _, _, hbE => by simp [sumDurP]; omega
  | 0, x :: l, _, _, hn, _, _, _, _, _ => by simp at hn
  | n + 1, x :: l, b, E, hn, hp, hd, hs, he, hbE => by
    obtain ⟨hx, hpl⟩ := List.pairwise_cons.mp hp
    let left := l.filter (fun y => decide (y.stop ≤ x.start))
    let right := l.filter (fun y => !decide (y.stop ≤ x.start))
    have hlen : l.length ≤ n := by simp at hn; omega
    have hxs := hs x (by simp)
    have hxe := he x (by simp)
    have hxd := hd x (by simp)
    have hL := packing n left b x.start (Nat.le_trans (List.length_filter_le _ _) hlen)
      (hpl.sublist List.filter_sublist) (fun y hy => hd y (by simp [(List.mem_filter.mp hy).1]))
      (fun y hy => hs y (by simp [(List.mem_filter.mp hy).1]))
      (fun y hy => by simpa using (List.mem_filter.mp hy).2) hxs
    have hR := packing n right x.stop E (Nat.le_trans (List.length_filter_le _ _) hlen)
      (hpl.sublist List.filter_sublist) (fun y hy => hd y (by simp [(List.mem_filter.mp hy).1]))
      (fun y hy => by
        have hm := List.mem_filter.mp hy
        have hnot : ¬ y.stop ≤ x.start := by simpa using hm.2
        rcases hx y hm.1 with h | h
        · exact h
        · exact absurd h hnot)
      (fun y hy => he y (by simp [(List.mem_filter.mp hy).1])) hxe
    have hsplit := sumDurP_filter (fun y => decide (y.stop ≤ x.start)) l
    rw [sumDurP_cons]
    simp only [POp.stop, POp.dur, POp.start] at *
    show x.2.1 + sumDurP l ≤ E - b
    have h1 : sumDurP left ≤ x.2.2 - b := hL
    have h2 : sumDurP right ≤ E - (x.2.2 + x.2.1) := hR
    have h3 : sumDurP l = sumDurP left + sumDurP right := hsplit
    omega


/-! ### the bound -/

theorem foldl_min_le2 (ds : List Int) : ∀ (d : Int), ds.foldl min d ≤ d ∧ ∀ x ∈ ds, ds.foldl min d ≤ x := by
  induction ds with
  | nil => intro d; simp
  | cons a as ih =>
    intro d
    simp only [List.foldl_cons]
    have := ih (min d a)
    refine ⟨by omega, ?_⟩
    intro x hx
    rcases List.mem_cons.mp hx with rfl | hx
    · omega
    · exact this.2 x hx

theorem minOfList_le {l : List Int} {b : Int} (h : minOfList l = some b) : ∀ y ∈ l, b ≤ y := by
  cases l with
  | nil => simp [minOfList] at h
  | cons x xs =>
    simp [minOfList] at h; subst h
    intro y hy
    rcases List.mem_cons.mp hy with rfl | hy
    · exact (foldl_min_le2 xs y).1
    · exact (foldl_min_le2 xs x).2 y hy

theorem maxOfList_mem {l : List Int} {m : Int} (h : maxOfList l = some m) : m ∈ l := by
  cases l with
  | nil => simp [maxOfList] at h
  | cons x xs =>
    simp [maxOfList] at h; subst h
    rcases foldl_max_mem xs x with e | e
    · rw [e]; simp
    · simp [e]

theorem option_mapM_mem {α β} {f : α → Option β} : ∀ {l : List α} {r : List β}, l.mapM f = some r →
    ∀ y ∈ r, ∃ x ∈ l, f x = some y
  | [], r, h => by simp [List.mapM_nil] at h; subst h; simp
  | a :: as, r, h => by
    rw [List.mapM_cons] at h
    cases ha : f a with
    | none => simp [ha] at h
    | some b =>
      cases has : as.mapM f with
      | none => simp [ha, has] at h
      | some bs =>
        simp [ha, has] at h; subst h
        intro y hy
        rcases List.mem_cons.mp hy with rfl | hy
        · exact ⟨a, by simp, ha⟩
        · obtain ⟨x, hx, e⟩ := option_mapM_mem has y hy
          exact ⟨x, by simp [hx], e⟩

/-- total processing time of machine `μ` = total duration of the scheduled operations on it -/
theorem tOf_plan (μ : Nat) : ∀ (p : Plan),
    tOf p.proj μ = sumDurP ((p.flatMap id).filter (fun x => decide (x.mach = μ)))
  | [] => by simp [tOf, Plan.proj, sumDurP]
  | j :: p => by
    have ih := tOf_plan μ p
    simp only [tOf, Plan.proj, List.map_cons, List.sum_cons] at ih ⊢
    simp only [List.flatMap_cons, id, List.filter_append, sumDurP, List.map_append, List.sum_append]
    simp only [sumDurP] at ih
    rw [← ih]
    congr 1
    clear ih
    induction j with
    | nil => simp [PJob.proj]
    | cons x xs ihx =>
      simp only [PJob.proj, List.map_cons, List.filter_cons] at ihx ⊢
      by_cases hm : x.1 = μ
      · simp [hm, POp.mach, POp.dur]; simp [POp.mach, POp.dur] at ihx; omega
      · simp [hm, POp.mach, POp.dur]; simp [POp.mach, POp.dur] at ihx; omega

/-- **Machine bound.** -/
theorem machine_bound {p : Plan} {C : Int} (hf : FeasiblePlan p C) (hd : ∀ j ∈ p, ∀ x ∈ j, 0 ≤ x.dur)
    (hnd : ∀ j ∈ p, (j.map POp.mach).Nodup) (hne : ∀ j ∈ p, j ≠ []) (μ : Nat) {b a : Int}
    (hb : bOf p.proj μ = some b) (ha : aOf p.proj μ = some a) : b + tOf p.proj μ + a ≤ C := by
  have hbl : ∀ j ∈ p, b ≤ prefixBefore μ j.proj := by
    intro j hj
    exact minOfList_le hb _ (by simp only [Plan.proj, List.map_map]; exact List.mem_map.mpr ⟨j, hj, rfl⟩)
  have hal : ∀ j ∈ p, a ≤ suffixAfter μ j.proj := by
    intro j hj
    exact minOfList_le ha _ (by simp only [Plan.proj, List.map_map]; exact List.mem_map.mpr ⟨j, hj, rfl⟩)
  rw [tOf_plan]
  -- the operations on μ
  have hX : ∀ x ∈ (p.flatMap id).filter (fun x => decide (x.mach = μ)), ∃ j ∈ p, x ∈ j ∧ x.mach = μ := by
    intro x hx
    obtain ⟨hx1, hx2⟩ := List.mem_filter.mp hx
    obtain ⟨j, hj, hxj⟩ := List.mem_flatMap.mp hx1
    exact ⟨j, hj, hxj, by simpa using hx2⟩
  have hprojd : ∀ j ∈ p, ∀ a ∈ j.proj, 0 ≤ a.2 := by
    intro j hj a ha
    simp only [PJob.proj, List.mem_map] at ha
    obtain ⟨z, hz, rfl⟩ := ha
    exact hd j hj z hz
  -- b ≤ C - a from any job
  have hbE : b ≤ C - a := by
    cases p with
    | nil => simp [bOf, Plan.proj, minOfList] at hb
    | cons j0 rest =>
      have h1 := hbl j0 (by simp)
      have h2 := hal j0 (by simp)
      have h3 := prefix_suffix_le μ j0.proj (hprojd j0 (by simp))
      have h4 : sumDur j0.proj ≤ C := by
        cases j0 with
        | nil => exact absurd rfl (hne [] (by simp))
        | cons x xs =>
          have hc := hf.chain (x :: xs) (by simp)
          have hbx := hf.bound (x :: xs) (by simp)
          have hx0 : 0 ≤ C := by
            have := hc.1
            have := hbx x (by simp)
            have := hd (x :: xs) (by simp) x (by simp)
            simp only [POp.stop, POp.dur, POp.start] at *
            omega
          have := chain_total (x :: xs) 0 C hc hbx hx0
          omega
      omega
  have := packing _ _ b (C - a) (Nat.le_refl _)
    ((hf.excl.filter _).imp_of_mem (fun {x y} hx hy hxy => hxy (by
      have := (List.mem_filter.mp hx).2; have := (List.mem_filter.mp hy).2; simp_all)))
    (fun x hx => by obtain ⟨j, hj, hxj, _⟩ := hX x hx; exact hd j hj x hxj)
    (fun x hx => by
      obtain ⟨j, hj, hxj, hm⟩ := hX x hx
      have := chain_prefix μ j 0 (hf.chain j hj) (hd j hj) x hxj hm
      have := hbl j hj
      omega)
    (fun x hx => by
      obtain ⟨j, hj, hxj, hm⟩ := hX x hx
      have := chain_suffix μ j 0 C (hf.chain j hj) (hf.bound j hj) (hnd j hj) x hxj hm
      have := hal j hj
      omega)
    hbE
  omega


/-- **Job bound.** -/
theorem job_bound {p : Plan} {C : Int} (hf : FeasiblePlan p C) (hd : ∀ j ∈ p, ∀ x ∈ j, 0 ≤ x.dur)
    (hne : ∀ j ∈ p, j ≠ []) {mj : Int} (h : maxJobDuration p.proj = some mj) : mj ≤ C := by
  have hm := maxOfList_mem h
  simp only [Plan.proj, List.map_map, List.mem_map] at hm
  obtain ⟨j, hj, rfl⟩ := hm
  cases j with
  | nil => exact absurd rfl (hne [] hj)
  | cons x xs =>
    have hc := hf.chain (x :: xs) hj
    have hbx := hf.bound (x :: xs) hj
    have hx0 : 0 ≤ C := by
      have := hc.1
      have := hbx x (by simp)
      have := hd (x :: xs) hj x (by simp)
      simp only [POp.stop, POp.dur, POp.start] at *
      omega
    have := chain_total (x :: xs) 0 C hc hbx hx0
    simp only [Function.comp] at *
    omega

theorem lowerBound_spec {s : Sched} {L : Int} (h : lowerBound s = some L) :
    (∀ j ∈ s, j.length = nmOf s) ∧
    ∃ per mm mj, (List.range (nmOf s)).mapM (fun m => (bOf s m).bind fun b => (aOf s m).bind fun a => some (b + tOf s m + a)) = some per ∧
      maxOfList per = some mm ∧ maxJobDuration s = some mj ∧ L = max mm mj := by
  unfold lowerBound at h
  simp only [bind, pure] at h
  by_cases h1 : (List.any s fun j => j.length != nmOf s) = true
  · simp [h1] at h
  · by_cases h2 : (List.any s fun j => j.any fun o => decide (o.fst ≥ nmOf s)) = true
    · simp [h1, h2] at h
    · simp only [h1, h2, if_false] at h
      obtain ⟨per, hper, h⟩ := Option.bind_eq_some_iff.mp h
      obtain ⟨mm, hmm, h⟩ := Option.bind_eq_some_iff.mp h
      obtain ⟨mj, hmj, h⟩ := Option.bind_eq_some_iff.mp h
      refine ⟨?_, per, mm, mj, hper, hmm, hmj, by simpa using h.symm⟩
      intro j hj
      simp only [List.any_eq_true, not_exists, not_and, bne_iff_ne, ne_eq, Decidable.not_not] at h1
      exact h1 j hj


end JSL
