import JSL.Inv.TotalDefs

/-!
# Room: a buffer that does not hold job `j` holds fewer jobs than the instance has

Conservation (`StructInv`): the ids in a store are pairwise different ids of jobs located there.  So
a buffer other than the one job `j` lies in holds at most all the other jobs.
-/

namespace JSL

variable {inst : Instance}

/-- **the room lemma** -/
theorem room_for (w : WF inst) {s : State} (hI : StructInv inst s) {j : JobState} (hj : j ∈ s.jobs)
    {b : BufState} (hb : b ∈ allBufStates s) (hne : j.loc ≠ b.id) :
    (b.store.length : Int) < (inst.jobs.length : Int) := by
  have hs := hI.shape
  have hnd := hs.jobsNodup w
  have hst : storeAt s b.id = b.store := storeAt_of_mem (hs.bufNodup w) hb
  have hjl : (j.id, j.loc) ∈ locs s := List.mem_map.mpr ⟨j, hj, rfl⟩
  have hnot : j.id ∉ b.store := by
    intro hin
    rw [← hst] at hin
    exact hne (unique_loc hnd hjl (hI.cons.stored _ _ hin))
  have hnd2 : (j.id :: b.store).Nodup := by
    rw [List.nodup_cons]
    exact ⟨hnot, by rw [← hst]; exact hI.cons.nodup b.id⟩
  have hsub : (j.id :: b.store) ⊆ s.jobs.map (·.id) := by
    intro x hx
    rcases List.mem_cons.mp hx with rfl | hx
    · exact List.mem_map.mpr ⟨j, hj, rfl⟩
    · rw [← hst] at hx
      have := hI.cons.stored _ _ hx
      obtain ⟨j', hj', e⟩ := List.mem_map.mp this
      simp only [Prod.mk.injEq] at e
      exact List.mem_map.mpr ⟨j', hj', e.1⟩
  have hle := List.Nodup.length_le_of_subset hnd2 hsub
  have hlen : (s.jobs.map (·.id)).length = inst.jobs.length := by
    rw [hs.jobIds]; simp
  simp only [List.length_cons] at hle
  omega

/-- the configuration found for a buffer of the state has the capacity of *the* configuration with
that id -/
theorem cfg_of_id (w : WF inst) {c c' : BufCfg} (hc : c ∈ allBufCfgs inst) (hc' : c' ∈ allBufCfgs inst)
    (hid : c.id = c'.id) : c = c' :=
  eq_of_mem_of_key_eq (key := fun (y : BufCfg) => y.id) w.bufNodup hc hc' hid

end JSL
